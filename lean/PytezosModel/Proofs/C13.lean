import PytezosModel.Michelson.Entrypoints
/-! helper lemmas for C13 (entrypoints) -/
namespace Impl.Entrypoints
open Spec.Entrypoints

/-! ### dict lemmas -/
section dict
variable {κ α : Type} [DecidableEq κ]

theorem dget_mem {xs : List (κ × α)} {k : κ} {v : α} (h : dget xs k = some v) : (k, v) ∈ xs := by
  induction xs with
  | nil => simp [dget] at h
  | cons e rest ih =>
    obtain ⟨k', v'⟩ := e
    simp only [dget] at h
    split at h
    · rename_i hk; cases h; subst hk; simp
    · exact List.mem_cons_of_mem _ (ih h)

theorem dget_isSome_of_mem {xs : List (κ × α)} {k : κ} {v : α} (h : (k, v) ∈ xs) : ∃ v', dget xs k = some v' := by
  induction xs with
  | nil => simp at h
  | cons e rest ih =>
    obtain ⟨k', v'⟩ := e
    simp only [dget]
    split
    · exact ⟨_, rfl⟩
    · rename_i hk
      rcases List.mem_cons.mp h with h | h
      · cases h; exact absurd rfl hk
      · exact ih h

theorem dget_none_of_not_mem {xs : List (κ × α)} {k : κ} (h : k ∉ xs.map (·.1)) : dget xs k = none := by
  induction xs with
  | nil => rfl
  | cons e rest ih =>
    obtain ⟨k', v'⟩ := e
    simp only [List.map_cons, List.mem_cons, not_or] at h
    simp only [dget]
    rw [if_neg (fun hk => h.1 hk.symm)]
    exact ih h.2

/-- with unique keys the lookup finds exactly the listed value -/
theorem dget_of_mem_nodup {xs : List (κ × α)} {k : κ} {v : α} (hn : (xs.map (·.1)).Nodup) (h : (k, v) ∈ xs) :
    dget xs k = some v := by
  induction xs with
  | nil => simp at h
  | cons e rest ih =>
    obtain ⟨k', v'⟩ := e
    simp only [List.map_cons, List.nodup_cons] at hn
    simp only [dget]
    rcases List.mem_cons.mp h with h | h
    · cases h; simp
    · have : k' ≠ k := by
        intro hk; subst hk
        exact hn.1 (List.mem_map.mpr ⟨(k', v), h, rfl⟩)
      rw [if_neg this]; exact ih hn.2 h

theorem dset_of_not_mem {xs : List (κ × α)} {k : κ} {v : α} (h : k ∉ xs.map (·.1)) : dset xs k v = xs ++ [(k, v)] := by
  induction xs with
  | nil => rfl
  | cons e rest ih =>
    obtain ⟨k', v'⟩ := e
    simp only [List.map_cons, List.mem_cons, not_or] at h
    simp only [dset]
    rw [if_neg (fun hk => h.1 hk.symm), ih h.2]; rfl

/-- building a dict from pairs with distinct keys keeps the list -/
theorem foldl_dset_nodup {β : Type} (f : β → κ × α) (ys : List β) (acc : List (κ × α))
    (hn : ((acc ++ ys.map f).map (·.1)).Nodup) :
    ys.foldl (fun d e => dset d (f e).1 (f e).2) acc = acc ++ ys.map f := by
  induction ys generalizing acc with
  | nil => simp
  | cons y ys ih =>
    simp only [List.foldl_cons, List.map_cons]
    have hnot : (f y).1 ∉ acc.map (·.1) := by
      simp only [List.map_append, List.map_cons] at hn
      have := (List.nodup_append.mp hn).2.2
      intro hm
      exact this _ hm _ (List.mem_cons_self) rfl
    rw [dset_of_not_mem hnot]
    have : acc ++ f y :: ys.map f = (acc ++ [((f y).1, (f y).2)]) ++ ys.map f := by simp
    rw [this]
    apply ih
    rw [← this]; exact hn

/-- `d[k] = v` on a dict with distinct keys: the other entries stay, `k` now maps to `v` -/
theorem dset_perm {xs : List (κ × α)} {k : κ} {v : α} (hn : (xs.map (·.1)).Nodup) :
    (dset xs k v).Perm (xs.filter (fun e => decide (e.1 ≠ k)) ++ [(k, v)]) := by
  induction xs with
  | nil => simp [dset]
  | cons x rest ih =>
    obtain ⟨k', v'⟩ := x
    simp only [List.map_cons, List.nodup_cons] at hn
    simp only [dset]
    split
    · rename_i hk
      subst hk
      have hf : rest.filter (fun e => decide (e.1 ≠ k')) = rest := by
        apply List.filter_eq_self.mpr
        intro e he
        have : e.1 ≠ k' := fun h => hn.1 (List.mem_map.mpr ⟨e, he, h⟩)
        simpa using this
      simp only [List.filter_cons, ne_eq, not_true_eq_false, decide_false, Bool.false_eq_true, if_false, hf]
      exact (List.perm_append_singleton _ _).symm
    · rename_i hk
      simp only [List.filter_cons, ne_eq, hk, not_false_eq_true, decide_true, if_true, List.cons_append]
      exact List.Perm.cons _ (ih hn.2)

end dict

/-! ### structure of `iter_type_args(entrypoints=True)` and of the layout -/

def keyOf (t : PTy) : String := t.ann.getD ""

theorem named_some {a : Option String} {n : String} (h : named a = some n) : a = some n ∧ n ≠ "" := by
  unfold named at h
  split at h
  · split at h
    · cases h
    · rename_i hs; cases h; exact ⟨rfl, hs⟩
  · cases h

theorem named_isSome {a : Option String} (h : (named a).isSome) : ∃ n, a = some n ∧ n ≠ "" ∧ named a = some n := by
  obtain ⟨n, hn⟩ := Option.isSome_iff_exists.mp h
  exact ⟨n, (named_some hn).1, (named_some hn).2, hn⟩

/-- every yielded argument sits at the yielded path and is annotated -/
theorem iterChild_mem {t : PTy} {pre q : Path} {arg : PTy} (h : (q, arg) ∈ iterChild t pre) :
    ∃ q', q = pre ++ q' ∧ nodeAt t q' = some arg ∧ ∃ n, arg.ann = some n ∧ n ≠ "" := by
  induction t generalizing pre with
  | leaf a ty =>
    simp only [iterChild] at h
    split at h
    · rename_i hn
      simp only [List.mem_singleton, Prod.mk.injEq] at h
      obtain ⟨rfl, rfl⟩ := h
      obtain ⟨n, h1, h2, _⟩ := named_isSome hn
      exact ⟨[], by simp, by simp [nodeAt], n, by simpa [PTy.ann] using h1, h2⟩
    · simp at h
  | or a l r ihl ihr =>
    simp only [iterChild, List.mem_append] at h
    rcases h with h | h | h
    · split at h
      · rename_i hn
        simp only [List.mem_singleton, Prod.mk.injEq] at h
        obtain ⟨rfl, rfl⟩ := h
        obtain ⟨n, h1, h2, _⟩ := named_isSome hn
        exact ⟨[], by simp, by simp [nodeAt], n, by simpa [PTy.ann] using h1, h2⟩
      · simp at h
    · obtain ⟨q', rfl, hn, hk⟩ := ihl h
      exact ⟨false :: q', by simp, by simpa [nodeAt] using hn, hk⟩
    · obtain ⟨q', rfl, hn, hk⟩ := ihr h
      exact ⟨true :: q', by simp, by simpa [nodeAt] using hn, hk⟩

theorem iterChild_branches (t : PTy) (pre : Path) :
    (iterChild t pre).map (fun e => (keyOf e.2, e.2.anon)) = branches t := by
  induction t generalizing pre with
  | leaf a ty =>
    simp only [iterChild, branches]
    cases hn : named a with
    | none => simp
    | some n =>
      obtain ⟨rfl, _⟩ := named_some hn
      simp [keyOf, PTy.ann, PTy.anon]
  | or a l r ihl ihr =>
    simp only [iterChild, branches, List.map_append, ihl, ihr]
    cases hn : named a with
    | none => simp
    | some n =>
      obtain ⟨rfl, _⟩ := named_some hn
      simp [keyOf, PTy.ann, PTy.anon]

theorem iterTypeArgs_branches (p : PTy) :
    (iterTypeArgs p).map (fun e => (keyOf e.2, e.2.anon)) = properBranches p := by
  cases p with
  | leaf a t => simp [iterTypeArgs, properBranches]
  | or a l r => simp [iterTypeArgs, properBranches, iterChild_branches]

theorem iterTypeArgs_mem {p : PTy} {q : Path} {arg : PTy} (h : (q, arg) ∈ iterTypeArgs p) :
    q ≠ [] ∧ nodeAt p q = some arg ∧ ∃ n, arg.ann = some n ∧ n ≠ "" := by
  cases p with
  | leaf a t => simp [iterTypeArgs] at h
  | or a l r =>
    simp only [iterTypeArgs, List.mem_append] at h
    rcases h with h | h
    · obtain ⟨q', rfl, hn, hk⟩ := iterChild_mem h
      exact ⟨by simp, by simpa [nodeAt] using hn, hk⟩
    · obtain ⟨q', rfl, hn, hk⟩ := iterChild_mem h
      exact ⟨by simp, by simpa [nodeAt] using hn, hk⟩


def flatNames (flat : List (Path × PTy)) : List String := flat.map (fun e => keyOf e.2)
def flatKeys (flat : List (Path × PTy)) : List (Path × String) := flat.map (fun e => (e.1, keyOf e.2))
@[simp] theorem flatNames_cons (e rest) : flatNames (e :: rest) = keyOf e.2 :: flatNames rest := rfl
@[simp] theorem flatKeys_cons (e rest) : flatKeys (e :: rest) = (e.1, keyOf e.2) :: flatKeys rest := rfl

theorem layoutGo_eq (flat : List (Path × PTy)) (reserved : List String) (acc : List (Path × String))
    (hann : ∀ e ∈ flat, ∃ n, e.2.ann = some n) :
    layoutGo flat reserved acc =
      if (flatNames flat).Nodup ∧ ∀ k ∈ flatNames flat, k ∉ reserved
      then .ok (acc ++ flatKeys flat) else .error .duplicateKey := by
  induction flat generalizing reserved acc with
  | nil => simp [layoutGo, flatNames, flatKeys]
  | cons e rest ih =>
    obtain ⟨path, arg⟩ := e
    obtain ⟨n, hn⟩ := hann (path, arg) (List.mem_cons_self)
    have hrest : ∀ e ∈ rest, ∃ n, e.2.ann = some n := fun e he => hann e (List.mem_cons_of_mem _ he)
    have hk : keyOf arg = n := by simp [keyOf, hn]
    simp only [layoutGo, hn, flatNames_cons, flatKeys_cons, hk, List.nodup_cons, List.mem_cons, forall_eq_or_imp]
    by_cases hr : n ∈ reserved
    · simp [hr]
    · rw [if_neg hr, ih _ _ hrest]
      by_cases hc : (n ∉ flatNames rest) ∧ (flatNames rest).Nodup ∧ ∀ k ∈ flatNames rest, k ∉ reserved
      · have h1 : (flatNames rest).Nodup ∧ ∀ k ∈ flatNames rest, k ∉ n :: reserved := by
          refine ⟨hc.2.1, fun k hk => ?_⟩
          simp only [List.mem_cons, not_or]
          exact ⟨fun h => hc.1 (h ▸ hk), hc.2.2 k hk⟩
        have h2 : (n ∉ flatNames rest ∧ (flatNames rest).Nodup) ∧ n ∉ reserved ∧ ∀ k ∈ flatNames rest, k ∉ reserved :=
          ⟨⟨hc.1, hc.2.1⟩, hr, hc.2.2⟩
        rw [if_pos h1, if_pos h2]; simp
      · have h1 : ¬ ((flatNames rest).Nodup ∧ ∀ k ∈ flatNames rest, k ∉ n :: reserved) := by
          intro ⟨ha, hb⟩
          apply hc
          refine ⟨fun hm => ?_, ha, fun k hk => ?_⟩
          · exact hb n hm (List.mem_cons_self)
          · exact fun hkr => hb k hk (List.mem_cons_of_mem _ hkr)
        have h2 : ¬ ((n ∉ flatNames rest ∧ (flatNames rest).Nodup) ∧ n ∉ reserved ∧ ∀ k ∈ flatNames rest, k ∉ reserved) := by
          intro ⟨⟨ha, hb⟩, _, hd⟩; exact hc ⟨ha, hb, hd⟩
        rw [if_neg h1, if_neg h2]

theorem flatNames_iterTypeArgs (p : PTy) : flatNames (iterTypeArgs p) = (properBranches p).map (·.1) := by
  rw [← iterTypeArgs_branches]; simp [flatNames]

theorem iterTypeArgs_ann (p : PTy) : ∀ e ∈ iterTypeArgs p, ∃ n, e.2.ann = some n := by
  intro e he
  obtain ⟨_, _, n, hn, _⟩ := iterTypeArgs_mem (p := p) (q := e.1) (arg := e.2) he
  exact ⟨n, hn⟩

theorem pathToKey_wf {p : PTy} (h : WellFormed p) : pathToKey p = .ok (flatKeys (iterTypeArgs p)) := by
  unfold pathToKey
  rw [layoutGo_eq _ _ _ (iterTypeArgs_ann p), flatNames_iterTypeArgs]
  have : ((properBranches p).map (·.1)).Nodup ∧ ∀ k ∈ (properBranches p).map (·.1), k ∉ ([] : List String) :=
    ⟨h, fun _ _ => by simp⟩
  rw [if_pos this]; simp

theorem pathToKey_not_wf {p : PTy} (h : ¬ WellFormed p) : pathToKey p = .error .duplicateKey := by
  unfold pathToKey
  rw [layoutGo_eq _ _ _ (iterTypeArgs_ann p), flatNames_iterTypeArgs]
  have : ¬ (((properBranches p).map (·.1)).Nodup ∧ ∀ k ∈ (properBranches p).map (·.1), k ∉ ([] : List String)) :=
    fun hh => h hh.1
  rw [if_neg this]

/-- the key recorded for a yielded path is the name of the node yielded there -/
theorem dget_flatKeys {p : PTy} {q : Path} {arg : PTy} (h : (q, arg) ∈ iterTypeArgs p) :
    dget (flatKeys (iterTypeArgs p)) q = some (keyOf arg) := by
  have hm : (q, keyOf arg) ∈ flatKeys (iterTypeArgs p) := List.mem_map.mpr ⟨(q, arg), h, rfl⟩
  obtain ⟨k', hk'⟩ := dget_isSome_of_mem hm
  have := dget_mem hk'
  obtain ⟨⟨q2, arg2⟩, h2, heq⟩ := List.mem_map.mp this
  simp only [Prod.mk.injEq] at heq
  obtain ⟨rfl, rfl⟩ := heq
  have a1 := (iterTypeArgs_mem h).2.1
  have a2 := (iterTypeArgs_mem h2).2.1
  rw [a1] at a2; cases a2
  exact hk'

theorem flatDict_eq (p2k : List (Path × String)) (flat : List (Path × PTy)) (acc : List (String × PTy))
    (hget : ∀ e ∈ flat, dget p2k e.1 = some (keyOf e.2))
    (hn : ((acc ++ flat.map (fun e => (keyOf e.2, e.2))).map (·.1)).Nodup) :
    flatDict p2k flat acc = .ok (acc ++ flat.map (fun e => (keyOf e.2, e.2))) := by
  induction flat generalizing acc with
  | nil => simp [flatDict]
  | cons e rest ih =>
    obtain ⟨path, arg⟩ := e
    have h1 := hget (path, arg) List.mem_cons_self
    simp only at h1
    simp only [flatDict, h1, List.map_cons]
    have hnot : keyOf arg ∉ acc.map (·.1) := by
      simp only [List.map_append, List.map_cons] at hn
      have := (List.nodup_append.mp hn).2.2
      intro hm
      exact this _ hm _ List.mem_cons_self rfl
    rw [dset_of_not_mem hnot]
    have e1 : acc ++ (keyOf arg, arg) :: rest.map (fun e => (keyOf e.2, e.2)) = (acc ++ [(keyOf arg, arg)]) ++ rest.map (fun e => (keyOf e.2, e.2)) := by simp
    rw [e1]
    apply ih _ (fun e he => hget e (List.mem_cons_of_mem _ he))
    rw [← e1]; simpa using hn

theorem getFlatArgs_wf {p : PTy} (h : WellFormed p) :
    getFlatArgs p = .ok ((iterTypeArgs p).map (fun e => (keyOf e.2, e.2))) := by
  unfold getFlatArgs
  rw [pathToKey_wf h]
  simp only [bind, Except.bind]
  have := flatDict_eq (flatKeys (iterTypeArgs p)) (iterTypeArgs p) []
    (fun e he => dget_flatKeys (q := e.1) (arg := e.2) he)
    (by
      have : ((iterTypeArgs p).map (fun e => (keyOf e.2, e.2))).map (·.1) = (properBranches p).map (·.1) := by
        rw [← flatNames_iterTypeArgs]; simp [flatNames]
      simpa [this, WellFormed] using h)
  simpa using this

theorem getFlatArgs_not_wf {p : PTy} (h : ¬ WellFormed p) : getFlatArgs p = .error .duplicateKey := by
  unfold getFlatArgs
  rw [pathToKey_not_wf h]; rfl

theorem dget_isSome_iff_mem {κ α : Type} [DecidableEq κ] (xs : List (κ × α)) (k : κ) :
    (dget xs k).isSome = true ↔ k ∈ xs.map (·.1) := by
  constructor
  · intro h
    obtain ⟨v, hv⟩ := Option.isSome_iff_exists.mp h
    exact List.mem_map.mpr ⟨(k, v), dget_mem hv, rfl⟩
  · intro h
    obtain ⟨⟨k', v⟩, hm, rfl⟩ := List.mem_map.mp h
    obtain ⟨v', hv'⟩ := dget_isSome_of_mem hm
    simp [hv']

theorem rootName_wf (c : Cfg) {p : PTy} (h : WellFormed p) :
    rootName c p = .ok (Spec.Entrypoints.rootName c.dflt c.root p) := by
  cases p with
  | leaf a t =>
    simp only [rootName, Spec.Entrypoints.rootName, PTy.ann, properBranches]
    cases named a <;> simp
  | or a l r =>
    simp only [rootName, Spec.Entrypoints.rootName, PTy.ann]
    cases hn : named a with
    | some n => rfl
    | none =>
      simp only [getFlatArgs_wf h, bind, Except.bind]
      have : (dget ((iterTypeArgs (.or a l r)).map (fun e => (keyOf e.2, e.2))) c.dflt).isSome = true ↔
          c.dflt ∈ (properBranches (.or a l r)).map (·.1) := by
        rw [dget_isSome_iff_mem, ← flatNames_iterTypeArgs]; simp [flatNames]
      by_cases hd : c.dflt ∈ (properBranches (.or a l r)).map (·.1)
      · rw [if_pos (this.mpr hd), if_pos hd]
      · rw [if_neg (fun hh => hd (this.mp hh)), if_neg hd]

/-! ### values -/

theorem decode_of_hasTy {p : PTy} {v : PVal} (h : hasTy v p = true) : decode p v = .ok v := by
  induction p generalizing v with
  | leaf a t =>
    cases v with
    | leaf t' x => simp only [hasTy, decide_eq_true_eq] at h; simp [decode, h]
    | left v => simp [hasTy] at h
    | right v => simp [hasTy] at h
  | or a l r ihl ihr =>
    cases v with
    | leaf t' x => simp [hasTy] at h
    | left v => simp only [hasTy] at h; simp [decode, ihl h, Except.map]
    | right v => simp only [hasTy] at h; simp [decode, ihr h, Except.map]

theorem hasTy_anon (v : PVal) (t : PTy) : hasTy v t.anon = hasTy v t := by
  cases t <;> cases v <;> simp [PTy.anon, hasTy]

theorem wrapParameters_eq_inject (a : PVal) (q : Path) : wrapParameters a q = inject a q := by
  induction q with
  | nil => rfl
  | cons b q ih => cases b <;> simp [wrapParameters, inject, ih]

theorem wrap_snoc_false (x : PVal) (pre : Path) : wrapParameters x (pre ++ [false]) = wrapParameters (.left x) pre := by
  induction pre with
  | nil => rfl
  | cons b pre ih => cases b <;> simp [wrapParameters, ih]

theorem wrap_snoc_true (x : PVal) (pre : Path) : wrapParameters x (pre ++ [true]) = wrapParameters (.right x) pre := by
  induction pre with
  | nil => rfl
  | cons b pre ih => cases b <;> simp [wrapParameters, ih]

theorem hasTy_wrap {p : PTy} {q : Path} {arg : PTy} {a : PVal} (hn : nodeAt p q = some arg) (ha : hasTy a arg = true) :
    hasTy (wrapParameters a q) p = true := by
  induction q generalizing p with
  | nil => simp only [nodeAt, Option.some.injEq] at hn; subst hn; exact ha
  | cons b q ih =>
    cases p with
    | leaf _ _ => simp [nodeAt] at hn
    | or _ l r =>
      cases b
      · simp only [nodeAt] at hn; simp only [wrapParameters, hasTy]; exact ih hn
      · simp only [nodeAt] at hn; simp only [wrapParameters, hasTy]; exact ih hn

theorem isOr_wrap (a : PVal) {q : Path} (h : q ≠ []) : (wrapParameters a q).isOr = true := by
  cases q with
  | nil => exact absurd rfl h
  | cons b q => cases b <;> rfl

theorem isOr_of_hasTy {v : PVal} {p : PTy} (h : hasTy v p = true) (hv : v.isOr = true) : p.isOr = true := by
  cases p with
  | leaf a t => cases v <;> simp_all [hasTy, PVal.isOr]
  | or a l r => rfl

/-! ### the walk of `to_parameters` -/

/-- what a pair (entrypoint, argument) has to satisfy so that `from_parameters` rebuilds the full value `V` -/
def Good (p2k : List (Path × String)) (rn : String) (V : PVal) (cur : String × PVal) : Prop :=
  cur = (rn, V) ∨ (cur.1 ≠ rn ∧ ∃ q, dget p2k q = some cur.1 ∧ wrapParameters cur.2 q = V)

theorem resolveGo_good (p2k : List (Path × String)) (rn : String) (V : PVal) (x : PVal) (pre : Path)
    (cur : String × PVal) (hw : wrapParameters x pre = V) (hg : Good p2k rn V cur) :
    Good p2k rn V (resolveGo p2k rn true x pre cur) := by
  induction x generalizing pre cur with
  | leaf t y => simpa [resolveGo] using hg
  | left v ih =>
    simp only [resolveGo]
    apply ih
    · rw [wrap_snoc_false]; exact hw
    · cases hd : dget p2k (pre ++ [false]) with
      | none => exact hg
      | some k =>
        by_cases hk : k = rn
        · simpa [hk] using hg
        · simp only [Bool.true_and, beq_iff_eq, hk, if_false]
          exact Or.inr ⟨hk, pre ++ [false], hd, by rw [wrap_snoc_false]; exact hw⟩
  | right v ih =>
    simp only [resolveGo]
    apply ih
    · rw [wrap_snoc_true]; exact hw
    · cases hd : dget p2k (pre ++ [true]) with
      | none => exact hg
      | some k =>
        by_cases hk : k = rn
        · simpa [hk] using hg
        · simp only [Bool.true_and, beq_iff_eq, hk, if_false]
          exact Or.inr ⟨hk, pre ++ [true], hd, by rw [wrap_snoc_true]; exact hw⟩

/-- walking a value that was built by wrapping a leaf argument at an unshadowed annotated path gives that pair back -/
theorem resolveGo_wrap_leaf (p2k : List (Path × String)) (rn e : String) (t x : Nat) (q : Path) (hq : q ≠ []) (pre : Path)
    (cur : String × PVal) (hd : dget p2k (pre ++ q) = some e) (he : e ≠ rn) :
    resolveGo p2k rn true (wrapParameters (.leaf t x) q) pre cur = (e, .leaf t x) := by
  induction q generalizing pre cur with
  | nil => exact absurd rfl hq
  | cons b q ih =>
    cases q with
    | nil =>
      cases b <;> simp [wrapParameters, resolveGo, hd, he]
    | cons b' q' =>
      have hd' : dget p2k ((pre ++ [b]) ++ (b' :: q')) = some e := by simpa using hd
      cases b
      · simp only [wrapParameters, resolveGo]
        exact ih (by simp) (pre ++ [false]) _ hd'
      · simp only [wrapParameters, resolveGo]
        exact ih (by simp) (pre ++ [true]) _ hd'

/-! ### `key_to_path` -/

theorem keyToPath_wf {p : PTy} (h : WellFormed p) :
    keyToPath p = .ok ((flatKeys (iterTypeArgs p)).map (fun e => (e.2, e.1))) := by
  unfold keyToPath
  rw [pathToKey_wf h]
  simp only [Except.map]
  congr 1
  have := foldl_dset_nodup (fun (e : Path × String) => (e.2, e.1)) (flatKeys (iterTypeArgs p)) []
    (by
      have : ((flatKeys (iterTypeArgs p)).map (fun e => (e.2, e.1))).map (·.1) = (properBranches p).map (·.1) := by
        rw [← flatNames_iterTypeArgs]; simp [flatNames, flatKeys]
      simpa [this, WellFormed] using h)
  simpa using this

theorem dget_keyToPath {p : PTy} (h : WellFormed p) {q : Path} {k : String}
    (hd : dget (flatKeys (iterTypeArgs p)) q = some k) :
    dget ((flatKeys (iterTypeArgs p)).map (fun e => (e.2, e.1))) k = some q := by
  apply dget_of_mem_nodup
  · have : ((flatKeys (iterTypeArgs p)).map (fun e => (e.2, e.1))).map (·.1) = (properBranches p).map (·.1) := by
      rw [← flatNames_iterTypeArgs]; simp [flatNames, flatKeys]
    rw [this]; exact h
  · exact List.mem_map.mpr ⟨(q, k), dget_mem hd, rfl⟩

/-- a pair that is `Good` is decoded by `from_parameters` into the full value -/
theorem fromParameters_good (c : Cfg) {p : PTy} (h : WellFormed p) {V : PVal} (hty : hasTy V p = true)
    (hor : p.isOr = true) {cur : String × PVal}
    (hg : Good (flatKeys (iterTypeArgs p)) (Spec.Entrypoints.rootName c.dflt c.root p) V cur) :
    fromParameters c p cur.1 cur.2 = .ok V := by
  unfold fromParameters
  rw [rootName_wf c h]
  simp only [bind, Except.bind]
  rcases hg with hg | ⟨hne, q, hd, hw⟩
  · rw [hg]; simp [decode_of_hasTy hty]
  · rw [if_neg hne]
    simp only [hor, Bool.not_true, Bool.false_eq_true, if_false, keyToPath_wf h, dget_keyToPath h hd, hw]
    exact decode_of_hasTy hty

/-! ### the three API functions on well-formed types -/

theorem listEntrypoints_wf (c : Cfg) {p : PTy} (h : WellFormed p) :
    listEntrypoints c p = .ok (dset (properBranches p) (Spec.Entrypoints.rootName c.dflt c.root p) p) := by
  unfold listEntrypoints
  rw [rootName_wf c h]
  cases p with
  | leaf a t => simp [bind, Except.bind, PTy.isOr, properBranches]
  | or a l r =>
    simp only [bind, Except.bind, PTy.isOr, if_true, getFlatArgs_wf h]
    have hfold := foldl_dset_nodup (fun (e : String × PTy) => (e.1, e.2.anon))
      ((iterTypeArgs (.or a l r)).map (fun e => (keyOf e.2, e.2))) []
      (by
        rw [List.nil_append]
        have : (((iterTypeArgs (.or a l r)).map (fun e => (keyOf e.2, e.2))).map (fun (e : String × PTy) => (e.1, e.2.anon))).map (·.1)
            = (properBranches (.or a l r)).map (·.1) := by
          rw [← flatNames_iterTypeArgs]; simp [flatNames]
        rw [this]; exact h)
    simp only [List.nil_append, List.map_map] at hfold
    rw [hfold]
    have : (iterTypeArgs (.or a l r)).map ((fun (e : String × PTy) => (e.1, e.2.anon)) ∘ (fun e => (keyOf e.2, e.2)))
        = properBranches (.or a l r) := by
      rw [← iterTypeArgs_branches]; rfl
    rw [this]

theorem listEntrypoints_not_wf (c : Cfg) {p : PTy} (h : ¬ WellFormed p) :
    listEntrypoints c p = .error .duplicateKey := by
  cases p with
  | leaf a t => exact absurd (by simp [WellFormed, properBranches]) h
  | or a l r =>
    unfold listEntrypoints
    simp only [rootName]
    cases hn : named a with
    | some n => simp [bind, Except.bind, PTy.isOr, getFlatArgs_not_wf h]
    | none => simp [bind, Except.bind, getFlatArgs_not_wf h]

theorem toParameters_good (c : Cfg) (hd : c.deepest = true) (hs : c.skipShadowed = true) {p : PTy} (h : WellFormed p)
    (v : PVal) :
    ∃ cur, toParameters c p v = .ok cur ∧
      Good (flatKeys (iterTypeArgs p)) (Spec.Entrypoints.rootName c.dflt c.root p) v cur := by
  unfold toParameters
  rw [rootName_wf c h]
  simp only [bind, Except.bind]
  by_cases hv : v.isOr = true
  · simp only [hv, if_true, pathToKey_wf h, hd, hs]
    exact ⟨_, rfl, resolveGo_good _ _ v v [] _ rfl (Or.inl rfl)⟩
  · simp only [hv, Bool.false_eq_true, if_false]
    exact ⟨_, rfl, Or.inl rfl⟩

/-- full value → (entrypoint, argument) → full value -/
theorem toParams_fromParams_core (c : Cfg) (hd : c.deepest = true) (hs : c.skipShadowed = true) {p : PTy}
    (h : WellFormed p) {v : PVal} (hty : hasTy v p = true) :
    ∃ e a, toParameters c p v = .ok (e, a) ∧ fromParameters c p e a = .ok v := by
  obtain ⟨cur, hto, hg⟩ := toParameters_good c hd hs h v
  refine ⟨cur.1, cur.2, hto, ?_⟩
  by_cases hv : v.isOr = true
  · exact fromParameters_good c h hty (isOr_of_hasTy hty hv) hg
  · -- a non-union value: the pair is (root name, v)
    have hcur : cur = (Spec.Entrypoints.rootName c.dflt c.root p, v) := by
      unfold toParameters at hto
      rw [rootName_wf c h] at hto
      simp only [bind, Except.bind, hv, Bool.false_eq_true, if_false, Except.ok.injEq] at hto
      exact hto.symm
    subst hcur
    unfold fromParameters
    rw [rootName_wf c h]
    simp [bind, Except.bind, decode_of_hasTy hty]

/-- what `list_entrypoints` lists, in terms of the type: the root, or an annotated proper branch -/
theorem mem_listEntrypoints (c : Cfg) {p : PTy} (h : WellFormed p) {d : List (String × PTy)}
    (hl : listEntrypoints c p = .ok d) {e : String} {τ : PTy} (hm : (e, τ) ∈ d) :
    (e = Spec.Entrypoints.rootName c.dflt c.root p ∧ τ = p) ∨
    (e ≠ Spec.Entrypoints.rootName c.dflt c.root p ∧ ∃ q arg, (q, arg) ∈ iterTypeArgs p ∧ e = keyOf arg ∧ τ = arg.anon) := by
  rw [listEntrypoints_wf c h] at hl
  cases hl
  have hp := dset_perm (xs := properBranches p) (k := Spec.Entrypoints.rootName c.dflt c.root p) (v := p) h
  have := hp.mem_iff.mp hm
  rcases List.mem_append.mp this with hf | hr
  · right
    have hf' := List.mem_filter.mp hf
    refine ⟨by simpa using hf'.2, ?_⟩
    rw [← iterTypeArgs_branches] at hf'
    obtain ⟨⟨q, arg⟩, hq, heq⟩ := List.mem_map.mp hf'.1
    simp only [Prod.mk.injEq] at heq
    exact ⟨q, arg, hq, heq.1.symm, heq.2.symm⟩
  · left
    simp only [List.mem_singleton, Prod.mk.injEq] at hr
    exact hr

/-- (entrypoint, argument) → full value: the value Tezos builds (argument injected at the branch's path) -/
theorem fromParameters_listed (c : Cfg) {p : PTy} (h : WellFormed p) {d : List (String × PTy)}
    (hl : listEntrypoints c p = .ok d) {e : String} {τ : PTy} (hm : (e, τ) ∈ d) {a : PVal} (ha : hasTy a τ = true) :
    ∃ q node, nodeAt p q = some node ∧ node.anon = τ.anon ∧
      fromParameters c p e a = .ok (inject a q) ∧ hasTy (inject a q) p = true ∧
      (q = [] ↔ e = Spec.Entrypoints.rootName c.dflt c.root p) := by
  rcases mem_listEntrypoints c h hl hm with ⟨he, hτ⟩ | ⟨hne, q, arg, hq, he, hτ⟩
  · subst hτ
    refine ⟨[], τ, by cases τ <;> rfl, rfl, ?_, by simpa [inject] using ha, by simp [he]⟩
    unfold fromParameters
    rw [rootName_wf c h]
    simp [bind, Except.bind, he, inject, decode_of_hasTy ha]
  · obtain ⟨hq0, hnode, _⟩ := iterTypeArgs_mem hq
    have ha' : hasTy a arg = true := by rw [hτ, hasTy_anon] at ha; exact ha
    have hor : p.isOr = true := by
      cases p with
      | leaf _ _ => simp [iterTypeArgs] at hq
      | or _ _ _ => rfl
    have hty := hasTy_wrap hnode ha'
    refine ⟨q, arg, hnode, by rw [hτ]; cases arg <;> rfl, ?_, by rw [← wrapParameters_eq_inject]; exact hty, ?_⟩
    · unfold fromParameters
      rw [rootName_wf c h]
      simp only [bind, Except.bind, if_neg hne, hor, Bool.not_true, Bool.false_eq_true, if_false, keyToPath_wf h]
      rw [he, dget_keyToPath h (dget_flatKeys hq)]
      simp only
      rw [decode_of_hasTy hty, wrapParameters_eq_inject]
    · constructor
      · intro hq'; exact absurd hq' hq0
      · intro he'; exact absurd he' hne

/-- a leaf-typed listed entrypoint that is not the root comes back as the very same pair -/
theorem toParameters_fromParameters_leaf (c : Cfg) (hd : c.deepest = true) (hs : c.skipShadowed = true) {p : PTy}
    (h : WellFormed p) {d : List (String × PTy)} (hl : listEntrypoints c p = .ok d) {e : String} {ann : Option String} {t x : Nat}
    (hm : (e, .leaf ann t) ∈ d) (hne : e ≠ Spec.Entrypoints.rootName c.dflt c.root p) :
    ∃ v, fromParameters c p e (.leaf t x) = .ok v ∧ toParameters c p v = .ok (e, .leaf t x) := by
  rcases mem_listEntrypoints c h hl hm with ⟨he, _⟩ | ⟨_, q, arg, hq, he, hτ⟩
  · exact absurd he hne
  · obtain ⟨q', node, _, _, hfrom, _, _⟩ := fromParameters_listed c h hl hm (a := .leaf t x) (by simp [hasTy])
    obtain ⟨hq0, _, _⟩ := iterTypeArgs_mem hq
    -- the same path: from_parameters is a function
    have hfrom2 : fromParameters c p e (.leaf t x) = .ok (wrapParameters (.leaf t x) q) := by
      have ha' : hasTy (.leaf t x) arg = true := by
        have : hasTy (PVal.leaf t x) (PTy.leaf ann t) = true := by simp [hasTy]
        rw [hτ, hasTy_anon] at this; exact this
      have hor : p.isOr = true := by
        cases p with
        | leaf _ _ => simp [iterTypeArgs] at hq
        | or _ _ _ => rfl
      unfold fromParameters
      rw [rootName_wf c h]
      simp only [bind, Except.bind, if_neg hne, hor, Bool.not_true, Bool.false_eq_true, if_false, keyToPath_wf h]
      rw [he, dget_keyToPath h (dget_flatKeys hq)]
      simp only
      rw [decode_of_hasTy (hasTy_wrap (iterTypeArgs_mem hq).2.1 ha')]
    refine ⟨_, hfrom2, ?_⟩
    unfold toParameters
    rw [rootName_wf c h]
    simp only [bind, Except.bind, isOr_wrap _ hq0, if_true, pathToKey_wf h, hd, hs]
    rw [resolveGo_wrap_leaf _ _ e t x q hq0 [] _ (by simpa [he] using dget_flatKeys hq) hne]

end Impl.Entrypoints
