import PytezosModel.Michelson.Interp.Impl
import PytezosModel.Proofs.InterpTables
/-! The protected-prefix stack of pytezos against plain lists: a stack whose protected prefix is `pre` and whose
visible part is `st` behaves, for every primitive, like the list `st`. -/
namespace Interp

/-- the `MichelsonStack` with items `pre ++ st` and `protected = |pre|` -/
def stk (pre st : List Val) : Stack := ⟨pre ++ st, pre.length⟩

namespace Stack

/-- the three index expressions of stack.py are `self.protected` (`Proofs/InterpTables.lean`) -/
@[simp] theorem idx_push (s : Stack) : s.idx Generated.C01.pushIndex = s.protected_ := by rw [pushIndex_eq]; rfl
@[simp] theorem idx_pop (s : Stack) : s.idx Generated.C01.popIndex = s.protected_ := by rw [popIndex_eq]; rfl
@[simp] theorem idx_peek (s : Stack) : s.idx Generated.C01.peekIndex = s.protected_ := by rw [peekIndex_eq]; rfl

@[simp] theorem push_mk (pre st : List Val) (v : Val) : (stk pre st).push v = stk pre (v :: st) := by
  simp [push, stk]

@[simp] theorem peek_mk_cons (pre st : List Val) (a : Val) : (stk pre (a :: st)).peek = .ok a := by
  simp [peek, stk]

theorem ite_self_stuck {α : Type} (c : Prop) [Decidable c] (r : Res α) :
    (if c then Res.stuck else if c then Res.stuck else r) = if c then Res.stuck else r := by
  by_cases h : c <;> simp [h]

theorem pop_mk (pre st : List Val) (n : Nat) :
    (stk pre st).pop n = if st.length < n then .stuck else .ok (st.take n, stk pre (st.drop n)) := by
  simp only [pop, idx_pop, stk, List.length_append, Nat.add_sub_cancel_left, List.drop_left, List.take_left, ite_self_stuck]

@[simp] theorem pop1_mk_cons (pre st : List Val) (a : Val) : (stk pre (a :: st)).pop1 = .ok (a, stk pre st) := by
  simp [pop1, pop_mk]

@[simp] theorem pop1_mk_nil (pre : List Val) : (stk pre []).pop1 = .stuck := by
  simp [pop1, pop_mk]

@[simp] theorem pop2_mk_cons (pre st : List Val) (a b : Val) :
    (stk pre (a :: b :: st)).pop2 = .ok (a, b, stk pre st) := by
  have h : ¬ (st.length + 1 + 1 < 2) := by omega
  simp [pop2, pop_mk, h]

@[simp] theorem pop2_mk_one (pre : List Val) (a : Val) : (stk pre [a]).pop2 = .stuck := by
  simp [pop2, pop_mk]

@[simp] theorem pop2_mk_nil (pre : List Val) : (stk pre []).pop2 = .stuck := by
  simp [pop2, pop_mk]

@[simp] theorem pop3_mk_cons (pre st : List Val) (a b c : Val) :
    (stk pre (a :: b :: c :: st)).pop3 = .ok (a, b, c, stk pre st) := by
  have h : ¬ (st.length + 1 + 1 + 1 < 3) := by omega
  simp [pop3, pop_mk, h]

theorem protect_mk (pre st : List Val) (n : Nat) (h : n ≤ st.length) :
    (stk pre st).protect n = .ok (stk (pre ++ st.take n) (st.drop n)) := by
  have h1 : ¬ (pre.length + st.length < n) := by omega
  simp [protect, stk, h1, List.length_take, Nat.min_eq_left h]

theorem restore_mk (pre xs st : List Val) :
    (stk (pre ++ xs) st).restore xs.length = .ok (stk pre (xs ++ st)) := by
  simp [restore, stk]

theorem restore_mk' (pre xs st : List Val) (n : Nat) (h : xs.length = n) :
    (stk (pre ++ xs) st).restore n = .ok (stk pre (xs ++ st)) := by
  subst h; exact restore_mk pre xs st

end Stack
end Interp
