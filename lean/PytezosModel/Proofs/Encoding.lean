import PytezosModel.Proofs.Base58
import PytezosModel.Crypto.Encoding
/-! Lemmas about the mirror of `crypto/encoding.py` over an arbitrary table: what `rowOk` buys (length and
human prefix of every encoding of the row), the encode → decode round trip, and soundness of decode. -/
namespace Impl.Encoding
open Base58

/-- byte strings -/
def IsBytes (bs : List Nat) : Prop := ∀ b ∈ bs, b < 256

theorem IsBytes.append {xs ys : List Nat} (hx : IsBytes xs) (hy : IsBytes ys) : IsBytes (xs ++ ys) := by
  intro b hb
  rcases List.mem_append.mp hb with h | h
  · exact hx b h
  · exact hy b h

/-- what the theorems assume about the checksum function: four bytes -/
structure CksOk (cks : List Nat → List Nat) : Prop where
  len : ∀ v, (cks v).length = 4
  bytes : ∀ v, IsBytes (cks v)

theorem rstrip_prefix (s : List Nat) : rstrip s <+: s := by
  induction s with
  | nil => simp [rstrip]
  | cons c cs ih =>
    simp only [rstrip]
    split
    · split
      · exact List.nil_prefix
      · exact List.prefix_iff_eq_append.mpr (by simp)
    next r hr => exact (List.cons_prefix_cons).mpr ⟨rfl, ih⟩

theorem rstrip_eq_of_length (s : List Nat) (h : (rstrip s).length = s.length) : rstrip s = s :=
  (rstrip_prefix s).eq_of_length h

theorem rstrip_append_nonspace (s : List Nat) (c : Nat) (hc : isSpace c = false) :
    rstrip (s ++ [c]) = s ++ [c] := by
  induction s with
  | nil => simp [rstrip, hc]
  | cons a as ih =>
    simp only [List.cons_append, rstrip, ih]
    cases h : as ++ [c] with
    | nil => simp at h
    | cons x xs => rfl

theorem digitChar_not_space : ∀ d, d < 58 → isSpace (digitChar d) = false := by decide

theorem rstrip_b58enc_nonempty (ds : List Nat) (hlt : ∀ d ∈ ds, d < 58) (hne : ds ≠ []) (pre : List Nat) :
    rstrip (pre ++ ds.map digitChar) = pre ++ ds.map digitChar := by
  induction ds using snoc_induction with
  | nil => exact absurd rfl hne
  | snoc xs d _ =>
    rw [List.map_append, List.map_singleton, ← List.append_assoc]
    exact rstrip_append_nonspace _ _ (digitChar_not_space d (hlt d (by simp)))

section Row
variable (r : Row) (hr : rowOk r = true)
include hr

theorem rowOk_bin_bytes : IsBytes r.bin := by
  unfold rowOk at hr
  split at hr
  · simp at hr
  · simp only [Bool.and_eq_true, List.all_eq_true, decide_eq_true_eq] at hr
    exact hr.1.1.2

theorem rowOk_bin_head : r.bin.head? ≠ some 0 ∧ r.bin ≠ [] := by
  unfold rowOk at hr
  split at hr
  · simp at hr
  · simp only [Bool.and_eq_true] at hr
    have := hr.1.1.1.2
    cases hb : r.bin with
    | nil => simp [hb] at this
    | cons b bs => simp [hb] at this ⊢; exact this

/-- **every** encoding of the row has the documented length and human prefix -/
theorem rowOk_enc (payload c : List Nat) (hp : payload.length = r.dataLen) (hpb : IsBytes payload)
    (hc : c.length = 4) (hcb : IsBytes c) :
    (b58enc (r.bin ++ payload ++ c)).length = r.encLen ∧ r.human <+: b58enc (r.bin ++ payload ++ c) ∧
      rstrip (b58enc (r.bin ++ payload ++ c)) = b58enc (r.bin ++ payload ++ c) := by
  have hbin := rowOk_bin_bytes r hr
  obtain ⟨hbh, hbne⟩ := rowOk_bin_head r hr
  unfold rowOk at hr
  split at hr
  · simp at hr
  next hd hhd =>
    simp only [Bool.and_eq_true, decide_eq_true_eq] at hr
    obtain ⟨⟨⟨⟨⟨hlen, hhead⟩, _⟩, _⟩, hlo⟩, hhi⟩ := hr
    obtain ⟨hdlt, hdmap⟩ := charsDigits_some _ _ hhd
    -- the human prefix as a digit string without leading zero
    have hdhead : hd.head? ≠ some 0 := by
      cases hd with
      | nil => simp
      | cons d ds => simp at hhead ⊢; exact hhead
    have hdne : hd ≠ [] := by
      cases hd with
      | nil => simp at hhead
      | cons d ds => simp
    have hh : 0 < ofDigits 58 hd := by
      cases hd with
      | nil => exact absurd rfl hdne
      | cons d ds =>
        simp at hhead
        rw [ofDigits_cons]
        have : 0 < d * 58 ^ ds.length := Nat.mul_pos (by omega) (Nat.pow_pos (by omega))
        omega
    -- no leading zero byte
    have hbs : (r.bin ++ payload ++ c).head? ≠ some 0 := by
      cases hb : r.bin with
      | nil => exact absurd hb hbne
      | cons b bs => rw [hb] at hbh; simpa using hbh
    have hlead : leading 0 (r.bin ++ payload ++ c) = 0 := by
      have := leading_replicate_append 0 0 _ hbs; simpa using this
    have hdrop : dropLeading 0 (r.bin ++ payload ++ c) = r.bin ++ payload ++ c := by
      have := dropLeading_replicate_append 0 0 _ hbs; simpa using this
    -- the numeral
    have hrest : ofDigits 256 (payload ++ c) < 256 ^ (r.dataLen + 4) := by
      have := ofDigits_lt_pow 256 (payload ++ c) (hpb.append hcb)
      simpa [hp, hc] using this
    have hN : ofDigits 256 (r.bin ++ payload ++ c) =
        ofDigits 256 r.bin * 256 ^ (r.dataLen + 4) + ofDigits 256 (payload ++ c) := by
      rw [List.append_assoc, ofDigits_append]; simp [hp, hc]
    have hlo' : ofDigits 58 hd * 58 ^ (r.encLen - r.human.length) ≤ ofDigits 256 (r.bin ++ payload ++ c) := by
      rw [hN]; omega
    have hhi' : ofDigits 256 (r.bin ++ payload ++ c) < (ofDigits 58 hd + 1) * 58 ^ (r.encLen - r.human.length) := by
      rw [hN]
      have : ofDigits 256 r.bin * 256 ^ (r.dataLen + 4) + ofDigits 256 (payload ++ c)
          < (ofDigits 256 r.bin + 1) * 256 ^ (r.dataLen + 4) := by rw [Nat.add_mul]; omega
      omega
    obtain ⟨tl, htl, hdig⟩ := toDigits_range 58 (by omega) _ _ _ hh hlo' hhi'
    rw [toDigits_ofDigits 58 (by omega) hd hdlt hdhead] at hdig
    have henc : b58enc (r.bin ++ payload ++ c) = r.human ++ tl.map digitChar := by
      unfold b58enc
      rw [hlead, hdrop, hdig, List.map_append, hdmap]; simp
    have hmaplen : r.human.length = hd.length := by rw [← hdmap]; simp
    refine ⟨?_, ?_, ?_⟩
    · rw [henc, List.length_append, List.length_map, htl]; omega
    · rw [henc]; exact List.prefix_append _ _
    · have hall := toDigits_lt 58 (ofDigits 256 (r.bin ++ payload ++ c)) (by omega)
      have hne : toDigits 58 (ofDigits 256 (r.bin ++ payload ++ c)) ≠ [] := by
        rw [hdig]; simp [hdne]
      have := rstrip_b58enc_nonempty _ hall hne (List.replicate (leading 0 (r.bin ++ payload ++ c)) 49)
      unfold b58enc
      rw [hdrop]
      exact this

end Row

/-! ### table search -/

theorem findDecodeRow_some (tbl : List Row) (s : List Nat) (r : Row) (h : findDecodeRow tbl s = some r) :
    r ∈ tbl ∧ s.length = r.encLen ∧ r.human <+: s := by
  unfold findDecodeRow at h
  have h1 := List.mem_of_find?_eq_some h
  have h2 := List.find?_some h
  simp only [Bool.and_eq_true, beq_iff_eq, List.isPrefixOf_iff_prefix] at h2
  exact ⟨h1, h2.1, h2.2⟩

theorem prefix_comparable {a b s : List Nat} (ha : a <+: s) (hb : b <+: s) : a <+: b ∨ b <+: a := by
  rcases Nat.le_total a.length b.length with h | h
  · exact Or.inl (List.prefix_of_prefix_length_le ha hb h)
  · exact Or.inr (List.prefix_of_prefix_length_le hb ha h)

/-- with pairwise disjoint rows, the row found for a string is *the* row that matches it -/
theorem findDecodeRow_unique (tbl : List Row)
    (hdis : ∀ a ∈ tbl, ∀ b ∈ tbl, rowsDisjoint a b = true)
    (s : List Nat) (r : Row) (hr : r ∈ tbl) (hl : s.length = r.encLen) (hp : r.human <+: s) :
    findDecodeRow tbl s = some r := by
  cases hf : findDecodeRow tbl s with
  | none =>
    unfold findDecodeRow at hf
    have := List.find?_eq_none.mp hf r hr
    simp [hl, List.isPrefixOf_iff_prefix, hp] at this
  | some r' =>
    obtain ⟨hr', hl', hp'⟩ := findDecodeRow_some tbl s r' hf
    have hd := hdis r hr r' hr'
    unfold rowsDisjoint at hd
    have hcmp := prefix_comparable hp hp'
    have hlen : r.encLen = r'.encLen := by omega
    simp only [Bool.or_eq_true, Bool.not_eq_true', Bool.and_eq_false_iff, beq_eq_false_iff_ne,
      Bool.or_eq_false_iff, beq_iff_eq] at hd
    rcases hd with (hne | ⟨h1, h2⟩) | heq
    · exact absurd hlen hne
    · rcases hcmp with h | h
      · have := List.isPrefixOf_iff_prefix.mpr h; rw [h1] at this; exact absurd this (by simp)
      · have := List.isPrefixOf_iff_prefix.mpr h; rw [h2] at this; exact absurd this (by simp)
    · rw [heq]

theorem findEncodeRow_unique (tbl : List Row)
    (hdis : ∀ a ∈ tbl, ∀ b ∈ tbl, rowsEncodeDistinct a b = true)
    (r : Row) (hr : r ∈ tbl) : findEncodeRow tbl r.dataLen r.human = some r := by
  cases hf : findEncodeRow tbl r.dataLen r.human with
  | none =>
    unfold findEncodeRow at hf
    have := List.find?_eq_none.mp hf r hr
    simp at this
  | some r' =>
    unfold findEncodeRow at hf
    have hr' := List.mem_of_find?_eq_some hf
    have h2 := List.find?_some hf
    simp only [Bool.and_eq_true, beq_iff_eq] at h2
    have hd := hdis r hr r' hr'
    unfold rowsEncodeDistinct at hd
    simp only [Bool.or_eq_true, Bool.not_eq_true', Bool.and_eq_false_iff, beq_eq_false_iff_ne,
      beq_iff_eq] at hd
    rcases hd with (h | h) | h
    · exact absurd h2.1 h
    · exact absurd h2.2 h
    · rw [h]

/-! ### Base58Check round trip -/

theorem take_drop_check (body c : List Nat) (hc : c.length = 4) :
    (body ++ c).take ((body ++ c).length - 4) = body ∧ (body ++ c).drop ((body ++ c).length - 4) = c := by
  have : (body ++ c).length - 4 = body.length := by simp [hc]
  rw [this]; simp

theorem b58decCheck_enc (cks : List Nat → List Nat) (hck : CksOk cks) (v : List Nat) (hv : IsBytes v)
    (hrs : rstrip (b58enc (v ++ cks v)) = b58enc (v ++ cks v)) :
    b58decCheck cks (b58encCheck cks v) = .ok v := by
  unfold b58decCheck b58encCheck
  rw [hrs, b58dec_b58enc _ (hv.append (hck.bytes v))]
  have := take_drop_check v (cks v) (hck.len v)
  simp only [this.1, this.2, if_true]

/-- what a successful `b58decode_check` tells about the string -/
theorem b58decCheck_ok (cks : List Nat → List Nat) (s data : List Nat) (h : b58decCheck cks s = .ok data) :
    IsBytes data ∧ rstrip s = b58enc (data ++ cks data) := by
  unfold b58decCheck at h
  split at h
  · simp at h
  next rbytes hdec =>
    simp only at h
    split at h
    next hchk =>
      simp at h
      have hb := b58dec_bytes _ _ hdec
      have henc := b58enc_of_b58dec _ _ hdec
      have hsplit : rbytes = data ++ cks data := by
        rw [← h, ← hchk, List.take_append_drop]
      refine ⟨?_, ?_⟩
      · intro b hbm; apply hb; rw [hsplit]; exact List.mem_append_left _ hbm
      · rw [← henc, hsplit]
    · simp at h

/-! ### encode, decode over a table whose rows are all `rowOk` -/

section Table
variable (tbl : List Row) (cks : List Nat → List Nat) (hck : CksOk cks)
  (hok : ∀ r ∈ tbl, rowOk r = true)
  (hdis : ∀ a ∈ tbl, ∀ b ∈ tbl, rowsDisjoint a b = true)
  (hed : ∀ a ∈ tbl, ∀ b ∈ tbl, rowsEncodeDistinct a b = true)

/-- the canonical encoding of payload `v` for row `r` -/
def encOf (cks : List Nat → List Nat) (r : Row) (v : List Nat) : List Nat := b58encCheck cks (r.bin ++ v)

include hck in
theorem encOf_shape (r : Row) (hrow : rowOk r = true) (v : List Nat) (hl : v.length = r.dataLen) (hv : IsBytes v) :
    (encOf cks r v).length = r.encLen ∧ r.human <+: encOf cks r v ∧ rstrip (encOf cks r v) = encOf cks r v := by
  have := rowOk_enc r hrow v (cks (r.bin ++ v)) hl hv (hck.len _) (hck.bytes _)
  unfold encOf b58encCheck
  exact this

include hed in
theorem encodeWith_row (r : Row) (hr : r ∈ tbl) (v : List Nat) (hl : v.length = r.dataLen) :
    encodeWith tbl cks v r.human = .ok (encOf cks r v) := by
  unfold encodeWith
  rw [hl, findEncodeRow_unique tbl hed r hr]; rfl

include hck hdis in
/-- decode ∘ encode for one row that satisfies `rowOk`, whatever validations decode performs -/
theorem decodeWith_enc (chkBin chkLen : Bool) (r : Row) (hr : r ∈ tbl) (hrow : rowOk r = true) (v : List Nat)
    (hl : v.length = r.dataLen) (hv : IsBytes v) :
    decodeWith tbl chkBin chkLen cks (encOf cks r v) = .ok v := by
  obtain ⟨h1, h2, h3⟩ := encOf_shape cks hck r hrow v hl hv
  have hbin := rowOk_bin_bytes r hrow
  unfold decodeWith
  rw [findDecodeRow_unique tbl hdis _ r hr h1 h2]
  simp only
  have hdec : b58decCheck cks (encOf cks r v) = .ok (r.bin ++ v) := by
    unfold encOf at h3 ⊢
    exact b58decCheck_enc cks hck (r.bin ++ v) (hbin.append hv) h3
  rw [hdec]
  simp [hl]

include hck hok in
/-- soundness of `base58_decode` when it validates the decoded bytes against the row: the only strings
that decode are the canonical encodings, of the row selected, of the payload returned -/
theorem decodeWith_sound (s v : List Nat) (h : decodeWith tbl true true cks s = .ok v) :
    ∃ r ∈ tbl, v.length = r.dataLen ∧ IsBytes v ∧ s = encOf cks r v := by
  unfold decodeWith at h
  split at h
  · simp at h
  next r hfind =>
    obtain ⟨hr, hlen, hpre⟩ := findDecodeRow_some tbl s r hfind
    split at h
    · simp at h
    · simp at h
    next data hdec =>
      obtain ⟨hdb, hrs⟩ := b58decCheck_ok cks s data hdec
      split at h
      · simp at h
      next hcond =>
        simp only [Bool.true_and, Bool.or_eq_true, Bool.not_eq_true', not_or, Bool.not_eq_false,
          beq_iff_eq, List.isPrefixOf_iff_prefix] at hcond
        obtain ⟨⟨t, ht⟩, hdl⟩ := hcond
        simp at h
        have hv : v = t := by rw [← h, ← ht]; simp
        subst hv
        have hvl : v.length = r.dataLen := by rw [← ht] at hdl; simp at hdl; exact hdl
        have hvb : IsBytes v := fun b hb => hdb b (by rw [← ht]; exact List.mem_append_right _ hb)
        obtain ⟨h1, _, _⟩ := encOf_shape cks hck r (hok r hr) v hvl hvb
        -- `rstrip s` is the canonical encoding, of full length, so nothing was stripped
        have hrs' : rstrip s = encOf cks r v := by rw [hrs, ← ht]; rfl
        have hs : rstrip s = s := by
          have hle : (rstrip s).length = s.length := by rw [hrs', h1, hlen]
          exact rstrip_eq_of_length s hle
        exact ⟨r, hr, hvl, hvb, by rw [← hs, hrs']⟩

include hck hok hdis in
/-- an encoding determines its row and its payload -/
theorem encOf_inj (r r' : Row) (hr : r ∈ tbl) (hr' : r' ∈ tbl) (v v' : List Nat)
    (hl : v.length = r.dataLen) (hv : IsBytes v) (hl' : v'.length = r'.dataLen) (hv' : IsBytes v')
    (h : encOf cks r v = encOf cks r' v') : r = r' ∧ v = v' := by
  obtain ⟨h1, h2, _⟩ := encOf_shape cks hck r (hok r hr) v hl hv
  obtain ⟨h1', h2', _⟩ := encOf_shape cks hck r' (hok r' hr') v' hl' hv'
  rw [← h] at h1' h2'
  have hf := findDecodeRow_unique tbl hdis _ r hr h1 h2
  have hf' := findDecodeRow_unique tbl hdis _ r' hr' h1' h2'
  have hrr : r = r' := Option.some.inj (hf.symm.trans hf')
  subst hrr
  refine ⟨rfl, ?_⟩
  have hbin := rowOk_bin_bytes r (hok r hr)
  unfold encOf b58encCheck at h
  have := b58enc_injective _ _ ((hbin.append hv).append (hck.bytes _)) ((hbin.append hv').append (hck.bytes _)) h
  have h3 : r.bin ++ v = r.bin ++ v' :=
    (List.append_inj this (by simp [hl, hl'])).1
  exact List.append_cancel_left h3

include hck hok hdis in
/-- `_validate` with the row-based prefix test accepts exactly the canonical encodings of the listed kinds -/
theorem validateWith_iff (prefixes : List (List Nat)) (s : List Nat) :
    validateWith tbl true true true cks prefixes s = .ok () ↔
      ∃ r ∈ tbl, r.human ∈ prefixes ∧ ∃ v, v.length = r.dataLen ∧ IsBytes v ∧ s = encOf cks r v := by
  unfold validateWith
  simp only [if_true]
  constructor
  · intro h
    split at h
    next hhit =>
      simp only [List.any_eq_true, Bool.and_eq_true, List.contains_iff_mem, beq_iff_eq,
        List.isPrefixOf_iff_prefix] at hhit
      obtain ⟨r, hr, hmem, hlen, hpre⟩ := hhit
      split at h
      next v hdec =>
        obtain ⟨r', hr', hvl, hvb, hs⟩ := decodeWith_sound tbl cks hck hok s v hdec
        obtain ⟨h1, h2, _⟩ := encOf_shape cks hck r' (hok r' hr') v hvl hvb
        rw [← hs] at h1 h2
        have hf := findDecodeRow_unique tbl hdis _ r hr hlen hpre
        have hf' := findDecodeRow_unique tbl hdis _ r' hr' h1 h2
        have hrr : r = r' := Option.some.inj (hf.symm.trans hf')
        subst hrr
        exact ⟨r, hr, hmem, v, hvl, hvb, hs⟩
      · simp at h
    · simp at h
  · rintro ⟨r, hr, hmem, v, hvl, hvb, hs⟩
    obtain ⟨h1, h2, _⟩ := encOf_shape cks hck r (hok r hr) v hvl hvb
    have hhit : (tbl.any fun r => prefixes.contains r.human && (s.length == r.encLen && r.human.isPrefixOf s)) = true := by
      simp only [List.any_eq_true, Bool.and_eq_true, List.contains_iff_mem, beq_iff_eq,
        List.isPrefixOf_iff_prefix]
      exact ⟨r, hr, hmem, by rw [hs]; exact h1, by rw [hs]; exact h2⟩
    rw [hhit, hs, decodeWith_enc tbl cks hck hdis true true r hr (hok r hr) v hvl hvb]
    simp

end Table

end Impl.Encoding
