import PytezosModel.Proofs.InterpStack
import PytezosModel.Michelson.Interp.Spec
/-! Right combs: pytezos' list-based helpers (`from_comb`, `iter_comb`, `unpairn_comb`, `access_comb`,
`update_comb`) against the n-indexed reference rules of PAIR n / UNPAIR n / GET n / UPDATE n. -/
namespace Interp
open Stack

-- the second group of rules unfolds together with the first
attribute [simp] Spec.stepMore Impl.stepMore Typing.stepMore Spec.stepExt Impl.stepExt Typing.stepExt Spec.unV Impl.execUn Typing.unTy

theorem fromComb_cons (a : Val) (xs : List Val) (r : Val) (h : Impl.fromComb xs = .ok r) :
    Impl.fromComb (a :: xs) = .ok (.pair a r) := by
  rcases xs with _ | ⟨b, _ | ⟨c, rest⟩⟩
  · simp [Impl.fromComb] at h
  · simp [Impl.fromComb] at h
  · simp only [Impl.fromComb, h]; rfl

theorem iterComb_pair (nodes : Bool) (a b : Val) :
    Impl.iterComb nodes (.pair a b) = (if nodes then [Val.pair a b] else []) ++ a :: Impl.iterComb nodes b := by
  simp [Impl.iterComb]

theorem iterComb_ne_nil (nodes : Bool) (v : Val) : Impl.iterComb nodes v ≠ [] := by
  cases v <;> simp [Impl.iterComb]

/-- rebuilding the leaves of a value behind one more leaf gives back the pair (by induction on the number of leaves) -/
theorem fromComb_leaves_aux : ∀ (k : Nat) (e a : Val), (Impl.iterComb false e).length ≤ k →
    Impl.fromComb (a :: Impl.iterComb false e) = .ok (.pair a e)
  | 0, e, a, h => by
    have := iterComb_ne_nil false e
    cases hl : Impl.iterComb false e with
    | nil => exact absurd hl this
    | cons x xs => rw [hl] at h; simp at h
  | k + 1, e, a, h => by
    cases e
    case pair c d =>
      rw [iterComb_pair] at h ⊢
      simp only [Bool.false_eq_true, if_false, List.nil_append, List.length_cons] at h ⊢
      exact fromComb_cons a _ _ (fromComb_leaves_aux k d c (by omega))
    all_goals simp [Impl.iterComb, Impl.fromComb]

theorem fromComb_leaves (e a : Val) : Impl.fromComb (a :: Impl.iterComb false e) = .ok (.pair a e) :=
  fromComb_leaves_aux _ e a (Nat.le_refl _)

/-- `leaves.extend(element.iter_comb())` / `leaves.append(element)` are the leaves of the element -/
theorem elementLeaves_eq (e : Val) : Impl.elementLeaves e = Impl.iterComb false e := by
  cases e <;> simp [Impl.elementLeaves, Impl.iterComb]

theorem replaceLeaf_shift (n : Nat) (e : Val) : ∀ (xs : List Val) (i : Nat),
    Impl.replaceLeaf (n + 2) e (i + 1) xs = Impl.replaceLeaf n e i xs
  | [], _ => by simp [Impl.replaceLeaf]
  | x :: xs, i => by
    have hc : (if 2 * (i + 1) + 1 = n + 2 then e else x) = (if 2 * i + 1 = n then e else x) := by
      by_cases h : 2 * i + 1 = n
      · have h' : 2 * (i + 1) + 1 = n + 2 := by omega
        rw [if_pos h, if_pos h']
      · have h' : ¬ 2 * (i + 1) + 1 = n + 2 := by omega
        rw [if_neg h, if_neg h']
    simp only [Impl.replaceLeaf]
    rw [replaceLeaf_shift n e xs (i + 1), hc]

theorem replaceLeaf_past (n : Nat) (e : Val) : ∀ (xs : List Val) (i : Nat), n < 2 * i + 1 →
    Impl.replaceLeaf n e i xs = xs
  | [], _, _ => by simp [Impl.replaceLeaf]
  | x :: xs, i, h => by
    have h' : ¬ (2 * i + 1 = n) := by omega
    simp only [Impl.replaceLeaf]
    rw [replaceLeaf_past n e xs (i + 1) (by omega), if_neg h']

theorem leavesBelow_shift (n : Nat) : ∀ (xs : List Val) (i : Nat),
    Impl.leavesBelow (n + 2) (i + 1) xs = Impl.leavesBelow n i xs
  | [], _ => by simp [Impl.leavesBelow]
  | x :: xs, i => by
    simp only [Impl.leavesBelow]
    rw [leavesBelow_shift n xs (i + 1)]
    by_cases h : 2 * i + 1 < n
    · have h' : 2 * (i + 1) + 1 < n + 2 := by omega
      rw [if_pos h, if_pos h']
    · have h' : ¬ 2 * (i + 1) + 1 < n + 2 := by omega
      rw [if_neg h, if_neg h']

theorem leavesBelow_zero : ∀ (xs : List Val) (i : Nat), Impl.leavesBelow 0 i xs = []
  | [], _ => by simp [Impl.leavesBelow]
  | x :: xs, i => by simp [Impl.leavesBelow, leavesBelow_zero xs (i + 1)]

/-- **UPDATE n** (n ≥ 1): `update_comb` computes the reference result, and the updated value is a pair -/
theorem updateComb_refines : ∀ (n : Nat) (e v r : Val), 1 ≤ n → Spec.updateN n e v = some r →
    (∃ a b, v = .pair a b) ∧ Impl.updateComb n e v = .ok r
  | 0, _, _, _, hn, _ => by omega
  | 1, e, v, r, _, h => by
    cases v <;> first | (simp [Spec.updateN] at h; done) | skip
    rename_i a b
    simp only [Spec.updateN, Option.some.injEq] at h
    subst h
    refine ⟨⟨a, b, rfl⟩, ?_⟩
    simp only [Impl.updateComb, iterComb_pair, Bool.false_eq_true, if_false, List.nil_append, Impl.replaceLeaf,
      if_true, Nat.mul_zero, Nat.zero_add]
    rw [replaceLeaf_past 1 e _ 1 (by omega)]
    exact fromComb_leaves b e
  | n + 2, e, v, r, _, h => by
    cases v <;> first | (simp [Spec.updateN] at h; done) | skip
    rename_i a b
    simp only [Spec.updateN] at h
    cases hq : Spec.updateN n e b with
    | none => simp [hq] at h
    | some r' =>
      simp only [hq, Option.map_some, Option.some.injEq] at h
      subst h
      refine ⟨⟨a, b, rfl⟩, ?_⟩
      have hpar : (n + 2) % 2 = n % 2 := by omega
      simp only [Impl.updateComb, hpar, iterComb_pair, Bool.false_eq_true, if_false, List.nil_append,
        Impl.replaceLeaf, Impl.leavesBelow, elementLeaves_eq]
      have h0 : ¬ (2 * 0 + 1 = n + 2) := by omega
      have h1 : 2 * 0 + 1 < n + 2 := by omega
      simp only [h0, h1, if_false, if_true, replaceLeaf_shift, leavesBelow_shift, List.cons_append]
      cases n with
      | zero =>
        -- `UPDATE 2`: the CDR is replaced by the element
        simp only [Spec.updateN, Option.some.injEq] at hq
        subst hq
        simp only [Nat.zero_mod, Nat.zero_ne_one, if_false, leavesBelow_zero, List.nil_append]
        exact fromComb_leaves e a
      | succ m =>
        obtain ⟨_, ih⟩ := updateComb_refines (m + 1) e b r' (by omega) hq
        simp only [Impl.updateComb, elementLeaves_eq] at ih
        split
        · rename_i hodd
          simp only [hodd, if_true] at ih
          exact fromComb_cons a _ _ ih
        · rename_i hodd
          simp only [hodd, if_false] at ih
          exact fromComb_cons a _ _ ih

/-- **GET n**: `access_comb` enumerates `iter_comb(include_nodes=True)` -/
theorem accessComb_refines : ∀ (n : Nat) (v r : Val), Spec.getN n v = some r →
    (Impl.iterComb true v)[n]? = some r
  | 0, v, r, h => by
    simp only [Spec.getN, Option.some.injEq] at h
    subst h
    cases v <;> simp [Impl.iterComb]
  | 1, v, r, h => by
    cases v <;> first | (simp [Spec.getN] at h; done) | skip
    simp only [Spec.getN, Option.some.injEq] at h
    subst h
    simp [Impl.iterComb]
  | n + 2, v, r, h => by
    cases v <;> first | (simp [Spec.getN] at h; done) | skip
    rename_i a b
    simp only [Spec.getN] at h
    have := accessComb_refines n b r h
    simpa [Impl.iterComb] using this

theorem getN_pair (n : Nat) (v r : Val) (hn : n ≠ 0) (h : Spec.getN n v = some r) : ∃ a b, v = .pair a b := by
  cases n with
  | zero => exact absurd rfl hn
  | succ n =>
    cases n <;> cases v <;> first | (simp [Spec.getN] at h; done) | exact ⟨_, _, rfl⟩

/-- **UNPAIR n**: `unpairn_comb(n - 2)` yields the `n` components -/
theorem unpairnComb_refines : ∀ (n : Nat) (v : Val) (xs : List Val), Spec.unpairN n v = some xs →
    2 ≤ n ∧ (∃ a b, v = .pair a b) ∧ Impl.unpairnComb (n - 2) v = xs
  | 0, v, xs, h => by cases v <;> simp [Spec.unpairN] at h
  | 1, v, xs, h => by cases v <;> simp [Spec.unpairN] at h
  | 2, v, xs, h => by
    cases v <;> first | (simp [Spec.unpairN] at h; done) | skip
    rename_i a b
    simp only [Spec.unpairN, Option.some.injEq] at h
    subst h
    refine ⟨by omega, ⟨a, b, rfl⟩, ?_⟩
    cases b <;> simp [Impl.unpairnComb]
  | n + 3, v, xs, h => by
    cases v <;> first | (simp [Spec.unpairN] at h; done) | skip
    rename_i a b
    simp only [Spec.unpairN] at h
    cases hq : Spec.unpairN (n + 2) b with
    | none => simp [hq] at h
    | some xs' =>
      simp only [hq, Option.map_some, Option.some.injEq] at h
      subst h
      obtain ⟨_, ⟨c, d, rfl⟩, ih⟩ := unpairnComb_refines (n + 2) b xs' hq
      refine ⟨by omega, ⟨a, _, rfl⟩, ?_⟩
      have : n + 3 - 2 = n + 1 := by omega
      rw [this]
      simp only [Nat.add_sub_cancel] at ih
      simp [Impl.unpairnComb, ih]

/-- **PAIR n**: `from_comb` of the popped leaves -/
theorem fromComb_refines : ∀ (n : Nat) (st : List Val) (r : Val) (st' : List Val), Spec.pairN n st = some (r, st') →
    2 ≤ n ∧ n ≤ st.length ∧ Impl.fromComb (st.take n) = .ok r ∧ st' = st.drop n
  | 0, st, r, st', h => by simp [Spec.pairN] at h
  | 1, st, r, st', h => by simp [Spec.pairN] at h
  | 2, st, r, st', h => by
    rcases st with _ | ⟨a, _ | ⟨b, st⟩⟩ <;> simp [Spec.pairN] at h
    obtain ⟨rfl, rfl⟩ := h
    simp [Impl.fromComb]
  | n + 3, st, r, st', h => by
    rcases st with _ | ⟨a, st⟩
    · simp [Spec.pairN] at h
    simp only [Spec.pairN] at h
    cases hq : Spec.pairN (n + 2) st with
    | none => simp [hq] at h
    | some p =>
      obtain ⟨r', st''⟩ := p
      simp only [hq, Option.map_some, Option.some.injEq, Prod.mk.injEq] at h
      obtain ⟨rfl, rfl⟩ := h
      obtain ⟨h1, h2, h3, h4⟩ := fromComb_refines (n + 2) st r' st'' hq
      refine ⟨by omega, by simp; omega, ?_, by simp [h4]⟩
      simp only [List.take_succ_cons]
      exact fromComb_cons a _ _ h3

/-- `for leaf in reversed(leaves): stack.push(leaf)` -/
theorem push_reversed (pre st : List Val) : ∀ (xs : List Val),
    xs.reverse.foldl Stack.push (stk pre st) = stk pre (xs ++ st)
  | [] => rfl
  | x :: xs => by
    simp only [List.reverse_cons, List.foldl_append, List.foldl_cons, List.foldl_nil, push_reversed pre st xs, push_mk,
      List.cons_append]

end Interp
