import PytezosModel.Michelson.Arith
/-! Helper lemmas for C16: the CPython primitives re-defined in `PyNum` satisfy the characterisations the Python
reference gives for them (bit_length, divmod, to_bytes / from_bytes), and the digit-by-digit bitwise combination
computes two's-complement bits. -/
set_option linter.unusedSimpArgs false
set_option linter.unusedVariables false

namespace PyNum

/-! ### bit_length -/

theorem bitsAux_le_iff (f : Nat) : ∀ n k, n < 2 ^ f → (bitsAux f n ≤ k ↔ n < 2 ^ k) := by
  induction f with
  | zero =>
    intro n k h
    have : n = 0 := by simpa using h
    subst this
    simp [bitsAux, Nat.two_pow_pos]
  | succ f ih =>
    intro n k h
    unfold bitsAux
    by_cases hn : n = 0
    · subst hn; simp [Nat.two_pow_pos]
    · simp only [hn, if_false]
      cases k with
      | zero => simp; omega
      | succ k =>
        have h2 : n / 2 < 2 ^ f := by rw [Nat.pow_succ] at h; omega
        have := ih (n / 2) k h2
        rw [Nat.pow_succ]
        omega

/-- Python's documented characterisation: `bit_length` is the least `k` with `|z| < 2^k` -/
theorem bitLength_le_iff (z : Int) (k : Nat) : bitLength z ≤ k ↔ z.natAbs < 2 ^ k :=
  bitsAux_le_iff _ _ _ Nat.lt_two_pow_self

theorem natAbs_lt_two_pow_bitLength (z : Int) : z.natAbs < 2 ^ bitLength z :=
  (bitLength_le_iff z _).1 (Nat.le_refl _)

theorem two_pow_le_natAbs (z : Int) (h : 0 < bitLength z) : 2 ^ (bitLength z - 1) ≤ z.natAbs := by
  have := bitLength_le_iff z (bitLength z - 1)
  omega

/-! ### divmod -/

/-- the three facts by which the Python reference defines `divmod` -/
theorem divmod_eq (a b : Int) : b * (divmod a b).1 + (divmod a b).2 = a := Int.mul_fdiv_add_fmod a b

theorem divmod_pos (a b : Int) (hb : 0 < b) : 0 ≤ (divmod a b).2 ∧ (divmod a b).2 < b :=
  ⟨Int.fmod_nonneg_of_pos a hb, Int.fmod_lt_of_pos a hb⟩

theorem divmod_neg (a b : Int) (hb : b < 0) : b < (divmod a b).2 ∧ (divmod a b).2 ≤ 0 := by
  simp only [divmod, Int.fmod_eq_emod]
  have h1 := Int.emod_nonneg a (Int.ne_of_lt hb)
  have h2 : a % b < -b := by
    have := Int.emod_lt_of_pos a (show 0 < -b by omega)
    simpa using this
  by_cases hd : b ∣ a
  · have : a % b = 0 := Int.emod_eq_zero_of_dvd hd
    simp [hd]; omega
  · have : a % b ≠ 0 := fun h => hd (Int.dvd_of_emod_eq_zero h)
    have hnn : ¬ (0 ≤ b) := by omega
    simp [hd, hnn]; omega

/-- EDIV's correction step turns floor division into Euclidean division -/
theorem divmod_euclid (x y : Int) (hy : y ≠ 0) :
    (if (divmod x y).2 < 0 then ((divmod x y).1 + 1, (divmod x y).2 + abs y) else divmod x y) = (x / y, x % y) := by
  have h1 := Int.emod_nonneg x hy
  simp only [divmod, Int.fdiv_eq_ediv, Int.fmod_eq_emod, abs]
  by_cases hp : 0 ≤ y
  · simp [hp]; omega
  · have hlt : x % y < -y := by
      have := Int.emod_lt_of_pos x (show 0 < -y by omega)
      simpa using this
    by_cases hd : y ∣ x
    · have : x % y = 0 := Int.emod_eq_zero_of_dvd hd
      simp [hd]; omega
    · have : x % y ≠ 0 := fun h => hd (Int.dvd_of_emod_eq_zero h)
      have hy' : y < 0 := by omega
      simp [hd, hp, hy']
      have hneg : x % y + y < 0 := by omega
      simp [hneg]
      omega


/-! ### base-256 digit strings -/

def BytesWF (bs : List Nat) : Prop := ∀ b ∈ bs, b < 256

theorem toBytesBE_length (k n : Nat) : (toBytesBE k n).length = k := by
  induction k generalizing n with
  | zero => rfl
  | succ k ih => simp [toBytesBE, ih]

theorem toBytesBE_wf (k n : Nat) : BytesWF (toBytesBE k n) := by
  induction k generalizing n with
  | zero => intro b hb; simp [toBytesBE] at hb
  | succ k ih =>
    intro b hb
    simp only [toBytesBE, List.mem_append, List.mem_singleton] at hb
    rcases hb with hb | hb
    · exact ih _ b hb
    · omega

theorem foldl_acc (bs : List Nat) (acc : Nat) :
    bs.foldl (fun acc b => acc * 256 + b) acc = acc * 256 ^ bs.length + fromBytesBE bs := by
  induction bs generalizing acc with
  | nil => simp [fromBytesBE]
  | cons b bs ih =>
    simp only [fromBytesBE, List.foldl_cons, List.length_cons]
    rw [ih, ih (0 * 256 + b)]
    simp only [fromBytesBE, Nat.pow_succ, Nat.add_mul, Nat.zero_mul, Nat.zero_add]
    rw [Nat.mul_assoc, Nat.mul_comm 256, Nat.add_assoc]

theorem fromBytesBE_cons (b : Nat) (bs : List Nat) :
    fromBytesBE (b :: bs) = b * 256 ^ bs.length + fromBytesBE bs := by
  simp only [fromBytesBE, List.foldl_cons]
  rw [foldl_acc]; simp [fromBytesBE]

theorem fromBytesBE_snoc (bs : List Nat) (d : Nat) : fromBytesBE (bs ++ [d]) = fromBytesBE bs * 256 + d := by
  simp [fromBytesBE, List.foldl_append]

theorem fromBytesBE_lt (bs : List Nat) (h : BytesWF bs) : fromBytesBE bs < 256 ^ bs.length := by
  induction bs with
  | nil => simp [fromBytesBE]
  | cons b bs ih =>
    have hb : b < 256 := h b (List.mem_cons_self ..)
    have := ih (fun x hx => h x (List.mem_cons_of_mem _ hx))
    rw [fromBytesBE_cons, List.length_cons, Nat.pow_succ]
    have hm : b * 256 ^ bs.length ≤ 255 * 256 ^ bs.length := Nat.mul_le_mul_right _ (by omega)
    omega

theorem fromBytesBE_toBytesBE (k n : Nat) (h : n < 256 ^ k) : fromBytesBE (toBytesBE k n) = n := by
  induction k generalizing n with
  | zero => simp at h; subst h; rfl
  | succ k ih =>
    rw [toBytesBE, fromBytesBE_snoc, ih]
    · omega
    · rw [Nat.pow_succ] at h; omega

/-- the first byte of a non-empty digit string decides whether the value reaches half of the range -/
theorem pow256 (k : Nat) : (256 : Nat) ^ k = 2 ^ (8 * k) := by
  rw [show (256 : Nat) = 2 ^ 8 by rfl, ← Nat.pow_mul]


theorem int_pow256 (L : Nat) (hL : 0 < L) : (256 : Int) ^ L = 2 * 2 ^ (8 * L - 1) := by
  have h8 : 8 * L = (8 * L - 1) + 1 := by omega
  rw [show (256 : Int) = 2 ^ 8 by rfl, ← Int.pow_mul, h8, Int.pow_succ]
  simp only [Nat.add_sub_cancel]
  omega

theorem nat_pow256 (L : Nat) (hL : 0 < L) : (256 : Nat) ^ L = 2 * 2 ^ (8 * L - 1) := by
  have h8 : 8 * L = (8 * L - 1) + 1 := by omega
  rw [show (256 : Nat) = 2 ^ 8 by rfl, ← Nat.pow_mul, h8, Nat.pow_succ]
  simp only [Nat.add_sub_cancel]
  omega

/-- decoding a signed fixed-width encoding gives the number back -/
theorem fromBytes_toBytes_signed (z : Int) (L : Nat) (bs : List Nat) (hL : 0 < L)
    (h : toBytes z L true = some bs) : fromBytes bs true = z := by
  unfold toBytes at h
  simp only [if_true] at h
  split at h
  next hr =>
    have hbs : toBytesBE L (z % 256 ^ L).toNat = bs := by simpa using h
    have hP : (0 : Int) < 2 ^ (8 * L - 1) := Int.pow_pos (by omega)
    have h256 := int_pow256 L hL
    have hn256 := nat_pow256 L hL
    have hmod0 : 0 ≤ z % 256 ^ L := Int.emod_nonneg _ (by rw [h256]; omega)
    have hmodlt : z % 256 ^ L < 256 ^ L := Int.emod_lt_of_pos _ (by rw [h256]; omega)
    have hlen : bs.length = L := by rw [← hbs, toBytesBE_length]
    have hne : bs ≠ [] := by intro h0; rw [h0] at hlen; simp at hlen; omega
    have hnlt : (z % 256 ^ L).toNat < 256 ^ L := by
      have : ((256 ^ L : Nat) : Int) = (256 : Int) ^ L := by simp
      omega
    have hval : fromBytesBE bs = (z % 256 ^ L).toNat := by rw [← hbs]; exact fromBytesBE_toBytesBE _ _ hnlt
    have hcast : (((z % 256 ^ L).toNat : Nat) : Int) = z % 256 ^ L := Int.toNat_of_nonneg hmod0
    have hcastP : ((2 ^ (8 * L - 1) : Nat) : Int) = (2 : Int) ^ (8 * L - 1) := by simp
    have hcastQ : ((2 ^ (8 * L) : Nat) : Int) = (256 : Int) ^ L := by
      rw [show (256 : Int) = 2 ^ 8 by rfl, ← Int.pow_mul]; simp
    unfold fromBytes
    simp only [hval, hlen, hne, ne_eq, not_false_eq_true, true_and]
    by_cases hz : 0 ≤ z
    · have hm : z % 256 ^ L = z := Int.emod_eq_of_lt hz (by rw [h256]; omega)
      have hc : ¬ (2 ^ (8 * L - 1) ≤ (z % 256 ^ L).toNat) := by
        intro hc
        have : ((2 ^ (8 * L - 1) : Nat) : Int) ≤ (((z % 256 ^ L).toNat : Nat) : Int) := Int.ofNat_le.2 hc
        rw [hcast, hcastP, hm] at this
        omega
      rw [if_neg hc, hcast, hm]
    · have hm : z % 256 ^ L = z + 256 ^ L := by
        rw [← Int.add_emod_right z (256 ^ L)]
        exact Int.emod_eq_of_lt (by rw [h256]; omega) (by rw [h256]; omega)
      have hc : 2 ^ (8 * L - 1) ≤ (z % 256 ^ L).toNat := by
        have : ((2 ^ (8 * L - 1) : Nat) : Int) ≤ (((z % 256 ^ L).toNat : Nat) : Int) := by
          rw [hcast, hcastP, hm, h256]; omega
        exact Int.ofNat_le.1 this
      rw [if_pos hc, hcast, hm]
      have : ((2 : Int) ^ (8 * L)) = 256 ^ L := by
        rw [show (256 : Int) = 2 ^ 8 by rfl, ← Int.pow_mul]
      rw [this]; omega
  next => simp at h

end PyNum

open PyNum
namespace Impl.Arith

theorem cast_two_pow (k : Nat) : ((2 ^ k : Nat) : Int) = (2 : Int) ^ k := by simp

/-- the length BYTES computes for a signed operand is enough for `to_bytes(…, signed=True)` -/
theorem signedLen_range (z : Int) :
    -(2 ^ (8 * signedLen z - 1) : Int) ≤ z ∧ z < 2 ^ (8 * signedLen z - 1) := by
  unfold signedLen
  generalize hm : (z + if z < 0 then 1 else 0) = m
  have hk := (bitLength_le_iff m (bitLength m)).1 (Nat.le_refl _)
  have hle : bitLength m ≤ 8 * ((8 + bitLength m) / 8) - 1 := by omega
  have hpow : 2 ^ bitLength m ≤ 2 ^ (8 * ((8 + bitLength m) / 8) - 1) := Nat.pow_le_pow_right (by omega) hle
  have hc := cast_two_pow (8 * ((8 + bitLength m) / 8) - 1)
  have hlt : (m.natAbs : Int) < (2 : Int) ^ (8 * ((8 + bitLength m) / 8) - 1) := by
    rw [← hc]; exact Int.ofNat_lt.2 (Nat.lt_of_lt_of_le hk hpow)
  by_cases hz : z < 0
  · simp only [hz, if_true] at hm; omega
  · simp only [hz, if_false] at hm; omega

/-- … and no shorter non-empty length is -/
theorem signedLen_minimal (z : Int) (hz : z ≠ 0) (L : Nat) (hL : 0 < L) (hlt : L < signedLen z) :
    ¬ (-(2 ^ (8 * L - 1) : Int) ≤ z ∧ z < 2 ^ (8 * L - 1)) := by
  unfold signedLen at hlt
  generalize hm : (z + if z < 0 then 1 else 0) = m at hlt
  have hk := bitLength_le_iff m (bitLength m - 1)
  have hle : 8 * L - 1 ≤ bitLength m - 1 := by omega
  have hkpos : 0 < bitLength m := by omega
  have hge : 2 ^ (bitLength m - 1) ≤ m.natAbs := by omega
  have hpow : 2 ^ (8 * L - 1) ≤ 2 ^ (bitLength m - 1) := Nat.pow_le_pow_right (by omega) hle
  have hc := cast_two_pow (8 * L - 1)
  have hge' : (2 : Int) ^ (8 * L - 1) ≤ (m.natAbs : Int) := by
    rw [← hc]; exact Int.ofNat_le.2 (Nat.le_trans hpow hge)
  intro ⟨h1, h2⟩
  by_cases hz' : z < 0
  · simp only [hz', if_true] at hm; omega
  · simp only [hz', if_false] at hm; omega

theorem unsignedLen_range (z : Int) (hz : 0 ≤ z) : z < 256 ^ unsignedLen z := by
  unfold unsignedLen
  have hk := (bitLength_le_iff z (bitLength z)).1 (Nat.le_refl _)
  have hpow : 2 ^ bitLength z ≤ 2 ^ (8 * ((7 + bitLength z) / 8)) := Nat.pow_le_pow_right (by omega) (by omega)
  have hc := cast_two_pow (8 * ((7 + bitLength z) / 8))
  have : (256 : Int) ^ ((7 + bitLength z) / 8) = 2 ^ (8 * ((7 + bitLength z) / 8)) := by
    rw [show (256 : Int) = 2 ^ 8 by rfl, ← Int.pow_mul]
  rw [this, ← hc]
  have : (z.natAbs : Int) < ((2 ^ (8 * ((7 + bitLength z) / 8)) : Nat) : Int) := Int.ofNat_lt.2 (Nat.lt_of_lt_of_le hk hpow)
  omega

theorem unsignedLen_minimal (z : Int) (hz : 0 ≤ z) (L : Nat) (h : z < 256 ^ L) : unsignedLen z ≤ L := by
  unfold unsignedLen
  have : z.natAbs < 2 ^ (8 * L) := by
    have h1 : (256 : Int) ^ L = ((2 ^ (8 * L) : Nat) : Int) := by
      rw [show (256 : Int) = 2 ^ 8 by rfl, ← Int.pow_mul]; simp
    rw [h1] at h
    have : (z.natAbs : Int) < ((2 ^ (8 * L) : Nat) : Int) := by omega
    exact Int.ofNat_lt.1 this
  have := (bitLength_le_iff z (8 * L)).2 this
  omega


end Impl.Arith

namespace Spec.Arith

theorem bit_ofNat (n i : Nat) : bit (n : Int) i = n.testBit i := rfl
theorem bit_negSucc (n i : Nat) : bit (Int.negSucc n) i = !n.testBit i := rfl

theorem bit_zero_eq (z : Int) : bit z 0 = decide (z % 2 = 1) := by
  cases z with
  | ofNat n =>
    show n.testBit 0 = _
    rw [Nat.testBit_zero]
    have : ((Int.ofNat n) % 2 = 1) ↔ (n % 2 = 1) := by
      rw [Int.ofNat_eq_natCast]; omega
    exact (decide_eq_decide.2 this).symm
  | negSucc n =>
    show (!n.testBit 0) = _
    rw [Nat.testBit_zero]
    by_cases h : n % 2 = 1
    · have : ¬ (Int.negSucc n % 2 = 1) := by rw [Int.negSucc_eq]; omega
      simp [h, this]
    · have : Int.negSucc n % 2 = 1 := by rw [Int.negSucc_eq]; omega
      simp [h, this]

theorem bit_succ_eq (z : Int) (i : Nat) : bit z (i + 1) = bit (z / 2) i := by
  cases z with
  | ofNat n =>
    have : (Int.ofNat n) / 2 = ((n / 2 : Nat) : Int) := by rw [Int.ofNat_eq_natCast]; omega
    rw [this, bit_ofNat]
    show n.testBit (i + 1) = _
    rw [Nat.testBit_succ]
  | negSucc n =>
    have : (Int.negSucc n) / 2 = Int.negSucc (n / 2) := by
      rw [Int.negSucc_eq, Int.negSucc_eq]; omega
    rw [this]
    show (!n.testBit (i + 1)) = !(n / 2).testBit i
    rw [Nat.testBit_succ]

theorem bit_zero_int (i : Nat) : bit 0 i = false := by
  show (0 : Nat).testBit i = false
  simp

theorem bit_neg_one (i : Nat) : bit (-1) i = true := by
  show (!(0 : Nat).testBit i) = true
  simp

/-- the digit-by-digit combination has, at every position, the combined bit -/
theorem bit_bitop (f : Bool → Bool → Bool) : ∀ (n : Nat) (a b : Int) (i : Nat),
    (-(2 ^ n : Int) ≤ a ∧ a < 2 ^ n) → (-(2 ^ n : Int) ≤ b ∧ b < 2 ^ n) →
    bit (bitop f n a b) i = f (bit a i) (bit b i) := by
  intro n
  induction n with
  | zero =>
    intro a b i ha hb
    have ha' : a = 0 ∨ a = -1 := by simp at ha; omega
    have hb' : b = 0 ∨ b = -1 := by simp at hb; omega
    rcases ha' with rfl | rfl <;> rcases hb' with rfl | rfl <;> simp only [bitop] <;>
      split <;> simp_all [bit_zero_int, bit_neg_one]
  | succ n ih =>
    intro a b i ha hb
    have ha2 : -(2 ^ n : Int) ≤ a / 2 ∧ a / 2 < 2 ^ n := by rw [Int.pow_succ] at ha; omega
    have hb2 : -(2 ^ n : Int) ≤ b / 2 ∧ b / 2 < 2 ^ n := by rw [Int.pow_succ] at hb; omega
    simp only [bitop]
    generalize hR : bitop f n (a / 2) (b / 2) = R
    cases i with
    | zero =>
      rw [bit_zero_eq, bit_zero_eq, bit_zero_eq]
      split
      next h => rw [h]; simp
      next h =>
        have : f (decide (a % 2 = 1)) (decide (b % 2 = 1)) = false := by simpa using h
        rw [this]; simp
    | succ j =>
      rw [bit_succ_eq, bit_succ_eq a, bit_succ_eq b, ← ih (a / 2) (b / 2) j ha2 hb2, hR]
      congr 1
      split <;> omega

theorem width_range (a b : Int) :
    (-(2 ^ width a b : Int) ≤ a ∧ a < 2 ^ width a b) ∧ (-(2 ^ width a b : Int) ≤ b ∧ b < 2 ^ width a b) := by
  have h (z : Int) (k : Nat) (hk : bitLength z ≤ k) : -(2 ^ k : Int) ≤ z ∧ z < 2 ^ k := by
    have := (bitLength_le_iff z k).1 hk
    have hc : ((2 ^ k : Nat) : Int) = (2 : Int) ^ k := by simp
    have : (z.natAbs : Int) < ((2 ^ k : Nat) : Int) := Int.ofNat_lt.2 this
    omega
  exact ⟨h a _ (Nat.le_max_left ..), h b _ (Nat.le_max_right ..)⟩

theorem bit_and (a b : Int) (i : Nat) : bit (PyNum.and a b) i = (bit a i && bit b i) :=
  bit_bitop _ _ a b i (width_range a b).1 (width_range a b).2
theorem bit_or (a b : Int) (i : Nat) : bit (PyNum.or a b) i = (bit a i || bit b i) :=
  bit_bitop _ _ a b i (width_range a b).1 (width_range a b).2
theorem bit_xor (a b : Int) (i : Nat) : bit (PyNum.xor a b) i = (bit a i != bit b i) :=
  bit_bitop _ _ a b i (width_range a b).1 (width_range a b).2

theorem bit_invert (a : Int) (i : Nat) : bit (PyNum.invert a) i = !bit a i := by
  cases a with
  | ofNat n =>
    have : PyNum.invert (Int.ofNat n) = Int.negSucc n := by
      simp only [PyNum.invert, Int.negSucc_eq, Int.ofNat_eq_natCast]
    rw [this]; rfl
  | negSucc n =>
    have : PyNum.invert (Int.negSucc n) = (n : Int) := by
      simp only [PyNum.invert, Int.negSucc_eq]; omega
    rw [this, bit_ofNat, bit_negSucc]; simp

/-- two integers with the same bits are equal -/
theorem bit_ext (x y : Int) (h : ∀ i, bit x i = bit y i) : x = y := by
  cases x with
  | ofNat n =>
    cases y with
    | ofNat m =>
      congr 1
      exact Nat.eq_of_testBit_eq h
    | negSucc m =>
      exfalso
      have h1 := h (max n m)
      have hn : n.testBit (max n m) = false :=
        Nat.testBit_lt_two_pow (Nat.lt_of_le_of_lt (Nat.le_max_left n m) Nat.lt_two_pow_self)
      have hm : m.testBit (max n m) = false :=
        Nat.testBit_lt_two_pow (Nat.lt_of_le_of_lt (Nat.le_max_right n m) Nat.lt_two_pow_self)
      change n.testBit _ = !m.testBit _ at h1
      rw [hn, hm] at h1; simp at h1
  | negSucc n =>
    cases y with
    | ofNat m =>
      exfalso
      have h1 := h (max n m)
      have hn : n.testBit (max n m) = false :=
        Nat.testBit_lt_two_pow (Nat.lt_of_le_of_lt (Nat.le_max_left n m) Nat.lt_two_pow_self)
      have hm : m.testBit (max n m) = false :=
        Nat.testBit_lt_two_pow (Nat.lt_of_le_of_lt (Nat.le_max_right n m) Nat.lt_two_pow_self)
      change (!n.testBit _) = m.testBit _ at h1
      rw [hn, hm] at h1; simp at h1
    | negSucc m =>
      congr 1
      apply Nat.eq_of_testBit_eq
      intro i
      have := h i
      change (!n.testBit i) = !m.testBit i at this
      simpa using this

/-- sign of the combination -/
theorem bit_sign (z : Int) : (z < 0) ↔ ∃ k, ∀ i, k ≤ i → bit z i = true := by
  cases z with
  | ofNat n =>
    constructor
    · intro h; exact absurd h (by simp [Int.ofNat_eq_natCast])
    · intro ⟨k, hk⟩
      have h1 := hk (max k n) (Nat.le_max_left ..)
      have : n.testBit (max k n) = false :=
        Nat.testBit_lt_two_pow (Nat.lt_of_le_of_lt (Nat.le_max_right k n) Nat.lt_two_pow_self)
      change n.testBit _ = true at h1
      rw [this] at h1; simp at h1
  | negSucc n =>
    constructor
    · intro _
      refine ⟨n, fun i hi => ?_⟩
      show (!n.testBit i) = true
      rw [Nat.testBit_lt_two_pow (Nat.lt_of_le_of_lt hi Nat.lt_two_pow_self)]; rfl
    · intro _; exact Int.negSucc_lt_zero n


end Spec.Arith

namespace PyNum

theorem fromBytesBE_eq_beUnsigned (bs : List Nat) : fromBytesBE bs = Spec.Arith.beUnsigned bs := by
  induction bs with
  | nil => rfl
  | cons b bs ih => rw [fromBytesBE_cons, Spec.Arith.beUnsigned, ih]

/-- the threshold test of `from_bytes(signed=True)` is the top bit of the first byte -/
theorem half_le_iff (b : Nat) (bs : List Nat) (h : BytesWF (b :: bs)) :
    2 ^ (8 * (b :: bs).length - 1) ≤ fromBytesBE (b :: bs) ↔ 128 ≤ b := by
  have hrest := fromBytesBE_lt bs (fun x hx => h x (List.mem_cons_of_mem _ hx))
  have hp : 2 ^ (8 * (b :: bs).length - 1) = 128 * 256 ^ bs.length := by
    rw [pow256, List.length_cons, show 8 * (bs.length + 1) - 1 = 7 + 8 * bs.length by omega, Nat.pow_add]
  rw [hp, fromBytesBE_cons]
  constructor
  · intro hle
    apply Classical.byContradiction
    intro hb
    have : b * 256 ^ bs.length ≤ 127 * 256 ^ bs.length := Nat.mul_le_mul_right _ (by omega)
    omega
  · intro hb
    have : 128 * 256 ^ bs.length ≤ b * 256 ^ bs.length := Nat.mul_le_mul_right _ hb
    omega

theorem fromBytes_signed_eq (bs : List Nat) (h : BytesWF bs) : fromBytes bs true = Spec.Arith.beSigned bs := by
  cases bs with
  | nil => rfl
  | cons b bs =>
    have hh := half_le_iff b bs h
    unfold fromBytes Spec.Arith.beSigned
    simp only [ne_eq, reduceCtorEq, not_false_eq_true, true_and, hh, ← fromBytesBE_eq_beUnsigned]
    have : (2 : Int) ^ (8 * (b :: bs).length) = 256 ^ (bs.length + 1) := by
      rw [show (256 : Int) = 2 ^ 8 by rfl, ← Int.pow_mul, List.length_cons]
    rw [this]

theorem fromBytes_unsigned_eq (bs : List Nat) : fromBytes bs false = (Spec.Arith.beUnsigned bs : Int) := by
  simp [fromBytes, fromBytesBE_eq_beUnsigned]

/-- range of a signed decode -/
theorem fromBytes_signed_range (bs : List Nat) (h : BytesWF bs) (hne : bs ≠ []) :
    -(2 ^ (8 * bs.length - 1) : Int) ≤ fromBytes bs true ∧ fromBytes bs true < 2 ^ (8 * bs.length - 1) := by
  have hlt := fromBytesBE_lt bs h
  have hL : 0 < bs.length := List.length_pos_iff.2 hne
  have hn := nat_pow256 bs.length hL
  have hc := Impl.Arith.cast_two_pow (8 * bs.length - 1)
  have hq : (2 : Int) ^ (8 * bs.length) = 2 * 2 ^ (8 * bs.length - 1) := by
    have := int_pow256 bs.length hL
    rw [show (256 : Int) = 2 ^ 8 by rfl, ← Int.pow_mul] at this
    exact this
  unfold fromBytes
  simp only [hne, ne_eq, not_false_eq_true, true_and]
  have hlt' : (fromBytesBE bs : Int) < 2 * 2 ^ (8 * bs.length - 1) := by
    rw [← hc]; have := Int.ofNat_lt.2 hlt; rw [hn] at this; simpa using this
  split
  next hge =>
    have : ((2 ^ (8 * bs.length - 1) : Nat) : Int) ≤ (fromBytesBE bs : Int) := Int.ofNat_le.2 hge
    rw [hc] at this; rw [hq]; omega
  next hge =>
    have : (fromBytesBE bs : Int) < ((2 ^ (8 * bs.length - 1) : Nat) : Int) := Int.ofNat_lt.2 (by omega)
    rw [hc] at this
    have h0 : (0 : Int) ≤ fromBytesBE bs := Int.natCast_nonneg _
    have hP : (0 : Int) < 2 ^ (8 * bs.length - 1) := Int.pow_pos (by omega)
    omega

theorem bits63 (x : Int) (h : 0 ≤ x) : 63 < bitLength x ↔ 2 ^ 63 ≤ x := by
  have := bitLength_le_iff x 63
  omega

end PyNum

namespace Impl.Arith

theorem fromValue_int (x : Int) : fromValue .int x = .ok (.num .int x) := rfl
theorem fromValue_timestamp (x : Int) : fromValue .timestamp x = .ok (.num .timestamp x) := rfl
theorem fromValue_nat (x : Int) : fromValue .nat x = if x < 0 then .error .assertion else .ok (.num .nat x) := by
  show (match runGuards [.assertNonneg] x with | .ok () => _ | .error e => _) = _
  simp only [runGuards]
  by_cases h : x < 0 <;> simp [h]
theorem fromValue_mutez (x : Int) : fromValue .mutez x =
    if x < 0 then .error .assertion else if 63 < PyNum.bitLength x then .error .overflow else .ok (.num .mutez x) := by
  show (match runGuards [.assertNonneg, .overflowIfBitsGt 63] x with | .ok () => _ | .error e => _) = _
  simp only [runGuards]
  by_cases h : x < 0 <;> simp [h]
  by_cases h2 : 63 < PyNum.bitLength x <;> simp [h2]

/-- the `from_value` constructors build a value exactly when the type has one -/
theorem fromValue_spec (t : NTy) (x : Int) : (fromValue t.prim x).toOption = Spec.Arith.mk t x := by
  cases t with
  | int => rfl
  | timestamp => rfl
  | nat =>
    show (fromValue .nat x).toOption = _
    rw [fromValue_nat]; unfold Spec.Arith.mk
    by_cases h : x < 0
    · have : ¬ 0 ≤ x := by omega
      simp [h, this, Except.toOption]
    · have : 0 ≤ x := by omega
      simp [h, this, Except.toOption]
  | mutez =>
    show (fromValue .mutez x).toOption = _
    rw [fromValue_mutez]; unfold Spec.Arith.mk
    by_cases h : x < 0
    · have : ¬ (0 ≤ x ∧ x < 2 ^ 63) := by omega
      simp only [h, this, if_true, if_false, Except.toOption]
    · have h0 : 0 ≤ x := by omega
      have hb := bits63 x h0
      by_cases h2 : 63 < bitLength x
      · have : ¬ (0 ≤ x ∧ x < 2 ^ 63) := by omega
        simp only [h, h2, this, if_true, if_false, Except.toOption]
      · have : 0 ≤ x ∧ x < 2 ^ 63 := by omega
        simp only [h, h2, this, if_true, if_false, Except.toOption, and_self]

theorem wrap_toOption (r : Except Err Val) : (wrap r).toOption = r.toOption.map .one := by
  cases r <;> rfl

theorem wrap_fromValue_spec (t : NTy) (x : Int) : (wrap (fromValue t.prim x)).toOption = (Spec.Arith.mk t x).map .one := by
  rw [wrap_toOption, fromValue_spec]

theorem edivNum_spec (tq tr : NTy) (x y : Int) :
    (edivNum tq.prim tr.prim x y).toOption = Spec.Arith.edivAt tq tr x y := by
  unfold edivNum Spec.Arith.edivAt
  by_cases hy : y = 0
  · simp [hy, Except.toOption]
  · simp only [hy, if_false]
    rw [divmod_euclid x y hy]
    simp only []
    rw [← fromValue_spec tq, ← fromValue_spec tr]
    cases fromValue tq.prim (x / y) <;> cases fromValue tr.prim (x % y) <;> rfl

end Impl.Arith

namespace Spec.Arith
open PyNum

theorem toNat_testBit (r : Int) (h : 0 ≤ r) (i : Nat) : r.toNat.testBit i = bit r i := by
  cases r with
  | ofNat n => rfl
  | negSucc n => exact absurd h (by simp)

theorem nonneg_of_bits (r : Int) (k : Nat) (h : ∀ i, k ≤ i → bit r i = false) : 0 ≤ r := by
  apply Classical.byContradiction
  intro hn
  have hneg : r < 0 := by omega
  obtain ⟨k', hk'⟩ := (bit_sign r).1 hneg
  have h1 := h (max k k') (Nat.le_max_left ..)
  have h2 := hk' (max k k') (Nat.le_max_right ..)
  rw [h1] at h2; simp at h2

theorem bit_high_false (z : Int) (h : 0 ≤ z) : ∀ i, z.toNat ≤ i → bit z i = false := by
  intro i hi
  rw [← toNat_testBit z h]
  exact Nat.testBit_lt_two_pow (Nat.lt_of_le_of_lt hi Nat.lt_two_pow_self)

theorem and_nonneg_right (a b : Int) (hb : 0 ≤ b) : 0 ≤ PyNum.and a b :=
  nonneg_of_bits _ b.toNat fun i hi => by rw [bit_and, bit_high_false b hb i hi]; simp

theorem and_nonneg_left (a b : Int) (ha : 0 ≤ a) : 0 ≤ PyNum.and a b :=
  nonneg_of_bits _ a.toNat fun i hi => by rw [bit_and, bit_high_false a ha i hi]; simp

theorem or_nonneg (a b : Int) (ha : 0 ≤ a) (hb : 0 ≤ b) : 0 ≤ PyNum.or a b :=
  nonneg_of_bits _ (max a.toNat b.toNat) fun i hi => by
    rw [bit_or, bit_high_false a ha i (Nat.le_trans (Nat.le_max_left ..) hi),
      bit_high_false b hb i (Nat.le_trans (Nat.le_max_right ..) hi)]; rfl

theorem xor_nonneg (a b : Int) (ha : 0 ≤ a) (hb : 0 ≤ b) : 0 ≤ PyNum.xor a b :=
  nonneg_of_bits _ (max a.toNat b.toNat) fun i hi => by
    rw [bit_xor, bit_high_false a ha i (Nat.le_trans (Nat.le_max_left ..) hi),
      bit_high_false b hb i (Nat.le_trans (Nat.le_max_right ..) hi)]; rfl

/-- on naturals Python's `&`, `|`, `^` are the bitwise operations of `Nat` -/
theorem and_nat (a b : Int) (ha : 0 ≤ a) (hb : 0 ≤ b) : PyNum.and a b = ((a.toNat &&& b.toNat : Nat) : Int) := by
  have h0 := and_nonneg_left a b ha
  have : (PyNum.and a b).toNat = a.toNat &&& b.toNat := by
    apply Nat.eq_of_testBit_eq; intro i
    rw [toNat_testBit _ h0, bit_and, Nat.testBit_and, toNat_testBit a ha, toNat_testBit b hb]
  omega

theorem or_nat (a b : Int) (ha : 0 ≤ a) (hb : 0 ≤ b) : PyNum.or a b = ((a.toNat ||| b.toNat : Nat) : Int) := by
  have h0 := or_nonneg a b ha hb
  have : (PyNum.or a b).toNat = a.toNat ||| b.toNat := by
    apply Nat.eq_of_testBit_eq; intro i
    rw [toNat_testBit _ h0, bit_or, Nat.testBit_or, toNat_testBit a ha, toNat_testBit b hb]
  omega

theorem xor_nat (a b : Int) (ha : 0 ≤ a) (hb : 0 ≤ b) : PyNum.xor a b = ((a.toNat ^^^ b.toNat : Nat) : Int) := by
  have h0 := xor_nonneg a b ha hb
  have : (PyNum.xor a b).toNat = a.toNat ^^^ b.toNat := by
    apply Nat.eq_of_testBit_eq; intro i
    rw [toNat_testBit _ h0, bit_xor, Nat.testBit_xor, toNat_testBit a ha, toNat_testBit b hb]
  omega

end Spec.Arith
