import PytezosModel.Proofs.InterpSound
import PytezosModel.Proofs.InterpRefine
set_option linter.unusedSectionVars false   -- `[Mode]` is a section variable of every lemma here; some do not use it
/-! Type soundness (preservation) of the reference semantics: a typed program run on a well-formed stack of the
right types leaves a well-formed stack whose runtime types are the statically assigned ones. -/
namespace Interp
variable [Mode]
open Typing

theorem typeInstr_simple (i : Instr) (hc : isControl i = false) (hl : isLiteral i = false) (ts : List Ty) :
    typeInstr Mode.strict i ts = Typing.step i ts := by
  cases i <;> first | (simp [isControl] at hc; done) | (simp [isLiteral] at hl; done) | simp [typeInstr]

def SoundE (env : Env) (f : Nat) : Prop :=
  ∀ i st st' tr, StackWF st → Spec.eval false env f i st = .ok st' → typeInstr Mode.strict i (st.map typeOf) = some tr →
    StackWF st' ∧ tr = .ok (st'.map typeOf)

def SoundS (env : Env) (f : Nat) : Prop :=
  ∀ is st st' tr, StackWF st → Spec.evalSeq false env f is st = .ok st' → typeSeq Mode.strict is (st.map typeOf) = some tr →
    StackWF st' ∧ tr = .ok (st'.map typeOf)

/-- a loop body typed `t :: S → S` (or always failing) -/
def BodyKeeps (body : Instr) (t : Ty) (S : List Ty) : Prop :=
  typeInstr Mode.strict body (t :: S) = some (.ok S) ∨ typeInstr Mode.strict body (t :: S) = some .failed

def SoundI (env : Env) (f : Nat) : Prop :=
  ∀ body xs st st' t, (∀ x ∈ xs, WF x ∧ typeOf x = t) → StackWF st → BodyKeeps body t (st.map typeOf) →
    Spec.evalIter false env f body xs st = .ok st' → StackWF st' ∧ st'.map typeOf = st.map typeOf

/-- type of the items MAP collects: the new element, or (for maps) the binding with the new value -/
def itemTy (isMap : Bool) (t t' : Ty) : Ty :=
  match isMap, t with
  | true, .pair k _ => .pair k t'
  | _, _ => t'

def SoundM (env : Env) (f : Nat) : Prop :=
  ∀ body isMap xs st ys st' t t', (∀ x ∈ xs, WF x ∧ typeOf x = t) → StackWF st →
    typeInstr Mode.strict body (t :: st.map typeOf) = some (.ok (t' :: st.map typeOf)) →
    (isMap = true → ∃ k v, t = .pair k v) →
    Spec.evalMap false env f body isMap xs st = .ok (ys, st') →
    (∀ y ∈ ys, WF y ∧ typeOf y = itemTy isMap t t') ∧ StackWF st' ∧ st'.map typeOf = st.map typeOf ∧ (ys = [] → xs = [])

section
variable (env : Env) (f : Nat) (hE : SoundE env f)
include hE

theorem soundS_succ (hS : SoundS env f) : SoundS env (f + 1) := by
  intro is st st' tr hw hev hty
  cases is with
  | nil =>
    simp [Spec.evalSeq] at hev; subst hev
    simp [typeSeq] at hty; subst hty
    exact ⟨hw, rfl⟩
  | cons i is =>
    simp only [Spec.evalSeq] at hev
    cases hq : Spec.eval false env f i st with
    | stuck => simp [hq] at hev
    | failed _ => simp [hq] at hev
    | rtfail => simp [hq] at hev
    | oof => simp [hq] at hev
    | offguard => simp [hq] at hev
    | ok st1 =>
      simp only [hq, rbind_ok] at hev
      cases is with
      | nil =>
        -- last instruction: the sequence's type is the instruction's
        simp only [typeSeq] at hty
        obtain ⟨h1, h2⟩ := hE i st st1 tr hw hq hty
        cases f with
        | zero => simp [Spec.evalSeq] at hev; subst hev; exact ⟨h1, h2⟩
        | succ f' => simp [Spec.evalSeq] at hev; subst hev; exact ⟨h1, h2⟩
      | cons j js =>
        simp only [typeSeq] at hty
        cases hti : typeInstr Mode.strict i (st.map typeOf) with
        | none => simp [hti] at hty
        | some tr1 =>
          obtain ⟨h1, h2⟩ := hE i st st1 tr1 hw hq hti
          subst h2
          simp only [hti] at hty
          exact hS (j :: js) st1 st' tr h1 hev hty

theorem soundI_succ (hI : SoundI env f) : SoundI env (f + 1) := by
  intro body xs st st' t hxs hw hb hev
  cases xs with
  | nil => simp [Spec.evalIter] at hev; subst hev; exact ⟨hw, rfl⟩
  | cons x xs =>
    simp only [Spec.evalIter] at hev
    cases hq : Spec.eval false env f body (x :: st) with
    | stuck => simp [hq] at hev
    | failed _ => simp [hq] at hev
    | rtfail => simp [hq] at hev
    | oof => simp [hq] at hev
    | offguard => simp [hq] at hev
    | ok st1 =>
      simp only [hq, rbind_ok] at hev
      have hx := hxs x (by simp)
      have hw1 : StackWF (x :: st) := stackWF_cons.mpr ⟨hx.1, hw⟩
      have hmap : (x :: st).map typeOf = t :: st.map typeOf := by simp [hx.2]
      rcases hb with hb | hb
      · obtain ⟨h1, h2⟩ := hE body (x :: st) st1 _ hw1 hq (by rw [hmap]; exact hb)
        simp only [TRes.ok.injEq] at h2
        have := hI body xs st1 st' t (fun y hy => hxs y (by simp [hy])) h1 (by rw [← h2]; exact Or.inl hb) hev
        exact ⟨this.1, by rw [this.2, h2]⟩
      · obtain ⟨_, h2⟩ := hE body (x :: st) st1 _ hw1 hq (by rw [hmap]; exact hb)
        cases h2

theorem soundM_succ (hM : SoundM env f) : SoundM env (f + 1) := by
  intro body isMap xs st ys st' t t' hxs hw hb hk hev
  cases xs with
  | nil =>
    simp [Spec.evalMap] at hev
    obtain ⟨rfl, rfl⟩ := hev
    exact ⟨by simp, hw, rfl, fun _ => rfl⟩
  | cons x xs =>
    simp only [Spec.evalMap] at hev
    cases hq : Spec.eval false env f body (x :: st) with
    | stuck => simp [hq] at hev
    | failed _ => simp [hq] at hev
    | rtfail => simp [hq] at hev
    | oof => simp [hq] at hev
    | offguard => simp [hq] at hev
    | ok r =>
      simp only [hq, rbind_ok] at hev
      have hx := hxs x (by simp)
      have hw1 : StackWF (x :: st) := stackWF_cons.mpr ⟨hx.1, hw⟩
      have hmap : (x :: st).map typeOf = t :: st.map typeOf := by simp [hx.2]
      obtain ⟨h1, h2⟩ := hE body (x :: st) r _ hw1 hq (by rw [hmap]; exact hb)
      simp only [TRes.ok.injEq] at h2
      cases r with
      | nil => simp at h2
      | cons y st1 =>
        simp only [List.map_cons, List.cons.injEq] at h2
        rw [stackWF_cons] at h1
        simp only at hev
        -- the item kept for this element
        have tail : ∀ (item : Val), WF item → typeOf item = itemTy isMap t t' →
            ((Spec.evalMap false env f body isMap xs st1).bind fun (p : List Val × List Val) =>
              Res.ok (item :: p.1, p.2)) = Res.ok (ys, st') →
            (∀ y ∈ ys, WF y ∧ typeOf y = itemTy isMap t t') ∧ StackWF st' ∧ st'.map typeOf = st.map typeOf ∧
              (ys = [] → x :: xs = []) := by
          intro item hi2 hi3 hev
          cases hr : Spec.evalMap false env f body isMap xs st1 with
          | stuck => simp [hr] at hev
          | failed _ => simp [hr] at hev
          | rtfail => simp [hr] at hev
          | oof => simp [hr] at hev
          | offguard => simp [hr] at hev
          | ok p =>
            obtain ⟨ys', st2⟩ := p
            simp [hr] at hev
            obtain ⟨rfl, rfl⟩ := hev
            have hb' : typeInstr Mode.strict body (t :: st1.map typeOf) = some (.ok (t' :: st1.map typeOf)) := by
              rw [← h2.2]; exact hb
            obtain ⟨g1, g2, g3, _⟩ := hM body isMap xs st1 ys' _ t t' (fun z hz => hxs z (by simp [hz])) h1.2 hb' hk hr
            refine ⟨?_, g2, by rw [g3, ← h2.2], by simp⟩
            intro z hz
            simp only [List.mem_cons] at hz
            rcases hz with rfl | hz
            · exact ⟨hi2, hi3⟩
            · exact g1 z hz
        cases isMap with
        | false =>
          simp only [rbind_ok] at hev
          exact tail y h1.1 (by simp [itemTy, ← h2.1]) hev
        | true =>
          obtain ⟨k, v, rfl⟩ := hk rfl
          obtain ⟨a, b, rfl, ha, _⟩ := hasTy_pair (hasTy_iff.mpr hx)
          have ha' := hasTy_iff.mp ha
          simp only [rbind_ok] at hev
          exact tail (.pair a y) ((wf_pair a y).mpr ⟨ha'.1, h1.1⟩) (by simp [itemTy, typeOf, ha'.2, ← h2.1]) hev

end
end Interp

namespace Interp
variable [Mode]
open Typing

theorem join_left {T : List Ty} {b tr : TRes} (h : join (.ok T) b = some tr) : tr = .ok T := by
  cases b with
  | failed => simp [join] at h; exact h.symm
  | ok T' =>
    simp only [join] at h
    split at h
    · simp at h; exact h.symm
    · simp at h

theorem join_right {T : List Ty} {a tr : TRes} (h : join a (.ok T) = some tr) : tr = .ok T := by
  cases a with
  | failed => simp [join] at h; exact h.symm
  | ok T' =>
    simp only [join] at h
    split at h
    · rename_i heq; simp at h; subst heq; exact h.symm
    · simp at h

section
variable (env : Env) (f : Nat) (hE : SoundE env f) (hS : SoundS env f) (hI : SoundI env f) (hM : SoundM env f)

include hE in
/-- branch instructions: the taken branch is typed, the other one only has to be typable -/
theorem sound_branch (taken : Instr) (st0 st' : List Val) (other : Option TRes) (tr : TRes) (left : Bool)
    (hw : StackWF st0) (hev : Spec.eval false env f taken st0 = .ok st')
    (hty : ∃ a b, typeInstr Mode.strict taken (st0.map typeOf) = some a ∧ other = some b ∧
      (if left then join a b else join b a) = some tr) :
    StackWF st' ∧ tr = .ok (st'.map typeOf) := by
  obtain ⟨a, b, ha, _, hj⟩ := hty
  obtain ⟨h1, h2⟩ := hE taken st0 st' a hw hev ha
  subst h2
  refine ⟨h1, ?_⟩
  cases left with
  | true => simp only [if_true] at hj; exact join_left hj
  | false => simp only [Bool.false_eq_true, if_false] at hj; exact join_right hj

end
end Interp

namespace Interp
variable [Mode]
open Typing

section
variable (env : Env) (f : Nat) (hE : SoundE env f) (hS : SoundS env f) (hI : SoundI env f) (hM : SoundM env f)
include hE hS hI hM

theorem soundE_succ : SoundE env (f + 1) := by
  intro i st st' tr hw hev hty
  by_cases hc : isControl i = false
  · by_cases hl : isLiteral i = false
    · rw [spec_eval_simple false env f i hc st] at hev
      rw [typeInstr_simple i hc hl] at hty
      obtain ⟨h1, h2⟩ := step_sound env i st st' hw hl hev
      rw [h2] at hty
      simp only [Option.some.injEq] at hty
      exact ⟨h1, hty.symm⟩
    · rw [spec_eval_simple false env f i hc st] at hev
      cases i <;> first | (simp [isLiteral] at hl; done) | skip
      · -- PUSH
        rename_i t v
        simp only [Spec.step, Res.ok.injEq] at hev
        subst hev
        simp only [typeInstr] at hty
        split at hty
        · rename_i hcv
          simp only [Option.some.injEq] at hty
          have := hasTy_iff.mp (Bool.and_eq_true _ _ ▸ hcv).2
          exact ⟨stackWF_cons.mpr ⟨this.1, hw⟩, by simp [← hty, this.2]⟩
        · simp at hty
      · -- LAMBDA
        rename_i a b body
        simp only [Spec.step, Res.ok.injEq] at hev
        subst hev
        simp only [typeInstr] at hty
        refine ⟨stackWF_cons.mpr ⟨?_, hw⟩, ?_⟩
        · rw [wf_lam]
          unfold BodyTy
          split at hty
          · rename_i b' heq
            split at hty
            · rename_i hb; subst hb; exact Or.inl heq
            · simp at hty
          · rename_i heq; exact Or.inr heq
          · simp at hty
        · split at hty
          · split at hty
            · simp at hty; simp [← hty, typeOf]
            · simp at hty
          · simp at hty; simp [← hty, typeOf]
          · simp at hty
  cases i <;> first | (exact absurd rfl hc) | skip
  case seq is =>
    simp only [Spec.eval] at hev
    simp only [typeInstr] at hty
    exact hS is st st' tr hw hev hty
  case DIP body =>
    rcases st with _ | ⟨x, st⟩
    · simp [Spec.eval, Spec.step] at hev
    rw [stackWF_cons] at hw
    simp only [Spec.eval] at hev
    cases hq : Spec.eval false env f body st with
    | stuck => simp [hq] at hev
    | failed _ => simp [hq] at hev
    | rtfail => simp [hq] at hev
    | oof => simp [hq] at hev
    | offguard => simp [hq] at hev
    | ok st1 =>
      simp [hq] at hev; subst hev
      simp only [List.map_cons, typeInstr] at hty
      cases hb : typeInstr Mode.strict body (st.map typeOf) with
      | none => simp [hb] at hty
      | some tb =>
        obtain ⟨h1, h2⟩ := hE body st st1 tb hw.2 hq hb
        subst h2
        simp [hb] at hty
        exact ⟨stackWF_cons.mpr ⟨hw.1, h1⟩, by simp [← hty]⟩
  case DIPN n body =>
    simp only [Spec.eval] at hev
    split at hev
    · rename_i hn
      cases hq : Spec.eval false env f body (st.drop n) with
      | stuck => simp [hq] at hev
      | failed _ => simp [hq] at hev
      | rtfail => simp [hq] at hev
      | oof => simp [hq] at hev
      | offguard => simp [hq] at hev
      | ok st1 =>
        simp [hq] at hev; subst hev
        simp only [typeInstr, List.length_map, hn, if_true] at hty
        cases hb : typeInstr Mode.strict body ((st.map typeOf).drop n) with
        | none => simp [hb] at hty
        | some tb =>
          obtain ⟨h1, h2⟩ := hE body (st.drop n) st1 tb (stackWF_drop hw n) hq (by rw [List.map_drop]; exact hb)
          subst h2
          simp [hb] at hty
          exact ⟨stackWF_append.mpr ⟨stackWF_take hw n, h1⟩, by simp [← hty, List.map_take]⟩
    · simp at hev
  case IF bt bf =>
    rcases st with _ | ⟨c, st⟩
    · simp [Spec.eval, Spec.step] at hev
    rw [stackWF_cons] at hw
    cases c <;> first | (simp [Spec.eval, Spec.step] at hev; done) | skip
    rename_i b
    simp only [Spec.eval] at hev
    simp only [List.map_cons, typeOf, typeInstr] at hty
    cases h1 : typeInstr Mode.strict bt (st.map typeOf) <;> cases h2 : typeInstr Mode.strict bf (st.map typeOf) <;>
      simp only [h1, h2] at hty <;> first | (simp at hty; done) | skip
    rename_i ta tb
    cases b with
    | true => exact sound_branch env f hE bt st st' (some tb) tr true hw.2 hev ⟨ta, tb, h1, rfl, by simpa using hty⟩
    | false => exact sound_branch env f hE bf st st' (some ta) tr false hw.2 hev ⟨tb, ta, h2, rfl, by simpa using hty⟩
  case IF_NONE bn bs =>
    rcases st with _ | ⟨c, st⟩
    · simp [Spec.eval, Spec.step] at hev
    rw [stackWF_cons] at hw
    cases c <;> first | (simp [Spec.eval, Spec.step] at hev; done) | skip
    · -- some v
      rename_i v
      simp only [Spec.eval] at hev
      simp only [List.map_cons, typeOf, typeInstr] at hty
      cases h1 : typeInstr Mode.strict bn (st.map typeOf) <;> cases h2 : typeInstr Mode.strict bs (typeOf v :: st.map typeOf) <;>
        simp only [h1, h2] at hty <;> first | (simp at hty; done) | skip
      rename_i ta tb
      have hwv : StackWF (v :: st) := stackWF_cons.mpr ⟨(wf_some v).mp hw.1, hw.2⟩
      exact sound_branch env f hE bs (v :: st) st' (some ta) tr false hwv hev ⟨tb, ta, by simpa using h2, rfl, by simpa using hty⟩
    · -- none
      rename_i t
      simp only [Spec.eval] at hev
      simp only [List.map_cons, typeOf, typeInstr] at hty
      cases h1 : typeInstr Mode.strict bn (st.map typeOf) <;> cases h2 : typeInstr Mode.strict bs (t :: st.map typeOf) <;>
        simp only [h1, h2] at hty <;> first | (simp at hty; done) | skip
      rename_i ta tb
      exact sound_branch env f hE bn st st' (some tb) tr true hw.2 hev ⟨ta, tb, h1, rfl, by simpa using hty⟩
  case IF_LEFT bl br =>
    rcases st with _ | ⟨c, st⟩
    · simp [Spec.eval, Spec.step] at hev
    rw [stackWF_cons] at hw
    cases c <;> first | (simp [Spec.eval, Spec.step] at hev; done) | skip
    · rename_i v tr'
      simp only [Spec.eval] at hev
      simp only [List.map_cons, typeOf, typeInstr] at hty
      cases h1 : typeInstr Mode.strict bl (typeOf v :: st.map typeOf) <;> cases h2 : typeInstr Mode.strict br (tr' :: st.map typeOf) <;>
        simp only [h1, h2] at hty <;> first | (simp at hty; done) | skip
      rename_i ta tb
      have hwv : StackWF (v :: st) := stackWF_cons.mpr ⟨(wf_left v tr').mp hw.1, hw.2⟩
      exact sound_branch env f hE bl (v :: st) st' (some tb) tr true hwv hev ⟨ta, tb, by simpa using h1, rfl, by simpa using hty⟩
    · rename_i tl v
      simp only [Spec.eval] at hev
      simp only [List.map_cons, typeOf, typeInstr] at hty
      cases h1 : typeInstr Mode.strict bl (tl :: st.map typeOf) <;> cases h2 : typeInstr Mode.strict br (typeOf v :: st.map typeOf) <;>
        simp only [h1, h2] at hty <;> first | (simp at hty; done) | skip
      rename_i ta tb
      have hwv : StackWF (v :: st) := stackWF_cons.mpr ⟨(wf_right v tl).mp hw.1, hw.2⟩
      exact sound_branch env f hE br (v :: st) st' (some ta) tr false hwv hev ⟨tb, ta, by simpa using h2, rfl, by simpa using hty⟩
  case IF_CONS bc bn =>
    rcases st with _ | ⟨c, st⟩
    · simp [Spec.eval, Spec.step] at hev
    rw [stackWF_cons] at hw
    cases c <;> first | (simp [Spec.eval, Spec.step] at hev; done) | skip
    rename_i t xs
    have hall := allTy_iff.mp ((wf_list t xs).mp hw.1)
    simp only [List.map_cons, typeOf, typeInstr] at hty
    cases h1 : typeInstr Mode.strict bc (t :: .list t :: st.map typeOf) <;> cases h2 : typeInstr Mode.strict bn (st.map typeOf) <;>
      simp only [h1, h2] at hty <;> first | (simp at hty; done) | skip
    rename_i ta tb
    cases xs with
    | nil =>
      simp only [Spec.eval] at hev
      exact sound_branch env f hE bn st st' (some ta) tr false hw.2 hev ⟨tb, ta, h2, rfl, by simpa using hty⟩
    | cons x xs =>
      simp only [Spec.eval] at hev
      have hx := hall x (by simp)
      have hwv : StackWF (x :: .list t xs :: st) := by
        rw [stackWF_cons, stackWF_cons, wf_list, allTy_iff]
        exact ⟨hx.1, fun y hy => hall y (by simp [hy]), hw.2⟩
      exact sound_branch env f hE bc (x :: .list t xs :: st) st' (some tb) tr true hwv hev
        ⟨ta, tb, by simpa [typeOf, hx.2] using h1, rfl, by simpa using hty⟩
  case LOOP body =>
    rcases st with _ | ⟨c, st⟩
    · simp [Spec.eval, Spec.step] at hev
    rw [stackWF_cons] at hw
    cases c <;> first | (simp [Spec.eval, Spec.step] at hev; done) | skip
    rename_i b
    have hty0 := hty
    simp only [List.map_cons, typeOf, typeInstr] at hty
    cases b with
    | false =>
      simp only [Spec.eval, Res.ok.injEq] at hev
      subst hev
      refine ⟨hw.2, ?_⟩
      split at hty
      · split at hty <;> simp at hty; exact hty.symm
      · simp at hty; exact hty.symm
      · simp at hty
    | true =>
      simp only [Spec.eval] at hev
      cases hq : Spec.eval false env f body st with
      | stuck => simp [hq] at hev
      | failed _ => simp [hq] at hev
      | rtfail => simp [hq] at hev
      | oof => simp [hq] at hev
      | offguard => simp [hq] at hev
      | ok st1 =>
        simp only [hq, rbind_ok] at hev
        cases hb : typeInstr Mode.strict body (st.map typeOf) with
        | none => simp [hb] at hty
        | some tb =>
          obtain ⟨h1, h2⟩ := hE body st st1 tb hw.2 hq hb
          subst h2
          simp only [hb] at hty
          split at hty
          · rename_i hs'
            exact hE (.LOOP body) st1 st' tr h1 hev (by rw [hs']; exact hty0)
          · simp at hty
  case LOOP_LEFT body =>
    rcases st with _ | ⟨c, st⟩
    · simp [Spec.eval, Spec.step] at hev
    rw [stackWF_cons] at hw
    cases c <;> first | (simp [Spec.eval, Spec.step] at hev; done) | skip
    · -- left: another iteration
      rename_i v r
      have hty0 := hty
      simp only [List.map_cons, typeOf, typeInstr] at hty
      simp only [Spec.eval] at hev
      cases hq : Spec.eval false env f body (v :: st) with
      | stuck => simp [hq] at hev
      | failed _ => simp [hq] at hev
      | rtfail => simp [hq] at hev
      | oof => simp [hq] at hev
      | offguard => simp [hq] at hev
      | ok st1 =>
        simp only [hq, rbind_ok] at hev
        have hwv : StackWF (v :: st) := stackWF_cons.mpr ⟨(wf_left v r).mp hw.1, hw.2⟩
        cases hb : typeInstr Mode.strict body (typeOf v :: st.map typeOf) with
        | none => simp [hb] at hty
        | some tb =>
          obtain ⟨h1, h2⟩ := hE body (v :: st) st1 tb hwv hq (by simpa using hb)
          subst h2
          simp only [hb] at hty
          split at hty
          · rename_i hs'
            exact hE (.LOOP_LEFT body) st1 st' tr h1 hev (by rw [hs']; exact hty0)
          · simp at hty
    · -- right: done
      rename_i l v
      simp only [Spec.eval, Res.ok.injEq] at hev
      subst hev
      simp only [List.map_cons, typeOf, typeInstr] at hty
      refine ⟨stackWF_cons.mpr ⟨(wf_right v l).mp hw.1, hw.2⟩, ?_⟩
      split at hty
      · split at hty <;> simp at hty; simp [← hty]
      · simp at hty; simp [← hty]
      · simp at hty
  case ITER body =>
    rcases st with _ | ⟨c, st⟩
    · simp [Spec.eval, Spec.step] at hev
    rw [stackWF_cons] at hw
    cases c <;> first | (simp [Spec.eval, Spec.step] at hev; done) | skip
    · rename_i t xs
      have hall := allTy_iff.mp ((wf_list t xs).mp hw.1)
      simp only [Spec.eval] at hev
      simp only [List.map_cons, typeOf, typeInstr] at hty
      have hk : BodyKeeps body t (st.map typeOf) ∧ tr = .ok (st.map typeOf) := by
        unfold BodyKeeps
        split at hty
        · rename_i s' heq
          split at hty
          · rename_i hs; subst hs; simp at hty; exact ⟨Or.inl heq, hty.symm⟩
          · simp at hty
        · rename_i heq; simp at hty; exact ⟨Or.inr heq, hty.symm⟩
        · simp at hty
      obtain ⟨g1, g2⟩ := hI body xs st st' t hall hw.2 hk.1 hev
      exact ⟨g1, by rw [hk.2, g2]⟩
    · rename_i k v xs
      have hall := allTy_iff.mp ((wf_map k v xs).mp hw.1)
      simp only [Spec.eval] at hev
      simp only [List.map_cons, typeOf, typeInstr] at hty
      have hk : BodyKeeps body (.pair k v) (st.map typeOf) ∧ tr = .ok (st.map typeOf) := by
        unfold BodyKeeps
        split at hty
        · rename_i s' heq
          split at hty
          · rename_i hs; subst hs; simp at hty; exact ⟨Or.inl heq, hty.symm⟩
          · simp at hty
        · rename_i heq; simp at hty; exact ⟨Or.inr heq, hty.symm⟩
        · simp at hty
      obtain ⟨g1, g2⟩ := hI body xs st st' (.pair k v) hall hw.2 hk.1 hev
      exact ⟨g1, by rw [hk.2, g2]⟩
    · rename_i t xs
      have hall := allTy_iff.mp ((wf_set t xs).mp hw.1)
      simp only [Spec.eval] at hev
      simp only [List.map_cons, typeOf, typeInstr] at hty
      have hk : BodyKeeps body t (st.map typeOf) ∧ tr = .ok (st.map typeOf) := by
        unfold BodyKeeps
        split at hty
        · rename_i s' heq
          split at hty
          · rename_i hs; subst hs; simp at hty; exact ⟨Or.inl heq, hty.symm⟩
          · simp at hty
        · rename_i heq; simp at hty; exact ⟨Or.inr heq, hty.symm⟩
        · simp at hty
      obtain ⟨g1, g2⟩ := hI body xs st st' t hall hw.2 hk.1 hev
      exact ⟨g1, by rw [hk.2, g2]⟩
  case MAP body =>
    rcases st with _ | ⟨c, st⟩
    · simp [Spec.eval, Spec.step] at hev
    rw [stackWF_cons] at hw
    cases c <;> first | (simp [Spec.eval, Spec.step] at hev; done) | skip
    · -- list
      rename_i t xs
      have hall := allTy_iff.mp ((wf_list t xs).mp hw.1)
      simp only [Spec.eval] at hev
      simp only [List.map_cons, typeOf, typeInstr] at hty
      cases hb : typeInstr Mode.strict body (t :: st.map typeOf) with
      | none => simp [hb] at hty
      | some tb =>
        simp only [hb] at hty
        cases tb with
        | failed => simp at hty
        | ok sb =>
          cases sb with
          | nil => simp at hty
          | cons t' s' =>
            dsimp only at hty
            split at hty
            · rename_i hs''
              obtain ⟨hs', _⟩ := hs''
              subst hs'
              simp only [Option.some.injEq] at hty
              have hb0 := typeInstr_lax hb
              cases hq : Spec.evalMap false env f body false xs st with
              | stuck => simp [hq] at hev
              | failed _ => simp [hq] at hev
              | rtfail => simp [hq] at hev
              | oof => simp [hq] at hev
              | offguard => simp [hq] at hev
              | ok p =>
                obtain ⟨ys, st1⟩ := p
                simp only [hq, rbind_ok] at hev
                obtain ⟨g1, g2, g3, g4⟩ := hM body false xs st ys st1 t t' hall hw.2 hb (by simp) hq
                cases hl : Spec.listOf false body t st ys with
                | stuck => simp [hl] at hev
                | failed _ => simp [hl] at hev
                | rtfail => simp [hl] at hev
                | oof => simp [hl] at hev
                | offguard => simp [hl] at hev
                | ok r =>
                  simp [hl] at hev; subst hev
                  have hr : WF r ∧ typeOf r = .list t' := by
                    cases ys with
                    | nil =>
                      simp only [Spec.listOf, Spec.mapOutTy, hb0] at hl
                      simp at hl; subst hl
                      exact ⟨(wf_list _ _).mpr (allTy_nil _), rfl⟩
                    | cons y rest =>
                      simp only [Spec.listOf] at hl
                      split at hl
                      · simp at hl; subst hl
                        have hy := g1 y (by simp)
                        simp only [itemTy] at hy g1
                        refine ⟨(wf_list _ _).mpr (allTy_iff.mpr fun z hz => ?_), by simp [typeOf, hy.2]⟩
                        rw [hy.2]; exact g1 z hz
                      · simp at hl
                  exact ⟨stackWF_cons.mpr ⟨hr.1, g2⟩, by simp [← hty, hr.2, g3]⟩
            · simp at hty
    · -- map
      rename_i k v xs
      have hall := allTy_iff.mp ((wf_map k v xs).mp hw.1)
      simp only [Spec.eval] at hev
      simp only [List.map_cons, typeOf, typeInstr] at hty
      cases hb : typeInstr Mode.strict body (.pair k v :: st.map typeOf) with
      | none => simp [hb] at hty
      | some tb =>
        simp only [hb] at hty
        cases tb with
        | failed => simp at hty
        | ok sb =>
          cases sb with
          | nil => simp at hty
          | cons t' s' =>
            dsimp only at hty
            split at hty
            · rename_i hs''
              obtain ⟨hs', _⟩ := hs''
              subst hs'
              simp only [Option.some.injEq] at hty
              have hb0 := typeInstr_lax hb
              cases hq : Spec.evalMap false env f body true xs st with
              | stuck => simp [hq] at hev
              | failed _ => simp [hq] at hev
              | rtfail => simp [hq] at hev
              | oof => simp [hq] at hev
              | offguard => simp [hq] at hev
              | ok p =>
                obtain ⟨ys, st1⟩ := p
                simp only [hq, rbind_ok] at hev
                obtain ⟨g1, g2, g3, g4⟩ := hM body true xs st ys st1 (.pair k v) t' hall hw.2 hb (fun _ => ⟨k, v, rfl⟩) hq
                cases hl : Spec.mapOf false body k v st ys with
                | stuck => simp [hl] at hev
                | failed _ => simp [hl] at hev
                | rtfail => simp [hl] at hev
                | oof => simp [hl] at hev
                | offguard => simp [hl] at hev
                | ok r =>
                  simp [hl] at hev; subst hev
                  have hr : WF r ∧ typeOf r = .map k t' := by
                    cases ys with
                    | nil =>
                      simp only [Spec.mapOf, Spec.mapOutTy, hb0] at hl
                      simp at hl; subst hl
                      exact ⟨(wf_map _ _ _).mpr (allTy_nil _), rfl⟩
                    | cons y rest =>
                      have hy := g1 y (by simp)
                      simp only [itemTy] at hy g1
                      obtain ⟨a, b, rfl, ha, hb'⟩ := hasTy_pair (hasTy_iff.mpr hy)
                      simp only [Spec.mapOf] at hl
                      split at hl
                      · simp at hl; subst hl
                        have ha' := (hasTy_iff.mp ha).2
                        have hb'' := (hasTy_iff.mp hb').2
                        refine ⟨(wf_map _ _ _).mpr (allTy_iff.mpr fun z hz => ?_), by simp [typeOf, ha', hb'']⟩
                        rw [ha', hb'']; exact g1 z hz
                      · simp at hl
                  exact ⟨stackWF_cons.mpr ⟨hr.1, g2⟩, by simp [← hty, hr.2, g3]⟩
            · simp at hty
  case EXEC =>
    rcases st with _ | ⟨a, _ | ⟨l, st⟩⟩
    · simp [Spec.eval, Spec.step] at hev
    · simp [Spec.eval, Spec.step] at hev
    rw [stackWF_cons, stackWF_cons] at hw
    obtain ⟨hwa, hwl, hw⟩ := hw
    cases l <;> first | (simp [Spec.eval, Spec.step] at hev; done) | skip
    rename_i ta tb body
    simp only [Spec.eval] at hev
    split at hev
    · rename_i hta
      cases hq : Spec.eval false env f body [a] with
      | stuck => simp [hq] at hev
      | failed _ => simp [hq] at hev
      | rtfail => simp [hq] at hev
      | oof => simp [hq] at hev
      | offguard => simp [hq] at hev
      | ok r =>
        simp only [hq, rbind_ok] at hev
        rcases r with _ | ⟨y, _ | ⟨z, r⟩⟩
        · simp at hev
        · simp only at hev
          split at hev
          · rename_i hyb
            simp at hev; subst hev
            have hbody := (wf_lam ta tb body).mp hwl
            have hwy : WF y := by
              rcases hbody with hb | hb
              · have := hE body [a] [y] _ (stackWF_cons.mpr ⟨hwa, stackWF_nil⟩) hq (by simpa [hta] using hb)
                exact (stackWF_cons.mp this.1).1
              · have := hE body [a] [y] _ (stackWF_cons.mpr ⟨hwa, stackWF_nil⟩) hq (by simpa [hta] using hb)
                cases this.2
            simp only [List.map_cons, typeOf, typeInstr, hta, if_true, Option.some.injEq] at hty
            exact ⟨stackWF_cons.mpr ⟨hwy, hw⟩, by simp [← hty, hyb]⟩
          · simp at hev
        · simp at hev
    · simp at hev

end
end Interp

namespace Interp
variable [Mode]
open Typing

theorem sound_all (env : Env) : ∀ f, SoundE env f ∧ SoundS env f ∧ SoundI env f ∧ SoundM env f
  | 0 => by
    refine ⟨?_, ?_, ?_, ?_⟩
    · intro i st st' tr _ hev _; simp [Spec.eval] at hev
    · intro is st st' tr hw hev hty
      cases is with
      | nil => simp [Spec.evalSeq] at hev; subst hev; simp [typeSeq] at hty; subst hty; exact ⟨hw, rfl⟩
      | cons i is => simp [Spec.evalSeq] at hev
    · intro body xs st st' t _ hw _ hev
      cases xs with
      | nil => simp [Spec.evalIter] at hev; subst hev; exact ⟨hw, rfl⟩
      | cons x xs => simp [Spec.evalIter] at hev
    · intro body isMap xs st ys st' t t' _ hw _ _ hev
      cases xs with
      | nil => simp [Spec.evalMap] at hev; obtain ⟨rfl, rfl⟩ := hev; exact ⟨by simp, hw, rfl, fun _ => rfl⟩
      | cons x xs => simp [Spec.evalMap] at hev
  | f + 1 =>
    have ⟨hE, hS, hI, hM⟩ := sound_all env f
    ⟨soundE_succ env f hE hS hI hM, soundS_succ env f hE hS, soundI_succ env f hE hI, soundM_succ env f hE hM⟩

/-- **type preservation of the reference semantics** -/
theorem preservation (env : Env) (fuel : Nat) (i : Instr) (st st' : List Val) (ts : List Ty) (tr : TRes)
    (hst : StackTy st ts) (hty : typeInstr Mode.strict i ts = some tr) (hev : Spec.eval false env fuel i st = .ok st') :
    ∃ ts', tr = .ok ts' ∧ StackTy st' ts' := by
  obtain ⟨hw, hm⟩ := stackTy_iff.mp hst
  subst hm
  obtain ⟨h1, h2⟩ := (sound_all env fuel).1 i st st' tr hw hev hty
  exact ⟨st'.map typeOf, h2, stackTy_iff.mpr ⟨h1, rfl⟩⟩

end Interp
