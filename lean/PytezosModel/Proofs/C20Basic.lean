import PytezosModel.Michelson.Tickets
/-! helper lemmas for C20: measures of value lists (`LS` total amount per kind, `LC` consistency, `LN` no zero ticket),
their invariance under permutation, the stack primitives, and the value-level facts about tickets and maps -/
namespace Impl.Tickets

abbrev LS (k : TKey) (xs : List Val) : Nat := ticketSumList k xs
def LC (xs : List Val) : Prop := ∀ v ∈ xs, v.consistent = true
def LN (xs : List Val) : Prop := ∀ v ∈ xs, noZero v = true

theorem LS_nil (k : TKey) : LS k [] = 0 := rfl
theorem LS_cons (k : TKey) (x : Val) (xs : List Val) : LS k (x :: xs) = ticketSum k x + LS k xs := rfl

theorem LS_append (k : TKey) (xs ys : List Val) : LS k (xs ++ ys) = LS k xs + LS k ys := by
  induction xs with
  | nil => simp [LS, ticketSumList]
  | cons x xs ih => simp only [List.cons_append, LS_cons, ih]; omega

theorem LS_perm (k : TKey) {xs ys : List Val} (h : xs.Perm ys) : LS k xs = LS k ys := by
  induction h with
  | nil => rfl
  | cons x _ ih => simp only [LS_cons, ih]
  | swap x y l => simp only [LS_cons]; omega
  | trans _ _ ih1 ih2 => exact ih1.trans ih2

theorem LC_perm {xs ys : List Val} (h : xs.Perm ys) : LC xs ↔ LC ys := by
  unfold LC; constructor
  · intro hx v hv; exact hx v (h.mem_iff.mpr hv)
  · intro hy v hv; exact hy v (h.mem_iff.mp hv)

theorem LN_perm {xs ys : List Val} (h : xs.Perm ys) : LN xs ↔ LN ys := by
  unfold LN; constructor
  · intro hx v hv; exact hx v (h.mem_iff.mpr hv)
  · intro hy v hv; exact hy v (h.mem_iff.mp hv)

theorem LC_append {xs ys : List Val} : LC (xs ++ ys) ↔ LC xs ∧ LC ys := by
  unfold LC; constructor
  · intro h; exact ⟨fun v hv => h v (List.mem_append_left _ hv), fun v hv => h v (List.mem_append_right _ hv)⟩
  · intro ⟨h1, h2⟩ v hv; rcases List.mem_append.mp hv with h | h; exact h1 v h; exact h2 v h

theorem LN_append {xs ys : List Val} : LN (xs ++ ys) ↔ LN xs ∧ LN ys := by
  unfold LN; constructor
  · intro h; exact ⟨fun v hv => h v (List.mem_append_left _ hv), fun v hv => h v (List.mem_append_right _ hv)⟩
  · intro ⟨h1, h2⟩ v hv; rcases List.mem_append.mp hv with h | h; exact h1 v h; exact h2 v h

theorem LC_cons {x : Val} {xs : List Val} : LC (x :: xs) ↔ x.consistent = true ∧ LC xs := by
  unfold LC; simp

theorem LN_cons {x : Val} {xs : List Val} : LN (x :: xs) ↔ noZero x = true ∧ LN xs := by
  unfold LN; simp

theorem LC_nil : LC [] := by intro v hv; cases hv
theorem LN_nil : LN [] := by intro v hv; cases hv

theorem noZeroList_iff (xs : List Val) : noZeroList xs = true ↔ LN xs := by
  induction xs with
  | nil => simp [noZeroList, LN]
  | cons x xs ih => simp [noZeroList, LN_cons, ih]

theorem consistentList_iff (t : Ty) (xs : List Val) :
    Val.consistentList t xs = true ↔ (∀ v ∈ xs, v.typeOf = t) ∧ LC xs := by
  induction xs with
  | nil => simp [Val.consistentList, LC]
  | cons x xs ih =>
    simp only [Val.consistentList, Bool.and_eq_true, beq_iff_eq, ih, List.mem_cons, forall_eq_or_imp, LC_cons]
    constructor
    · rintro ⟨⟨h1, h2⟩, h3, h4⟩; exact ⟨⟨h1, h3⟩, h2, h4⟩
    · rintro ⟨⟨h1, h3⟩, h2, h4⟩; exact ⟨⟨h1, h2⟩, h3, h4⟩

/-! ### stack primitives -/

theorem take_drop_perm (p n : Nat) (xs : List Val) :
    xs.Perm ((xs.drop p).take n ++ (xs.take p ++ xs.drop (p + n))) := by
  have h1 : xs = xs.take p ++ ((xs.drop p).take n ++ (xs.drop p).drop n) := by
    rw [List.take_append_drop, List.take_append_drop]
  have h2 : (xs.drop p).drop n = xs.drop (p + n) := by rw [List.drop_drop]
  rw [h2] at h1
  conv => lhs; rw [h1]
  exact List.perm_append_comm_assoc _ _ _

theorem pop_spec {s s1 : State} {n : Nat} {vs : List Val} (h : s.pop n = .ok (vs, s1)) :
    s.items.Perm (vs ++ s1.items) ∧ s1.self = s.self ∧ s1.typedStores = s.typedStores ∧ s1.minted = s.minted
      ∧ vs.length = n := by
  unfold State.pop at h
  split at h
  · cases h
  · rename_i hlen
    simp only [Except.ok.injEq, Prod.mk.injEq] at h
    obtain ⟨rfl, rfl⟩ := h
    refine ⟨take_drop_perm _ _ _, rfl, rfl, rfl, ?_⟩
    simp only [List.length_take, List.length_drop]
    omega

theorem pop1_spec {s s1 : State} {a : Val} (h : s.pop1 = .ok (a, s1)) :
    s.items.Perm (a :: s1.items) ∧ s1.self = s.self ∧ s1.typedStores = s.typedStores ∧ s1.minted = s.minted := by
  unfold State.pop1 at h
  cases hp : s.pop 1 with
  | error e => simp [hp, bind, Except.bind] at h
  | ok r =>
    obtain ⟨vs, s'⟩ := r
    simp only [hp, bind, Except.bind] at h
    have := pop_spec hp
    match vs, h, this with
    | [x], h, this =>
      simp only [pure, Except.pure, Except.ok.injEq, Prod.mk.injEq] at h
      obtain ⟨rfl, rfl⟩ := h
      exact ⟨this.1, this.2.1, this.2.2.1, this.2.2.2.1⟩

theorem pop2_spec {s s1 : State} {a b : Val} (h : s.pop2 = .ok (a, b, s1)) :
    s.items.Perm (a :: b :: s1.items) ∧ s1.self = s.self ∧ s1.typedStores = s.typedStores ∧ s1.minted = s.minted := by
  unfold State.pop2 at h
  cases hp : s.pop 2 with
  | error e => simp [hp, bind, Except.bind] at h
  | ok r =>
    obtain ⟨vs, s'⟩ := r
    simp only [hp, bind, Except.bind] at h
    have := pop_spec hp
    match vs, h, this with
    | [x, y], h, this =>
      simp only [pure, Except.pure, Except.ok.injEq, Prod.mk.injEq] at h
      obtain ⟨rfl, rfl, rfl⟩ := h
      exact ⟨this.1, this.2.1, this.2.2.1, this.2.2.2.1⟩

theorem pop3_spec {s s1 : State} {a b d : Val} (h : s.pop3 = .ok (a, b, d, s1)) :
    s.items.Perm (a :: b :: d :: s1.items) ∧ s1.self = s.self ∧ s1.typedStores = s.typedStores ∧ s1.minted = s.minted := by
  unfold State.pop3 at h
  cases hp : s.pop 3 with
  | error e => simp [hp, bind, Except.bind] at h
  | ok r =>
    obtain ⟨vs, s'⟩ := r
    simp only [hp, bind, Except.bind] at h
    have := pop_spec hp
    match vs, h, this with
    | [x, y, z], h, this =>
      simp only [pure, Except.pure, Except.ok.injEq, Prod.mk.injEq] at h
      obtain ⟨rfl, rfl, rfl, rfl⟩ := h
      exact ⟨this.1, this.2.1, this.2.2.1, this.2.2.2.1⟩

theorem push_perm (s : State) (v : Val) : (s.push v).items.Perm (v :: s.items) := by
  unfold State.push
  simp only
  have : s.items = s.items.take s.prot ++ s.items.drop s.prot := (List.take_append_drop _ _).symm
  conv => rhs; rw [this]
  exact List.perm_middle

theorem push_self (s : State) (v : Val) : (s.push v).self = s.self := rfl
theorem push_typed (s : State) (v : Val) : (s.push v).typedStores = s.typedStores := rfl
theorem push_minted (s : State) (v : Val) : (s.push v).minted = s.minted := rfl

theorem peek_perm {s : State} {v : Val} (h : s.peek = .ok v) : ∃ rest, s.items.Perm (v :: rest) := by
  unfold State.peek at h
  split at h
  · cases h
  · split at h
    · rename_i x hx
      simp only [Except.ok.injEq] at h
      subst h
      obtain ⟨hlt, hx'⟩ := List.getElem?_eq_some_iff.mp hx
      refine ⟨s.items.take s.prot ++ s.items.drop (s.prot + 1), ?_⟩
      have e : s.items = s.items.take s.prot ++ (x :: s.items.drop (s.prot + 1)) := by
        rw [← hx', ← List.drop_eq_getElem_cons hlt, List.take_append_drop]
      conv => lhs; rw [e]
      exact List.perm_middle
    · cases h

end Impl.Tickets
