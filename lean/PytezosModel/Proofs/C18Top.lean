import PytezosModel.Proofs.C18Format
import PytezosModel.Proofs.C18Parse
/-! C18 helper lemmas gluing the pieces: the concrete generated tables pass the finite checks; the formatter does
not reject a well-formed expression; the text of a root expression does not start with `(`. -/
namespace Impl.Text
open Generated

/-- the regenerated lexer table passes the finite check the lexing lemmas need -/
theorem lexSpec_ok : lexSpec.all specOK = true := by decide

/-- the regenerated `is_framed` rule is "applied or annotated" -/
theorem fmtCfg_framed : fmtCfg.all (fun c => c.framed.isNone) = true := by decide

theorem specOK_of {sp : LexSpec} (h : lexSpec = some sp) : SpecOK sp := by
  have := lexSpec_ok
  rw [h] at this
  exact specOK_sound this

theorem framed_of {cfg : FmtCfg} (h : fmtCfg = some cfg) : cfg.framed = none := by
  have := fmtCfg_framed
  rw [h] at this
  simp only [Option.all_some, Option.isNone_iff_eq_none] at this
  exact this

mutual
  theorem wf_primsNonEmpty (sp : LexSpec) (tags : List String) (e : Mich) (h : wfNode sp tags e = true) :
      primsNonEmpty e = true :=
    match e, h with
    | .int _, _ => rfl
    | .str _, _ => rfl
    | .bytes _, _ => rfl
    | .seq xs, h => by
      simp only [wfNode] at h
      simp only [primsNonEmpty]
      exact wf_primsNonEmptyL sp tags xs h
    | .prim p args annots, h => by
      simp only [wfNode, Bool.and_eq_true] at h
      obtain ⟨⟨⟨_, hp⟩, _⟩, hargs⟩ := h
      simp only [primsNonEmpty, Bool.and_eq_true, Bool.not_eq_true']
      refine ⟨?_, wf_primsNonEmptyL sp tags args hargs⟩
      cases hpl : p.toList with
      | nil => rw [hpl] at hp; simp [primLexes] at hp
      | cons _ _ => rfl
  theorem wf_primsNonEmptyL (sp : LexSpec) (tags : List String) (xs : List Mich) (h : wfList sp tags xs = true) :
      primsNonEmptyL xs = true :=
    match xs, h with
    | [], _ => rfl
    | x :: xs, h => by
      simp only [wfList, Bool.and_eq_true] at h
      simp only [primsNonEmptyL, Bool.and_eq_true]
      exact ⟨wf_primsNonEmpty sp tags x h.1, wf_primsNonEmptyL sp tags xs h.2⟩
end

/-- the first token of an unparenthesised expression is not `(` -/
theorem toksNode_head_unframed (cfg : FmtCfg) (isRoot wrapped : Bool) (h : (isRoot || wrapped) = true) (e : Mich) :
    ∃ t ts, toksNode cfg isRoot wrapped e = t :: ts ∧ t ≠ Tok.lparen := by
  have hnf : ∀ b : Bool, (b && !isRoot && !wrapped) = false := by
    intro b; cases isRoot <;> cases wrapped <;> simp at h ⊢
  cases e with
  | int v => exact ⟨.int (intRepr v), [], by simp [toksNode], by simp⟩
  | str s => exact ⟨.str (jsonDumps s.toList), [], by simp [toksNode], by simp⟩
  | bytes b => exact ⟨.byte ('0' :: 'x' :: hexOf b), [], by simp [toksNode], by simp⟩
  | prim p args annots =>
    exact ⟨.prim p.toList, annotToks annots ++ toksArgs cfg args, by simp [toksNode, hnf], by simp⟩
  | seq xs =>
    cases xs with
    | nil => exact ⟨.lcurly, [.rcurly], by simp [toksNode], by simp⟩
    | cons x xs =>
      simp only [toksNode]
      split
      · -- script root: the first item, printed in item position
        have hx : ∃ t ts, toksNode cfg false true x = t :: ts ∧ t ≠ Tok.lparen := by
          cases x with
          | int v => exact ⟨.int (intRepr v), [], by simp [toksNode], by simp⟩
          | str s => exact ⟨.str (jsonDumps s.toList), [], by simp [toksNode], by simp⟩
          | bytes b => exact ⟨.byte ('0' :: 'x' :: hexOf b), [], by simp [toksNode], by simp⟩
          | prim p args annots =>
            exact ⟨.prim p.toList, annotToks annots ++ toksArgs cfg args, by simp [toksNode], by simp⟩
          | seq ys =>
            cases ys with
            | nil => exact ⟨.lcurly, [.rcurly], by simp [toksNode], by simp⟩
            | cons y ys => exact ⟨.lcurly, toksItems cfg (y :: ys) ++ [.rcurly], by simp [toksNode], by simp⟩
        obtain ⟨t, ts, ht, hne⟩ := hx
        cases xs with
        | nil => exact ⟨t, ts, by simp [toksItems, ht], hne⟩
        | cons y ys => exact ⟨t, ts ++ [.semi] ++ toksItems cfg (y :: ys), by simp [toksItems, ht], hne⟩
      · exact ⟨.lcurly, toksItems cfg (x :: xs) ++ [.rcurly], by simp, by simp⟩

/-- a text that lexes to a stream not starting with `(` is left alone by `MichelsonParser.parse` -/
theorem stripParens_of_lex {sp : LexSpec} (ok : SpecOK sp) (s : List Char) (t : Tok) (ts : List Tok)
    (hl : lexWith sp s = some (t :: ts)) (ht : t ≠ Tok.lparen) : stripParens s = s := by
  unfold stripParens
  split
  · rename_i rest
    have := lex_punct ok '(' .lparen rest (by simp)
    rw [this] at hl
    cases hr : lexWith sp rest with
    | none => rw [hr] at hl; cases hl
    | some r => rw [hr] at hl; simp at hl; exact absurd hl.1.symm ht
  · rfl

end Impl.Text
