import PytezosModel.Client.OpForge
import PytezosModel.Proofs.Bytes
import PytezosModel.Proofs.Zarith
import PytezosModel.Proofs.MichelineRT
import PytezosModel.Proofs.MichelineStrict
/-! C06 helper lemmas, part 1: every schema codec reads back what the mirror of the corresponding
`forge_x(content[k])` statement wrote, and leaves exactly the bytes that followed it. -/
namespace C06Proofs
open Core OpLayout Impl.OpForge Spec.Op
open Generated.C06 (Codec Cond Field)

theorem takeN_append (h rest : Bytes) (n : Nat) (hl : h.length = n) : takeN n (h ++ rest) = some (h, rest) := by
  subst hl
  simp [takeN]

theorem natToBE_one (v : Nat) (hv : v < 256) : natToBE 1 v = some [v] := by
  have h1 : v / 256 = 0 := by omega
  have h2 : v % 256 = v := by omega
  simp [natToBE, h1, h2]

/-- N: the strict reader accepts every `forge_nat` output -/
theorem decodeN_forgeNat (n : Nat) (rest : Bytes) : decodeN (forgeNat n ++ rest) = some (n, rest) := by
  rw [forgeNat]
  split
  · rename_i h
    simp [decodeN, h]
  · rename_i h
    have hs := unforgeNatStrict_forgeNat true (n / 128) (by omega) rest
    have h1 : ¬ (n % 128 + 128 < 128) := by omega
    simp only [List.cons_append, decodeN, h1, if_false, hs, Option.map_some]
    congr 2
    omega

/-! ### the regenerated prefix tables of `forge_address` / `forge_public_key` contain the Tezos rows -/

theorem pkh_rows : ∀ r ∈ pkhPrefixes, addrRow r.2 = some ([0, r.1], []) ∧ assocN pkhPrefixes r.1 = some r.2 := by
  decide +kernel

theorem orig_rows : ∀ r ∈ originatedPrefixes,
    addrRow r.2 = some ([r.1], [0]) ∧ assocN originatedPrefixes r.1 = some r.2 ∧ r.1 ≠ 0 := by
  decide +kernel

theorem pk_rows : ∀ r ∈ publicKeys, pkTag r.2.1 = some r.1 ∧ assocN publicKeys r.1 = some r.2 := by
  decide +kernel

theorem rt_pkh (p : String) (h : Bytes) (hw : WFVal .pkh (.addr p h) = true) (bs : Bytes)
    (he : encodeC .pkh (.addr p h) = some bs) (rest : Bytes) : decodePkh (bs ++ rest) = some (.addr p h, rest) := by
  simp only [WFVal, Bool.and_eq_true, List.any_eq_true, beq_iff_eq] at hw
  obtain ⟨⟨r, hr, rfl⟩, hlen⟩ := hw
  obtain ⟨h1, h2⟩ := pkh_rows r hr
  simp only [encodeC, forgeAddress, h1, Option.map_some, if_true, Option.some.injEq] at he
  subst he
  simp [decodePkh, h2, takeN_append h rest 20 hlen]

theorem rt_addr (p : String) (h : Bytes) (hw : WFVal .addr (.addr p h) = true) (bs : Bytes)
    (he : encodeC .addr (.addr p h) = some bs) (rest : Bytes) : decodeAddr (bs ++ rest) = some (.addr p h, rest) := by
  simp only [WFVal, Bool.and_eq_true, Bool.or_eq_true, List.any_eq_true, beq_iff_eq] at hw
  obtain ⟨hp, hlen⟩ := hw
  rcases hp with ⟨r, hr, rfl⟩ | ⟨r, hr, rfl⟩
  · obtain ⟨h1, h2⟩ := pkh_rows r hr
    simp only [encodeC, forgeAddress, h1, Option.map_some, Option.some.injEq] at he
    subst he
    simp [decodeAddr, decodePkh, h2, takeN_append h rest 20 hlen]
  · obtain ⟨h1, h2, h3⟩ := orig_rows r hr
    simp only [encodeC, forgeAddress, h1, Option.map_some, Option.some.injEq] at he
    subst he
    have ht : takeN 20 (h ++ (0 :: rest)) = some (h, 0 :: rest) := takeN_append h (0 :: rest) 20 hlen
    simp [decodeAddr, h2, h3, ht]

theorem rt_pubkey (p : String) (k : Bytes) (hw : WFVal .pubkey (.pubkey p k) = true) (bs : Bytes)
    (he : encodeC .pubkey (.pubkey p k) = some bs) (rest : Bytes) :
    decodePubkey (bs ++ rest) = some (.pubkey p k, rest) := by
  simp only [WFVal, Bool.and_eq_true, List.any_eq_true, beq_iff_eq] at hw
  obtain ⟨r, hr, rfl, hlen⟩ := hw
  obtain ⟨h1, h2⟩ := pk_rows r hr
  simp only [encodeC, forgePublicKey, h1, Option.map_some, Option.some.injEq] at he
  subst he
  simp [decodePubkey, h2, takeN_append k rest r.2.2 hlen.symm]

/-! ### entrypoints -/

/-- tags of the Tezos table are unique and never 0xff -/
theorem reserved_rows : ∀ row ∈ reservedEntrypoints,
    row.2.2 ≠ 255 ∧ reservedEntrypoints.find? (·.2.2 == row.2.2) = some row := by
  decide +kernel

theorem rt_entrypoint (htab : Generated.C06.reservedEntrypoints = some reservedEntrypoints)
    (n : Bytes) (hw : WFVal .entrypoint (.ep n) = true) (bs : Bytes)
    (he : forgeEntrypoint n = some bs) (rest : Bytes) : decodeEntrypoint (bs ++ rest) = some (.ep n, rest) := by
  simp only [WFVal, Bool.and_eq_true, decide_eq_true_eq] at hw
  obtain ⟨hpos, hmax⟩ := hw
  simp only [forgeEntrypoint, reservedTag, htab, Option.map_some] at he
  cases hf : reservedEntrypoints.find? (·.2.1 == n) with
  | some row =>
    simp only [hf, Option.map_some, Option.some.injEq] at he
    subst he
    have hmem := List.mem_of_find?_eq_some hf
    have hp := List.find?_some hf
    simp only [beq_iff_eq] at hp
    obtain ⟨h1, h2⟩ := reserved_rows row hmem
    simp [decodeEntrypoint, h1, h2, hp]
  | none =>
    simp only [hf, Option.map_none] at he
    have hl : natToBE 1 n.length = some [n.length] := natToBE_one _ (by omega)
    simp only [forgeArray, hl, Option.map_some, Option.some.injEq] at he
    subst he
    have hres : isReservedName n = false := by
      simp only [isReservedName, List.any_eq_false]
      intro x hx
      have := List.find?_eq_none.mp hf x hx
      simpa using this
    have h0 : ¬ (n.length = 0) := by omega
    have h31 : ¬ (n.length > 31) := by omega
    simp [decodeEntrypoint, h0, h31, takeN_append n rest n.length rfl, hres]

/-! ### message lists -/

theorem forgeItems_length : ∀ (xs : List Bytes) (body : Bytes), forgeItems xs = some body → xs.length ≤ body.length
  | [], body, h => by simp
  | x :: xs, body, h => by
    simp only [forgeItems, Option.bind_eq_bind, Option.bind_eq_some_iff, Option.pure_def, Option.some.injEq] at h
    obtain ⟨a, ha, b, hb, rfl⟩ := h
    have := forgeItems_length xs b hb
    have := forgeArray_length 4 x a ha
    simp only [List.length_cons, List.length_append]
    omega

theorem decodeItems_forgeItems : ∀ (xs : List Bytes) (body : Bytes), forgeItems xs = some body →
    ∀ fuel, xs.length ≤ fuel → decodeItems fuel body = some xs
  | [], body, h, fuel, _ => by
    simp only [forgeItems, Option.some.injEq] at h
    subst h
    unfold decodeItems
    simp
  | x :: xs, body, h, fuel, hf => by
    simp only [forgeItems, Option.bind_eq_bind, Option.bind_eq_some_iff, Option.pure_def, Option.some.injEq] at h
    obtain ⟨a, ha, b, hb, rfl⟩ := h
    obtain ⟨f, rfl⟩ : ∃ f, fuel = f + 1 := ⟨fuel - 1, by simp only [List.length_cons] at hf; omega⟩
    have hlen := forgeArray_length 4 x a ha
    have hne : ¬ ((a ++ b).length = 0) := by simp only [List.length_append]; omega
    have hrec := decodeItems_forgeItems xs b hb f (by simp only [List.length_cons] at hf; omega)
    unfold decodeItems
    simp only [hne, if_false, unforgeArray_forgeArray 4 x a b ha, hrec, Option.map_some]

/-! ### all codecs -/

theorem rt_codec (htab : Generated.C06.reservedEntrypoints = some reservedEntrypoints)
    (c : SCodec) (v : Val) (hw : WFVal c v = true) (bs : Bytes) (he : encodeC c.erase v = some bs) (rest : Bytes) :
    decodeC c (bs ++ rest) = some (v, rest) := by
  cases c <;> cases v <;> first
    | exact Bool.noConfusion hw
    | skip
  case nat.nat n =>
    simp only [SCodec.erase, encodeC, Option.some.injEq] at he
    subst he
    simp [decodeC, decodeN_forgeNat]
  case fixed.raw k b =>
    simp only [SCodec.erase, encodeC, Option.some.injEq] at he
    subst he
    simp only [WFVal, beq_iff_eq] at hw
    simp [decodeC, takeN_append b rest k hw]
  case pkh.addr p h =>
    simp only [decodeC]
    exact rt_pkh p h hw bs he rest
  case addr.addr p h =>
    simp only [decodeC]
    exact rt_addr p h hw bs he rest
  case pubkey.pubkey p k =>
    simp only [decodeC]
    exact rt_pubkey p k hw bs he rest
  case bytes4.raw b =>
    simp only [SCodec.erase, encodeC] at he
    simp [decodeC, unforgeArray_forgeArray 4 b bs rest he]
  case dynFixed.raw k b =>
    simp only [SCodec.erase, encodeC] at he
    simp only [WFVal, beq_iff_eq] at hw
    simp [decodeC, unforgeArray_forgeArray 4 b bs rest he, hw]
  case dynMax.raw k b =>
    simp only [SCodec.erase, encodeC] at he
    simp only [WFVal, decide_eq_true_eq] at hw
    simp [decodeC, unforgeArray_forgeArray 4 b bs rest he, hw]
  case mich4.mich e =>
    simp only [SCodec.erase, encodeC, Option.bind_eq_some_iff] at he
    obtain ⟨fb, hfb, harr⟩ := he
    simp only [WFVal] at hw
    have hdec := Impl.Forge.unforge_refines_spec Impl.Lower.known fb e
      (Impl.Forge.unforge_forge Impl.Lower.known true e hw fb hfb)
    simp [decodeC, unforgeArray_forgeArray 4 fb bs rest harr, hdec]
  case entrypoint.ep n =>
    simp only [SCodec.erase, encodeC] at he
    simp only [decodeC]
    exact rt_entrypoint htab n hw bs he rest
  case list4.list xs =>
    simp only [SCodec.erase, encodeC, Option.bind_eq_some_iff] at he
    obtain ⟨body, hb, harr⟩ := he
    have hdec := decodeItems_forgeItems xs body hb body.length (forgeItems_length xs body hb)
    simp [decodeC, unforgeArray_forgeArray 4 body bs rest harr, hdec]

end C06Proofs
