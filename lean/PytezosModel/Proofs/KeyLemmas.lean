import PytezosModel.Crypto.Key
/-! Helper lemmas about the mirror of key.py (`Impl.Key`), used by Props/C07, C08, C23. -/
namespace Impl.Key

/-! ### what the translator currently reads (closed facts, re-evaluated on every run) -/

theorem scrubRecognised_true : Generated.C07.scrubRecognised = true := by decide

theorem scrub_bytes (b : Bytes) : scrub (.bytes b) = .ok b := by
  simp [scrub, scrubRecognised_true]

theorem scrub_str_hex (s : List Nat) (b : Bytes) (h : fromHex (removePrefix0x s) = some b) :
    scrub (.str s) = .ok b := by
  simp [scrub, scrubRecognised_true, h]

theorem scrub_str_nohex (s : List Nat) (h : fromHex (removePrefix0x s) = none) :
    scrub (.str s) = if s.all (· < 128) then .ok s else .error (.valueError .scrubAscii) := by
  simp [scrub, scrubRecognised_true, h]

/-- texts that `bytes.fromhex` rejects whatever follows: the beginnings of every signature / key kind -/
def nonHexStarts : List (List Nat) :=
  [[101, 100, 115], [101, 100, 112], [101, 100, 101, 115], [115], [112], [66, 76]]

theorem fromHex_nonhex (p rest : List Nat) (hp : p ∈ nonHexStarts) :
    fromHex (removePrefix0x (p ++ rest)) = none := by
  simp only [nonHexStarts, List.mem_cons, List.not_mem_nil, or_false] at hp
  rcases hp with h | h | h | h | h | h <;> subst h <;>
    simp [removePrefix0x, fromHex, isSpace, hexVal]

/-- a str that starts like a signature or a key and is ASCII is taken as is (`.encode('ascii')`) -/
theorem scrub_str_nonhex (s : List Nat) (p : List Nat) (hp : p ∈ nonHexStarts) (hpre : p <+: s)
    (hascii : ∀ ch ∈ s, ch < 128) : scrub (.str s) = .ok s := by
  obtain ⟨rest, rfl⟩ := hpre
  rw [scrub_str_nohex _ (fromHex_nonhex p rest hp)]
  have : (p ++ rest).all (· < 128) = true := by
    rw [List.all_eq_true]; intro x hx; exact decide_eq_true (hascii x hx)
  simp [this]


end Impl.Key
