import PytezosModel.Micheline.Lower
namespace Impl.Lower
open Core

theorem splitSp_ne_nil (bs : Bytes) : splitSp bs ≠ [] := by
  induction bs with
  | nil => simp [splitSp]
  | cons b t ih =>
    simp only [splitSp]
    split
    · simp
    · split <;> simp

theorem splitSp_append_space (a : Bytes) (h : 32 ∉ a) (rest : Bytes) :
    splitSp (a ++ 32 :: rest) = a :: splitSp rest := by
  induction a with
  | nil => simp [splitSp]
  | cons b t ih =>
    have hb : b ≠ 32 := fun e => h (by simp [e])
    have ht : 32 ∉ t := fun e => h (by simp [e])
    simp only [List.cons_append, splitSp, hb, if_false, ih ht]

theorem splitSp_nospace (a : Bytes) (h : 32 ∉ a) : splitSp a = [a] := by
  induction a with
  | nil => simp [splitSp]
  | cons b t ih =>
    have hb : b ≠ 32 := fun e => h (by simp [e])
    have ht : 32 ∉ t := fun e => h (by simp [e])
    simp only [splitSp, hb, if_false, ih ht]

/-- `' '.join(annots).split(' ') == annots` for a non-empty list of space-free annotations -/
theorem splitSp_joinSp (as : List Bytes) (hne : as ≠ []) (h : ∀ a ∈ as, 32 ∉ a) : splitSp (joinSp as) = as := by
  induction as with
  | nil => exact absurd rfl hne
  | cons a rest ih =>
    cases rest with
    | nil => simpa [joinSp] using splitSp_nospace a (h a (by simp))
    | cons b rest' =>
      have := ih (by simp) (fun x hx => h x (by simp [hx]))
      simp only [joinSp] at this ⊢
      rw [splitSp_append_space a (h a (by simp)), this]

end Impl.Lower
