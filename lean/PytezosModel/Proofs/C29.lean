import PytezosModel.Client.Search
/-! Helper lemmas for C29 (chain-history search): the specification list `changes` splits at any level,
bisection finds a change point, the walk of one interval and the scan of all intervals. -/
namespace Proofs.C29
open Impl.Search Spec.Search
variable {V : Type} [DecidableEq V]

/-! ### `Spec.Search.changes` -/

theorem changes_append (get : Nat → V) {lo m hi : Nat} (h1 : lo ≤ m) (h2 : m ≤ hi) :
    changes get lo hi = changes get lo m ++ changes get m hi := by
  unfold changes
  have e : hi - lo = (m - lo) + (hi - m) := by omega
  have e2 : m + 1 = lo + 1 + (m - lo) := by omega
  rw [e, ← List.range'_append_1, List.filter_append, List.map_append, e2]

theorem changes_of_le (get : Nat → V) {lo hi : Nat} (h : hi ≤ lo) : changes get lo hi = [] := by
  unfold changes
  have : hi - lo = 0 := by omega
  simp [this]

theorem changes_const (get : Nat → V) {lo hi : Nat} (h : ∀ l, lo < l → l ≤ hi → get l = get (l - 1)) :
    changes get lo hi = [] := by
  unfold changes
  have : (List.range' (lo + 1) (hi - lo)).filter (isChange get) = [] := by
    rw [List.filter_eq_nil_iff]
    intro a ha
    rw [List.mem_range'_1] at ha
    simp [isChange, h a (by omega) (by omega)]
  rw [this]; rfl

theorem changes_step (get : Nat → V) {l : Nat} (hl : 0 < l) (h : get l ≠ get (l - 1)) :
    changes get (l - 1) l = [(l, get l)] := by
  unfold changes
  have e1 : l - (l - 1) = 1 := by omega
  have e2 : l - 1 + 1 = l := by omega
  rw [e1, e2, List.range'_one]
  simp [isChange, h]

omit [DecidableEq V] in
/-- under `NoReturn`, equal end points force a constant stretch -/
theorem const_of_noReturn (get : Nat → V) {lo hi : Nat} (hnr : NoReturn get lo hi) {a b : Nat}
    (ha : lo ≤ a) (_hab : a ≤ b) (hb : b ≤ hi) (he : get a = get b) : ∀ j, a ≤ j → j ≤ b → get j = get a :=
  fun j h1 h2 => hnr a j b ha h1 h2 hb he

omit [DecidableEq V] in
theorem noReturn_mono (get : Nat → V) {lo hi lo' hi' : Nat} (hnr : NoReturn get lo hi) (h1 : lo ≤ lo') (h2 : hi' ≤ hi) :
    NoReturn get lo' hi' :=
  fun i j k a b c d e => hnr i j k (by omega) b c (by omega) e

theorem changes_nil_of_eq (get : Nat → V) {lo hi : Nat} (hnr : NoReturn get lo hi) (he : get lo = get hi) :
    changes get lo hi = [] := by
  by_cases hle : lo ≤ hi
  · apply changes_const
    intro l h1 h2
    have a := const_of_noReturn get hnr (Nat.le_refl lo) hle (Nat.le_refl hi) he l (by omega) h2
    have b := const_of_noReturn get hnr (Nat.le_refl lo) hle (Nat.le_refl hi) he (l - 1) (by omega) (by omega)
    rw [a, b]
  · exact changes_of_le get (by omega)

/-- the first change above `lo` -/
theorem changes_first (get : Nat → V) {lo l hi : Nat} (hnr : NoReturn get lo hi) (h1 : lo < l) (h2 : l ≤ hi)
    (hp : get (l - 1) = get lo) (hn : get l ≠ get lo) :
    changes get lo hi = (l, get l) :: changes get l hi := by
  have hnr' : NoReturn get lo (l - 1) := noReturn_mono get hnr (Nat.le_refl _) (by omega)
  rw [changes_append get (m := l - 1) (by omega) (by omega), changes_append get (lo := l - 1) (m := l) (by omega) h2,
    changes_nil_of_eq get hnr' hp.symm, changes_step get (by omega) (by rw [hp]; exact hn)]
  rfl

/-! ### bisection -/

theorem bisect_ok (get : Nat → V) (pred : V) :
    ∀ (fuel lo hi : Nat), lo < hi → hi - lo ≤ fuel → get lo = pred → get hi ≠ pred →
      ∃ l t, bisect true get pred fuel lo hi = .ok ((l, get l), t) ∧ lo < l ∧ l ≤ hi ∧ get (l - 1) = pred ∧ get l ≠ pred := by
  intro fuel
  induction fuel with
  | zero => intro lo hi h1 h2; omega
  | succ n ih =>
    intro lo hi hlt hfuel hlo hhi
    by_cases hb : hi = lo + 1
    · refine ⟨hi, [hi], ?_, by omega, Nat.le_refl _, ?_, hhi⟩
      · simp [bisect, hb]
      · have : hi - 1 = lo := by omega
        rw [this]; exact hlo
    · by_cases hm : get ((hi + lo) / 2) = pred
      · obtain ⟨l, t, he, h1, h2, h3, h4⟩ := ih ((hi + lo) / 2) hi (by omega) (by omega) hm hhi
        refine ⟨l, (hi + lo) / 2 :: t, ?_, by omega, h2, h3, h4⟩
        simp [bisect, hb, hm, he, Except.map]
      · obtain ⟨l, t, he, h1, h2, h3, h4⟩ := ih lo ((hi + lo) / 2) (by omega) (by omega) hlo hm
        refine ⟨l, (hi + lo) / 2 :: t, ?_, h1, by omega, h3, h4⟩
        simp [bisect, hb, hm, he, Except.map]

/-- `bisect(start, end)` with `end ≤ start`: unbounded recursion in Python -/
theorem bisect_degenerate (get : Nat → V) (pred : V) {lo hi : Nat} (h : hi ≤ lo) :
    bisect true get pred (hi - lo) lo hi = .error .recursion := by
  have e : hi - lo = 0 := by omega
  have hb : hi ≠ lo + 1 := by omega
  simp [e, bisect, hb]

/-! ### walking one interval -/

theorem walk_ok (cfg : Config) (hlog : cfg.logOk = true) (get : Nat → V) (head : Nat) :
    ∀ (fuel level : Nat), level ≤ head → head - level ≤ fuel → NoReturn get level head →
      ∃ t, walk cfg get head (get head) fuel level (get level) = .ok (changes get level head, t) := by
  intro fuel
  induction fuel with
  | zero =>
    intro level h1 h2 _
    have : level = head := by omega
    subst this
    exact ⟨[], by simp [walk, changes_of_le get (Nat.le_refl level)]⟩
  | succ n ih =>
    intro level h1 h2 hnr
    by_cases hv : get level = get head
    · exact ⟨[], by simp [walk, hv, changes_nil_of_eq get hnr hv]⟩
    · have hlt : level < head := by
        rcases Nat.lt_or_ge level head with h | h
        · exact h
        · have : level = head := by omega
          subst this; exact absurd rfl hv
      obtain ⟨l, t, he, g1, g2, g3, g4⟩ :=
        bisect_ok get (get level) (head - level) level head hlt (Nat.le_refl _) rfl (fun h => hv h.symm)
      obtain ⟨t', he'⟩ := ih l g2 (by omega) (noReturn_mono get hnr (by omega) (Nat.le_refl _))
      refine ⟨t ++ t', ?_⟩
      rw [changes_first get hnr g1 g2 g3 g4]
      simp [walk, hv, findStateChangeWith, hlog, he, he', Except.map]

/-! ### running the events of the interval scan -/

theorem runEvents_probes (cfg : Config) (get : Nat → V) (evs rest : List (Event V)) {r : List (Nat × V)} {t : List Nat}
    (h : runEvents cfg get rest = .ok (r, t)) : ∃ t', runEvents cfg get (probesOf evs ++ rest) = .ok (r, t') := by
  induction evs with
  | nil => exact ⟨t, h⟩
  | cons e evs ih =>
    cases e with
    | probe l =>
      obtain ⟨t', h'⟩ := ih
      exact ⟨l :: t', by simp [probesOf, runEvents, h', Except.map]⟩
    | interval a b c d => simpa [probesOf] using ih

theorem runEvents_append (cfg : Config) (get : Nat → V) (a b : List (Event V)) {r1 r2 : List (Nat × V)} {t1 t2 : List Nat}
    (h1 : runEvents cfg get a = .ok (r1, t1)) (h2 : runEvents cfg get b = .ok (r2, t2)) :
    ∃ t, runEvents cfg get (a ++ b) = .ok (r1 ++ r2, t) := by
  induction a generalizing r1 t1 with
  | nil =>
    simp [runEvents] at h1
    obtain ⟨rfl, rfl⟩ := h1
    exact ⟨t2, by simpa using h2⟩
  | cons e a ih =>
    cases e with
    | probe l =>
      simp only [runEvents, List.cons_append] at h1 ⊢
      cases hra : runEvents cfg get a with
      | error e => simp [hra, Except.map] at h1
      | ok v =>
        obtain ⟨x, tx⟩ := v
        simp [hra, Except.map] at h1
        obtain ⟨rfl, rfl⟩ := h1
        obtain ⟨t, ht⟩ := ih hra
        exact ⟨l :: t, by simp [ht, Except.map]⟩
    | interval hd hv tl tv =>
      simp only [runEvents, List.cons_append] at h1 ⊢
      cases hw : walkIntervalWith cfg get hd tl hv tv with
      | error e => simp [hw] at h1
      | ok w =>
        obtain ⟨x1, tw⟩ := w
        cases hra : runEvents cfg get a with
        | error e => simp [hw, hra, Except.map] at h1
        | ok v =>
          obtain ⟨x, tx⟩ := v
          simp [hw, hra, Except.map] at h1
          obtain ⟨rfl, rfl⟩ := h1
          obtain ⟨t, ht⟩ := ih hra
          exact ⟨tw ++ t, by simp [ht, Except.map, List.append_assoc]⟩

theorem runEvents_interval (cfg : Config) (hlog : cfg.logOk = true) (get : Nat → V) {lo hi : Nat} (h : lo ≤ hi)
    (hnr : NoReturn get lo hi) :
    ∃ t, runEvents cfg get [.interval hi (get hi) lo (get lo)] = .ok (changes get lo hi, t) := by
  obtain ⟨t, ht⟩ := walk_ok cfg hlog get hi (hi - lo) lo h (Nat.le_refl _) hnr
  exact ⟨t ++ [], by simp [runEvents, walkIntervalWith, ht, Except.map]⟩

/-- the intervals found by the downward scan, walked upwards, give all changes of `(last, cur]` -/
theorem scan_ok (cfg : Config) (hlog : cfg.logOk = true) (get : Nat → V) (last step : Nat) (hstep : 0 < step) :
    ∀ (cur : Nat), NoReturn get last cur →
      ∃ t, runEvents cfg get (intervalsOf (scan true get last step cur (get cur))).reverse = .ok (changes get last cur, t) := by
  intro cur
  induction cur using Nat.strongRecOn with
  | _ cur ih =>
    intro hnr
    rw [scan]
    by_cases hloop : last + step < cur ∧ 0 < step
    · have hnr1 : NoReturn get last (cur - step) := noReturn_mono get hnr (Nat.le_refl _) (by omega)
      have hnr2 : NoReturn get (cur - step) cur := noReturn_mono get hnr (by omega) (Nat.le_refl _)
      obtain ⟨t1, h1⟩ := ih (cur - step) (by omega) hnr1
      rw [changes_append get (lo := last) (m := cur - step) (hi := cur) (by omega) (by omega)]
      by_cases hv : get (cur - step) = get cur
      · rw [changes_nil_of_eq get hnr2 hv]
        refine ⟨t1, ?_⟩
        simp only [hloop, and_self, dite_true, hv, if_true, intervalsOf, List.append_nil]
        rw [← hv]; exact h1
      · obtain ⟨t2, h2⟩ := runEvents_interval cfg hlog get (lo := cur - step) (hi := cur) (by omega) hnr2
        obtain ⟨t, ht⟩ := runEvents_append cfg get _ _ h1 h2
        refine ⟨t, ?_⟩
        simp only [hloop, and_self, dite_true, hv, if_false, intervalsOf, List.reverse_cons]
        exact ht
    · simp only [hloop, dite_false, tailPart, Bool.true_and]
      by_cases hlt : last < cur
      · by_cases hv : get last = get cur
        · refine ⟨[], ?_⟩
          simp [hlt, hv, intervalsOf, runEvents, changes_nil_of_eq get hnr hv]
        · obtain ⟨t, ht⟩ := runEvents_interval cfg hlog get (lo := last) (hi := cur) (by omega) hnr
          refine ⟨t, ?_⟩
          simp only [hlt, decide_true, if_true, hv, if_false, intervalsOf, List.reverse_cons, List.reverse_nil, List.nil_append]
          exact ht
      · refine ⟨[], ?_⟩
        simp [hlt, intervalsOf, runEvents, changes_of_le get (Nat.le_of_not_lt hlt)]

end Proofs.C29
