import PytezosModel.Proofs.InterpUnpack
import PytezosModel.Proofs.MichelineRT
import PytezosModel.Proofs.InterpTyping
/-! `UNPACK t (PACK v) = Some v`: what PACK writes for a well-formed value of an unpackable type (whose strings are Michelson
strings), UNPACK reads back at that type — for the reference semantics and for the machine. -/
set_option linter.unusedSimpArgs false
namespace Interp
open Core Typing

abbrev wfD (m : BMich) : Bool := BMich.WF Spec.knownPrim m
abbrev wfDL (ms : List BMich) : Bool := BMich.WFList Spec.knownPrim ms

theorem wf_combLayout (cs : List BMich) (h : wfDL cs = true) : wfD (Spec.combLayout cs) = true := by
  rcases cs with _ | ⟨x, _ | ⟨y, _ | ⟨z, _ | ⟨w, rest⟩⟩⟩⟩ <;> simp_all [Spec.combLayout, wfD, wfDL, BMich.WF, BMich.WFList, Spec.knownPrim]

mutual
  /-- the canonical optimized form uses known primitives only and no annotations -/
  theorem optBoth_wf : ∀ (v : Val) (y : BMich × List BMich), Spec.optBoth v = some y → wfD y.1 = true ∧ wfDL y.2 = true
    | .pair a b, y, h => by
      rw [Spec.optBoth] at h
      cases ha : Spec.optBoth a with
      | none => simp [ha] at h
      | some x =>
        cases hb : Spec.optBoth b with
        | none => simp [ha, hb] at h
        | some z =>
          simp only [ha, hb, Option.some.injEq] at h
          subst h
          have h1 := optBoth_wf a x ha
          have h2 := optBoth_wf b z hb
          have hc : wfDL (x.1 :: z.2) = true := by simp [wfDL, BMich.WFList, h1.1, h2.2]
          exact ⟨wf_combLayout _ hc, hc⟩
    | .unit, y, h => by simp [Spec.optBoth] at h; subst h; simp [wfD, wfDL, BMich.WF, BMich.WFList, Spec.knownPrim]
    | .bool true, y, h => by simp [Spec.optBoth] at h; subst h; simp [wfD, wfDL, BMich.WF, BMich.WFList, Spec.knownPrim]
    | .bool false, y, h => by simp [Spec.optBoth] at h; subst h; simp [wfD, wfDL, BMich.WF, BMich.WFList, Spec.knownPrim]
    | .num _ _, y, h => by simp [Spec.optBoth] at h; subst h; simp [wfD, wfDL, BMich.WF, BMich.WFList, Spec.knownPrim]
    | .str _, y, h => by simp [Spec.optBoth] at h; subst h; simp [wfD, wfDL, BMich.WF, BMich.WFList, Spec.knownPrim]
    | .bytes _, y, h => by simp [Spec.optBoth] at h; subst h; simp [wfD, wfDL, BMich.WF, BMich.WFList, Spec.knownPrim]
    | .some v, y, h => by
      rw [Spec.optBoth] at h
      cases hv : Spec.optBoth v with
      | none => simp [hv] at h
      | some x => simp [hv] at h; subst h; simp [wfD, wfDL, BMich.WF, BMich.WFList, Spec.knownPrim, (optBoth_wf v x hv).1]
    | .none _, y, h => by simp [Spec.optBoth] at h; subst h; simp [wfD, wfDL, BMich.WF, BMich.WFList, Spec.knownPrim]
    | .left v _, y, h => by
      rw [Spec.optBoth] at h
      cases hv : Spec.optBoth v with
      | none => simp [hv] at h
      | some x => simp [hv] at h; subst h; simp [wfD, wfDL, BMich.WF, BMich.WFList, Spec.knownPrim, (optBoth_wf v x hv).1]
    | .right _ v, y, h => by
      rw [Spec.optBoth] at h
      cases hv : Spec.optBoth v with
      | none => simp [hv] at h
      | some x => simp [hv] at h; subst h; simp [wfD, wfDL, BMich.WF, BMich.WFList, Spec.knownPrim, (optBoth_wf v x hv).1]
    | .list _ xs, y, h => by
      rw [Spec.optBoth] at h
      cases hv : Spec.optimizedL xs with
      | none => simp [hv] at h
      | some ys => simp [hv] at h; subst h; simp [wfD, wfDL, BMich.WF, BMich.WFList, Spec.knownPrim, optimizedL_wf xs ys hv]
    | .set _ xs, y, h => by
      rw [Spec.optBoth] at h
      cases hv : Spec.optimizedL xs with
      | none => simp [hv] at h
      | some ys => simp [hv] at h; subst h; simp [wfD, wfDL, BMich.WF, BMich.WFList, Spec.knownPrim, optimizedL_wf xs ys hv]
    | .map _ _ xs, y, h => by
      rw [Spec.optBoth] at h
      cases hv : Spec.optimizedE xs with
      | none => simp [hv] at h
      | some ys => simp [hv] at h; subst h; simp [wfD, wfDL, BMich.WF, BMich.WFList, Spec.knownPrim, optimizedE_wf xs ys hv]
    | .atom _ _, y, h => by simp [Spec.optBoth] at h
    | .lam _ _ _, y, h => by simp [Spec.optBoth] at h
    | .contract _ _, y, h => by simp [Spec.optBoth] at h
    | .opTransfer .., y, h => by simp [Spec.optBoth] at h
    | .opDelegate .., y, h => by simp [Spec.optBoth] at h
    | .opEmit .., y, h => by simp [Spec.optBoth] at h
    | .bigMap .., y, h => by simp [Spec.optBoth] at h
  theorem optimizedL_wf : ∀ (xs : List Val) (ys : List BMich), Spec.optimizedL xs = some ys → wfDL ys = true
    | [], ys, h => by simp [Spec.optimizedL] at h; subst h; rfl
    | x :: xs, ys, h => by
      rw [Spec.optimizedL] at h
      cases hx : Spec.optBoth x with
      | none => simp [hx] at h
      | some y =>
        cases hr : Spec.optimizedL xs with
        | none => simp [hx, hr] at h
        | some zs => simp [hx, hr] at h; subst h; simp [wfDL, BMich.WFList, (optBoth_wf x y hx).1, optimizedL_wf xs zs hr]
  theorem optimizedE_wf : ∀ (xs : List Val) (ys : List BMich), Spec.optimizedE xs = some ys → wfDL ys = true
    | [], ys, h => by simp [Spec.optimizedE] at h; subst h; rfl
    | .pair k v :: xs, ys, h => by
      rw [Spec.optimizedE] at h
      cases hk : Spec.optBoth k with
      | none => simp [hk] at h
      | some a =>
        cases hv : Spec.optBoth v with
        | none => simp [hk, hv] at h
        | some b =>
          cases hr : Spec.optimizedE xs with
          | none => simp [hk, hv, hr] at h
          | some zs =>
            simp [hk, hv, hr] at h; subst h
            simp [wfD, wfDL, BMich.WF, BMich.WFList, Spec.knownPrim, (optBoth_wf k a hk).1, (optBoth_wf v b hv).1, optimizedE_wf xs zs hr]
    | .unit :: _, _, h | .bool _ :: _, _, h | .num _ _ :: _, _, h | .str _ :: _, _, h | .bytes _ :: _, _, h | .atom _ _ :: _, _, h
    | .some _ :: _, _, h | .none _ :: _, _, h | .left _ _ :: _, _, h | .right _ _ :: _, _, h | .list _ _ :: _, _, h
    | .map _ _ _ :: _, _, h | .set _ _ :: _, _, h | .lam _ _ _ :: _, _, h | .contract _ _ :: _, _, h
    | .opTransfer .. :: _, _, h | .opDelegate .. :: _, _, h | .opEmit .. :: _, _, h | .bigMap .. :: _, _, h => by simp [Spec.optimizedE] at h
end


/-- the strict decoder reads the reference encoding of a canonical optimized form back -/
theorem decode_encode (v : Val) (y : BMich × List BMich) (body : List Nat) (hy : Spec.optBoth v = some y)
    (he : Spec.encodeM y.1 = some body) : _root_.Spec.Micheline.decode Spec.knownPrim body = some y.1 := by
  have hf : Impl.Forge.forge y.1 = some body := by rw [forge_eq y.1 (optBoth_plain v y hy).1]; exact he
  have := Impl.Forge.unforge_forge Spec.knownPrim true y.1 (optBoth_wf v y hy).1 body hf
  rw [Impl.Forge.unforge_eq_decode] at this
  exact this

mutual
  /-- every string inside the value is a Michelson string (printable ASCII and newlines) -/
  def strOk : Val → Bool
    | .str s => s.all Spec.printable
    | .pair a b => strOk a && strOk b
    | .some v => strOk v
    | .left v _ => strOk v
    | .right _ v => strOk v
    | .list _ xs => strOks xs
    | .set _ xs => strOks xs
    | .map _ _ xs => strOks xs
    | _ => true
  def strOks : List Val → Bool
    | [] => true
    | x :: xs => strOk x && strOks xs
end

theorem isPairTy_false_of_ne {t : Ty} (h : ∀ l r, t ≠ .pair l r) : Spec.isPairTy t = false := by
  cases t <;> first | rfl | exact absurd rfl (h _ _)

mutual
  /-- the canonical optimized form of a well-formed value is read back as that value — as it stands, and (for a pair) as the
  n-ary `Pair` of its components -/
  theorem read_opt (rt : List Nat → Option Int) (s : Bool) : ∀ (v : Val) (t : Ty) (y : BMich × List BMich),
      unpackable t = true → checkVal s v t = true → litOk v = true → strOk v = true → Spec.optBoth v = some y →
      Spec.readVal rt t y.1 = some v ∧
      (Spec.isPairTy t = true → ∃ c1 c2 rest, y.2 = c1 :: c2 :: rest ∧ Spec.readVal rt t (.prim 7 y.2 none) = some v) ∧
      (Spec.isPairTy t = false → y.2 = [y.1])
    | .pair a b, t, y, hu, hc, hl, hs, hy => by
      cases t <;> simp [checkVal] at hc
      rename_i l r
      simp only [unpackable, Bool.and_eq_true] at hu
      simp only [litOk, Bool.and_eq_true] at hl
      simp only [strOk, Bool.and_eq_true] at hs
      rw [Spec.optBoth] at hy
      cases ha : Spec.optBoth a with
      | none => simp [ha] at hy
      | some x =>
        cases hb : Spec.optBoth b with
        | none => simp [ha, hb] at hy
        | some z =>
          simp only [ha, hb, Option.some.injEq] at hy
          subst hy
          obtain ⟨ia, _, _⟩ := read_opt rt s a l x hu.1 hc.1 hl.1 hs.1 ha
          obtain ⟨ib1, ib2, ib3⟩ := read_opt rt s b r z hu.2 hc.2 hl.2 hs.2 hb
          refine ⟨?_, fun _ => ?_, fun h => by simp [Spec.isPairTy] at h⟩
          · by_cases hp : Spec.isPairTy r = true
            · obtain ⟨c1, c2, rest, hz, hr⟩ := ib2 hp
              simp only [hz] at hr ⊢
              cases rest with
              | nil => simp [Spec.combLayout, Spec.readVal, ia, hr, Spec.mkPair]
              | cons c3 rest' => simp [Spec.combLayout, Spec.readVal, ia, hr, hp, Spec.mkPair]
            · have hp' : Spec.isPairTy r = false := by simpa using hp
              simp only [ib3 hp']
              simp [Spec.combLayout, Spec.readVal, ia, ib1, Spec.mkPair]
          · by_cases hp : Spec.isPairTy r = true
            · obtain ⟨c1, c2, rest, hz, hr⟩ := ib2 hp
              refine ⟨x.1, c1, c2 :: rest, by simp [hz], ?_⟩
              simp only [hz] at hr ⊢
              simp [Spec.readVal, ia, hr, hp, Spec.mkPair]
            · have hp' : Spec.isPairTy r = false := by simpa using hp
              refine ⟨x.1, z.1, [], by simp [ib3 hp'], ?_⟩
              simp only [ib3 hp']
              simp [Spec.readVal, ia, ib1, Spec.mkPair]
    | .unit, t, y, hu, hc, hl, hs, hy => by
      cases t <;> simp [checkVal] at hc
      simp [Spec.optBoth] at hy; subst hy
      simp [Spec.readVal, Spec.isPairTy]
    | .bool true, t, y, hu, hc, hl, hs, hy => by
      cases t <;> simp [checkVal] at hc
      simp [Spec.optBoth] at hy; subst hy
      simp [Spec.readVal, Spec.isPairTy]
    | .bool false, t, y, hu, hc, hl, hs, hy => by
      cases t <;> simp [checkVal] at hc
      simp [Spec.optBoth] at hy; subst hy
      simp [Spec.readVal, Spec.isPairTy]
    | .num tt n, t, y, hu, hc, hl, hs, hy => by
      simp [Spec.optBoth] at hy; subst hy
      cases tt <;> cases t <;> simp [checkVal] at hc <;> simp [Spec.readVal, Spec.isPairTy, hc]
    | .str st, t, y, hu, hc, hl, hs, hy => by
      cases t <;> simp [checkVal] at hc
      simp [Spec.optBoth] at hy; subst hy
      simp only [strOk] at hs
      simp [Spec.readVal, Spec.isPairTy, hs]
    | .bytes bs, t, y, hu, hc, hl, hs, hy => by
      cases t <;> simp [checkVal] at hc
      simp [Spec.optBoth] at hy; subst hy
      simp [Spec.readVal, Spec.isPairTy]
    | .some w, t, y, hu, hc, hl, hs, hy => by
      cases t <;> simp [checkVal] at hc
      rename_i ta
      simp only [unpackable] at hu
      simp only [litOk] at hl
      simp only [strOk] at hs
      rw [Spec.optBoth] at hy
      cases hw : Spec.optBoth w with
      | none => simp [hw] at hy
      | some x =>
        simp [hw] at hy; subst hy
        obtain ⟨iw, _, _⟩ := read_opt rt s w ta x hu hc hl hs hw
        simp [Spec.readVal, Spec.isPairTy, iw]
    | .none tn, t, y, hu, hc, hl, hs, hy => by
      cases t <;> simp [checkVal] at hc
      simp [Spec.optBoth] at hy; subst hy
      simp [Spec.readVal, Spec.isPairTy, hc]
    | .left w tr, t, y, hu, hc, hl, hs, hy => by
      cases t <;> simp [checkVal] at hc
      rename_i ta tb
      simp only [unpackable, Bool.and_eq_true] at hu
      simp only [litOk] at hl
      simp only [strOk] at hs
      rw [Spec.optBoth] at hy
      cases hw : Spec.optBoth w with
      | none => simp [hw] at hy
      | some x =>
        simp [hw] at hy; subst hy
        obtain ⟨iw, _, _⟩ := read_opt rt s w ta x hu.1 hc.2 hl hs hw
        simp [Spec.readVal, Spec.isPairTy, iw, hc.1]
    | .right tl w, t, y, hu, hc, hl, hs, hy => by
      cases t <;> simp [checkVal] at hc
      rename_i ta tb
      simp only [unpackable, Bool.and_eq_true] at hu
      simp only [litOk] at hl
      simp only [strOk] at hs
      rw [Spec.optBoth] at hy
      cases hw : Spec.optBoth w with
      | none => simp [hw] at hy
      | some x =>
        simp [hw] at hy; subst hy
        obtain ⟨iw, _, _⟩ := read_opt rt s w tb x hu.2 hc.2 hl hs hw
        simp [Spec.readVal, Spec.isPairTy, iw, hc.1]
    | .list te xs, t, y, hu, hc, hl, hs, hy => by
      cases t <;> simp [checkVal] at hc
      rename_i ta
      simp only [unpackable] at hu
      simp only [litOk] at hl
      simp only [strOk] at hs
      rw [Spec.optBoth] at hy
      cases hw : Spec.optimizedL xs with
      | none => simp [hw] at hy
      | some ys =>
        simp [hw] at hy; subst hy
        have := read_optL rt s xs ta ys hu hc.2 hl hs hw
        simp [Spec.readVal, Spec.isPairTy, this, hc.1]
    | .set te xs, t, y, hu, hc, hl, hs, hy => by
      cases t <;> simp [checkVal] at hc
      rename_i ta
      simp only [unpackable] at hu
      simp only [litOk, Bool.and_eq_true] at hl
      simp only [strOk] at hs
      rw [Spec.optBoth] at hy
      cases hw : Spec.optimizedL xs with
      | none => simp [hw] at hy
      | some ys =>
        simp [hw] at hy; subst hy
        have := read_optL rt s xs ta ys (simple_unpackable hu) hc.2 hl.2 hs hw
        have hg := hl.1
        simp only [goodSet, Bool.and_eq_true] at hg
        simp [Spec.readVal, Spec.isPairTy, this, hc.1, hg.2]
    | .map ke ve xs, t, y, hu, hc, hl, hs, hy => by
      cases t <;> simp [checkVal] at hc
      rename_i ka va
      simp only [unpackable, Bool.and_eq_true] at hu
      simp only [litOk, Bool.and_eq_true, Bool.or_eq_true, Bool.not_eq_true'] at hl
      simp only [strOk] at hs
      rw [Spec.optBoth] at hy
      cases hw : Spec.optimizedE xs with
      | none => simp [hw] at hy
      | some ys =>
        simp [hw] at hy; subst hy
        have := read_optE rt s xs ka va ys (simple_unpackable hu.1) hu.2 hc.2 hl.2 hs hw
        have hg : goodMap ke xs = true := by
          rcases hl.1 with h | h
          · rw [hc.1.1, hu.1] at h; cases h
          · exact h
        simp only [goodMap, Bool.and_eq_true] at hg
        simp [Spec.readVal, Spec.isPairTy, this, hc.1.1, hc.1.2, hg.2]
    | .atom ta _, t, y, _, hc, _, _, hy => by simp [Spec.optBoth] at hy
    | .lam _ _ _, t, y, _, hc, _, _, hy => by simp [Spec.optBoth] at hy
    | .contract _ _, t, y, _, hc, _, _, hy => by simp [Spec.optBoth] at hy
    | .opTransfer .., t, y, _, hc, _, _, hy => by simp [Spec.optBoth] at hy
    | .opDelegate .., t, y, _, hc, _, _, hy => by simp [Spec.optBoth] at hy
    | .opEmit .., t, y, _, hc, _, _, hy => by simp [Spec.optBoth] at hy
    | .bigMap .., t, y, _, hc, _, _, hy => by simp [Spec.optBoth] at hy
  theorem read_optL (rt : List Nat → Option Int) (s : Bool) : ∀ (xs : List Val) (t : Ty) (ys : List BMich),
      unpackable t = true → checkVals s xs t = true → litOks xs = true → strOks xs = true → Spec.optimizedL xs = some ys →
      Spec.readAll (Spec.readVal rt t) ys = some xs
    | [], t, ys, _, _, _, _, hy => by simp [Spec.optimizedL] at hy; subst hy; rfl
    | x :: xs, t, ys, hu, hc, hl, hs, hy => by
      simp only [checkVals, Bool.and_eq_true] at hc
      simp only [litOks, Bool.and_eq_true] at hl
      simp only [strOks, Bool.and_eq_true] at hs
      rw [Spec.optimizedL] at hy
      cases hx : Spec.optBoth x with
      | none => simp [hx] at hy
      | some y =>
        cases hr : Spec.optimizedL xs with
        | none => simp [hx, hr] at hy
        | some zs =>
          simp [hx, hr] at hy; subst hy
          obtain ⟨ix, _, _⟩ := read_opt rt s x t y hu hc.1 hl.1 hs.1 hx
          have ir := read_optL rt s xs t zs hu hc.2 hl.2 hs.2 hr
          simp [Spec.readAll, ix, ir]
  theorem read_optE (rt : List Nat → Option Int) (s : Bool) : ∀ (xs : List Val) (k w : Ty) (ys : List BMich),
      unpackable k = true → unpackable w = true → checkVals s xs (.pair k w) = true → litOks xs = true → strOks xs = true →
      Spec.optimizedE xs = some ys → Spec.readElts (Spec.readVal rt k) (Spec.readVal rt w) ys = some xs
    | [], k, w, ys, _, _, _, _, _, hy => by simp [Spec.optimizedE] at hy; subst hy; rfl
    | x :: xs, k, w, ys, hk, hw, hc, hl, hs, hy => by
      simp only [checkVals, Bool.and_eq_true] at hc
      simp only [litOks, Bool.and_eq_true] at hl
      simp only [strOks, Bool.and_eq_true] at hs
      cases x <;> simp [checkVal] at hc
      rename_i a b
      simp only [litOk, Bool.and_eq_true] at hl
      simp only [strOk, Bool.and_eq_true] at hs
      rw [Spec.optimizedE] at hy
      cases hx : Spec.optBoth a with
      | none => simp [hx] at hy
      | some ya =>
        cases hb : Spec.optBoth b with
        | none => simp [hx, hb] at hy
        | some yb =>
          cases hr : Spec.optimizedE xs with
          | none => simp [hx, hb, hr] at hy
          | some zs =>
            simp [hx, hb, hr] at hy; subst hy
            obtain ⟨ia, _, _⟩ := read_opt rt s a k ya hk hc.1.1 hl.1.1 hs.1.1 hx
            obtain ⟨ib, _, _⟩ := read_opt rt s b w yb hw hc.1.2 hl.1.2 hs.1.2 hb
            have ir := read_optE rt s xs k w zs hk hw hc.2 hl.2 hs.2 hr
            simp [Spec.readElts, ia, ib, ir, Spec.mkPair]
end

/-- **`UNPACK t (PACK v) = Some v`**, reference semantics: for every unpackable type `t`, every well-formed value `v` of type `t`
(sorted collections, Michelson strings) and every environment, the bytes PACK answers for `v` are unpacked at `t` to `Some v` -/
theorem unpackV_packV (env : Env) (s : Bool) (v : Val) (t : Ty) (bs : List Nat)
    (hu : unpackable t = true) (hc : checkVal s v t = true) (hl : litOk v = true) (hs : strOk v = true)
    (hp : Spec.packV v = .ok (.bytes bs)) : Spec.unpackV env t (.bytes bs) = .ok (.some v) := by
  unfold Spec.packV at hp
  split at hp
  · cases hp
  · cases hy : Spec.optBoth v with
    | none => simp [Spec.optimized, hy] at hp
    | some y =>
      simp only [Spec.optimized, hy, Option.map_some] at hp
      cases he : Spec.encodeM y.1 with
      | none => simp [he] at hp
      | some body =>
        simp only [he, Res.ok.injEq, Val.bytes.injEq] at hp
        subst hp
        have hd := decode_encode v y body hy he
        have hr := (read_opt env.readTimestamp s v t y hu hc hl hs hy).1
        simp [Spec.unpackV, hu, hd, hr]

theorem unpackable_packable {t : Ty} (hu : unpackable t = true) : packable t = true := by
  induction t with
  | option t ih => exact ih hu
  | list t ih => exact ih hu
  | set t ih => cases t <;> simp [unpackable, simpleComparable] at hu <;> rfl
  | or a b iha ihb => simp only [unpackable, Bool.and_eq_true] at hu; simp [packable, iha hu.1, ihb hu.2]
  | pair a b iha ihb => simp only [unpackable, Bool.and_eq_true] at hu; simp [packable, iha hu.1, ihb hu.2]
  | map k w _ ihw =>
    simp only [unpackable, Bool.and_eq_true] at hu
    have : packable k = true := by cases k <;> simp [simpleComparable] at hu <;> rfl
    simp [packable, this, ihw hu.2]
  | _ => first | rfl | (simp [unpackable] at hu)

/-- the same for the machine: what `PackInstruction` answers for `v`, `UnpackInstruction` turns back into `Some v` -/
theorem execUnpack_execPack (env : Env) (s : Bool) (v : Val) (t : Ty) (bs : List Nat)
    (hu : unpackable t = true) (hc : checkVal s v t = true) (hl : litOk v = true) (hs : strOk v = true)
    (hp : Impl.execPack v = .ok (.bytes bs)) : Impl.execUnpack env t (.bytes bs) = .ok (.some v) := by
  have hpk : packable t = true := unpackable_packable hu
  have hty : typeOf v = t := by
    cases s with
    | false => exact (@hasTy_typeOf Mode.lax v t hc)
    | true => exact (@hasTy_typeOf Mode.strictGuarded v t hc)
  have hsome := optBoth_some s v t hc hpk
  have hne : Spec.packV v ≠ .stuck := by
    unfold Spec.packV
    rw [hty, hpk]
    cases hb : Spec.optBoth v with
    | none => simp [hb] at hsome
    | some y => simp only [Spec.optimized, hb, Option.map_some, Bool.not_true, Bool.false_eq_true, if_false]; cases Spec.encodeM y.1 <;> simp
  have h1 := execPack_eq v hne
  rw [hp] at h1
  have h2 := unpackV_packV env s v t bs hu hc hl hs h1.symm
  rw [execUnpack_eq env t (.bytes bs) (by rw [h2]; intro e; cases e), h2]

end Interp
