import PytezosModel.Proofs.KeySign
/-! Every exception of `Key.verify` is a ValueError (used by Props/C07 for CHECK_SIGNATURE). -/
namespace Impl.Key

/-- the P256 branch of `Key.verify` turns fastecdsa's `EcdsaError` into the documented ValueError
(not so on a tree where the call is unguarded: the obligation is then open) -/
theorem catches_true : Generated.C07.verifyP256CatchesRangeError = some true := by decide

theorem scrub_error (v : PyIn) (e : Err) (h : scrub v = .error e) : e = .valueError .scrubAscii := by
  unfold scrub at h
  simp only [scrubRecognised_true, Bool.not_true, Bool.false_eq_true, if_false] at h
  split at h
  · cases h
  · split at h
    · cases h
    · split at h <;> cases h
      rfl

/-- every way `Key.verify` can raise: a ValueError, or fastecdsa's `InvalidSEC1PublicKey` passed through
when the primitive cannot parse the public point -/
theorem verify_error_cases (P : Prims) (C : Codec) (k : Key) (sig msg : PyIn) (e : Err)
    (h : verify P C k sig msg = .error e) :
    (∃ s, e = .valueError s) ∨
      (e = .other .keyError ∧ ∃ es em raw dg, scrub sig = .ok es ∧ scrub msg = .ok em ∧ C.decode es = some raw ∧
        verifyPayloadKind k.curve = some dg ∧ P.verify k.curve k.pub (payload P dg em) raw = .keyError) := by
  obtain ⟨dg, _, hdg, _⟩ := payloadKinds k.curve
  unfold verify at h
  split at h
  · rename_i e' hs; cases h; exact Or.inl ⟨_, scrub_error _ _ hs⟩
  · rename_i es hs
    split at h
    · rename_i e' hm; cases h; exact Or.inl ⟨_, scrub_error _ _ hm⟩
    · rename_i em hm
      split at h
      · cases h; exact Or.inl ⟨_, rfl⟩
      · split at h
        · cases h; exact Or.inl ⟨_, rfl⟩
        · split at h
          · cases h; exact Or.inl ⟨_, rfl⟩
          · rename_i raw hdec
            rw [hdg, catches_true] at h
            simp only at h
            split at h
            · cases h
            · cases h; exact Or.inl ⟨_, rfl⟩
            · cases h; exact Or.inl ⟨_, rfl⟩
            · simp at h; cases h; exact Or.inl ⟨_, rfl⟩
            · rename_i hv
              cases h
              exact Or.inr ⟨rfl, es, em, raw, dg, hs, hm, hdec, hdg, hv⟩

end Impl.Key
