import PytezosModel.Michelson.View
/-! Helper lemmas for C32 (rule tables the proofs are written for, character ranges, the lambda flag). -/
namespace Proofs.C32
open Impl.View Spec.View Generated.C32

/-- the rule tables the proofs are written for = what the (repaired) source contains -/
def S0 : CodeShape :=
  { always := ["SELF"], outside := ["CREATE_CONTRACT", "SET_DELEGATE", "TRANSFER_TOKENS"],
    openers := ["LAMBDA", "LAMBDA_REC"], pushRule := some ("PUSH", "lambda") }

def N0 : NameShape :=
  { tooLong := 32, charRanges := some [(37, 37), (46, 46), (48, 57), (64, 64), (65, 90), (95, 95), (97, 122)] }

theorem inRanges_iff (c : Nat) :
    inRanges [(37, 37), (46, 46), (48, 57), (64, 64), (65, 90), (95, 95), (97, 122)] c = true ↔ okCodePoint c := by
  simp only [inRanges, okCodePoint, List.any_cons, List.any_nil, Bool.or_false, Bool.or_eq_true, Bool.and_eq_true,
    decide_eq_true_eq]
  omega

mutual
  theorem hasLambdaType_eq : (t : Mich) → hasLambdaType "lambda" t = mentionsLambda t
    | .prim p args _ => by simp only [hasLambdaType, mentionsLambda, hasLambdaTypeAny_eq args]
    | .seq xs => by simp only [hasLambdaType, mentionsLambda, hasLambdaTypeAny_eq xs]
    | .int _ => rfl
    | .str _ => rfl
    | .bytes _ => rfl
  theorem hasLambdaTypeAny_eq : (ts : List Mich) → hasLambdaTypeAny "lambda" ts = mentionsLambdaAny ts
    | [] => rfl
    | t :: ts => by simp only [hasLambdaTypeAny, mentionsLambdaAny, hasLambdaType_eq t, hasLambdaTypeAny_eq ts]
end

theorem always_iff (p : String) : S0.always.contains p = true ↔ p = "SELF" := by
  simp [S0]

theorem outside_iff (p : String) : S0.outside.contains p = true ↔ p ∈ restricted := by
  simp only [S0, restricted, List.contains_iff_mem, List.mem_cons, List.not_mem_nil, or_false]
  constructor
  · rintro (h | h | h) <;> simp [h]
  · rintro (h | h | h) <;> simp [h]

/-- the flag handed down by the mirror is the Spec's "arguments are a lambda body" -/
theorem flagForArgs_eq (lam : Bool) (p : String) (args : List Mich) (h : (p != "PUSH" || !args.isEmpty) = true) :
    flagForArgs S0 lam p args = .ok (lam || opensLambdaBody p args) := by
  unfold flagForArgs opensLambdaBody
  simp only [S0]
  by_cases hp : p = "PUSH"
  · subst hp
    cases args with
    | nil => simp at h
    | cons ty rest => simp [hasLambdaType_eq]
  · have hp' : (p == "PUSH") = false := by simpa using hp
    simp only [hp', List.contains_cons, List.contains_nil, Bool.or_false, Bool.false_eq_true, if_false, Bool.false_and]

end Proofs.C32
