import PytezosModel.Michelson.EntrypointsPy
import PytezosModel.Proofs.C13
/-! helper lemmas for the C13 extension (Python-object form of a call, type expressions as written) -/
namespace Impl.Entrypoints
open Spec.Entrypoints

/-! ### paths in matched types -/

theorem nodeAt_erase (q : QTy) (path : Path) : nodeAt q.erase path = (nodeAtQ q path).map QTy.erase := by
  induction path generalizing q with
  | nil => cases q <;> simp [nodeAt, nodeAtQ]
  | cons b path ih =>
    cases q with
    | leaf f t p ty => simp [nodeAt, nodeAtQ, QTy.erase]
    | or f t l r => cases b <;> simp [nodeAt, nodeAtQ, QTy.erase, ih]

theorem isOr_erase (q : QTy) : q.erase.isOr = q.isOr := by cases q <;> rfl

theorem descend_eq {q : QTy} {path : Path} {qn : QTy} (h : nodeAtQ q path = some qn) (k : QTy → Except Err PVal) :
    descend q path k = (k qn).map (fun a => inject a path) := by
  induction path generalizing q with
  | nil =>
    simp only [nodeAtQ, Option.some.injEq] at h
    subst h
    cases hk : k q <;> simp [descend, hk, Except.map, inject]
  | cons b path ih =>
    cases q with
    | leaf f t p ty => simp [nodeAtQ] at h
    | or f t l r =>
      cases b
      · simp only [nodeAtQ] at h
        simp only [descend, ih h]
        cases k qn <;> simp [Except.map, inject]
      · simp only [nodeAtQ] at h
        simp only [descend, ih h]
        cases k qn <;> simp [Except.map, inject]

/-- what `descend` returns is typed when what the continuation returns is -/
theorem descend_hasTy {q : QTy} {path : Path} {k : QTy → Except Err PVal} {a : PVal}
    (hk : ∀ qn b, k qn = .ok b → hasTy b qn.erase = true) (h : descend q path k = .ok a) : hasTy a q.erase = true := by
  induction path generalizing q a with
  | nil => exact hk q a (by simpa [descend] using h)
  | cons b path ih =>
    cases q with
    | leaf f t p ty => simp [descend] at h
    | or f t l r =>
      cases b
      · simp only [descend] at h
        cases hd : descend l path k with
        | error e => simp [hd, Except.map] at h
        | ok x =>
          simp only [hd, Except.map, Except.ok.injEq] at h
          subst h
          simpa [hasTy, QTy.erase] using ih hd
      · simp only [descend] at h
        cases hd : descend r path k with
        | error e => simp [hd, Except.map] at h
        | ok x =>
          simp only [hd, Except.map, Except.ok.injEq] at h
          subst h
          simpa [hasTy, QTy.erase] using ih hd

theorem fromPyUnit_hasTy {q : QTy} {a : PVal} (h : fromPyUnit q = .ok a) : hasTy a q.erase = true := by
  cases q with
  | leaf f t p ty =>
    simp only [fromPyUnit] at h
    split at h
    · cases h; simp [hasTy, QTy.erase]
    · cases h
  | or f t l r => simp [fromPyUnit] at h

/-- `from_python_object` returns values of the type -/
theorem fromPy_hasTy {q : QTy} {o : PyObj} {a : PVal} (h : fromPy q o = .ok a) : hasTy a q.erase = true := by
  induction o generalizing q a with
  | leaf t' x =>
    cases q with
    | leaf f t p ty =>
      simp only [fromPy] at h
      split at h
      · rename_i heq; cases h; simp [hasTy, QTy.erase, heq]
      · cases h
    | or f t l r => simp [fromPy] at h
  | unit =>
    cases q with
    | leaf f t p ty =>
      simp only [fromPy] at h
      split at h
      · cases h; simp [hasTy, QTy.erase]
      · cases h
    | or f t l r => simp [fromPy] at h
  | str s =>
    cases q with
    | leaf f t p ty => simp [fromPy] at h
    | or f t l r =>
      simp only [fromPy] at h
      split at h
      · split at h
        · cases h
        · exact descend_hasTy (fun qn b hb => fromPyUnit_hasTy hb) h
      · cases h
  | dict1 k v ih =>
    cases q with
    | leaf f t p ty => simp [fromPy] at h
    | or f t l r =>
      simp only [fromPy] at h
      split at h
      · cases h
      · exact descend_hasTy (fun qn b hb => ih hb) h

/-! ### the Python-object form of a call -/

/-- the root entrypoint: the object is read by the whole parameter type -/
theorem fromPythonObject_root (c : Cfg) {q : QTy} (h : WellFormed q.erase) (o : PyObj) :
    fromPythonObject c q (.dict1 (Spec.Entrypoints.rootName c.dflt c.root q.erase) o)
      = (fromPy q o).bind (fun a => fromParameters c q.erase (Spec.Entrypoints.rootName c.dflt c.root q.erase) a) := by
  unfold fromPythonObject fromParameters
  rw [rootName_wf c h]
  simp only [bind, Except.bind, if_true]
  cases hf : fromPy q o with
  | error e => rfl
  | ok a => simp [decode_of_hasTy (fromPy_hasTy hf)]

/-- a branch entrypoint: the name is resolved among the entrypoint names (never the display names), the object is read
by the type of that branch -/
theorem fromPythonObject_branch (c : Cfg) {q : QTy} (h : WellFormed q.erase) {path : Path} {arg : PTy}
    (hq : (path, arg) ∈ iterTypeArgs q.erase) (hne : keyOf arg ≠ Spec.Entrypoints.rootName c.dflt c.root q.erase) :
    ∃ qn, nodeAtQ q path = some qn ∧ qn.erase = arg ∧
      ∀ o, fromPythonObject c q (.dict1 (keyOf arg) o)
        = (fromPy qn o).bind (fun a => fromParameters c q.erase (keyOf arg) a) := by
  obtain ⟨hq0, hnode, _⟩ := iterTypeArgs_mem hq
  rw [nodeAt_erase] at hnode
  obtain ⟨qn, hqn, hqe⟩ := Option.map_eq_some_iff.mp hnode
  refine ⟨qn, hqn, hqe, fun o => ?_⟩
  have hor : q.erase.isOr = true := by
    cases hp : q.erase with
    | leaf _ _ => rw [hp] at hq; simp [iterTypeArgs] at hq
    | or _ _ _ => rfl
  have hor' : q.isOr = true := by rw [← isOr_erase]; exact hor
  have hk2p := dget_keyToPath h (dget_flatKeys hq)
  have hne' : ((flatKeys (iterTypeArgs q.erase)).map (fun e => (e.2, e.1))).isEmpty = false := by
    cases hl : (flatKeys (iterTypeArgs q.erase)).map (fun e => (e.2, e.1)) with
    | nil => rw [hl] at hk2p; simp [dget] at hk2p
    | cons _ _ => rfl
  unfold fromPythonObject fromParameters
  rw [rootName_wf c h]
  simp only [bind, Except.bind, if_neg hne, hor, hor', Bool.not_true, Bool.false_eq_true, if_false, keyToPath_wf h,
    hne', hk2p]
  rw [descend_eq hqn]
  cases hf : fromPy qn o with
  | error e => rfl
  | ok a =>
    have hty : hasTy a arg = true := by rw [← hqe]; exact fromPy_hasTy hf
    have hnode' : nodeAt q.erase path = some arg := by rw [nodeAt_erase, hqn, Option.map_some, hqe]
    simp only [Except.map]
    rw [decode_of_hasTy (hasTy_wrap hnode' hty), wrapParameters_eq_inject]

/-! ### type expressions as written -/

theorem parseName_ok_iff (as : List String) (pfx : Char) :
    parseName as pfx = .ok (((as.filter (hasPrefix pfx)).map dropFirst).head?)
      ∨ (parseName as pfx = .error .rejectedType ∧ ¬ ((as.filter (hasPrefix pfx)).map dropFirst).length ≤ 1) := by
  unfold parseName
  by_cases h : ((as.filter (hasPrefix pfx)).map dropFirst).length ≤ 1
  · left; simp only [h, if_true]
  · right; simp only [h, if_false]; exact ⟨trivial, fun hh => hh⟩

/-- `parse_name` does not depend on the order of the annotations, nor on annotations with another prefix -/
theorem parseName_perm {as bs : List String} (h : as.Perm bs) (pfx : Char) : parseName as pfx = parseName bs pfx := by
  have hp : ((as.filter (hasPrefix pfx)).map dropFirst).Perm ((bs.filter (hasPrefix pfx)).map dropFirst) :=
    (h.filter _).map _
  unfold parseName
  simp only [hp.length_eq]
  split
  · rename_i hl
    congr 1
    generalize hx : (bs.filter (hasPrefix pfx)).map dropFirst = ys at hp hl
    generalize (as.filter (hasPrefix pfx)).map dropFirst = xs at hp
    match ys, hl with
    | [], _ => rw [List.perm_nil.mp hp]
    | [y], _ => rw [List.perm_singleton.mp hp]
  · rfl

theorem parseName_noise (as : List String) (pfx : Char) (n : String) (hn : hasPrefix pfx n = false) (pre : List String) :
    parseName (pre ++ n :: as) pfx = parseName (pre ++ as) pfx := by
  unfold parseName
  simp [List.filter_append, hn]

/-- the annotations `parse_name` can see -/
def relevant (as : List String) : List String := as.filter (fun a => hasPrefix '%' a || hasPrefix ':' a)

theorem parseName_relevant (as : List String) (pfx : Char) (hp : pfx = '%' ∨ pfx = ':') :
    parseName (relevant as) pfx = parseName as pfx := by
  unfold parseName relevant
  rw [List.filter_filter]
  have : (fun a => hasPrefix pfx a && (hasPrefix '%' a || hasPrefix ':' a)) = hasPrefix pfx := by
    funext a
    rcases hp with rfl | rfl <;> cases hasPrefix _ a <;> simp
  rw [this]

theorem parseName_equiv {as bs : List String} (h : (relevant as).Perm (relevant bs)) (pfx : Char)
    (hp : pfx = '%' ∨ pfx = ':') : parseName as pfx = parseName bs pfx := by
  rw [← parseName_relevant as pfx hp, ← parseName_relevant bs pfx hp]
  exact parseName_perm h pfx

/-- two type expressions that differ only in the order of the annotations on a node and in annotations that are neither
`%field` nor `:type` (`@var` …) -/
inductive SameUpToAnnotOrder : RTy → RTy → Prop
  | prim {as bs p ty} : (relevant as).Perm (relevant bs) → SameUpToAnnotOrder (.prim as p ty) (.prim bs p ty)
  | or {as bs l l' r r'} : (relevant as).Perm (relevant bs) → SameUpToAnnotOrder l l' → SameUpToAnnotOrder r r' →
      SameUpToAnnotOrder (.or as l r) (.or bs l' r')
  | pair {as bs ty l l' r r'} : (relevant as).Perm (relevant bs) → SameUpToAnnotOrder l l' → SameUpToAnnotOrder r r' →
      SameUpToAnnotOrder (.pair as ty l r) (.pair bs ty l' r')
  | option {as bs ty a a'} : (relevant as).Perm (relevant bs) → SameUpToAnnotOrder a a' →
      SameUpToAnnotOrder (.option as ty a) (.option bs ty a')
  | list {as bs ty a a'} : (relevant as).Perm (relevant bs) → SameUpToAnnotOrder a a' →
      SameUpToAnnotOrder (.list as ty a) (.list bs ty a')

theorem matchTy_sameUpToAnnotOrder {r r' : RTy} (h : SameUpToAnnotOrder r r') : matchTy r = matchTy r' := by
  induction h with
  | prim hp => simp only [matchTy, parseName_equiv hp '%' (Or.inl rfl), parseName_equiv hp ':' (Or.inr rfl)]
  | or hp _ _ ihl ihr =>
    simp only [matchTy, ihl, ihr, parseName_equiv hp '%' (Or.inl rfl), parseName_equiv hp ':' (Or.inr rfl)]
  | pair hp _ _ ihl ihr =>
    simp only [matchTy, ihl, ihr, parseName_equiv hp '%' (Or.inl rfl), parseName_equiv hp ':' (Or.inr rfl)]
  | option hp _ ih => simp only [matchTy, ih, parseName_equiv hp '%' (Or.inl rfl), parseName_equiv hp ':' (Or.inr rfl)]
  | list hp _ ih => simp only [matchTy, ih, parseName_equiv hp '%' (Or.inl rfl), parseName_equiv hp ':' (Or.inr rfl)]

/-! `Micheline.match` against the structural statement (`RawOk`, `view`) -/

theorem parseName_field (as : List String) :
    parseName as '%' = if (fieldAnnots as).length ≤ 1 then .ok (fieldAnnots as).head? else .error .rejectedType := rfl

theorem parseName_type (as : List String) :
    parseName as ':' = if (typeAnnots as).length ≤ 1 then .ok (typeAnnots as).head? else .error .rejectedType := rfl

/-- the result of `Micheline.match` in one statement: accepted exactly when `RawOk`; then the entrypoint rules see
`view r`, and the node's `field_name` is its `%` annotation -/
def MatchSpec (r : RTy) : Except Err QTy → Prop
  | .ok q => RawOk r = true ∧ q.erase = view r ∧ q.fname = (fieldAnnots (RTy.annots r)).head?
  | .error e => RawOk r = false ∧ e = .rejectedType

theorem annots_prim (as p ty) : RTy.annots (.prim as p ty) = as := rfl
theorem annots_or (as l r) : RTy.annots (.or as l r) = as := rfl
theorem annots_pair (as ty l r) : RTy.annots (.pair as ty l r) = as := rfl
theorem annots_option (as ty a) : RTy.annots (.option as ty a) = as := rfl
theorem annots_list (as ty a) : RTy.annots (.list as ty a) = as := rfl

theorem head?_isSome_iff_not_isEmpty {α} (xs : List α) : xs.head?.isSome = !xs.isEmpty := by cases xs <;> rfl

set_option linter.unusedSimpArgs false in
theorem matchTy_spec (r : RTy) : MatchSpec r (matchTy r) := by
  induction r with
  | prim as p ty =>
    simp only [matchTy, bind, Except.bind, parseName_field, parseName_type]
    by_cases h1 : (fieldAnnots as).length ≤ 1 <;> by_cases h2 : (typeAnnots as).length ≤ 1 <;>
      simp [h1, h2, MatchSpec, RawOk, view, QTy.erase, QTy.fname, annots_prim, annots_or, annots_pair, annots_option, annots_list]
  | or as l r ihl ihr =>
    simp only [matchTy, bind, Except.bind, parseName_field, parseName_type]
    cases hl : matchTy l with
    | error e => rw [hl] at ihl; simp [MatchSpec] at ihl ⊢; simp [RawOk, ihl]
    | ok l' =>
      rw [hl] at ihl
      cases hr : matchTy r with
      | error e => rw [hr] at ihr; simp [MatchSpec] at ihr ⊢; simp [RawOk, ihr]
      | ok r' =>
        rw [hr] at ihr
        simp only [MatchSpec] at ihl ihr
        by_cases h1 : (fieldAnnots as).length ≤ 1 <;> by_cases h2 : (typeAnnots as).length ≤ 1 <;>
          simp [h1, h2, MatchSpec, RawOk, view, QTy.erase, QTy.fname, annots_prim, annots_or, annots_pair, annots_option, annots_list, ihl, ihr]
  | pair as ty l r ihl ihr =>
    simp only [matchTy, bind, Except.bind, parseName_field, parseName_type]
    cases hl : matchTy l with
    | error e => rw [hl] at ihl; simp [MatchSpec] at ihl ⊢; simp [RawOk, ihl]
    | ok l' =>
      rw [hl] at ihl
      cases hr : matchTy r with
      | error e => rw [hr] at ihr; simp [MatchSpec] at ihr ⊢; simp [RawOk, ihr]
      | ok r' =>
        rw [hr] at ihr
        simp only [MatchSpec] at ihl ihr
        by_cases h1 : (fieldAnnots as).length ≤ 1 <;> by_cases h2 : (typeAnnots as).length ≤ 1 <;>
          simp [h1, h2, MatchSpec, RawOk, view, QTy.erase, QTy.fname, annots_prim, annots_or, annots_pair, annots_option, annots_list, ihl, ihr]
  | option as ty a ih =>
    simp only [matchTy, bind, Except.bind, parseName_field, parseName_type]
    cases ha : matchTy a with
    | error e => rw [ha] at ih; simp [MatchSpec] at ih ⊢; simp [RawOk, ih]
    | ok a' =>
      rw [ha] at ih
      simp only [MatchSpec] at ih
      have hf : a'.fname.isSome = !(fieldAnnots (RTy.annots a)).isEmpty := by rw [ih.2.2, head?_isSome_iff_not_isEmpty]
      simp only [hf]
      by_cases h0 : (fieldAnnots (RTy.annots a)).isEmpty <;> by_cases h1 : (fieldAnnots as).length ≤ 1 <;>
        by_cases h2 : (typeAnnots as).length ≤ 1 <;>
        simp [hf, h0, h1, h2, MatchSpec, RawOk, view, QTy.erase, QTy.fname, annots_prim, annots_or, annots_pair, annots_option, annots_list, ih]
  | list as ty a ih =>
    simp only [matchTy, bind, Except.bind, parseName_field, parseName_type]
    cases ha : matchTy a with
    | error e => rw [ha] at ih; simp [MatchSpec] at ih ⊢; simp [RawOk, ih]
    | ok a' =>
      rw [ha] at ih
      simp only [MatchSpec] at ih
      have hf : a'.fname.isSome = !(fieldAnnots (RTy.annots a)).isEmpty := by rw [ih.2.2, head?_isSome_iff_not_isEmpty]
      simp only [hf]
      by_cases h0 : (fieldAnnots (RTy.annots a)).isEmpty <;> by_cases h1 : (fieldAnnots as).length ≤ 1 <;>
        by_cases h2 : (typeAnnots as).length ≤ 1 <;>
        simp [hf, h0, h1, h2, MatchSpec, RawOk, view, QTy.erase, QTy.fname, annots_prim, annots_or, annots_pair, annots_option, annots_list, ih]

end Impl.Entrypoints
