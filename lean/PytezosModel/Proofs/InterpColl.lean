import PytezosModel.Proofs.InterpKeys
/-! MEM / GET / UPDATE / GET_AND_UPDATE: the mirror of `struct.py` + `set.py` + `map.py` computes what the reference
rules prescribe, on every well-formed collection and key of the right type. -/
namespace Interp
open Typing List

theorem strictSorted_iff : ∀ l : List Val, strictSorted l = true ↔ Coll.StrictSorted keyLt l
  | [] => by simp [strictSorted, Coll.StrictSorted]
  | a :: rest => by
    simp only [strictSorted, Bool.and_eq_true, List.all_eq_true, Coll.StrictSorted, List.pairwise_cons]
    rw [strictSorted_iff rest]
    rfl

theorem goodSet_spec {t : Ty} {xs : List Val} (h : goodSet t xs = true) :
    simpleComparable t = true ∧ (∀ e ∈ xs, isKey t e = true) ∧ Coll.StrictSorted keyLt xs := by
  simp only [goodSet, Bool.and_eq_true, List.all_eq_true] at h
  exact ⟨h.1.1, h.1.2, (strictSorted_iff xs).mp h.2⟩

theorem kvs_eq (items : List Val) : Spec.kvs items = items.map Impl.toKV := by
  unfold Spec.kvs
  apply List.map_congr_left
  intro e _
  cases e <;> rfl

theorem unkvs_eq (m : List (Val × Val)) : Spec.unkvs m = m.map Impl.ofKV := rfl

theorem isBinding_pair {k : Ty} {e : Val} (h : isBinding k e = true) : ∃ a b, e = .pair a b ∧ isKey k a = true := by
  cases e <;> simp [isBinding] at h
  exact ⟨_, _, rfl, h⟩

theorem goodMap_spec {k : Ty} {items : List Val} (h : goodMap k items = true) :
    simpleComparable k = true ∧ items.all Impl.isPairVal = true ∧ (∀ e ∈ items.map Impl.toKV, isKey k e.1 = true) ∧
      Coll.StrictSorted keyLt ((items.map Impl.toKV).map Prod.fst) := by
  simp only [goodMap, Bool.and_eq_true, List.all_eq_true] at h
  obtain ⟨⟨h1, h2⟩, h3⟩ := h
  refine ⟨h1, ?_, ?_, ?_⟩
  · rw [List.all_eq_true]
    intro e he
    obtain ⟨a, b, rfl, _⟩ := isBinding_pair (h2 e he)
    rfl
  · intro e he
    rw [List.mem_map] at he
    obtain ⟨e', he', rfl⟩ := he
    obtain ⟨a, b, rfl, hk⟩ := isBinding_pair (h2 e' he')
    exact hk
  · have : (items.map Impl.toKV).map Prod.fst = items.map keyOf := by
      rw [List.map_map]
      apply List.map_congr_left
      intro e he
      obtain ⟨a, b, rfl, _⟩ := isBinding_pair (h2 e he)
      rfl
    rw [this]
    exact (strictSorted_iff _).mp h3

theorem keyGuard {k : Ty} {x : Val} (hx : isKey k x = true) : (Impl.keyModelled k && typeOf x == k) = true := by
  simp [isKey_modelled hx, isKey_typeOf hx]

theorem execMem_eq (a b : Val) (h : Spec.memV a b ≠ .stuck) : Impl.execMem a b = Spec.memV a b := by
  cases b <;> first | (exact absurd rfl h) | skip
  · rename_i k v items
    simp only [Spec.memV] at h ⊢
    by_cases hc : (goodMap k items && isKey k a) = true
    · simp only [hc, if_true]
      rw [Bool.and_eq_true] at hc
      obtain ⟨_, hp, hall, hs⟩ := goodMap_spec hc.1
      have hg := keyGuard hc.2
      rw [Bool.and_eq_true] at hg
      simp only [Impl.execMem, hg.1, hp, hg.2, Bool.and_self, if_true, _root_.Impl.Coll.Map.contains,
        map_get_eq hall hs hc.2, kvs_eq]
    · simp [hc] at h
  · rename_i t xs
    simp only [Spec.memV] at h ⊢
    by_cases hc : (goodSet t xs && isKey t a) = true
    · simp only [hc, if_true]
      rw [Bool.and_eq_true] at hc
      obtain ⟨_, hall, hs⟩ := goodSet_spec hc.1
      simp only [Impl.execMem, keyGuard hc.2, if_true, set_contains_eq hall hs hc.2]
    · simp [hc] at h

theorem execGet_eq (a b : Val) (h : Spec.getV a b ≠ .stuck) : Impl.execGet a b = Spec.getV a b := by
  cases b <;> first | (exact absurd rfl h) | skip
  rename_i k v items
  simp only [Spec.getV] at h ⊢
  by_cases hc : (goodMap k items && isKey k a) = true
  · simp only [hc, if_true]
    rw [Bool.and_eq_true] at hc
    obtain ⟨_, hp, hall, hs⟩ := goodMap_spec hc.1
    have hg := keyGuard hc.2
    rw [Bool.and_eq_true] at hg
    simp only [Impl.execGet, hg.1, hp, hg.2, Bool.and_self, if_true, map_get_eq hall hs hc.2, kvs_eq]
    cases _root_.Spec.Coll.findKV keyLt a (items.map Impl.toKV) <;> rfl
  · simp [hc] at h

/-- `MapType.update` on a well-formed map -/
theorem mapUpdate_eq {k v : Ty} {items : List Val} {x : Val} (hg : goodMap k items = true) (hx : isKey k x = true)
    (val : Option Val) :
    Impl.mapUpdate k v items x val = .ok (_root_.Spec.Coll.findKV keyLt x (Spec.kvs items),
      .map k v (Spec.unkvs (match val with
        | some y => _root_.Spec.Coll.insertKV keyLt x y (Spec.kvs items)
        | none => _root_.Spec.Coll.eraseKV keyLt x (Spec.kvs items)))) := by
  obtain ⟨_, hp, hall, hs⟩ := goodMap_spec hg
  have hgd := keyGuard hx
  rw [Bool.and_eq_true] at hgd
  simp only [Impl.mapUpdate, hgd.1, hp, hgd.2, Bool.and_self, if_true, map_update_eq hall hs hx val, kvs_eq, unkvs_eq]
  cases val <;> rfl

theorem execUpdate_eq (a b c : Val) (h : Spec.updateV a b c ≠ .stuck) : Impl.execUpdate a b c = Spec.updateV a b c := by
  cases b <;> first | (cases c <;> exact absurd rfl h) | skip
  · -- bool: a set
    rename_i bb
    cases c <;> first | (exact absurd rfl h) | skip
    rename_i t xs
    simp only [Spec.updateV] at h ⊢
    by_cases hc : (goodSet t xs && isKey t a) = true
    · simp only [hc, if_true]
      rw [Bool.and_eq_true] at hc
      obtain ⟨_, hall, hs⟩ := goodSet_spec hc.1
      simp only [Impl.execUpdate, keyGuard hc.2, if_true, set_add_eq hall hs hc.2, set_remove_eq hall hs hc.2]
    · simp [hc] at h
  · -- some y: bind in a map
    rename_i y
    cases c <;> first | (exact absurd rfl h) | skip
    rename_i k v items
    simp only [Spec.updateV] at h ⊢
    by_cases hc : (goodMap k items && isKey k a && typeOf y == v) = true
    · simp only [hc, if_true]
      simp only [Bool.and_eq_true] at hc
      simp only [Impl.execUpdate, mapUpdate_eq hc.1.1 hc.1.2 (some y), rbind_ok']
    · simp [hc] at h
  · -- none: unbind
    rename_i v'
    cases c <;> first | (exact absurd rfl h) | skip
    rename_i k v items
    simp only [Spec.updateV] at h ⊢
    by_cases hc : (goodMap k items && isKey k a && v' == v) = true
    · simp only [hc, if_true]
      simp only [Bool.and_eq_true] at hc
      simp only [Impl.execUpdate, mapUpdate_eq hc.1.1 hc.1.2 none, rbind_ok']
    · simp [hc] at h

theorem bind_ne_stuck'' {α β : Type} {r : Res α} {f : α → Res β} (h : r.bind f ≠ .stuck) : r ≠ .stuck := by
  intro e; subst e; exact h rfl

/-- GET either applies or is stuck: it has no other outcome -/
theorem getV_ok_or_stuck (x m : Val) : Spec.getV x m = .stuck ∨ ∃ r, Spec.getV x m = .ok r := by
  cases m <;> simp only [Spec.getV] <;> first | (left; trivial) | (split <;> simp)

theorem execGetAndUpdate_eq (a b c : Val) (h : Spec.getAndUpdateV a b c ≠ .stuck) :
    Impl.execGetAndUpdate a b c = Spec.getAndUpdateV a b c := by
  unfold Spec.getAndUpdateV at h ⊢
  have h1 := bind_ne_stuck'' h
  rcases getV_ok_or_stuck a c with hq | ⟨old, hq⟩
  · exact absurd hq h1
  simp only [hq, rbind_ok'] at h ⊢
  have h2 := bind_ne_stuck'' h
  -- GET is defined: `c` is a well-formed map
  cases c <;> first | (simp [Spec.getV] at hq; done) | skip
  rename_i k v items
  simp only [Spec.getV] at hq
  by_cases hc' : (goodMap k items && isKey k a) = true
  · simp only [hc', if_true, Res.ok.injEq] at hq
    subst hq
    rw [Bool.and_eq_true] at hc'
    cases b <;> first | (exact absurd rfl h2) | skip
    · rename_i y
      simp only [Spec.updateV] at h2 ⊢
      by_cases hc : (goodMap k items && isKey k a && typeOf y == v) = true
      · simp only [hc, if_true, rbind_ok']
        simp only [Impl.execGetAndUpdate, mapUpdate_eq hc'.1 hc'.2 (some y), rbind_ok']
        cases _root_.Spec.Coll.findKV keyLt a (Spec.kvs items) <;> rfl
      · simp [hc] at h2
    · rename_i v'
      simp only [Spec.updateV] at h2 ⊢
      by_cases hc : (goodMap k items && isKey k a && v' == v) = true
      · simp only [hc, if_true, rbind_ok']
        simp only [Impl.execGetAndUpdate, mapUpdate_eq hc'.1 hc'.2 none, rbind_ok']
        cases _root_.Spec.Coll.findKV keyLt a (Spec.kvs items) <;> rfl
      · simp [hc] at h2
  · simp [hc'] at hq

/-! ### big maps created in the run: the same operations on the bindings -/
theorem memB_notBig (x m : Val) (h : ∀ k v items, m ≠ .bigMap k v items) : Spec.memB x m = Spec.memV x m := by
  cases m <;> first | rfl | exact absurd rfl (h _ _ _)

theorem getB_notBig (x m : Val) (h : ∀ k v items, m ≠ .bigMap k v items) : Spec.getB x m = Spec.getV x m := by
  cases m <;> first | rfl | exact absurd rfl (h _ _ _)

theorem updateB_notBig (x o m : Val) (h : ∀ k v items, m ≠ .bigMap k v items) : Spec.updateB x o m = Spec.updateV x o m := by
  cases m <;> first | (cases o <;> rfl) | exact absurd rfl (h _ _ _)

theorem getAndUpdateB_notBig (x o m : Val) (h : ∀ k v items, m ≠ .bigMap k v items) :
    Spec.getAndUpdateB x o m = Spec.getAndUpdateV x o m := by
  unfold Spec.getAndUpdateB Spec.getAndUpdateV
  rw [getB_notBig x m h, updateB_notBig x o m h]

theorem execMemB_eq (a b : Val) (h : Spec.memB a b ≠ .stuck) : Impl.execMem a b = Spec.memB a b := by
  by_cases hb : ∃ k v items, b = .bigMap k v items
  · obtain ⟨k, v, items, rfl⟩ := hb
    exact execMem_eq a (.map k v items) h
  · have hn : ∀ k v items, b ≠ .bigMap k v items := fun k v items e => hb ⟨k, v, items, e⟩
    rw [memB_notBig a b hn] at h ⊢
    exact execMem_eq a b h

theorem execGetB_eq (a b : Val) (h : Spec.getB a b ≠ .stuck) : Impl.execGet a b = Spec.getB a b := by
  by_cases hb : ∃ k v items, b = .bigMap k v items
  · obtain ⟨k, v, items, rfl⟩ := hb
    exact execGet_eq a (.map k v items) h
  · have hn : ∀ k v items, b ≠ .bigMap k v items := fun k v items e => hb ⟨k, v, items, e⟩
    rw [getB_notBig a b hn] at h ⊢
    exact execGet_eq a b h

/-- `BigMapType.update` on a map created in the run -/
theorem bigMapUpdate_eq {k v : Ty} {items : List Val} {x : Val} (hg : goodMap k items = true) (hx : isKey k x = true)
    (val : Option Val) :
    Impl.bigMapUpdate k v items x val = .ok (_root_.Spec.Coll.findKV keyLt x (Spec.kvs items),
      .bigMap k v (Spec.unkvs (match val with
        | some y => _root_.Spec.Coll.insertKV keyLt x y (Spec.kvs items)
        | none => _root_.Spec.Coll.eraseKV keyLt x (Spec.kvs items)))) := by
  obtain ⟨_, hp, hall, hs⟩ := goodMap_spec hg
  have hgd := keyGuard hx
  rw [Bool.and_eq_true] at hgd
  simp only [Impl.bigMapUpdate, hgd.1, hp, hgd.2, Bool.and_self, if_true, map_update_eq hall hs hx val, kvs_eq, unkvs_eq]
  cases val <;> rfl

theorem execUpdateB_eq (a b c : Val) (h : Spec.updateB a b c ≠ .stuck) : Impl.execUpdate a b c = Spec.updateB a b c := by
  by_cases hb : ∃ k v items, c = .bigMap k v items
  · obtain ⟨k, v, items, rfl⟩ := hb
    cases b <;> first | (exact absurd rfl h) | skip
    · rename_i y
      simp only [Spec.updateB] at h ⊢
      by_cases hc : (goodMap k items && isKey k a && typeOf y == v) = true
      · simp only [hc, if_true]
        simp only [Bool.and_eq_true] at hc
        simp only [Impl.execUpdate, bigMapUpdate_eq hc.1.1 hc.1.2 (some y), rbind_ok']
      · simp [hc] at h
    · rename_i v'
      simp only [Spec.updateB] at h ⊢
      by_cases hc : (goodMap k items && isKey k a && v' == v) = true
      · simp only [hc, if_true]
        simp only [Bool.and_eq_true] at hc
        simp only [Impl.execUpdate, bigMapUpdate_eq hc.1.1 hc.1.2 none, rbind_ok']
      · simp [hc] at h
  · have hn : ∀ k v items, c ≠ .bigMap k v items := fun k v items e => hb ⟨k, v, items, e⟩
    rw [updateB_notBig a b c hn] at h ⊢
    exact execUpdate_eq a b c h

theorem getB_ok_or_stuck (x m : Val) : Spec.getB x m = .stuck ∨ ∃ r, Spec.getB x m = .ok r := by
  by_cases hb : ∃ k v items, m = .bigMap k v items
  · obtain ⟨k, v, items, rfl⟩ := hb
    exact getV_ok_or_stuck x (.map k v items)
  · rw [getB_notBig x m (fun k v items e => hb ⟨k, v, items, e⟩)]
    exact getV_ok_or_stuck x m

theorem execGetAndUpdateB_eq (a b c : Val) (h : Spec.getAndUpdateB a b c ≠ .stuck) :
    Impl.execGetAndUpdate a b c = Spec.getAndUpdateB a b c := by
  by_cases hb : ∃ k v items, c = .bigMap k v items
  · obtain ⟨k, v, items, rfl⟩ := hb
    unfold Spec.getAndUpdateB at h ⊢
    have h1 := bind_ne_stuck'' h
    rcases getB_ok_or_stuck a (.bigMap k v items) with hq | ⟨old, hq⟩
    · exact absurd hq h1
    simp only [hq, rbind_ok'] at h ⊢
    have h2 := bind_ne_stuck'' h
    simp only [Spec.getB] at hq
    by_cases hc' : (goodMap k items && isKey k a) = true
    · simp only [hc', if_true, Res.ok.injEq] at hq
      subst hq
      rw [Bool.and_eq_true] at hc'
      cases b <;> first | (exact absurd rfl h2) | skip
      · rename_i y
        simp only [Spec.updateB] at h2 ⊢
        by_cases hc : (goodMap k items && isKey k a && typeOf y == v) = true
        · simp only [hc, if_true, rbind_ok']
          simp only [Impl.execGetAndUpdate, bigMapUpdate_eq hc'.1 hc'.2 (some y), rbind_ok']
          cases _root_.Spec.Coll.findKV keyLt a (Spec.kvs items) <;> rfl
        · simp [hc] at h2
      · rename_i v'
        simp only [Spec.updateB] at h2 ⊢
        by_cases hc : (goodMap k items && isKey k a && v' == v) = true
        · simp only [hc, if_true, rbind_ok']
          simp only [Impl.execGetAndUpdate, bigMapUpdate_eq hc'.1 hc'.2 none, rbind_ok']
          cases _root_.Spec.Coll.findKV keyLt a (Spec.kvs items) <;> rfl
        · simp [hc] at h2
    · simp [hc'] at hq
  · have hn : ∀ k v items, c ≠ .bigMap k v items := fun k v items e => hb ⟨k, v, items, e⟩
    rw [getAndUpdateB_notBig a b c hn] at h ⊢
    exact execGetAndUpdate_eq a b c h

end Interp
