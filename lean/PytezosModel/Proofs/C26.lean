import PytezosModel.Client.Retry
/-! helper lemmas for Props/C26 -/
namespace Proofs.C26
open Impl.Retry

/-- the configuration the property speaks about; `b` = whether the trailing debug statement parses a 200 body -/
def specConfig (b : Bool) : Config :=
  ⟨6, 250, 2000, 500, [Spec.Retry.prevalidatorMarker], Spec.Retry.protoPrefix, Spec.Retry.temporary, b⟩

/-- the constants read from the source are the ones in the property statement -/
theorem config_eq : ∃ b, config = some (specConfig b) := ⟨_, rfl⟩

@[simp] theorem specConfig_protoPrefix (b : Bool) : (specConfig b).protoPrefix = Spec.Retry.protoPrefix := rfl
@[simp] theorem specConfig_temporaryKind (b : Bool) : (specConfig b).temporaryKind = Spec.Retry.temporary := rfl
@[simp] theorem specConfig_markers (b : Bool) : (specConfig b).markers = [Spec.Retry.prevalidatorMarker] := rfl
@[simp] theorem specConfig_attempts (b : Bool) : (specConfig b).attempts = 6 := rfl
@[simp] theorem specConfig_initialDelay (b : Bool) : (specConfig b).initialDelay = 250 := rfl
@[simp] theorem specConfig_maxDelay (b : Bool) : (specConfig b).maxDelay = 2000 := rfl
@[simp] theorem specConfig_statusFloor (b : Bool) : (specConfig b).statusFloor = 500 := rfl
@[simp] theorem specConfig_okBodyParsed (b : Bool) : (specConfig b).okBodyParsed = b := rfl

/-- `request` is the loop started at attempt 0 with the initial delay -/
theorem request_eq (rs : List Resp) : ∃ b, request rs = some (loop (specConfig b) 0 250 rs) := by
  obtain ⟨b, hb⟩ := config_eq
  exact ⟨b, by simp [request, hb, run]⟩

theorem anyProto_wf (b : Bool) (es : List Elem) (h : es.all Spec.Retry.wellFormedElem = true) :
    anyProto (specConfig b) es = .ok (es.any Spec.Retry.isProtocolError) := by
  induction es with
  | nil => rfl
  | cons e es ih =>
    simp only [List.all_cons, Bool.and_eq_true] at h
    cases e with
    | other => simp [anyProto, ih h.2, Spec.Retry.isProtocolError]
    | dict id kind =>
      cases id with
      | other => simp [Spec.Retry.wellFormedElem] at h
      | absent => simp [anyProto, idIsProto, ih h.2, Spec.Retry.isProtocolError]
      | str s =>
        by_cases hp : Spec.Retry.protoPrefix.isPrefixOf s = true
        · simp [anyProto, idIsProto, Spec.Retry.isProtocolError, hp]
        · simp [anyProto, idIsProto, Spec.Retry.isProtocolError, hp, ih h.2]

theorem isTemporary_eq (b : Bool) : isTemporary (specConfig b) = Spec.Retry.isTemporaryError := by
  funext e
  cases e with
  | other => rfl
  | dict id kind => cases kind <;> rfl

theorem hasMarker_eq (b : Bool) (t : Str) : hasMarker (specConfig b) t = isInfix Spec.Retry.prevalidatorMarker t := by
  simp [hasMarker]

theorem isTransient_wf (b : Bool) (r : Resp) (h : Spec.Retry.wellFormed r = true) :
    isTransient (specConfig b) r = .ok (Spec.Retry.transientContent r) := by
  unfold isTransient Spec.Retry.transientContent Spec.Retry.errors Spec.Retry.prevalidatorFailure
  simp only [Spec.Retry.wellFormed, Bool.and_eq_true] at h
  cases hc : r.ctJson with
  | false => simp [hasMarker_eq]
  | true =>
    cases hb : r.body with
    | invalid => simp [hasMarker_eq]
    | nonList => simp [hasMarker_eq]
    | list es =>
      have hw : es.all Spec.Retry.wellFormedElem = true := by simpa [hb] using h.1
      simp only [if_true, anyProto_wf b es hw, isTemporary_eq, hasMarker_eq]
      cases es.any Spec.Retry.isProtocolError <;> cases es.any Spec.Retry.isTemporaryError <;> simp


/-- one iteration of the loop, inside the property's domain -/
theorem loop_cons (b : Bool) (a d : Nat) (r : Resp) (rest : List Resp) (h : Spec.Retry.wellFormed r = true) :
    loop (specConfig b) a d (r :: rest) =
      if Spec.Retry.transient r = true ∧ a < 5 then
        { loop (specConfig b) (a + 1) (min (d * 2) 2000) rest with
          sleeps := d :: (loop (specConfig b) (a + 1) (min (d * 2) 2000) rest).sleeps }
      else ⟨a + 1, [], finish (specConfig b) r⟩ := by
  simp only [loop, isTransient_wf b r h, specConfig_statusFloor, specConfig_attempts, specConfig_maxDelay,
    Spec.Retry.transient, Bool.and_eq_true, decide_eq_true_eq]
  by_cases hs : 500 ≤ r.status
  · cases ht : Spec.Retry.transientContent r
    · simp [hs]
    · by_cases ha : a < 5
      · simp [hs, ha]
      · simp [hs, ha]
  · simp [hs]

/-- outside the domain nothing is assumed about the classifier, but the loop still has only these three exits -/
theorem loop_cons_cases (c : Config) (a d : Nat) (r : Resp) (rest : List Resp) :
    (a < c.attempts - 1 ∧ loop c a d (r :: rest) =
        { loop c (a + 1) (min (d * 2) c.maxDelay) rest with
          sleeps := d :: (loop c (a + 1) (min (d * 2) c.maxDelay) rest).sleeps })
    ∨ (∃ o, loop c a d (r :: rest) = ⟨a + 1, [], o⟩) := by
  simp only [loop]
  by_cases hs : c.statusFloor ≤ r.status
  · cases ht : isTransient c r with
    | error e => right; exact ⟨.crash e, by simp [hs]⟩
    | ok v =>
      cases v
      · right; exact ⟨finish c r, by simp [hs]⟩
      · by_cases ha : a < c.attempts - 1
        · left; exact ⟨ha, by simp [hs, ha]⟩
        · right; exact ⟨finish c r, by simp [hs, ha]⟩
  · right; exact ⟨finish c r, by simp [hs]⟩

theorem loop_issued (b : Bool) : ∀ (rs : List Resp) (a d : Nat), a ≤ 5 → (∀ r ∈ rs, Spec.Retry.wellFormed r = true) →
    (loop (specConfig b) a d rs).issued = a + 1 + ((rs.take (5 - a)).takeWhile Spec.Retry.transient).length := by
  intro rs
  induction rs with
  | nil => intro a d _ _; simp [loop]
  | cons r rest ih =>
    intro a d ha hw
    have hr := hw r (by simp)
    have hrest : ∀ x ∈ rest, Spec.Retry.wellFormed x = true := fun x hx => hw x (by simp [hx])
    rw [loop_cons b a d r rest hr]
    by_cases ht : Spec.Retry.transient r = true
    · by_cases h5 : a < 5
      · have e : 5 - a = (5 - (a + 1)) + 1 := by omega
        simp only [ht, h5, and_self, if_true]
        rw [ih (a + 1) _ (by omega) hrest, e, List.take_succ_cons, List.takeWhile_cons, if_pos ht]
        simp only [List.length_cons]
        omega
      · have e : 5 - a = 0 := by omega
        simp [ht, h5, e]
    · have e : 5 - a = (5 - a - 1) + 1 ∨ 5 - a = 0 := by omega
      rcases e with e | e
      · rw [e, List.take_succ_cons, List.takeWhile_cons]
        simp [ht]
      · simp [ht, e]

theorem loop_issued_le (c : Config) : ∀ (rs : List Resp) (a d : Nat), a + 1 ≤ c.attempts →
    (loop c a d rs).issued ≤ c.attempts := by
  intro rs
  induction rs with
  | nil => intro a d h; simpa [loop] using h
  | cons r rest ih =>
    intro a d h
    rcases loop_cons_cases c a d r rest with ⟨ha, e⟩ | ⟨o, e⟩
    · rw [e]; exact ih (a + 1) _ (by omega)
    · rw [e]; exact h

theorem loop_issued_gt (c : Config) : ∀ (rs : List Resp) (a d : Nat), a < (loop c a d rs).issued := by
  intro rs
  induction rs with
  | nil => intro a d; simp [loop]
  | cons r rest ih =>
    intro a d
    rcases loop_cons_cases c a d r rest with ⟨_, e⟩ | ⟨o, e⟩
    · rw [e]; have := ih (a + 1) (min (d * 2) c.maxDelay); simp only; omega
    · rw [e]; simp

/-- the value of `delay` at iteration `a` -/
def delayAt (c : Config) : Nat → Nat
  | 0 => c.initialDelay
  | a + 1 => min (delayAt c a * 2) c.maxDelay

/-- each retry is preceded by exactly one sleep of the current delay -/
theorem loop_sleeps (c : Config) : ∀ (rs : List Resp) (a : Nat),
    (loop c a (delayAt c a) rs).sleeps =
      (List.range ((loop c a (delayAt c a) rs).issued - 1 - a)).map fun k => delayAt c (a + k) := by
  intro rs
  induction rs with
  | nil => intro a; simp [loop]
  | cons r rest ih =>
    intro a
    rcases loop_cons_cases c a (delayAt c a) r rest with ⟨_, e⟩ | ⟨o, e⟩
    · rw [e]
      have hi := ih (a + 1)
      have hg := loop_issued_gt c rest (a + 1) (min (delayAt c a * 2) c.maxDelay)
      simp only [delayAt] at hi
      simp only
      rw [hi]
      have e2 : (loop c (a + 1) (min (delayAt c a * 2) c.maxDelay) rest).issued - 1 - a =
          ((loop c (a + 1) (min (delayAt c a * 2) c.maxDelay) rest).issued - 1 - (a + 1)) + 1 := by omega
      rw [e2, List.range_succ_eq_map, List.map_cons, List.map_map]
      simp only [Nat.add_zero, List.cons.injEq, true_and]
      apply List.map_congr_left
      intro k _
      simp only [Function.comp]
      congr 1
      omega
    · rw [e]; simp

/-- for a list, position `i` is inside the maximal prefix satisfying `p` iff it is up to there and `p` holds at `i` -/
theorem lt_takeWhile_length_iff {α : Type} (p : α → Bool) : ∀ (l : List α) (i : Nat) (hi : i < l.length),
    i ≤ (l.takeWhile p).length → (i < (l.takeWhile p).length ↔ p l[i] = true) := by
  intro l
  induction l with
  | nil => intro i hi; simp at hi
  | cons x xs ih =>
    intro i hi hle
    by_cases hx : p x = true
    · rw [List.takeWhile_cons, if_pos hx] at hle ⊢
      cases i with
      | zero => simp [hx]
      | succ j =>
        simp only [List.length_cons, Nat.add_lt_add_iff_right, List.getElem_cons_succ] at hle ⊢
        exact ih j (by simpa using hi) (by omega)
    · rw [List.takeWhile_cons, if_neg hx] at hle ⊢
      have : i = 0 := by simpa using hle
      subst this
      simp [hx]


theorem fromResponse_ne_returned (r : Resp) : fromResponse r ≠ .returned := by
  unfold fromResponse fromErrors
  split
  · split
    · simp
    · simp
    · split <;> simp
  · simp

theorem finish_wf (b : Bool) (r : Resp) (h : Spec.Retry.wellFormed r = true) :
    finish (specConfig b) r = Spec.Retry.outcome r := by
  simp only [Spec.Retry.wellFormed, Bool.and_eq_true, Bool.not_eq_true', Bool.and_eq_false_iff,
    decide_eq_false_iff_not] at h
  unfold finish Spec.Retry.outcome
  by_cases h2 : r.status = 200
  · have hb : ¬ r.body = .invalid := by
      rcases h.2 with h' | h'
      · exact absurd h2 h'
      · exact h'
    simp [h2, hb]
  · by_cases h401 : r.status = 401
    · simp [h401]
    · by_cases h404 : r.status = 404
      · simp [h404]
      · simp [h2, h401, h404]

theorem loop_outcome (b : Bool) : ∀ (rs : List Resp) (a d : Nat), (∀ r ∈ rs, Spec.Retry.wellFormed r = true) →
    (loop (specConfig b) a d rs).issued ≤ a + rs.length →
    ∃ r, rs[(loop (specConfig b) a d rs).issued - 1 - a]? = some r ∧
      (loop (specConfig b) a d rs).outcome = Spec.Retry.outcome r := by
  intro rs
  induction rs with
  | nil => intro a d _ h; simp [loop] at h; omega
  | cons r rest ih =>
    intro a d hw hlen
    have hr := hw r (by simp)
    have hrest : ∀ x ∈ rest, Spec.Retry.wellFormed x = true := fun x hx => hw x (by simp [hx])
    rw [loop_cons b a d r rest hr] at hlen ⊢
    by_cases hc : Spec.Retry.transient r = true ∧ a < 5
    · simp only [hc, and_self, if_true] at hlen ⊢
      have hg := loop_issued_gt (specConfig b) rest (a + 1) (min (d * 2) 2000)
      obtain ⟨x, hx, ho⟩ := ih (a + 1) (min (d * 2) 2000) hrest (by simp only [List.length_cons] at hlen; omega)
      refine ⟨x, ?_, ho⟩
      have e : (loop (specConfig b) (a + 1) (min (d * 2) 2000) rest).issued - 1 - a =
          ((loop (specConfig b) (a + 1) (min (d * 2) 2000) rest).issued - 1 - (a + 1)) + 1 := by omega
      rw [e, List.getElem?_cons_succ]
      exact hx
    · simp only [hc, if_false]
      exact ⟨r, by simp, finish_wf b r hr⟩

theorem loop_exhausted (c : Config) : ∀ (rs : List Resp) (a d : Nat),
    a + rs.length < (loop c a d rs).issued → (loop c a d rs).outcome = .exhausted := by
  intro rs
  induction rs with
  | nil => intro a d _; simp [loop]
  | cons r rest ih =>
    intro a d h
    rcases loop_cons_cases c a d r rest with ⟨_, e⟩ | ⟨o, e⟩
    · rw [e] at h ⊢
      simp only [List.length_cons] at h
      exact ih (a + 1) _ (by omega)
    · rw [e] at h
      simp only [List.length_cons] at h
      omega

end Proofs.C26
