import PytezosModel.Client.Fees
/-! Helper lemmas for C24: length of zarith encodings, the float-guarded divisions, per-content fee bounds and
their sums over a batch. -/
namespace Impl.Fees

theorem natLen_eq (n : Nat) : natLen n = if n < 128 then 1 else 1 + natLen (n / 128) := by
  unfold natLen
  rw [Core.forgeNat]
  split <;> simp <;> omega

theorem natLen_zero : natLen 0 = 1 := by rw [natLen_eq]; simp

theorem natLen_pos (n : Nat) : 1 ≤ natLen n := by
  rw [natLen_eq]; split <;> omega

theorem natLen_le (k : Nat) : ∀ n, n < 128 ^ (k + 1) → natLen n ≤ k + 1 := by
  induction k with
  | zero => intro n h; rw [natLen_eq]; simp at h; simp [h]
  | succ k ih =>
    intro n h
    rw [natLen_eq]
    split
    · omega
    · have h2 : n / 128 < 128 ^ (k + 1) := by
        apply Nat.div_lt_of_lt_mul
        rw [Nat.pow_succ] at h
        omega
      have := ih (n / 128) h2
      omega

/-- a mutez amount the node can represent (int64) takes at most 9 bytes -/
theorem natLen_le_nine (n : Nat) (h : n < 2 ^ 63) : natLen n ≤ 9 :=
  natLen_le 8 n (Nat.lt_of_lt_of_le h (by decide))


/-- what the proofs need from the constants read from the source -/
structure Cfg.Sound (k : Cfg) : Prop where
  minimalFees : 100 ≤ k.minimalFees
  mutezPerByte : 1 ≤ k.mutezPerByte
  nanotezPerGas : 100 ≤ k.nanotezPerGas
  divisor : k.divisor = 1000
  reserve : 10 ≤ k.reserve
  feeBranch : 32 ≤ k.feeBranch
  feeSig : 64 ≤ k.feeSig.1 ∧ 96 ≤ k.feeSig.2
  fillFee : k.fillFee = .everyOwnGas
  autoBranch : 32 ≤ k.autoBranch
  autoSig : 64 ≤ k.autoSig.1 ∧ 96 ≤ k.autoSig.2

theorem sigAllow_ge (p : Nat × Nat) (h : 64 ≤ p.1 ∧ 96 ≤ p.2) (src : String) : Spec.Fees.sigLen src ≤ sigAllow p src := by
  unfold Spec.Fees.sigLen sigAllow
  split <;> omega

theorem calcFee_bound (k : Cfg) (hk : k.Sound) (len extra gas fee : Nat) (h : calcFee k len extra gas = some fee) :
    1000 * (len + extra) + 100 * gas + 109100 ≤ 1000 * fee := by
  unfold calcFee pyTruncDiv at h
  split at h
  · simp at h
    subst h
    have h1 : len + extra ≤ k.mutezPerByte * (len + extra) := Nat.le_mul_of_pos_left _ hk.mutezPerByte
    have h2 : 100 * gas / 1000 ≤ k.nanotezPerGas * gas / k.divisor := by
      rw [hk.divisor]
      exact Nat.div_le_div_right (Nat.mul_le_mul_right gas hk.nanotezPerGas)
    have h3 := hk.minimalFees
    have h4 := hk.reserve
    omega
  · simp at h


/-- `fill` (repaired shape): a content's own fee pays for its final bytes, its gas limit and, on top, for the
branch, the signature and the flat 100 mutez -/
theorem fillOne_bound (k : Cfg) (hk : k.Sound) (env : Env) (n i : Nat) (c : Content) (o : Filled)
    (h : fillOne k env n i c = some o) (hfee : o.fee < 2 ^ 63) :
    1000 * o.len + 100 * o.gas + (133100 + 1000 * Spec.Fees.sigLen env.src) ≤ 1000 * o.fee := by
  unfold fillOne at h
  rw [hk.fillFee] at h
  simp only [Option.bind_eq_bind, Option.bind_eq_some_iff] at h
  obtain ⟨dg, _, ds, _, fee, hc, ho⟩ := h
  simp at ho
  subst ho
  have hb := calcFee_bound k hk _ _ _ _ hc
  have hs := sigAllow_ge k.feeSig hk.feeSig env.src
  have h9 := natLen_le_nine fee hfee
  have hbr := hk.feeBranch
  simp only [Filled.len, natLen_zero] at hb ⊢
  omega

theorem fillGo_bound (k : Cfg) (hk : k.Sound) (env : Env) (n : Nat) (cs : List Content) :
    ∀ (i : Nat) (out : List Filled), fillGo k env n i cs = some out → (∀ o ∈ out, o.fee < 2 ^ 63) →
      out.length = cs.length ∧
      1000 * totalLen out + 100 * totalGas out + out.length * (133100 + 1000 * Spec.Fees.sigLen env.src) ≤ 1000 * totalFee out := by
  induction cs with
  | nil => intro i out h _; simp [fillGo] at h; subst h; simp [totalLen, totalGas, totalFee]
  | cons c cs ih =>
    intro i out h hfee
    simp only [fillGo, Option.bind_eq_bind, Option.bind_eq_some_iff] at h
    obtain ⟨o, ho, rest, hrest, hout⟩ := h
    simp at hout
    subst hout
    have h1 := fillOne_bound k hk env n i c o ho (hfee o (by simp))
    have ⟨hl, h2⟩ := ih (i + 1) rest hrest (fun o' ho' => hfee o' (by simp [ho']))
    refine ⟨by simp [hl], ?_⟩
    simp only [totalLen, totalGas, totalFee, List.length_cons, Nat.add_mul, Nat.one_mul]
    omega


theorem fillGo_length (k : Cfg) (env : Env) (n : Nat) (cs : List Content) :
    ∀ (i : Nat) (out : List Filled), fillGo k env n i cs = some out → out.length = cs.length := by
  induction cs with
  | nil => intro i out h; simp [fillGo] at h; subst h; rfl
  | cons c cs ih =>
    intro i out h
    simp only [fillGo, Option.bind_eq_bind, Option.bind_eq_some_iff] at h
    obtain ⟨o, _, rest, hrest, hout⟩ := h
    simp at hout
    subst hout
    simp [ih (i + 1) rest hrest]

theorem fillWith_length (k : Cfg) (env : Env) (cs : List Content) (out : List Filled)
    (h : fillWith k env cs = some out) : out.length = cs.length ∧ 0 < cs.length := by
  unfold fillWith at h
  split at h
  · simp at h
  · exact ⟨fillGo_length k env _ cs 0 out h, by omega⟩

/-- `fill()` on the repaired shape: the batch is accepted by the node's default filter -/
theorem fillWith_accepts (k : Cfg) (hk : k.Sound) (env : Env) (cs : List Content) (out : List Filled)
    (h : fillWith k env cs = some out) (hfee : ∀ o ∈ out, o.fee < 2 ^ 63) :
    Spec.Fees.accepts (totalFee out) (Spec.Fees.signedSize env.src out) (totalGas out) := by
  unfold fillWith at h
  split at h
  · simp at h
  · rename_i hne
    have ⟨hl, hb⟩ := fillGo_bound k hk env _ cs 0 out h hfee
    have hpos : 0 < out.length := by omega
    have hm : (133100 + 1000 * Spec.Fees.sigLen env.src) ≤ out.length * (133100 + 1000 * Spec.Fees.sigLen env.src) :=
      Nat.le_mul_of_pos_left _ hpos
    unfold Spec.Fees.accepts Spec.Fees.signedSize
    omega

/-! autofill -/

theorem autoOne_bound (k : Cfg) (hk : k.Sound) (env : Env) (n : Nat) (f : Filled) (kind : String) (sim : List SimRes)
    (o : Filled) (fee : Nat) (h : autoOne k env n f kind sim = some (o, fee)) :
    o.fee = 0 ∧
    1000 * o.len + 100 * o.gas + 109100 + 1000 * ((32 + Spec.Fees.sigLen env.src) / n) ≤ 1000 * fee := by
  unfold autoOne at h
  simp only [Option.bind_eq_bind, Option.bind_eq_some_iff] at h
  obtain ⟨g0, _, fee', hc, ho⟩ := h
  simp at ho
  obtain ⟨ho, hf⟩ := ho
  subst ho hf
  have hb := calcFee_bound k hk _ _ _ _ hc
  have hs := sigAllow_ge k.autoSig hk.autoSig env.src
  have hd : (32 + Spec.Fees.sigLen env.src) / n ≤ (k.autoBranch + sigAllow k.autoSig env.src) / n :=
    Nat.div_le_div_right (by have := hk.autoBranch; omega)
  refine ⟨rfl, ?_⟩
  simp only [Filled.len] at hb ⊢
  omega

theorem autoGo_bound (k : Cfg) (hk : k.Sound) (env : Env) (n : Nat) (l : List (Filled × String × List SimRes)) :
    ∀ (os : List Filled) (acc : Nat), autoGo k env n l = some (os, acc) →
      os.length = l.length ∧ (∀ o ∈ os, o.fee = 0) ∧
      1000 * totalLen os + 100 * totalGas os + 109100 * os.length
        + 1000 * (os.length * ((32 + Spec.Fees.sigLen env.src) / n)) ≤ 1000 * acc := by
  induction l with
  | nil => intro os acc h; simp [autoGo] at h; obtain ⟨h1, h2⟩ := h; subst h1 h2; simp [totalLen, totalGas]
  | cons x l ih =>
    intro os acc h
    obtain ⟨f, kind, sim⟩ := x
    simp only [autoGo, Option.bind_eq_bind, Option.bind_eq_some_iff] at h
    obtain ⟨⟨o, fee⟩, ho, ⟨os', acc'⟩, hrest, hout⟩ := h
    simp at hout
    obtain ⟨h1, h2⟩ := hout
    subst h1 h2
    have ⟨hz, hb⟩ := autoOne_bound k hk env n f kind sim o fee ho
    have ⟨hl, hz', hb'⟩ := ih os' acc' hrest
    refine ⟨by simp [hl], ?_, ?_⟩
    · intro o' ho'
      simp at ho'
      rcases ho' with rfl | ho'
      · exact hz
      · exact hz' o' ho'
    · simp only [totalLen, totalGas, List.length_cons]
      generalize (32 + Spec.Fees.sigLen env.src) / n = X at *
      generalize os'.length = m at *
      have e : (m + 1) * X = m * X + X := Nat.succ_mul m X
      generalize m * X = mx at *
      generalize (m + 1) * X = mx1 at *
      have e2 : 109100 * (m + 1) = 109100 * m + 109100 := Nat.mul_succ 109100 m
      generalize 109100 * (m + 1) = z at *
      omega


theorem totalFee_zero (os : List Filled) (h : ∀ o ∈ os, o.fee = 0) : totalFee os = 0 := by
  induction os with
  | nil => rfl
  | cons o os ih =>
    simp only [totalFee]
    have := h o (by simp)
    have := ih (fun o' ho' => h o' (by simp [ho']))
    omega

/-- putting the accumulated fee on the first content: the total fee is `acc`, gas limits are untouched and the
operation grows by the extra bytes of the fee field -/
theorem setFirstFee_totals (os : List Filled) (acc : Nat) (hz : ∀ o ∈ os, o.fee = 0) (hne : 0 < os.length) :
    totalFee (setFirstFee os acc) = acc ∧ totalGas (setFirstFee os acc) = totalGas os ∧
    totalLen (setFirstFee os acc) + 1 = totalLen os + natLen acc := by
  cases os with
  | nil => simp at hne
  | cons o os =>
    have h0 := hz o (by simp)
    have hr := totalFee_zero os (fun o' ho' => hz o' (by simp [ho']))
    by_cases hacc : acc = 0
    · subst hacc
      refine ⟨?_, ?_, ?_⟩ <;> simp only [setFirstFee, if_true, totalFee, totalGas, totalLen, natLen_zero] <;> omega
    · refine ⟨?_, ?_, ?_⟩ <;>
        simp only [setFirstFee, hacc, if_false, totalFee, totalGas, totalLen, Filled.len, h0, natLen_zero] <;> omega

theorem zip3_length (fs : List Filled) : ∀ (cs : List Content) (ss : List (List SimRes)),
    fs.length = cs.length → ss.length = cs.length → (zip3 fs cs ss).length = cs.length := by
  induction fs with
  | nil => intro cs ss h1 _; cases cs <;> simp_all [zip3]
  | cons f fs ih =>
    intro cs ss h1 h2
    cases cs with
    | nil => simp at h1
    | cons c cs =>
      cases ss with
      | nil => simp at h2
      | cons s ss =>
        simp only [zip3, List.length_cons] at h1 h2 ⊢
        rw [ih cs ss (by omega) (by omega)]

/-- `autofill()`: the accumulated fee is accepted by the node's default filter -/
theorem autofillWith_accepts (k : Cfg) (hk : k.Sound) (env : Env) (cs : List Content) (sims : List (List SimRes))
    (out : List Filled) (h : autofillWith k env cs sims = some out) (hfee : totalFee out < 2 ^ 63) :
    Spec.Fees.accepts (totalFee out) (Spec.Fees.signedSize env.src out) (totalGas out) := by
  unfold autofillWith at h
  simp only [Option.bind_eq_bind, Option.bind_eq_some_iff] at h
  obtain ⟨filled, hf, h⟩ := h
  split at h
  · simp at h
  · rename_i hs
    simp only [Option.bind_eq_some_iff] at h
    obtain ⟨⟨os, acc⟩, hgo, hout⟩ := h
    simp at hout
    subst hout
    have ⟨hfl, hpos⟩ := fillWith_length k env cs filled hf
    have hs' : sims.length = cs.length := by simpa using hs
    have hz3 := zip3_length filled cs sims hfl hs'
    have ⟨hl, hz, hb⟩ := autoGo_bound k hk env cs.length _ os acc hgo
    rw [hz3] at hl
    have ⟨t1, t2, t3⟩ := setFirstFee_totals os acc hz (by omega)
    rw [t1] at hfee
    have h9 := natLen_le_nine acc hfee
    unfold Spec.Fees.accepts Spec.Fees.signedSize
    rw [t1, t2]
    rw [hl] at hb
    have hdm := Nat.div_add_mod (32 + Spec.Fees.sigLen env.src) cs.length
    have hml := Nat.mod_lt (32 + Spec.Fees.sigLen env.src) hpos
    generalize (32 + Spec.Fees.sigLen env.src) / cs.length = d at *
    generalize cs.length * d = nd at *
    omega

end Impl.Fees
