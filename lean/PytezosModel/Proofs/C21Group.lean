import PytezosModel.Michelson.Bls
/-! C21 helper lemmas: consequences of the assumed group laws (`CurveLaws`) and of bilinearity (`PairingLaws`),
and the modular-arithmetic identities behind the Fr instructions.  Core tactics only. -/
namespace Bls

section group
variable {K : CurveOps} {n : Nat} (hK : CurveLaws K n)
include hK

theorem add_zero' (P : K.G) : K.add P K.zero = P := by rw [hK.add_comm, hK.zero_add]

theorem add_neg' (P : K.G) : K.add P (K.neg P) = K.zero := by rw [hK.add_comm, hK.neg_add]

theorem add_left_cancel' (P Q R : K.G) (h : K.add P Q = K.add P R) : Q = R := by
  have := congrArg (K.add (K.neg P)) h
  rwa [← hK.add_assoc, ← hK.add_assoc, hK.neg_add, hK.zero_add, hK.zero_add] at this

/-- inverses are unique -/
theorem eq_neg_of_add_eq_zero (P Q : K.G) (h : K.add Q P = K.zero) : Q = K.neg P := by
  apply add_left_cancel' hK P
  rw [hK.add_comm P Q, h, add_neg' hK]

theorem neg_zero' : K.neg K.zero = K.zero := by
  have := hK.neg_add K.zero
  rwa [add_zero' hK] at this

theorem neg_neg' (P : K.G) : K.neg (K.neg P) = P :=
  (eq_neg_of_add_eq_zero hK (K.neg P) P (add_neg' hK P)).symm

theorem mul_one' (P : K.G) : K.mul P 1 = P := by
  have := hK.mul_succ P 0
  rwa [hK.mul_zero, hK.zero_add] at this

theorem mul_add' (P : K.G) (a b : Nat) : K.mul P (a + b) = K.add (K.mul P a) (K.mul P b) := by
  induction b with
  | zero => rw [Nat.add_zero, hK.mul_zero, add_zero' hK]
  | succ b ih => rw [← Nat.add_assoc, hK.mul_succ, ih, hK.mul_succ, hK.add_assoc]

theorem mul_mul' (P : K.G) (a b : Nat) : K.mul P (a * b) = K.mul (K.mul P a) b := by
  induction b with
  | zero => rw [Nat.mul_zero, hK.mul_zero, hK.mul_zero]
  | succ b ih => rw [Nat.mul_succ, mul_add' hK, ih, hK.mul_succ]

theorem mul_zero_pt (a : Nat) : K.mul K.zero a = K.zero := by
  induction a with
  | zero => exact hK.mul_zero _
  | succ a ih => rw [hK.mul_succ, ih, hK.zero_add]

theorem mul_add_pt (P Q : K.G) (a : Nat) : K.mul (K.add P Q) a = K.add (K.mul P a) (K.mul Q a) := by
  induction a with
  | zero => rw [hK.mul_zero, hK.mul_zero, hK.mul_zero, hK.zero_add]
  | succ a ih =>
    rw [hK.mul_succ, ih, hK.mul_succ, hK.mul_succ]
    -- (pa + qa) + (p + q) = (pa + p) + (qa + q)
    rw [hK.add_assoc, hK.add_assoc]
    congr 1
    rw [← hK.add_assoc, ← hK.add_assoc, hK.add_comm (K.mul Q a) P]

/-- scalars act modulo the group order -/
theorem mul_mod' (P : K.G) (a : Nat) : K.mul P (a % r) = K.mul P a := by
  conv => rhs; rw [← Nat.div_add_mod a r]
  rw [mul_add' hK, mul_mul' hK, hK.order, mul_zero_pt hK, hK.zero_add]

theorem mul_neg_one (P : K.G) : K.mul P (r - 1) = K.neg P := by
  apply eq_neg_of_add_eq_zero hK
  have : r - 1 + 1 = r := by have : 0 < r := by decide
                             omega
  rw [← hK.mul_succ, this, hK.order]

end group

section pairing
variable {E : Env} (hE : PairingLaws E) (h1 : CurveLaws E.K1 2) (h2 : CurveLaws E.K2 4)
include hE

theorem t_mul_one (x : E.T.GT) : E.T.mul x E.T.one = x := by rw [hE.mul_comm, hE.one_mul]

/-- scalars move across the pairing: `e(n·Q, P) = e(Q, n·P)` -/
theorem pair_mul_swap (h1 : CurveLaws E.K1 2) (h2 : CurveLaws E.K2 4) (Q : E.K2.G) (P : E.K1.G) (n : Nat) :
    E.pairing (E.K2.mul Q n) P = E.pairing Q (E.K1.mul P n) := by
  induction n with
  | zero => rw [h1.mul_zero, h2.mul_zero, hE.pair_zero_left, hE.pair_zero_right]
  | succ n ih => rw [h1.mul_succ, h2.mul_succ, hE.pair_add_left, hE.pair_add_right, ih]

/-- `e(Q, P) · e(Q, −P) = 1` -/
theorem pair_neg_right (h1 : CurveLaws E.K1 2) (Q : E.K2.G) (P : E.K1.G) :
    E.T.mul (E.pairing Q P) (E.pairing Q (E.K1.neg P)) = E.T.one := by
  rw [← hE.pair_add_right, add_neg' h1, hE.pair_zero_right]

end pairing

/-! ### integers modulo `m` (Python's `%` with a positive modulus is `Int.emod`) -/

theorem emod_add_assoc (a b c m : Int) : ((a + b) % m + c) % m = (a + (b + c) % m) % m := by
  rw [Int.emod_add_emod, Int.add_emod_emod, Int.add_assoc]

theorem emod_mul_emod' (a c m : Int) : (a % m * c) % m = (a * c) % m := by
  rw [Int.mul_emod, Int.emod_emod, ← Int.mul_emod]

theorem mul_emod_emod' (a c m : Int) : (a * (c % m)) % m = (a * c) % m := by
  rw [Int.mul_emod, Int.emod_emod, ← Int.mul_emod]

theorem emod_mul_assoc (a b c m : Int) : ((a * b) % m * c) % m = (a * ((b * c) % m)) % m := by
  rw [emod_mul_emod', mul_emod_emod', Int.mul_assoc]

theorem emod_distrib (a b c m : Int) : ((a + b) % m * c) % m = ((a * c) % m + (b * c) % m) % m := by
  rw [emod_mul_emod', Int.emod_add_emod, Int.add_emod_emod, Int.add_mul]

theorem neg_emod_emod' (z m : Int) : (-(z % m)) % m = (-z) % m := by
  have h1 := Int.sub_emod 0 z m
  have h2 := Int.sub_emod 0 (z % m) m
  rw [Int.emod_emod] at h2
  rw [Int.zero_sub] at h1 h2
  rw [h1, h2]

theorem emod_add_neg (a m : Int) : (a + (-a) % m) % m = 0 := by
  rw [Int.add_emod_emod, Int.add_right_neg, Int.zero_emod]

end Bls
