import PytezosModel.Proofs.C06Group
/-! C06 helper lemmas, part 3: on well-formed input the mirror writes exactly what the canonical writer of the schema writes. -/
namespace C06Proofs
open Core OpLayout Impl.OpForge Spec.Op
open Generated.C06 (Codec Cond Field)

/-- prefixes are unique within and across the two address tables, key prefixes are unique -/
theorem prefix_rows :
    (∀ r ∈ pkhPrefixes, pkhPrefixes.find? (·.2 == r.2) = some r) ∧
    (∀ r ∈ originatedPrefixes, pkhPrefixes.find? (·.2 == r.2) = none ∧ originatedPrefixes.find? (·.2 == r.2) = some r) ∧
    (∀ r ∈ publicKeys, publicKeys.find? (·.2.1 == r.2.1) = some r) := by
  decide +kernel

theorem eq_writeC (htab : Generated.C06.reservedEntrypoints = some reservedEntrypoints)
    (c : SCodec) (v : Val) (hw : WFVal c v = true) : encodeC c.erase v = writeC c v := by
  cases c <;> cases v <;> first
    | exact Bool.noConfusion hw
    | rfl
    | skip
  case pkh.addr p h =>
    simp only [WFVal, Bool.and_eq_true, List.any_eq_true, beq_iff_eq] at hw
    obtain ⟨⟨r, hr, rfl⟩, _⟩ := hw
    simp [SCodec.erase, encodeC, forgeAddress, (pkh_rows r hr).1, writeC, writePkh, prefix_rows.1 r hr]
  case addr.addr p h =>
    simp only [WFVal, Bool.and_eq_true, Bool.or_eq_true, List.any_eq_true, beq_iff_eq] at hw
    obtain ⟨hp, _⟩ := hw
    rcases hp with ⟨r, hr, rfl⟩ | ⟨r, hr, rfl⟩
    · simp [SCodec.erase, encodeC, forgeAddress, (pkh_rows r hr).1, writeC, writeAddr, prefix_rows.1 r hr]
    · simp [SCodec.erase, encodeC, forgeAddress, (orig_rows r hr).1, writeC, writeAddr, (prefix_rows.2.1 r hr).1,
        (prefix_rows.2.1 r hr).2]
  case pubkey.pubkey p k =>
    simp only [WFVal, Bool.and_eq_true, List.any_eq_true, beq_iff_eq] at hw
    obtain ⟨r, hr, rfl, _⟩ := hw
    simp [SCodec.erase, encodeC, forgePublicKey, (pk_rows r hr).1, writeC, writePubkey, prefix_rows.2.2 r hr]
  case entrypoint.ep n =>
    simp only [WFVal, Bool.and_eq_true, decide_eq_true_eq] at hw
    simp only [SCodec.erase, encodeC, forgeEntrypoint, reservedTag, htab, Option.map_some, writeC, writeEntrypoint]
    cases hf : reservedEntrypoints.find? (·.2.1 == n) with
    | some row => simp
    | none =>
      have hl : natToBE 1 n.length = some [n.length] := natToBE_one _ (by omega)
      have h256 : n.length < 256 := by omega
      simp [forgeArray, hl, h256]

theorem eq_writeFields (htab : Generated.C06.reservedEntrypoints = some reservedEntrypoints) :
    ∀ (fs : List (String × SCodec)) (vs : List Val), WFVals fs vs = true →
      encodeFields (eraseFs fs) vs = writeFields fs vs
  | [], [], _ => rfl
  | [], _ :: _, hw => by simp [WFVals] at hw
  | _ :: _, [], hw => by simp [WFVals] at hw
  | (n, c) :: fs, v :: vs, hw => by
    simp only [WFVals, Bool.and_eq_true] at hw
    simp only [eraseFs, List.map_cons, encodeFields, writeFields, eq_writeC htab c v hw.1]
    have := eq_writeFields htab fs vs hw.2
    simp only [eraseFs] at this
    rw [this]

theorem eq_writeF (htab : Generated.C06.reservedEntrypoints = some reservedEntrypoints)
    (f : SField) (v : FVal) (hw : WFF f v = true) : encodeF f.erase v = writeF f v := by
  cases f with
  | req n c =>
    cases v with
    | opt o => simp [WFF] at hw
    | req v => simp only [WFF] at hw; simp [SField.erase, encodeF, writeF, eq_writeC htab c v hw]
  | opt n cond fs =>
    cases v with
    | req v => simp [WFF] at hw
    | opt o =>
      cases o with
      | none => simp [SField.erase, encodeF, writeF, forgeBool]
      | some vs =>
        simp only [WFF] at hw
        simp only [SField.erase, encodeF, writeF, eq_writeFields htab fs vs hw, forgeBool]
        by_cases hel : (cond == Cond.elideDefaultUnit && elided vs) = true
        · simp [hel]
        · simp only [hel]
          cases writeFields fs vs <;> simp

theorem eq_writeL (htab : Generated.C06.reservedEntrypoints = some reservedEntrypoints) :
    ∀ (l : List SField) (r : Record), WFRecord l r = true → encodeL (eraseL l) r = writeL l r
  | [], [], _ => rfl
  | [], _ :: _, hw => by simp [WFRecord] at hw
  | _ :: _, [], hw => by simp [WFRecord] at hw
  | f :: fs, v :: vs, hw => by
    simp only [WFRecord, Bool.and_eq_true] at hw
    simp only [eraseL, List.map_cons, encodeL, writeL, eq_writeF htab f v hw.1]
    have := eq_writeL htab fs vs hw.2
    simp only [eraseL] at this
    rw [this]

theorem eq_writeContent (htab : Generated.C06.reservedEntrypoints = some reservedEntrypoints) (ht : TablesOK)
    (c : Content) (hw : WFContent c = true) : forgeOperation c = writeContent c := by
  unfold WFContent at hw
  cases hr : rowOfKind c.kind with
  | none => simp [hr] at hw
  | some row =>
    simp only [hr] at hw
    obtain ⟨hmem, hk⟩ := rowOfKind_some _ _ hr
    obtain ⟨h1, h2, h3, _, _⟩ := ht row hmem
    simp only [forgeOperation, ← hk, h1, h2, natToBE_one row.tag h3, Option.bind_eq_bind, Option.bind_some,
      eq_writeL htab row.layout c.fields hw, writeContent]
    rw [hk, hr]
    cases hwl : writeL row.layout c.fields <;> simp [hwl]

theorem eq_writeContents (htab : Generated.C06.reservedEntrypoints = some reservedEntrypoints) (ht : TablesOK) :
    ∀ (cs : List Content), (∀ c ∈ cs, WFContent c = true) → forgeContents cs = writeContents cs
  | [], _ => rfl
  | c :: cs, hw => by
    simp only [forgeContents, writeContents, eq_writeContent htab ht c (hw c (by simp)),
      eq_writeContents htab ht cs (fun c' hc' => hw c' (by simp [hc']))]

theorem eq_writeGroup (htab : Generated.C06.reservedEntrypoints = some reservedEntrypoints) (ht : TablesOK)
    (hh : Generated.C06.helpersAsMirrored = true) (g : Group) (hw : WFGroup g = true) :
    forgeGroup g = writeGroup g := by
  simp only [WFGroup, Bool.and_eq_true, List.all_eq_true] at hw
  simp only [forgeGroup, hh, if_true, writeGroup, eq_writeContents htab ht g.contents hw.2]

end C06Proofs
