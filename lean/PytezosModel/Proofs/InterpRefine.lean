import PytezosModel.Proofs.InterpStep
/-! C01 core: the protected-stack machine of pytezos (`Impl.exec`) refines the reference big-step
semantics (`Spec.eval`, guard on) — for every program, stack, protected prefix and environment. -/
namespace Interp
open Stack

def ExecOK (env : Env) (f : Nat) : Prop :=
  ∀ i pre st, Spec.eval true env f i st ≠ .stuck → Spec.eval true env f i st ≠ .offguard →
    Impl.exec env f i (stk pre st) = (Spec.eval true env f i st).map' (stk pre)

def SeqOK (env : Env) (f : Nat) : Prop :=
  ∀ is pre st, Spec.evalSeq true env f is st ≠ .stuck → Spec.evalSeq true env f is st ≠ .offguard →
    Impl.execSeq env f is (stk pre st) = (Spec.evalSeq true env f is st).map' (stk pre)

def IterOK (env : Env) (f : Nat) : Prop :=
  ∀ body xs pre st, Spec.evalIter true env f body xs st ≠ .stuck → Spec.evalIter true env f body xs st ≠ .offguard →
    Impl.iterLoop env f body xs (stk pre st) = (Spec.evalIter true env f body xs st).map' (stk pre)

def MapOK (env : Env) (f : Nat) : Prop :=
  ∀ body isMap xs pre st, Spec.evalMap true env f body isMap xs st ≠ .stuck →
    Spec.evalMap true env f body isMap xs st ≠ .offguard →
    Impl.mapLoop env f body isMap xs (stk pre st)
      = (Spec.evalMap true env f body isMap xs st).map' (fun p => (p.1, stk pre p.2))

section
variable (env : Env) (f : Nat) (hE : ExecOK env f) (hS : SeqOK env f) (hI : IterOK env f) (hM : MapOK env f)
include hE

theorem seq_succ (hS : SeqOK env f) : SeqOK env (f + 1) := by
  intro is pre st hr hg
  cases is with
  | nil => simp [Impl.execSeq, Spec.evalSeq]
  | cons i is =>
    simp only [Impl.execSeq, Spec.evalSeq] at hr hg ⊢
    have h1 := bind_ne_stuck hr
    have g1 := bind_ne_offguard hg
    rw [hE i pre st h1 g1]
    cases hq : Spec.eval true env f i st with
    | stuck => exact absurd hq h1
    | failed _ => simp
    | rtfail => simp
    | oof => simp
    | offguard => simp
    | ok st' =>
      simp only [hq, rbind_ok] at hr hg
      simp only [map'_ok, Res.bind_ok, rbind_ok]
      exact hS is pre st' hr hg

theorem iter_succ (hI : IterOK env f) : IterOK env (f + 1) := by
  intro body xs pre st hr hg
  cases xs with
  | nil => simp [Impl.iterLoop, Spec.evalIter]
  | cons x xs =>
    simp only [Impl.iterLoop, Spec.evalIter, push_mk] at hr hg ⊢
    have h1 := bind_ne_stuck hr
    have g1 := bind_ne_offguard hg
    rw [hE body pre (x :: st) h1 g1]
    cases hq : Spec.eval true env f body (x :: st) with
    | stuck => exact absurd hq h1
    | failed _ => simp
    | rtfail => simp
    | oof => simp
    | offguard => simp
    | ok st' =>
      simp only [hq, rbind_ok] at hr hg
      simp only [map'_ok, Res.bind_ok, rbind_ok]
      exact hI body xs pre st' hr hg

theorem map_succ (hM : MapOK env f) : MapOK env (f + 1) := by
  intro body isMap xs pre st hr hg
  cases xs with
  | nil => simp [Impl.mapLoop, Spec.evalMap]
  | cons x xs =>
    simp only [Impl.mapLoop, Spec.evalMap, push_mk] at hr hg ⊢
    have h1 := bind_ne_stuck hr
    have g1 := bind_ne_offguard hg
    rw [hE body pre (x :: st) h1 g1]
    cases hq : Spec.eval true env f body (x :: st) with
    | stuck => exact absurd hq h1
    | failed _ => simp
    | rtfail => simp
    | oof => simp
    | offguard => simp
    | ok st' =>
      simp only [hq, rbind_ok] at hr hg
      simp only [map'_ok, Res.bind_ok]
      cases st' with
      | nil => simp at hr
      | cons y st'' =>
        simp only [pop1_mk_cons, Res.bind_ok] at hr hg ⊢
        -- the kept item
        cases isMap with
        | false =>
          simp only [rbind_ok] at hr hg ⊢
          have h2 := bind_ne_stuck hr
          have g2 := bind_ne_offguard hg
          rw [hM body false xs pre st'' h2 g2]
          cases hq2 : Spec.evalMap true env f body false xs st'' with
          | stuck => exact absurd hq2 h2
          | failed _ => simp
          | rtfail => simp
          | oof => simp
          | offguard => simp
          | ok p => obtain ⟨ys, st3⟩ := p; simp
        | true =>
          cases x <;> first | (simp at hr; done) | skip
          rename_i k v
          simp only [rbind_ok] at hr hg ⊢
          have h2 := bind_ne_stuck hr
          have g2 := bind_ne_offguard hg
          rw [hM body true xs pre st'' h2 g2]
          cases hq2 : Spec.evalMap true env f body true xs st'' with
          | stuck => exact absurd hq2 h2
          | failed _ => simp
          | rtfail => simp
          | oof => simp
          | offguard => simp
          | ok p => obtain ⟨ys, st3⟩ := p; simp

end
end Interp

namespace Interp
open Stack

section
variable (env : Env) (f : Nat) (hE : ExecOK env f)
include hE

theorem exec_DIPN (n : Nat) (body : Instr) (pre st : List Val)
    (hr : Spec.eval true env (f + 1) (.DIPN n body) st ≠ .stuck)
    (hg : Spec.eval true env (f + 1) (.DIPN n body) st ≠ .offguard) :
    Impl.exec env (f + 1) (.DIPN n body) (stk pre st) = (Spec.eval true env (f + 1) (.DIPN n body) st).map' (stk pre) := by
  simp only [Impl.exec, Spec.eval] at hr hg ⊢
  by_cases hn : n ≤ st.length
  · simp only [hn, if_true] at hr hg ⊢
    have h1 := bind_ne_stuck hr
    have g1 := bind_ne_offguard hg
    rw [protect_mk pre st n hn]
    simp only [Res.bind_ok]
    rw [hE body (pre ++ st.take n) (st.drop n) h1 g1]
    cases hq : Spec.eval true env f body (st.drop n) with
    | stuck => exact absurd hq h1
    | failed _ => simp
    | rtfail => simp
    | oof => simp
    | offguard => simp
    | ok st' =>
      have hl : (st.take n).length = n := by rw [List.length_take]; omega
      simp [restore_mk' pre (st.take n) st' n hl]
  · simp [hn] at hr

theorem exec_DIP (body : Instr) (pre st : List Val)
    (hr : Spec.eval true env (f + 1) (.DIP body) st ≠ .stuck)
    (hg : Spec.eval true env (f + 1) (.DIP body) st ≠ .offguard) :
    Impl.exec env (f + 1) (.DIP body) (stk pre st) = (Spec.eval true env (f + 1) (.DIP body) st).map' (stk pre) := by
  cases st with
  | nil => (exfalso; apply hr; simp [Spec.eval, Spec.step])
  | cons x st =>
    simp only [Impl.exec, Spec.eval] at hr hg ⊢
    have h1 := bind_ne_stuck hr
    have g1 := bind_ne_offguard hg
    rw [protect_mk pre (x :: st) 1 (by simp)]
    simp only [Res.bind_ok, List.take_succ_cons, List.take_zero, List.drop_succ_cons, List.drop_zero]
    rw [hE body (pre ++ [x]) st h1 g1]
    cases hq : Spec.eval true env f body st with
    | stuck => exact absurd hq h1
    | failed _ => simp
    | rtfail => simp
    | oof => simp
    | offguard => simp
    | ok st' => simp [restore_mk' pre [x] st' 1 rfl]

theorem exec_IF (bt bf : Instr) (pre st : List Val)
    (hr : Spec.eval true env (f + 1) (.IF bt bf) st ≠ .stuck)
    (hg : Spec.eval true env (f + 1) (.IF bt bf) st ≠ .offguard) :
    Impl.exec env (f + 1) (.IF bt bf) (stk pre st) = (Spec.eval true env (f + 1) (.IF bt bf) st).map' (stk pre) := by
  rcases st with _ | ⟨c, st⟩
  · (exfalso; apply hr; simp [Spec.eval, Spec.step])
  · cases c <;> first | (exfalso; apply hr; simp [Spec.eval, Spec.step]; done) | skip
    rename_i b
    simp only [Impl.exec, Spec.eval, pop1_mk_cons, Res.bind_ok] at hr hg ⊢
    exact hE _ pre st hr hg

theorem exec_IF_NONE (bn bs : Instr) (pre st : List Val)
    (hr : Spec.eval true env (f + 1) (.IF_NONE bn bs) st ≠ .stuck)
    (hg : Spec.eval true env (f + 1) (.IF_NONE bn bs) st ≠ .offguard) :
    Impl.exec env (f + 1) (.IF_NONE bn bs) (stk pre st) = (Spec.eval true env (f + 1) (.IF_NONE bn bs) st).map' (stk pre) := by
  rcases st with _ | ⟨c, st⟩
  · (exfalso; apply hr; simp [Spec.eval, Spec.step])
  · cases c <;> first | (exfalso; apply hr; simp [Spec.eval, Spec.step]; done) | skip
    · simp only [Impl.exec, Spec.eval, pop1_mk_cons, Res.bind_ok, push_mk] at hr hg ⊢
      exact hE _ pre _ hr hg
    · simp only [Impl.exec, Spec.eval, pop1_mk_cons, Res.bind_ok] at hr hg ⊢
      exact hE _ pre st hr hg

theorem exec_IF_LEFT (bl br : Instr) (pre st : List Val)
    (hr : Spec.eval true env (f + 1) (.IF_LEFT bl br) st ≠ .stuck)
    (hg : Spec.eval true env (f + 1) (.IF_LEFT bl br) st ≠ .offguard) :
    Impl.exec env (f + 1) (.IF_LEFT bl br) (stk pre st) = (Spec.eval true env (f + 1) (.IF_LEFT bl br) st).map' (stk pre) := by
  rcases st with _ | ⟨c, st⟩
  · (exfalso; apply hr; simp [Spec.eval, Spec.step])
  · cases c <;> first | (exfalso; apply hr; simp [Spec.eval, Spec.step]; done) | skip
    all_goals
      simp only [Impl.exec, Spec.eval, pop1_mk_cons, Res.bind_ok, push_mk] at hr hg ⊢
      exact hE _ pre _ hr hg

theorem exec_IF_CONS (bc bn : Instr) (pre st : List Val)
    (hr : Spec.eval true env (f + 1) (.IF_CONS bc bn) st ≠ .stuck)
    (hg : Spec.eval true env (f + 1) (.IF_CONS bc bn) st ≠ .offguard) :
    Impl.exec env (f + 1) (.IF_CONS bc bn) (stk pre st) = (Spec.eval true env (f + 1) (.IF_CONS bc bn) st).map' (stk pre) := by
  rcases st with _ | ⟨c, st⟩
  · (exfalso; apply hr; simp [Spec.eval, Spec.step])
  · cases c <;> first | (exfalso; apply hr; simp [Spec.eval, Spec.step]; done) | skip
    rename_i t xs
    cases xs with
    | nil =>
      simp only [Impl.exec, Spec.eval, pop1_mk_cons, Res.bind_ok] at hr hg ⊢
      exact hE _ pre st hr hg
    | cons x xs =>
      simp only [Impl.exec, Spec.eval, pop1_mk_cons, Res.bind_ok, push_mk] at hr hg ⊢
      exact hE _ pre _ hr hg

theorem exec_LOOP (body : Instr) (pre st : List Val)
    (hr : Spec.eval true env (f + 1) (.LOOP body) st ≠ .stuck)
    (hg : Spec.eval true env (f + 1) (.LOOP body) st ≠ .offguard) :
    Impl.exec env (f + 1) (.LOOP body) (stk pre st) = (Spec.eval true env (f + 1) (.LOOP body) st).map' (stk pre) := by
  rcases st with _ | ⟨c, st⟩
  · (exfalso; apply hr; simp [Spec.eval, Spec.step])
  · cases c <;> first | (exfalso; apply hr; simp [Spec.eval, Spec.step]; done) | skip
    rename_i b
    cases b with
    | false => simp [Impl.exec, Spec.eval]
    | true =>
      simp only [Impl.exec, Spec.eval, pop1_mk_cons, Res.bind_ok] at hr hg ⊢
      have h1 := bind_ne_stuck hr
      have g1 := bind_ne_offguard hg
      rw [hE body pre st h1 g1]
      cases hq : Spec.eval true env f body st with
      | stuck => exact absurd hq h1
      | failed _ => simp
      | rtfail => simp
      | oof => simp
      | offguard => simp
      | ok st' =>
        simp only [hq, rbind_ok] at hr hg
        simp only [map'_ok, Res.bind_ok, rbind_ok]
        exact hE _ pre st' hr hg

theorem exec_LOOP_LEFT (body : Instr) (pre st : List Val)
    (hr : Spec.eval true env (f + 1) (.LOOP_LEFT body) st ≠ .stuck)
    (hg : Spec.eval true env (f + 1) (.LOOP_LEFT body) st ≠ .offguard) :
    Impl.exec env (f + 1) (.LOOP_LEFT body) (stk pre st) = (Spec.eval true env (f + 1) (.LOOP_LEFT body) st).map' (stk pre) := by
  rcases st with _ | ⟨c, st⟩
  · (exfalso; apply hr; simp [Spec.eval, Spec.step])
  · cases c <;> first | (exfalso; apply hr; simp [Spec.eval, Spec.step]; done) | skip
    · rename_i v tr
      simp only [Impl.exec, Spec.eval, pop1_mk_cons, Res.bind_ok, push_mk] at hr hg ⊢
      have h1 := bind_ne_stuck hr
      have g1 := bind_ne_offguard hg
      rw [hE body pre (v :: st) h1 g1]
      cases hq : Spec.eval true env f body (v :: st) with
      | stuck => exact absurd hq h1
      | failed _ => simp
      | rtfail => simp
      | oof => simp
      | offguard => simp
      | ok st' =>
        simp only [hq, rbind_ok] at hr hg
        simp only [map'_ok, Res.bind_ok, rbind_ok]
        exact hE _ pre st' hr hg
    · simp [Impl.exec, Spec.eval]

theorem exec_EXEC (pre st : List Val)
    (hr : Spec.eval true env (f + 1) .EXEC st ≠ .stuck)
    (hg : Spec.eval true env (f + 1) .EXEC st ≠ .offguard) :
    Impl.exec env (f + 1) .EXEC (stk pre st) = (Spec.eval true env (f + 1) .EXEC st).map' (stk pre) := by
  rcases st with _ | ⟨a, _ | ⟨l, st⟩⟩
  · (exfalso; apply hr; simp [Spec.eval, Spec.step])
  · (exfalso; apply hr; simp [Spec.eval, Spec.step])
  · cases l <;> first | (exfalso; apply hr; simp [Spec.eval, Spec.step]; done) | skip
    rename_i ta tb body
    simp only [Impl.exec, Spec.eval, pop2_mk_cons, Res.bind_ok] at hr hg ⊢
    by_cases ht : typeOf a = ta
    · simp only [ht, if_true] at hr hg ⊢
      have h1 := bind_ne_stuck hr
      have g1 := bind_ne_offguard hg
      have := hE body [] [a] h1 g1
      simp only [stk, List.nil_append, List.length_nil] at this
      rw [this]
      cases hq : Spec.eval true env f body [a] with
      | stuck => exact absurd hq h1
      | failed _ => simp
      | rtfail => simp
      | oof => simp
      | offguard => simp
      | ok r =>
        simp only [hq, rbind_ok] at hr hg
        simp only [map'_ok, Res.bind_ok, rbind_ok]
        rcases r with _ | ⟨y, _ | ⟨z, r⟩⟩
        · simp at hr
        · have hp : Stack.pop1 ⟨[y], 0⟩ = .ok (y, ⟨[], 0⟩) := pop1_mk_cons [] [] y
          by_cases hb : typeOf y = tb
          · simp only [stk, List.nil_append, List.length_nil]
            rw [hp]
            simp [hb, Stack.push, stk]
          · simp [hb] at hr
        · simp at hr
    · simp [ht] at hr

end
end Interp

namespace Interp
open Stack

theorem listFromItems_eq (ys : List Val) (hne : ys ≠ []) (body : Instr) (t : Ty) (st : List Val) :
    Impl.listFromItems ys = Spec.listOf true body t st ys := by
  cases ys with
  | nil => exact absurd rfl hne
  | cons y rest => simp [Impl.listFromItems, Spec.listOf]

theorem mapFromItems_eq (ys : List Val) (hne : ys ≠ []) (body : Instr) (k v : Ty) (st : List Val) :
    Impl.mapFromItems ys = Spec.mapOf true body k v st ys := by
  cases ys with
  | nil => exact absurd rfl hne
  | cons y rest => cases y <;> simp [Impl.mapFromItems, Spec.mapOf]

/-- MAP over an empty collection: under the guard the reference keeps the element type, like pytezos -/
theorem listOf_nil_guard (body : Instr) (t : Ty) (st : List Val) (r : Val)
    (h : Spec.listOf true body t st [] = .ok r) : r = .list t [] := by
  simp only [Spec.listOf] at h
  split at h
  · rename_i t' _
    by_cases ht : t' = t
    · subst ht; simp at h; exact h.symm
    · simp [ht] at h
  · simp at h

theorem mapOf_nil_guard (body : Instr) (k v : Ty) (st : List Val) (r : Val)
    (h : Spec.mapOf true body k v st [] = .ok r) : r = .map k v [] := by
  simp only [Spec.mapOf] at h
  split at h
  · rename_i v' _
    by_cases ht : v' = v
    · subst ht; simp at h; exact h.symm
    · simp [ht] at h
  · simp at h

/-- `listOf` / `mapOf` yield a value, are stuck (elements of different types) or — guard mode — are outside the guard -/
theorem listOf_outcome (g : Bool) (body : Instr) (t : Ty) (st ys : List Val) :
    (∃ r, Spec.listOf g body t st ys = .ok r) ∨ Spec.listOf g body t st ys = .stuck ∨
      Spec.listOf g body t st ys = .offguard := by
  unfold Spec.listOf
  split
  · split
    · split <;> simp
    · simp
  · split <;> simp

theorem mapOf_outcome (g : Bool) (body : Instr) (k v : Ty) (st ys : List Val) :
    (∃ r, Spec.mapOf g body k v st ys = .ok r) ∨ Spec.mapOf g body k v st ys = .stuck ∨
      Spec.mapOf g body k v st ys = .offguard := by
  unfold Spec.mapOf
  split
  · split
    · split <;> simp
    · simp
  · split <;> simp
  · simp

theorem evalMap_nil_items (env : Env) (f : Nat) (body : Instr) (isMap : Bool) (xs st : List Val) (st' : List Val)
    (h : Spec.evalMap true env f body isMap xs st = .ok ([], st')) : xs = [] := by
  cases xs with
  | nil => rfl
  | cons x xs =>
    exfalso
    cases f with
    | zero => simp [Spec.evalMap] at h
    | succ f =>
      simp only [Spec.evalMap] at h
      cases hq : Spec.eval true env f body (x :: st) with
      | stuck => simp [hq] at h
      | failed _ => simp [hq] at h
      | rtfail => simp [hq] at h
      | oof => simp [hq] at h
      | offguard => simp [hq] at h
      | ok r =>
        simp only [hq, rbind_ok] at h
        cases r with
        | nil => simp at h
        | cons y r' =>
          simp only at h
          have key : ∀ (item : Val), ((Spec.evalMap true env f body isMap xs r').bind
              fun (p : List Val × List Val) => Res.ok (item :: p.1, p.2)) ≠ .ok ([], st') := by
            intro item hc
            cases hm : Spec.evalMap true env f body isMap xs r' with
            | stuck => simp [hm] at hc
            | failed _ => simp [hm] at hc
            | rtfail => simp [hm] at hc
            | oof => simp [hm] at hc
            | offguard => simp [hm] at hc
            | ok p => simp [hm] at hc
          cases isMap with
          | false => simp only [rbind_ok] at h; exact key y h
          | true =>
            cases x <;> first | (simp at h; done) | skip
            rename_i k v
            simp only [rbind_ok] at h
            exact key _ h

section
variable (env : Env) (f : Nat) (hE : ExecOK env f) (hS : SeqOK env f) (hI : IterOK env f) (hM : MapOK env f)

include hI in
theorem exec_ITER (body : Instr) (pre st : List Val)
    (hr : Spec.eval true env (f + 1) (.ITER body) st ≠ .stuck)
    (hg : Spec.eval true env (f + 1) (.ITER body) st ≠ .offguard) :
    Impl.exec env (f + 1) (.ITER body) (stk pre st) = (Spec.eval true env (f + 1) (.ITER body) st).map' (stk pre) := by
  rcases st with _ | ⟨c, st⟩
  · (exfalso; apply hr; simp [Spec.eval, Spec.step])
  · cases c <;> first | (exfalso; apply hr; simp [Spec.eval, Spec.step]; done) | skip
    all_goals
      simp only [Impl.exec, Spec.eval, pop1_mk_cons, Res.bind_ok] at hr hg ⊢
      exact hI body _ pre st hr hg

include hM in
theorem exec_MAP (body : Instr) (pre st : List Val)
    (hr : Spec.eval true env (f + 1) (.MAP body) st ≠ .stuck)
    (hg : Spec.eval true env (f + 1) (.MAP body) st ≠ .offguard) :
    Impl.exec env (f + 1) (.MAP body) (stk pre st) = (Spec.eval true env (f + 1) (.MAP body) st).map' (stk pre) := by
  rcases st with _ | ⟨c, st⟩
  · (exfalso; apply hr; simp [Spec.eval, Spec.step])
  · cases c <;> first | (exfalso; apply hr; simp [Spec.eval, Spec.step]; done) | skip
    · -- list
      rename_i t xs
      simp only [Impl.exec, Spec.eval, pop1_mk_cons, Res.bind_ok] at hr hg ⊢
      have h1 := bind_ne_stuck hr
      have g1 := bind_ne_offguard hg
      rw [hM body false xs pre st h1 g1]
      cases hq : Spec.evalMap true env f body false xs st with
      | stuck => exact absurd hq h1
      | failed _ => simp
      | rtfail => simp
      | oof => simp
      | offguard => simp
      | ok p =>
        obtain ⟨ys, st'⟩ := p
        simp only [hq, rbind_ok] at hr hg
        simp only [map'_ok, Res.bind_ok, rbind_ok]
        have h2 := bind_ne_stuck hr
        have g2 := bind_ne_offguard hg
        cases ys with
        | nil =>
          have hx := evalMap_nil_items env f body false xs st st' hq
          subst hx
          rcases listOf_outcome true body t st [] with ⟨r, hl⟩ | hl | hl
          · have := listOf_nil_guard body t st r hl
            subst this
            simp [hl]
          · exact absurd hl h2
          · exact absurd hl g2
        | cons y ys =>
          rw [listFromItems_eq (y :: ys) (by simp) body t st]
          rcases listOf_outcome true body t st (y :: ys) with ⟨r, hl⟩ | hl | hl
          · simp [hl]
          · exact absurd hl h2
          · exact absurd hl g2
    · -- map
      rename_i k v xs
      simp only [Impl.exec, Spec.eval, pop1_mk_cons, Res.bind_ok] at hr hg ⊢
      have h1 := bind_ne_stuck hr
      have g1 := bind_ne_offguard hg
      rw [hM body true xs pre st h1 g1]
      cases hq : Spec.evalMap true env f body true xs st with
      | stuck => exact absurd hq h1
      | failed _ => simp
      | rtfail => simp
      | oof => simp
      | offguard => simp
      | ok p =>
        obtain ⟨ys, st'⟩ := p
        simp only [hq, rbind_ok] at hr hg
        simp only [map'_ok, Res.bind_ok, rbind_ok]
        have h2 := bind_ne_stuck hr
        have g2 := bind_ne_offguard hg
        cases ys with
        | nil =>
          have hx := evalMap_nil_items env f body true xs st st' hq
          subst hx
          rcases mapOf_outcome true body k v st [] with ⟨r, hl⟩ | hl | hl
          · have := mapOf_nil_guard body k v st r hl
            subst this
            simp [hl]
          · exact absurd hl h2
          · exact absurd hl g2
        | cons y ys =>
          rw [mapFromItems_eq (y :: ys) (by simp) body k v st]
          rcases mapOf_outcome true body k v st (y :: ys) with ⟨r, hl⟩ | hl | hl
          · simp [hl]
          · exact absurd hl h2
          · exact absurd hl g2

end
end Interp

namespace Interp
open Stack

/-- instructions with sub-programs (handled by `exec`/`eval` themselves) -/
def isControl : Instr → Bool
  | .seq _ | .DIP _ | .DIPN _ _ | .IF _ _ | .IF_NONE _ _ | .IF_LEFT _ _ | .IF_CONS _ _
  | .LOOP _ | .LOOP_LEFT _ | .ITER _ | .MAP _ | .EXEC => true
  | _ => false

theorem impl_exec_simple (env : Env) (f : Nat) (i : Instr) (h : isControl i = false) (s : Stack) :
    Impl.exec env (f + 1) i s = Impl.step env i s := by
  cases i <;> first | (simp [isControl] at h; done) | simp [Impl.exec]

theorem spec_eval_simple (g : Bool) (env : Env) (f : Nat) (i : Instr) (h : isControl i = false) (st : List Val) :
    Spec.eval g env (f + 1) i st = Spec.step env i st := by
  cases i <;> first | (simp [isControl] at h; done) | simp [Spec.eval]

theorem exec_succ (env : Env) (f : Nat) (hE : ExecOK env f) (hS : SeqOK env f) (hI : IterOK env f) (hM : MapOK env f) :
    ExecOK env (f + 1) := by
  intro i pre st hr hg
  cases i
  case seq is =>
    simp only [Impl.exec, Spec.eval] at hr hg ⊢
    exact hS is pre st hr hg
  case DIP body => exact exec_DIP env f hE body pre st hr hg
  case DIPN n body => exact exec_DIPN env f hE n body pre st hr hg
  case IF a b => exact exec_IF env f hE a b pre st hr hg
  case IF_NONE a b => exact exec_IF_NONE env f hE a b pre st hr hg
  case IF_LEFT a b => exact exec_IF_LEFT env f hE a b pre st hr hg
  case IF_CONS a b => exact exec_IF_CONS env f hE a b pre st hr hg
  case LOOP b => exact exec_LOOP env f hE b pre st hr hg
  case LOOP_LEFT b => exact exec_LOOP_LEFT env f hE b pre st hr hg
  case ITER b => exact exec_ITER env f hI b pre st hr hg
  case MAP b => exact exec_MAP env f hM b pre st hr hg
  case EXEC => exact exec_EXEC env f hE pre st hr hg
  all_goals
    rw [spec_eval_simple true env f _ rfl st] at hr hg ⊢
    rw [impl_exec_simple env f _ rfl]
    exact step_refines env _ pre st hr

theorem all_ok (env : Env) : ∀ f, ExecOK env f ∧ SeqOK env f ∧ IterOK env f ∧ MapOK env f
  | 0 => by
    refine ⟨?_, ?_, ?_, ?_⟩
    · intro i pre st _ _; simp [Impl.exec, Spec.eval]
    · intro is pre st _ _
      cases is <;> simp [Impl.execSeq, Spec.evalSeq]
    · intro body xs pre st _ _
      cases xs <;> simp [Impl.iterLoop, Spec.evalIter]
    · intro body isMap xs pre st _ _
      cases xs <;> simp [Impl.mapLoop, Spec.evalMap]
  | f + 1 =>
    have ⟨hE, hS, hI, hM⟩ := all_ok env f
    ⟨exec_succ env f hE hS hI hM, seq_succ env f hE hS, iter_succ env f hE hI, map_succ env f hE hM⟩

/-- **refinement**: for every program, fuel, environment, stack and protected prefix — whenever the reference
semantics (guard mode) is not stuck and stays inside the guard, the machine of pytezos computes its outcome: the same
stack under the same prefix, the same FAILWITH value, a runtime failure where the reference fails at run time, and it
runs out of the same fuel bound exactly when the reference does -/
theorem exec_refines_spec (env : Env) (fuel : Nat) (i : Instr) (pre st : List Val)
    (h : Spec.eval true env fuel i st ≠ .stuck) (hg : Spec.eval true env fuel i st ≠ .offguard) :
    Impl.exec env fuel i (stk pre st) = (Spec.eval true env fuel i st).map' (stk pre) :=
  (all_ok env fuel).1 i pre st h hg

end Interp
