import PytezosModel.Proofs.Base58
import PytezosModel.Proofs.C03Impl
/-! C03 — the text ↔ structure bridge.  pytezos compares key_hash / address / chain_id values as base58check TEXT
(`StringType.__lt__`, `AddressType.__lt__`); the model compares (kind tag, payload bytes).  Here: for two base58 texts of the
same length whose byte strings do not start with a zero byte, Python's string order of the texts is the lexicographic order
of the byte strings; and for byte strings `prefix ‖ payload ‖ checksum` with parts of equal lengths, that order is decided
by `prefix ‖ payload` whenever these differ (the checksum never decides). -/
namespace Order
open Base58

/-- equal-length big-endian digit strings: lexicographic order = numeric order -/
theorem lexCmp_eq_cmpNat_ofDigits (b : Nat) : ∀ (xs ys : List Nat), xs.length = ys.length →
    (∀ d ∈ xs, d < b) → (∀ d ∈ ys, d < b) → lexCmp xs ys = cmpNat (ofDigits b xs) (ofDigits b ys)
  | [], [], _, _, _ => by simp [lexCmp, cmpNat]
  | [], _ :: _, h, _, _ => by simp at h
  | _ :: _, [], h, _, _ => by simp at h
  | x :: xs, y :: ys, hl, hx, hy => by
    have hl' : xs.length = ys.length := by simpa using hl
    have ih := lexCmp_eq_cmpNat_ofDigits b xs ys hl' (fun d hd => hx d (by simp [hd])) (fun d hd => hy d (by simp [hd]))
    have tx : ofDigits b xs < b ^ xs.length := ofDigits_lt_pow b xs (fun d hd => hx d (by simp [hd]))
    have ty : ofDigits b ys < b ^ ys.length := ofDigits_lt_pow b ys (fun d hd => hy d (by simp [hd]))
    rw [hl'] at tx
    simp only [lexCmp, ofDigits_cons, ih, hl']
    generalize b ^ ys.length = B at *
    generalize ofDigits b xs = X at *
    generalize ofDigits b ys = Y at *
    by_cases h1 : x < y
    · have : x * B + X < y * B + Y := by
        have : (x + 1) * B ≤ y * B := Nat.mul_le_mul_right B h1
        rw [Nat.add_mul] at this; omega
      simp [cmpNat, h1, this, Ordering.then]
    · by_cases h2 : y < x
      · have : y * B + Y < x * B + X := by
          have : (y + 1) * B ≤ x * B := Nat.mul_le_mul_right B h2
          rw [Nat.add_mul] at this; omega
        have h3 : ¬ (x * B + X < y * B + Y) := by omega
        simp [cmpNat, h1, h2, this, h3, Ordering.then]
      · have : x = y := by omega
        subst this
        have e1 : cmpNat x x = .eq := by simp [cmpNat]
        rw [e1]
        simp only [Ordering.then]
        unfold cmpNat
        by_cases h4 : X < Y
        · have : x * B + X < x * B + Y := by omega
          simp [h4, this]
        · by_cases h5 : Y < X
          · have a : ¬ (x * B + X < x * B + Y) := by omega
            have c : x * B + Y < x * B + X := by omega
            simp [h4, h5, a, c]
          · have : X = Y := by omega
            subst this; simp

/-- the base-58 alphabet is strictly increasing in the code points -/
theorem digitChar_mono : ∀ d < 58, ∀ e < 58, cmpNat (digitChar d) (digitChar e) = cmpNat d e := by decide

theorem lexCmp_map_digitChar : ∀ (xs ys : List Nat), (∀ d ∈ xs, d < 58) → (∀ d ∈ ys, d < 58) →
    lexCmp (xs.map digitChar) (ys.map digitChar) = lexCmp xs ys
  | [], [], _, _ => rfl
  | [], _ :: _, _, _ => rfl
  | _ :: _, [], _, _ => rfl
  | x :: xs, y :: ys, hx, hy => by
    simp only [List.map_cons, lexCmp]
    rw [digitChar_mono x (hx x (by simp)) y (hy y (by simp)),
      lexCmp_map_digitChar xs ys (fun d hd => hx d (by simp [hd])) (fun d hd => hy d (by simp [hd]))]

theorem dropLeading_of_head_ne (z : Nat) : ∀ (bs : List Nat), bs.head? ≠ some z → dropLeading z bs = bs ∧ leading z bs = 0
  | [], _ => ⟨rfl, rfl⟩
  | a :: as, h => by
    have : a ≠ z := by simpa using h
    simp [dropLeading, leading, this]

/-- Python `str` order of two base58 texts of the same length = lexicographic order of the encoded byte strings
(no leading zero byte: every Tezos binary prefix starts with a non-zero byte) -/
theorem b58enc_order (bs bs' : List Nat) (hb : ∀ x ∈ bs, x < 256) (hb' : ∀ x ∈ bs', x < 256)
    (h0 : bs.head? ≠ some 0) (h0' : bs'.head? ≠ some 0) (hbl : bs.length = bs'.length)
    (htl : (b58enc bs).length = (b58enc bs').length) :
    lexCmp (b58enc bs) (b58enc bs') = lexCmp bs bs' := by
  have d1 := dropLeading_of_head_ne 0 bs h0
  have d2 := dropLeading_of_head_ne 0 bs' h0'
  unfold b58enc at htl ⊢
  rw [d1.1, d1.2, d2.1, d2.2] at htl ⊢
  simp only [List.replicate_zero, List.nil_append, List.length_map] at htl ⊢
  have l1 := toDigits_lt 58 (ofDigits 256 bs) (by omega)
  have l2 := toDigits_lt 58 (ofDigits 256 bs') (by omega)
  rw [lexCmp_map_digitChar _ _ l1 l2, lexCmp_eq_cmpNat_ofDigits 58 _ _ htl l1 l2,
    ofDigits_toDigits _ _ (by omega), ofDigits_toDigits _ _ (by omega),
    ← lexCmp_eq_cmpNat_ofDigits 256 bs bs' hbl hb hb']

/-- a differing equal-length prefix decides the lexicographic order -/
theorem lexCmp_append_of_ne : ∀ (a a' c c' : List Nat), a.length = a'.length → a ≠ a' →
    lexCmp (a ++ c) (a' ++ c') = lexCmp a a'
  | [], [], _, _, _, h => absurd rfl h
  | [], _ :: _, _, _, h, _ => by simp at h
  | _ :: _, [], _, _, h, _ => by simp at h
  | x :: xs, y :: ys, c, c', hl, hne => by
    simp only [List.cons_append, lexCmp]
    by_cases hxy : x = y
    · subst hxy
      have : xs ≠ ys := fun h => hne (by rw [h])
      rw [lexCmp_append_of_ne xs ys c c' (by simpa using hl) this]
    · have : cmpNat x y ≠ .eq := fun h => hxy (cmpNat_eq_eq.1 h)
      cases hc : cmpNat x y <;> simp_all [Ordering.then]

/-- **bridge**: for two base58check texts `b58enc (prefix ‖ payload ‖ checksum)` of the same length (binary prefixes of
equal length starting with a non-zero byte, payloads of equal length, 4-byte checksums), Python's string order of the
texts is the lexicographic order of `prefix ‖ payload` whenever these differ. -/
theorem b58_text_order (pfx pfx' p p' ck ck' : List Nat)
    (hb : ∀ x ∈ pfx ++ p ++ ck, x < 256) (hb' : ∀ x ∈ pfx' ++ p' ++ ck', x < 256)
    (h0 : pfx.head? ≠ some 0) (h0' : pfx'.head? ≠ some 0) (hne0 : pfx ≠ []) (hne0' : pfx' ≠ [])
    (hpl : pfx.length = pfx'.length) (hl : p.length = p'.length) (hcl : ck.length = ck'.length)
    (htl : (b58enc (pfx ++ p ++ ck)).length = (b58enc (pfx' ++ p' ++ ck')).length)
    (hne : pfx ++ p ≠ pfx' ++ p') :
    lexCmp (b58enc (pfx ++ p ++ ck)) (b58enc (pfx' ++ p' ++ ck')) = lexCmp (pfx ++ p) (pfx' ++ p') := by
  have hh : (pfx ++ p ++ ck).head? ≠ some 0 := by
    cases pfx with
    | nil => exact absurd rfl hne0
    | cons a as => simpa using h0
  have hh' : (pfx' ++ p' ++ ck').head? ≠ some 0 := by
    cases pfx' with
    | nil => exact absurd rfl hne0'
    | cons a as => simpa using h0'
  rw [b58enc_order _ _ hb hb' hh hh' (by simp [hpl, hl, hcl]) htl]
  exact lexCmp_append_of_ne _ _ _ _ (by simp [hpl, hl]) hne

/-- same kind (same binary prefix): the payload bytes decide -/
theorem lexCmp_append_same : ∀ (a c c' : List Nat), lexCmp (a ++ c) (a ++ c') = lexCmp c c'
  | [], _, _ => rfl
  | x :: xs, c, c' => by
    simp only [List.cons_append, lexCmp]
    have : cmpNat x x = .eq := by simp [cmpNat]
    rw [this, lexCmp_append_same xs c c']; rfl

theorem b58_text_order_same_kind (pfx p p' ck ck' : List Nat)
    (hb : ∀ x ∈ pfx ++ p ++ ck, x < 256) (hb' : ∀ x ∈ pfx ++ p' ++ ck', x < 256)
    (h0 : pfx.head? ≠ some 0) (hne0 : pfx ≠ []) (hl : p.length = p'.length) (hcl : ck.length = ck'.length)
    (htl : (b58enc (pfx ++ p ++ ck)).length = (b58enc (pfx ++ p' ++ ck')).length) (hne : p ≠ p') :
    lexCmp (b58enc (pfx ++ p ++ ck)) (b58enc (pfx ++ p' ++ ck')) = lexCmp p p' := by
  rw [b58_text_order pfx pfx p p' ck ck' hb hb' h0 h0 hne0 hne0 rfl hl hcl htl (fun h => hne (List.append_cancel_left h)),
    lexCmp_append_same]

/-! ### the model's `textLt` / `textEq` ARE Python's `<` / `==` on the base58check texts -/

/-- binary base58check prefix of an address kind (tz1 tz2 tz3 tz4 KT1 sr1) -/
def binPrefix : Nat → List Nat
  | 0 => [6, 161, 159] | 1 => [6, 161, 161] | 2 => [6, 161, 164] | 3 => [6, 161, 166] | 4 => [2, 90, 121] | _ => [6, 124, 117]

open Impl.Order in
theorem prefix_orders_agree : ∀ k₁ < 6, ∀ k₂ < 6, k₁ ≠ k₂ →
    lexLt (pfx k₁) (pfx k₂) = (lexCmp (binPrefix k₁) (binPrefix k₂)).isLT ∧ binPrefix k₁ ≠ binPrefix k₂ := by decide

theorem binPrefix_facts : ∀ k < 6, (binPrefix k).length = 3 ∧ (binPrefix k).head? ≠ some 0 ∧ binPrefix k ≠ [] ∧
    ∀ x ∈ binPrefix k, x < 256 := by decide

open Impl.Order in
/-- for address / key_hash texts (kind `k`, payload `p`, checksum `ck`): the structured comparison used by the model
equals the string comparison pytezos performs on the base58check texts.  `htl` (both texts have the same number of
characters) holds for these kinds by the C09 table obligations (all are 36 characters). -/
theorem textLt_is_string_lt (k₁ k₂ : Nat) (p₁ p₂ ck₁ ck₂ : List Nat) (h₁ : k₁ < 6) (h₂ : k₂ < 6)
    (hp₁ : ∀ x ∈ p₁, x < 256) (hp₂ : ∀ x ∈ p₂, x < 256) (hc₁ : ∀ x ∈ ck₁, x < 256) (hc₂ : ∀ x ∈ ck₂, x < 256)
    (hl : p₁.length = p₂.length) (hcl : ck₁.length = ck₂.length)
    (hck : k₁ = k₂ → p₁ = p₂ → ck₁ = ck₂)
    (htl : (b58enc (binPrefix k₁ ++ p₁ ++ ck₁)).length = (b58enc (binPrefix k₂ ++ p₂ ++ ck₂)).length) :
    textLt (pfx k₁) p₁ (pfx k₂) p₂ = (lexCmp (b58enc (binPrefix k₁ ++ p₁ ++ ck₁)) (b58enc (binPrefix k₂ ++ p₂ ++ ck₂))).isLT
    ∧ textEq (pfx k₁) p₁ (pfx k₂) p₂ = (lexCmp (b58enc (binPrefix k₁ ++ p₁ ++ ck₁)) (b58enc (binPrefix k₂ ++ p₂ ++ ck₂)) == .eq) := by
  have f₁ := binPrefix_facts k₁ h₁
  have f₂ := binPrefix_facts k₂ h₂
  have hb₁ : ∀ x ∈ binPrefix k₁ ++ p₁ ++ ck₁, x < 256 := by
    intro x hx
    rcases List.mem_append.1 hx with hx | hx
    · rcases List.mem_append.1 hx with hx | hx
      · exact f₁.2.2.2 x hx
      · exact hp₁ x hx
    · exact hc₁ x hx
  have hb₂ : ∀ x ∈ binPrefix k₂ ++ p₂ ++ ck₂, x < 256 := by
    intro x hx
    rcases List.mem_append.1 hx with hx | hx
    · rcases List.mem_append.1 hx with hx | hx
      · exact f₂.2.2.2 x hx
      · exact hp₂ x hx
    · exact hc₂ x hx
  have hpf := (pfx_facts k₁ h₁ k₂ h₂).1
  unfold textLt textEq
  rw [hpf]
  by_cases hk : k₁ = k₂
  · subst hk
    by_cases hp : p₁ = p₂
    · subst hp
      have := hck rfl rfl
      subst this
      simp [lexCmp_refl, lexLt_irrefl]
    · rw [b58_text_order_same_kind _ _ _ _ _ hb₁ hb₂ f₁.2.1 f₁.2.2.1 hl hcl htl hp]
      have : lexCmp p₁ p₂ ≠ .eq := fun h => hp (lexCmp_eq_eq.1 h)
      simp only [beq_self_eq_true, if_true, Bool.true_and, lexLt_eq, beq_eq_lexCmp]
      exact ⟨trivial, trivial⟩
  · have hne : binPrefix k₁ ++ p₁ ≠ binPrefix k₂ ++ p₂ := by
      intro h
      have := List.append_inj_left h (by rw [f₁.1, f₂.1])
      exact (prefix_orders_agree k₁ h₁ k₂ h₂ hk).2 this
    rw [b58_text_order _ _ _ _ _ _ hb₁ hb₂ f₁.2.1 f₂.2.1 f₁.2.2.1 f₂.2.2.1 (by rw [f₁.1, f₂.1]) hl hcl htl hne,
      lexCmp_append_of_ne _ _ _ _ (by rw [f₁.1, f₂.1]) (prefix_orders_agree k₁ h₁ k₂ h₂ hk).2]
    have hkb : (k₁ == k₂) = false := beq_eq_false_iff_ne.2 hk
    have : lexCmp (binPrefix k₁) (binPrefix k₂) ≠ .eq :=
      fun h => (prefix_orders_agree k₁ h₁ k₂ h₂ hk).2 (lexCmp_eq_eq.1 h)
    rw [hkb]
    simp only [Bool.false_eq_true, if_false, Bool.false_and]
    refine ⟨(prefix_orders_agree k₁ h₁ k₂ h₂ hk).1, ?_⟩
    exact (beq_eq_false_iff_ne.2 this).symm

end Order
