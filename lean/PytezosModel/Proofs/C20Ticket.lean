import PytezosModel.Proofs.C20Simple
/-! C20: the ticket instructions and the map instructions are `Good` steps -/
namespace Impl.Tickets

theorem split_some {c : Cfg} {cls : Ty} {tk : String} {ct : Cmp} {A a b : Nat} {l r : Val}
    (h : split c cls tk ct A a b = some (l, r)) :
    a + b = A ∧ (c.splitRejectsZero = true → 0 < a ∧ 0 < b)
      ∧ l = .ticket (if c.splitKeeps then cls else .ticketBare) tk ct a
      ∧ r = .ticket (if c.splitKeeps then cls else .ticketBare) tk ct b := by
  unfold split at h
  split at h
  · cases h
  · rename_i hcond
    simp only [Option.some.injEq, Prod.mk.injEq] at h
    simp only [Bool.or_eq_true, bne_iff_ne, ne_eq, Bool.and_eq_true, beq_iff_eq, not_or, Decidable.not_not, not_and] at hcond
    refine ⟨hcond.1, fun hz => ?_, h.1.symm, h.2.symm⟩
    have := hcond.2 hz
    omega

theorem join_some {c : Cfg} {cls : Ty} {tk1 tk2 : String} {c1 c2 : Cmp} {a1 a2 : Nat} {r : Val}
    (h : join c cls tk1 c1 a1 tk2 c2 a2 = some r) :
    tk1 = tk2 ∧ c1 = c2 ∧ r = .ticket (if c.joinKeeps then cls else .ticketBare) tk1 c1 (a1 + a2) := by
  unfold join at h
  split at h
  · cases h
  · rename_i hcond
    simp only [Option.some.injEq] at h
    simp only [Bool.or_eq_true, bne_iff_ne, ne_eq, not_or, Decidable.not_not] at hcond
    exact ⟨hcond.1, hcond.2, h.symm⟩

theorem ticket_class_consistent {cls : Ty} {ct : Cmp} (b : Bool)
    (h : (cls == Ty.ticketBare || cls == Ty.ticket ct.ty) = true) :
    ((if b then cls else Ty.ticketBare) == Ty.ticketBare || (if b then cls else Ty.ticketBare) == Ty.ticket ct.ty) = true := by
  cases b <;> simp_all

theorem good_ticket {c : Cfg} {s s' : State} (h : simple c s .ticket = some (.ok s')) : Good s s' := by
  simp only [simple, Option.some.injEq] at h
  cases hp : s.pop2 with
  | error e => simp [hp, bind, Except.bind] at h
  | ok x =>
    obtain ⟨item, amount, s1⟩ := x
    simp only [hp, bind, Except.bind] at h
    match amount, h with
    | .atom (.nat n), h =>
      simp only at h
      split at h
      · cases h
      · cases hc : item.toCmp with
        | none => simp [hc] at h
        | some ct =>
          simp only [hc] at h
          have hty := toCmp_ty item ct hc
          split at h
          · rename_i hn
            simp only [pure, Except.pure, Except.ok.injEq] at h
            subst h
            refine Good.popPush [item, .atom (.nat n)] [.some (.ticket (.ticket item.typeOf) s1.self ct n)]
              [(s1.self, ct, n)] true (pop2_spec hp) (push_perm _ _) rfl (by simp [push_typed]) rfl ?_
            intro _ hcc
            refine ⟨?_, fun k => ?_, fun _ => ?_⟩
            · exact LC_cons.mpr ⟨by simp [Val.consistent, hty], LC_nil⟩
            · simp only [LS_cons, LS_nil, ticketSum, mintedSum]; omega
            · exact LN_cons.mpr ⟨by simp [noZero]; omega, LN_nil⟩
          · simp only [pure, Except.pure, Except.ok.injEq] at h
            subst h
            refine Good.popPush [item, .atom (.nat n)] [.none (.ticket item.typeOf)] [] true (pop2_spec hp) (push_perm _ _)
              rfl (by simp [push_typed]) rfl ?_
            intro _ _
            exact ⟨LC_cons.mpr ⟨by simp [Val.consistent], LC_nil⟩, fun k => by simp [LS_cons, LS_nil, ticketSum],
              fun _ => LN_cons.mpr ⟨by simp [noZero], LN_nil⟩⟩

theorem good_readTicket {c : Cfg} {s s' : State} (h : simple c s .readTicket = some (.ok s')) : Good s s' := by
  simp only [simple, Option.some.injEq] at h
  cases hp : s.pop1 with
  | error e => simp [hp, bind, Except.bind] at h
  | ok x =>
    obtain ⟨t, s1⟩ := x
    simp only [hp, bind, Except.bind] at h
    cases t <;> simp only [pure, Except.pure, Except.ok.injEq, reduceCtorEq] at h
    rename_i cls tk ct a
    subst h
    refine Good.popPush [.ticket cls tk ct a]
      [.pair (.atom (.addr tk)) (.pair ct.toVal (.atom (.nat a))), .ticket cls tk ct a] [] true (pop1_spec hp)
      (push2_perm _ _ _) rfl (by simp [push_typed]) rfl ?_
    intro _ hc
    have hc1 := (LC_cons.mp hc).1
    refine ⟨LC_cons.mpr ⟨?_, LC_cons.mpr ⟨hc1, LC_nil⟩⟩, fun k => ?_, fun hz => LN_cons.mpr ⟨?_, LN_cons.mpr ⟨(LN_cons.mp hz).1, LN_nil⟩⟩⟩
    · simp [Val.consistent, cmp_toVal_consistent]
    · simp only [LS_cons, LS_nil, ticketSum, cmp_toVal_sum, mintedSum]; omega
    · simp [noZero, cmp_toVal_noZero]

theorem good_splitTicket {c : Cfg} (ok : CfgOk c) {s s' : State} (h : simple c s .splitTicket = some (.ok s')) : Good s s' := by
  simp only [simple, Option.some.injEq] at h
  cases hp : s.pop2 with
  | error e => simp [hp, bind, Except.bind] at h
  | ok x =>
    obtain ⟨t, amounts, s1⟩ := x
    simp only [hp, bind, Except.bind] at h
    match t, amounts, h with
    | .ticket cls tk ct A, .pair (.atom (.nat a)) (.atom (.nat b)), h =>
      simp only at h
      cases hs : split c cls tk ct A a b with
      | none =>
        simp only [hs, pure, Except.pure, Except.ok.injEq] at h
        subst h
        refine Good.popPush [.ticket cls tk ct A, .pair (.atom (.nat a)) (.atom (.nat b))] [.none (.pair cls cls)] [] true
          (pop2_spec hp) (push_perm _ _) rfl (by simp [push_typed]) rfl ?_
        intro _ _
        exact ⟨LC_cons.mpr ⟨by simp [Val.consistent], LC_nil⟩, fun k => by simp [LS_cons, LS_nil, ticketSum],
          fun _ => LN_cons.mpr ⟨by simp [noZero], LN_nil⟩⟩
      | some lr =>
        obtain ⟨l, r⟩ := lr
        simp only [hs, pure, Except.pure, Except.ok.injEq] at h
        subst h
        obtain ⟨hab, hz, rfl, rfl⟩ := split_some hs
        refine Good.popPush [.ticket cls tk ct A, .pair (.atom (.nat a)) (.atom (.nat b))] [.some (.pair _ _)] [] true
          (pop2_spec hp) (push_perm _ _) rfl (by simp [push_typed]) rfl ?_
        intro _ hc
        simp only [LC_cons, Val.consistent, Bool.and_eq_true] at hc
        refine ⟨?_, fun k => ?_, fun _ => ?_⟩
        · refine LC_cons.mpr ⟨?_, LC_nil⟩
          simp only [Val.consistent, Bool.and_eq_true]
          exact ⟨ticket_class_consistent _ hc.1, ticket_class_consistent _ hc.1⟩
        · simp only [LS_cons, LS_nil, ticketSum, mintedSum]
          split <;> omega
        · have := hz ok.split_zero
          refine LN_cons.mpr ⟨?_, LN_nil⟩
          simp [noZero]; omega

theorem good_joinTickets {c : Cfg} {s s' : State} (h : simple c s .joinTickets = some (.ok s')) : Good s s' := by
  simp only [simple, Option.some.injEq] at h
  cases hp : s.pop1 with
  | error e => simp [hp, bind, Except.bind] at h
  | ok x =>
    obtain ⟨p, s1⟩ := x
    simp only [hp, bind, Except.bind] at h
    match p, h with
    | .pair (.ticket cls1 tk1 c1 a1) (.ticket cls2 tk2 c2 a2), h =>
      simp only at h
      split at h
      · cases h
      · cases hj : join c cls1 tk1 c1 a1 tk2 c2 a2 with
        | none =>
          simp only [hj, pure, Except.pure, Except.ok.injEq] at h
          subst h
          refine Good.popPush [.pair (.ticket cls1 tk1 c1 a1) (.ticket cls2 tk2 c2 a2)] [.none cls1] [] true
            (pop1_spec hp) (push_perm _ _) rfl (by simp [push_typed]) rfl ?_
          intro _ _
          exact ⟨LC_cons.mpr ⟨by simp [Val.consistent], LC_nil⟩, fun k => by simp [LS_cons, LS_nil, ticketSum],
            fun _ => LN_cons.mpr ⟨by simp [noZero], LN_nil⟩⟩
        | some r =>
          simp only [hj] at h
          split at h
          · cases h
          · simp only [pure, Except.pure, Except.ok.injEq] at h
            subst h
            obtain ⟨rfl, rfl, rfl⟩ := join_some hj
            refine Good.popPush [.pair (.ticket cls1 tk1 c1 a1) (.ticket cls2 tk1 c1 a2)] [.some _] [] true
              (pop1_spec hp) (push_perm _ _) rfl (by simp [push_typed]) rfl ?_
            intro _ hc
            simp only [LC_cons, Val.consistent, Bool.and_eq_true] at hc
            refine ⟨?_, fun k => ?_, fun hz => ?_⟩
            · refine LC_cons.mpr ⟨?_, LC_nil⟩
              simp only [Val.consistent]
              exact ticket_class_consistent _ hc.1.1
            · simp only [LS_cons, LS_nil, ticketSum, mintedSum]
              split <;> omega
            · simp only [LN_cons, noZero, Bool.and_eq_true, bne_iff_ne, ne_eq] at hz
              refine LN_cons.mpr ⟨?_, LN_nil⟩
              simp [noZero]; omega

/-! ### maps -/

def optSum (k : TKey) : Option Val → Nat
  | some v => ticketSum k v
  | none => 0

theorem mapGet_some {c : Cfg} {big : Bool} {kt vt : Ty} {keys : List Atom} {vals : List Val} {removed : List Atom}
    {key : Val} {dup : Bool} {v : Val} (h : mapGet c big kt vt keys vals removed key dup = .ok (some v)) :
    ∃ k, key = .atom k ∧ lookup k keys vals = some v := by
  unfold mapGet at h
  split at h
  · cases h
  · split at h
    · cases h
    · match key, h with
      | .atom k, h =>
        simp only at h
        cases hl : lookup k keys vals with
        | none => simp [hl] at h
        | some w => simp [hl] at h; exact ⟨k, rfl, by rw [hl, h]⟩

theorem mapGet_none {c : Cfg} {big : Bool} {kt vt : Ty} {keys : List Atom} {vals : List Val} {removed : List Atom}
    {key : Val} {dup : Bool} (h : mapGet c big kt vt keys vals removed key dup = .ok none) :
    ∃ k, key = .atom k ∧ lookup k keys vals = none := by
  unfold mapGet at h
  split at h
  · cases h
  · split at h
    · cases h
    · match key, h with
      | .atom k, h =>
        simp only at h
        cases hl : lookup k keys vals with
        | none => exact ⟨k, rfl, hl⟩
        | some w => simp [hl] at h

/-- map well-formedness as `Val.consistent` states it -/
structure MapWF (vt : Ty) (keys : List Atom) (vals : List Val) : Prop where
  len : keys.length = vals.length
  nodup : keys.Nodup
  tys : ∀ v ∈ vals, v.typeOf = vt
  cons : LC vals

theorem mapWF_of_consistent {big : Bool} {kt vt : Ty} {keys : List Atom} {vals : List Val} {removed : List Atom}
    (h : (Val.map big kt vt keys vals removed).consistent = true) : MapWF vt keys vals := by
  simp only [Val.consistent, Bool.and_eq_true, beq_iff_eq] at h
  obtain ⟨⟨h1, h2⟩, h3⟩ := h
  have := (consistentList_iff vt vals).mp h3
  exact ⟨h1, (nodupB_iff keys).mp h2, this.1, this.2⟩

theorem consistent_of_mapWF {big : Bool} {kt vt : Ty} {keys : List Atom} {vals : List Val} {removed : List Atom}
    (h : MapWF vt keys vals) : (Val.map big kt vt keys vals removed).consistent = true := by
  simp only [Val.consistent, Bool.and_eq_true, beq_iff_eq]
  exact ⟨⟨h.len, (nodupB_iff keys).mpr h.nodup⟩, (consistentList_iff vt vals).mpr ⟨h.tys, h.cons⟩⟩

/-- `update`: the previous value and the new map together hold what the old map and the stored value held -/
theorem mapUpdate_spec {c : Cfg} {big : Bool} {kt vt : Ty} {keys : List Atom} {vals : List Val} {removed : List Atom}
    {key : Val} {ov prev : Option Val} {dst : Val}
    (h : mapUpdate c big kt vt keys vals removed key ov = .ok (prev, dst)) (wf : MapWF vt keys vals)
    (hov : ∀ x, ov = some x → x.consistent = true ∧ x.typeOf = vt) :
    dst.consistent = true ∧ (∀ p, prev = some p → p.consistent = true)
      ∧ (∀ k, optSum k prev + ticketSum k dst ≤ LS k vals + optSum k ov)
      ∧ (LN vals → (∀ x, ov = some x → noZero x = true) → noZero dst = true ∧ ∀ p, prev = some p → noZero p = true) := by
  unfold mapUpdate at h
  cases hg : mapGet c big kt vt keys vals removed key false with
  | error e => simp [hg, bind, Except.bind] at h
  | ok pv =>
    simp only [hg, bind, Except.bind] at h
    cases pv with
    | some p =>
      obtain ⟨k, rfl, hl⟩ := mapGet_some hg
      have hpm := lookup_mem hl
      simp only at h
      cases ov with
      | some x =>
        simp only at h
        · simp only [pure, Except.pure, Except.ok.injEq, Prod.mk.injEq] at h
          obtain ⟨rfl, rfl⟩ := h
          obtain ⟨hx1, hx2⟩ := hov x rfl
          have spec := fun k' => replaceVal_spec k' k x keys vals p wf.len wf.nodup hl
          obtain ⟨_, r2, r3⟩ := spec ("", .atom .unit)
          have wf' : MapWF vt keys (replaceVal k x keys vals) := by
            refine ⟨by rw [r2]; exact wf.len, wf.nodup, fun v hv => ?_, fun v hv => ?_⟩
            · rcases r3 v hv with rfl | h
              · exact hx2
              · exact wf.tys v h
            · rcases r3 v hv with rfl | h
              · exact hx1
              · exact wf.cons v h
          refine ⟨consistent_of_mapWF wf', fun q hq => ?_, fun k' => ?_, fun hz hzx => ⟨?_, fun q hq => ?_⟩⟩
          · simp only [Option.some.injEq] at hq; subst hq; exact wf.cons _ hpm
          · have := (spec k').1
            simp only [optSum, ticketSum, LS] at this ⊢; omega
          · simp only [noZero]
            rw [noZeroList_iff]
            intro v hv
            rcases r3 v hv with rfl | h
            · exact hzx _ rfl
            · exact hz v h
          · simp only [Option.some.injEq] at hq; subst hq; exact hz _ hpm
      | none =>
        simp only at h
        · simp only [pure, Except.pure, Except.ok.injEq, Prod.mk.injEq] at h
          obtain ⟨rfl, rfl⟩ := h
          have spec := fun k' => removeKey_spec k' k keys vals wf.len wf.nodup
          obtain ⟨r1, r2, _, r4, _, _⟩ := spec ("", .atom .unit)
          have wf' : MapWF vt (removeKey k keys vals).1 (removeKey k keys vals).2 :=
            ⟨r1, r2, fun v hv => wf.tys v (r4 v hv), fun v hv => wf.cons v (r4 v hv)⟩
          refine ⟨consistent_of_mapWF wf', fun q hq => ?_, fun k' => ?_, fun hz _ => ⟨?_, fun q hq => ?_⟩⟩
          · simp only [Option.some.injEq] at hq; subst hq; exact wf.cons _ hpm
          · have := (spec k').2.2.2.2.1 p hl
            simp only [optSum, ticketSum, LS] at this ⊢; omega
          · simp only [noZero]
            rw [noZeroList_iff]
            intro v hv; exact hz v (r4 v hv)
          · simp only [Option.some.injEq] at hq; subst hq; exact hz _ hpm
    | none =>
      obtain ⟨k, rfl, hl⟩ := mapGet_none hg
      simp only at h
      cases ov with
      | some x =>
        simp only [pure, Except.pure, Except.ok.injEq, Prod.mk.injEq] at h
        obtain ⟨rfl, rfl⟩ := h
        obtain ⟨hx1, hx2⟩ := hov x rfl
        have hnm := lookup_none_not_mem wf.len hl
        have spec := fun k' => insertSorted_spec k' k x keys vals wf.len wf.nodup hnm
        obtain ⟨r1, r2, r3, _, _⟩ := spec ("", .atom .unit)
        have wf' : MapWF vt (insertSorted k x keys vals).1 (insertSorted k x keys vals).2 := by
          refine ⟨r1, r2, fun v hv => ?_, fun v hv => ?_⟩
          · rcases r3 v hv with rfl | h
            · exact hx2
            · exact wf.tys v h
          · rcases r3 v hv with rfl | h
            · exact hx1
            · exact wf.cons v h
        refine ⟨consistent_of_mapWF wf', (fun q hq => by cases hq), fun k' => ?_, fun hz hzx => ⟨?_, (fun q hq => by cases hq)⟩⟩
        · have := (spec k').2.2.2.1
          simp only [optSum, ticketSum, LS] at this ⊢; omega
        · simp only [noZero]
          rw [noZeroList_iff]
          intro v hv
          rcases r3 v hv with rfl | h
          · exact hzx _ rfl
          · exact hz v h
      | none =>
        simp only [pure, Except.pure, Except.ok.injEq, Prod.mk.injEq] at h
        obtain ⟨rfl, rfl⟩ := h
        refine ⟨consistent_of_mapWF wf, (fun q hq => by cases hq), fun k' => ?_, fun hz _ => ⟨?_, (fun q hq => by cases hq)⟩⟩
        · simp only [optSum, ticketSum, LS]; omega
        · simp only [noZero]; rw [noZeroList_iff]; exact hz

end Impl.Tickets
