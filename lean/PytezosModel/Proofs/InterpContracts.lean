import PytezosModel.Proofs.InterpBytes
import PytezosModel.Proofs.InterpPack
import PytezosModel.Proofs.InterpUnpack
/-! Phase C — contracts and operations: Python's text operations on address texts (`partition('%')`, `_split`,
`from_value`) against the reference's reading of an address text (`addrOf`, `epOf`, `Spec.normAddr`), and the mirrors
of ADDRESS / IMPLICIT_ACCOUNT / CONTRACT / SET_DELEGATE / EMIT / TRANSFER_TOKENS against their rules. -/
namespace Interp

theorem pySplit_fst (s : List Nat) : (Impl.pySplit s).1 = addrOf s := rfl

theorem pySplit_snd (s : List Nat) : (Impl.pySplit s).2 = epOf s := by
  unfold Impl.pySplit Impl.pyPartition epOf
  cases h : s.dropWhile (· != 37) with
  | nil => simp
  | cons x e => simp

theorem addrFromValue_eq (s : List Nat) : Impl.addrFromValue s = Spec.normAddr s := rfl

theorem isPkh_eq (a : List Nat) : Impl.isPkh a = isImplicit a := rfl

theorem execAddress_eq (a : Val) (h : Spec.addressV a ≠ .stuck) : Impl.execAddress a = Spec.addressV a := by
  cases a <;> first | (exact absurd rfl h) | rfl

theorem execImplicitAccount_eq (a : Val) (h : Spec.implicitAccountV a ≠ .stuck) :
    Impl.execImplicitAccount a = Spec.implicitAccountV a := by
  unfold Spec.implicitAccountV at h ⊢
  split at h
  · rfl
  · exact absurd rfl h

theorem execContract_eq (t : Ty) (ep : List Nat) (a : Val) (h : Spec.contractV t ep a ≠ .stuck) :
    Impl.execContract t ep a = Spec.contractV t ep a := by
  unfold Spec.contractV at h ⊢
  split at h
  · rename_i s
    simp only [Impl.execContract, pySplit_fst, pySplit_snd, addrFromValue_eq, isPkh_eq, Spec.resolveEp]
    by_cases h1 : epOf s = defaultEp
    · by_cases h2 : ep = defaultEp
      · by_cases h3 : isImplicit (addrOf s) = true <;> by_cases h4 : t = Ty.unit <;> simp [h1, h2, h3, h4]
      · by_cases h3 : isImplicit (addrOf s) = true <;> simp [h1, h2, h3]
    · by_cases h2 : ep = defaultEp
      · by_cases h3 : isImplicit (addrOf s) = true <;> simp [h1, h2, h3]
      · simp [h1, h2]
  · exact absurd rfl h

theorem execSetDelegate_eq (env : Env) (a : Val) (h : Spec.setDelegateV env a ≠ .stuck) :
    Impl.execSetDelegate env a = Spec.setDelegateV env a := by
  unfold Spec.setDelegateV at h ⊢
  split at h
  · rfl
  · rfl
  · exact absurd rfl h

theorem execEmit_eq (env : Env) (tag : List Nat) (t : Ty) (a : Val) : Impl.execEmit env tag t a = Spec.emitV env tag t a := rfl

theorem execTransferTokens_eq (env : Env) (a b c : Val) (h : Spec.transferTokensV env a b c ≠ .stuck) :
    Impl.execTransferTokens env a b c = Spec.transferTokensV env a b c := by
  unfold Spec.transferTokensV at h ⊢
  split at h
  · simp only [Impl.execTransferTokens, pySplit_fst, pySplit_snd]
  · exact absurd rfl h

theorem execCheckSignature_eq (env : Env) (a b c : Val) (_ : Spec.checkSignatureV env a b c ≠ .stuck) :
    Impl.execCheckSignature env a b c = Spec.checkSignatureV env a b c := by
  unfold Impl.execCheckSignature Spec.checkSignatureV
  split
  · rfl
  · rename_i h1
    split
    · exact (h1 _ _ _ rfl rfl rfl).elim
    · rfl

/-- **the unary instructions of extension 2**: the mirror computes the reference value wherever a rule applies -/
theorem execUn_eq (env : Env) (i : Instr) (a : Val) (h : Spec.unV env i a ≠ .stuck) :
    Impl.execUn env i a = Spec.unV env i a := by
  cases i <;> first | (exact absurd rfl h) | skip
  · exact execNat_eq a h
  · exact execBytes_eq a h
  · exact execVotingPower_eq env a h
  · exact execHashKey_eq env a h
  · exact execAddress_eq a h
  · exact execImplicitAccount_eq a h
  · exact execContract_eq _ _ a h
  · exact execSetDelegate_eq env a h
  · exact execEmit_eq env _ _ a
  · exact execPack_eq a h
  · exact execUnpack_eq env _ a h

end Interp
