import PytezosModel.Michelson.PyObj
/-! helper lemmas for C12 (Python-object conversion) -/
namespace Impl.PyConv

/-! ### dict lemmas -/
section dict
variable {κ α : Type} [DecidableEq κ]

theorem dget_mem {xs : List (κ × α)} {k : κ} {v : α} (h : dget xs k = some v) : (k, v) ∈ xs := by
  induction xs with
  | nil => simp [dget] at h
  | cons e rest ih =>
    obtain ⟨k', v'⟩ := e
    simp only [dget] at h
    split at h
    · rename_i hk; cases h; subst hk; simp
    · exact List.mem_cons_of_mem _ (ih h)

theorem dget_of_mem_nodup {xs : List (κ × α)} {k : κ} {v : α} (hn : (xs.map (·.1)).Nodup) (h : (k, v) ∈ xs) :
    dget xs k = some v := by
  induction xs with
  | nil => simp at h
  | cons e rest ih =>
    obtain ⟨k', v'⟩ := e
    simp only [List.map_cons, List.nodup_cons] at hn
    simp only [dget]
    rcases List.mem_cons.mp h with h | h
    · cases h; simp
    · have : k' ≠ k := by
        intro hk; subst hk
        exact hn.1 (List.mem_map.mpr ⟨(k', v), h, rfl⟩)
      rw [if_neg this]; exact ih hn.2 h

theorem dset_of_not_mem {xs : List (κ × α)} {k : κ} {v : α} (h : k ∉ xs.map (·.1)) : dset xs k v = xs ++ [(k, v)] := by
  induction xs with
  | nil => rfl
  | cons e rest ih =>
    obtain ⟨k', v'⟩ := e
    simp only [List.map_cons, List.mem_cons, not_or] at h
    simp only [dset]
    rw [if_neg (fun hk => h.1 hk.symm), ih h.2]; rfl

theorem foldl_dset_nodup {β : Type} (f : β → κ × α) (ys : List β) (acc : List (κ × α))
    (hn : ((acc ++ ys.map f).map (·.1)).Nodup) :
    ys.foldl (fun d e => dset d (f e).1 (f e).2) acc = acc ++ ys.map f := by
  induction ys generalizing acc with
  | nil => simp
  | cons y ys ih =>
    simp only [List.foldl_cons, List.map_cons]
    have hnot : (f y).1 ∉ acc.map (·.1) := by
      simp only [List.map_append, List.map_cons] at hn
      have := (List.nodup_append.mp hn).2.2
      intro hm
      exact this _ hm _ (List.mem_cons_self) rfl
    rw [dset_of_not_mem hnot]
    have : acc ++ f y :: ys.map f = (acc ++ [((f y).1, (f y).2)]) ++ ys.map f := by simp
    rw [this]
    apply ih
    rw [← this]; exact hn

theorem dget_append (xs ys : List (κ × α)) (k : κ) :
    dget (xs ++ ys) k = match dget xs k with
      | some v => some v
      | none => dget ys k := by
  induction xs with
  | nil => simp [dget]
  | cons e rest ih =>
    obtain ⟨k', v'⟩ := e
    simp only [List.cons_append, dget]
    split
    · rfl
    · exact ih

end dict

/-! ### relative paths: `pre`, `strip`, lookups -/
section paths
variable {α : Type}

theorem dget_map_pre (ls : List (Path × α)) (b : Bool) (q : Path) : dget (ls.map (pre b)) (b :: q) = dget ls q := by
  induction ls with
  | nil => rfl
  | cons e rest ih =>
    obtain ⟨p, v⟩ := e
    simp only [List.map_cons, pre, dget, ih]
    by_cases h : p = q
    · simp [h]
    · simp [h]

theorem dget_map_pre_ne (ls : List (Path × α)) {b b' : Bool} (h : b ≠ b') (q : Path) :
    dget (ls.map (pre b)) (b' :: q) = none := by
  induction ls with
  | nil => rfl
  | cons e rest ih =>
    obtain ⟨p, v⟩ := e
    simp only [List.map_cons, pre, dget, ih]
    simp [h]

theorem dget_nil_of_nonempty (ls : List (Path × α)) (h : ∀ e ∈ ls, e.1 ≠ []) : dget ls [] = none := by
  induction ls with
  | nil => rfl
  | cons e rest ih =>
    obtain ⟨p, v⟩ := e
    have hp : p ≠ [] := h (p, v) List.mem_cons_self
    simp only [dget, if_neg hp]
    exact ih (fun e he => h e (List.mem_cons_of_mem _ he))

theorem strip_append (b : Bool) (xs ys : List (Path × PyObj)) : strip b (xs ++ ys) = strip b xs ++ strip b ys := by
  induction xs with
  | nil => rfl
  | cons e rest ih =>
    obtain ⟨p, v⟩ := e
    cases p with
    | nil => simpa [strip] using ih
    | cons b' q =>
      simp only [List.cons_append, strip]
      split
      · simp [ih]
      · exact ih

theorem strip_map_pre (b : Bool) (ls : List (Path × PyObj)) : strip b (ls.map (pre b)) = ls := by
  induction ls with
  | nil => rfl
  | cons e rest ih =>
    obtain ⟨p, v⟩ := e
    simp [pre, strip, ih]

theorem strip_map_pre_ne {b b' : Bool} (h : b ≠ b') (ls : List (Path × PyObj)) : strip b' (ls.map (pre b)) = [] := by
  induction ls with
  | nil => rfl
  | cons e rest ih =>
    obtain ⟨p, v⟩ := e
    simp [pre, strip, ih, h]

end paths

/-! ### `mapE` -/

theorem mapE_roundtrip {α β : Type} (f : α → Except Err β) (g : β → Except Err α) (xs : List α)
    (h : ∀ x ∈ xs, ∃ y, f x = .ok y ∧ g y = .ok x) :
    ∃ ys, mapE f xs = .ok ys ∧ mapE g ys = .ok xs ∧ ys.length = xs.length
      ∧ ∀ y ∈ ys, ∃ x ∈ xs, f x = .ok y ∧ g y = .ok x := by
  induction xs with
  | nil => exact ⟨[], rfl, rfl, rfl, by simp⟩
  | cons x xs ih =>
    obtain ⟨y, hy, hg⟩ := h x List.mem_cons_self
    obtain ⟨ys, hys, hgs, hl, hm⟩ := ih (fun x hx => h x (List.mem_cons_of_mem _ hx))
    refine ⟨y :: ys, ?_, ?_, by simp [hl], ?_⟩
    · simp [mapE, hy, hys, bind, Except.bind]
    · simp [mapE, hg, hgs, bind, Except.bind]
    · intro y' hy'
      rcases List.mem_cons.mp hy' with rfl | hy'
      · exact ⟨x, List.mem_cons_self, hy, hg⟩
      · obtain ⟨x', hx', h1, h2⟩ := hm y' hy'
        exact ⟨x', List.mem_cons_of_mem _ hx', h1, h2⟩

/-! ### records: three parallel lists (path, name, object) -/

abbrev Tri := Path × String × PyObj

theorem recordOf_tri (T : List Tri) (hp : (T.map (·.1)).Nodup) (hk : (T.map (·.2.1)).Nodup) :
    ∀ (T1 T2 : List Tri), T = T1 ++ T2 →
      recordOf (T.map fun t => (t.1, t.2.1)) (T2.map fun t => (t.1, t.2.2)) (T1.map fun t => (t.2.1, t.2.2))
        = .ok (T.map fun t => (t.2.1, t.2.2)) := by
  intro T1 T2
  induction T2 generalizing T1 with
  | nil => intro h; simp [recordOf, h]
  | cons t T2 ih =>
    intro h
    obtain ⟨p, k, py⟩ := t
    have hmem : (p, k) ∈ T.map (fun t => (t.1, t.2.1)) := by
      rw [h]; simp
    have hget : dget (T.map fun t => (t.1, t.2.1)) p = some k := by
      apply dget_of_mem_nodup _ hmem
      rw [List.map_map]; exact hp
    simp only [List.map_cons, recordOf, hget]
    have hnot : k ∉ (T1.map fun t => (t.2.1, t.2.2)).map (·.1) := by
      rw [h] at hk
      simp only [List.map_append, List.map_cons] at hk
      have := (List.nodup_append.mp hk).2.2
      intro hm
      simp only [List.map_map] at hm
      exact this k (by simpa [Function.comp] using hm) k List.mem_cons_self rfl
    rw [dset_of_not_mem hnot]
    have := ih (T1 ++ [(p, k, py)]) (by simp [h])
    simpa using this

theorem objOfRecord_tri (T : List Tri) (hp : (T.map (·.1)).Nodup) (hk : (T.map (·.2.1)).Nodup) :
    ∀ (T1 T2 : List Tri), T = T1 ++ T2 →
      objOfRecord (T.map fun t => (t.2.1, t.1)) (T2.map fun t => (t.2.1, t.2.2)) (T1.map fun t => (t.1, t.2.2))
        = .ok (T.map fun t => (t.1, t.2.2)) := by
  intro T1 T2
  induction T2 generalizing T1 with
  | nil => intro h; simp [objOfRecord, h]
  | cons t T2 ih =>
    intro h
    obtain ⟨p, k, py⟩ := t
    have hmem : (k, p) ∈ T.map (fun t => (t.2.1, t.1)) := by
      rw [h]; simp
    have hget : dget (T.map fun t => (t.2.1, t.1)) k = some p := by
      apply dget_of_mem_nodup _ hmem
      rw [List.map_map]; exact hk
    simp only [List.map_cons, objOfRecord, hget]
    have hnot : p ∉ (T1.map fun t => (t.1, t.2.2)).map (·.1) := by
      rw [h] at hp
      simp only [List.map_append, List.map_cons] at hp
      have := (List.nodup_append.mp hp).2.2
      intro hm
      simp only [List.map_map] at hm
      exact this p (by simpa [Function.comp] using hm) p List.mem_cons_self rfl
    rw [dset_of_not_mem hnot]
    have := ih (T1 ++ [(p, k, py)]) (by simp [h])
    simpa using this

theorem objOfTuple_zip (flat : List (Path × PyObj)) :
    objOfTuple (flat.map (·.1)) (flat.map (·.2)) = .ok flat := by
  induction flat with
  | nil => rfl
  | cons e rest ih =>
    obtain ⟨p, py⟩ := e
    simp [objOfTuple, ih, Except.map]

/-- two lists with the same paths are two projections of one list of triples -/
theorem exists_tri (p2k : List (Path × String)) (flat : List (Path × PyObj)) (h : p2k.map (·.1) = flat.map (·.1)) :
    ∃ T : List Tri, p2k = T.map (fun t => (t.1, t.2.1)) ∧ flat = T.map (fun t => (t.1, t.2.2)) := by
  induction p2k generalizing flat with
  | nil =>
    cases flat with
    | nil => exact ⟨[], rfl, rfl⟩
    | cons _ _ => simp at h
  | cons e rest ih =>
    cases flat with
    | nil => simp at h
    | cons f frest =>
      obtain ⟨p, k⟩ := e
      obtain ⟨p', py⟩ := f
      simp only [List.map_cons, List.cons.injEq] at h
      obtain ⟨rfl, h2⟩ := h
      obtain ⟨T, h3, h4⟩ := ih frest h2
      exact ⟨(p, k, py) :: T, by simp [h3], by simp [h4]⟩

/-! ### the name generator: `fresh` leaves the loop with a name outside `taken` -/

theorem length_filter_le_of_imp {α : Type} (p q : α → Bool) (l : List α) (hqp : ∀ x, q x = true → p x = true) :
    (l.filter q).length ≤ (l.filter p).length := by
  induction l with
  | nil => simp
  | cons x xs ih =>
    simp only [List.filter_cons]
    by_cases hq : q x = true
    · simp only [hq, hqp x hq, if_true, List.length_cons]; omega
    · simp only [hq, Bool.false_eq_true, if_false]
      split
      · simp only [List.length_cons]; omega
      · exact ih

theorem length_filter_lt_of_imp {α : Type} (p q : α → Bool) (l : List α) (hqp : ∀ x, q x = true → p x = true)
    (a : α) (ha : a ∈ l) (hpa : p a = true) (hqa : q a = false) : (l.filter q).length < (l.filter p).length := by
  induction l with
  | nil => simp at ha
  | cons x xs ih =>
    simp only [List.filter_cons]
    rcases List.mem_cons.mp ha with rfl | hm
    · have := length_filter_le_of_imp p q xs hqp
      simp only [hpa, hqa, if_true, Bool.false_eq_true, if_false, List.length_cons]; omega
    · have := ih hm
      by_cases hq : q x = true
      · simp only [hq, hqp x hq, if_true, List.length_cons]; omega
      · simp only [hq, Bool.false_eq_true, if_false]
        split
        · simp only [List.length_cons]; omega
        · exact this

/-- every iteration of `while name in taken: name += '_'` uses up one element of `taken` that is at least as long as
the candidate -/
theorem freshGo_not_mem (taken : List String) : ∀ (fuel : Nat) (name : String),
    (taken.filter fun s => decide (name.length ≤ s.length)).length < fuel → freshGo fuel taken name ∉ taken := by
  intro fuel
  induction fuel with
  | zero => intro name h; omega
  | succ n ih =>
    intro name h
    simp only [freshGo]
    split
    · rename_i hmem
      apply ih
      have hlen : (name ++ "_").length = name.length + 1 := by
        rw [String.length_append]; rfl
      have := length_filter_lt_of_imp (fun s => decide (name.length ≤ s.length))
        (fun s => decide ((name ++ "_").length ≤ s.length)) taken
        (fun x hx => by simp only [decide_eq_true_eq, hlen] at hx ⊢; omega)
        name hmem (by simp) (by simp [hlen])
      omega
    · assumption

/-- the loop terminates within the fuel, on a name that is not taken -/
theorem fresh_not_mem (taken : List String) (name : String) : fresh taken name ∉ taken := by
  apply freshGo_not_mem
  have := List.length_filter_le (fun s => decide (name.length ≤ s.length)) taken
  omega

/-- … and it is the candidate itself when that is not taken (no collision: the name is the old one) -/
theorem fresh_of_not_mem (taken : List String) (name : String) (h : name ∉ taken) : fresh taken name = name := by
  simp [fresh, freshGo, h]

/-! ### the layout: paths of the flat arguments in order, names pairwise different -/

theorem layoutGo_paths (flat : List (Path × Ty)) (i : Nat) (res : List String) :
    (layoutGo flat i res).map (·.1) = flat.map (·.1) := by
  induction flat generalizing i res with
  | nil => simp [layoutGo]
  | cons e rest ih =>
    obtain ⟨p, t⟩ := e
    simp only [layoutGo]
    split <;> (try split) <;> simp [ih]

theorem renameGo_paths (first : List (Path × String × Bool)) (taken : List String) :
    (renameGo first taken).map (·.1) = first.map (·.1) := by
  induction first generalizing taken with
  | nil => simp [renameGo]
  | cons e rest ih =>
    obtain ⟨p, k, g⟩ := e
    cases g <;> simp [renameGo, ih]

/-- the declared names the first loop keeps are pairwise different (and none of them was reserved before) -/
theorem layoutGo_declared (flat : List (Path × Ty)) (i : Nat) (res : List String) :
    (declared (layoutGo flat i res)).Nodup ∧ ∀ k ∈ declared (layoutGo flat i res), k ∉ res := by
  induction flat generalizing i res with
  | nil => simp [layoutGo, declared]
  | cons e rest ih =>
    obtain ⟨p, t⟩ := e
    simp only [layoutGo]
    split
    · rename_i k hk
      split
      · simpa [declared] using ih (i + 1) res
      · rename_i hres
        obtain ⟨h1, h2⟩ := ih (i + 1) (k :: res)
        simp only [declared, List.nodup_cons, List.mem_cons]
        refine ⟨⟨fun hm => ?_, h1⟩, ?_⟩
        · exact h2 k hm List.mem_cons_self
        · intro k' hk'
          rcases hk' with rfl | hk'
          · exact hres
          · exact fun hm => h2 k' hk' (List.mem_cons_of_mem _ hm)
    · simpa [declared] using ih (i + 1) res

/-- the second loop: every name is a declared one or outside `taken`, and no two are equal -/
theorem renameGo_names (first : List (Path × String × Bool)) (taken : List String)
    (hd : (declared first).Nodup) (hsub : ∀ k ∈ declared first, k ∈ taken) :
    ((renameGo first taken).map (·.2)).Nodup
      ∧ ∀ n ∈ (renameGo first taken).map (·.2), n ∈ declared first ∨ n ∉ taken := by
  induction first generalizing taken with
  | nil => simp [renameGo]
  | cons e rest ih =>
    obtain ⟨p, k, g⟩ := e
    cases g with
    | false =>
      simp only [declared, List.nodup_cons] at hd
      simp only [declared, List.mem_cons] at hsub
      obtain ⟨h1, h2⟩ := ih taken hd.2 (fun k' hk' => hsub k' (Or.inr hk'))
      simp only [renameGo, List.map_cons, List.nodup_cons, List.mem_cons, declared]
      refine ⟨⟨fun hm => ?_, h1⟩, ?_⟩
      · rcases h2 k hm with h | h
        · exact hd.1 h
        · exact h (hsub k (Or.inl rfl))
      · intro n hn
        rcases hn with rfl | hn
        · exact Or.inl (Or.inl rfl)
        · rcases h2 n hn with h | h
          · exact Or.inl (Or.inr h)
          · exact Or.inr h
    | true =>
      simp only [declared] at hd hsub
      have hf := fresh_not_mem taken k
      obtain ⟨h1, h2⟩ := ih (fresh taken k :: taken) hd (fun k' hk' => List.mem_cons_of_mem _ (hsub k' hk'))
      simp only [renameGo, List.map_cons, List.nodup_cons, List.mem_cons, declared]
      refine ⟨⟨fun hm => ?_, h1⟩, ?_⟩
      · rcases h2 _ hm with h | h
        · exact hf (hsub _ h)
        · exact h List.mem_cons_self
      · intro n hn
        rcases hn with rfl | hn
        · exact Or.inr hf
        · rcases h2 n hn with h | h
          · exact Or.inl h
          · exact Or.inr fun hm => h (List.mem_cons_of_mem _ hm)

/-- the field names `get_type_layout` returns are pairwise different, whatever the arguments are -/
theorem layout_names_nodup (flat : List (Path × Ty)) :
    ((renameGo (layoutGo flat 0 []) (declared (layoutGo flat 0 []))).map (·.2)).Nodup :=
  (renameGo_names _ _ (layoutGo_declared flat 0 []).1 (fun _ h => h)).1

/-- without a collision nothing changes: when the candidates of the first loop (the names of the pinned tree) are
already pairwise different, they are the names of the layout -/
theorem renameGo_of_nodup (first : List (Path × String × Bool)) (taken : List String)
    (hn : (first.map (·.2.1)).Nodup) (hg : ∀ e ∈ first, e.2.2 = true → e.2.1 ∉ taken) :
    renameGo first taken = first.map fun e => (e.1, e.2.1) := by
  induction first generalizing taken with
  | nil => simp [renameGo]
  | cons e rest ih =>
    obtain ⟨p, k, g⟩ := e
    simp only [List.map_cons, List.nodup_cons] at hn
    cases g with
    | false =>
      simp only [renameGo, List.map_cons]
      rw [ih taken hn.2 (fun e he => hg e (List.mem_cons_of_mem _ he))]
    | true =>
      have hk : k ∉ taken := hg (p, k, true) List.mem_cons_self rfl
      simp only [renameGo, List.map_cons, fresh_of_not_mem taken k hk]
      rw [ih (k :: taken) hn.2]
      intro e he hge
      simp only [List.mem_cons, not_or]
      refine ⟨fun h => hn.1 (List.mem_map.mpr ⟨e, he, h⟩), hg e (List.mem_cons_of_mem _ he) hge⟩

theorem declared_mem (first : List (Path × String × Bool)) (k : String) (h : k ∈ declared first) :
    ∃ e ∈ first, e.2.1 = k ∧ e.2.2 = false := by
  induction first with
  | nil => simp [declared] at h
  | cons e rest ih =>
    obtain ⟨p, k', g⟩ := e
    cases g with
    | false =>
      simp only [declared, List.mem_cons] at h
      rcases h with rfl | h
      · exact ⟨_, List.mem_cons_self, rfl, rfl⟩
      · obtain ⟨e, he, h1, h2⟩ := ih h
        exact ⟨e, List.mem_cons_of_mem _ he, h1, h2⟩
    | true =>
      simp only [declared] at h
      obtain ⟨e, he, h1, h2⟩ := ih h
      exact ⟨e, List.mem_cons_of_mem _ he, h1, h2⟩

/-- in a list with pairwise different names two entries with the same name are the same entry -/
theorem eq_of_name_eq {first : List (Path × String × Bool)} (hn : (first.map (·.2.1)).Nodup)
    {e e' : Path × String × Bool} (he : e ∈ first) (he' : e' ∈ first) (h : e.2.1 = e'.2.1) : e = e' := by
  induction first with
  | nil => simp at he
  | cons x xs ih =>
    simp only [List.map_cons, List.nodup_cons] at hn
    rcases List.mem_cons.mp he with rfl | hm <;> rcases List.mem_cons.mp he' with rfl | hm'
    · rfl
    · exact absurd (List.mem_map.mpr ⟨e', hm', h.symm⟩) hn.1
    · exact absurd (List.mem_map.mpr ⟨e, hm, h⟩) hn.1
    · exact ih hn.2 hm hm'

theorem layout_unchanged_of_nodup (flat : List (Path × Ty))
    (hn : ((layoutGo flat 0 []).map (·.2.1)).Nodup) :
    renameGo (layoutGo flat 0 []) (declared (layoutGo flat 0 [])) = (layoutGo flat 0 []).map fun e => (e.1, e.2.1) := by
  apply renameGo_of_nodup _ _ hn
  intro e he hg hm
  obtain ⟨e', he', h1, h2⟩ := declared_mem _ _ hm
  have := eq_of_name_eq hn he' he h1
  rw [this, hg] at h2
  cases h2

theorem getTypeLayout_idx (flat : List (Path × Ty)) (infer : Bool) :
    (getTypeLayout flat infer).idxToPath = flat.map (·.1) := by
  unfold getTypeLayout
  have := renameGo_paths (layoutGo flat 0 []) (declared (layoutGo flat 0 []))
  rw [layoutGo_paths] at this
  simp only
  split <;> exact this

theorem getTypeLayout_p2k (flat : List (Path × Ty)) (infer : Bool) (p2k : List (Path × String))
    (h : (getTypeLayout flat infer).pathToKey = some p2k) :
    p2k = renameGo (layoutGo flat 0 []) (declared (layoutGo flat 0 [])) := by
  unfold getTypeLayout at h
  simp only at h
  split at h
  · cases h
  · simp only [Option.some.injEq] at h; exact h.symm

theorem getTypeLayout_p2k_paths (flat : List (Path × Ty)) (infer : Bool) (p2k : List (Path × String))
    (h : (getTypeLayout flat infer).pathToKey = some p2k) : p2k.map (·.1) = flat.map (·.1) := by
  rw [getTypeLayout_p2k flat infer p2k h, renameGo_paths, layoutGo_paths]

/-- the field names of a layout are pairwise different -/
theorem getTypeLayout_names_nodup (flat : List (Path × Ty)) (infer : Bool) (p2k : List (Path × String))
    (h : (getTypeLayout flat infer).pathToKey = some p2k) : (p2k.map (·.2)).Nodup := by
  rw [getTypeLayout_p2k flat infer p2k h]; exact layout_names_nodup flat

theorem getTypeLayout_k2p (flat : List (Path × Ty)) (infer : Bool) (p2k : List (Path × String))
    (h : (getTypeLayout flat infer).pathToKey = some p2k) :
    (getTypeLayout flat infer).keyToPath = some (p2k.foldl (fun d e => dset d e.2 e.1) []) := by
  have hp := getTypeLayout_p2k flat infer p2k h
  unfold getTypeLayout at h ⊢
  simp only at h ⊢
  split at h
  · cases h
  · rename_i hc
    simp [hc, hp]

theorem getTypeLayout_none (flat : List (Path × Ty)) (infer : Bool)
    (h : (getTypeLayout flat infer).pathToKey = none) : (getTypeLayout flat infer).keyToPath = none := by
  unfold getTypeLayout at h ⊢
  simp only at h ⊢
  split at h
  · rename_i hc; simp [hc]
  · cases h

/-! ### paths of `pairArgs` / `orArgs`: non-empty and pairwise different -/

theorem map_pre_fst {α : Type} (b : Bool) (ls : List (Path × α)) : (ls.map (pre b)).map (·.1) = (ls.map (·.1)).map (b :: ·) := by
  simp [List.map_map, Function.comp, pre]

theorem nodup_map_cons (b : Bool) (ps : List Path) (h : ps.Nodup) : (ps.map (b :: ·)).Nodup := by
  induction ps with
  | nil => simp
  | cons p ps ih =>
    simp only [List.nodup_cons] at h
    simp only [List.map_cons, List.nodup_cons, List.mem_map, List.cons.injEq, true_and, exists_eq_right]
    exact ⟨h.1, ih h.2⟩

theorem nodup_pre_append {α β : Type} (ls : List (Path × α)) (rs : List (Path × β))
    (hl : (ls.map (·.1)).Nodup) (hr : (rs.map (·.1)).Nodup) :
    ((ls.map (·.1)).map (false :: ·) ++ (rs.map (·.1)).map (true :: ·)).Nodup := by
  rw [List.nodup_append]
  refine ⟨nodup_map_cons _ _ hl, nodup_map_cons _ _ hr, ?_⟩
  intro a ha b hb hab
  obtain ⟨a', _, rfl⟩ := List.mem_map.mp ha
  obtain ⟨b', _, rfl⟩ := List.mem_map.mp hb
  simp at hab

theorem pairArgs_paths (t : Ty) : ((pairArgs t).map (·.1)).Nodup ∧ ∀ e ∈ pairArgs t, e.1 ≠ [] := by
  induction t with
  | pair a l r ihl ihr =>
    simp only [pairArgs, List.map_append, map_pre_fst]
    constructor
    · apply nodup_pre_append
      · split
        · exact ihl.1
        · simp
      · split
        · exact ihr.1
        · simp
    · intro e he
      rcases List.mem_append.mp he with h | h <;>
      · obtain ⟨e', _, rfl⟩ := List.mem_map.mp h
        simp [pre]
  | _ => simp [pairArgs]

theorem orArgs_paths (t : Ty) : ((orArgs t).map (·.1)).Nodup ∧ ∀ e ∈ orArgs t, e.1 ≠ [] := by
  induction t with
  | or a l r ihl ihr =>
    simp only [orArgs, List.map_append, map_pre_fst]
    constructor
    · apply nodup_pre_append
      · split
        · exact ihl.1
        · simp
      · split
        · exact ihr.1
        · simp
    · intro e he
      rcases List.mem_append.mp he with h | h <;>
      · obtain ⟨e', _, rfl⟩ := List.mem_map.mp h
        simp [pre]
  | _ => simp [orArgs]

/-! ### Python `==` on objects decides equality of the modelled objects -/
mutual
  theorem PyObj.beq_sound : (a b : PyObj) → PyObj.beq a b = true → a = b
    | .none, b, h => by cases b <;> simp_all [PyObj.beq]
    | .unit, b, h => by cases b <;> simp_all [PyObj.beq]
    | .bool x, b, h => by cases b <;> simp_all [PyObj.beq]
    | .int x, b, h => by cases b <;> simp_all [PyObj.beq]
    | .str x, b, h => by cases b <;> simp_all [PyObj.beq]
    | .bytes x, b, h => by cases b <;> simp_all [PyObj.beq]
    | .decimal n c e, b, h => by cases b <;> simp_all [PyObj.beq]
    | .decimalSpecial x, b, h => by cases b <;> simp_all [PyObj.beq]
    | .tuple xs, b, h => by
      cases b with
      | tuple ys => simp only [PyObj.beq] at h; rw [PyObj.beqList_sound xs ys h]
      | _ => simp [PyObj.beq] at h
    | .list xs, b, h => by
      cases b with
      | list ys => simp only [PyObj.beq] at h; rw [PyObj.beqList_sound xs ys h]
      | _ => simp [PyObj.beq] at h
    | .record xs, b, h => by
      cases b with
      | record ys => simp only [PyObj.beq] at h; rw [PyObj.beqFields_sound xs ys h]
      | _ => simp [PyObj.beq] at h
    | .dict xs, b, h => by
      cases b with
      | dict ys => simp only [PyObj.beq] at h; rw [PyObj.beqItems_sound xs ys h]
      | _ => simp [PyObj.beq] at h
  theorem PyObj.beqList_sound : (a b : List PyObj) → PyObj.beqList a b = true → a = b
    | [], [], _ => rfl
    | [], _ :: _, h => by simp [PyObj.beqList] at h
    | _ :: _, [], h => by simp [PyObj.beqList] at h
    | x :: xs, y :: ys, h => by
      simp only [PyObj.beqList, Bool.and_eq_true] at h
      rw [PyObj.beq_sound x y h.1, PyObj.beqList_sound xs ys h.2]
  theorem PyObj.beqFields_sound : (a b : List (String × PyObj)) → PyObj.beqFields a b = true → a = b
    | [], [], _ => rfl
    | [], _ :: _, h => by simp [PyObj.beqFields] at h
    | _ :: _, [], h => by simp [PyObj.beqFields] at h
    | (k, x) :: xs, (k', y) :: ys, h => by
      simp only [PyObj.beqFields, Bool.and_eq_true, beq_iff_eq] at h
      rw [h.1.1, PyObj.beq_sound x y h.1.2, PyObj.beqFields_sound xs ys h.2]
  theorem PyObj.beqItems_sound : (a b : List (PyObj × PyObj)) → PyObj.beqItems a b = true → a = b
    | [], [], _ => rfl
    | [], _ :: _, h => by simp [PyObj.beqItems] at h
    | _ :: _, [], h => by simp [PyObj.beqItems] at h
    | (k, x) :: xs, (k', y) :: ys, h => by
      simp only [PyObj.beqItems, Bool.and_eq_true] at h
      rw [PyObj.beq_sound k k' h.1.1, PyObj.beq_sound x y h.1.2, PyObj.beqItems_sound xs ys h.2]
end

theorem pyMem_false {x : PyObj} {ys : List PyObj} (h : x ∉ ys) : pyMem x ys = false := by
  induction ys with
  | nil => rfl
  | cons y ys ih =>
    simp only [List.mem_cons, not_or] at h
    simp only [pyMem, Bool.or_eq_false_iff]
    refine ⟨?_, ih h.2⟩
    cases hb : PyObj.beq y x with
    | false => rfl
    | true => exact absurd (PyObj.beq_sound y x hb).symm h.1

theorem pyDistinct_of_nodup {ys : List PyObj} (h : ys.Nodup) : pyDistinct ys = true := by
  induction ys with
  | nil => rfl
  | cons y ys ih =>
    simp only [List.nodup_cons] at h
    simp [pyDistinct, pyMem_false h.1, ih h.2]

theorem pySet_of_not_mem {xs : List (PyObj × PyObj)} {k v : PyObj} (h : k ∉ xs.map (·.1)) :
    pySet xs k v = xs ++ [(k, v)] := by
  induction xs with
  | nil => rfl
  | cons e rest ih =>
    obtain ⟨k', v'⟩ := e
    simp only [List.map_cons, List.mem_cons, not_or] at h
    simp only [pySet]
    have : PyObj.beq k' k = false := by
      cases hb : PyObj.beq k' k with
      | false => rfl
      | true => exact absurd (PyObj.beq_sound k' k hb).symm h.1
    simp [this, ih h.2]

theorem dictOf_nodup (c : Cfg) (items acc : List (PyObj × PyObj))
    (hh : ∀ e ∈ items, e.1.hashable c = true) (hn : ((acc ++ items).map (·.1)).Nodup) :
    dictOf c items acc = .ok (acc ++ items) := by
  induction items generalizing acc with
  | nil => simp [dictOf]
  | cons e rest ih =>
    obtain ⟨k, v⟩ := e
    have hk := hh (k, v) List.mem_cons_self
    simp only at hk
    simp only [dictOf, hk, if_true]
    have hnot : k ∉ acc.map (·.1) := by
      simp only [List.map_append, List.map_cons] at hn
      have := (List.nodup_append.mp hn).2.2
      intro hm
      exact this _ hm _ List.mem_cons_self rfl
    rw [pySet_of_not_mem hnot]
    have e1 : acc ++ (k, v) :: rest = (acc ++ [(k, v)]) ++ rest := by simp
    rw [e1]
    apply ih _ (fun e he => hh e (List.mem_cons_of_mem _ he))
    rw [← e1]; exact hn

theorem mem_mapE {α β : Type} (f : α → Except Err β) (xs : List α) (ys : List β) (hf : mapE f xs = .ok ys)
    {y : β} (hy : y ∈ ys) : ∃ x ∈ xs, f x = .ok y := by
  induction xs generalizing ys with
  | nil => simp [mapE] at hf; subst hf; simp at hy
  | cons x1 xs1 ih1 =>
    simp only [mapE, bind, Except.bind] at hf
    split at hf
    · cases hf
    · rename_i y1 hy1
      split at hf
      · cases hf
      · rename_i ys1 hys1
        simp only [Except.ok.injEq] at hf; subst hf
        rcases List.mem_cons.mp hy with rfl | hm
        · exact ⟨x1, List.mem_cons_self, hy1⟩
        · obtain ⟨x', hx', hfx'⟩ := ih1 ys1 hys1 hm
          exact ⟨x', List.mem_cons_of_mem _ hx', hfx'⟩

/-- images of pairwise different values under an invertible conversion are pairwise different -/
theorem nodup_of_roundtrip {α β : Type} (f : α → Except Err β) (g : β → Except Err α) (xs : List α) (ys : List β)
    (hx : xs.Pairwise (· ≠ ·)) (hf : mapE f xs = .ok ys) (hg : ∀ x ∈ xs, ∀ y, f x = .ok y → g y = .ok x) :
    ys.Nodup := by
  induction xs generalizing ys with
  | nil => simp [mapE] at hf; subst hf; simp
  | cons x xs ih =>
    simp only [mapE, bind, Except.bind] at hf
    split at hf
    · cases hf
    · rename_i y hy
      split at hf
      · cases hf
      · rename_i ys' hys
        simp only [Except.ok.injEq] at hf; subst hf
        simp only [List.pairwise_cons] at hx
        rw [List.nodup_cons]
        refine ⟨?_, ih ys' hx.2 hys (fun x' hx' => hg x' (List.mem_cons_of_mem _ hx'))⟩
        intro hmem
        obtain ⟨x', hx', hfx'⟩ := mem_mapE f xs ys' hys hmem
        have h1 := hg x List.mem_cons_self y hy
        have h2 := hg x' (List.mem_cons_of_mem _ hx') y hfx'
        rw [h1] at h2
        cases h2
        exact hx.1 x hx' rfl

open Spec.PyConv

/-! ### the descent over a pair node -/

/-- what `pick` does in terms of the keys below the branch -/
def pickRel (cf : List (Path × PyObj)) (leaf : PyObj → Except Err Val) (nested : List (Path × PyObj) → Except Err Val) :
    Except Err Val :=
  match dget cf [] with
  | some py => leaf py
  | none => nested cf

theorem pick_false (ls rs : List (Path × PyObj)) (leaf) (nested) :
    pick (ls.map (pre false) ++ rs.map (pre true)) false leaf nested = pickRel ls leaf nested := by
  unfold pick pickRel
  rw [dget_append, dget_map_pre, dget_map_pre_ne rs (b := true) (b' := false) (by decide) [], strip_append, strip_map_pre,
    strip_map_pre_ne (b := true) (b' := false) (by decide) rs]
  cases dget ls [] <;> simp

theorem pick_true (ls rs : List (Path × PyObj)) (leaf) (nested) :
    pick (ls.map (pre false) ++ rs.map (pre true)) true leaf nested = pickRel rs leaf nested := by
  unfold pick pickRel
  rw [dget_append, dget_map_pre_ne ls (b := false) (b' := true) (by decide) [], dget_map_pre, strip_append, strip_map_pre,
    strip_map_pre_ne (b := false) (b' := true) (by decide) ls]
  cases dget rs [] <;> simp

theorem hashableList_of_all (c : Cfg) (xs : List PyObj) (h : ∀ x ∈ xs, x.hashable c = true) :
    PyObj.hashableList c xs = true := by
  induction xs with
  | nil => rfl
  | cons x xs ih =>
    simp only [PyObj.hashableList, Bool.and_eq_true]
    exact ⟨h x List.mem_cons_self, ih (fun y hy => h y (List.mem_cons_of_mem _ hy))⟩

/-- the statement proved by induction over the type, for all three mutually recursive conversions -/
def P (c : Cfg) (τ : Ty) : Prop :=
  ∀ cmp v, inv c cmp τ = true → HasTy c τ v →
    ∃ py, toPy c cmp τ v = .ok py ∧ ofPy c τ py = .ok v ∧ (cmp = true → py.hashable c = true)
      ∧ (τ.isOption = false → py ≠ .none)

def Pflat (c : Cfg) (τ : Ty) : Prop :=
  ∀ cmp v, leavesInv c cmp τ = true → HasTy c τ v →
    ∃ flat, flatVals c cmp τ v = .ok flat ∧ nestedPair c τ flat = .ok v ∧ flat ≠ [] ∧ (∀ e ∈ flat, e.1 ≠ [])
      ∧ flat.map (·.1) = (pairArgs τ).map (·.1) ∧ (cmp = true → ∀ e ∈ flat, e.2.hashable c = true)

def Por (c : Cfg) (τ : Ty) : Prop :=
  ∀ cmp v, orLeavesInv c cmp τ = true → HasTy c τ v →
    ∃ path py, orVal c cmp τ v = .ok (path, py) ∧ path ∈ (orArgs τ).map (·.1) ∧ orNested c τ path py = .ok v
      ∧ (cmp = true → py.hashable c = true) ∧ (allUnits τ = true → orNested c τ path .unit = .ok v)

/-- one argument of a pair node -/
theorem pair_child (c : Cfg) (t : Ty) (hP : P c t) (hF : Pflat c t) (cmp : Bool) (x : Val)
    (hinv : (if t.isFlatPair then leavesInv c cmp t else inv c cmp t) = true) (hty : HasTy c t x) :
    ∃ cf, (if t.isFlatPair then flatVals c cmp t x else single (toPy c cmp t x)) = .ok cf
      ∧ pickRel cf (ofPy c t) (nestedPair c t) = .ok x ∧ cf ≠ []
      ∧ cf.map (·.1) = (if t.isFlatPair then pairArgs t else [([], t)]).map (·.1)
      ∧ (cmp = true → ∀ e ∈ cf, e.2.hashable c = true) := by
  by_cases hf : t.isFlatPair = true
  · simp only [hf, if_true] at hinv ⊢
    obtain ⟨flat, h1, h2, h3, h4, h5, h6⟩ := hF cmp x hinv hty
    refine ⟨flat, h1, ?_, h3, h5, h6⟩
    unfold pickRel
    rw [dget_nil_of_nonempty flat h4]
    exact h2
  · simp only [hf, Bool.false_eq_true, if_false] at hinv ⊢
    obtain ⟨py, h1, h2, h3, _⟩ := hP cmp x hinv hty
    refine ⟨[([], py)], by simp [single, h1, Except.map], ?_, by simp, by simp, ?_⟩
    · simp [pickRel, dget, h2]
    · intro hc e he
      simp only [List.mem_singleton] at he
      subst he
      exact h3 hc

/-- the flattening and the descent of a pair node (whatever its own annotations are) -/
theorem pair_node (c : Cfg) (a : Ann) (l r : Ty) (hPl : P c l) (hFl : Pflat c l) (hPr : P c r) (hFr : Pflat c r) :
    Pflat c (.pair a l r) := by
  intro cmp v hinv hty
  obtain ⟨x, y, rfl, hx, hy⟩ := hty
  simp only [leavesInv, Bool.and_eq_true] at hinv
  obtain ⟨ls, l1, l2, l3, l4, l5⟩ := pair_child c l hPl hFl cmp x hinv.1 hx
  obtain ⟨rs, r1, r2, r3, r4, r5⟩ := pair_child c r hPr hFr cmp y hinv.2 hy
  refine ⟨ls.map (pre false) ++ rs.map (pre true), ?_, ?_, ?_, ?_, ?_, ?_⟩
  · cases hl : l.isFlatPair <;> cases hr : r.isFlatPair <;>
      simp only [hl, hr, Bool.false_eq_true, if_true, if_false] at l1 r1 <;>
      simp [flatVals, hl, hr, l1, r1, bind, Except.bind]
  · have hne : (ls.map (pre false) ++ rs.map (pre true)).isEmpty = false := by
      cases ls with
      | nil => exact absurd rfl l3
      | cons e es => rfl
    simp only [nestedPair, hne, Bool.false_eq_true, if_false, pick_false, pick_true, l2, r2, bind, Except.bind]
  · cases ls with
    | nil => exact absurd rfl l3
    | cons e es => simp
  · intro e he
    rcases List.mem_append.mp he with h | h <;>
    · obtain ⟨e', _, rfl⟩ := List.mem_map.mp h
      simp [pre]
  · simp only [pairArgs, List.map_append, map_pre_fst, l4, r4]
  · intro hc e he
    rcases List.mem_append.mp he with h | h
    · obtain ⟨e', he', rfl⟩ := List.mem_map.mp h
      exact l5 hc e' he'
    · obtain ⟨e', he', rfl⟩ := List.mem_map.mp h
      exact r5 hc e' he'

/-! ### the descent over a union node -/

theorem or_child (c : Cfg) (t : Ty) (hP : P c t) (hO : Por c t) (cmp : Bool) (x : Val)
    (hinv : (if t.isOr then orLeavesInv c cmp t else inv c cmp t) = true) (hty : HasTy c t x) :
    ∃ path py, (if t.isOr then orVal c cmp t x else (toPy c cmp t x).map fun py => (([] : Path), py)) = .ok (path, py)
      ∧ path ∈ (if t.isOr then orArgs t else [([], t)]).map (·.1)
      ∧ (if path.isEmpty then ofPy c t py else orNested c t path py) = .ok x
      ∧ (cmp = true → py.hashable c = true)
      ∧ (allUnits t = true → (if path.isEmpty then ofPy c t .unit else orNested c t path .unit) = .ok x) := by
  by_cases ho : t.isOr = true
  · simp only [ho, if_true] at hinv ⊢
    obtain ⟨path, py, h1, h2, h3, h4, h5⟩ := hO cmp x hinv hty
    have hne : path ≠ [] := by
      obtain ⟨e, he, rfl⟩ := List.mem_map.mp h2
      exact (orArgs_paths t).2 e he
    have hemp : path.isEmpty = false := by cases path <;> simp_all
    exact ⟨path, py, h1, h2, by simpa [hemp] using h3, h4, fun hu => by simpa [hemp] using h5 hu⟩
  · simp only [ho, Bool.false_eq_true, if_false] at hinv ⊢
    obtain ⟨py, h1, h2, h3, _⟩ := hP cmp x hinv hty
    refine ⟨[], py, by simp [h1, Except.map], by simp, by simpa using h2, h3, ?_⟩
    intro hu
    -- a leaf of an enum is the unit type
    cases t with
    | scalar a s =>
      cases s <;> simp [allUnits] at hu
      simp only [HasTy] at hty
      subst hty
      simp [ofPy, scalarOfPy]
    | or _ _ _ => simp [Ty.isOr] at ho
    | _ => simp [allUnits] at hu

theorem or_node (c : Cfg) (a : Ann) (l r : Ty) (hPl : P c l) (hOl : Por c l) (hPr : P c r) (hOr : Por c r) :
    Por c (.or a l r) := by
  intro cmp v hinv hty
  simp only [orLeavesInv, Bool.and_eq_true] at hinv
  rcases hty with ⟨x, rfl, hx⟩ | ⟨y, rfl, hy⟩
  · obtain ⟨path, py, h1, h2, h3, h4, h5⟩ := or_child c l hPl hOl cmp x hinv.1 hx
    refine ⟨false :: path, py, ?_, ?_, ?_, h4, ?_⟩
    · rw [orVal, h1]; rfl
    · simp only [orArgs, List.map_append, map_pre_fst, List.mem_append, List.mem_map]
      exact Or.inl ⟨path, by simpa using h2, rfl⟩
    · simp only [orNested, h3, Except.map]
    · intro hu
      simp only [allUnits, Bool.and_eq_true] at hu
      simp only [orNested, h5 hu.1, Except.map]
  · obtain ⟨path, py, h1, h2, h3, h4, h5⟩ := or_child c r hPr hOr cmp y hinv.2 hy
    refine ⟨true :: path, py, ?_, ?_, ?_, h4, ?_⟩
    · rw [orVal, h1]; rfl
    · simp only [orArgs, List.map_append, map_pre_fst, List.mem_append, List.mem_map]
      exact Or.inr ⟨path, by simpa using h2, rfl⟩
    · simp only [orNested, h3, Except.map]
    · intro hu
      simp only [allUnits, Bool.and_eq_true] at hu
      simp only [orNested, h5 hu.2, Except.map]

/-! ### the cases of the main induction -/

theorem P_scalar (c : Cfg) (hu : c.unitHashable = true) (ht : c.tryUnpack = false) (a : Ann) (s : Scalar) :
    P c (.scalar a s) := by
  intro cmp v hinv hty
  cases s <;> simp only [HasTy] at hty
  · subst hty
    exact ⟨.unit, by simp [toPy, scalarToPy], by simp [ofPy, scalarOfPy], fun _ => by simp [PyObj.hashable, hu], fun _ => by simp⟩
  · obtain ⟨b, rfl⟩ := hty
    exact ⟨.bool b, by simp [toPy, scalarToPy], by simp [ofPy, scalarOfPy], fun _ => by simp [PyObj.hashable], fun _ => by simp⟩
  · obtain ⟨n, rfl, hn⟩ := hty
    exact ⟨.int n, by simp [toPy, scalarToPy], by simp [ofPy, scalarOfPy, hn], fun _ => by simp [PyObj.hashable], fun _ => by simp⟩
  · obtain ⟨n, rfl⟩ := hty
    exact ⟨.int n, by simp [toPy, scalarToPy], by simp [ofPy, scalarOfPy], fun _ => by simp [PyObj.hashable], fun _ => by simp⟩
  · obtain ⟨n, rfl, h0, h1⟩ := hty
    refine ⟨.int n, by simp [toPy, scalarToPy], ?_, fun _ => by simp [PyObj.hashable], fun _ => by simp⟩
    simp only [ofPy, scalarOfPy, mutezFromValue]
    rw [if_neg (by omega), if_neg (by omega)]
  · obtain ⟨n, rfl⟩ := hty
    exact ⟨.int n, by simp [toPy, scalarToPy], by simp [ofPy, scalarOfPy], fun _ => by simp [PyObj.hashable], fun _ => by simp⟩
  · obtain ⟨s, rfl, hs⟩ := hty
    exact ⟨.str s, by simp [toPy, scalarToPy], by simp [ofPy, scalarOfPy, hs], fun _ => by simp [PyObj.hashable], fun _ => by simp⟩
  · obtain ⟨b, rfl⟩ := hty
    exact ⟨.bytes b, by simp [toPy, scalarToPy, ht], by simp [ofPy, scalarOfPy], fun _ => by simp [PyObj.hashable], fun _ => by simp⟩
  -- address, key_hash, key, signature, chain_id: the text `from_value` keeps
  · obtain ⟨s, rfl, hs⟩ := hty
    exact ⟨.str s, by simp [toPy, scalarToPy], by simp [ofPy, scalarOfPy, hs, Except.map], fun _ => by simp [PyObj.hashable], fun _ => by simp⟩
  · obtain ⟨s, rfl, hs⟩ := hty
    exact ⟨.str s, by simp [toPy, scalarToPy], by simp [ofPy, scalarOfPy, hs, Except.map], fun _ => by simp [PyObj.hashable], fun _ => by simp⟩
  · obtain ⟨s, rfl, hs⟩ := hty
    exact ⟨.str s, by simp [toPy, scalarToPy], by simp [ofPy, scalarOfPy, hs, Except.map], fun _ => by simp [PyObj.hashable], fun _ => by simp⟩
  · obtain ⟨s, rfl, hs⟩ := hty
    exact ⟨.str s, by simp [toPy, scalarToPy], by simp [ofPy, scalarOfPy, hs, Except.map], fun _ => by simp [PyObj.hashable], fun _ => by simp⟩
  · obtain ⟨s, rfl, hs⟩ := hty
    exact ⟨.str s, by simp [toPy, scalarToPy], by simp [ofPy, scalarOfPy, hs, Except.map], fun _ => by simp [PyObj.hashable], fun _ => by simp⟩
  -- bls12_381_fr: `value % modulus` of a value below the modulus; not comparable
  · obtain ⟨n, rfl, h0, h1⟩ := hty
    have hc : cmp = false := by cases cmp <;> simp_all [inv, Scalar.assertsNotComparable]
    subst hc
    refine ⟨.int n, by simp [toPy, scalarToPy], ?_, (fun h => by cases h), fun _ => by simp⟩
    simp only [ofPy, scalarOfPy]
    rw [Int.emod_eq_of_lt h0 h1]
  · obtain ⟨b, rfl⟩ := hty
    have hc : cmp = false := by cases cmp <;> simp_all [inv, Scalar.assertsNotComparable]
    subst hc
    exact ⟨.bytes b, by simp [toPy, scalarToPy], by simp [ofPy, scalarOfPy], (fun h => by cases h), fun _ => by simp⟩
  · obtain ⟨b, rfl⟩ := hty
    have hc : cmp = false := by cases cmp <;> simp_all [inv, Scalar.assertsNotComparable]
    subst hc
    exact ⟨.bytes b, by simp [toPy, scalarToPy], by simp [ofPy, scalarOfPy], (fun h => by cases h), fun _ => by simp⟩

theorem P_contract (c : Cfg) (a : Ann) (p : Ty) : P c (.contract a p) := by
  intro cmp v hinv hty
  simp only [HasTy] at hty
  obtain ⟨s, rfl, hs⟩ := hty
  have hc : cmp = false := by cases cmp <;> simp_all [inv]
  subst hc
  exact ⟨.str s, by simp [toPy], by simp [ofPy, hs, Except.map], (fun h => by cases h), fun _ => by simp⟩

theorem P_ticket (c : Cfg) (a : Ann) (t : Ty) (hP : P c t) : P c (.ticket a t) := by
  intro cmp v hinv hty
  simp only [HasTy] at hty
  obtain ⟨tk, x, n, rfl, htk, hx, hn⟩ := hty
  simp only [inv, Bool.and_eq_true, Bool.not_eq_true'] at hinv
  obtain ⟨hc, hi⟩ := hinv
  subst hc
  obtain ⟨px, h1, h2, _, _⟩ := hP true x hi hx
  refine ⟨.tuple [.str tk, px, .int n], by simp [toPy, h1]; rfl, ?_, (fun h => by cases h), fun _ => by simp⟩
  simp [ofPy, htk, h2, hn]
  rfl

theorem P_lambda (c : Cfg) (hl : Spec.PyConv.CodeLaw c) (a : Ann) (p r : Ty) : P c (.lambda a p r) := by
  intro cmp v hinv hty
  simp only [HasTy] at hty
  obtain ⟨code, rfl, hok⟩ := hty
  have hc : cmp = false := by cases cmp <;> simp_all [inv]
  subst hc
  exact ⟨.str (c.codeText code), by simp [toPy], by simp [ofPy, hl code hok], (fun h => by cases h), fun _ => by simp⟩

theorem P_option (c : Cfg) (a : Ann) (t : Ty) (hP : P c t) : P c (.option a t) := by
  intro cmp v hinv hty
  simp only [inv, Bool.and_eq_true, Bool.not_eq_true'] at hinv
  rcases hty with rfl | ⟨x, rfl, hx⟩
  · exact ⟨.none, by simp [toPy], by simp [ofPy], fun _ => by simp [PyObj.hashable], fun h => by simp [Ty.isOption] at h⟩
  · obtain ⟨py, h1, h2, h3, h4⟩ := hP cmp x hinv.2 hx
    refine ⟨py, by simpa [toPy] using h1, ?_, h3, fun h => by simp [Ty.isOption] at h⟩
    have hne := h4 hinv.1
    cases py <;> simp_all [ofPy, Except.map]

theorem P_list (c : Cfg) (a : Ann) (t : Ty) (hP : P c t) : P c (.list a t) := by
  intro cmp v hinv hty
  simp only [inv, Bool.and_eq_true, Bool.not_eq_true'] at hinv
  obtain ⟨xs, rfl, hxs⟩ := hty
  obtain ⟨hc, hi⟩ := hinv
  subst hc
  obtain ⟨pys, h1, h2, _, _⟩ := mapE_roundtrip (toPy c false t) (ofPy c t) xs
    (fun x hx => by
      obtain ⟨py, p1, p2, _, _⟩ := hP false x hi (hxs x hx)
      exact ⟨py, p1, p2⟩)
  exact ⟨.list pys, by simp [toPy, h1, Except.map], by simp [ofPy, h2, Except.map], (fun h => by cases h), fun _ => by simp⟩

/-- `to_python_object` is a function: the object of `x` is the one the induction hypothesis speaks about -/
theorem P_back (c : Cfg) (t : Ty) (hP : P c t) (cmp : Bool) (hi : inv c cmp t = true) (x : Val) (hx : HasTy c t x)
    (y : PyObj) (hy : toPy c cmp t x = .ok y) : ofPy c t y = .ok x ∧ (cmp = true → y.hashable c = true) := by
  obtain ⟨py, p1, p2, p3, _⟩ := hP cmp x hi hx
  rw [p1] at hy; cases hy
  exact ⟨p2, p3⟩

theorem P_set (c : Cfg) (a : Ann) (t : Ty) (hP : P c t) : P c (.set a t) := by
  intro cmp v hinv hty
  simp only [inv, Bool.and_eq_true, Bool.not_eq_true'] at hinv
  obtain ⟨xs, rfl, hxs, hdist, hsort⟩ := hty
  obtain ⟨⟨⟨hc, hi⟩, _⟩, _⟩ := hinv
  subst hc
  obtain ⟨pys, h1, h2, _, h4⟩ := mapE_roundtrip (toPy c true t) (ofPy c t) xs
    (fun x hx => by
      obtain ⟨py, p1, p2, _, _⟩ := hP true x hi (hxs x hx)
      exact ⟨py, p1, p2⟩)
  have hhash : pys.all (PyObj.hashable c) = true := by
    rw [List.all_eq_true]
    intro y hy
    obtain ⟨x, hx, hf, _⟩ := h4 y hy
    exact (P_back c t hP true hi x (hxs x hx) y hf).2 rfl
  have hnd : pys.Nodup := nodup_of_roundtrip (toPy c true t) (ofPy c t) xs pys hdist h1
    (fun x hx y hy => (P_back c t hP true hi x (hxs x hx) y hy).1)
  refine ⟨.list pys, by simp [toPy, h1, Except.map], ?_, (fun h => by cases h), fun _ => by simp⟩
  simp [ofPy, hhash, pyDistinct_of_nodup hnd, h2, Except.map, hsort]

theorem nodup_keys {α β κ κ' : Type} (f : α → Except Err β) (pa : α → κ) (pb : β → κ') (gk : κ' → Except Err κ)
    (xs : List α) (ys : List β) (hx : (xs.map pa).Pairwise (· ≠ ·)) (hf : mapE f xs = .ok ys)
    (hg : ∀ x ∈ xs, ∀ y, f x = .ok y → gk (pb y) = .ok (pa x)) : (ys.map pb).Nodup := by
  induction xs generalizing ys with
  | nil => simp [mapE] at hf; subst hf; simp
  | cons x xs ih =>
    simp only [mapE, bind, Except.bind] at hf
    split at hf
    · cases hf
    · rename_i y hy
      split at hf
      · cases hf
      · rename_i ys' hys
        simp only [Except.ok.injEq] at hf; subst hf
        simp only [List.map_cons, List.pairwise_cons] at hx
        rw [List.map_cons, List.nodup_cons]
        refine ⟨?_, ih ys' hx.2 hys (fun x' hx' => hg x' (List.mem_cons_of_mem _ hx'))⟩
        intro hmem
        obtain ⟨y', hy', heq⟩ := List.mem_map.mp hmem
        obtain ⟨x', hx', hfx'⟩ := mem_mapE f xs ys' hys hy'
        have h1 := hg x List.mem_cons_self y hy
        have h2 := hg x' (List.mem_cons_of_mem _ hx') y' hfx'
        rw [heq, h1] at h2
        have hpa := Except.ok.inj h2
        exact hx.1 (pa x') (List.mem_map.mpr ⟨x', hx', rfl⟩) hpa

/-- the entries of a map / big_map literal -/
theorem items_roundtrip (c : Cfg) (k t : Ty) (hPk : P c k) (hPt : P c t) (hik : inv c true k = true)
    (hit : inv c false t = true) (kvs : List (Val × Val)) (hty : ∀ e ∈ kvs, HasTy c k e.1 ∧ HasTy c t e.2)
    (hd : (kvs.map (·.1)).Pairwise (· ≠ ·)) :
    ∃ items,
      mapE (fun (e : Val × Val) => do
        let pk ← toPy c true k e.1
        let pv ← toPy c false t e.2
        pure (pk, pv)) kvs = .ok items
      ∧ dictOf c items [] = .ok items
      ∧ mapE (fun (e : PyObj × PyObj) => do
        let kk ← ofPy c k e.1
        let vv ← ofPy c t e.2
        pure (kk, vv)) items = .ok kvs := by
  have helem : ∀ e ∈ kvs, ∀ y,
      (do let pk ← toPy c true k e.1
          let pv ← toPy c false t e.2
          pure (pk, pv) : Except Err (PyObj × PyObj)) = .ok y →
      ofPy c k y.1 = .ok e.1 ∧ ofPy c t y.2 = .ok e.2 ∧ y.1.hashable c = true := by
    intro e he y hy
    obtain ⟨pk, p1, p2, p3, _⟩ := hPk true e.1 hik (hty e he).1
    obtain ⟨pv, q1, q2, _, _⟩ := hPt false e.2 hit (hty e he).2
    simp only [p1, q1, bind, Except.bind, pure, Except.pure, Except.ok.injEq] at hy
    subst hy
    exact ⟨p2, q2, p3 rfl⟩
  obtain ⟨items, h1, h2, _, h4⟩ := mapE_roundtrip
    (fun (e : Val × Val) => do
      let pk ← toPy c true k e.1
      let pv ← toPy c false t e.2
      pure (pk, pv))
    (fun (e : PyObj × PyObj) => do
      let kk ← ofPy c k e.1
      let vv ← ofPy c t e.2
      pure (kk, vv)) kvs
    (fun e he => by
      obtain ⟨pk, p1, p2, _, _⟩ := hPk true e.1 hik (hty e he).1
      obtain ⟨pv, q1, q2, _, _⟩ := hPt false e.2 hit (hty e he).2
      exact ⟨(pk, pv), by simp [p1, q1, bind, Except.bind, pure, Except.pure],
        by simp [p2, q2, bind, Except.bind, pure, Except.pure]⟩)
  refine ⟨items, h1, ?_, h2⟩
  have := dictOf_nodup c items []
    (fun y hy => by
      obtain ⟨e, he, hf, _⟩ := h4 y hy
      exact (helem e he y hf).2.2)
    (by
      rw [List.nil_append]
      exact nodup_keys _ (·.1) (·.1) (ofPy c k) kvs items hd h1 (fun e he y hy => (helem e he y hy).1))
  simpa using this

theorem P_map (c : Cfg) (a : Ann) (k t : Ty) (hPk : P c k) (hPt : P c t) : P c (.map a k t) := by
  intro cmp v hinv hty
  simp only [inv, Bool.and_eq_true, Bool.not_eq_true'] at hinv
  obtain ⟨kvs, rfl, hkv, hd, hsort⟩ := hty
  obtain ⟨⟨⟨hc, hik⟩, _⟩, hit⟩ := hinv
  subst hc
  obtain ⟨items, h1, h2, h3⟩ := items_roundtrip c k t hPk hPt hik hit kvs hkv hd
  refine ⟨.dict items, ?_, ?_, (fun h => by cases h), fun _ => by simp⟩
  · simp only [toPy, Bool.false_eq_true, if_false, h1]
    simp only [bind, Except.bind, h2, Except.map]
  · simp only [ofPy, h3]
    simp only [Except.map, hsort]

theorem P_bigMap (c : Cfg) (a : Ann) (k t : Ty) (hPk : P c k) (hPt : P c t) : P c (.bigMap a k t) := by
  intro cmp v hinv hty
  simp only [inv, Bool.and_eq_true, Bool.not_eq_true'] at hinv
  obtain ⟨⟨⟨hc, hik⟩, _⟩, hit⟩ := hinv
  subst hc
  rcases hty with ⟨n, rfl⟩ | ⟨kvs, rfl, hkv, hd, hsort⟩
  · exact ⟨.int n, by simp [toPy], by simp [ofPy], (fun h => by cases h), fun _ => by simp⟩
  · obtain ⟨items, h1, h2, h3⟩ := items_roundtrip c k t hPk hPt hik hit kvs hkv hd
    refine ⟨.dict items, ?_, ?_, (fun h => by cases h), fun _ => by simp⟩
    · simp only [toPy, Bool.false_eq_true, if_false, h1]
      simp only [bind, Except.bind, h2, Except.map]
    · simp only [ofPy, h3]
      simp only [Except.map, hsort]

theorem toPy_pair_eq (c : Cfg) (cmp : Bool) (a : Ann) (l r : Ty) (x y : Val) :
    toPy c cmp (.pair a l r) (.pair x y) =
      (flatVals c cmp (.pair a l r) (.pair x y)).bind fun flat =>
        match (if cmp then none else (pairLayout (.pair a l r)).pathToKey) with
        | some p2k => (recordOf p2k flat []).map .record
        | none => .ok (.tuple (flat.map (·.2))) := by
  rw [toPy, flatVals]
  cases hl : l.isFlatPair <;> cases hr : r.isFlatPair <;> simp only [Bool.false_eq_true, if_true, if_false]
  · cases single (toPy c cmp l x) <;> first | rfl | (cases single (toPy c cmp r y) <;> rfl)
  · cases single (toPy c cmp l x) <;> first | rfl | (cases flatVals c cmp r y <;> rfl)
  · cases flatVals c cmp l x <;> first | rfl | (cases single (toPy c cmp r y) <;> rfl)
  · cases flatVals c cmp l x <;> first | rfl | (cases flatVals c cmp r y <;> rfl)

theorem ofPy_pair_eq (c : Cfg) (a : Ann) (l r : Ty) (py : PyObj) :
    ofPy c (.pair a l r) py =
      (match py with
        | .tuple xs | .list xs => objOfTuple (pairLayout (.pair a l r)).idxToPath xs
        | .record kvs =>
          match (pairLayout (.pair a l r)).keyToPath with
          | some k2p => objOfRecord k2p kvs []
          | none => .error .assertion
        | .dict items =>
          match (pairLayout (.pair a l r)).keyToPath, asRecord items with
          | some k2p, some kvs => objOfRecord k2p kvs []
          | some _, none => .error .key
          | none, _ => .error .assertion
        | _ => .error .assertion).bind (nestedPair c (.pair a l r)) := by
  cases py with
  | record kvs =>
    simp only [ofPy, nestedPair, bind, Except.bind]
    cases (pairLayout (Ty.pair a l r)).keyToPath <;> rfl
  | dict items =>
    simp only [ofPy, nestedPair, bind, Except.bind]
    cases (pairLayout (Ty.pair a l r)).keyToPath <;> cases asRecord items <;> rfl
  | _ => simp only [ofPy, nestedPair, bind, Except.bind]

theorem P_pair (c : Cfg) (a : Ann) (l r : Ty) (hF : Pflat c (.pair a l r)) : P c (.pair a l r) := by
  intro cmp v hinv hty
  have hty' := hty
  obtain ⟨x, y, rfl, hx, hy⟩ := hty
  simp only [inv, Bool.and_eq_true] at hinv
  obtain ⟨flat, f1, f2, f3, f4, f5, f6⟩ := hF cmp (.pair x y) (by simp [leavesInv, hinv.1, hinv.2]) hty'
  rw [toPy_pair_eq, f1]
  simp only [Except.bind]
  have hidx : (pairLayout (.pair a l r)).idxToPath = flat.map (·.1) := by
    rw [pairLayout, getTypeLayout_idx, f5]
  cases hm : (if cmp = true then none else (pairLayout (.pair a l r)).pathToKey) with
  | none =>
    refine ⟨.tuple (flat.map (·.2)), rfl, ?_, fun _ => ?_, fun _ => by simp⟩
    · rw [ofPy_pair_eq]
      simp only [hidx, objOfTuple_zip, Except.bind]
      exact f2
    · simp only [PyObj.hashable]
      apply hashableList_of_all
      intro p hp
      obtain ⟨e, he, rfl⟩ := List.mem_map.mp hp
      exact f6 ‹_› e he
  | some p2k =>
    have hcmp : cmp = false := by
      cases cmp with
      | false => rfl
      | true => simp at hm
    subst hcmp
    simp only [Bool.false_eq_true, if_false] at hm
    have hnames : (p2k.map (·.2)).Nodup := getTypeLayout_names_nodup _ _ _ hm
    have hpaths : p2k.map (·.1) = flat.map (·.1) := by
      rw [getTypeLayout_p2k_paths _ _ _ hm, f5]
    obtain ⟨T, hT1, hT2⟩ := exists_tri p2k flat hpaths
    have hTp : (T.map (·.1)).Nodup := by
      have := (pairArgs_paths (.pair a l r)).1
      rw [← f5, hT2, List.map_map] at this
      exact this
    have hTk : (T.map (·.2.1)).Nodup := by
      rw [hT1, List.map_map] at hnames
      exact hnames
    have hrec := recordOf_tri T hTp hTk [] T rfl
    simp only [List.map_nil] at hrec
    refine ⟨.record (T.map fun t => (t.2.1, t.2.2)), ?_, ?_, (fun h => by cases h), fun _ => by simp⟩
    · show (recordOf p2k flat []).map PyObj.record = _
      rw [hT1, hT2, hrec]; rfl
    · rw [ofPy_pair_eq]
      have hk2p : (pairLayout (.pair a l r)).keyToPath = some (T.map fun t => (t.2.1, t.1)) := by
        rw [pairLayout, getTypeLayout_k2p _ _ _ hm, hT1]
        congr 1
        have := foldl_dset_nodup (fun (e : Path × String) => (e.2, e.1)) (T.map fun t => (t.1, t.2.1)) []
          (by rw [List.nil_append, List.map_map, List.map_map]; exact hTk)
        rw [List.nil_append, List.map_map] at this
        exact this
      have hobj := objOfRecord_tri T hTp hTk [] T rfl
      simp only [List.map_nil] at hobj
      simp only [hk2p, hobj, Except.bind, ← hT2]
      exact f2

theorem getTypeLayout_infer (flat : List (Path × Ty)) :
    (getTypeLayout flat true).pathToKey = some (renameGo (layoutGo flat 0 []) (declared (layoutGo flat 0 []))) := by
  unfold getTypeLayout
  simp

theorem toPy_or_eq (c : Cfg) (cmp : Bool) (a : Ann) (l r : Ty) (v : Val) :
    toPy c cmp (.or a l r) v =
      (orVal c cmp (.or a l r) v).bind fun pp =>
        match (orLayout (.or a l r)).pathToKey with
        | none => .error .assertion
        | some p2k =>
          match dget p2k pp.1 with
          | none => .error .key
          | some entrypoint =>
            if (Ty.or a l r).isEnum then .ok (.str entrypoint)
            else if cmp then .ok (.tuple [.str entrypoint, pp.2]) else .ok (.record [(entrypoint, pp.2)]) := by
  cases v with
  | left x =>
    rw [toPy, orVal]
    simp only [bind, Except.bind]
    cases hA : (Except.map (pre false) (if l.isOr = true then orVal c cmp l x else Except.map (fun py => ([], py)) (toPy c cmp l x))) with
    | error e => rfl
    | ok pp => obtain ⟨path, py⟩ := pp; rfl
  | right y =>
    rw [toPy, orVal]
    simp only [bind, Except.bind]
    cases hA : (Except.map (pre true) (if r.isOr = true then orVal c cmp r y else Except.map (fun py => ([], py)) (toPy c cmp r y))) with
    | error e => rfl
    | ok pp => obtain ⟨path, py⟩ := pp; rfl
  | _ => simp [toPy, orVal, bind, Except.bind]

theorem P_or (c : Cfg) (a : Ann) (l r : Ty) (hO : Por c (.or a l r)) : P c (.or a l r) := by
  intro cmp v hinv hty
  simp only [inv, Bool.and_eq_true] at hinv
  obtain ⟨path, py, o1, o2, o3, o4, o5⟩ := hO cmp v (by simp [orLeavesInv, hinv.1, hinv.2]) hty
  have hp2k := getTypeLayout_infer (orArgs (.or a l r))
  generalize hg : renameGo (layoutGo (orArgs (.or a l r)) 0 []) (declared (layoutGo (orArgs (.or a l r)) 0 [])) = p2k at hp2k
  have hpaths : p2k.map (·.1) = (orArgs (.or a l r)).map (·.1) := getTypeLayout_p2k_paths _ _ _ hp2k
  have hnames : (p2k.map (·.2)).Nodup := getTypeLayout_names_nodup _ _ _ hp2k
  have hpnd : (p2k.map (·.1)).Nodup := by rw [hpaths]; exact (orArgs_paths _).1
  -- the name of the leaf the value lands on
  obtain ⟨name, hname⟩ : ∃ name, (path, name) ∈ p2k := by
    rw [← hpaths] at o2
    obtain ⟨e, he, rfl⟩ := List.mem_map.mp o2
    exact ⟨e.2, he⟩
  have hget : dget p2k path = some name := dget_of_mem_nodup hpnd hname
  have hk2p : (orLayout (.or a l r)).keyToPath = some (p2k.map fun e => (e.2, e.1)) := by
    rw [orLayout, getTypeLayout_k2p _ _ _ hp2k]
    congr 1
    have := foldl_dset_nodup (fun (e : Path × String) => (e.2, e.1)) p2k []
      (by rw [List.nil_append, List.map_map]; exact hnames)
    rw [List.nil_append] at this
    exact this
  have hgetk : dget (p2k.map fun e => (e.2, e.1)) name = some path := by
    apply dget_of_mem_nodup
    · rw [List.map_map]; exact hnames
    · exact List.mem_map.mpr ⟨(path, name), hname, rfl⟩
  have hpne : path ≠ [] := by
    obtain ⟨e, he, rfl⟩ := List.mem_map.mp o2
    exact (orArgs_paths _).2 e he
  rw [toPy_or_eq, o1]
  simp only [Except.bind, orLayout, hp2k, hget]
  by_cases he : (Ty.or a l r).isEnum = true
  · refine ⟨.str name, by simp [he], ?_, fun _ => by simp [PyObj.hashable], fun _ => by simp⟩
    have hu : allUnits (.or a l r) = true := by simpa [Ty.isEnum, allUnits] using he
    simp only [ofPy, he, if_true, bind, Except.bind, hk2p, hgetk]
    cases path with
    | nil => exact absurd rfl hpne
    | cons b rest =>
      cases b
      · have := o5 hu; simp only [orNested] at this; exact this
      · have := o5 hu; simp only [orNested] at this; exact this
  · simp only [he, Bool.false_eq_true, if_false]
    cases cmp with
    | true =>
      refine ⟨.tuple [.str name, py], by simp, ?_, fun _ => ?_, fun _ => by simp⟩
      · simp only [ofPy, bind, Except.bind, hk2p, hgetk]
        cases path with
        | nil => exact absurd rfl hpne
        | cons b rest =>
          cases b
          · have := o3; simp only [orNested] at this; exact this
          · have := o3; simp only [orNested] at this; exact this
      · simp [PyObj.hashable, PyObj.hashableList, o4 rfl]
    | false =>
      refine ⟨.record [(name, py)], by simp, ?_, (fun h => by cases h), fun _ => by simp⟩
      simp only [ofPy, bind, Except.bind, hk2p, hgetk]
      cases path with
      | nil => exact absurd rfl hpne
      | cons b rest =>
        cases b
        · have := o3; simp only [orNested] at this; exact this
        · have := o3; simp only [orNested] at this; exact this


/-- all three statements, for every type, by induction over the type -/
theorem roundtrip_all (c : Cfg) (hu : c.unitHashable = true) (ht : c.tryUnpack = false) (hl : Spec.PyConv.CodeLaw c) :
    ∀ τ : Ty, P c τ ∧ Pflat c τ ∧ Por c τ := by
  intro τ
  induction τ with
  | scalar a s =>
    exact ⟨P_scalar c hu ht a s, fun _ _ h => by simp [leavesInv] at h, fun _ _ h => by simp [orLeavesInv] at h⟩
  | pair a l r ihl ihr =>
    have hF := pair_node c a l r ihl.1 ihl.2.1 ihr.1 ihr.2.1
    exact ⟨P_pair c a l r hF, hF, fun _ _ h => by simp [orLeavesInv] at h⟩
  | or a l r ihl ihr =>
    have hO := or_node c a l r ihl.1 ihl.2.2 ihr.1 ihr.2.2
    exact ⟨P_or c a l r hO, fun _ _ h => by simp [leavesInv] at h, hO⟩
  | option a t ih =>
    exact ⟨P_option c a t ih.1, fun _ _ h => by simp [leavesInv] at h, fun _ _ h => by simp [orLeavesInv] at h⟩
  | list a t ih =>
    exact ⟨P_list c a t ih.1, fun _ _ h => by simp [leavesInv] at h, fun _ _ h => by simp [orLeavesInv] at h⟩
  | set a t ih =>
    exact ⟨P_set c a t ih.1, fun _ _ h => by simp [leavesInv] at h, fun _ _ h => by simp [orLeavesInv] at h⟩
  | map a k v ihk ihv =>
    exact ⟨P_map c a k v ihk.1 ihv.1, fun _ _ h => by simp [leavesInv] at h, fun _ _ h => by simp [orLeavesInv] at h⟩
  | bigMap a k v ihk ihv =>
    exact ⟨P_bigMap c a k v ihk.1 ihv.1, fun _ _ h => by simp [leavesInv] at h, fun _ _ h => by simp [orLeavesInv] at h⟩
  | contract a p _ =>
    exact ⟨P_contract c a p, fun _ _ h => by simp [leavesInv] at h, fun _ _ h => by simp [orLeavesInv] at h⟩
  | ticket a t ih =>
    exact ⟨P_ticket c a t ih.1, fun _ _ h => by simp [leavesInv] at h, fun _ _ h => by simp [orLeavesInv] at h⟩
  | lambda a p r _ _ =>
    exact ⟨P_lambda c hl a p r, fun _ _ h => by simp [leavesInv] at h, fun _ _ h => by simp [orLeavesInv] at h⟩

/-- the keys of the record a named pair converts to are the field names of its layout, in order -/
theorem pair_record_keys (c : Cfg) (hu : c.unitHashable = true) (ht : c.tryUnpack = false)
    (hl : Spec.PyConv.CodeLaw c) (a : Ann) (l r : Ty) (v : Val)
    (hinv : inv c false (.pair a l r) = true) (hty : HasTy c (.pair a l r) v)
    (p2k : List (Path × String)) (hm : (pairLayout (.pair a l r)).pathToKey = some p2k) :
    ∃ fields, toPy c false (.pair a l r) v = .ok (.record fields) ∧ fields.map (·.1) = p2k.map (·.2) := by
  have hF := (roundtrip_all c hu ht hl (.pair a l r)).2.1
  have hinv' := hinv
  have hty' := hty
  obtain ⟨x, y, rfl, hx, hy⟩ := hty
  simp only [inv, Bool.and_eq_true] at hinv
  obtain ⟨flat, f1, f2, f3, f4, f5, f6⟩ := hF false (.pair x y) (by simp [leavesInv, hinv.1, hinv.2]) hty'
  rw [toPy_pair_eq, f1]
  simp only [Except.bind, Bool.false_eq_true, if_false, hm]
  have hnames : (p2k.map (·.2)).Nodup := getTypeLayout_names_nodup _ _ _ hm
  have hpaths : p2k.map (·.1) = flat.map (·.1) := by
    rw [getTypeLayout_p2k_paths _ _ _ hm, f5]
  obtain ⟨T, hT1, hT2⟩ := exists_tri p2k flat hpaths
  have hTp : (T.map (·.1)).Nodup := by
    have := (pairArgs_paths (.pair a l r)).1
    rw [← f5, hT2, List.map_map] at this
    exact this
  have hTk : (T.map (·.2.1)).Nodup := by
    rw [hT1, List.map_map] at hnames
    exact hnames
  have hrec := recordOf_tri T hTp hTk [] T rfl
  simp only [List.map_nil] at hrec
  refine ⟨T.map fun t => (t.2.1, t.2.2), ?_, ?_⟩
  · rw [hT1, hT2, hrec]; rfl
  · rw [hT1, List.map_map, List.map_map]; rfl

end Impl.PyConv
