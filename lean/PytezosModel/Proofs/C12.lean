import PytezosModel.Michelson.PyObj
/-! helper lemmas for C12 (Python-object conversion) -/
namespace Impl.PyConv

/-! ### dict lemmas -/
section dict
variable {κ α : Type} [DecidableEq κ]

theorem dget_mem {xs : List (κ × α)} {k : κ} {v : α} (h : dget xs k = some v) : (k, v) ∈ xs := by
  induction xs with
  | nil => simp [dget] at h
  | cons e rest ih =>
    obtain ⟨k', v'⟩ := e
    simp only [dget] at h
    split at h
    · rename_i hk; cases h; subst hk; simp
    · exact List.mem_cons_of_mem _ (ih h)

theorem dget_of_mem_nodup {xs : List (κ × α)} {k : κ} {v : α} (hn : (xs.map (·.1)).Nodup) (h : (k, v) ∈ xs) :
    dget xs k = some v := by
  induction xs with
  | nil => simp at h
  | cons e rest ih =>
    obtain ⟨k', v'⟩ := e
    simp only [List.map_cons, List.nodup_cons] at hn
    simp only [dget]
    rcases List.mem_cons.mp h with h | h
    · cases h; simp
    · have : k' ≠ k := by
        intro hk; subst hk
        exact hn.1 (List.mem_map.mpr ⟨(k', v), h, rfl⟩)
      rw [if_neg this]; exact ih hn.2 h

theorem dset_of_not_mem {xs : List (κ × α)} {k : κ} {v : α} (h : k ∉ xs.map (·.1)) : dset xs k v = xs ++ [(k, v)] := by
  induction xs with
  | nil => rfl
  | cons e rest ih =>
    obtain ⟨k', v'⟩ := e
    simp only [List.map_cons, List.mem_cons, not_or] at h
    simp only [dset]
    rw [if_neg (fun hk => h.1 hk.symm), ih h.2]; rfl

theorem foldl_dset_nodup {β : Type} (f : β → κ × α) (ys : List β) (acc : List (κ × α))
    (hn : ((acc ++ ys.map f).map (·.1)).Nodup) :
    ys.foldl (fun d e => dset d (f e).1 (f e).2) acc = acc ++ ys.map f := by
  induction ys generalizing acc with
  | nil => simp
  | cons y ys ih =>
    simp only [List.foldl_cons, List.map_cons]
    have hnot : (f y).1 ∉ acc.map (·.1) := by
      simp only [List.map_append, List.map_cons] at hn
      have := (List.nodup_append.mp hn).2.2
      intro hm
      exact this _ hm _ (List.mem_cons_self) rfl
    rw [dset_of_not_mem hnot]
    have : acc ++ f y :: ys.map f = (acc ++ [((f y).1, (f y).2)]) ++ ys.map f := by simp
    rw [this]
    apply ih
    rw [← this]; exact hn

theorem dget_append (xs ys : List (κ × α)) (k : κ) :
    dget (xs ++ ys) k = match dget xs k with
      | some v => some v
      | none => dget ys k := by
  induction xs with
  | nil => simp [dget]
  | cons e rest ih =>
    obtain ⟨k', v'⟩ := e
    simp only [List.cons_append, dget]
    split
    · rfl
    · exact ih

end dict

/-! ### relative paths: `pre`, `strip`, lookups -/
section paths
variable {α : Type}

theorem dget_map_pre (ls : List (Path × α)) (b : Bool) (q : Path) : dget (ls.map (pre b)) (b :: q) = dget ls q := by
  induction ls with
  | nil => rfl
  | cons e rest ih =>
    obtain ⟨p, v⟩ := e
    simp only [List.map_cons, pre, dget, ih]
    by_cases h : p = q
    · simp [h]
    · simp [h]

theorem dget_map_pre_ne (ls : List (Path × α)) {b b' : Bool} (h : b ≠ b') (q : Path) :
    dget (ls.map (pre b)) (b' :: q) = none := by
  induction ls with
  | nil => rfl
  | cons e rest ih =>
    obtain ⟨p, v⟩ := e
    simp only [List.map_cons, pre, dget, ih]
    simp [h]

theorem dget_nil_of_nonempty (ls : List (Path × α)) (h : ∀ e ∈ ls, e.1 ≠ []) : dget ls [] = none := by
  induction ls with
  | nil => rfl
  | cons e rest ih =>
    obtain ⟨p, v⟩ := e
    have hp : p ≠ [] := h (p, v) List.mem_cons_self
    simp only [dget, if_neg hp]
    exact ih (fun e he => h e (List.mem_cons_of_mem _ he))

theorem strip_append (b : Bool) (xs ys : List (Path × PyObj)) : strip b (xs ++ ys) = strip b xs ++ strip b ys := by
  induction xs with
  | nil => rfl
  | cons e rest ih =>
    obtain ⟨p, v⟩ := e
    cases p with
    | nil => simpa [strip] using ih
    | cons b' q =>
      simp only [List.cons_append, strip]
      split
      · simp [ih]
      · exact ih

theorem strip_map_pre (b : Bool) (ls : List (Path × PyObj)) : strip b (ls.map (pre b)) = ls := by
  induction ls with
  | nil => rfl
  | cons e rest ih =>
    obtain ⟨p, v⟩ := e
    simp [pre, strip, ih]

theorem strip_map_pre_ne {b b' : Bool} (h : b ≠ b') (ls : List (Path × PyObj)) : strip b' (ls.map (pre b)) = [] := by
  induction ls with
  | nil => rfl
  | cons e rest ih =>
    obtain ⟨p, v⟩ := e
    simp [pre, strip, ih, h]

end paths

/-! ### `mapE` -/

theorem mapE_roundtrip {α β : Type} (f : α → Except Err β) (g : β → Except Err α) (xs : List α)
    (h : ∀ x ∈ xs, ∃ y, f x = .ok y ∧ g y = .ok x) :
    ∃ ys, mapE f xs = .ok ys ∧ mapE g ys = .ok xs ∧ ys.length = xs.length
      ∧ ∀ y ∈ ys, ∃ x ∈ xs, f x = .ok y ∧ g y = .ok x := by
  induction xs with
  | nil => exact ⟨[], rfl, rfl, rfl, by simp⟩
  | cons x xs ih =>
    obtain ⟨y, hy, hg⟩ := h x List.mem_cons_self
    obtain ⟨ys, hys, hgs, hl, hm⟩ := ih (fun x hx => h x (List.mem_cons_of_mem _ hx))
    refine ⟨y :: ys, ?_, ?_, by simp [hl], ?_⟩
    · simp [mapE, hy, hys, bind, Except.bind]
    · simp [mapE, hg, hgs, bind, Except.bind]
    · intro y' hy'
      rcases List.mem_cons.mp hy' with rfl | hy'
      · exact ⟨x, List.mem_cons_self, hy, hg⟩
      · obtain ⟨x', hx', h1, h2⟩ := hm y' hy'
        exact ⟨x', List.mem_cons_of_mem _ hx', h1, h2⟩

/-! ### records: three parallel lists (path, name, object) -/

abbrev Tri := Path × String × PyObj

theorem recordOf_tri (T : List Tri) (hp : (T.map (·.1)).Nodup) (hk : (T.map (·.2.1)).Nodup) :
    ∀ (T1 T2 : List Tri), T = T1 ++ T2 →
      recordOf (T.map fun t => (t.1, t.2.1)) (T2.map fun t => (t.1, t.2.2)) (T1.map fun t => (t.2.1, t.2.2))
        = .ok (T.map fun t => (t.2.1, t.2.2)) := by
  intro T1 T2
  induction T2 generalizing T1 with
  | nil => intro h; simp [recordOf, h]
  | cons t T2 ih =>
    intro h
    obtain ⟨p, k, py⟩ := t
    have hmem : (p, k) ∈ T.map (fun t => (t.1, t.2.1)) := by
      rw [h]; simp
    have hget : dget (T.map fun t => (t.1, t.2.1)) p = some k := by
      apply dget_of_mem_nodup _ hmem
      rw [List.map_map]; exact hp
    simp only [List.map_cons, recordOf, hget]
    have hnot : k ∉ (T1.map fun t => (t.2.1, t.2.2)).map (·.1) := by
      rw [h] at hk
      simp only [List.map_append, List.map_cons] at hk
      have := (List.nodup_append.mp hk).2.2
      intro hm
      simp only [List.map_map] at hm
      exact this k (by simpa [Function.comp] using hm) k List.mem_cons_self rfl
    rw [dset_of_not_mem hnot]
    have := ih (T1 ++ [(p, k, py)]) (by simp [h])
    simpa using this

theorem objOfRecord_tri (T : List Tri) (hp : (T.map (·.1)).Nodup) (hk : (T.map (·.2.1)).Nodup) :
    ∀ (T1 T2 : List Tri), T = T1 ++ T2 →
      objOfRecord (T.map fun t => (t.2.1, t.1)) (T2.map fun t => (t.2.1, t.2.2)) (T1.map fun t => (t.1, t.2.2))
        = .ok (T.map fun t => (t.1, t.2.2)) := by
  intro T1 T2
  induction T2 generalizing T1 with
  | nil => intro h; simp [objOfRecord, h]
  | cons t T2 ih =>
    intro h
    obtain ⟨p, k, py⟩ := t
    have hmem : (k, p) ∈ T.map (fun t => (t.2.1, t.1)) := by
      rw [h]; simp
    have hget : dget (T.map fun t => (t.2.1, t.1)) k = some p := by
      apply dget_of_mem_nodup _ hmem
      rw [List.map_map]; exact hk
    simp only [List.map_cons, objOfRecord, hget]
    have hnot : p ∉ (T1.map fun t => (t.1, t.2.2)).map (·.1) := by
      rw [h] at hp
      simp only [List.map_append, List.map_cons] at hp
      have := (List.nodup_append.mp hp).2.2
      intro hm
      simp only [List.map_map] at hm
      exact this p (by simpa [Function.comp] using hm) p List.mem_cons_self rfl
    rw [dset_of_not_mem hnot]
    have := ih (T1 ++ [(p, k, py)]) (by simp [h])
    simpa using this

theorem objOfTuple_zip (flat : List (Path × PyObj)) :
    objOfTuple (flat.map (·.1)) (flat.map (·.2)) = .ok flat := by
  induction flat with
  | nil => rfl
  | cons e rest ih =>
    obtain ⟨p, py⟩ := e
    simp [objOfTuple, ih, Except.map]

/-- two lists with the same paths are two projections of one list of triples -/
theorem exists_tri (p2k : List (Path × String)) (flat : List (Path × PyObj)) (h : p2k.map (·.1) = flat.map (·.1)) :
    ∃ T : List Tri, p2k = T.map (fun t => (t.1, t.2.1)) ∧ flat = T.map (fun t => (t.1, t.2.2)) := by
  induction p2k generalizing flat with
  | nil =>
    cases flat with
    | nil => exact ⟨[], rfl, rfl⟩
    | cons _ _ => simp at h
  | cons e rest ih =>
    cases flat with
    | nil => simp at h
    | cons f frest =>
      obtain ⟨p, k⟩ := e
      obtain ⟨p', py⟩ := f
      simp only [List.map_cons, List.cons.injEq] at h
      obtain ⟨rfl, h2⟩ := h
      obtain ⟨T, h3, h4⟩ := ih frest h2
      exact ⟨(p, k, py) :: T, by simp [h3], by simp [h4]⟩

/-! ### the layout keeps the paths of the flat arguments, in order -/

theorem layoutGo_paths (flat : List (Path × Ty)) (i : Nat) (res : List String) (acc : List (Path × String)) :
    (layoutGo flat i res acc).2.map (·.1) = acc.map (·.1) ++ flat.map (·.1) := by
  induction flat generalizing i res acc with
  | nil => simp [layoutGo]
  | cons e rest ih =>
    obtain ⟨p, t⟩ := e
    simp only [layoutGo]
    split <;> (try split) <;> simp [ih]

theorem getTypeLayout_idx (flat : List (Path × Ty)) (infer : Bool) :
    (getTypeLayout flat infer).idxToPath = flat.map (·.1) := by
  unfold getTypeLayout
  have := layoutGo_paths flat 0 [] []
  split
  rename_i reserved p2k heq
  rw [heq] at this
  simp only [List.map_nil, List.nil_append] at this
  split <;> simpa using this

theorem getTypeLayout_p2k_paths (flat : List (Path × Ty)) (infer : Bool) (p2k : List (Path × String))
    (h : (getTypeLayout flat infer).pathToKey = some p2k) : p2k.map (·.1) = flat.map (·.1) := by
  unfold getTypeLayout at h
  have := layoutGo_paths flat 0 [] []
  split at h
  rename_i reserved p2k' heq
  rw [heq] at this
  simp only [List.map_nil, List.nil_append] at this
  split at h
  · cases h
  · simp only [Option.some.injEq] at h; subst h; exact this

theorem getTypeLayout_k2p (flat : List (Path × Ty)) (infer : Bool) (p2k : List (Path × String))
    (h : (getTypeLayout flat infer).pathToKey = some p2k) :
    (getTypeLayout flat infer).keyToPath = some (p2k.foldl (fun d e => dset d e.2 e.1) []) := by
  unfold getTypeLayout at h ⊢
  split at h
  rename_i reserved p2k' heq
  simp only [heq]
  split at h
  · cases h
  · rename_i hc
    simp only [Option.some.injEq] at h; subst h
    simp [hc]

theorem getTypeLayout_none (flat : List (Path × Ty)) (infer : Bool)
    (h : (getTypeLayout flat infer).pathToKey = none) : (getTypeLayout flat infer).keyToPath = none := by
  unfold getTypeLayout at h ⊢
  split at h
  rename_i reserved p2k' heq
  simp only [heq]
  split at h
  · rename_i hc; simp [hc]
  · cases h

/-! ### paths of `pairArgs` / `orArgs`: non-empty and pairwise different -/

theorem map_pre_fst {α : Type} (b : Bool) (ls : List (Path × α)) : (ls.map (pre b)).map (·.1) = (ls.map (·.1)).map (b :: ·) := by
  simp [List.map_map, Function.comp, pre]

theorem nodup_map_cons (b : Bool) (ps : List Path) (h : ps.Nodup) : (ps.map (b :: ·)).Nodup := by
  induction ps with
  | nil => simp
  | cons p ps ih =>
    simp only [List.nodup_cons] at h
    simp only [List.map_cons, List.nodup_cons, List.mem_map, List.cons.injEq, true_and, exists_eq_right]
    exact ⟨h.1, ih h.2⟩

theorem nodup_pre_append {α β : Type} (ls : List (Path × α)) (rs : List (Path × β))
    (hl : (ls.map (·.1)).Nodup) (hr : (rs.map (·.1)).Nodup) :
    ((ls.map (·.1)).map (false :: ·) ++ (rs.map (·.1)).map (true :: ·)).Nodup := by
  rw [List.nodup_append]
  refine ⟨nodup_map_cons _ _ hl, nodup_map_cons _ _ hr, ?_⟩
  intro a ha b hb hab
  obtain ⟨a', _, rfl⟩ := List.mem_map.mp ha
  obtain ⟨b', _, rfl⟩ := List.mem_map.mp hb
  simp at hab

theorem pairArgs_paths (t : Ty) : ((pairArgs t).map (·.1)).Nodup ∧ ∀ e ∈ pairArgs t, e.1 ≠ [] := by
  induction t with
  | pair a l r ihl ihr =>
    simp only [pairArgs, List.map_append, map_pre_fst]
    constructor
    · apply nodup_pre_append
      · split
        · exact ihl.1
        · simp
      · split
        · exact ihr.1
        · simp
    · intro e he
      rcases List.mem_append.mp he with h | h <;>
      · obtain ⟨e', _, rfl⟩ := List.mem_map.mp h
        simp [pre]
  | _ => simp [pairArgs]

theorem orArgs_paths (t : Ty) : ((orArgs t).map (·.1)).Nodup ∧ ∀ e ∈ orArgs t, e.1 ≠ [] := by
  induction t with
  | or a l r ihl ihr =>
    simp only [orArgs, List.map_append, map_pre_fst]
    constructor
    · apply nodup_pre_append
      · split
        · exact ihl.1
        · simp
      · split
        · exact ihr.1
        · simp
    · intro e he
      rcases List.mem_append.mp he with h | h <;>
      · obtain ⟨e', _, rfl⟩ := List.mem_map.mp h
        simp [pre]
  | _ => simp [orArgs]

end Impl.PyConv
