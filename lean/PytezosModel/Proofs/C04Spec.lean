import PytezosModel.Proofs.C04Forge
/-! C04 helpers: on packable types the Python call never raises, and — when `iter_comb` is annotation-blind — the
optimized rendering *is* the canonical optimized form `Spec.Pack.optimized` (right-spine components; 2 / 3 / ≥ 4 layout). -/
namespace Impl.Pack
open VC Core Impl.Value Spec.Pack Spec.Value

/-- `iter_comb` is annotation-blind in the source read now (C17's repair) -/
theorem consults_false : consults = false := by decide
theorem sourceOk_true : Impl.Pack.sourceOk = true := by decide

theorem excl_facts : excluded "big_map" = true ∧ excluded "ticket" = true ∧ excluded "sapling_state" = true ∧
    excluded "operation" = true := by decide

theorem pairNode_opt_eq_layout (ma mb : Mich) (items : List Mich) : pairNode .optimized ma mb items = layout items := by
  match items with
  | [] => simp [pairNode, layout]
  | [a] => simp [pairNode, layout]
  | [a, b] => simp [pairNode, layout, combLayout]
  | [a, b, c] => simp [pairNode, layout, combLayout]
  | a :: b :: c :: d :: rest => simp [pairNode, layout, combLayout]

theorem optL_eq_map (env : Env) (xs : List Val) : optL env xs = xs.map (fun x => (optBoth env x).1) := by
  induction xs with
  | nil => simp [optL]
  | cons x xs ih => simp [optL, ih]

theorem optE_eq_map (env : Env) (kvs : List (Val × Val)) :
    optE env kvs = kvs.map (fun kv => .prim "Elt" [(optBoth env kv.1).1, (optBoth env kv.2).1] []) := by
  induction kvs with
  | nil => simp [optE]
  | cons kv kvs ih => obtain ⟨k, v⟩ := kv; simp [optE, ih]

def SpecEq (env : Env) (lz : Option Bool) (v : Val) : Prop :=
  (render env .optimized lz v).1 = (optBoth env v).1 ∧
  (flattens v = true → (render env .optimized lz v).2 = (optBoth env v).2) ∧
  (flattens v = false → (optBoth env v).2 = [(optBoth env v).1])

/-- **PACK's Micheline is the canonical optimized form** (annotation-blind `iter_comb`) -/
theorem render_eq_spec (env : Env) (hc : consults = false) :
    ∀ (τ : Ty) (lz : Option Bool) (v : Val), packable τ = true → hasTy env τ v = true → SpecEq env lz v := by
  intro τ
  induction τ with
  | leaf l a =>
    intro lz v hp hty
    cases l <;> cases v <;> simp [hasTy] at hty <;>
      simp [SpecEq, render, optBoth, one, flattens, tsToMich, domToMich]
  | option t a ih =>
    intro lz v hp hty
    simp only [packable, Bool.and_eq_true] at hp
    cases v <;> simp [hasTy] at hty <;> simp [SpecEq, render, optBoth, one, flattens]
    exact (ih lz _ hp.2 hty).1
  | or l r a ihl ihr =>
    intro lz v hp hty
    simp only [packable, Bool.and_eq_true] at hp
    cases v <;> simp [hasTy] at hty <;> simp [SpecEq, render, optBoth, one, flattens]
    · exact (ihl lz _ hp.1.2 hty).1
    · exact (ihr lz _ hp.2 hty).1
  | pair l r a ihl ihr =>
    intro lz v hp hty
    simp only [packable, Bool.and_eq_true] at hp
    cases v <;> simp [hasTy] at hty
    rename_i n x y
    have hx := ihl lz x hp.1.2 hty.1.2
    have hy := ihr lz y hp.2 hty.2
    have hitems : ((render env .optimized lz x).1 ::
        (if flattens y then (render env .optimized lz y).2 else [(render env .optimized lz y).1])) =
        (optBoth env x).1 :: (optBoth env y).2 := by
      by_cases hf : flattens y = true
      · simp [hf, hx.1, hy.2.1 hf]
      · have hf' : flattens y = false := by simpa using hf
        simp [hf', hx.1, hy.1, hy.2.2 hf']
    have hfl : flattens (.pair n x y) = true := by simp [flattens, hc]
    refine ⟨?_, ?_, ?_⟩
    · rw [render_pair]
      simp only [hitems, pairNode_opt_eq_layout, optBoth]
    · intro _
      rw [render_pair]
      simp only [hitems, optBoth]
    · intro h; rw [hfl] at h; exact absurd h (by simp)
  | list t a ih =>
    intro lz v hp hty
    simp only [packable, Bool.and_eq_true] at hp
    cases v <;> simp only [hasTy, Bool.false_eq_true] at hty
    rename_i xs
    simp only [SpecEq, render, optBoth, one, flattens, renderL_eq_map, optL_eq_map, Bool.false_eq_true, false_implies,
      implies_true, and_true, Mich.seq.injEq]
    apply List.map_congr_left
    intro x hx
    exact (ih lz x hp.2 (List.all_eq_true.mp hty x hx)).1
  | set t a ih =>
    intro lz v hp hty
    simp only [packable, Bool.and_eq_true] at hp
    cases v <;> simp only [hasTy, Bool.false_eq_true, Bool.and_eq_true] at hty
    rename_i xs
    simp only [SpecEq, render, optBoth, one, flattens, renderL_eq_map, optL_eq_map, Bool.false_eq_true, false_implies,
      implies_true, and_true, Mich.seq.injEq]
    apply List.map_congr_left
    intro x hx
    exact (ih lz x hp.2 (List.all_eq_true.mp hty.1 x hx)).1
  | map k v a ihk ihv =>
    intro lz w hp hty
    simp only [packable, Bool.and_eq_true] at hp
    cases w <;> simp only [hasTy, Bool.false_eq_true, Bool.and_eq_true] at hty
    rename_i kvs
    simp only [SpecEq, render, optBoth, one, flattens, renderE_eq_map, optE_eq_map, Bool.false_eq_true, false_implies,
      implies_true, and_true, Mich.seq.injEq]
    apply List.map_congr_left
    intro kv hkv
    have t := all_and _ _ _ hty.1 kv hkv
    simp [(ihk lz _ hp.1.2 t.1).1, (ihv lz _ hp.2 t.2).1]
  | bigMap k v a _ _ => intro lz w hp; simp [packable, excl_facts] at hp
  | lambda x y a _ _ =>
    intro lz w hp hty
    cases w <;> simp only [hasTy, Bool.false_eq_true] at hty
    simp [SpecEq, render, optBoth, one, flattens]
  | contract p a _ =>
    intro lz w hp hty
    cases w <;> simp only [hasTy, Bool.false_eq_true] at hty
    simp [SpecEq, render, optBoth, one, flattens, domToMich]
  | ticket t a _ => intro lz w hp; simp [packable, excl_facts] at hp
  | saplingState m a => intro lz w hp; simp [packable] at hp

/-- on packable types `to_micheline_value` never raises (no big_map / sapling_state inside; timestamps and field
elements are in range) -/
theorem no_raise_packable (env : Env) (mode : Mode) : ∀ (τ : Ty) (lz : Option Bool) (v : Val),
    packable τ = true → hasTy env τ v = true → raises mode lz v = false := by
  intro τ
  induction τ with
  | leaf l a =>
    intro lz v hp hty
    cases l <;> cases v <;> simp [hasTy] at hty <;> simp [raises]
    · rename_i t
      intro _ hg
      have := guard_sub t hg
      simp [this.1, this.2]
    · intro _
      obtain ⟨⟨h0, h1⟩, h2⟩ := hty
      refine ⟨h0, ?_⟩
      have : ((VC.frModulus : Nat) : Int) ≤ ((2 ^ 256 : Nat) : Int) := by exact_mod_cast h2
      have h3 : ((2 ^ 256 : Nat) : Int) = (2 : Int) ^ 256 := by norm_cast
      omega
  | option t a ih =>
    intro lz v hp hty
    simp only [packable, Bool.and_eq_true] at hp
    cases v <;> simp [hasTy] at hty <;> simp [raises]
    exact ih lz _ hp.2 hty
  | or l r a ihl ihr =>
    intro lz v hp hty
    simp only [packable, Bool.and_eq_true] at hp
    cases v <;> simp [hasTy] at hty <;> simp [raises]
    · exact ihl lz _ hp.1.2 hty
    · exact ihr lz _ hp.2 hty
  | pair l r a ihl ihr =>
    intro lz v hp hty
    simp only [packable, Bool.and_eq_true] at hp
    cases v <;> simp [hasTy] at hty
    simp [raises, ihl lz _ hp.1.2 hty.1.2, ihr lz _ hp.2 hty.2]
  | list t a ih =>
    intro lz v hp hty
    simp only [packable, Bool.and_eq_true] at hp
    cases v <;> simp only [hasTy, Bool.false_eq_true] at hty
    simp only [raises]
    exact raisesL_false mode lz _ (fun x hx => ih lz x hp.2 (List.all_eq_true.mp hty x hx))
  | set t a ih =>
    intro lz v hp hty
    simp only [packable, Bool.and_eq_true] at hp
    cases v <;> simp only [hasTy, Bool.false_eq_true, Bool.and_eq_true] at hty
    simp only [raises]
    exact raisesL_false mode lz _ (fun x hx => ih lz x hp.2 (List.all_eq_true.mp hty.1 x hx))
  | map k v a ihk ihv =>
    intro lz w hp hty
    simp only [packable, Bool.and_eq_true] at hp
    cases w <;> simp only [hasTy, Bool.false_eq_true, Bool.and_eq_true] at hty
    simp only [raises]
    apply raisesE_false
    intro kv hkv
    have t := all_and _ _ _ hty.1 kv hkv
    exact ⟨ihk lz _ hp.1.2 t.1, ihv lz _ hp.2 t.2⟩
  | bigMap k v a _ _ => intro lz w hp; simp [packable, excl_facts] at hp
  | lambda x y a _ _ =>
    intro lz w hp hty
    cases w <;> simp only [hasTy, Bool.false_eq_true] at hty
    simp [raises]
  | contract p a _ =>
    intro lz w hp hty
    cases w <;> simp only [hasTy, Bool.false_eq_true] at hty
    simp [raises]
  | ticket t a _ => intro lz w hp; simp [packable, excl_facts] at hp
  | saplingState m a => intro lz w hp; simp [packable] at hp

end Impl.Pack
