import PytezosModel.Proofs.C06Codec
/-! C06 helper lemmas, part 2: the generic layout round trip (induction on the layout), then contents and groups. -/
namespace C06Proofs
open Core OpLayout Impl.OpForge Spec.Op
open Generated.C06 (Codec Cond Field)

theorem rt_fields (htab : Generated.C06.reservedEntrypoints = some reservedEntrypoints) :
    ∀ (fs : List (String × SCodec)) (vs : List Val), WFVals fs vs = true →
      ∀ bs, encodeFields (eraseFs fs) vs = some bs → ∀ rest, decodeFields fs (bs ++ rest) = some (vs, rest)
  | [], [], _, bs, he, rest => by
    simp only [eraseFs, List.map_nil, encodeFields, Option.some.injEq] at he
    subst he
    simp [decodeFields]
  | [], _ :: _, hw, _, _, _ => by simp [WFVals] at hw
  | _ :: _, [], hw, _, _, _ => by simp [WFVals] at hw
  | (n, c) :: fs, v :: vs, hw, bs, he, rest => by
    simp only [WFVals, Bool.and_eq_true] at hw
    simp only [eraseFs, List.map_cons, encodeFields, Option.bind_eq_bind, Option.bind_eq_some_iff, Option.pure_def,
      Option.some.injEq] at he
    obtain ⟨a, ha, b, hb, rfl⟩ := he
    have h1 := rt_codec htab c v hw.1 a ha (b ++ rest)
    have h2 := rt_fields htab fs vs hw.2 b hb rest
    simp only [List.append_assoc, decodeFields, h1, h2, Option.map_some]

theorem rt_field (htab : Generated.C06.reservedEntrypoints = some reservedEntrypoints)
    (f : SField) (v : FVal) (hw : WFF f v = true) (bs : Bytes) (he : encodeF f.erase v = some bs) (rest : Bytes) :
    decodeF f (bs ++ rest) = some (normF f v, rest) := by
  cases f with
  | req n c =>
    cases v with
    | opt o => simp [WFF] at hw
    | req v =>
      simp only [WFF] at hw
      simp only [SField.erase, encodeF] at he
      simp [decodeF, normF, rt_codec htab c v hw bs he rest]
  | opt n cond fs =>
    cases v with
    | req v => simp [WFF] at hw
    | opt o =>
      cases o with
      | none =>
        simp only [SField.erase, encodeF, forgeBool, Option.some.injEq] at he
        subst he
        simp [decodeF, normF]
      | some vs =>
        simp only [WFF] at hw
        simp only [SField.erase, encodeF] at he
        by_cases hel : (cond == Cond.elideDefaultUnit && elided vs) = true
        · simp only [hel, if_true, forgeBool, Option.some.injEq] at he
          subst he
          simp [decodeF, normF, hel]
        · cases hb : encodeFields (eraseFs fs) vs with
          | none => simp [hel, hb] at he
          | some body =>
            simp only [hel, hb, Option.map_some, forgeBool] at he
            simp only [if_true, Bool.false_eq_true, if_false, Option.some.injEq] at he
            subst he
            have h := rt_fields htab fs vs hw body hb rest
            simp [decodeF, normF, hel, h]

/-- **generic layout round trip** (induction on the layout) -/
theorem rt_layout (htab : Generated.C06.reservedEntrypoints = some reservedEntrypoints) :
    ∀ (l : List SField) (r : Record), WFRecord l r = true →
      ∀ bs, encodeL (eraseL l) r = some bs → ∀ rest, decodeL l (bs ++ rest) = some (normL l r, rest)
  | [], [], _, bs, he, rest => by
    simp only [eraseL, List.map_nil, encodeL, Option.some.injEq] at he
    subst he
    simp [decodeL, normL]
  | [], _ :: _, hw, _, _, _ => by simp [WFRecord] at hw
  | _ :: _, [], hw, _, _, _ => by simp [WFRecord] at hw
  | f :: fs, v :: vs, hw, bs, he, rest => by
    simp only [WFRecord, Bool.and_eq_true] at hw
    simp only [eraseL, List.map_cons, encodeL, Option.bind_eq_bind, Option.bind_eq_some_iff, Option.pure_def,
      Option.some.injEq] at he
    obtain ⟨a, ha, b, hb, rfl⟩ := he
    have h1 := rt_field htab f v hw.1 a ha (b ++ rest)
    have h2 := rt_layout htab fs vs hw.2 b hb rest
    simp only [List.append_assoc, decodeL, h1, h2, Option.map_some, normL]

/-! ### contents -/

/-- the regenerated layouts and tags are the Tezos ones, and a tag determines its kind -/
def TablesOK : Prop :=
  ∀ row ∈ tezosOps, layoutOf row.kind = some (eraseL row.layout) ∧ tagOf row.kind = some row.tag ∧ row.tag < 256 ∧
    rowOfTag row.tag = some row ∧ rowOfKind row.kind = some row

theorem rowOfKind_some (k : String) (row : KindRow) (h : rowOfKind k = some row) : row ∈ tezosOps ∧ row.kind = k := by
  have h1 := List.mem_of_find?_eq_some h
  have h2 := List.find?_some h
  simp only [beq_iff_eq] at h2
  exact ⟨h1, h2⟩

theorem rt_content (htab : Generated.C06.reservedEntrypoints = some reservedEntrypoints) (ht : TablesOK)
    (c : Content) (hw : WFContent c = true) (bs : Bytes) (he : forgeOperation c = some bs) (rest : Bytes) :
    decodeContent (bs ++ rest) = some (normContent c, rest) ∧ 0 < bs.length := by
  unfold WFContent at hw
  cases hr : rowOfKind c.kind with
  | none => simp [hr] at hw
  | some row =>
    simp only [hr] at hw
    obtain ⟨hmem, hk⟩ := rowOfKind_some _ _ hr
    obtain ⟨h1, h2, h3, h4, _⟩ := ht row hmem
    rw [← hk] at hr
    simp only [forgeOperation, ← hk, h1, h2, natToBE_one row.tag h3, Option.bind_eq_bind, Option.bind_some, Option.bind_eq_some_iff,
      Option.pure_def, Option.some.injEq] at he
    obtain ⟨body, hb, rfl⟩ := he
    have h := rt_layout htab row.layout c.fields hw body hb rest
    refine ⟨?_, by simp⟩
    simp only [List.cons_append, List.nil_append, decodeContent, h4, h, Option.map_some, normContent, ← hk, hr]

theorem forgeContents_length : ∀ (cs : List Content) (bs : Bytes), forgeContents cs = some bs →
    (∀ c ∈ cs, ∀ b, forgeOperation c = some b → 0 < b.length) → cs.length ≤ bs.length
  | [], _, _, _ => by simp
  | c :: cs, bs, h, hp => by
    simp only [forgeContents, Option.bind_eq_bind, Option.bind_eq_some_iff, Option.pure_def, Option.some.injEq] at h
    obtain ⟨a, ha, b, hb, rfl⟩ := h
    have h1 := hp c (by simp) a ha
    have h2 := forgeContents_length cs b hb (fun c' hc' => hp c' (by simp [hc']))
    simp only [List.length_cons, List.length_append]
    omega

theorem rt_contents (htab : Generated.C06.reservedEntrypoints = some reservedEntrypoints) (ht : TablesOK) :
    ∀ (cs : List Content), (∀ c ∈ cs, WFContent c = true) → ∀ bs, forgeContents cs = some bs →
      ∀ fuel, cs.length ≤ fuel → decodeContents fuel bs = some (cs.map normContent)
  | [], _, bs, h, fuel, _ => by
    simp only [forgeContents, Option.some.injEq] at h
    subst h
    unfold decodeContents
    simp
  | c :: cs, hw, bs, h, fuel, hf => by
    simp only [forgeContents, Option.bind_eq_bind, Option.bind_eq_some_iff, Option.pure_def, Option.some.injEq] at h
    obtain ⟨a, ha, b, hb, rfl⟩ := h
    obtain ⟨f, rfl⟩ : ∃ f, fuel = f + 1 := ⟨fuel - 1, by simp only [List.length_cons] at hf; omega⟩
    obtain ⟨hdec, hpos⟩ := rt_content htab ht c (hw c (by simp)) a ha b
    have hrec := rt_contents htab ht cs (fun c' hc' => hw c' (by simp [hc'])) b hb f
      (by simp only [List.length_cons] at hf; omega)
    have hne : ¬ ((a ++ b).length = 0) := by simp only [List.length_append]; omega
    unfold decodeContents
    simp only [hne, if_false, hdec, hrec, Option.map_some, List.map_cons]

/-- **group round trip** -/
theorem rt_group (htab : Generated.C06.reservedEntrypoints = some reservedEntrypoints) (ht : TablesOK)
    (g : Group) (hw : WFGroup g = true) (bs : Bytes) (he : forgeGroup g = some bs) :
    decodeGroup bs = some (normGroup g) := by
  simp only [WFGroup, Bool.and_eq_true, beq_iff_eq, Bool.not_eq_true', List.isEmpty_eq_false_iff, List.all_eq_true] at hw
  obtain ⟨⟨hb, hne⟩, hall⟩ := hw
  unfold forgeGroup at he
  split at he
  · simp only [Option.map_eq_some_iff] at he
    obtain ⟨body, hbody, rfl⟩ := he
    have hlen := forgeContents_length g.contents body hbody
      (fun c hc b hb' => (rt_content htab ht c (hall c hc) b hb' []).2)
    have hpos : 0 < g.contents.length := List.length_pos_iff.mpr hne
    have hdec := rt_contents htab ht g.contents hall body hbody (g.branch ++ body).length
      (by simp only [List.length_append]; omega)
    have h1 : ¬ ((g.branch ++ body).length ≤ 32) := by simp only [List.length_append]; omega
    have h2 : (g.branch ++ body).drop 32 = body := by rw [← hb]; simp
    have h3 : (g.branch ++ body).take 32 = g.branch := by rw [← hb]; simp
    simp only [decodeGroup, h1, if_false, h2, h3, hdec, Option.map_some, normGroup]
  · simp at he

theorem forgeGroup_inj (htab : Generated.C06.reservedEntrypoints = some reservedEntrypoints) (ht : TablesOK)
    (g₁ g₂ : Group) (h₁ : WFGroup g₁ = true) (h₂ : WFGroup g₂ = true) (bs : Bytes)
    (f₁ : forgeGroup g₁ = some bs) (f₂ : forgeGroup g₂ = some bs) : normGroup g₁ = normGroup g₂ := by
  have a := rt_group htab ht g₁ h₁ bs f₁
  have b := rt_group htab ht g₂ h₂ bs f₂
  rw [a] at b
  exact Option.some.inj b

end C06Proofs
