import PytezosModel.Core.Zarith
namespace Core

theorem forgeNat_wf (n : Nat) : Bytes.WF (forgeNat n) := by
  induction n using Nat.strongRecOn with
  | _ n ih =>
    unfold forgeNat
    split
    · intro b hb; simp at hb; omega
    · intro b hb
      simp only [List.mem_cons] at hb
      rcases hb with h | h
      · omega
      · exact ih (n / 128) (by omega) b h

theorem unforgeNat_forgeNat (n : Nat) (rest : Bytes) : unforgeNat (forgeNat n ++ rest) = some (n, rest) := by
  induction n using Nat.strongRecOn with
  | _ n ih =>
    unfold forgeNat
    split
    · simp [unforgeNat, *]
    · have := ih (n / 128) (by omega)
      simp only [List.cons_append, unforgeNat, this, Option.map_some]
      have h : ¬ (n % 128 + 128 < 128) := by omega
      simp only [h, if_false]
      congr 2
      omega

/-- last group of a multi-byte `forgeNat` is never zero: the continuation reader accepts it in strict mode -/
theorem unforgeNatStrict_forgeNat (s : Bool) (n : Nat) (hn : 0 < n) (rest : Bytes) :
    unforgeInt.unforgeNatStrict s (forgeNat n ++ rest) = some (n, rest) := by
  induction n using Nat.strongRecOn with
  | _ n ih =>
    unfold forgeNat
    split
    · have : ¬ n = 0 := by omega
      simp [unforgeInt.unforgeNatStrict, *]
    · have := ih (n / 128) (by omega) (by omega)
      simp only [List.cons_append, unforgeInt.unforgeNatStrict, this, Option.map_some]
      have h : ¬ (n % 128 + 128 < 128) := by omega
      simp only [h, if_false]
      congr 2
      omega

theorem forgeInt_wf (z : Int) : Bytes.WF (forgeInt z) := by
  unfold forgeInt
  simp only
  split
  · intro b hb; simp at hb; split at hb <;> omega
  · intro b hb
    simp only [List.mem_cons] at hb
    rcases hb with h | h
    · split at h <;> omega
    · exact forgeNat_wf _ b h

/-- decoding a forged integer gives the integer back (both the pinned and the strict reader) -/
theorem unforgeInt_forgeInt (s : Bool) (z : Int) (rest : Bytes) :
    unforgeInt s (forgeInt z ++ rest) = some (z, rest) := by
  unfold forgeInt
  simp only
  by_cases hneg : z < 0
  · simp only [hneg, if_true]
    by_cases hs : z.natAbs < 64
    · simp only [hs, if_true, List.cons_append, List.nil_append, unforgeInt]
      have h1 : z.natAbs + 64 < 128 := by omega
      have h2 : (z.natAbs + 64) / 64 % 2 = 1 := by omega
      have h3 : (z.natAbs + 64) % 64 = z.natAbs := by omega
      simp only [h1, h2, h3, if_true]
      congr 2; omega
    · simp only [hs, if_false, List.cons_append, unforgeInt]
      have h1 : ¬ (z.natAbs % 64 + 64 + 128 < 128) := by omega
      have h2 : (z.natAbs % 64 + 64 + 128) / 64 % 2 = 1 := by omega
      have h3 : (z.natAbs % 64 + 64 + 128) % 64 = z.natAbs % 64 := by omega
      simp only [h1, h2, h3, if_true, if_false, unforgeNatStrict_forgeNat s (z.natAbs / 64) (by omega) rest]
      congr 2; omega
  · simp only [hneg, if_false, Nat.add_zero]
    by_cases hs : z.natAbs < 64
    · simp only [hs, if_true, List.cons_append, List.nil_append, unforgeInt]
      have h1 : z.natAbs < 128 := by omega
      have h2 : ¬ (z.natAbs / 64 % 2 = 1) := by omega
      have h3 : z.natAbs % 64 = z.natAbs := by omega
      simp only [h1, h2, h3, if_true, if_false]
      congr 2; omega
    · simp only [hs, if_false, List.cons_append, unforgeInt]
      have h1 : ¬ (z.natAbs % 64 + 128 < 128) := by omega
      have h2 : ¬ ((z.natAbs % 64 + 128) / 64 % 2 = 1) := by omega
      have h3 : (z.natAbs % 64 + 128) % 64 = z.natAbs % 64 := by omega
      simp only [h1, h2, h3, if_false, unforgeNatStrict_forgeNat s (z.natAbs / 64) (by omega) rest]
      congr 2; omega

end Core

namespace Core

theorem unforgeNatStrict_canonical (bs : Bytes) (hwf : Bytes.WF bs) (v : Nat) (rest : Bytes)
    (h : unforgeInt.unforgeNatStrict true bs = some (v, rest)) : 0 < v ∧ bs = forgeNat v ++ rest := by
  induction bs generalizing v rest with
  | nil => simp [unforgeInt.unforgeNatStrict] at h
  | cons b t ih =>
    have hb : b < 256 := hwf b (by simp)
    have hwt : Bytes.WF t := fun x hx => hwf x (by simp [hx])
    simp only [unforgeInt.unforgeNatStrict] at h
    by_cases hlt : b < 128
    · simp only [hlt, if_true, Bool.true_and, decide_eq_true_eq] at h
      by_cases hz : b = 0
      · simp [hz] at h
      · simp only [hz, if_false, Option.some.injEq, Prod.mk.injEq] at h
        obtain ⟨rfl, rfl⟩ := h
        refine ⟨by omega, ?_⟩
        unfold forgeNat; simp [hlt]
    · simp only [hlt, if_false] at h
      cases hrec : unforgeInt.unforgeNatStrict true t with
      | none => simp [hrec] at h
      | some p =>
        obtain ⟨v', r'⟩ := p
        simp only [hrec, Option.map_some, Option.some.injEq, Prod.mk.injEq] at h
        obtain ⟨rfl, rfl⟩ := h
        obtain ⟨hv', ht⟩ := ih hwt v' r' hrec
        refine ⟨by omega, ?_⟩
        rw [forgeNat]
        have h1 : ¬ (b - 128 + 128 * v' < 128) := by omega
        have h2 : (b - 128 + 128 * v') % 128 + 128 = b := by omega
        have h3 : (b - 128 + 128 * v') / 128 = v' := by omega
        simp only [h1, if_false, h2, h3, List.cons_append, ht]

/-- **canonicity of the strict reader**: an accepted encoding is the forged one, except for "negative zero"
(`0x40`), the one redundant encoding Zarith's sign-magnitude format has. -/
theorem unforgeInt_strict_canonical (bs : Bytes) (hwf : Bytes.WF bs) (z : Int) (rest : Bytes)
    (h : unforgeInt true bs = some (z, rest)) :
    bs = forgeInt z ++ rest ∨ (z = 0 ∧ bs = 64 :: rest) := by
  cases bs with
  | nil => simp [unforgeInt] at h
  | cons b0 t =>
    have hb : b0 < 256 := hwf b0 (by simp)
    have hwt : Bytes.WF t := fun x hx => hwf x (by simp [hx])
    simp only [unforgeInt] at h
    by_cases hlt : b0 < 128
    · simp only [hlt, if_true, Option.some.injEq, Prod.mk.injEq] at h
      obtain ⟨hz, rfl⟩ := h
      by_cases hneg : b0 / 64 % 2 = 1
      · simp only [hneg, if_true] at hz
        by_cases hm : b0 % 64 = 0
        · right; refine ⟨by omega, ?_⟩; congr 1; omega
        · left; subst hz
          unfold forgeInt
          have h1 : (-((b0 % 64 : Nat) : Int)).natAbs = b0 % 64 := by omega
          have h2 : (-((b0 % 64 : Nat) : Int)) < 0 := by omega
          have h3 : b0 % 64 < 64 := by omega
          simp only [h1, h2, h3, if_true, List.cons_append, List.nil_append]
          congr 1; omega
      · left
        simp only [hneg, if_false] at hz
        subst hz
        unfold forgeInt
        have h1 : (((b0 % 64 : Nat) : Int)).natAbs = b0 % 64 := by omega
        have h2 : ¬ (((b0 % 64 : Nat) : Int)) < 0 := by omega
        have h3 : b0 % 64 < 64 := by omega
        simp only [h1, h2, h3, if_true, if_false, List.cons_append, List.nil_append]
        congr 1; omega
    · left
      simp only [hlt, if_false] at h
      cases hrec : unforgeInt.unforgeNatStrict true t with
      | none => simp [hrec] at h
      | some p =>
        obtain ⟨v, r⟩ := p
        simp only [hrec, Option.some.injEq, Prod.mk.injEq] at h
        obtain ⟨hz, rfl⟩ := h
        obtain ⟨hv, ht⟩ := unforgeNatStrict_canonical t hwt v r hrec
        unfold forgeInt
        by_cases hneg : b0 / 64 % 2 = 1
        · simp only [hneg, if_true] at hz
          subst hz
          have h1 : (-((b0 % 64 + 64 * v : Nat) : Int)).natAbs = b0 % 64 + 64 * v := by omega
          have h2 : (-((b0 % 64 + 64 * v : Nat) : Int)) < 0 := by omega
          have h3 : ¬ (b0 % 64 + 64 * v < 64) := by omega
          have h4 : (b0 % 64 + 64 * v) % 64 + 64 + 128 = b0 := by omega
          have h5 : (b0 % 64 + 64 * v) / 64 = v := by omega
          simp only [h1, h2, h3, if_true, if_false, h4, h5, List.cons_append, ht]
        · simp only [hneg, if_false] at hz
          subst hz
          have h1 : (((b0 % 64 + 64 * v : Nat) : Int)).natAbs = b0 % 64 + 64 * v := by omega
          have h2 : ¬ (((b0 % 64 + 64 * v : Nat) : Int)) < 0 := by omega
          have h3 : ¬ (b0 % 64 + 64 * v < 64) := by omega
          have h4 : (b0 % 64 + 64 * v) % 64 + 0 + 128 = b0 := by omega
          have h5 : (b0 % 64 + 64 * v) / 64 = v := by omega
          simp only [h1, h2, h3, if_false, h4, h5, List.cons_append, ht]

end Core
