import PytezosModel.Michelson.ValueEnv
import PytezosModel.Proofs.C11Civil
/-! C11 — the RFC 3339 law of `Env.Lawful` is a theorem for the concrete clock (`VC.Inst.fmtTs` / `VC.Inst.parseTs`,
i.e. `Civil.fmtTimestamp` with the year padding the translator read from the source, and `Civil.parseTimestamp`). -/
namespace VC.Inst
open VC

/-- the range of the model (`rfcLo`, `rfcHi`) is the range on which `datetime` works -/
theorem rfc_bounds : rfcLo = Civil.tsMin ∧ rfcHi = Civil.tsMax := ⟨rfl, rfl⟩

/-- the source pads the year (`f'{dt.year:04d}'`): on the pinned tree (`%Y`) this does not close -/
theorem year_padded : (Generated.C11.yearPadded == some true) = true := by decide

/-- **`ts_rt` of `Env.Lawful`, proved** for every `t` in 0001-01-01T00:00:00Z … 9999-12-31T23:59:59Z -/
theorem clock_rt (t : Int) (h0 : rfcLo ≤ t) (h1 : t ≤ rfcHi) : parseTs (fmtTs t) = some t := by
  obtain ⟨s, hs, hp⟩ := Civil.parse_fmt t h0 h1
  simp only [fmtTs, parseTs, year_padded, hs, String.toList_ofList]
  exact hp

/-- the text of `fmtTs` inside the range is the canonical `YYYY-MM-DDTHH:MM:SSZ` of `Civil.fmtTimestamp` -/
theorem fmtTs_eq (t : Int) (cs : List Char) (h : Civil.fmtTimestamp true t = some cs) : fmtTs t = String.ofList cs := by
  simp only [fmtTs, year_padded, h]

/-- with the concrete clock only the codec laws remain as hypotheses -/
theorem withCivilClock_lawful (env : Env) (hc : env.LawfulCodecs) : (withCivilClock env).Lawful where
  text_rt := hc.text_rt
  bin_rt := hc.bin_rt
  ts_rt := clock_rt
  lambda_rt := hc.lambda_rt

/-- the driver's environment already carries the concrete clock -/
theorem env_eq_withCivilClock : withCivilClock env = env := rfl

end VC.Inst
