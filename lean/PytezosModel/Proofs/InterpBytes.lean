import PytezosModel.Michelson.Interp.Impl
import PytezosModel.Michelson.Interp.Spec
import PytezosModel.Proofs.InterpTables
import PytezosModel.Proofs.C16Impl
/-! NAT / INT / BYTES: CPython's `int.from_bytes`, `bit_length` and `int.to_bytes` (`PyNum`, the definitions property C16
owns) as used by `arithmetic.py`, against the reference's big-endian / two's complement readings and the *shortest*
encodings (`Spec.beNat`, `Spec.beInt`, `Spec.natBytes`, `Spec.intBytes`). -/
namespace Interp
open PyNum _root_.Impl.Arith

theorem beNat_eq : ∀ bs, Spec.beNat bs = fromBytesBE bs
  | [] => rfl
  | b :: bs => by rw [Spec.beNat, fromBytesBE_cons, beNat_eq bs]

/-- `int.from_bytes(b, 'big')` is the big-endian value -/
theorem fromBytes_unsigned (bs : List Nat) : PyNum.fromBytes bs false = (Spec.beNat bs : Int) := by
  simp [PyNum.fromBytes, beNat_eq]

/-- `int.from_bytes(b, 'big', signed=True)` is the two's complement reading -/
theorem fromBytes_signed (bs : List Nat) : PyNum.fromBytes bs true = Spec.beInt bs := by
  unfold PyNum.fromBytes Spec.beInt
  rw [beNat_eq]
  by_cases hne : bs = []
  · subst hne; simp
  · have hL : 0 < bs.length := List.length_pos_iff.2 hne
    have h1 := nat_pow256 bs.length hL
    have h2 : ((256 : Int) ^ bs.length) = (2 : Int) ^ (8 * bs.length) := by
      rw [show (256 : Int) = 2 ^ 8 by rfl, ← Int.pow_mul]
    by_cases hc : 2 ^ (8 * bs.length - 1) ≤ fromBytesBE bs
    · have hc' : 256 ^ bs.length ≤ 2 * fromBytesBE bs := by omega
      simp [hne, hc, hc', h2]
    · have hc' : ¬ 256 ^ bs.length ≤ 2 * fromBytesBE bs := by omega
      simp [hne, hc, hc']

theorem toBytesBE_front : ∀ (k n : Nat), toBytesBE (k + 1) n = (n / 256 ^ k) % 256 :: toBytesBE k n
  | 0, n => by simp [toBytesBE]
  | k + 1, n => by
    have ih := toBytesBE_front k (n / 256)
    have e1 : toBytesBE (k + 1 + 1) n = toBytesBE (k + 1) (n / 256) ++ [n % 256] := rfl
    have e2 : toBytesBE (k + 1) n = toBytesBE k (n / 256) ++ [n % 256] := rfl
    rw [e1, ih, e2, List.cons_append, Nat.div_div_eq_div_mul, Nat.pow_succ, Nat.mul_comm]

theorem beDigits_eq : ∀ (k n : Nat), Spec.beDigits k n = toBytesBE k n
  | 0, _ => rfl
  | k + 1, n => by rw [Spec.beDigits, toBytesBE_front, beDigits_eq k n]

/-- the search finds the least candidate with the property -/
theorem leastFrom_eq (p : Nat → Bool) (m : Nat) (hm : p m = true) :
    ∀ (fuel k : Nat), k ≤ m → m ≤ k + fuel → (∀ j, k ≤ j → j < m → p j = false) → Spec.leastFrom p fuel k = m
  | 0, k, h1, h2, _ => by simp [Spec.leastFrom]; omega
  | fuel + 1, k, h1, h2, h3 => by
    rw [Spec.leastFrom]
    by_cases hk : k = m
    · subst hk; simp [hm]
    · have : p k = false := h3 k (Nat.le_refl _) (by omega)
      simp only [this, Bool.false_eq_true, if_false]
      exact leastFrom_eq p m hm fuel (k + 1) (by omega) (by omega) (fun j hj hjm => h3 j (by omega) hjm)

theorem bitLength_le_natAbs (z : Int) : bitLength z ≤ z.natAbs :=
  (bitLength_le_iff z z.natAbs).2 Nat.lt_two_pow_self

/-- the length `(7 + v.bit_length()) // 8` is the least number of base-256 digits that hold `v` -/
theorem natLen_eq (x : Int) (hx : 0 ≤ x) :
    Spec.leastFrom (fun L => decide (x.toNat < 256 ^ L)) x.toNat 0 = unsignedLen x := by
  have hr := nat_fits x hx
  refine leastFrom_eq _ (unsignedLen x) (by simpa using hr) _ 0 (Nat.zero_le _) ?_ ?_
  · have := bitLength_le_natAbs x
    have hn : x.natAbs = x.toNat := by omega
    unfold unsignedLen; omega
  · intro j _ hj
    simp only [decide_eq_false_iff_not]
    intro hlt
    have hc : ((256 ^ j : Nat) : Int) = (256 : Int) ^ j := by simp
    have : x < (256 : Int) ^ j := by rw [← hc]; omega
    have := unsignedLen_minimal x hx j this
    omega

/-- the length `(8 + (v + (v < 0)).bit_length()) // 8 if v else 0` is the least number of bytes in which `v` is
representable in two's complement -/
theorem intLen_eq (z : Int) : Spec.leastFrom (Spec.fitsInt z) (z.natAbs + 1) 0 = intLen z := by
  by_cases hz : z = 0
  · subst hz; simp [Spec.leastFrom, Spec.fitsInt, intLen]
  · have hpos := intLen_pos z hz
    have hr := intLen_range z
    have hfit : Spec.fitsInt z (intLen z) = true := by
      have : intLen z ≠ 0 := by omega
      simp [Spec.fitsInt, this, hr.1, hr.2]
    refine leastFrom_eq _ (intLen z) hfit _ 0 (Nat.zero_le _) ?_ ?_
    · have hb := bitLength_le_natAbs (z + if z < 0 then 1 else 0)
      have : (z + if z < 0 then 1 else 0).natAbs ≤ z.natAbs := by split <;> omega
      simp only [intLen, hz, ne_eq, not_false_eq_true, if_true, signedLen]
      omega
    · intro j _ hj
      by_cases hj0 : j = 0
      · subst hj0; simp [Spec.fitsInt, hz]
      · have hlt : j < signedLen z := by simpa [intLen, hz] using hj
        have := signedLen_minimal z hz j (by omega) hlt
        simp only [Spec.fitsInt, hj0, if_false, decide_eq_false_iff_not]
        exact this

theorem execBytes_nat (x : Int) (hx : 0 ≤ x) : Impl.execBytes (.num .nat x) = .ok (.bytes (Spec.natBytes x.toNat)) := by
  simp only [Impl.execBytes, Spec.natBytes, natLen_eq x hx, beDigits_eq]
  simp [toBytes_nat x hx]

theorem execBytes_int (x : Int) : Impl.execBytes (.num .int x) = .ok (.bytes (Spec.intBytes x)) := by
  have h := toBytes_int x
  simp only [Impl.execBytes, Spec.intBytes, intLen_eq, beDigits_eq]
  have e : (if x ≠ 0 then signedLen x else 0) = intLen x := rfl
  have b : (!(Ty.int == Ty.nat || Ty.int == Ty.mutez)) = true := by decide
  simp only [b, if_true, e, h]

theorem execNat_eq (a : Val) (h : Spec.natV a ≠ .stuck) : Impl.execNat a = Spec.natV a := by
  cases a <;> first | (exact absurd rfl h) | skip
  simp [Impl.execNat, Spec.natV, numFromValue_eq, fromBytes_unsigned, Spec.numOk]

theorem execBytes_eq (a : Val) (h : Spec.bytesV a ≠ .stuck) : Impl.execBytes a = Spec.bytesV a := by
  unfold Spec.bytesV at h ⊢
  split at h
  · rename_i x
    by_cases hx : 0 ≤ x
    · simp [hx, execBytes_nat x hx]
    · simp [hx] at h
  · simp [execBytes_int]
  · exact absurd rfl h

theorem execVotingPower_eq (env : Env) (a : Val) (h : Spec.votingPowerV env a ≠ .stuck) :
    Impl.execVotingPower env a = Spec.votingPowerV env a := by
  unfold Spec.votingPowerV at h ⊢
  split at h
  · simp [Impl.execVotingPower, numFromValue_eq]
  · exact absurd rfl h

theorem execHashKey_eq (env : Env) (a : Val) (h : Spec.hashKeyV env a ≠ .stuck) :
    Impl.execHashKey env a = Spec.hashKeyV env a := by
  unfold Spec.hashKeyV at h ⊢
  split at h
  · simp [Impl.execHashKey]
  · exact absurd rfl h

end Interp
