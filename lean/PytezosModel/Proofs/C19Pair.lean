import PytezosModel.Proofs.C19Expand
/-! C19 helper lemmas: pair-tree macros.  (1) `build_pxr_tree` on a well-formed name gives the tree with the DIP depths
`pxrOf`; (2) what the list of `DIP d {PAIR}` / `DIP d {UNPAIR}` items produced by `traverse_pxr_tree` computes
(`Kp`, `Ku`); (3) that this is the reference meaning (`Spec.build`, `Spec.unbuild`) — the justification of the depth
scheme; (4) the value-level reading of the reference meaning. -/
set_option linter.unusedSimpArgs false
namespace C19.Pair
open Impl.Macros Generated.C19 Spec Sem C19.Dispatch C19.Expand

/-! ### (1) parsing a well-formed name -/

/-- the tree, the annotation handed up, and the annotations left, for the subtree `t` parsed at leaf count `d` -/
def pxrOf : PairTree → Char → List String → Nat → Bool → Pxr × Option String × List String
  | .leaf, c, a :: rest, _, _ => (.leaf c, some a, rest)
  | .leaf, c, [], _, _ => (.leaf c, none, [])
  | .node l r, _, an, d, root =>
    let x := pxrOf l 'A' an d false
    let y := pxrOf r 'I' x.2.2 (d + l.leaves) false
    (.node d x.2.1 y.2.1 x.1 y.1 root, none, y.2.2)

theorem pxrParse_body (t : PairTree) (c : Char) (hc : c ≠ 'P') (rest : List Char) (an : List String) (d : Nat)
    (root : Bool) (lf : Option Char) (fuel : Nat) (hf : (t.body c).length < fuel) (hl : t = .leaf → lf = some c) :
    pxrParse true fuel (t.body c ++ rest) an d root lf =
      .ok ((pxrOf t c an d root).1, (pxrOf t c an d root).2.1, rest, (pxrOf t c an d root).2.2, d + t.leaves) := by
  induction t generalizing c rest an d root lf fuel with
  | leaf =>
    obtain ⟨fuel, rfl⟩ : ∃ k, fuel = k + 1 := ⟨fuel - 1, by simp [PairTree.body] at hf; omega⟩
    have hlf := hl rfl
    subst hlf
    cases an <;> simp [PairTree.body, pxrParse, hc, assertThat, pxrOf, PairTree.leaves, bind, Except.bind, pure, Except.pure]
  | node l r ihl ihr =>
    obtain ⟨fuel, rfl⟩ : ∃ k, fuel = k + 1 := ⟨fuel - 1, by simp [PairTree.body] at hf; omega⟩
    have hlen : (l.body 'A').length + (r.body 'I').length < fuel := by
      simp [PairTree.body] at hf; omega
    have e1 : (PairTree.node l r).body c ++ rest = 'P' :: (l.body 'A' ++ (r.body 'I' ++ rest)) := by
      simp [PairTree.body]
    rw [e1]
    simp only [pxrParse, ↓reduceIte, bind, Except.bind]
    rw [ihl 'A' (by decide) _ an d false (some 'A') fuel (by omega) (fun _ => rfl)]
    simp only []
    rw [ihr 'I' (by decide) rest _ (d + l.leaves) false (some 'I') fuel (by omega) (fun _ => rfl)]
    simp [pxrOf, PairTree.leaves, pure, Except.pure, Nat.add_assoc]

theorem buildPxrTree_node (l r : PairTree) (an : List String) :
    buildPxrTree (pairName (.node l r)) an = .ok (pxrOf (.node l r) 'A' an 0 true).1 := by
  have hv : pxrValidated = some true := rfl
  unfold buildPxrTree
  rw [hv]
  simp only [pairName]
  rw [pxrParse_body (.node l r) 'A' (by decide) ['R'] an 0 true none _
    (by simp only [List.length_append, List.length_singleton]; omega) (by intro h; cases h)]
  rfl


/-! ### (2) what the traversal output computes -/

/-- `P…R`: the items in the order `traverse_pxr_tree` returns them (reversed pre-order) -/
def Kp : PairTree → Nat → F
  | .leaf, _ => .ok
  | .node l r, d => Kp r (d + l.leaves) ⨾ Kp l d ⨾ under d pairStep

/-- `UNP…R`: pre-order -/
def Ku : PairTree → Nat → F
  | .leaf, _ => .ok
  | .node l r, d => under d unpairStep ⨾ Ku l d ⨾ Ku r (d + l.leaves)

theorem eval_pairProduce (ext : Ext) (an0 : List String) (la ra : Option String) (root : Bool) :
    eval ext (pairProduce an0 la ra root) = pairStep := by
  simp only [pairProduce, expr, eval_PAIR]

theorem eval_unpairProduce (ext : Ext) (la ra : Option String) (root : Bool) :
    eval ext (unpairProduce la ra root) = unpairStep := by
  simp only [unpairProduce, expr, eval_seq, evalSeq_one, eval_UNPAIR]

theorem walk_pair (ext : Ext) (an0 : List String) (t : PairTree) (c : Char) (an : List String) (d : Nat) (root : Bool) :
    evalSeq ext (pxrWalk (pairProduce an0) (pxrOf t c an d root).1).reverse = Kp t d := by
  induction t generalizing c an d root with
  | leaf => cases an <;> simp [pxrOf, pxrWalk, evalSeq_nil', Kp]
  | node l r ihl ihr =>
    simp only [pxrOf, pxrWalk, List.reverse_cons, List.reverse_append, evalSeq_append', ihl, ihr, evalSeq_one,
      eval_dipN, eval_pairProduce, Kp, seqF_assoc]

theorem walk_unpair (ext : Ext) (t : PairTree) (c : Char) (an : List String) (d : Nat) (root : Bool) :
    evalSeq ext (pxrWalk unpairProduce (pxrOf t c an d root).1) = Ku t d := by
  induction t generalizing c an d root with
  | leaf => cases an <;> simp [pxrOf, pxrWalk, evalSeq_nil', Ku]
  | node l r ihl ihr =>
    simp only [pxrOf, pxrWalk, evalSeq_cons', evalSeq_append', ihl, ihr,
      eval_dipN, eval_unpairProduce, Ku, seqF_assoc]


/-! ### (3) the depth scheme computes the reference meaning -/

theorem pair_comm (h : F) : under 2 h ⨾ pairStep = pairStep ⨾ under 1 h := by
  funext S
  match S with
  | [] => rfl
  | [a] => simp [seqF, under, pairStep]
  | a :: b :: T =>
    simp only [seqF, under, pairStep, bind_ok]
    cases h T <;> rfl

theorem under1_ok_pair : under 1 Result.ok ⨾ pairStep = pairStep := by
  funext S
  match S with
  | [] => rfl
  | a :: T => simp [seqF, under]

/-- a transformer working below the leaves of `l` commutes with building `l` -/
theorem build_comm (l : PairTree) : ∀ h : F, under l.leaves h ⨾ build l = build l ⨾ under 1 h := by
  induction l with
  | leaf => intro h; simp only [PairTree.leaves, build, seqF_ok_left, seqF_ok_right]
  | node a b iha ihb =>
    intro h
    simp only [PairTree.leaves, build]
    calc under (a.leaves + b.leaves) h ⨾ ((build a ⨾ under 1 (build b)) ⨾ pairStep)
        = ((under a.leaves (under b.leaves h) ⨾ build a) ⨾ under 1 (build b)) ⨾ pairStep := by
          rw [under_add]; simp only [seqF_assoc]
      _ = ((build a ⨾ under 1 (under b.leaves h)) ⨾ under 1 (build b)) ⨾ pairStep := by rw [iha]
      _ = (build a ⨾ under 1 (under b.leaves h ⨾ build b)) ⨾ pairStep := by
          rw [seqF_assoc (build a), under_seq]
      _ = (build a ⨾ under 1 (build b ⨾ under 1 h)) ⨾ pairStep := by rw [ihb]
      _ = (build a ⨾ under 1 (build b)) ⨾ (under 2 h ⨾ pairStep) := by
          rw [← under_seq, ← under_add]; simp only [seqF_assoc]
      _ = ((build a ⨾ under 1 (build b)) ⨾ pairStep) ⨾ under 1 h := by
          rw [pair_comm]; simp only [seqF_assoc]

/-- `under d (build t)`, except that nothing at all is emitted for a leaf -/
def Up (t : PairTree) (d : Nat) : F :=
  match t with
  | .leaf => .ok
  | .node l r => under d (build (.node l r))

theorem Up_seq (l : PairTree) (d : Nat) (g : F) : Up l d ⨾ under d g = under d (build l ⨾ g) := by
  cases l with
  | leaf => simp only [Up, build, seqF_ok_left]
  | node a b => simp only [Up, under_seq]

theorem Up_right (r l : PairTree) (d : Nat) :
    Up r (d + l.leaves) ⨾ under d (build l ⨾ pairStep) = under d ((build l ⨾ under 1 (build r)) ⨾ pairStep) := by
  cases r with
  | leaf => simp only [Up, build, seqF_ok_left, seqF_assoc, under1_ok_pair]
  | node a b =>
    simp only [Up]
    rw [under_add, under_seq, ← seqF_assoc, build_comm]

theorem Kp_eq (t : PairTree) : ∀ d, Kp t d = Up t d := by
  induction t with
  | leaf => intro d; rfl
  | node l r ihl ihr =>
    intro d
    simp only [Kp, ihl, ihr]
    rw [seqF_assoc, Up_seq, Up_right]
    rfl

/-! the same for `UNP…R` -/

/-- never `FAILWITH`s -/
def NoFail (h : F) : Prop := ∀ S v, h S ≠ .failed v

theorem NoFail_under (n : Nat) (h : F) (hh : NoFail h) : NoFail (under n h) := by
  induction n with
  | zero => simpa [under_zero] using hh
  | succ n ih =>
    intro S v
    cases S with
    | nil => simp [under]
    | cons x S =>
      simp only [under]
      have := ih S
      cases hu : under n h S with
      | ok s => simp
      | failed w => exact absurd hu (this w)
      | err => simp

theorem NoFail_seq (f g : F) (hf : NoFail f) (hg : NoFail g) : NoFail (f ⨾ g) := by
  intro S v
  simp only [seqF]
  cases hfs : f S with
  | ok s => simpa using hg s v
  | failed w => exact absurd hfs (hf S w)
  | err => simp

theorem NoFail_unpairStep : NoFail unpairStep := by
  intro S v
  unfold unpairStep
  split <;> simp

theorem NoFail_ok : NoFail Result.ok := by intro S v; simp

theorem NoFail_unbuild (t : PairTree) : NoFail (unbuild t) := by
  induction t with
  | leaf => exact NoFail_ok
  | node l r ihl ihr =>
    exact NoFail_seq _ _ (NoFail_seq _ _ NoFail_unpairStep (NoFail_under 1 _ ihr)) ihl

theorem unpair_comm (h : F) (hh : NoFail h) : under 1 h ⨾ unpairStep = unpairStep ⨾ under 2 h := by
  funext S
  match S with
  | [] => rfl
  | v :: T =>
    simp only [seqF, under]
    cases hT : h T with
    | failed w => exact absurd hT (hh T w)
    | err => cases v <;> simp [unpairStep, under, hT]
    | ok T' => cases v <;> simp [unpairStep, under, hT]

theorem unpair_under1_ok : unpairStep ⨾ under 1 Result.ok = unpairStep := by
  funext S
  match S with
  | [] => rfl
  | v :: T => cases v <;> simp [seqF, unpairStep, under]

theorem unbuild_comm (l : PairTree) :
    ∀ h : F, NoFail h → under 1 h ⨾ unbuild l = unbuild l ⨾ under l.leaves h := by
  induction l with
  | leaf => intro h _; simp only [PairTree.leaves, unbuild, seqF_ok_left, seqF_ok_right]
  | node a b iha ihb =>
    intro h hh
    simp only [PairTree.leaves, unbuild]
    calc under 1 h ⨾ ((unpairStep ⨾ under 1 (unbuild b)) ⨾ unbuild a)
        = (unpairStep ⨾ (under 2 h ⨾ under 1 (unbuild b))) ⨾ unbuild a := by
          rw [← seqF_assoc, ← seqF_assoc, unpair_comm h hh]; simp only [seqF_assoc]
      _ = (unpairStep ⨾ under 1 (under 1 h ⨾ unbuild b)) ⨾ unbuild a := by
          rw [show (2 : Nat) = 1 + 1 from rfl, under_add, under_seq]
      _ = (unpairStep ⨾ under 1 (unbuild b)) ⨾ (under 1 (under b.leaves h) ⨾ unbuild a) := by
          rw [ihb h hh, ← under_seq]; simp only [seqF_assoc]
      _ = (unpairStep ⨾ under 1 (unbuild b)) ⨾ (unbuild a ⨾ under a.leaves (under b.leaves h)) := by
          rw [iha _ (NoFail_under _ _ hh)]
      _ = ((unpairStep ⨾ under 1 (unbuild b)) ⨾ unbuild a) ⨾ under (a.leaves + b.leaves) h := by
          rw [← under_add]; simp only [seqF_assoc]

def Uu (t : PairTree) (d : Nat) : F :=
  match t with
  | .leaf => .ok
  | .node l r => under d (unbuild (.node l r))

theorem Uu_seq (l : PairTree) (d : Nat) (g : F) : under d g ⨾ Uu l d = under d (g ⨾ unbuild l) := by
  cases l with
  | leaf => simp only [Uu, unbuild, seqF_ok_right]
  | node a b => simp only [Uu, under_seq]

theorem Uu_right (r l : PairTree) (d : Nat) :
    under d (unpairStep ⨾ unbuild l) ⨾ Uu r (d + l.leaves)
      = under d ((unpairStep ⨾ under 1 (unbuild r)) ⨾ unbuild l) := by
  cases r with
  | leaf => simp only [Uu, unbuild, seqF_ok_right, unpair_under1_ok]
  | node a b =>
    simp only [Uu]
    rw [under_add, under_seq, seqF_assoc, ← unbuild_comm l _ (NoFail_unbuild _), ← seqF_assoc]

theorem Ku_eq (t : PairTree) : ∀ d, Ku t d = Uu t d := by
  induction t with
  | leaf => intro d; rfl
  | node l r ihl ihr =>
    intro d
    simp only [Ku, ihl, ihr]
    rw [Uu_seq, Uu_right]
    rfl

end C19.Pair
