import PytezosModel.Proofs.InterpSoundEval
set_option linter.unusedSectionVars false   -- `[Mode]` is a section variable of every lemma here; some do not use it
/-! Progress half of type soundness, groundwork.

* `Res.Safe P r`: the outcome `r` is not stuck (and not `offguard`), and if it is a result, the result satisfies `P` —
  the predicate transformer through which progress and the preservation of the invariant are proved in one pass.
* `GoodStack`: every set / map inside the values of the stack is strictly sorted (`Typing.litOk`, the invariant that
  `PUSH`ed literals have by `literalsOk` and that every rule preserves).  Together with the deep typing `StackWF` of C02
  this is what "a well-typed stack" means for the rules MEM / GET / UPDATE, which apply to well-formed collections only.
* canonical forms: a well-formed value of a given type has the corresponding shape. -/
namespace Interp
variable [Mode]
open Typing

/-- `r` is not stuck, not outside the guard, and a result of `r` satisfies `P` -/
def Res.Safe {α : Type} (P : α → Prop) : Res α → Prop
  | .ok a => P a
  | .stuck => False
  | .offguard => False
  | _ => True

@[simp] theorem safe_ok {α : Type} (P : α → Prop) (a : α) : (Res.ok a).Safe P ↔ P a := Iff.rfl
@[simp] theorem safe_failed {α : Type} (P : α → Prop) (v : Val) : (Res.failed v : Res α).Safe P := trivial
@[simp] theorem safe_rtfail {α : Type} (P : α → Prop) : (Res.rtfail : Res α).Safe P := trivial
@[simp] theorem safe_oof {α : Type} (P : α → Prop) : (Res.oof : Res α).Safe P := trivial
@[simp] theorem safe_stuck {α : Type} (P : α → Prop) : ¬ (Res.stuck : Res α).Safe P := fun h => h
@[simp] theorem safe_offguard {α : Type} (P : α → Prop) : ¬ (Res.offguard : Res α).Safe P := fun h => h

theorem Res.Safe.ne_stuck {α : Type} {P : α → Prop} {r : Res α} (h : r.Safe P) : r ≠ .stuck := by
  intro e; subst e; exact h

theorem Res.Safe.ne_offguard {α : Type} {P : α → Prop} {r : Res α} (h : r.Safe P) : r ≠ .offguard := by
  intro e; subst e; exact h

theorem Res.Safe.of_ok {α : Type} {P : α → Prop} {r : Res α} {a : α} (h : r.Safe P) (he : r = .ok a) : P a := by
  subst he; exact h

theorem Res.Safe.mono {α : Type} {P Q : α → Prop} {r : Res α} (h : r.Safe P) (hpq : ∀ a, r = .ok a → P a → Q a) :
    r.Safe Q := by
  cases r <;> first | exact h | exact hpq _ rfl h

/-- sequencing: the first part is safe, and from each of its results the continuation is safe -/
theorem Res.Safe.bind {α β : Type} {P : α → Prop} {Q : β → Prop} {r : Res α} {f : α → Res β}
    (h : r.Safe P) (hf : ∀ a, r = .ok a → P a → (f a).Safe Q) : (r.bind f).Safe Q := by
  cases r <;> first | exact h | exact hf _ rfl h

-- the invariant on collections ----------------------------------------------------------------------------
/-- every set / map inside the values of the stack is strictly sorted -/
def GoodStack (st : List Val) : Prop := ∀ v ∈ st, litOk v = true

theorem goodStack_nil : GoodStack [] := by simp [GoodStack]
theorem goodStack_cons {v : Val} {st : List Val} : GoodStack (v :: st) ↔ litOk v = true ∧ GoodStack st := by
  simp [GoodStack]
theorem goodStack_append {a b : List Val} : GoodStack (a ++ b) ↔ GoodStack a ∧ GoodStack b := by
  simp only [GoodStack, List.mem_append]
  constructor
  · intro h; exact ⟨fun v hv => h v (Or.inl hv), fun v hv => h v (Or.inr hv)⟩
  · rintro ⟨h1, h2⟩ v (hv | hv); exact h1 v hv; exact h2 v hv
theorem goodStack_take {st : List Val} (h : GoodStack st) (n : Nat) : GoodStack (st.take n) :=
  fun v hv => h v (List.mem_of_mem_take hv)
theorem goodStack_drop {st : List Val} (h : GoodStack st) (n : Nat) : GoodStack (st.drop n) :=
  fun v hv => h v (List.mem_of_mem_drop hv)
theorem goodStack_get {st : List Val} (h : GoodStack st) (n : Nat) (v : Val) (hv : st[n]? = some v) : litOk v = true :=
  h v (List.mem_of_getElem? hv)

theorem litOks_iff : ∀ xs : List Val, litOks xs = true ↔ ∀ x ∈ xs, litOk x = true
  | [] => by simp [litOks]
  | x :: xs => by simp [litOks, litOks_iff xs]

theorem litOks_eq_goodStack (xs : List Val) : litOks xs = true ↔ GoodStack xs := litOks_iff xs

@[simp] theorem litOk_unit : litOk .unit = true := by simp [litOk]
@[simp] theorem litOk_bool (b : Bool) : litOk (.bool b) = true := by simp [litOk]
@[simp] theorem litOk_num (t : Ty) (v : Int) : litOk (.num t v) = true := by simp [litOk]
@[simp] theorem litOk_str (s : List Nat) : litOk (.str s) = true := by simp [litOk]
@[simp] theorem litOk_bytes (s : List Nat) : litOk (.bytes s) = true := by simp [litOk]
@[simp] theorem litOk_atom (t : Ty) (s : List Nat) : litOk (.atom t s) = true := by simp [litOk]
@[simp] theorem litOk_none (t : Ty) : litOk (.none t) = true := by simp [litOk]
@[simp] theorem litOk_pair (a b : Val) : litOk (.pair a b) = true ↔ litOk a = true ∧ litOk b = true := by simp [litOk]
@[simp] theorem litOk_some (a : Val) : litOk (.some a) = litOk a := by simp [litOk]
@[simp] theorem litOk_left (a : Val) (t : Ty) : litOk (.left a t) = litOk a := by simp [litOk]
@[simp] theorem litOk_right (a : Val) (t : Ty) : litOk (.right t a) = litOk a := by simp [litOk]
@[simp] theorem litOk_list (t : Ty) (xs : List Val) : litOk (.list t xs) = true ↔ GoodStack xs := by
  simp [litOk, litOks_iff, GoodStack]
theorem litOk_set (t : Ty) (xs : List Val) : litOk (.set t xs) = true ↔ goodSet t xs = true ∧ GoodStack xs := by
  simp [litOk, litOks_iff, GoodStack]
theorem litOk_map (k v : Ty) (xs : List Val) :
    litOk (.map k v xs) = true ↔ (simpleComparable k = true → goodMap k xs = true) ∧ GoodStack xs := by
  simp only [litOk, Bool.and_eq_true, Bool.or_eq_true, Bool.not_eq_true', litOks_iff, GoodStack]
  constructor
  · rintro ⟨h1, h2⟩
    refine ⟨fun hs => ?_, h2⟩
    rcases h1 with h1 | h1
    · rw [hs] at h1; cases h1
    · exact h1
  · rintro ⟨h1, h2⟩
    refine ⟨?_, h2⟩
    cases hs : simpleComparable k
    · exact Or.inl rfl
    · exact Or.inr (h1 hs)
@[simp] theorem litOk_lam (a b : Ty) (body : Instr) : litOk (.lam a b body) = literalsOk body := by simp [litOk]

/-- a value of a simple comparable type contains no collection -/
theorem litOk_of_isKey {k : Ty} {v : Val} (h : isKey k v = true) : litOk v = true := by
  rcases isKey_shape h with ⟨_, n, rfl⟩ | ⟨_, n, rfl⟩ | ⟨_, n, rfl⟩ | ⟨_, n, rfl⟩ | ⟨_, s, rfl⟩ | ⟨_, s, rfl⟩ |
    ⟨_, b, rfl⟩ | ⟨_, rfl⟩ <;> simp

-- canonical forms -----------------------------------------------------------------------------------------
/-- close the `num` / `atom` cases (type variable `t` with `ht : t = T`) that are not well-formed -/
syntax "canon_rest" : tactic
set_option hygiene false in
macro_rules
  | `(tactic| canon_rest) => `(tactic| (subst ht; simp [WF, HasTy, checkVal, typeOf] at hw))

theorem canon_unit {a : Val} (hw : WF a) (ht : typeOf a = .unit) : a = .unit := by
  cases a <;> simp [typeOf] at ht <;> first | rfl | canon_rest
theorem canon_bool {a : Val} (hw : WF a) (ht : typeOf a = .bool) : ∃ b, a = .bool b := by
  cases a <;> simp [typeOf] at ht <;> first | exact ⟨_, rfl⟩ | canon_rest
theorem canon_int {a : Val} (hw : WF a) (ht : typeOf a = .int) : ∃ n, a = .num .int n := by
  cases a <;> simp [typeOf] at ht <;> first | (subst ht; exact ⟨_, rfl⟩) | canon_rest
theorem canon_timestamp {a : Val} (hw : WF a) (ht : typeOf a = .timestamp) : ∃ n, a = .num .timestamp n := by
  cases a <;> simp [typeOf] at ht <;> first | (subst ht; exact ⟨_, rfl⟩) | canon_rest
theorem canon_nat {a : Val} (hw : WF a) (ht : typeOf a = .nat) : ∃ n, a = .num .nat n ∧ 0 ≤ n := by
  cases a <;> simp [typeOf] at ht <;> first | (subst ht; exact ⟨_, rfl, (wf_nat _).mp hw⟩) | canon_rest
theorem canon_mutez {a : Val} (hw : WF a) (ht : typeOf a = .mutez) : ∃ n, a = .num .mutez n ∧ 0 ≤ n ∧ n < 2 ^ 63 := by
  cases a <;> simp [typeOf] at ht <;> first | (subst ht; exact ⟨_, rfl, (wf_mutez _).mp hw⟩) | canon_rest
theorem canon_string {a : Val} (hw : WF a) (ht : typeOf a = .string) : ∃ s, a = .str s := by
  cases a <;> simp [typeOf] at ht <;> first | exact ⟨_, rfl⟩ | canon_rest
theorem canon_bytes {a : Val} (hw : WF a) (ht : typeOf a = .bytes) : ∃ s, a = .bytes s := by
  cases a <;> simp [typeOf] at ht <;> first | exact ⟨_, rfl⟩ | canon_rest
theorem canon_pair {a : Val} {l r : Ty} (hw : WF a) (ht : typeOf a = .pair l r) :
    ∃ x y, a = .pair x y ∧ (WF x ∧ typeOf x = l) ∧ (WF y ∧ typeOf y = r) := by
  obtain ⟨x, y, rfl, hx, hy⟩ := hasTy_pair (hasTy_iff.mpr ⟨hw, ht⟩)
  exact ⟨x, y, rfl, hasTy_iff.mp hx, hasTy_iff.mp hy⟩
theorem canon_option {a : Val} {t : Ty} (hw : WF a) (ht : typeOf a = .option t) :
    a = .none t ∨ ∃ x, a = .some x ∧ WF x ∧ typeOf x = t := by
  rcases hasTy_option (hasTy_iff.mpr ⟨hw, ht⟩) with h | ⟨x, rfl, hx⟩
  · exact Or.inl h
  · exact Or.inr ⟨x, rfl, hasTy_iff.mp hx⟩
theorem canon_or {a : Val} {l r : Ty} (hw : WF a) (ht : typeOf a = .or l r) :
    (∃ x, a = .left x r ∧ WF x ∧ typeOf x = l) ∨ (∃ x, a = .right l x ∧ WF x ∧ typeOf x = r) := by
  rcases hasTy_or (hasTy_iff.mpr ⟨hw, ht⟩) with ⟨x, rfl, hx⟩ | ⟨x, rfl, hx⟩
  · exact Or.inl ⟨x, rfl, hasTy_iff.mp hx⟩
  · exact Or.inr ⟨x, rfl, hasTy_iff.mp hx⟩
theorem canon_list {a : Val} {t : Ty} (hw : WF a) (ht : typeOf a = .list t) :
    ∃ xs, a = .list t xs ∧ ∀ x ∈ xs, WF x ∧ typeOf x = t := by
  obtain ⟨xs, rfl, h⟩ := hasTy_list (hasTy_iff.mpr ⟨hw, ht⟩)
  exact ⟨xs, rfl, allTy_iff.mp h⟩
theorem canon_set {a : Val} {t : Ty} (hw : WF a) (ht : typeOf a = .set t) :
    ∃ xs, a = .set t xs ∧ ∀ x ∈ xs, WF x ∧ typeOf x = t := by
  obtain ⟨xs, rfl, h⟩ := hasTy_set (hasTy_iff.mpr ⟨hw, ht⟩)
  exact ⟨xs, rfl, allTy_iff.mp h⟩
theorem canon_map {a : Val} {k v : Ty} (hw : WF a) (ht : typeOf a = .map k v) :
    ∃ xs, a = .map k v xs ∧ ∀ x ∈ xs, WF x ∧ typeOf x = .pair k v := by
  obtain ⟨xs, rfl, h⟩ := hasTy_map (hasTy_iff.mpr ⟨hw, ht⟩)
  exact ⟨xs, rfl, allTy_iff.mp h⟩
theorem canon_lambda {a : Val} {ta tb : Ty} (hw : WF a) (ht : typeOf a = .lambda ta tb) :
    ∃ body, a = .lam ta tb body ∧ BodyTy body ta tb :=
  hasTy_lambda (hasTy_iff.mpr ⟨hw, ht⟩)

/-- a well-formed value of a simple comparable type is a key of that type -/
theorem isKey_of_wf {k : Ty} {a : Val} (hw : WF a) (ht : typeOf a = k) (hs : simpleComparable k = true) : isKey k a = true := by
  subst ht
  cases a <;> first | (simp [typeOf, simpleComparable] at hs; done) | (simp [isKey, typeOf]; done) | skip
  · rename_i t v
    rcases wf_num_ty hw with rfl | rfl | rfl | rfl <;> simp [isKey, typeOf]
  · rename_i t v
    cases t <;> first | (simp [WF, HasTy, checkVal, typeOf] at hw; done) | (simp [typeOf, simpleComparable] at hs; done)

end Interp
