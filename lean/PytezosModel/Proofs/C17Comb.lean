import PytezosModel.Michelson.Comb
/-! helper lemmas for C17 (right combs): the annotation-blind helpers (`chk = false`) against the Michelson reference -/
namespace Impl.Comb
open Spec.Comb

/-! ### basics -/

theorem descend_false (r : CVal) : descend false r = r.isPair := by
  cases r <;> simp [descend, CVal.isPair]

theorem isPair_strip (v : CVal) : isPair (strip v) = v.isPair := by
  cases v <;> simp [strip, isPair, CVal.isPair]

theorem isPair_embed (v : SVal) : (embed v).isPair = isPair v := by
  cases v <;> simp [embed, isPair, CVal.isPair]

theorem isPair_erase (v : CVal) : (erase v).isPair = v.isPair := by
  simp [erase, isPair_embed, isPair_strip]

theorem stripList_eq (xs : List CVal) : stripList xs = xs.map strip := by
  induction xs with
  | nil => rfl
  | cons x xs ih => simp [stripList, ih]

theorem embedList_eq (xs : List SVal) : embedList xs = xs.map embed := by
  induction xs with
  | nil => rfl
  | cons x xs ih => simp [embedList, ih]

mutual
  theorem strip_embed : ∀ v : SVal, strip (embed v) = v
    | .atom _ => rfl
    | .pair l r => by simp [embed, strip, strip_embed l, strip_embed r]
    | .none => rfl
    | .some v => by simp [embed, strip, strip_embed v]
    | .left v => by simp [embed, strip, strip_embed v]
    | .right v => by simp [embed, strip, strip_embed v]
    | .list xs => by simp [embed, strip, stripList_embedList xs]
  theorem stripList_embedList : ∀ xs : List SVal, stripList (embedList xs) = xs
    | [] => rfl
    | x :: xs => by simp [embedList, stripList, strip_embed x, stripList_embedList xs]
end

theorem strip_erase (v : CVal) : strip (erase v) = strip v := by simp [erase, strip_embed]

theorem erase_congr {v v' : CVal} (h : strip v = strip v') : erase v = erase v' := by simp [erase, h]

theorem erase_pair (a : Annot) (l r : CVal) : erase (.pair a l r) = .pair .blank (erase l) (erase r) := by
  simp [erase, strip, embed]

theorem map_strip_erase (xs : List CVal) : (xs.map erase).map strip = xs.map strip := by
  simp [List.map_map, Function.comp_def, strip_erase]

theorem erase_list_congr {xs ys : List CVal} (h : xs.map strip = ys.map strip) : xs.map erase = ys.map erase := by
  have := congrArg (List.map embed) h
  simp only [List.map_map] at this
  exact this

/-! ### generic list helpers -/

theorem replaceAt_map {α β : Type} (f : α → β) (idx : Nat) (e : α) (i : Nat) (xs : List α) :
    (replaceAt idx e i xs).map f = replaceAt idx (f e) i (xs.map f) := by
  induction xs generalizing i with
  | nil => rfl
  | cons x xs ih => simp only [replaceAt, List.map_cons, ih]; split <;> rfl

theorem keepBelow_map {α β : Type} (f : α → β) (idx : Nat) (i : Nat) (xs : List α) :
    (keepBelow idx i xs).map f = keepBelow idx i (xs.map f) := by
  induction xs generalizing i with
  | nil => rfl
  | cons x xs ih => simp only [keepBelow, List.map_cons]; split <;> simp [ih]

theorem replaceAt_shift {α : Type} (idx : Nat) (e : α) (i : Nat) (xs : List α) :
    replaceAt (idx + 2) e (i + 1) xs = replaceAt idx e i xs := by
  induction xs generalizing i with
  | nil => rfl
  | cons x xs ih =>
    simp only [replaceAt, ih]
    have : (2 * (i + 1) + 1 == idx + 2) = (2 * i + 1 == idx) := by
      rw [Bool.eq_iff_iff]; simp only [beq_iff_eq]; omega
    rw [this]

theorem keepBelow_shift {α : Type} (idx : Nat) (i : Nat) (xs : List α) :
    keepBelow (idx + 2) (i + 1) xs = keepBelow idx i xs := by
  induction xs generalizing i with
  | nil => rfl
  | cons x xs ih =>
    simp only [keepBelow, ih]
    have : (2 * (i + 1) + 1 < idx + 2) = (2 * i + 1 < idx) := by apply propext; omega
    simp only [this]

theorem replaceAt_past {α : Type} (idx : Nat) (e : α) (i : Nat) (xs : List α) (h : idx < 2 * i + 1) :
    replaceAt idx e i xs = xs := by
  induction xs generalizing i with
  | nil => rfl
  | cons x xs ih =>
    have h1 : (2 * i + 1 == idx) = false := by simp; omega
    simp only [replaceAt, h1]
    rw [ih (i + 1) (by omega)]; rfl

theorem keepBelow_zero {α : Type} (i : Nat) (xs : List α) : keepBelow 0 i xs = [] := by
  induction xs generalizing i with
  | nil => rfl
  | cons x xs ih => simp [keepBelow, ih]

/-! ### reference level: `pairn` / `flatten` -/

theorem flatten_not_pair {v : SVal} (h : isPair v = false) : flatten v = [v] := by
  cases v <;> simp_all [flatten, isPair]

theorem isPair_elim {v : SVal} (h : isPair v = true) : ∃ l r, v = .pair l r := by
  cases v <;> simp_all [isPair]

theorem flatten_ne_nil (v : SVal) : ∃ x xs, flatten v = x :: xs := by
  cases v <;> simp [flatten]

theorem pairn_cons {a : SVal} {xs : List SVal} {t : SVal} (h : pairn xs = some t) :
    pairn (a :: xs) = some (.pair a t) := by
  match xs, h with
  | [], h => simp [pairn] at h
  | [b], h => simp [pairn] at h
  | b :: c :: rest, h => simp [pairn] at h ⊢; simp [h]

theorem pairn_cons_flatten : ∀ (r : SVal) (a : SVal), pairn (a :: flatten r) = some (.pair a r)
  | .pair l r, a => by
    have ih := pairn_cons_flatten r l
    simp only [flatten]
    exact pairn_cons ih
  | .atom _, a => by simp [flatten, pairn]
  | .none, a => by simp [flatten, pairn]
  | .some _, a => by simp [flatten, pairn]
  | .left _, a => by simp [flatten, pairn]
  | .right _, a => by simp [flatten, pairn]
  | .list _, a => by simp [flatten, pairn]

theorem pairn_flatten {v : SVal} (h : isPair v = true) : pairn (flatten v) = some v := by
  obtain ⟨l, r, rfl⟩ := isPair_elim h
  simp only [flatten]; exact pairn_cons_flatten r l

/-- `UPDATE (2k+1)` on the flattened comb -/
theorem updaten_odd_flat (e : SVal) : ∀ (k : Nat) (sv r a : SVal), updaten (2 * k + 1) e sv = some r →
    pairn (a :: replaceAt (2 * k + 1) e 0 (flatten sv)) = some (.pair a r)
  | 0, sv, r, a, h => by
    match sv, h with
    | .pair l r0, h =>
      simp only [updaten, Option.some.injEq] at h
      subst h
      simp only [flatten, replaceAt, Nat.mul_zero, Nat.zero_add, beq_self_eq_true, if_true]
      rw [replaceAt_past 1 e 1 _ (by omega)]
      exact pairn_cons (pairn_cons_flatten r0 e)
  | k + 1, sv, r, a, h => by
    match sv, h with
    | .pair l r0, h =>
      have e1 : 2 * (k + 1) + 1 = (2 * k + 1) + 2 := by omega
      rw [e1] at h ⊢
      simp only [updaten, Option.map_eq_some_iff] at h
      obtain ⟨r1, h1, rfl⟩ := h
      have ih := updaten_odd_flat e k r0 r1 l h1
      have hne : (2 * 0 + 1 == 2 * k + 1 + 2) = false := by simp
      simp only [flatten, replaceAt, hne, Bool.false_eq_true, if_false]
      rw [show (0 : Nat) + 1 = 0 + 1 from rfl, replaceAt_shift]
      exact pairn_cons ih

/-- `UPDATE (2k)` on the flattened comb -/
theorem updaten_even_flat (e : SVal) : ∀ (k : Nat) (sv r a : SVal), updaten (2 * k) e sv = some r →
    pairn (a :: (keepBelow (2 * k) 0 (flatten sv) ++ flatten e)) = some (.pair a r)
  | 0, sv, r, a, h => by
    simp only [updaten, Option.some.injEq] at h
    subst h
    simp only [Nat.mul_zero, keepBelow_zero, List.nil_append]
    exact pairn_cons_flatten _ a
  | k + 1, sv, r, a, h => by
    match sv, h with
    | .pair l r0, h =>
      have e1 : 2 * (k + 1) = 2 * k + 2 := by omega
      rw [e1] at h ⊢
      simp only [updaten, Option.map_eq_some_iff] at h
      obtain ⟨r1, h1, rfl⟩ := h
      have ih := updaten_even_flat e k r0 r1 l h1
      have hlt : 2 * 0 + 1 < 2 * k + 2 := by omega
      simp only [flatten, keepBelow, hlt, if_true, List.cons_append]
      rw [show (0 : Nat) + 1 = 0 + 1 from rfl, keepBelow_shift]
      exact pairn_cons ih

/-! ### the annotation-blind helpers against the reference -/

theorem iterComb_strip : ∀ (v : CVal), v.isPair = true → (iterComb false false v).map strip = flatten (strip v)
  | .pair a l r, _ => by
    cases h : r.isPair
    · have h' : isPair (strip r) = false := by rw [isPair_strip]; exact h
      simp [iterComb, descend_false, strip, flatten, h, flatten_not_pair h']
    · simp [iterComb, descend_false, strip, flatten, h, iterComb_strip r h]
  | .atom .., h => by simp [CVal.isPair] at h
  | .none .., h => by simp [CVal.isPair] at h
  | .some .., h => by simp [CVal.isPair] at h
  | .left .., h => by simp [CVal.isPair] at h
  | .right .., h => by simp [CVal.isPair] at h
  | .list .., h => by simp [CVal.isPair] at h

/-- leaves of any value: `iter_comb()` for a pair, the value itself otherwise (`update_comb`'s treatment of the element) -/
theorem leaves_strip (e : CVal) :
    (if e.isPair then iterComb false false e else [e]).map strip = flatten (strip e) := by
  cases h : e.isPair
  · have h' : isPair (strip e) = false := by rw [isPair_strip]; exact h
    simp [flatten_not_pair h']
  · simp [iterComb_strip e h]

theorem getn_succ_not_pair {sv : SVal} (h : isPair sv = false) (m : Nat) : getn (m + 1) sv = none := by
  cases m with
  | zero => cases sv <;> simp_all [getn, isPair]
  | succ m => cases sv <;> simp_all [getn, isPair]

theorem accessComb_getn : ∀ (v : CVal) (n : Nat), v.isPair = true → (accessComb false v n).map strip = getn n (strip v)
  | .pair a l r, n, _ => by
    unfold accessComb
    match n with
    | 0 => simp [iterComb, getn, strip]
    | 1 => simp [iterComb, getn, strip]
    | n + 2 =>
      cases h : r.isPair
      · have h' : isPair (strip r) = false := by rw [isPair_strip]; exact h
        cases n with
        | zero => simp [iterComb, descend_false, h, getn, strip]
        | succ m => simp [iterComb, descend_false, h, getn, strip, getn_succ_not_pair h']
      · have ih := accessComb_getn r n h
        unfold accessComb at ih
        simpa [iterComb, descend_false, h, getn, strip] using ih
  | .atom .., _, h => by simp [CVal.isPair] at h
  | .none .., _, h => by simp [CVal.isPair] at h
  | .some .., _, h => by simp [CVal.isPair] at h
  | .left .., _, h => by simp [CVal.isPair] at h
  | .right .., _, h => by simp [CVal.isPair] at h
  | .list .., _, h => by simp [CVal.isPair] at h

theorem fromComb_cons3 (a b c : CVal) (rest : List CVal) :
    fromComb (a :: b :: c :: rest) = (fromComb (b :: c :: rest)).map (.pair .blank a) := rfl

theorem pairn_cons3 (a b c : SVal) (rest : List SVal) :
    pairn (a :: b :: c :: rest) = (pairn (b :: c :: rest)).map (.pair a) := rfl

theorem fromComb_strip : ∀ xs : List CVal, (fromComb xs).map strip = pairn (xs.map strip)
  | [] => rfl
  | [_] => rfl
  | [a, b] => by simp [fromComb, pairn, strip]
  | a :: b :: c :: rest => by
    have ih := fromComb_strip (b :: c :: rest)
    have ih' : pairn (strip b :: strip c :: rest.map strip) = (fromComb (b :: c :: rest)).map strip := by
      simpa only [List.map_cons] using ih.symm
    rw [fromComb_cons3, List.map_cons, List.map_cons, List.map_cons, pairn_cons3, ih']
    cases fromComb (b :: c :: rest) <;> simp [strip]

theorem unpairn_succ_not_pair {sv : SVal} (h : isPair sv = false) (n : Nat) : unpairn n sv = none := by
  cases sv <;> simp_all [isPair] <;> (unfold unpairn; split <;> simp_all)

theorem unpairnComb_spec : ∀ (n : Nat) (v : CVal) (rs : List SVal), unpairn (n + 2) (strip v) = some rs →
    (unpairnComb false n v).map strip = rs
  | 0, .pair a l r, rs, h => by
    simp only [strip, unpairn, Option.some.injEq] at h
    subst h
    simp [unpairnComb]
  | n + 1, .pair a l r, rs, h => by
    simp only [strip, unpairn, Option.map_eq_some_iff] at h
    obtain ⟨rs', h1, rfl⟩ := h
    have hp : r.isPair = true := by
      cases hr : r.isPair
      · have h' : isPair (strip r) = false := by rw [isPair_strip]; exact hr
        rw [unpairn_succ_not_pair h'] at h1; cases h1
      · rfl
    have ih := unpairnComb_spec n r rs' h1
    simp [unpairnComb, descend_false, hp, ih]
  | _, .atom .., _, h => by simp [strip, unpairn] at h
  | _, .none .., _, h => by simp [strip, unpairn] at h
  | _, .some .., _, h => by simp [strip, unpairn] at h
  | _, .left .., _, h => by simp [strip, unpairn] at h
  | _, .right .., _, h => by simp [strip, unpairn] at h
  | _, .list .., _, h => by simp [strip, unpairn] at h

/-- `update_comb`: wherever the reference is defined the helper agrees (`update_comb(0, e)` rebuilds `e` through `from_comb`, which
wants ≥ 2 leaves, hence the side condition for n = 0 — the instruction UPDATE n no longer calls the helper with 0) -/
theorem updateComb_spec (v e : CVal) (n : Nat) (r : SVal) (hv : v.isPair = true) (h0 : n = 0 → e.isPair = true)
    (h : updaten n (strip e) (strip v) = some r) : (updateComb false v n e).map strip = some r := by
  obtain ⟨a, l, r0, rfl⟩ : ∃ a l r0, v = .pair a l r0 := by
    cases v <;> simp_all [CVal.isPair]
  have hfl : (iterComb false false (.pair a l r0)).map strip = strip l :: flatten (strip r0) := by
    rw [iterComb_strip _ hv]; simp [strip, flatten]
  unfold updateComb
  obtain ⟨k, hk⟩ : ∃ k, n = 2 * k ∨ n = 2 * k + 1 := ⟨n / 2, by omega⟩
  rcases hk with rfl | rfl
  · -- even
    have hm : ((2 * k) % 2 == 1) = false := by simp
    simp only [hm, Bool.false_eq_true, if_false]
    rw [fromComb_strip, List.map_append, keepBelow_map, hfl, leaves_strip]
    cases k with
    | zero =>
      simp only [updaten, Option.some.injEq] at h
      subst h
      simp only [Nat.mul_zero, keepBelow_zero, List.nil_append]
      exact pairn_flatten (by rw [isPair_strip]; exact h0 rfl)
    | succ k =>
      have e1 : 2 * (k + 1) = 2 * k + 2 := by omega
      rw [e1] at h ⊢
      simp only [strip, updaten, Option.map_eq_some_iff] at h
      obtain ⟨r1, h1, rfl⟩ := h
      have hlt : 2 * 0 + 1 < 2 * k + 2 := by omega
      simp only [keepBelow, hlt, if_true, List.cons_append]
      rw [show (0 : Nat) + 1 = 0 + 1 from rfl, keepBelow_shift]
      exact updaten_even_flat (strip e) k (strip r0) r1 (strip l) h1
  · -- odd
    have hm : ((2 * k + 1) % 2 == 1) = true := by simp
    simp only [hm, if_true]
    rw [fromComb_strip, replaceAt_map, hfl]
    cases k with
    | zero =>
      simp only [strip, Nat.mul_zero, Nat.zero_add, updaten, Option.some.injEq] at h
      subst h
      simp only [replaceAt, Nat.mul_zero, Nat.zero_add, beq_self_eq_true, if_true]
      rw [replaceAt_past 1 _ 1 _ (by omega)]
      exact pairn_cons_flatten _ _
    | succ k =>
      have e1 : 2 * (k + 1) + 1 = (2 * k + 1) + 2 := by omega
      rw [e1] at h ⊢
      simp only [strip, updaten, Option.map_eq_some_iff] at h
      obtain ⟨r1, h1, rfl⟩ := h
      have hne : (2 * 0 + 1 == 2 * k + 1 + 2) = false := by simp
      simp only [replaceAt, hne, Bool.false_eq_true, if_false]
      rw [show (0 : Nat) + 1 = 0 + 1 from rfl, replaceAt_shift]
      exact updaten_odd_flat (strip e) k (strip r0) r1 (strip l) h1

/-! ### erasing the annotations first changes nothing (every input, in or out of the reference's domain) -/

theorem iterComb_erase (nd : Bool) : ∀ v : CVal, (iterComb false nd v).map erase = iterComb false nd (erase v)
  | .pair a l r => by
    have ih := iterComb_erase nd r
    rw [erase_pair]
    simp only [iterComb, descend_false, isPair_erase]
    cases nd <;> cases h : r.isPair <;> simp [erase_pair, ih]
  | .atom .. => by simp [iterComb, erase, strip, embed]
  | .none .. => by simp [iterComb, erase, strip, embed]
  | .some .. => by simp [iterComb, erase, strip, embed]
  | .left .. => by simp [iterComb, erase, strip, embed]
  | .right .. => by simp [iterComb, erase, strip, embed]
  | .list .. => by simp [iterComb, erase, strip, embed]

theorem unpairnComb_erase : ∀ (n : Nat) (v : CVal), (unpairnComb false n v).map erase = unpairnComb false n (erase v)
  | n, .pair a l r => by
    have ih := unpairnComb_erase (n - 1) r
    rw [erase_pair]
    simp only [unpairnComb, descend_false, isPair_erase]
    cases h : r.isPair <;> by_cases hn : n > 0 <;> simp [hn, ih]
  | _, .atom .. => by simp [unpairnComb, erase, strip, embed]
  | _, .none .. => by simp [unpairnComb, erase, strip, embed]
  | _, .some .. => by simp [unpairnComb, erase, strip, embed]
  | _, .left .. => by simp [unpairnComb, erase, strip, embed]
  | _, .right .. => by simp [unpairnComb, erase, strip, embed]
  | _, .list .. => by simp [unpairnComb, erase, strip, embed]

theorem fromComb_erase : ∀ xs : List CVal, (fromComb xs).map erase = fromComb (xs.map erase)
  | [] => rfl
  | [_] => rfl
  | [a, b] => by simp [fromComb, erase_pair]
  | a :: b :: c :: rest => by
    have ih := fromComb_erase (b :: c :: rest)
    have ih' : fromComb (erase b :: erase c :: rest.map erase) = (fromComb (b :: c :: rest)).map erase := by
      simpa only [List.map_cons] using ih.symm
    rw [fromComb_cons3, List.map_cons, List.map_cons, List.map_cons, fromComb_cons3, ih']
    cases fromComb (b :: c :: rest) <;> simp [erase_pair]

theorem accessComb_erase (v : CVal) (n : Nat) : (accessComb false v n).map erase = accessComb false (erase v) n := by
  unfold accessComb
  rw [← iterComb_erase, List.getElem?_map]

theorem leaves_erase (e : CVal) :
    (if e.isPair then iterComb false false e else [e]).map erase
      = if (erase e).isPair then iterComb false false (erase e) else [erase e] := by
  rw [isPair_erase]
  cases h : e.isPair <;> simp [iterComb_erase]

theorem updateComb_erase (v e : CVal) (n : Nat) :
    (updateComb false v n e).map erase = updateComb false (erase v) n (erase e) := by
  unfold updateComb
  split
  · rw [fromComb_erase, replaceAt_map, iterComb_erase]
  · rw [fromComb_erase, List.map_append, keepBelow_map, iterComb_erase, leaves_erase]

theorem map_eraseIdx {α β : Type} (f : α → β) : ∀ (xs : List α) (n : Nat), (xs.eraseIdx n).map f = (xs.map f).eraseIdx n
  | [], _ => rfl
  | _ :: xs, 0 => rfl
  | x :: xs, n + 1 => by simp [List.eraseIdx, map_eraseIdx f xs n]

theorem step_erase (zg zu : Bool) (i : Instr) (st : List CVal) :
    (step false false zg zu i st).map (List.map erase) = step false false zg zu i (st.map erase) := by
  cases i with
  | getN n =>
    cases st with
    | nil => rfl
    | cons v st =>
      simp only [step, List.map_cons, isPair_erase]
      split
      · rfl
      · split
        · rw [← accessComb_erase]; cases accessComb false v n <;> simp
        · rfl
  | updateN n =>
    match st with
    | [] => rfl
    | [_] => rfl
    | e :: v :: st =>
      simp only [step, List.map_cons, isPair_erase]
      split
      · rfl
      · split
        · rw [← updateComb_erase]; cases updateComb false v n e <;> simp
        · rfl
  | pairN n =>
    simp only [step, List.length_map]
    split
    · rw [← List.map_take, ← List.map_drop, ← fromComb_erase]
      cases fromComb (List.take n st) <;> simp
    · rfl
  | unpairN n =>
    cases st with
    | nil => rfl
    | cons v st =>
      simp only [step, List.map_cons, isPair_erase]
      split
      · simp [unpairnComb_erase]
      · rfl
  | pair =>
    match st with
    | [] => rfl
    | [_] => rfl
    | l :: r :: st => simp [step, fromComb, erase_pair]
  | unpair =>
    match st with
    | [] => rfl
    | v :: st => cases v <;> simp [step, erase_pair] <;> simp [erase, strip, embed]
  | car =>
    match st with
    | [] => rfl
    | v :: st => cases v <;> simp [step, erase_pair] <;> simp [erase, strip, embed]
  | cdr =>
    match st with
    | [] => rfl
    | v :: st => cases v <;> simp [step, erase_pair] <;> simp [erase, strip, embed]
  | swap =>
    match st with
    | [] => rfl
    | [_] => rfl
    | a :: b :: st => simp [step]
  | dup =>
    match st with
    | [] => rfl
    | a :: st => simp [step]
  | drop =>
    match st with
    | [] => rfl
    | a :: st => simp [step]
  | dig n =>
    simp only [step, List.getElem?_map]
    cases h : st[n]? <;> simp [map_eraseIdx]
  | dug n =>
    match st with
    | [] => rfl
    | x :: st =>
      simp only [step, List.map_cons, List.length_map]
      split <;> simp [List.map_take, List.map_drop]

theorem exec_erase (zg zu : Bool) : ∀ (prog : List Instr) (st : List CVal),
    (exec false false zg zu prog st).map (List.map erase) = exec false false zg zu prog (st.map erase)
  | [], st => rfl
  | i :: is, st => by
    simp only [exec]
    rw [← step_erase]
    cases h : step false false zg zu i st with
    | none => rfl
    | some st' => simp [exec_erase zg zu is st']

/-- results, modulo annotations, are a function of the annotation-free inputs -/
theorem blind_of_erase {α : Type} (f : α → Option (List CVal)) (g : α → α)
    (hf : ∀ x, (f x).map (List.map erase) = f (g x)) {x y : α} (hxy : g x = g y) :
    (f x).map (List.map strip) = (f y).map (List.map strip) := by
  have e : ∀ x, (f x).map (List.map strip) = (f (g x)).map (List.map strip) := by
    intro x
    rw [← hf x, Option.map_map]
    congr 1
    funext xs
    exact (map_strip_erase xs).symm
  rw [e x, e y, hxy]

/-! ### optimized layout: pytezos' "flatten, then look at the number of leaves" is Octez' incremental `unparse_pair` -/

/-- rendered leaves of the maximal right comb -/
def args (sv : SVal) : List Mich := (flatten sv).map layout

theorem args_pair (l r : SVal) : args (.pair l r) = layout l :: args r := by simp [args, flatten]

theorem args_not_pair {v : SVal} (h : isPair v = false) : args v = [layout v] := by
  simp [args, flatten_not_pair h]

theorem args_two {v : SVal} (h : isPair v = true) : ∃ x y zs, args v = x :: y :: zs := by
  obtain ⟨l, r, rfl⟩ := isPair_elim h
  obtain ⟨x, xs, hx⟩ := flatten_ne_nil r
  exact ⟨layout l, layout x, xs.map layout, by simp [args, flatten, hx]⟩

theorem unparsePair_leaf (b : Bool) (x y : Mich) : unparsePair false b x y = Spec.Comb.mkPair x y := by
  unfold unparsePair; split <;> simp

theorem unparsePair_three (rp : Bool) (x a b : Mich) :
    unparsePair rp false x (Spec.Comb.mkPair a b) = Spec.Comb.mkPair x (Spec.Comb.mkPair a b) := by
  unfold unparsePair Spec.Comb.mkPair; split <;> simp_all

theorem unparsePair_four (x a b c : Mich) :
    unparsePair true true x (Spec.Comb.mkPair a (Spec.Comb.mkPair b c)) = .seq [x, a, b, c] := by
  simp [unparsePair, Spec.Comb.mkPair]

theorem unparsePair_more (rr : Bool) (x : Mich) (xs : List Mich) : unparsePair true rr x (.seq xs) = .seq (x :: xs) := by
  simp [unparsePair]

theorem mkPair_eq (a b : Mich) : Impl.Comb.mkPair a b = Spec.Comb.mkPair a b := rfl

theorem layout_pair (l r : SVal) :
    layout (.pair l r) = unparsePair (isPair r) (rightIsPair r) (layout l) (layout r) := by
  simp [layout]

/-- the counting rule on the rendered leaves gives Octez' layout -/
theorem combArgs_args : ∀ (r l : SVal), combArgs (layout l :: args r) = some (layout (.pair l r))
  | .pair l' r', l => by
    have ih := combArgs_args r' l'
    rw [layout_pair l, args_pair]
    rw [show isPair (.pair l' r') = true from rfl, show rightIsPair (.pair l' r') = isPair r' from rfl]
    cases h1 : isPair r'
    · -- three leaves
      rw [args_not_pair h1] at ih ⊢
      simp only [combArgs, Option.some.injEq, mkPair_eq] at ih
      rw [← ih, unparsePair_three]
      simp [combArgs, mkPair_eq]
    · obtain ⟨l'', r'', rfl⟩ := isPair_elim h1
      clear h1
      rw [args_pair] at ih ⊢
      cases h2 : isPair r''
      · -- four leaves
        rw [args_not_pair h2] at ih ⊢
        simp only [combArgs, Option.some.injEq, mkPair_eq] at ih
        rw [← ih, unparsePair_four]
        simp [combArgs]
      · -- five or more
        obtain ⟨x, y, zs, hz⟩ := args_two h2
        rw [hz] at ih ⊢
        simp only [combArgs, List.length_cons] at ih
        have ih' : Mich.seq (layout l' :: layout l'' :: x :: y :: zs) = layout (.pair l' (.pair l'' r'')) := by
          simpa using ih
        rw [← ih', unparsePair_more]
        simp [combArgs]
  | .atom m, l => by simp [args, flatten, combArgs, layout, isPair, unparsePair_leaf, mkPair_eq]
  | .none, l => by simp [args, flatten, combArgs, layout, isPair, unparsePair_leaf, mkPair_eq]
  | .some v, l => by simp [args, flatten, combArgs, layout, isPair, unparsePair_leaf, mkPair_eq]
  | .left v, l => by simp [args, flatten, combArgs, layout, isPair, unparsePair_leaf, mkPair_eq]
  | .right v, l => by simp [args, flatten, combArgs, layout, isPair, unparsePair_leaf, mkPair_eq]
  | .list xs, l => by simp [args, flatten, combArgs, layout, isPair, unparsePair_leaf, mkPair_eq]

mutual
  theorem toMich_layout : ∀ v : CVal, toMich false v = some (layout (strip v))
    | .atom _ m => by simp [toMich, strip, layout]
    | .pair a l r => by
      have hl := toMich_layout l
      simp only [toMich, descend_false, hl, Option.bind_some, strip]
      cases h : r.isPair
      · have hr := toMich_layout r
        have h' : isPair (strip r) = false := by rw [isPair_strip]; exact h
        simp only [hr, Bool.false_eq_true, if_false, Option.map_some, Option.bind_some]
        rw [← args_not_pair h']; exact combArgs_args _ _
      · have hr := combMich_args r h
        simp only [hr, if_true, Option.map_some, Option.bind_some]
        exact combArgs_args _ _
    | .none _ => by simp [toMich, strip, layout]
    | .some _ v => by simp [toMich, strip, layout, toMich_layout v]
    | .left _ v => by simp [toMich, strip, layout, toMich_layout v]
    | .right _ v => by simp [toMich, strip, layout, toMich_layout v]
    | .list _ xs => by simp [toMich, strip, layout, toMichList_layout xs]
  theorem combMich_args : ∀ v : CVal, v.isPair = true → combMich false v = some (args (strip v))
    | .pair a l r, _ => by
      have hl := toMich_layout l
      simp only [combMich, descend_false, hl, Option.bind_some, strip, args_pair]
      cases h : r.isPair
      · have hr := toMich_layout r
        have h' : isPair (strip r) = false := by rw [isPair_strip]; exact h
        simp [hr, args_not_pair h']
      · have hr := combMich_args r h
        simp [hr]
    | .atom .., h => by simp [CVal.isPair] at h
    | .none .., h => by simp [CVal.isPair] at h
    | .some .., h => by simp [CVal.isPair] at h
    | .left .., h => by simp [CVal.isPair] at h
    | .right .., h => by simp [CVal.isPair] at h
    | .list .., h => by simp [CVal.isPair] at h
  theorem toMichList_layout : ∀ xs : List CVal, toMichList false xs = some (layoutList (stripList xs))
    | [] => by simp [toMichList, stripList, layoutList]
    | x :: xs => by simp [toMichList, stripList, layoutList, toMich_layout x, toMichList_layout xs]
end

/-- the fused traversal of `toMich` is `[arg.to_micheline_value() for arg in self.iter_comb()]` -/
theorem combMich_eq (chk : Bool) : ∀ v : CVal, v.isPair = true →
    combMich chk v = toMichList chk (iterComb chk false v)
  | .pair a l r, _ => by
    simp only [combMich, iterComb, Bool.false_eq_true, if_false, List.nil_append, toMichList]
    cases hl : toMich chk l with
    | none => simp
    | some x =>
      cases hd : descend chk r
      · cases hr : toMich chk r <;> simp [toMichList, hr]
      · have hp : r.isPair = true := by cases r <;> simp_all [descend, CVal.isPair]
        simp [combMich_eq chk r hp]
  | .atom .., h => by simp [CVal.isPair] at h
  | .none .., h => by simp [CVal.isPair] at h
  | .some .., h => by simp [CVal.isPair] at h
  | .left .., h => by simp [CVal.isPair] at h
  | .right .., h => by simp [CVal.isPair] at h
  | .list .., h => by simp [CVal.isPair] at h

/-! ### the four comb instructions on a stack against `Spec.Comb.step` -/

theorem updaten_succ_not_pair {sv : SVal} (h : isPair sv = false) (e : SVal) (m : Nat) : updaten (m + 1) e sv = none := by
  cases m with
  | zero => cases sv <;> simp_all [updaten, isPair]
  | succ m => cases sv <;> simp_all [updaten, isPair]

theorem isPair_of_strip {v : CVal} (h : isPair (strip v) = true) : v.isPair = true := by
  rw [isPair_strip] at h; exact h

theorem isPair_of_not {v : CVal} (h : ¬ isPair (strip v) = false) : v.isPair = true := by
  cases hp : v.isPair
  · exact absurd (by rw [isPair_strip]; exact hp) h
  · rfl

/-- `GET 0` in the repaired shape: the stack is returned as it is, whatever the type of its top (annotations included) -/
theorem step_getN_zero (ci cu zu : Bool) (v : CVal) (st : List CVal) :
    step ci cu true zu (.getN 0) (v :: st) = some (v :: st) := by
  simp [step]

/-- `UPDATE 0` in the repaired shape: the new element replaces the value below it, whatever the two types -/
theorem step_updateN_zero (ci cu zg : Bool) (e v : CVal) (st : List CVal) :
    step ci cu zg true (.updateN 0) (e :: v :: st) = some (e :: st) := by
  simp [step]

theorem step_getN_succ (ci cu zg zu : Bool) (m : Nat) (v : CVal) (st : List CVal) :
    step ci cu zg zu (.getN (m + 1)) (v :: st)
      = if v.isPair then (accessComb ci v (m + 1)).map (· :: st) else none := by
  simp [step]

theorem step_updateN_succ (ci cu zg zu : Bool) (m : Nat) (e v : CVal) (st : List CVal) :
    step ci cu zg zu (.updateN (m + 1)) (e :: v :: st)
      = if v.isPair then (updateComb ci v (m + 1) e).map (· :: st) else none := by
  simp [step]

/-- GET n on a stack, repaired shape: the reference `GET n` for EVERY value and EVERY n — same result, same failures -/
theorem step_getN_eq (zu : Bool) (n : Nat) (v : CVal) (st : List CVal) :
    (step false false true zu (.getN n) (v :: st)).map (List.map strip)
      = (getn n (strip v)).map (· :: st.map strip) := by
  cases n with
  | zero => simp [step_getN_zero, getn]
  | succ m =>
    rw [step_getN_succ]
    cases hv : v.isPair
    · have h' : isPair (strip v) = false := by rw [isPair_strip]; exact hv
      simp [getn_succ_not_pair h']
    · have := accessComb_getn v (m + 1) hv
      rw [← this]
      cases accessComb false v (m + 1) <;> simp

theorem step_getN_spec (zu : Bool) (n : Nat) (v : CVal) (st : List CVal) (x : SVal)
    (h : getn n (strip v) = some x) :
    (step false false true zu (.getN n) (v :: st)).map (List.map strip) = some (x :: st.map strip) := by
  rw [step_getN_eq, h]; rfl

theorem step_updateN_spec (zg : Bool) (n : Nat) (e v : CVal) (st : List CVal) (x : SVal)
    (h : updaten n (strip e) (strip v) = some x) :
    (step false false zg true (.updateN n) (e :: v :: st)).map (List.map strip) = some (x :: st.map strip) := by
  cases n with
  | zero =>
    simp only [updaten, Option.some.injEq] at h
    subst h
    simp [step_updateN_zero]
  | succ m =>
    have hv : v.isPair = true := isPair_of_not (fun hp => by rw [updaten_succ_not_pair hp] at h; cases h)
    have := updateComb_spec v e (m + 1) x hv (fun h0 => by cases h0) h
    rw [step_updateN_succ]
    simp only [hv, if_true]
    cases ha : updateComb false v (m + 1) e with
    | none => rw [ha] at this; cases this
    | some y => rw [ha] at this; simp at this; simp [this]

theorem step_pairN_spec (zg zu : Bool) (n : Nat) (st : List CVal) (x : SVal) (hn : 2 ≤ n ∧ n ≤ st.length)
    (h : pairn ((st.map strip).take n) = some x) :
    (step false false zg zu (.pairN n) st).map (List.map strip) = some (x :: (st.map strip).drop n) := by
  have := fromComb_strip (st.take n)
  rw [List.map_take, h] at this
  have hn' : n ≥ 2 ∧ st.length ≥ n := hn
  simp only [step, hn', and_self, if_true]
  cases ha : fromComb (st.take n) with
  | none => rw [ha] at this; cases this
  | some y => rw [ha] at this; simp at this; simp [this, List.map_drop]

theorem unpairn_lt_two (sv : SVal) : unpairn 0 sv = none ∧ unpairn 1 sv = none := by
  constructor <;> (unfold unpairn; rfl)

theorem step_unpairN_spec (zg zu : Bool) (n : Nat) (v : CVal) (st : List CVal) (rs : List SVal)
    (h : unpairn n (strip v) = some rs) :
    (step false false zg zu (.unpairN n) (v :: st)).map (List.map strip) = some (rs ++ st.map strip) := by
  match n, h with
  | 0, h => rw [(unpairn_lt_two _).1] at h; cases h
  | 1, h => rw [(unpairn_lt_two _).2] at h; cases h
  | n + 2, h =>
    have hv : v.isPair = true := isPair_of_not (fun hp => by rw [unpairn_succ_not_pair hp] at h; cases h)
    have := unpairnComb_spec n v rs h
    simp [step, hv, this]

end Impl.Comb
