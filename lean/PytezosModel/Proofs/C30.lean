import PytezosModel.Client.Diff
/-! Helper lemmas for C30 (protocol source diffs): numerals and the hunk-header parser, `splitlines`/`join`,
one pass of `apply_patch` over a rendered hunk, over a rendered script. -/
namespace Proofs.C30
open Impl.Diff Spec.Diff

/-! ### numerals -/

theorem digitChar_isDigit {d : Nat} (h : d < 10) : (digitChar d).isDigit = true := by
  have : ∀ d : Fin 10, (digitChar d.val).isDigit = true := by decide
  exact this ⟨d, h⟩

theorem digitChar_val {d : Nat} (h : d < 10) : (digitChar d).toNat - 48 = d := by
  have : ∀ d : Fin 10, (digitChar d.val).toNat - 48 = d.val := by decide
  exact this ⟨d, h⟩

theorem digits_ne_nil (n : Nat) : digits n ≠ [] := by
  rw [digits]
  split <;> simp

theorem digits_all (n : Nat) : ∀ c ∈ digits n, c.isDigit = true := by
  induction n using Nat.strongRecOn with
  | _ n ih =>
    rw [digits]
    split
    · intro c hc
      simp only [List.mem_singleton] at hc
      subst hc
      exact digitChar_isDigit (by omega)
    · intro c hc
      simp only [List.mem_append, List.mem_singleton] at hc
      rcases hc with hc | hc
      · exact ih (n / 10) (by omega) c hc
      · subst hc
        exact digitChar_isDigit (by omega)

theorem parseNat_append (ds : List Char) (c : Char) : parseNat (ds ++ [c]) = parseNat ds * 10 + (c.toNat - 48) := by
  simp [parseNat, List.foldl_append]

theorem parseNat_digits (n : Nat) : parseNat (digits n) = n := by
  induction n using Nat.strongRecOn with
  | _ n ih =>
    rw [digits]
    split
    · rename_i h
      simp [parseNat, digitChar_val h]
    · rename_i h
      rw [parseNat_append, ih (n / 10) (by omega), digitChar_val (by omega)]
      omega

theorem digits_eq_zero {n : Nat} (h : digits n = ['0']) : n = 0 := by
  have := parseNat_digits n
  rw [h] at this
  simpa [parseNat] using this.symm

theorem digits_zero : digits 0 = ['0'] := by
  rw [digits]; rfl

theorem spanDigits_append (ds rest : List Char) (hds : ∀ c ∈ ds, c.isDigit = true)
    (hr : ∀ c r, rest = c :: r → c.isDigit = false) : spanDigits (ds ++ rest) = (ds, rest) := by
  induction ds with
  | nil =>
    cases rest with
    | nil => rfl
    | cons c r => simp [spanDigits, hr c r rfl]
  | cons d ds ih =>
    have hd : d.isDigit = true := hds d (by simp)
    have := ih (fun c hc => hds c (by simp [hc]))
    simp [spanDigits, hd, this]

/-- the `(\d+),?(\d+)?` parser reads back what `_format_range_unified` printed, and the hunk start computed from it is
the number of lines before the hunk -/
theorem parseRange_fmt (start count : Nat) (c : Char) (rest : List Char) (hc : c.isDigit = false) (hc2 : c ≠ ',') :
    ∃ n g, parseRange (fmtRange start count ++ c :: rest) = some (n, g, c :: rest) ∧ hunkStart n g = (start : Int) := by
  have hrest : ∀ c' r, c :: rest = c' :: r → c'.isDigit = false := by
    intro c' r h
    cases h; exact hc
  have hdc : dropComma (c :: rest) = c :: rest := by
    unfold dropComma
    split
    · rename_i h
      cases h
      exact absurd rfl hc2
    · rfl
  have hs0 : spanDigits (c :: rest) = ([], c :: rest) := by simp [spanDigits, hc]
  unfold fmtRange
  by_cases h1 : count = 1
  · refine ⟨start + 1, none, ?_, ?_⟩
    · have hsp := spanDigits_append (digits (start + 1)) (c :: rest) (digits_all _) hrest
      have hne : (digits (start + 1)).isEmpty = false := by
        cases h : digits (start + 1) with
        | nil => exact absurd h (digits_ne_nil _)
        | cons _ _ => rfl
      simp [h1, parseRange, hsp, hne, hdc, hs0, parseNat_digits]
    · simp [hunkStart]
  · let s := if count = 0 then start else start + 1
    refine ⟨s, some (digits count), ?_, ?_⟩
    · have hcomma : ∀ c' r, (',' :: (digits count ++ c :: rest)) = c' :: r → c'.isDigit = false := by
        intro c' r h
        cases h; decide
      have hsp1 := spanDigits_append (digits s) (',' :: (digits count ++ c :: rest)) (digits_all _) hcomma
      have hsp2 := spanDigits_append (digits count) (c :: rest) (digits_all _) hrest
      have hne1 : (digits s).isEmpty = false := by
        cases h : digits s with
        | nil => exact absurd h (digits_ne_nil _)
        | cons _ _ => rfl
      have hne2 : (digits count).isEmpty = false := by
        cases h : digits count with
        | nil => exact absurd h (digits_ne_nil _)
        | cons _ _ => rfl
      have e : (digits s ++ ',' :: digits count) ++ c :: rest = digits s ++ ',' :: (digits count ++ c :: rest) := by simp
      simp only [h1, if_false]
      show parseRange ((digits s ++ ',' :: digits count) ++ c :: rest) = _
      rw [e]
      simp [parseRange, hsp1, hne1, dropComma, hsp2, hne2, parseNat_digits]
    · by_cases h0 : count = 0
      · simp [hunkStart, s, h0, digits_zero]
      · have : digits count ≠ ['0'] := fun h => h0 (digits_eq_zero h)
        simp [hunkStart, s, h0, this]

theorem parseHeader_hunkHeader (a ca b cb : Nat) :
    ∃ n1 g2 n3 g4, parseHeader (hunkHeader a ca b cb) = some (n1, g2, n3, g4) ∧
      hunkStart n1 g2 = (a : Int) ∧ hunkStart n3 g4 = (b : Int) := by
  obtain ⟨n3, g4, h2, e2⟩ := parseRange_fmt b cb ' ' ['@', '@', '\n'] (by decide) (by decide)
  obtain ⟨n1, g2, h1, e1⟩ :=
    parseRange_fmt a ca ' ' ('+' :: (fmtRange b cb ++ ' ' :: ['@', '@', '\n'])) (by decide) (by decide)
  refine ⟨n1, g2, n3, g4, ?_, e1, e2⟩
  have e : hunkHeader a ca b cb =
      '@' :: '@' :: ' ' :: '-' :: (fmtRange a ca ++ ' ' :: '+' :: (fmtRange b cb ++ ' ' :: ['@', '@', '\n'])) := by
    simp [hunkHeader]
  rw [e]
  simp [parseHeader, stripPrefix, h1, h2]

theorem hunkHeader_head (a ca b cb : Nat) : (hunkHeader a ca b cb).head? = some '@' := by
  simp [hunkHeader]

theorem hunkHeader_last (a ca b cb : Nat) : (hunkHeader a ca b cb).getLast? = some '\n' := by
  have e : hunkHeader a ca b cb =
      (['@', '@', ' ', '-'] ++ fmtRange a ca ++ [' ', '+'] ++ fmtRange b cb ++ [' ', '@', '@']) ++ ['\n'] := by
    simp [hunkHeader]
  rw [e, List.getLast?_concat]

/-! ### single steps of `go` -/

section steps
variable (source : List Line) (midx : Nat) (sign : Char)

/-- a hunk header line as printed by difflib: copy the unchanged stretch `source[sl:l]` and move to `l` -/
theorem go_header (x : Bool) (a ca b cb : Nat) (more : List Line) (t : List Char) (sl : Nat)
    (hm : midx = 1 ∨ midx = 3) (hsl : sl ≤ (if midx = 1 then a else b))
    (hl : (if midx = 1 then a else b) ≤ source.length) :
    go source midx sign x (hunkHeader a ca b cb :: more) t sl =
      go source midx sign true more
        (t ++ join ((source.drop sl).take ((if midx = 1 then a else b) - sl))) (if midx = 1 then a else b) := by
  obtain ⟨n1, g2, n3, g4, hp, e1, e2⟩ := parseHeader_hunkHeader a ca b cb
  have hc : (!x || (hunkHeader a ca b cb).head? == some '@') = true := by simp [hunkHeader_head]
  have hm' : ¬(midx ≠ 1 ∧ midx ≠ 3) := by omega
  have key : ∀ l : Int, l = ((if midx = 1 then a else b : Nat) : Int) →
      ¬((sl : Int) > l ∨ l > (source.length : Int)) ∧ l.toNat = (if midx = 1 then a else b) := by
    intro l hl'
    subst hl'
    constructor
    · omega
    · simp
  have hl2 : (if midx = 1 then hunkStart n1 g2 else hunkStart n3 g4) = ((if midx = 1 then a else b : Nat) : Int) := by
    split <;> simp [e1, e2]
  obtain ⟨k1, k2⟩ := key _ hl2
  cases more with
  | nil => rw [go.eq_2, if_pos hc]; simp only [hp, hm', if_false, k1, k2]
  | cons q r => rw [go.eq_3, if_pos hc]; simp only [hp, hm', if_false, k1, k2]

/-- a hunk body line that is not followed by the no-newline marker -/
theorem go_body_plain (p : Line) (rest : List Line) (t : List Char) (sl : Nat)
    (hp : p.head? ≠ some '@') (hr : ∀ q r, rest = q :: r → q.head? ≠ some '\\') :
    go source midx sign true (p :: rest) t sl =
      go source midx sign true rest (bodyLine sign p t sl).1 (bodyLine sign p t sl).2 := by
  have hc : ¬((!true || p.head? == some '@') = true) := by simpa using hp
  cases rest with
  | nil => rw [go.eq_2, if_neg hc]
  | cons q r => rw [go.eq_3, if_neg hc, if_neg (hr q r rfl)]

/-- a hunk body line followed by the no-newline marker: its final `'\n'` is dropped and the marker skipped -/
theorem go_body_marker (p q : Line) (rest : List Line) (t : List Char) (sl : Nat)
    (hp : p.head? ≠ some '@') (hq : q.head? = some '\\') :
    go source midx sign true (p :: q :: rest) t sl =
      go source midx sign true rest (bodyLine sign p.dropLast t sl).1 (bodyLine sign p.dropLast t sl).2 := by
  have hc : ¬((!true || p.head? == some '@') = true) := by simpa using hp
  rw [go.eq_3, if_neg hc, if_pos hq]

end steps

/-! ### the patch as lines -/

/-- the one or two patch lines `make_patch` produces for a line yielded by difflib -/
def fixLines (cfg : Config) (x : Line) : List Line :=
  if x.getLast? = some '\n' then [x] else [x ++ ['\n'], cfg.noEol ++ ['\n']]

theorem fixEol_eq (cfg : Config) (x : Line) : fixEol cfg x = (fixLines cfg x).flatten := by
  unfold fixEol fixLines
  split <;> simp

/-- the lines of the patch text -/
def patchLines (cfg : Config) (diffs : List Line) : List Line := diffs.flatMap (fixLines cfg)

theorem makePatchWith_eq (cfg : Config) (diffs : List Line) : makePatchWith cfg diffs = join (patchLines cfg diffs) := by
  unfold makePatchWith patchLines join
  induction diffs with
  | nil => rfl
  | cons x xs ih => simp [fixEol_eq, List.flatMap_cons, ih]

def sgn (rev : Bool) : Char := if rev then '-' else '+'
def srcLines (rev : Bool) (ops : List Op) : List Line := if rev then newLines ops else oldLines ops
def dstLines (rev : Bool) (ops : List Op) : List Line := if rev then oldLines ops else newLines ops

theorem opLine_head (o : Op) : (opLine o).head? = some o.tag := rfl

theorem tag_ne_at (o : Op) : some o.tag ≠ some '@' := by cases o <;> simp [Op.tag]
theorem tag_ne_bs (o : Op) : some o.tag ≠ some '\\' := by cases o <;> simp [Op.tag]

section body
variable (cfg : Config) (hm : cfg.noEol.head? = some '\\') (source : List Line) (midx : Nat) (sign : Char)
include hm

theorem go_opline (o : Op) (R : List Line) (t : List Char) (sl : Nat)
    (hR : ∀ q r, R = q :: r → q.head? ≠ some '\\') :
    go source midx sign true (fixLines cfg (opLine o) ++ R) t sl =
      go source midx sign true R (bodyLine sign (opLine o) t sl).1 (bodyLine sign (opLine o) t sl).2 := by
  unfold fixLines
  split
  · exact go_body_plain source midx sign (opLine o) R t sl (by rw [opLine_head]; exact tag_ne_at o) hR
  · have hq : (cfg.noEol ++ ['\n']).head? = some '\\' := by
      cases h : cfg.noEol with
      | nil => rw [h] at hm; cases hm
      | cons c cs => rw [h] at hm; simpa using hm
    have hp : (opLine o ++ ['\n']).head? ≠ some '@' := by
      show ((o.tag :: o.line) ++ ['\n']).head? ≠ some '@'
      simpa using tag_ne_at o
    have := go_body_marker source midx sign (opLine o ++ ['\n']) (cfg.noEol ++ ['\n']) R t sl hp hq
    simpa [List.dropLast_concat] using this

omit hm in
theorem noBS_ops (ops : List Op) (R : List Line) (hR : ∀ q r, R = q :: r → q.head? ≠ some '\\') :
    ∀ q r, (ops.map opLine).flatMap (fixLines cfg) ++ R = q :: r → q.head? ≠ some '\\' := by
  cases ops with
  | nil => simpa using hR
  | cons o ops =>
    intro q r h
    simp only [List.map_cons, List.flatMap_cons, fixLines] at h
    split at h
    · simp only [List.cons_append, List.nil_append, List.cons.injEq] at h
      rw [← h.1, opLine_head]; exact tag_ne_bs o
    · simp only [List.cons_append, List.cons.injEq] at h
      rw [← h.1]
      show ((o.tag :: o.line) ++ ['\n']).head? ≠ some '\\'
      simpa using tag_ne_bs o

end body

theorem bodyLine_op (rev : Bool) (o : Op) (t : List Char) (sl : Nat) :
    bodyLine (sgn rev) (opLine o) t sl = (t ++ join (dstLines rev [o]), sl + (srcLines rev [o]).length) := by
  cases o <;> cases rev <;>
    simp [bodyLine, opLine, Op.tag, Op.line, sgn, dstLines, srcLines, oldLines, newLines, join]

theorem dst_cons (rev : Bool) (o : Op) (ops : List Op) : dstLines rev (o :: ops) = dstLines rev [o] ++ dstLines rev ops := by
  cases o <;> cases rev <;> simp [dstLines, oldLines, newLines]

theorem src_cons (rev : Bool) (o : Op) (ops : List Op) : srcLines rev (o :: ops) = srcLines rev [o] ++ srcLines rev ops := by
  cases o <;> cases rev <;> simp [srcLines, oldLines, newLines]

/-- the body of one rendered hunk: the lines of the destination side are appended, the source position moves past the
lines of the source side -/
theorem go_body (cfg : Config) (hm : cfg.noEol.head? = some '\\') (source : List Line) (midx : Nat) (rev : Bool) :
    ∀ (ops : List Op) (R : List Line) (t : List Char) (sl : Nat), (∀ q r, R = q :: r → q.head? ≠ some '\\') →
      go source midx (sgn rev) true ((ops.map opLine).flatMap (fixLines cfg) ++ R) t sl =
        go source midx (sgn rev) true R (t ++ join (dstLines rev ops)) (sl + (srcLines rev ops).length) := by
  intro ops
  induction ops with
  | nil => intro R t sl _; simp [dstLines, srcLines, oldLines, newLines, join]
  | cons o ops ih =>
    intro R t sl hR
    have hR' := noBS_ops cfg ops R hR
    simp only [List.map_cons, List.flatMap_cons, List.append_assoc]
    rw [go_opline cfg hm source midx (sgn rev) o _ t sl hR', bodyLine_op, ih R _ _ hR, dst_cons rev o ops, src_cons rev o ops]
    simp [join, List.append_assoc, Nat.add_assoc]

/-! ### a whole rendered script -/

def sideSrc (rev : Bool) (s : Script) : List Line := if rev then newOf s else oldOf s
def sideDst (rev : Bool) (s : Script) : List Line := if rev then oldOf s else newOf s
def selMidx (rev : Bool) : Nat := if rev then 3 else 1

theorem fixLines_header (cfg : Config) (a ca b cb : Nat) : fixLines cfg (hunkHeader a ca b cb) = [hunkHeader a ca b cb] := by
  simp [fixLines, hunkHeader_last]

theorem patchLines_hunk (cfg : Config) (ops : List Op) (r : Script) (a b : Nat) :
    patchLines cfg (hunkLines (.hunk ops :: r) a b) =
      hunkHeader a (oldLines ops).length b (newLines ops).length ::
        ((ops.map opLine).flatMap (fixLines cfg) ++
          patchLines cfg (hunkLines r (a + (oldLines ops).length) (b + (newLines ops).length))) := by
  simp [patchLines, hunkLines, fixLines_header, List.flatMap_cons, List.flatMap_append]

/-- the rendered hunks of a script are empty or begin with a hunk header -/
theorem patchLines_head (cfg : Config) : ∀ (s : Script) (a b : Nat) (q : Line) (r' : List Line),
    patchLines cfg (hunkLines s a b) = q :: r' → q.head? = some '@' := by
  intro s
  induction s with
  | nil => intro a b q r' h; simp [patchLines, hunkLines] at h
  | cons seg r ih =>
    intro a b q r' h
    cases seg with
    | keep ls => exact ih _ _ q r' (by simpa [hunkLines] using h)
    | hunk ops =>
      rw [patchLines_hunk] at h
      simp only [List.cons.injEq] at h
      rw [← h.1]; exact hunkHeader_head _ _ _ _

theorem go_script (cfg : Config) (hm : cfg.noEol.head? = some '\\') (rev : Bool) :
    ∀ (s : Script) (a b : Nat) (pre pend : List Line) (t : List Char) (x : Bool),
      (if rev then b else a) = pre.length + pend.length →
      go (pre ++ pend ++ sideSrc rev s) (selMidx rev) (sgn rev) x (patchLines cfg (hunkLines s a b)) t pre.length =
        .ok (t ++ join pend ++ join (sideDst rev s)) := by
  intro s
  induction s with
  | nil =>
    intro a b pre pend t x _
    have : (pre ++ pend ++ sideSrc rev []).drop pre.length = pend := by
      cases rev <;> simp [sideSrc, oldOf, newOf]
    rw [show patchLines cfg (hunkLines [] a b) = [] from rfl, go.eq_1, this]
    cases rev <;> simp [sideDst, oldOf, newOf, join]
  | cons seg r ih =>
    intro a b pre pend t x hpos
    cases seg with
    | keep ls =>
      have h := ih (a + ls.length) (b + ls.length) pre (pend ++ ls) t x (by cases rev <;> simp at hpos ⊢ <;> omega)
      have e1 : pre ++ pend ++ sideSrc rev (.keep ls :: r) = pre ++ (pend ++ ls) ++ sideSrc rev r := by
        cases rev <;> simp [sideSrc, oldOf, newOf]
      have e2 : sideDst rev (.keep ls :: r) = ls ++ sideDst rev r := by
        cases rev <;> simp [sideDst, oldOf, newOf]
      rw [e1, e2]
      simp only [hunkLines]
      rw [h]
      simp [join, List.append_assoc]
    | hunk ops =>
      rw [patchLines_hunk]
      have hpos' : (if selMidx rev = 1 then a else b) = pre.length + pend.length := by
        cases rev <;> simpa [selMidx] using hpos
      have hsrc : sideSrc rev (.hunk ops :: r) = srcLines rev ops ++ sideSrc rev r := by
        cases rev <;> simp [sideSrc, srcLines, oldOf, newOf]
      have hdst : sideDst rev (.hunk ops :: r) = dstLines rev ops ++ sideDst rev r := by
        cases rev <;> simp [sideDst, dstLines, oldOf, newOf]
      rw [go_header _ _ _ x a _ b _ _ t pre.length (by cases rev <;> simp [selMidx]) (by omega)
        (by rw [hpos']; simp), hpos']
      have hcopy : ((pre ++ pend ++ sideSrc rev (.hunk ops :: r)).drop pre.length).take (pre.length + pend.length - pre.length) = pend := by
        simp [List.append_assoc]
      rw [hcopy]
      have hR : ∀ q r', patchLines cfg (hunkLines r (a + (oldLines ops).length) (b + (newLines ops).length)) = q :: r' →
          q.head? ≠ some '\\' := by
        intro q r' h
        rw [patchLines_head cfg _ _ _ q r' h]; decide
      rw [go_body cfg hm _ _ rev ops _ _ _ hR]
      have h := ih (a + (oldLines ops).length) (b + (newLines ops).length) (pre ++ pend ++ srcLines rev ops) []
        (t ++ join pend ++ join (dstLines rev ops)) true (by cases rev <;> simp [srcLines] at hpos ⊢ <;> omega)
      have e1 : pre ++ pend ++ sideSrc rev (.hunk ops :: r) = pre ++ pend ++ srcLines rev ops ++ [] ++ sideSrc rev r := by
        rw [hsrc]; simp [List.append_assoc]
      have e2 : pre.length + pend.length + (srcLines rev ops).length = (pre ++ pend ++ srcLines rev ops).length := by
        simp [Nat.add_assoc]
      rw [e1, e2, h, hdst]
      simp [join, List.append_assoc]

/-! ### `apply_patch` on lines: file header, then the hunks -/

theorem fixLines_terminated (cfg : Config) (x : List Char) : fixLines cfg (x ++ ['\n']) = [x ++ ['\n']] := by
  unfold fixLines
  rw [if_pos List.getLast?_concat]

theorem hunkLines_nil_sides : ∀ (s : Script) (a b : Nat), hunkLines s a b = [] → oldOf s = newOf s := by
  intro s
  induction s with
  | nil => intros; rfl
  | cons seg r ih =>
    intro a b h
    cases seg with
    | keep ls => simp only [hunkLines] at h; simp [oldOf, newOf, ih _ _ h]
    | hunk ops => simp [hunkLines] at h

theorem isFileHeader_of_at {q : Line} (h : q.head? = some '@') : isFileHeader q = false := by
  cases q with
  | nil => simp at h
  | cons c cs =>
    simp only [List.head?_cons, Option.some.injEq] at h
    subst h
    simp [isFileHeader, stripPrefix]

theorem applyLines_render (cfg : Config) (hm : cfg.noEol.head? = some '\\') (hf : cfg.fwd = (1, '+')) (hr : cfg.rev = (3, '-'))
    (fname : List Char) (s : Script) (rev : Bool) :
    applyLinesWith cfg (sideSrc rev s) (patchLines cfg (unifiedDiff fname s)) rev = .ok (join (sideDst rev s)) := by
  have hms : (if rev then cfg.rev else cfg.fwd) = (selMidx rev, sgn rev) := by
    cases rev <;> simp [hf, hr, selMidx, sgn]
  unfold applyLinesWith
  simp only [hms]
  cases hb : hunkLines s 0 0 with
  | nil =>
    have e := hunkLines_nil_sides s 0 0 hb
    have : patchLines cfg (unifiedDiff fname s) = [] := by simp [unifiedDiff, hb, patchLines]
    rw [this]
    simp only [List.dropWhile_nil, go.eq_1, List.drop_zero, List.nil_append]
    cases rev <;> simp [sideSrc, sideDst, e]
  | cons l ls =>
    have e : patchLines cfg (unifiedDiff fname s) =
        (['-', '-', '-', ' '] ++ fname ++ ['\n']) :: (['+', '+', '+', ' '] ++ fname ++ ['\n']) :: patchLines cfg (hunkLines s 0 0) := by
      simp only [unifiedDiff, hb]
      simp only [patchLines, List.flatMap_cons]
      rw [fixLines_terminated, fixLines_terminated]
      rfl
    have h1 : isFileHeader (['-', '-', '-', ' '] ++ fname ++ ['\n']) = true := by simp [isFileHeader, stripPrefix]
    have h2 : isFileHeader (['+', '+', '+', ' '] ++ fname ++ ['\n']) = true := by simp [isFileHeader, stripPrefix]
    have h3 : (patchLines cfg (hunkLines s 0 0)).dropWhile isFileHeader = patchLines cfg (hunkLines s 0 0) := by
      cases hp : patchLines cfg (hunkLines s 0 0) with
      | nil => rfl
      | cons q r' => simp [isFileHeader_of_at (patchLines_head cfg s 0 0 q r' hp)]
    rw [e]
    simp only [List.dropWhile_cons, h1, h2, if_true, h3]
    have := go_script cfg hm rev s 0 0 [] [] [] false (by cases rev <;> rfl)
    simpa [join] using this

/-! ### `splitlines(True)` and `''.join` -/

/-- a line that ends in its only `'\n'` -/
def Terminated (l : Line) : Prop := ∃ body, l = body ++ ['\n'] ∧ '\n' ∉ body
/-- a non-empty line without `'\n'` (only possible as the last line of a text) -/
def Unterminated (l : Line) : Prop := l ≠ [] ∧ '\n' ∉ l

/-- what `splitlines(True)` returns: every line terminated, except possibly the last -/
def LinesWF : List Line → Prop
  | [] => True
  | [l] => Terminated l ∨ Unterminated l
  | l :: l' :: ls => Terminated l ∧ LinesWF (l' :: ls)

theorem splitLines_terminated (body rest : List Char) (h : '\n' ∉ body) :
    splitLines (body ++ '\n' :: rest) = (body ++ ['\n']) :: splitLines rest := by
  induction body with
  | nil => simp [splitLines]
  | cons c body ih =>
    have hc : c ≠ '\n' := fun e => h (by simp [e])
    have := ih (fun hmem => h (by simp [hmem]))
    simp [splitLines, hc, this]

theorem splitLines_unterminated (l : Line) (h1 : l ≠ []) (h2 : '\n' ∉ l) : splitLines l = [l] := by
  induction l with
  | nil => exact absurd rfl h1
  | cons c cs ih =>
    have hc : c ≠ '\n' := fun e => h2 (by simp [e])
    cases cs with
    | nil => simp [splitLines, hc]
    | cons d ds =>
      have := ih (by simp) (fun hmem => h2 (by simp [hmem]))
      rw [splitLines, if_neg hc, this]

theorem splitLines_join : ∀ (ls : List Line), LinesWF ls → splitLines (join ls) = ls := by
  intro ls
  induction ls with
  | nil => intro _; rfl
  | cons l ls ih =>
    intro h
    cases ls with
    | nil =>
      rcases h with ⟨body, rfl, hb⟩ | ⟨h1, h2⟩
      · have := splitLines_terminated body [] hb
        simpa [join, splitLines] using this
      · simpa [join] using splitLines_unterminated l h1 h2
    | cons l' ls =>
      obtain ⟨⟨body, rfl, hb⟩, hrest⟩ := h
      have := splitLines_terminated body (join (l' :: ls)) hb
      rw [ih hrest] at this
      simpa [join, List.append_assoc] using this

theorem join_splitLines : ∀ (t : List Char), join (splitLines t) = t := by
  intro t
  induction t with
  | nil => rfl
  | cons c cs ih =>
    by_cases hc : c = '\n'
    · simp [splitLines, hc, join] at ih ⊢; exact ih
    · cases h : splitLines cs with
      | nil => rw [h] at ih; simp [join] at ih; simp [splitLines, hc, h, join, ← ih]
      | cons l ls => rw [h] at ih; simp [join] at ih; simp [splitLines, hc, h, join, ih]

theorem linesWF_cons_terminated {l : Line} {ls : List Line} (hl : Terminated l) (h : LinesWF ls) : LinesWF (l :: ls) := by
  cases ls with
  | nil => exact Or.inl hl
  | cons l' ls => exact ⟨hl, h⟩

theorem linesWF_splitLines : ∀ (t : List Char), LinesWF (splitLines t) := by
  intro t
  induction t with
  | nil => trivial
  | cons c cs ih =>
    by_cases hc : c = '\n'
    · simp only [splitLines, hc, if_true]
      exact linesWF_cons_terminated ⟨[], rfl, by simp⟩ ih
    · simp only [splitLines, hc, if_false]
      cases h : splitLines cs with
      | nil => exact Or.inr ⟨by simp, by simpa using fun e => hc e.symm⟩
      | cons l ls =>
        rw [h] at ih
        have lift : Terminated l → Terminated (c :: l) := by
          rintro ⟨body, rfl, hb⟩
          exact ⟨c :: body, rfl, by simpa using ⟨fun e => hc e.symm, hb⟩⟩
        cases ls with
        | nil =>
          rcases ih with ht | ⟨h1, h2⟩
          · exact Or.inl (lift ht)
          · exact Or.inr ⟨by simp, by simpa using ⟨fun e => hc e.symm, h2⟩⟩
        | cons l' ls' => exact ⟨lift ih.1, ih.2⟩

theorem linesWF_of_all_terminated : ∀ (ls : List Line), (∀ l ∈ ls, Terminated l) → LinesWF ls := by
  intro ls
  induction ls with
  | nil => intro _; trivial
  | cons l ls ih =>
    intro h
    exact linesWF_cons_terminated (h l (by simp)) (ih fun l' hl' => h l' (by simp [hl']))

theorem linesWF_mem : ∀ (ls : List Line), LinesWF ls → ∀ l ∈ ls, Terminated l ∨ Unterminated l := by
  intro ls
  induction ls with
  | nil => intro _ l hl; simp at hl
  | cons l0 ls ih =>
    intro h l hl
    cases ls with
    | nil =>
      simp only [List.mem_singleton] at hl
      subst hl; exact h
    | cons l' ls' =>
      simp only [List.mem_cons] at hl
      rcases hl with rfl | hl
      · exact Or.inl h.1
      · exact ih h.2 l (by simpa using hl)

/-! ### the patch text is made of terminated lines, so `splitlines` gives the rendered lines back -/

theorem nl_not_in_digits (n : Nat) : '\n' ∉ digits n := fun h => by
  have := digits_all n '\n' h
  revert this; decide

theorem nl_not_in_fmtRange (a c : Nat) : '\n' ∉ fmtRange a c := by
  unfold fmtRange
  split
  · exact nl_not_in_digits _
  · intro h
    simp only [List.mem_append, List.mem_cons] at h
    rcases h with h | h | h
    · exact nl_not_in_digits _ h
    · revert h; decide
    · exact nl_not_in_digits _ h

theorem terminated_hunkHeader (a ca b cb : Nat) : Terminated (hunkHeader a ca b cb) := by
  refine ⟨['@', '@', ' ', '-'] ++ fmtRange a ca ++ [' ', '+'] ++ fmtRange b cb ++ [' ', '@', '@'], by simp [hunkHeader], ?_⟩
  intro h
  simp only [List.mem_append, List.mem_cons, List.not_mem_nil, or_false] at h
  have h1 := nl_not_in_fmtRange a ca
  have h2 := nl_not_in_fmtRange b cb
  have e1 : '\n' ≠ '@' := by decide
  have e2 : '\n' ≠ ' ' := by decide
  have e3 : '\n' ≠ '-' := by decide
  have e4 : '\n' ≠ '+' := by decide
  simp [h1, h2, e1, e2, e3, e4] at h

/-- every op of every hunk -/
def scriptOps : Script → List Op
  | [] => []
  | .keep _ :: r => scriptOps r
  | .hunk ops :: r => ops ++ scriptOps r

theorem mem_hunkLines : ∀ (s : Script) (a b : Nat) (x : Line), x ∈ hunkLines s a b →
    (∃ a' ca b' cb, x = hunkHeader a' ca b' cb) ∨ (∃ o ∈ scriptOps s, x = opLine o) := by
  intro s
  induction s with
  | nil => intro a b x h; simp [hunkLines] at h
  | cons seg r ih =>
    intro a b x h
    cases seg with
    | keep ls => simpa [scriptOps] using ih _ _ x (by simpa [hunkLines] using h)
    | hunk ops =>
      simp only [hunkLines, List.mem_cons, List.mem_append, List.mem_map] at h
      rcases h with rfl | ⟨o, ho, rfl⟩ | h
      · exact Or.inl ⟨_, _, _, _, rfl⟩
      · exact Or.inr ⟨o, by simp [scriptOps, ho], rfl⟩
      · rcases ih _ _ x h with h | ⟨o, ho, rfl⟩
        · exact Or.inl h
        · exact Or.inr ⟨o, by simp [scriptOps, ho], rfl⟩

theorem op_line_mem_lines (ops : List Op) (o : Op) (h : o ∈ ops) : o.line ∈ oldLines ops ∨ o.line ∈ newLines ops := by
  induction ops with
  | nil => simp at h
  | cons p ops ih =>
    simp only [List.mem_cons] at h
    rcases h with rfl | h
    · cases o <;> simp [oldLines, newLines, Op.line]
    · rcases ih h with h | h
      · left; cases p <;> simp [oldLines, h]
      · right; cases p <;> simp [newLines, h]

theorem scriptOps_mem_sides : ∀ (s : Script) (o : Op), o ∈ scriptOps s → o.line ∈ oldOf s ∨ o.line ∈ newOf s := by
  intro s
  induction s with
  | nil => intro o h; simp [scriptOps] at h
  | cons seg r ih =>
    intro o h
    cases seg with
    | keep ls =>
      rcases ih o (by simpa [scriptOps] using h) with h | h
      · left; simp [oldOf, h]
      · right; simp [newOf, h]
    | hunk ops =>
      simp only [scriptOps, List.mem_append] at h
      rcases h with h | h
      · rcases op_line_mem_lines ops o h with h | h
        · left; simp [oldOf, h]
        · right; simp [newOf, h]
      · rcases ih o h with h | h
        · left; simp [oldOf, h]
        · right; simp [newOf, h]

theorem tag_ne_nl (o : Op) : o.tag ≠ '\n' := by cases o <;> simp [Op.tag]

theorem fixLines_op_terminated (cfg : Config) (hnl : '\n' ∉ cfg.noEol) (o : Op) (ho : Terminated o.line ∨ Unterminated o.line) :
    ∀ l ∈ fixLines cfg (opLine o), Terminated l := by
  rcases ho with ⟨body, hb, hnb⟩ | ⟨_, hno⟩
  · have e : opLine o = (o.tag :: body) ++ ['\n'] := by simp [opLine, hb]
    rw [e, fixLines_terminated]
    intro l hl
    simp only [List.mem_singleton] at hl
    subst hl
    exact ⟨o.tag :: body, rfl, by simpa using ⟨fun h => tag_ne_nl o h.symm, hnb⟩⟩
  · have hlast : (opLine o).getLast? ≠ some '\n' := by
      intro h
      have := List.mem_of_getLast? h
      simp only [opLine, List.mem_cons] at this
      rcases this with h | h
      · exact tag_ne_nl o h.symm
      · exact hno h
    unfold fixLines
    rw [if_neg hlast]
    intro l hl
    simp only [List.mem_cons, List.not_mem_nil, or_false] at hl
    rcases hl with rfl | rfl
    · exact ⟨opLine o, rfl, by simpa [opLine] using ⟨fun h => tag_ne_nl o h.symm, hno⟩⟩
    · exact ⟨cfg.noEol, rfl, hnl⟩

theorem patchLines_terminated (cfg : Config) (hnl : '\n' ∉ cfg.noEol) (fname : List Char) (hfn : '\n' ∉ fname) (s : Script)
    (ho : LinesWF (oldOf s)) (hn : LinesWF (newOf s)) : ∀ l ∈ patchLines cfg (unifiedDiff fname s), Terminated l := by
  intro l hl
  simp only [patchLines, List.mem_flatMap] at hl
  obtain ⟨x, hx, hlx⟩ := hl
  have hbody : ∀ x ∈ hunkLines s 0 0, ∀ l ∈ fixLines cfg x, Terminated l := by
    intro x hx l hlx
    rcases mem_hunkLines s 0 0 x hx with ⟨a', ca, b', cb, rfl⟩ | ⟨o, ho', rfl⟩
    · rw [fixLines_header] at hlx
      simp only [List.mem_singleton] at hlx
      subst hlx; exact terminated_hunkHeader _ _ _ _
    · have : Terminated o.line ∨ Unterminated o.line := by
        rcases scriptOps_mem_sides s o ho' with h | h
        · exact linesWF_mem _ ho _ h
        · exact linesWF_mem _ hn _ h
      exact fixLines_op_terminated cfg hnl o this l hlx
  unfold unifiedDiff at hx
  cases hb : hunkLines s 0 0 with
  | nil => simp [hb] at hx
  | cons y ys =>
    simp only [hb, List.mem_cons] at hx
    rcases hx with rfl | rfl | hx
    · rw [fixLines_terminated] at hlx
      simp only [List.mem_singleton] at hlx
      subst hlx
      exact ⟨['-', '-', '-', ' '] ++ fname, rfl, by simpa using hfn⟩
    · rw [fixLines_terminated] at hlx
      simp only [List.mem_singleton] at hlx
      subst hlx
      exact ⟨['+', '+', '+', ' '] ++ fname, rfl, by simpa using hfn⟩
    · exact hbody x (by rw [hb]; simpa using hx) l hlx

/-- `apply_patch` on the text of the patch rendered from a script, both directions -/
theorem applyPatch_render (cfg : Config) (hm : cfg.noEol.head? = some '\\') (hf : cfg.fwd = (1, '+')) (hr : cfg.rev = (3, '-'))
    (hnl : '\n' ∉ cfg.noEol) (fname : List Char) (hfn : '\n' ∉ fname) (s : Script)
    (ho : LinesWF (oldOf s)) (hn : LinesWF (newOf s)) (rev : Bool) :
    applyPatchWith cfg (join (sideSrc rev s)) (makePatchWith cfg (unifiedDiff fname s)) rev = .ok (join (sideDst rev s)) := by
  unfold applyPatchWith
  rw [makePatchWith_eq, splitLines_join _ (linesWF_of_all_terminated _ (patchLines_terminated cfg hnl fname hfn s ho hn)),
    splitLines_join (sideSrc rev s) (by cases rev <;> simpa [sideSrc])]
  exact applyLines_render cfg hm hf hr fname s rev

/-! ### the configuration of the repaired / pinned `diff.py`, and one file of `Protocol.patch` -/

def cfg0 : Config := ⟨['\\', ' ', 'N', 'o', ' ', 'n', 'e', 'w', 'l', 'i', 'n', 'e', ' ', 'a', 't', ' ', 'e', 'n', 'd', ' ',
    'o', 'f', ' ', 'f', 'i', 'l', 'e'], (1, '+'), (3, '-')⟩

theorem cfg0_nl : '\n' ∉ cfg0.noEol := by decide


theorem patch_one (yours : Files) (name : List Char) (s : Script) (hfn : '\n' ∉ name)
    (hold : oldOf s = splitLines (lookup yours name)) (hn : LinesWF (newOf s)) :
    (if (makePatchWith cfg0 (unifiedDiff name s)).isEmpty then (.ok (name, lookup yours name) : Except Err _)
      else (applyPatchWith cfg0 (lookup yours name) (makePatchWith cfg0 (unifiedDiff name s)) false).map fun t => (name, t))
      = .ok (name, join (newOf s)) := by
  have ho : LinesWF (oldOf s) := hold ▸ linesWF_splitLines _
  have hj : join (oldOf s) = lookup yours name := by rw [hold, join_splitLines]
  cases hb : hunkLines s 0 0 with
  | nil =>
    have : makePatchWith cfg0 (unifiedDiff name s) = [] := by simp [unifiedDiff, hb, makePatchWith]
    rw [this, ← hunkLines_nil_sides s 0 0 hb, hj]
    rfl
  | cons y ys =>
    have hne : (makePatchWith cfg0 (unifiedDiff name s)).isEmpty = false := by
      have e : unifiedDiff name s =
          (['-', '-', '-', ' '] ++ name ++ ['\n']) :: (['+', '+', '+', ' '] ++ name ++ ['\n']) :: (y :: ys) := by
        simp [unifiedDiff, hb]
      rw [e]
      simp only [makePatchWith, List.map_cons, List.flatten_cons]
      rw [fixEol_eq, fixLines_terminated]
      simp
    have := applyPatch_render cfg0 rfl rfl rfl cfg0_nl name hfn s ho hn false
    simp only [sideSrc, sideDst, Bool.false_eq_true, if_false, hj] at this
    rw [hne, this]
    rfl


end Proofs.C30
