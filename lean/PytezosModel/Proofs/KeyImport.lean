import PytezosModel.Proofs.KeyLemmas
/-! Lemmas about `from_encoded_key` / `secret_key` / `public_key_hash` of the mirror (Props/C08). -/
namespace Impl.Key

/-- what a key prefix means in the Tezos prefix registry: (curve, encrypted, secret) -/
def Spec.keyKinds : List (Bytes × (Curve × Bool × Bool)) :=
  [ ([101, 100, 115, 107], (.ed, false, true)),        -- edsk  (seed or 64-byte secret key)
    ([101, 100, 112, 107], (.ed, false, false)),       -- edpk
    ([101, 100, 101, 115, 107], (.ed, true, true)),    -- edesk
    ([115, 112, 115, 107], (.sp, false, true)),        -- spsk
    ([115, 112, 112, 107], (.sp, false, false)),       -- sppk
    ([115, 112, 101, 115, 107], (.sp, true, true)),    -- spesk
    ([112, 50, 115, 107], (.p2, false, true)),         -- p2sk
    ([112, 50, 112, 107], (.p2, false, false)),        -- p2pk
    ([112, 50, 101, 115, 107], (.p2, true, true)),     -- p2esk
    ([66, 76, 115, 107], (.bl, false, true)),          -- BLsk
    ([66, 76, 112, 107], (.bl, false, false)),         -- BLpk
    ([66, 76, 101, 115, 107], (.bl, true, true)) ]     -- BLesk

def Spec.keyKind (human : Bytes) : Option (Curve × Bool × Bool) :=
  (Spec.keyKinds.find? fun p => p.1 == human).map (·.2)

end Impl.Key
