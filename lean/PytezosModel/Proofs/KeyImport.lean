import PytezosModel.Proofs.KeyLemmas
/-! Lemmas about `from_encoded_key` / `secret_key` / `public_key_hash` of the mirror (Props/C08). -/
namespace Impl.Key

/-- what a key prefix means in the Tezos prefix registry: (curve, encrypted, secret) -/
def Spec.keyKinds : List (Bytes × (Curve × Bool × Bool)) :=
  [ ([101, 100, 115, 107], (.ed, false, true)),        -- edsk  (seed or 64-byte secret key)
    ([101, 100, 112, 107], (.ed, false, false)),       -- edpk
    ([101, 100, 101, 115, 107], (.ed, true, true)),    -- edesk
    ([115, 112, 115, 107], (.sp, false, true)),        -- spsk
    ([115, 112, 112, 107], (.sp, false, false)),       -- sppk
    ([115, 112, 101, 115, 107], (.sp, true, true)),    -- spesk
    ([112, 50, 115, 107], (.p2, false, true)),         -- p2sk
    ([112, 50, 112, 107], (.p2, false, false)),        -- p2pk
    ([112, 50, 101, 115, 107], (.p2, true, true)),     -- p2esk
    ([66, 76, 115, 107], (.bl, false, true)),          -- BLsk
    ([66, 76, 112, 107], (.bl, false, false)),         -- BLpk
    ([66, 76, 101, 115, 107], (.bl, true, true)) ]     -- BLesk

def Spec.keyKind (human : Bytes) : Option (Curve × Bool × Bool) :=
  (Spec.keyKinds.find? fun p => p.1 == human).map (·.2)


theorem classify_row (r : Row) (hr : r ∈ keyRows) (s : Str) (hp : r.human <+: s) (hl : s.length = r.encLen) :
    ∃ spec, Spec.keyKind r.human = some spec ∧ classify s = .ok spec := by
  obtain ⟨t, rfl⟩ := hp
  simp only [keyRows, Generated.C08.keyRows, List.map, Row.ofTuple, List.mem_cons, List.not_mem_nil, or_false] at hr
  rcases hr with rfl | rfl | rfl | rfl | rfl | rfl | rfl | rfl | rfl | rfl | rfl | rfl | rfl
  all_goals
    refine ⟨_, rfl, ?_⟩
    simp only [classify, Generated.C08.importCurves, Generated.C08.importLengths, hl]
    simp [Curve.ofTag, Curve.all, Curve.tag, tagPk, tagSk]

/-- first key row with a given human prefix and payload length (what `base58_encode` selects) -/
def keyRowOf (pfx : Bytes) (n : Nat) : Option Row := keyRows.find? fun r => r.human == pfx && r.dataLen == n

theorem keyRowOf_mem (pfx : Bytes) (n : Nat) (r : Row) (h : keyRowOf pfx n = some r) :
    r ∈ keyRows ∧ r.human = pfx ∧ r.dataLen = n := by
  unfold keyRowOf at h
  refine ⟨List.mem_of_find?_eq_some h, ?_⟩
  have := List.find?_some h
  simpa using this

theorem skRow (c : Curve) : ∃ r, keyRowOf (c.tag ++ tagSk) 32 = some r ∧ Spec.keyKind r.human = some (c, false, true) := by
  cases c <;> exact ⟨_, rfl, rfl⟩

theorem eskRow (c : Curve) : ∃ r, keyRowOf (c.tag ++ tagEsk) 56 = some r ∧ Spec.keyKind r.human = some (c, true, true) := by
  cases c <;> exact ⟨_, rfl, rfl⟩

theorem pkRow (c : Curve) : ∃ r, keyRowOf (c.tag ++ tagPk) (pkLen c) = some r ∧ Spec.keyKind r.human = some (c, false, false) := by
  cases c <;> exact ⟨_, rfl, rfl⟩

theorem edsk64Row : ∃ r, keyRowOf (Curve.ed.tag ++ tagSk) 64 = some r ∧ Spec.keyKind r.human = some (.ed, false, true) :=
  ⟨_, rfl, rfl⟩

/-- key texts start with characters `bytes.fromhex` rejects -/
theorem key_prefix_nonhex (c : Curve) (sfx : Bytes) (h : sfx = tagSk ∨ sfx = tagEsk ∨ sfx = tagPk) :
    ∃ p ∈ nonHexStarts, p <+: (c.tag ++ sfx) := by
  rcases h with h | h | h <;> subst h <;> cases c <;>
    first
    | exact ⟨[101, 100, 115], by decide, ⟨_, rfl⟩⟩
    | exact ⟨[101, 100, 112], by decide, ⟨_, rfl⟩⟩
    | exact ⟨[101, 100, 101, 115], by decide, ⟨_, rfl⟩⟩
    | exact ⟨[115], by decide, ⟨_, rfl⟩⟩
    | exact ⟨[112], by decide, ⟨_, rfl⟩⟩
    | exact ⟨[66, 76], by decide, ⟨_, rfl⟩⟩

/-- a key object whose secret has the curve's length -/
def WFKey (P : Prims) (k : Key) : Prop :=
  ∃ sk, k.sec = some sk ∧ KeyPair P k.curve k.pub sk ∧ (k.curve ≠ .ed → sk.length = 32 ∧ IsBytes sk)

theorem fse_rec : Generated.C08.fromSecretExponentRecognised = true := by decide

/-- importing the exportable secret material gives the key back -/
theorem fromSecretExponent_material (P : Prims) (L : Laws P) (k : Key) (sk : Bytes) (hsec : k.sec = some sk)
    (hkp : KeyPair P k.curve k.pub sk) :
    ∃ mat, (if k.curve = .ed then P.edSkToSeed sk else some sk) = some mat ∧
      fromSecretExponent P k.curve mat = .ok k ∧ (k.curve = .ed → mat.length = 32 ∧ IsBytes mat) := by
  obtain ⟨pub, sec, c⟩ := k
  simp only at hsec hkp ⊢
  subst hsec
  cases c
  · obtain ⟨seed, hseed⟩ := hkp
    obtain ⟨h32, hb, _, _, _, hts⟩ := L.ed_keypair seed pub sk hseed
    refine ⟨seed, by simp [hts], ?_, fun _ => ⟨h32, hb⟩⟩
    have : ¬ seed.length = 64 := by omega
    simp [fromSecretExponent, fse_rec, this, hseed]
  all_goals
    refine ⟨sk, by simp, ?_, fun h => by cases h⟩
    simp only [KeyPair] at hkp
    simp [fromSecretExponent, fse_rec, hkp]


theorem kdf_eq : exportKdf = some ⟨32768, 32, 24, 8⟩ ∧ importKdf = some ⟨32768, 32, 24, 8⟩ := ⟨rfl, rfl⟩

/-- importing a key text: what `from_encoded_key` does once the text is known to be the encoding of a payload
for a key row -/
theorem import_of_encoded (P : Prims) (C : Codec) (r : Row) (hr : r ∈ keyRows) (s : Str) (payload : Bytes)
    (spec : Curve × Bool × Bool) (hspec : Spec.keyKind r.human = some spec)
    (hpre : r.human <+: s) (hlen : s.length = r.encLen) (hscrub : scrub (.str s) = .ok s)
    (hdec : C.decode s = some payload) (pass : Option Bytes) :
    fromEncodedKey P C (.str s) pass =
      if !spec.2.2 then .ok ⟨payload, none, spec.1⟩
      else if spec.2.1 then (decryptSecret P ⟨32768, 32, 24, 8⟩ pass payload).bind (fromSecretExponent P spec.1)
      else fromSecretExponent P spec.1 payload := by
  obtain ⟨spec', hs', hcl⟩ := classify_row r hr s hpre hlen
  rw [hspec] at hs'; cases hs'
  obtain ⟨c, enc, sec⟩ := spec
  cases sec <;> cases enc <;> simp [fromEncodedKey, hscrub, hcl, hdec, kdf_eq.2]

theorem export_import_plain (P : Prims) (C : Codec) (L : Laws P) (CL : CodecLaws C keyRows)
    (k : Key) (hk : WFKey P k) (pass : Option Bytes) (hp : pass.getD [] = []) (salt : Bytes) :
    ∃ s, secretKey P C k pass true salt = .ok s ∧ ∀ pass', fromEncodedKey P C (.str s) pass' = .ok k := by
  obtain ⟨sk, hsec, hkp, hwf⟩ := hk
  obtain ⟨mat, hmat, himp, hml⟩ := fromSecretExponent_material P L k sk hsec hkp
  obtain ⟨r, hrow, hspec⟩ := skRow k.curve
  obtain ⟨hr, hhuman, hdl⟩ := keyRowOf_mem _ _ r hrow
  have hmatlen : mat.length = 32 ∧ IsBytes mat := by
    by_cases hc : k.curve = .ed
    · exact hml hc
    · simp only [hc, if_false, Option.some.injEq] at hmat; subst hmat; exact hwf hc
  obtain ⟨s, henc, hdec, hlen, hpre, hascii⟩ := CL.enc_dec r hr mat (by rw [hmatlen.1, hdl]) hmatlen.2
  have hskne : sk.isEmpty = false := by
    cases sk with
    | nil =>
      exfalso
      by_cases hc : k.curve = .ed
      · rw [hc] at hkp; obtain ⟨seed, hs⟩ := hkp
        have := (L.ed_keypair seed _ _ hs).2.2.1; simp at this
      · have := (hwf hc).1; simp at this
    | cons _ _ => rfl
  have hmat' : (if (k.curve = .ed && true) = true then P.edSkToSeed sk else some sk) = some mat := by
    by_cases hc : k.curve = .ed <;> simp [hc] at hmat ⊢ <;> exact hmat
  refine ⟨s, ?_, ?_⟩
  · rw [hhuman] at henc
    have hpe : (pass.getD []).isEmpty = true := by rw [hp]; rfl
    simp [secretKey, kdf_eq.1, hsec, hskne, hmat, hpe, henc]
  · intro pass'
    obtain ⟨p, hp1, hp2⟩ := key_prefix_nonhex k.curve tagSk (Or.inl rfl)
    rw [hhuman] at hpre
    have hs : scrub (.str s) = .ok s := scrub_str_nonhex s p hp1 (hp2.trans hpre) hascii
    rw [← hhuman] at hpre
    rw [import_of_encoded P C r hr s mat _ hspec hpre hlen hs hdec pass']
    simpa using himp

theorem export_import_encrypted (P : Prims) (C : Codec) (L : Laws P) (CL : CodecLaws C keyRows)
    (k : Key) (hk : WFKey P k) (pw : Bytes) (hpw : pw ≠ []) (salt : Bytes) (hsl : salt.length = 8)
    (hsb : IsBytes salt) :
    ∃ s, secretKey P C k (some pw) true salt = .ok s ∧ fromEncodedKey P C (.str s) (some pw) = .ok k := by
  obtain ⟨sk, hsec, hkp, hwf⟩ := hk
  obtain ⟨mat, hmat, himp, hml⟩ := fromSecretExponent_material P L k sk hsec hkp
  obtain ⟨r, hrow, hspec⟩ := eskRow k.curve
  obtain ⟨hr, hhuman, hdl⟩ := keyRowOf_mem _ _ r hrow
  have hmatlen : mat.length = 32 ∧ IsBytes mat := by
    by_cases hc : k.curve = .ed
    · exact hml hc
    · simp only [hc, if_false, Option.some.injEq] at hmat; subst hmat; exact hwf hc
  let ek := P.pbkdf2 32768 32 pw salt
  let box := P.boxSeal ek (List.replicate 24 0) mat
  obtain ⟨hbl, hbb⟩ := L.seal_len ek (List.replicate 24 0) mat hmatlen.2
  have hpl : (salt ++ box).length = r.dataLen := by
    rw [hdl, List.length_append, hsl]; show 8 + (P.boxSeal ek _ mat).length = 56; rw [hbl, hmatlen.1]
  have hpb : IsBytes (salt ++ box) := by
    intro x hx; rcases List.mem_append.mp hx with h | h
    · exact hsb x h
    · exact hbb x h
  obtain ⟨s, henc, hdec, hlen, hpre, hascii⟩ := CL.enc_dec r hr (salt ++ box) hpl hpb
  have hskne : sk.isEmpty = false := by
    cases sk with
    | nil =>
      exfalso
      by_cases hc : k.curve = .ed
      · rw [hc] at hkp; obtain ⟨seed, hs⟩ := hkp
        have := (L.ed_keypair seed _ _ hs).2.2.1; simp at this
      · have := (hwf hc).1; simp at this
    | cons _ _ => rfl
  have hmat' : (if (k.curve = .ed && true) = true then P.edSkToSeed sk else some sk) = some mat := by
    by_cases hc : k.curve = .ed <;> simp [hc] at hmat ⊢ <;> exact hmat
  have hpe : (pw.isEmpty) = false := by cases pw with | nil => exact absurd rfl hpw | cons _ _ => rfl
  refine ⟨s, ?_, ?_⟩
  · rw [hhuman] at henc
    simp [secretKey, kdf_eq.1, hsec, hskne, hmat, hpe]
    exact (by simpa [ek, box] using congrArg (fun o => orErr o (Err.valueError Site.codec)) henc)
  · obtain ⟨p, hp1, hp2⟩ := key_prefix_nonhex k.curve tagEsk (Or.inr (Or.inl rfl))
    rw [hhuman] at hpre
    have hs : scrub (.str s) = .ok s := scrub_str_nonhex s p hp1 (hp2.trans hpre) hascii
    rw [← hhuman] at hpre
    rw [import_of_encoded P C r hr s (salt ++ box) _ hspec hpre hlen hs hdec (some pw)]
    have ht : (salt ++ box).take 8 = salt := by rw [← hsl, List.take_left]
    have hd : (salt ++ box).drop 8 = box := by rw [← hsl, List.drop_left]
    simp only [Bool.not_true, Bool.false_eq_true, if_false, if_true, decryptSecret, ht, hd]
    show (orErr (P.boxOpen ek (List.replicate 24 0) (P.boxSeal ek (List.replicate 24 0) mat)) _).bind _ = _
    rw [L.seal_open]
    exact himp


/-- exporting with `ed25519_seed=False` (the 64-byte ed25519 secret key, `edsk` of 98 characters; the plain
exponent for the other curves) and importing again -/
theorem export_import_raw (P : Prims) (C : Codec) (L : Laws P) (CL : CodecLaws C keyRows)
    (k : Key) (hk : WFKey P k) (salt : Bytes) :
    ∃ s, secretKey P C k none false salt = .ok s ∧ ∀ pass', fromEncodedKey P C (.str s) pass' = .ok k := by
  by_cases hc : k.curve = .ed
  · obtain ⟨sk, hsec, hkp, _⟩ := hk
    obtain ⟨pub, sec, c⟩ := k
    simp only at hc hsec hkp
    subst hc hsec
    obtain ⟨seed, hseed⟩ := hkp
    obtain ⟨_, _, h64, hb, hpk, _⟩ := L.ed_keypair seed pub sk hseed
    obtain ⟨r, hrow, hspec⟩ := edsk64Row
    obtain ⟨hr, hhuman, hdl⟩ := keyRowOf_mem _ _ r hrow
    obtain ⟨s, henc, hdec, hlen, hpre, hascii⟩ := CL.enc_dec r hr sk (by rw [h64, hdl]) hb
    have hskne : sk.isEmpty = false := by cases sk with | nil => simp at h64 | cons _ _ => rfl
    refine ⟨s, ?_, ?_⟩
    · rw [hhuman] at henc
      simp [secretKey, kdf_eq.1, hskne, henc]
    · intro pass'
      obtain ⟨p, hp1, hp2⟩ := key_prefix_nonhex .ed tagSk (Or.inl rfl)
      rw [hhuman] at hpre
      have hs : scrub (.str s) = .ok s := scrub_str_nonhex s p hp1 (hp2.trans hpre) hascii
      rw [← hhuman] at hpre
      rw [import_of_encoded P C r hr s sk _ hspec hpre hlen hs hdec pass']
      simp [fromSecretExponent, fse_rec, h64, hpk]
  · -- other curves: `ed25519_seed` is irrelevant, same as the plain export
    obtain ⟨s, h1, h2⟩ := export_import_plain P C L CL k hk none rfl salt
    refine ⟨s, ?_, h2⟩
    obtain ⟨sk, hsec, _, _⟩ := hk
    simp only [secretKey, kdf_eq.1, hsec, hc] at h1 ⊢
    simpa using h1

theorem pkh_rec : Generated.C08.pkhDigestSize = some 20 ∧ Generated.C08.hashKeyRecognised = true ∧
    Generated.C08.publicKeyRecognised = true := by decide

/-- the `tzN` prefix of a curve in the Tezos prefix registry -/
def Spec.tz : Curve → Bytes
  | .ed => [116, 122, 49]
  | .sp => [116, 122, 50]
  | .p2 => [116, 122, 51]
  | .bl => [116, 122, 52]

theorem pkhPrefix_eq (c : Curve) : pkhPrefix c = some (Spec.tz c) := by cases c <;> rfl

theorem pkhRow (c : Curve) : ∃ r ∈ pkhRows, r.human = Spec.tz c ∧ r.dataLen = 20 ∧ r.encLen = 36 := by
  cases c
  · exact ⟨⟨[116, 122, 49], 36, [6, 161, 159], 20⟩, by decide, rfl, rfl, rfl⟩
  · exact ⟨⟨[116, 122, 50], 36, [6, 161, 161], 20⟩, by decide, rfl, rfl, rfl⟩
  · exact ⟨⟨[116, 122, 51], 36, [6, 161, 164], 20⟩, by decide, rfl, rfl, rfl⟩
  · exact ⟨⟨[116, 122, 52], 36, [6, 161, 166], 20⟩, by decide, rfl, rfl, rfl⟩

theorem publicKeyHash_eq (P : Prims) (C : Codec) (k : Key) :
    publicKeyHash P C k = orErr (C.encode (P.blake2b 20 k.pub) (Spec.tz k.curve)) (.valueError .codec) := by
  have h2 : ∃ t, Generated.C08.pkhPrefix = some t := ⟨_, rfl⟩
  obtain ⟨t, ht⟩ := h2
  simp [publicKeyHash, pkh_rec.1, ht, pkhPrefix_eq]

/-- a public key text imports to the public point it encodes, with the curve of its prefix -/
theorem public_key_roundtrip (P : Prims) (C : Codec) (L : Laws P) (CL : CodecLaws C keyRows)
    (k : Key) (sk : Bytes) (hkp : KeyPair P k.curve k.pub sk) :
    ∃ s, publicKey C k = .ok s ∧ ∀ pass, fromEncodedKey P C (.str s) pass = .ok ⟨k.pub, none, k.curve⟩ := by
  obtain ⟨hl, hb⟩ := L.pk_len k.curve k.pub sk hkp
  obtain ⟨r, hrow, hspec⟩ := pkRow k.curve
  obtain ⟨hr, hhuman, hdl⟩ := keyRowOf_mem _ _ r hrow
  obtain ⟨s, henc, hdec, hlen, hpre, hascii⟩ := CL.enc_dec r hr k.pub (by rw [hl, hdl]) hb
  refine ⟨s, ?_, ?_⟩
  · rw [hhuman] at henc
    simp [publicKey, pkh_rec.2.2, henc]
  · intro pass
    obtain ⟨p, hp1, hp2⟩ := key_prefix_nonhex k.curve tagPk (Or.inr (Or.inr rfl))
    rw [hhuman] at hpre
    have hs : scrub (.str s) = .ok s := scrub_str_nonhex s p hp1 (hp2.trans hpre) hascii
    rw [← hhuman] at hpre
    rw [import_of_encoded P C r hr s k.pub _ hspec hpre hlen hs hdec pass]
    simp

/-- keys made by `from_secret_exponent` from a 32-byte secret / seed are well-formed -/
theorem fromSecretExponent_wf (P : Prims) (c : Curve) (se : Bytes) (h32 : se.length = 32)
    (hb : IsBytes se) (k : Key) (h : fromSecretExponent P c se = .ok k) : WFKey P k ∧ k.curve = c := by
  cases c
  · have hn : ¬ se.length = 64 := by omega
    simp only [fromSecretExponent, fse_rec, Bool.not_true, Bool.false_eq_true, if_false, hn] at h
    split at h
    · rename_i pk sk hkp
      cases h
      exact ⟨⟨sk, rfl, ⟨se, hkp⟩, fun hc => absurd rfl hc⟩, rfl⟩
    · cases h
  all_goals
    simp only [fromSecretExponent, fse_rec, Bool.not_true, Bool.false_eq_true, if_false] at h
    split at h
    · rename_i pk hpk
      cases h
      exact ⟨⟨se, rfl, hpk, fun _ => ⟨h32, hb⟩⟩, rfl⟩
    · cases h

end Impl.Key
