import PytezosModel.Proofs.Encoding
import PytezosModel.Michelson.AddressForge
/-! Lemmas for C10: how the mirror of `forge_address` & co. behaves on canonical Base58Check strings. -/
namespace Impl.AddrForge
open Base58 Impl.Encoding

/-- closed facts about the C09 tables that C10 relies on, independent of which validations
`base58_decode` performs -/
theorem enc_recognised : (Generated.C09.tableRecognised && Generated.C09.encodeRecognised) = true := by decide
theorem dec_recognised : (Generated.C09.tableRecognised && Generated.C09.decodeRecognised) = true := by decide
theorem table_disjoint : ∀ a ∈ table, ∀ b ∈ table, rowsDisjoint a b = true := by decide +kernel

section
variable (cks : List Nat → List Nat) (hck : CksOk cks)

/-- `base58_encode(v, p)` when the row search finds `r` -/
theorem base58Encode_of_find (v p : List Nat) (r : Row) (h : findEncodeRow table v.length p = some r) :
    base58Encode cks v p = .ok (encOf cks r v) := by
  unfold base58Encode
  rw [enc_recognised]
  simp only [if_true, encodeWith, h]
  rfl

theorem base58Encode_ok (v p s : List Nat) (h : base58Encode cks v p = .ok s) :
    ∃ r, findEncodeRow table v.length p = some r ∧ s = encOf cks r v := by
  unfold base58Encode at h
  rw [enc_recognised] at h
  simp only [if_true, encodeWith] at h
  split at h
  · simp at h
  next r hr => exact ⟨r, hr, by injection h with h; exact h.symm⟩

theorem findEncodeRow_some (n : Nat) (p : List Nat) (r : Row) (h : findEncodeRow table n p = some r) :
    r ∈ table ∧ n = r.dataLen ∧ p = r.human := by
  unfold findEncodeRow at h
  have h1 := List.mem_of_find?_eq_some h
  have h2 := List.find?_some h
  simp only [Bool.and_eq_true, beq_iff_eq] at h2
  exact ⟨h1, h2.1, h2.2⟩

include hck in
/-- shape of a canonical string: human prefix, then the rest; `b58decode_check` returns `bin ++ v` -/
theorem encOf_facts (r : Row) (hrow : rowOk r = true) (v : List Nat) (hl : v.length = r.dataLen)
    (hv : IsBytes v) :
    (∃ tl, encOf cks r v = r.human ++ tl) ∧ decodeCheck cks (encOf cks r v) = .ok (r.bin ++ v) := by
  obtain ⟨_, h2, h3⟩ := encOf_shape cks hck r hrow v hl hv
  obtain ⟨tl, htl⟩ := h2
  refine ⟨⟨tl, htl.symm⟩, ?_⟩
  have hbin := rowOk_bin_bytes r hrow
  unfold decodeCheck
  have : b58decCheck cks (encOf cks r v) = .ok (r.bin ++ v) := by
    unfold encOf at h3 ⊢
    exact b58decCheck_enc cks hck (r.bin ++ v) (hbin.append hv) h3
  rw [this]

include hck in
/-- `base58_decode` of a canonical string (whatever validations the source performs) -/
theorem base58Decode_enc (r : Row) (hr : r ∈ table) (hrow : rowOk r = true) (v : List Nat)
    (hl : v.length = r.dataLen) (hv : IsBytes v) : base58Decode cks (encOf cks r v) = .ok v := by
  unfold base58Decode
  rw [dec_recognised]
  simp only [if_true]
  exact decodeWith_enc table cks hck table_disjoint _ _ r hr hrow v hl hv

end

theorem getLast?_cons_snoc (a z : Nat) (h : List Nat) : (a :: (h ++ [z])).getLast? = some z := by
  have : a :: (h ++ [z]) = (a :: h) ++ [z] := rfl
  rw [this, List.getLast?_append]; simp

theorem drop_one_dropLast (a z : Nat) (h : List Nat) : (List.drop 1 (a :: (h ++ [z]))).dropLast = h := by
  simp

/-! ### `split('%')` -/

theorem splitPercent_ne_nil (s : List Nat) : splitPercent s ≠ [] := by
  induction s with
  | nil => simp [splitPercent]
  | cons c cs ih =>
    simp only [splitPercent]
    split
    · simp
    · split <;> simp

theorem splitPercentOnce_no (s : List Nat) (h : 37 ∉ s) : splitPercentOnce s = [s] := by
  induction s with
  | nil => rfl
  | cons c cs ih =>
    have hc : c ≠ 37 := fun e => h (by simp [e])
    have hcs : 37 ∉ cs := fun e => h (by simp [e])
    simp [splitPercentOnce, hc, ih hcs]

theorem splitPercentOnce_append (a ep : List Nat) (h : 37 ∉ a) :
    splitPercentOnce (a ++ 37 :: ep) = [a, ep] := by
  induction a with
  | nil => simp [splitPercentOnce]
  | cons c cs ih =>
    have hc : c ≠ 37 := fun e => h (by simp [e])
    have hcs : 37 ∉ cs := fun e => h (by simp [e])
    simp [splitPercentOnce, hc, ih hcs]

/-- Base58 strings contain no `%` -/
theorem percent_not_digitChar : ∀ d, d < 58 → digitChar d ≠ 37 := by decide

theorem percent_not_in_b58enc (bs : List Nat) : 37 ∉ b58enc bs := by
  unfold b58enc
  intro h
  rcases List.mem_append.mp h with h | h
  · have := List.eq_of_mem_replicate h; omega
  · obtain ⟨d, hd, he⟩ := List.mem_map.mp h
    exact percent_not_digitChar d (toDigits_lt 58 _ (by omega) d hd) he

/-! ### list search helpers -/

theorem dropLast_snoc_of_getLast? : ∀ (l : List Nat) (z : Nat), l.getLast? = some z → l.dropLast ++ [z] = l
  | [], z, h => by simp at h
  | [a], z, h => by simp at h; simp [h]
  | a :: b :: l, z, h => by
    have : (b :: l).getLast? = some z := by simpa [List.getLast?_cons_cons] using h
    simp [List.dropLast, dropLast_snoc_of_getLast? (b :: l) z this]

theorem getLast?_cons_of_ne_nil (a : Nat) : ∀ (l : List Nat), l ≠ [] → (a :: l).getLast? = l.getLast?
  | [], h => absurd rfl h
  | b :: l, _ => by simp [List.getLast?_cons_cons]

theorem find?_congr' {α} (l : List α) (p q : α → Bool) (h : ∀ x ∈ l, p x = q x) : l.find? p = l.find? q := by
  induction l with
  | nil => rfl
  | cons a as ih =>
    simp only [List.find?_cons, h a (by simp)]
    rw [ih (fun x hx => h x (by simp [hx]))]

/-- a key of length 2 is a prefix of `data` iff it is `data.take 2` -/
theorem isPrefixOf_len2 (k data : List Nat) (hk : k.length = 2) :
    k.isPrefixOf data = (k == data.take 2) := by
  rw [Bool.eq_iff_iff, List.isPrefixOf_iff_prefix, beq_iff_eq, List.prefix_iff_eq_take, hk]

/-- two strings that differ inside their common length cannot both be prefixes of one string -/
theorem not_prefix_of_incomparable (a b tl : List Nat) (h : (a.isPrefixOf b || b.isPrefixOf a) = false) :
    b.isPrefixOf (a ++ tl) = false := by
  rw [Bool.eq_false_iff]
  intro hb
  rw [List.isPrefixOf_iff_prefix] at hb
  rcases prefix_comparable (List.prefix_append a tl) hb with h1 | h1
  · have := List.isPrefixOf_iff_prefix.mpr h1; simp [this] at h
  · have := List.isPrefixOf_iff_prefix.mpr h1; simp [this] at h

/-! ### the address kinds -/

abbrev Entry := List Nat × List Nat × List Nat

/-- closed facts about one entry `(textual prefix, bytes in front, bytes behind)` of the `forge_address`
chain, evaluated for every entry of the regenerated chain:
a 20-byte row of the base58 table carries this human prefix, is `rowOk`, and its binary prefix is as long as
the textual prefix; the textual-prefix rule selects this length; the chain finds the entry; and the tables of
`unforge_address` map the entry's bytes back to the same human prefix (the prefix ↔ tag maps are inverse) -/
def entryOk (e : Entry) : Bool :=
  (match findEncodeRow table 20 e.1 with
   | some r => rowOk r && r.bin.length == e.1.length
   | none => false) &&
  (e.1.length == (if e.1 == Generated.C10.longTextPrefix then 4 else 3)) &&
  (e.1 == Generated.C10.longTextPrefix ||
    !(e.1.isPrefixOf Generated.C10.longTextPrefix || Generated.C10.longTextPrefix.isPrefixOf e.1)) &&
  (Generated.C10.forgeAddressChain.find? (fun x => x.1 == e.1) == some e) &&
  (match e.2.1, e.2.2 with
   | [a, t], [] =>
     a == 0 && Generated.C10.tzPrefixes.find? (fun x => x.1 == [a, t]) == some ([a, t], e.1)
   | [a], [z] =>
     Generated.C10.tzPrefixes.all (fun x => x.1.head? != some a) &&
     Generated.C10.originatedChain.find? (fun x => x.1 == a && x.2.1 == z) == some (a, z, e.1)
   | _, _ => false) &&
  Generated.C10.tzPrefixes.all (fun x => x.1.length == 2)

theorem forge_recognised : (Generated.C10.forgeAddressRecognised && Generated.C10.unforgeAddressRecognised
    && Generated.C10.forgeContractRecognised && Generated.C10.unforgeContractRecognised
    && Generated.C10.publicKeyRecognised && Generated.C10.chainIdRecognised
    && Generated.C10.signatureRecognised && Generated.C10.forgeBase58Recognised) = true := by decide

section
variable (cks : List Nat → List Nat) (hck : CksOk cks)

/-- the row behind an entry -/
theorem entryOk_row (e : Entry) (he : entryOk e = true) :
    ∃ r, findEncodeRow table 20 e.1 = some r ∧ r ∈ table ∧ rowOk r = true ∧ r.bin.length = e.1.length ∧
      r.dataLen = 20 ∧ r.human = e.1 := by
  unfold entryOk at he
  simp only [Bool.and_eq_true] at he
  obtain ⟨⟨⟨⟨⟨h1, _⟩, _⟩, _⟩, _⟩, _⟩ := he
  split at h1
  next r hr =>
    simp only [Bool.and_eq_true, beq_iff_eq] at h1
    obtain ⟨hm, hd, hh⟩ := findEncodeRow_some 20 e.1 r hr
    exact ⟨r, hr, hm, h1.1, h1.2, hd.symm, hh.symm⟩
  · simp at h1

include hck in
/-- `forge_address` on the canonical string of entry `e` and hash `h` -/
theorem forgeAddress_entry (e : Entry) (he : entryOk e = true) (h : List Nat) (hl : h.length = 20)
    (hb : IsBytes h) (tzOnly : Bool) :
    ∃ s, base58Encode cks h e.1 = .ok s ∧
      forgeAddress cks s tzOnly = .ok (if tzOnly then (e.2.1 ++ h ++ e.2.2).drop 1 else e.2.1 ++ h ++ e.2.2) := by
  obtain ⟨r, hfind, hrm, hrow, hbl, hdl, hhum⟩ := entryOk_row e he
  refine ⟨encOf cks r h, base58Encode_of_find cks h e.1 r (by rw [hl]; exact hfind), ?_⟩
  obtain ⟨⟨tl, hs⟩, hdec⟩ := encOf_facts cks hck r hrow h (by rw [hl, hdl]) hb
  unfold entryOk at he
  simp only [Bool.and_eq_true, beq_iff_eq, Bool.or_eq_true, Bool.not_eq_true'] at he
  obtain ⟨⟨⟨⟨⟨_, hlen⟩, hcmp⟩, hchain⟩, _⟩, _⟩ := he
  have hrec : Generated.C10.forgeAddressRecognised = true := by decide
  unfold forgeAddress
  rw [hrec, hdec]
  simp only [Bool.not_true, Bool.false_eq_true, if_false]
  rw [hs, hhum]
  -- the textual prefix length
  have hplen : (if Generated.C10.longTextPrefix.isPrefixOf (e.1 ++ tl) = true then 4 else 3) = e.1.length := by
    rcases hcmp with heq | hne
    · rw [heq] at hlen ⊢
      have : Generated.C10.longTextPrefix.isPrefixOf (Generated.C10.longTextPrefix ++ tl) = true :=
        List.isPrefixOf_iff_prefix.mpr (List.prefix_append _ _)
      rw [this]; simp at hlen ⊢; omega
    · have hn : ¬ e.1 = Generated.C10.longTextPrefix := by
        intro heq; rw [heq] at hne
        have : Generated.C10.longTextPrefix.isPrefixOf Generated.C10.longTextPrefix = true :=
          List.isPrefixOf_iff_prefix.mpr (List.prefix_refl _)
        simp [this] at hne
      rw [not_prefix_of_incomparable e.1 _ tl hne]
      simp only [hn, if_false] at hlen
      simp; omega
  rw [hplen, List.take_left' rfl, hchain, List.drop_left' hbl]

/-- rewriting the `startswith` loop over `tz_prefixes` as a lookup of the first two bytes -/
theorem tz_find_take2 (hall : Generated.C10.tzPrefixes.all (fun x => x.1.length == 2) = true) (data : List Nat) :
    Generated.C10.tzPrefixes.find? (fun x => x.1.isPrefixOf data) =
      Generated.C10.tzPrefixes.find? (fun x => x.1 == data.take 2) := by
  apply find?_congr'
  intro x hx
  have := List.all_eq_true.mp hall x hx
  exact isPrefixOf_len2 x.1 data (by simpa using this)

/-- `unforge_address` (with the length dispatch) on the bytes `forge_address` produces for entry `e` -/
theorem unforgeAddress_entry (hlf : Generated.C10.unforgeLengthFirst = true)
    (e : Entry) (he : entryOk e = true) (h : List Nat) (hl : h.length = 20) (s : List Nat)
    (hs : base58Encode cks h e.1 = .ok s) :
    unforgeAddress cks (e.2.1 ++ h ++ e.2.2) = .ok s ∧
      (e.2.1.length = 2 → unforgeAddress cks ((e.2.1 ++ h ++ e.2.2).drop 1) = .ok s) := by
  have hrec : Generated.C10.unforgeAddressRecognised = true := by decide
  unfold entryOk at he
  simp only [Bool.and_eq_true, beq_iff_eq] at he
  obtain ⟨⟨_, hshape⟩, hall⟩ := he
  split at hshape
  next a t hpre hpost =>
    -- implicit account: `00 t` ++ h
    simp only [Bool.and_eq_true, beq_iff_eq] at hshape
    obtain ⟨ha, hfind⟩ := hshape
    subst ha
    rw [hpre, hpost]
    refine ⟨?_, fun _ => ?_⟩
    · unfold unforgeAddress
      rw [hrec, hlf, tz_find_take2 hall]
      simp only [Bool.not_true, Bool.false_eq_true, if_false, List.append_nil, List.cons_append,
        List.nil_append, List.length_cons, hl, Bool.true_and, List.take_succ_cons, List.take_zero, hfind,
        List.drop_succ_cons, List.drop_zero]
      simp [hs, ofEnc]
    · unfold unforgeAddress tzLookup
      rw [hrec, hlf]
      simp only [Bool.not_true, Bool.false_eq_true, if_false, List.append_nil, List.cons_append,
        List.nil_append, List.drop_succ_cons, List.drop_zero, List.length_cons, hl, Bool.true_and,
        List.take_succ_cons, List.take_zero, hfind]
      simp [hs, ofEnc]
  next a z hpre hpost =>
    simp only [Bool.and_eq_true, beq_iff_eq] at hshape
    obtain ⟨hno, hfind⟩ := hshape
    rw [hpre, hpost]
    refine ⟨?_, fun hc => by simp at hc⟩
    have hnone : Generated.C10.tzPrefixes.find? (fun x => x.1 == List.take 2 ([a] ++ h ++ [z])) = none := by
      apply List.find?_eq_none.mpr
      intro x hx hxe
      have h1 := List.all_eq_true.mp hno x hx
      rw [beq_iff_eq] at hxe
      rw [hxe] at h1
      cases h with
      | nil => simp at hl
      | cons b bs => simp at h1
    have hpred : (fun (x : Nat × Nat × List Nat) => [x.1].isPrefixOf ([a] ++ h ++ [z]) && ([a] ++ h ++ [z]).getLast? == some x.2.1)
        = (fun x => x.1 == a && x.2.1 == z) := by
      funext x
      have : ([a] ++ h ++ [z]).getLast? = some z := getLast?_cons_snoc a z h
      rw [this]
      simp only [List.isPrefixOf, List.cons_append, List.nil_append, Bool.and_true]
      have hsym : (some z == some x.2.1) = (x.2.1 == z) := by
        rw [Bool.eq_iff_iff, beq_iff_eq, beq_iff_eq, Option.some.injEq]
        exact eq_comm
      rw [hsym]
    unfold unforgeAddress
    rw [hrec, hlf, tz_find_take2 hall, hnone]
    simp only [hpred, hfind]
    have hlen : ([a] ++ h ++ [z]).length = 22 := by simp [hl]
    simp only [hlen, Bool.not_true, Bool.false_eq_true, if_false, Bool.true_and]
    have hd : (List.drop 1 ([a] ++ h ++ [z])).dropLast = h := drop_one_dropLast a z h
    rw [hd]
    simp [hs, ofEnc]
  · simp at hshape

/-! ### reading: whatever `unforge_address` accepts is the forged form of what it returns -/

/-- closed facts in the reading direction: every entry of `tz_prefixes` / of the originated chain is the
image of an entry of the `forge_address` chain, and the kinds' rows all carry 20-byte payloads -/
def readTablesOk : Bool :=
  Generated.C10.tzPrefixes.all (fun x =>
    match x.1 with
    | [0, _] => Generated.C10.forgeAddressChain.contains (x.2, x.1, [])
    | _ => false) &&
  Generated.C10.originatedChain.all (fun x => Generated.C10.forgeAddressChain.contains (x.2.2, [x.1], [x.2.1])) &&
  Generated.C10.forgeAddressChain.all (fun e => table.all (fun r => !(r.human == e.1) || r.dataLen == 20))

theorem ofEnc_ok {α} (x : Except Impl.Encoding.Err α) (a : α) (h : ofEnc x = .ok a) : x = .ok a := by
  cases x with
  | ok b => simpa [ofEnc] using h
  | error e => cases e <;> simp [ofEnc] at h

theorem encode_len20 (hrt : readTablesOk = true) (e : Entry) (he : e ∈ Generated.C10.forgeAddressChain)
    (v s : List Nat) (h : base58Encode cks v e.1 = .ok s) : v.length = 20 := by
  obtain ⟨r, hr, _⟩ := base58Encode_ok cks v e.1 s h
  obtain ⟨hm, hd, hh⟩ := findEncodeRow_some _ _ r hr
  unfold readTablesOk at hrt
  simp only [Bool.and_eq_true, List.all_eq_true] at hrt
  have := hrt.2 e he r hm
  simp [hh] at this
  omega

theorem unforgeAddress_sound (hlf : Generated.C10.unforgeLengthFirst = true) (hrt : readTablesOk = true)
    (data s : List Nat) (h : unforgeAddress cks data = .ok s) :
    ∃ e ∈ Generated.C10.forgeAddressChain, ∃ hash, hash.length = 20 ∧ base58Encode cks hash e.1 = .ok s ∧
      (data = e.2.1 ++ hash ++ e.2.2 ∨ (e.2.1.length = 2 ∧ data = (e.2.1 ++ hash ++ e.2.2).drop 1)) := by
  have hrec : Generated.C10.unforgeAddressRecognised = true := by decide
  have hrt' := hrt
  unfold readTablesOk at hrt'
  simp only [Bool.and_eq_true, List.all_eq_true] at hrt'
  obtain ⟨⟨htz, horig⟩, _⟩ := hrt'
  -- the key-hash form
  have hkey : ∀ (hd : (match tzLookup data with
        | none => (Except.error Err.keyError : Except Err (List Nat))
        | some hp => ofEnc (base58Encode cks (data.drop 1) hp)) = .ok s),
      ∃ e ∈ Generated.C10.forgeAddressChain, ∃ hash, hash.length = 20 ∧ base58Encode cks hash e.1 = .ok s ∧
        (e.2.1.length = 2 ∧ e.2.2 = [] ∧ data = (e.2.1 ++ hash ++ e.2.2).drop 1) := by
    intro hd
    split at hd
    · simp at hd
    next hp hlook =>
      unfold tzLookup at hlook
      rw [Option.map_eq_some_iff] at hlook
      obtain ⟨x, hx, hxp⟩ := hlook
      have hxm := List.mem_of_find?_eq_some hx
      have hxk := List.find?_some hx
      rw [beq_iff_eq] at hxk
      have hc := htz x hxm
      have henc := ofEnc_ok _ _ hd
      rw [← hxp] at henc
      split at hc
      next t hk =>
        rw [List.contains_iff_mem] at hc
        have hlen := encode_len20 cks hrt (x.2, x.1, []) hc (data.drop 1) s henc
        refine ⟨(x.2, x.1, []), hc, data.drop 1, hlen, henc, by simp [hk], rfl, ?_⟩
        cases data with
        | nil => simp at hlen
        | cons b bs =>
          simp only [List.take_succ_cons, List.take_zero] at hxk
          rw [hk] at hxk
          simp only [List.cons.injEq, and_true, true_and] at hxk
          simp [hk, hxk]
      · simp at hc
  unfold unforgeAddress at h
  rw [hrec, hlf] at h
  simp only [Bool.not_true, Bool.false_eq_true, if_false, Bool.true_and] at h
  split at h
  · obtain ⟨e, he, hash, h1, h2, h3, _, h5⟩ := hkey h
    exact ⟨e, he, hash, h1, h2, Or.inr ⟨h3, h5⟩⟩
  next hlen21 =>
    split at h
    next x hx =>
      -- implicit account, 22-byte form
      have hxm := List.mem_of_find?_eq_some hx
      have hxk := List.find?_some hx
      rw [List.isPrefixOf_iff_prefix] at hxk
      obtain ⟨rest, hrest⟩ := hxk
      have hc := htz x hxm
      have henc := ofEnc_ok _ _ h
      split at hc
      next t hk =>
        rw [List.contains_iff_mem] at hc
        have hd : data.drop 2 = rest := by rw [← hrest, hk]; simp
        rw [hd] at henc
        have hlen := encode_len20 cks hrt (x.2, x.1, []) hc rest s henc
        exact ⟨(x.2, x.1, []), hc, rest, hlen, henc, Or.inl (by simp [hrest])⟩
      · simp at hc
    next hnone =>
      split at h
      next x hx =>
        -- originated kinds
        have hxm := List.mem_of_find?_eq_some hx
        have hxk := List.find?_some hx
        simp only [Bool.and_eq_true, List.isPrefixOf_iff_prefix, beq_iff_eq] at hxk
        obtain ⟨⟨rest, hrest⟩, hlast⟩ := hxk
        have hc := horig x hxm
        rw [List.contains_iff_mem] at hc
        have henc := ofEnc_ok _ _ h
        have hlen := encode_len20 cks hrt (x.2.2, [x.1], [x.2.1]) hc _ s henc
        refine ⟨(x.2.2, [x.1], [x.2.1]), hc, (data.drop 1).dropLast, hlen, henc, Or.inl ?_⟩
        have hd : data.drop 1 = rest := by rw [← hrest]; simp
        rw [hd] at hlen ⊢
        have hrne : rest ≠ [] := by intro e; rw [e] at hlen; simp at hlen
        have hl2 : rest.getLast? = some x.2.1 := by
          rw [← hrest] at hlast
          rw [← hlast]
          exact (getLast?_cons_of_ne_nil x.1 rest hrne).symm
        have := dropLast_snoc_of_getLast? rest x.2.1 hl2
        rw [← hrest]
        simp only [List.cons_append, List.nil_append, List.append_assoc]
        rw [this]
      next hnone2 =>
        obtain ⟨e, he, hash, h1, h2, h3, h4, h5⟩ := hkey h
        exfalso
        apply hlen21
        rw [h5, h4]
        simp [h1, h3]

/-! ### contracts: address + entrypoint -/

theorem percent_not_in_encoded (v p s : List Nat) (h : base58Encode cks v p = .ok s) : 37 ∉ s := by
  obtain ⟨r, _, hs⟩ := base58Encode_ok cks v p s h
  rw [hs]; exact percent_not_in_b58enc _

/-- what `forge_contract` appends for an entrypoint: nothing for `default` -/
def epBytes : Option (List Nat) → List Nat
  | none => []
  | some n => if n = defaultName then [] else n

/-- the readable value: address, then `%name` if an entrypoint is given -/
def withEp (s : List Nat) : Option (List Nat) → List Nat
  | none => s
  | some n => s ++ 37 :: n

theorem forgeContract_of (hsf : Generated.C10.splitFirstOnly = true) (s addr : List Nat) (hp : 37 ∉ s)
    (hf : forgeAddress cks s false = .ok addr) (ep : Option (List Nat)) :
    forgeContract cks (withEp s ep) = .ok (addr ++ epBytes ep) := by
  have hrec : Generated.C10.forgeContractRecognised = true := by decide
  unfold forgeContract
  rw [hrec, hsf]
  simp only [Bool.not_true, Bool.false_eq_true, if_false, if_true]
  cases ep with
  | none =>
    simp only [withEp, splitPercentOnce_no s hp, hf, epBytes, List.append_nil]
    simp
  | some n =>
    simp only [withEp, splitPercentOnce_append s n hp, hf, epBytes]
    by_cases hn : n = defaultName <;> simp [hn]

theorem unforgeContract_of (addr s tail : List Nat) (hl : addr.length = 22)
    (hu : unforgeAddress cks addr = .ok s) (hascii : ∀ c ∈ tail, c < 128) :
    unforgeContract cks (addr ++ tail) = .ok (if tail = [] then s else s ++ 37 :: tail) := by
  have hrec : Generated.C10.unforgeContractRecognised = true := by decide
  unfold unforgeContract
  rw [hrec, List.take_left' hl, hu, List.drop_left' hl]
  simp only [Bool.not_true, Bool.false_eq_true, if_false, List.length_append, hl]
  cases tail with
  | nil => simp
  | cons c cs =>
    have : ((c :: cs).all fun x => decide (x < 128)) = true := by
      rw [List.all_eq_true]; intro x hx; exact decide_eq_true (hascii x hx)
    simp [this]

/-! ### generic encode / decode of one row (chain ids, signatures, keys) -/

include hck in
theorem encode_decode_row (v p : List Nat) (r : Row) (hf : findEncodeRow table v.length p = some r)
    (hrow : rowOk r = true) (hv : IsBytes v) :
    base58Encode cks v p = .ok (encOf cks r v) ∧ base58Decode cks (encOf cks r v) = .ok v := by
  obtain ⟨hm, hd, _⟩ := findEncodeRow_some _ _ r hf
  exact ⟨base58Encode_of_find cks v p r hf, base58Decode_enc cks hck r hm hrow v hd hv⟩

/-! ### public keys -/

/-- closed facts about one entry (textual prefix, tag) of the `forge_public_key` chain: the two maps are
inverse at this entry, and every table row with this human prefix is `rowOk`, has a 4-byte binary prefix
(the code cuts `[4:]`) and is the row `base58_encode` selects for its payload length -/
def keyOk (e : List Nat × Nat) : Bool :=
  e.1.length == 4 &&
  (Generated.C10.keyTagOfPrefix.find? (fun x => x.1 == e.1) == some e) &&
  (Generated.C10.keyPrefixOfTag.find? (fun x => x.1 == e.2) == some (e.2, e.1)) &&
  table.all (fun r => !(r.human == e.1) ||
    (rowOk r && r.bin.length == 4 && findEncodeRow table r.dataLen e.1 == some r)) &&
  table.any (fun r => r.human == e.1)

include hck in
theorem publicKey_entry (e : List Nat × Nat) (he : keyOk e = true) (r : Row) (hr : r ∈ table)
    (hh : r.human = e.1) (k : List Nat) (hl : k.length = r.dataLen) (hk : IsBytes k) :
    ∃ s, base58Encode cks k e.1 = .ok s ∧ forgePublicKey cks s = .ok (e.2 :: k) ∧
      unforgePublicKey cks (e.2 :: k) = .ok s := by
  have hrec : Generated.C10.publicKeyRecognised = true := by decide
  unfold keyOk at he
  simp only [Bool.and_eq_true, beq_iff_eq, List.all_eq_true, Bool.or_eq_true, Bool.not_eq_true',
    beq_eq_false_iff_ne] at he
  obtain ⟨⟨⟨⟨hlen, hfwd⟩, hbwd⟩, hrows⟩, _⟩ := he
  rcases hrows r hr with hne | ⟨⟨hrow, hbl⟩, hfind⟩
  · exact absurd hh hne
  have hfind' : findEncodeRow table k.length e.1 = some r := by rw [hl]; exact hfind
  have henc := base58Encode_of_find cks k e.1 r hfind'
  obtain ⟨⟨tl, hs⟩, hdec⟩ := encOf_facts cks hck r hrow k hl hk
  refine ⟨encOf cks r k, henc, ?_, ?_⟩
  · unfold forgePublicKey
    rw [hrec, hdec]
    simp only [Bool.not_true, Bool.false_eq_true, if_false]
    rw [hs, hh, List.take_left' hlen, hfwd, List.drop_left' hbl]
  · unfold unforgePublicKey
    rw [hrec]
    simp only [Bool.not_true, Bool.false_eq_true, if_false, hbwd, henc, ofEnc]

/-- reading: whatever `unforge_public_key` accepts is tag + key of the string it returns, and the tag maps
back to the prefix under `forge_public_key`'s chain -/
theorem unforgePublicKey_sound
    (hinv : Generated.C10.keyPrefixOfTag.all (fun x => Generated.C10.keyTagOfPrefix.contains (x.2, x.1)) = true)
    (data s : List Nat) (h : unforgePublicKey cks data = .ok s) :
    ∃ e ∈ Generated.C10.keyTagOfPrefix, ∃ k, data = e.2 :: k ∧ base58Encode cks k e.1 = .ok s := by
  have hrec : Generated.C10.publicKeyRecognised = true := by decide
  unfold unforgePublicKey at h
  rw [hrec] at h
  simp only [Bool.not_true, Bool.false_eq_true, if_false] at h
  split at h
  · simp at h
  next t rest =>
    split at h
    · simp at h
    next x hx =>
      have hxm := List.mem_of_find?_eq_some hx
      have hxk := List.find?_some hx
      rw [beq_iff_eq] at hxk
      have := List.all_eq_true.mp hinv x hxm
      rw [List.contains_iff_mem] at this
      exact ⟨(x.2, x.1), this, rest, by simp [hxk], ofEnc_ok _ _ h⟩

/-! ### chain ids and signatures -/

/-- closed fact for one payload length `n` of `unforge_signature`: a prefix is selected for it and that
(prefix, n) row exists and is `rowOk` -/
def sigLenOk (n : Nat) : Bool :=
  match Generated.C10.signaturePrefixes.find? (sigAlternative n) with
  | none => false
  | some e =>
    match findEncodeRow table n e.2 with
    | none => false
    | some r => rowOk r

include hck in
theorem signature_bytes (d : List Nat) (hd : IsBytes d) (hn : sigLenOk d.length = true) :
    ∃ s, unforgeSignature cks d = .ok s ∧ forgeBase58 cks s = .ok d := by
  have hrec : Generated.C10.signatureRecognised = true := by decide
  have hrec2 : Generated.C10.forgeBase58Recognised = true := by decide
  unfold sigLenOk at hn
  split at hn
  · simp at hn
  next e he =>
    split at hn
    · simp at hn
    next r hr =>
      obtain ⟨h1, h2⟩ := encode_decode_row cks hck d e.2 r hr hn hd
      refine ⟨encOf cks r d, ?_, ?_⟩
      · unfold unforgeSignature
        rw [hrec]
        simp only [Bool.not_true, Bool.false_eq_true, if_false, he, h1, ofEnc]
      · unfold forgeBase58
        rw [hrec2]
        simp only [Bool.not_true, Bool.false_eq_true, if_false, h2, ofEnc]

def chainIdOk : Bool :=
  match findEncodeRow table 4 Generated.C10.chainIdPrefix with
  | none => false
  | some r => rowOk r

include hck in
theorem chainId_bytes (hok : chainIdOk = true) (d : List Nat) (hd : IsBytes d) (hl : d.length = 4) :
    ∃ s, unforgeChainId cks d = .ok s ∧ forgeBase58 cks s = .ok d := by
  have hrec : Generated.C10.chainIdRecognised = true := by decide
  have hrec2 : Generated.C10.forgeBase58Recognised = true := by decide
  unfold chainIdOk at hok
  split at hok
  · simp at hok
  next r hr =>
    obtain ⟨h1, h2⟩ := encode_decode_row cks hck d _ r (by rw [hl]; exact hr) hok hd
    refine ⟨encOf cks r d, ?_, ?_⟩
    · unfold unforgeChainId
      rw [hrec]
      simp only [Bool.not_true, Bool.false_eq_true, if_false, h1, ofEnc]
    · unfold forgeBase58
      rw [hrec2]
      simp only [Bool.not_true, Bool.false_eq_true, if_false, h2, ofEnc]

include hck in
/-- `forge_base58` of any canonical string of a `rowOk` row returns the payload -/
theorem forgeBase58_enc (r : Row) (hr : r ∈ table) (hrow : rowOk r = true) (v : List Nat)
    (hl : v.length = r.dataLen) (hv : IsBytes v) : forgeBase58 cks (encOf cks r v) = .ok v := by
  have hrec2 : Generated.C10.forgeBase58Recognised = true := by decide
  unfold forgeBase58
  rw [hrec2]
  simp only [Bool.not_true, Bool.false_eq_true, if_false, base58Decode_enc cks hck r hr hrow v hl hv, ofEnc]

end

end Impl.AddrForge
