import PytezosModel.Proofs.C20Ticket
/-! C20: GET / GET_AND_UPDATE / UPDATE, the dispatcher over `simple`, and the induction over the evaluation -/
namespace Impl.Tickets

theorem good_get {c : Cfg} {s s' : State} (h : simple c s .get = some (.ok s')) : Good s s' := by
  simp only [simple, Option.some.injEq] at h
  cases hp : s.pop2 with
  | error e => simp [hp, bind, Except.bind] at h
  | ok x =>
    obtain ⟨key, src, s1⟩ := x
    simp only [hp, bind, Except.bind] at h
    cases src <;> simp only [reduceCtorEq] at h
    rename_i big kt vt keys vals removed
    cases hg : mapGet c big kt vt keys vals removed key true with
    | error e => simp [hg] at h
    | ok r =>
      simp only [hg, pure, Except.pure, Except.ok.injEq] at h
      subst h
      cases r with
      | none =>
        refine Good.popPush [key, .map big kt vt keys vals removed] [.none vt] [] true (pop2_spec hp) (push_perm _ _) rfl
          (by simp [push_typed]) rfl ?_
        intro _ _
        exact ⟨LC_cons.mpr ⟨by simp [Val.consistent], LC_nil⟩, fun k => by simp [LS_cons, LS_nil, ticketSum],
          fun _ => LN_cons.mpr ⟨by simp [noZero], LN_nil⟩⟩
      | some v =>
        obtain ⟨k0, rfl, hl⟩ := mapGet_some hg
        have hm := lookup_mem hl
        refine Good.popPush [.atom k0, .map big kt vt keys vals removed] [.some v] [] true (pop2_spec hp) (push_perm _ _) rfl
          (by simp [push_typed]) rfl ?_
        intro _ hc
        have wf := mapWF_of_consistent (LC_cons.mp (LC_cons.mp hc).2).1
        refine ⟨LC_cons.mpr ⟨by simp only [Val.consistent]; exact wf.cons v hm, LC_nil⟩, fun k => ?_, fun hz => ?_⟩
        · have := mem_LS_le k hm
          simp only [LS_cons, LS_nil, ticketSum, mintedSum, LS] at this ⊢; omega
        · have hz2 := (LN_cons.mp (LN_cons.mp hz).2).1
          simp only [noZero] at hz2
          rw [noZeroList_iff] at hz2
          exact LN_cons.mpr ⟨by simp only [noZero]; exact hz2 v hm, LN_nil⟩

theorem update_vals {c : Cfg} {big : Bool} {kt vt : Ty} {keys : List Atom} {vals : List Val} {removed : List Atom}
    {key val : Val} {ov prev : Option Val} {dst : Val} (hov : optOf val = some ov)
    (hu : mapUpdate c big kt vt keys vals removed key ov = .ok (prev, dst)) :
    storeOk vt ov = true → LC [key, val, .map big kt vt keys vals removed] →
      (LC [dst] ∧ (∀ p, prev = some p → p.consistent = true))
        ∧ (∀ k, optSum k prev + ticketSum k dst ≤ LS k [key, val, .map big kt vt keys vals removed])
        ∧ (LN [key, val, .map big kt vt keys vals removed] → LN [dst] ∧ ∀ p, prev = some p → noZero p = true) := by
  intro hst hc
  have hcv := (LC_cons.mp (LC_cons.mp hc).2).1
  have wf := mapWF_of_consistent (LC_cons.mp (LC_cons.mp (LC_cons.mp hc).2).2).1
  have hov' : ∀ x, ov = some x → x.consistent = true ∧ x.typeOf = vt := by
    intro x hx; subst hx
    cases val <;> simp [optOf] at hov
    subst hov
    exact ⟨by simpa [Val.consistent] using hcv, by simpa [storeOk] using hst⟩
  obtain ⟨d1, d2, d3, d4⟩ := mapUpdate_spec hu wf hov'
  have hsum : ∀ k, optSum k ov = ticketSum k val := by
    intro k
    cases val <;> simp [optOf] at hov <;> subst hov <;> simp [optSum, ticketSum]
  refine ⟨⟨LC_cons.mpr ⟨d1, LC_nil⟩, d2⟩, fun k => ?_, fun hz => ?_⟩
  · have := d3 k
    rw [hsum k] at this
    simp only [LS_cons, LS_nil, ticketSum, LS] at this ⊢; omega
  · have hzv := (LN_cons.mp (LN_cons.mp hz).2).1
    have hzm := (LN_cons.mp (LN_cons.mp (LN_cons.mp hz).2).2).1
    simp only [noZero] at hzm
    rw [noZeroList_iff] at hzm
    have hzx : ∀ x, ov = some x → noZero x = true := by
      intro x hx; subst hx
      cases val <;> simp [optOf] at hov
      subst hov
      simpa [noZero] using hzv
    obtain ⟨e1, e2⟩ := d4 hzm hzx
    exact ⟨LN_cons.mpr ⟨e1, LN_nil⟩, e2⟩

theorem optVal_facts (vt : Ty) (prev : Option Val) :
    (∀ k, ticketSum k (optVal vt prev) = optSum k prev)
      ∧ ((∀ p, prev = some p → p.consistent = true) → (optVal vt prev).consistent = true)
      ∧ ((∀ p, prev = some p → noZero p = true) → noZero (optVal vt prev) = true) := by
  cases prev with
  | none => simp [optVal, optSum, ticketSum, Val.consistent, noZero]
  | some p => simp [optVal, optSum, ticketSum, Val.consistent, noZero]

theorem good_getAndUpdate {c : Cfg} {s s' : State} (h : simple c s .getAndUpdate = some (.ok s')) : Good s s' := by
  simp only [simple, Option.some.injEq] at h
  cases hp : s.pop3 with
  | error e => simp [hp, bind, Except.bind] at h
  | ok x =>
    obtain ⟨key, val, src, s1⟩ := x
    simp only [hp, bind, Except.bind] at h
    cases src <;> simp only [reduceCtorEq] at h
    rename_i big kt vt keys vals removed
    cases hov : optOf val with
    | none => simp [hov] at h
    | some ov =>
      simp only [hov] at h
      cases hu : mapUpdate c big kt vt keys vals removed key ov with
      | error e => simp [hu] at h
      | ok pd =>
        obtain ⟨prev, dst⟩ := pd
        simp only [hu, pure, Except.pure, Except.ok.injEq] at h
        subst h
        refine Good.popPush [key, val, .map big kt vt keys vals removed] [optVal vt prev, dst] [] (storeOk vt ov) (pop3_spec hp)
          (push2_perm _ _ _) rfl rfl rfl ?_
        intro hst hc
        obtain ⟨⟨a1, a2⟩, a3, a4⟩ := update_vals hov hu hst hc
        obtain ⟨o1, o2, o3⟩ := optVal_facts vt prev
        refine ⟨LC_cons.mpr ⟨o2 a2, a1⟩, fun k => ?_, fun hz => ?_⟩
        · have := a3 k
          simp only [LS_cons, LS_nil, o1 k, mintedSum] at this ⊢; omega
        · obtain ⟨z1, z2⟩ := a4 hz
          exact LN_cons.mpr ⟨o3 z2, z1⟩

theorem insertAtom_perm (k : Atom) : ∀ xs : List Atom, (insertAtom k xs).Perm (k :: xs)
  | [] => List.Perm.refl _
  | x :: xs => by
    simp only [insertAtom]
    split
    · exact List.Perm.refl _
    · exact (List.Perm.cons x (insertAtom_perm k xs)).trans (List.Perm.swap k x xs)

theorem setAdd_nodup {k : Atom} {xs : List Atom} (h : xs.Nodup) : (setAdd k xs).Nodup := by
  unfold setAdd
  split
  · exact h
  · rename_i hc
    have hk : k ∉ xs := by simpa using hc
    exact (insertAtom_perm k xs).nodup_iff.mpr (List.nodup_cons.mpr ⟨hk, h⟩)

theorem setAdd_mem {k a : Atom} {xs : List Atom} (h : a ∈ setAdd k xs) : a = k ∨ a ∈ xs := by
  unfold setAdd at h
  split at h
  · exact Or.inr h
  · exact List.mem_cons.mp ((insertAtom_perm k xs).mem_iff.mp h)

theorem good_update {c : Cfg} {s s' : State} (h : simple c s .update = some (.ok s')) : Good s s' := by
  simp only [simple, Option.some.injEq] at h
  cases hp : s.pop3 with
  | error e => simp [hp, bind, Except.bind] at h
  | ok x =>
    obtain ⟨key, val, src, s1⟩ := x
    simp only [hp, bind, Except.bind] at h
    cases src with
    | map big kt vt keys vals removed =>
      simp only at h
      cases hov : optOf val with
      | none => simp [hov] at h
      | some ov =>
        simp only [hov] at h
        cases hu : mapUpdate c big kt vt keys vals removed key ov with
        | error e => simp [hu] at h
        | ok pd =>
          obtain ⟨prev, dst⟩ := pd
          simp only [hu, pure, Except.pure, Except.ok.injEq] at h
          subst h
          refine Good.popPush [key, val, .map big kt vt keys vals removed] [dst] [] (storeOk vt ov) (pop3_spec hp)
            (push_perm _ _) rfl rfl rfl ?_
          intro hst hc
          obtain ⟨⟨a1, _⟩, a3, a4⟩ := update_vals hov hu hst hc
          refine ⟨a1, fun k => ?_, fun hz => (a4 hz).1⟩
          have := a3 k
          simp only [LS_cons, LS_nil, mintedSum] at this ⊢; omega
    | set t xs =>
      simp only at h
      match val, h with
      | .atom (.bool b), h =>
        simp only at h
        split at h
        · cases h
        · match key, h with
          | .atom k, h =>
            simp only [pure, Except.pure, Except.ok.injEq] at h
            subst h
            refine Good.popPush [.atom k, .atom (.bool b), .set t xs] [.set t _] [] true (pop3_spec hp)
              (push_perm _ _) rfl (by simp [push_typed]) rfl ?_
            intro _ hc
            have hcs := (LC_cons.mp (LC_cons.mp (LC_cons.mp hc).2).2).1
            simp only [Val.consistent, nodupB_iff] at hcs
            refine ⟨LC_cons.mpr ⟨?_, LC_nil⟩, fun k' => by simp [LS_cons, LS_nil, ticketSum], fun _ => LN_cons.mpr ⟨by simp [noZero], LN_nil⟩⟩
            simp only [Val.consistent, nodupB_iff]
            cases b
            · exact hcs.sublist List.filter_sublist
            · exact setAdd_nodup hcs
    | atom _ => simp at h
    | ticket _ _ _ _ => simp at h
    | pair _ _ => simp at h
    | none _ => simp at h
    | some _ => simp at h
    | list _ _ => simp at h
    | left _ _ => simp at h
    | right _ _ => simp at h
    | lam _ _ _ => simp at h

theorem good_mem {c : Cfg} {s s' : State} (h : simple c s .mem = some (.ok s')) : Good s s' := by
  simp only [simple, Option.some.injEq] at h
  cases hp : s.pop2 with
  | error e => simp [hp, bind, Except.bind] at h
  | ok x =>
    obtain ⟨key, src, s1⟩ := x
    simp only [hp, bind, Except.bind] at h
    have fin : ∀ b : Bool, s' = s1.push (.atom (.bool b)) → Good s s' := by
      intro b hb; subst hb
      refine Good.popPush [key, src] [.atom (.bool b)] [] true (pop2_spec hp) (push_perm _ _) rfl (by simp [push_typed]) rfl ?_
      intro _ _
      exact ⟨LC_cons.mpr ⟨rfl, LC_nil⟩, fun k => by simp [LS_cons, LS_nil, ticketSum], fun _ => LN_cons.mpr ⟨rfl, LN_nil⟩⟩
    cases src with
    | set t xs =>
      simp only at h
      split at h
      · cases h
      · match key, h with
        | .atom k, h =>
          simp only [pure, Except.pure, Except.ok.injEq] at h
          exact fin _ h.symm
    | map big kt vt keys vals removed =>
      simp only at h
      cases hg : mapGet c big kt vt keys vals removed key false with
      | error e => simp [hg] at h
      | ok r =>
        simp only [hg, pure, Except.pure, Except.ok.injEq] at h
        exact fin _ h.symm
    | atom _ => simp at h
    | ticket _ _ _ _ => simp at h
    | pair _ _ => simp at h
    | none _ => simp at h
    | some _ => simp at h
    | list _ _ => simp at h
    | left _ _ => simp at h
    | right _ _ => simp at h
    | lam _ _ _ => simp at h

/-- every instruction handled by `simple` is a `Good` step -/
theorem simple_good {c : Cfg} (ok : CfgOk c) {s s' : State} (i : Instr) (h : simple c s i = some (.ok s')) : Good s s' := by
  cases i with
  | ticket => exact good_ticket h
  | readTicket => exact good_readTicket h
  | splitTicket => exact good_splitTicket ok h
  | joinTickets => exact good_joinTickets h
  | pair => exact good_pair h
  | unpair => exact good_unpair h
  | car => exact good_car h
  | cdr => exact good_cdr h
  | some => exact good_some h
  | none t => exact good_none t h
  | nil t => exact good_nil t h
  | cons => exact good_cons h
  | swap => exact good_swap h
  | drop => exact good_drop h
  | push t v => exact good_push ok t v h
  | emptyMap k v => exact good_emptyMap k v h
  | emptyBigMap k v => exact good_emptyBigMap k v h
  | get => exact good_get h
  | getAndUpdate => exact good_getAndUpdate h
  | update => exact good_update h
  | left t => exact good_left t h
  | right t => exact good_right t h
  | emptySet t => exact good_emptySet t h
  | mem => exact good_mem h
  | lambda a b body => exact good_lambda a b body h
  | apply => exact good_apply h
  | exec => simp [simple] at h
  | ifLeft _ _ => simp [simple] at h
  | failwith => simp [simple] at h
  | ifNone _ _ => simp [simple] at h
  | iter _ => simp [simple] at h
  | map _ => simp [simple] at h
  | dup => simp [simple] at h
  | dupN _ => simp [simple] at h
  | dig _ => simp [simple] at h
  | dug _ => simp [simple] at h
  | dip _ => simp [simple] at h
  | dipN _ _ => simp [simple] at h
  | seq _ => simp [simple] at h

end Impl.Tickets
