import PytezosModel.Proofs.InterpTyping
import PytezosModel.Proofs.InterpStep
import PytezosModel.Proofs.InterpColl
set_option linter.unusedSectionVars false   -- `[Mode]` is a section variable of every lemma here; some do not use it
/-! Type soundness of the reference semantics of the modelled core (C02): rules without sub-programs. -/
namespace Interp
variable [Mode]
open Typing

theorem typing_addTy_eq : Typing.addTy = Spec.addTy := by funext a b; cases a <;> cases b <;> rfl
theorem typing_subTy_eq : Typing.subTy = Spec.subTy := by funext a b; cases a <;> cases b <;> rfl
theorem typing_mulTy_eq : Typing.mulTy = Spec.mulTy := by funext a b; cases a <;> cases b <;> rfl

theorem numOk_sound (t : Ty) (v : Int) (r : Val) (h : Spec.numOk t v = .ok r) : WF r ∧ typeOf r = t := by
  cases t <;> simp [Spec.numOk] at h
  · subst h; simp [typeOf]
  · split at h
    · simp at h; subst h; simp [typeOf, wf_nat, *]
    · simp at h
  · split at h
    · simp at h; subst h; rename_i hh; simp [typeOf, wf_mutez, hh.1, hh.2]
    · simp at h
  · subst h; simp [typeOf]

/-- split the visible stack one level, discarding the shapes on which the rule does not apply -/
syntax "st_top" : tactic
set_option hygiene false in
macro_rules
  | `(tactic| st_top) => `(tactic| (
      rcases st with _ | ⟨a, st⟩
      · simp [Spec.step, Spec.stepMore] at hev
      rw [stackWF_cons] at hw
      obtain ⟨hwa, hw⟩ := hw))

section
variable (env : Env) (st st' : List Val) (hw : StackWF st)
include hw

theorem sound_DROP (hev : Spec.step env .DROP st = .ok st') :
    StackWF st' ∧ Typing.step .DROP (st.map typeOf) = some (.ok (st'.map typeOf)) := by
  st_top; simp [Spec.step] at hev; subst hev; exact ⟨hw, by simp [Typing.step]⟩

theorem sound_DUP (hev : Spec.step env .DUP st = .ok st') :
    StackWF st' ∧ Typing.step .DUP (st.map typeOf) = some (.ok (st'.map typeOf)) := by
  st_top; simp [Spec.step] at hev; subst hev
  exact ⟨by simp [stackWF_cons, hwa, hw], by simp [Typing.step]⟩

theorem sound_DROPN (n : Nat) (hev : Spec.step env (.DROPN n) st = .ok st') :
    StackWF st' ∧ Typing.step (.DROPN n) (st.map typeOf) = some (.ok (st'.map typeOf)) := by
  simp only [Spec.step] at hev
  split at hev
  · rename_i hn
    simp at hev; subst hev
    exact ⟨stackWF_drop hw n, by simp [Typing.step, hn, List.map_drop]⟩
  · simp at hev

theorem sound_DUPN (n : Nat) (hev : Spec.step env (.DUPN n) st = .ok st') :
    StackWF st' ∧ Typing.step (.DUPN n) (st.map typeOf) = some (.ok (st'.map typeOf)) := by
  simp only [Spec.step] at hev
  split at hev
  · simp at hev
  · rename_i hn
    split at hev
    · rename_i x hx
      simp at hev; subst hev
      refine ⟨by simp [stackWF_cons, stackWF_get hw _ x hx, hw], ?_⟩
      simp [Typing.step, hn, List.getElem?_map, hx]
    · simp at hev

theorem sound_SWAP (hev : Spec.step env .SWAP st = .ok st') :
    StackWF st' ∧ Typing.step .SWAP (st.map typeOf) = some (.ok (st'.map typeOf)) := by
  st_top
  rcases st with _ | ⟨b, st⟩
  · simp [Spec.step] at hev
  rw [stackWF_cons] at hw
  simp [Spec.step] at hev; subst hev
  exact ⟨by simp [stackWF_cons, hwa, hw.1, hw.2], by simp [Typing.step]⟩

theorem sound_DIG (n : Nat) (hev : Spec.step env (.DIG n) st = .ok st') :
    StackWF st' ∧ Typing.step (.DIG n) (st.map typeOf) = some (.ok (st'.map typeOf)) := by
  simp only [Spec.step] at hev
  split at hev
  · rename_i x hx
    simp at hev; subst hev
    refine ⟨?_, ?_⟩
    · rw [stackWF_cons, stackWF_append]
      exact ⟨stackWF_get hw _ x hx, stackWF_take hw n, stackWF_drop hw (n + 1)⟩
    · simp [Typing.step, List.getElem?_map, hx, List.map_take, List.map_drop]
  · simp at hev

theorem sound_DUG (n : Nat) (hev : Spec.step env (.DUG n) st = .ok st') :
    StackWF st' ∧ Typing.step (.DUG n) (st.map typeOf) = some (.ok (st'.map typeOf)) := by
  st_top
  simp only [Spec.step] at hev
  split at hev
  · rename_i hn
    simp at hev; subst hev
    refine ⟨?_, ?_⟩
    · rw [stackWF_append, stackWF_cons]
      exact ⟨stackWF_take hw n, hwa, stackWF_drop hw n⟩
    · simp [Typing.step, hn, List.map_take, List.map_drop]
  · simp at hev

end
end Interp

namespace Interp
variable [Mode]
open Typing

syntax "sound_val1" : tactic
set_option hygiene false in
macro_rules
  | `(tactic| sound_val1) => `(tactic| (
      st_top
      cases a <;> first | (simp [Spec.step, Spec.stepMore] at hev; done) | skip
      all_goals (try (rename_i t v; cases t <;> first | (simp [Spec.step, Spec.stepMore] at hev; done) | skip))
      all_goals (simp [Spec.step, Spec.stepMore] at hev; subst hev)
      all_goals (simp_all [Typing.step, Typing.stepMore, typeOf, stackWF_cons, wf_nat, wf_list, wf_map, allTy_nil])))

section
variable (env : Env) (st st' : List Val) (hw : StackWF st)
include hw

theorem sound_UNIT (hev : Spec.step env .UNIT st = .ok st') :
    StackWF st' ∧ Typing.step .UNIT (st.map typeOf) = some (.ok (st'.map typeOf)) := by
  simp [Spec.step] at hev; subst hev; simp [Typing.step, typeOf, stackWF_cons, hw]
theorem sound_NONE (t : Ty) (hev : Spec.step env (.NONE t) st = .ok st') :
    StackWF st' ∧ Typing.step (.NONE t) (st.map typeOf) = some (.ok (st'.map typeOf)) := by
  simp [Spec.step] at hev; subst hev; simp [Typing.step, typeOf, stackWF_cons, hw]
theorem sound_NIL (t : Ty) (hev : Spec.step env (.NIL t) st = .ok st') :
    StackWF st' ∧ Typing.step (.NIL t) (st.map typeOf) = some (.ok (st'.map typeOf)) := by
  simp [Spec.step] at hev; subst hev; simp [Typing.step, typeOf, stackWF_cons, hw, wf_list, allTy_nil]
theorem sound_EMPTY_MAP (k v : Ty) (hev : Spec.step env (.EMPTY_MAP k v) st = .ok st') :
    StackWF st' ∧ Typing.step (.EMPTY_MAP k v) (st.map typeOf) = some (.ok (st'.map typeOf)) := by
  simp [Spec.step] at hev; subst hev; simp [Typing.step, typeOf, stackWF_cons, hw, wf_map, allTy_nil]
theorem sound_SENDER (hev : Spec.step env .SENDER st = .ok st') :
    StackWF st' ∧ Typing.step .SENDER (st.map typeOf) = some (.ok (st'.map typeOf)) := by
  simp [Spec.step] at hev; subst hev; simp [Typing.step, typeOf, stackWF_cons, hw]
theorem sound_SOURCE (hev : Spec.step env .SOURCE st = .ok st') :
    StackWF st' ∧ Typing.step .SOURCE (st.map typeOf) = some (.ok (st'.map typeOf)) := by
  simp [Spec.step] at hev; subst hev; simp [Typing.step, typeOf, stackWF_cons, hw]
theorem sound_SELF_ADDRESS (hev : Spec.step env .SELF_ADDRESS st = .ok st') :
    StackWF st' ∧ Typing.step .SELF_ADDRESS (st.map typeOf) = some (.ok (st'.map typeOf)) := by
  simp [Spec.step] at hev; subst hev; simp [Typing.step, typeOf, stackWF_cons, hw]
theorem sound_NOW (hev : Spec.step env .NOW st = .ok st') :
    StackWF st' ∧ Typing.step .NOW (st.map typeOf) = some (.ok (st'.map typeOf)) := by
  simp [Spec.step] at hev; subst hev; simp [Typing.step, typeOf, stackWF_cons, hw]
theorem sound_CHAIN_ID (hev : Spec.step env .CHAIN_ID st = .ok st') :
    StackWF st' ∧ Typing.step .CHAIN_ID (st.map typeOf) = some (.ok (st'.map typeOf)) := by
  simp [Spec.step] at hev; subst hev; simp [Typing.step, typeOf, stackWF_cons, hw]

theorem sound_numEnv (i : Instr) (t : Ty) (x : Int)
    (hs : ∀ s, Spec.step env i s = (Spec.numOk t x).bind fun r => .ok (r :: s))
    (ht : ∀ s, Typing.step i s = some (.ok (t :: s)))
    (hev : Spec.step env i st = .ok st') :
    StackWF st' ∧ Typing.step i (st.map typeOf) = some (.ok (st'.map typeOf)) := by
  rw [hs] at hev
  cases hq : Spec.numOk t x with
  | stuck => simp [hq] at hev
  | failed _ => simp [hq] at hev
  | rtfail => simp [hq] at hev
  | oof => simp [hq] at hev
  | offguard => simp [hq] at hev
  | ok r =>
    simp [hq] at hev; subst hev
    obtain ⟨h1, h2⟩ := numOk_sound t x r hq
    simp [ht, stackWF_cons, h1, h2, hw]

theorem sound_AMOUNT (hev : Spec.step env .AMOUNT st = .ok st') :
    StackWF st' ∧ Typing.step .AMOUNT (st.map typeOf) = some (.ok (st'.map typeOf)) :=
  sound_numEnv env st st' hw .AMOUNT .mutez env.amount (fun _ => rfl) (fun _ => rfl) hev
theorem sound_BALANCE (hev : Spec.step env .BALANCE st = .ok st') :
    StackWF st' ∧ Typing.step .BALANCE (st.map typeOf) = some (.ok (st'.map typeOf)) :=
  sound_numEnv env st st' hw .BALANCE .mutez env.balance (fun _ => rfl) (fun _ => rfl) hev
theorem sound_LEVEL (hev : Spec.step env .LEVEL st = .ok st') :
    StackWF st' ∧ Typing.step .LEVEL (st.map typeOf) = some (.ok (st'.map typeOf)) :=
  sound_numEnv env st st' hw .LEVEL .nat env.level (fun _ => rfl) (fun _ => rfl) hev

theorem sound_TOTAL_VOTING_POWER (hev : Spec.step env .TOTAL_VOTING_POWER st = .ok st') :
    StackWF st' ∧ Typing.step .TOTAL_VOTING_POWER (st.map typeOf) = some (.ok (st'.map typeOf)) :=
  sound_numEnv env st st' hw .TOTAL_VOTING_POWER .nat env.totalVotingPower (fun _ => rfl) (fun _ => rfl) hev
theorem sound_MIN_BLOCK_TIME (hev : Spec.step env .MIN_BLOCK_TIME st = .ok st') :
    StackWF st' ∧ Typing.step .MIN_BLOCK_TIME (st.map typeOf) = some (.ok (st'.map typeOf)) :=
  sound_numEnv env st st' hw .MIN_BLOCK_TIME .nat env.minBlockTime (fun _ => rfl) (fun _ => rfl) hev

theorem sound_SOME (hev : Spec.step env .SOME st = .ok st') :
    StackWF st' ∧ Typing.step .SOME (st.map typeOf) = some (.ok (st'.map typeOf)) := by
  st_top; simp [Spec.step] at hev; subst hev; simp [Typing.step, typeOf, stackWF_cons, hwa, hw]
theorem sound_LEFT (t : Ty) (hev : Spec.step env (.LEFT t) st = .ok st') :
    StackWF st' ∧ Typing.step (.LEFT t) (st.map typeOf) = some (.ok (st'.map typeOf)) := by
  st_top; simp [Spec.step] at hev; subst hev; simp [Typing.step, typeOf, stackWF_cons, hwa, hw]
theorem sound_RIGHT (t : Ty) (hev : Spec.step env (.RIGHT t) st = .ok st') :
    StackWF st' ∧ Typing.step (.RIGHT t) (st.map typeOf) = some (.ok (st'.map typeOf)) := by
  st_top; simp [Spec.step] at hev; subst hev; simp [Typing.step, typeOf, stackWF_cons, hwa, hw]
theorem sound_PAIR (hev : Spec.step env .PAIR st = .ok st') :
    StackWF st' ∧ Typing.step .PAIR (st.map typeOf) = some (.ok (st'.map typeOf)) := by
  st_top
  rcases st with _ | ⟨b, st⟩
  · simp [Spec.step] at hev
  rw [stackWF_cons] at hw
  simp [Spec.step] at hev; subst hev; simp [Typing.step, typeOf, stackWF_cons, hwa, hw.1, hw.2]

theorem sound_UNPAIR (hev : Spec.step env .UNPAIR st = .ok st') :
    StackWF st' ∧ Typing.step .UNPAIR (st.map typeOf) = some (.ok (st'.map typeOf)) := by sound_val1
theorem sound_CAR (hev : Spec.step env .CAR st = .ok st') :
    StackWF st' ∧ Typing.step .CAR (st.map typeOf) = some (.ok (st'.map typeOf)) := by sound_val1
theorem sound_CDR (hev : Spec.step env .CDR st = .ok st') :
    StackWF st' ∧ Typing.step .CDR (st.map typeOf) = some (.ok (st'.map typeOf)) := by sound_val1
theorem sound_SIZE (hev : Spec.step env .SIZE st = .ok st') :
    StackWF st' ∧ Typing.step .SIZE (st.map typeOf) = some (.ok (st'.map typeOf)) := by sound_val1
theorem sound_NEG (hev : Spec.step env .NEG st = .ok st') :
    StackWF st' ∧ Typing.step .NEG (st.map typeOf) = some (.ok (st'.map typeOf)) := by sound_val1
theorem sound_ABS (hev : Spec.step env .ABS st = .ok st') :
    StackWF st' ∧ Typing.step .ABS (st.map typeOf) = some (.ok (st'.map typeOf)) := by sound_val1
theorem sound_INT (hev : Spec.step env .INT st = .ok st') :
    StackWF st' ∧ Typing.step .INT (st.map typeOf) = some (.ok (st'.map typeOf)) := by sound_val1
theorem sound_EQ (hev : Spec.step env .EQ st = .ok st') :
    StackWF st' ∧ Typing.step .EQ (st.map typeOf) = some (.ok (st'.map typeOf)) := by sound_val1
theorem sound_NEQ (hev : Spec.step env .NEQ st = .ok st') :
    StackWF st' ∧ Typing.step .NEQ (st.map typeOf) = some (.ok (st'.map typeOf)) := by sound_val1
theorem sound_LT (hev : Spec.step env .LT st = .ok st') :
    StackWF st' ∧ Typing.step .LT (st.map typeOf) = some (.ok (st'.map typeOf)) := by sound_val1
theorem sound_GT (hev : Spec.step env .GT st = .ok st') :
    StackWF st' ∧ Typing.step .GT (st.map typeOf) = some (.ok (st'.map typeOf)) := by sound_val1
theorem sound_LE (hev : Spec.step env .LE st = .ok st') :
    StackWF st' ∧ Typing.step .LE (st.map typeOf) = some (.ok (st'.map typeOf)) := by sound_val1
theorem sound_GE (hev : Spec.step env .GE st = .ok st') :
    StackWF st' ∧ Typing.step .GE (st.map typeOf) = some (.ok (st'.map typeOf)) := by sound_val1
theorem sound_BLAKE2B (hev : Spec.step env .BLAKE2B st = .ok st') :
    StackWF st' ∧ Typing.step .BLAKE2B (st.map typeOf) = some (.ok (st'.map typeOf)) := by sound_val1
theorem sound_SHA256 (hev : Spec.step env .SHA256 st = .ok st') :
    StackWF st' ∧ Typing.step .SHA256 (st.map typeOf) = some (.ok (st'.map typeOf)) := by sound_val1
theorem sound_SHA512 (hev : Spec.step env .SHA512 st = .ok st') :
    StackWF st' ∧ Typing.step .SHA512 (st.map typeOf) = some (.ok (st'.map typeOf)) := by sound_val1
theorem sound_KECCAK (hev : Spec.step env .KECCAK st = .ok st') :
    StackWF st' ∧ Typing.step .KECCAK (st.map typeOf) = some (.ok (st'.map typeOf)) := by sound_val1
theorem sound_SHA3 (hev : Spec.step env .SHA3 st = .ok st') :
    StackWF st' ∧ Typing.step .SHA3 (st.map typeOf) = some (.ok (st'.map typeOf)) := by sound_val1
theorem sound_RENAME (hev : Spec.step env .RENAME st = .ok st') :
    StackWF st' ∧ Typing.step .RENAME (st.map typeOf) = some (.ok (st'.map typeOf)) := by
  st_top; simp [Spec.step, Spec.stepMore] at hev; subst hev; simp [Typing.step, Typing.stepMore, stackWF_cons, hwa, hw]
theorem sound_CAST (t : Ty) (hev : Spec.step env (.CAST t) st = .ok st') :
    StackWF st' ∧ Typing.step (.CAST t) (st.map typeOf) = some (.ok (st'.map typeOf)) := by
  st_top
  simp only [Spec.step, Spec.stepMore] at hev
  split at hev
  · rename_i ht
    simp at hev; subst hev; simp [Typing.step, Typing.stepMore, stackWF_cons, hwa, hw, ht]
  · simp at hev
theorem sound_NOT (hev : Spec.step env .NOT st = .ok st') :
    StackWF st' ∧ Typing.step .NOT (st.map typeOf) = some (.ok (st'.map typeOf)) := by sound_val1

end
end Interp

namespace Interp
variable [Mode]
open Typing

/-- two operands: expose both, discard impossible top shapes -/
syntax "st_top2" : tactic
set_option hygiene false in
macro_rules
  | `(tactic| st_top2) => `(tactic| (
      rcases st with _ | ⟨a, _ | ⟨b, st⟩⟩
      · simp [Spec.step] at hev
      · first | (simp [Spec.step] at hev; done) | (cases a <;> simp [Spec.step] at hev; done)
      rw [stackWF_cons, stackWF_cons] at hw
      obtain ⟨hwa, hwb, hw⟩ := hw))

section
variable (env : Env) (st st' : List Val) (hw : StackWF st)
include hw

theorem sound_ISNAT (hev : Spec.step env .ISNAT st = .ok st') :
    StackWF st' ∧ Typing.step .ISNAT (st.map typeOf) = some (.ok (st'.map typeOf)) := by
  st_top
  cases a <;> first | (simp [Spec.step] at hev; done) | skip
  rename_i t v
  cases t <;> first | (simp [Spec.step] at hev; done) | skip
  simp [Spec.step] at hev; subst hev
  by_cases h : 0 ≤ v <;> simp [h, Typing.step, typeOf, stackWF_cons, wf_nat, hw]

theorem sound_CONS (hev : Spec.step env .CONS st = .ok st') :
    StackWF st' ∧ Typing.step .CONS (st.map typeOf) = some (.ok (st'.map typeOf)) := by
  st_top2
  cases b <;> first | (simp [Spec.step] at hev; done) | skip
  rename_i t xs
  simp only [Spec.step] at hev
  split at hev
  · rename_i ht
    simp at hev; subst hev
    rw [wf_list] at hwb
    refine ⟨?_, by simp [Typing.step, typeOf, ht]⟩
    rw [stackWF_cons, wf_list, allTy_cons]
    exact ⟨⟨hasTy_iff.mpr ⟨hwa, ht⟩, hwb⟩, hw⟩
  · simp at hev

theorem sound_arith (i : Instr) (sTy tTy : Ty → Ty → Option Ty) (op : Int → Int → Int) (heq : tTy = sTy)
    (hs : ∀ ta x tb y s, Spec.step env i (.num ta x :: .num tb y :: s) =
      match sTy ta tb with
      | some t => (Spec.numOk t (op x y)).bind fun r => .ok (r :: s)
      | none => .stuck)
    (hs' : ∀ a b s, (∀ ta x tb y, ¬ (a = .num ta x ∧ b = .num tb y)) → Spec.step env i (a :: b :: s) = .stuck)
    (hs0 : Spec.step env i [] = .stuck) (hs1 : ∀ a, Spec.step env i [a] = .stuck)
    (ht : ∀ a b s, Typing.step i (a :: b :: s) = (tTy a b).map fun t => .ok (t :: s))
    (hev : Spec.step env i st = .ok st') :
    StackWF st' ∧ Typing.step i (st.map typeOf) = some (.ok (st'.map typeOf)) := by
  rcases st with _ | ⟨a, _ | ⟨b, st⟩⟩
  · rw [hs0] at hev; cases hev
  · rw [hs1] at hev; cases hev
  rw [stackWF_cons, stackWF_cons] at hw
  obtain ⟨hwa, hwb, hw⟩ := hw
  by_cases hnum : ∃ ta x tb y, a = .num ta x ∧ b = .num tb y
  · obtain ⟨ta, x, tb, y, rfl, rfl⟩ := hnum
    rw [hs] at hev
    cases hq : sTy ta tb with
    | none => simp [hq] at hev
    | some t =>
      simp only [hq] at hev
      cases hn : Spec.numOk t (op x y) with
      | stuck => simp [hn] at hev
      | failed _ => simp [hn] at hev
      | rtfail => simp [hn] at hev
      | oof => simp [hn] at hev
      | offguard => simp [hn] at hev
      | ok r =>
        simp [hn] at hev; subst hev
        obtain ⟨h1, h2⟩ := numOk_sound t _ r hn
        simp [ht, heq, typeOf, hq, stackWF_cons, h1, h2, hw]
  · rw [hs' a b st (fun ta x tb y h => hnum ⟨ta, x, tb, y, h.1, h.2⟩)] at hev; cases hev

theorem sound_ADD (hev : Spec.step env .ADD st = .ok st') :
    StackWF st' ∧ Typing.step .ADD (st.map typeOf) = some (.ok (st'.map typeOf)) := by
  refine sound_arith env st st' hw .ADD Spec.addTy Typing.addTy (· + ·) typing_addTy_eq ?_ ?_ rfl (fun a => by cases a <;> rfl) ?_ hev
  · intro ta x tb y s; rfl
  · intro a b s h
    cases a <;> cases b <;> first | rfl | (exfalso; exact h _ _ _ _ ⟨rfl, rfl⟩)
  · intro a b s; simp [Typing.step]

theorem sound_SUB (hev : Spec.step env .SUB st = .ok st') :
    StackWF st' ∧ Typing.step .SUB (st.map typeOf) = some (.ok (st'.map typeOf)) := by
  refine sound_arith env st st' hw .SUB Spec.subTy Typing.subTy (· - ·) typing_subTy_eq ?_ ?_ rfl (fun a => by cases a <;> rfl) ?_ hev
  · intro ta x tb y s; rfl
  · intro a b s h
    cases a <;> cases b <;> first | rfl | (exfalso; exact h _ _ _ _ ⟨rfl, rfl⟩)
  · intro a b s; simp [Typing.step]

theorem sound_MUL (hev : Spec.step env .MUL st = .ok st') :
    StackWF st' ∧ Typing.step .MUL (st.map typeOf) = some (.ok (st'.map typeOf)) := by
  refine sound_arith env st st' hw .MUL Spec.mulTy Typing.mulTy (· * ·) typing_mulTy_eq ?_ ?_ rfl (fun a => by cases a <;> rfl) ?_ hev
  · intro ta x tb y s; rfl
  · intro a b s h
    cases a <;> cases b <;> first | rfl | (exfalso; exact h _ _ _ _ ⟨rfl, rfl⟩)
  · intro a b s; simp [Typing.step]

end
end Interp

-- sets and maps -------------------------------------------------------------------------------------
namespace Interp
variable [Mode]
open Typing

section
variable {κ ν : Type} (lt : κ → κ → Bool)

theorem mem_eraseKey' {x z : κ} : ∀ {l : List κ}, z ∈ _root_.Spec.Coll.eraseKey lt x l → z ∈ l
  | [], h => by simp [_root_.Spec.Coll.eraseKey] at h
  | e :: es, h => by
    simp only [_root_.Spec.Coll.eraseKey] at h
    split at h
    · simp only [List.mem_cons] at h ⊢
      rcases h with h | h
      · exact Or.inl h
      · exact Or.inr (mem_eraseKey' h)
    · split at h
      · exact h
      · exact List.mem_cons_of_mem _ h

theorem mem_insertKey' {x z : κ} : ∀ {l : List κ}, z ∈ _root_.Spec.Coll.insertKey lt x l → z = x ∨ z ∈ l
  | [], h => by simp [_root_.Spec.Coll.insertKey] at h; exact Or.inl h
  | e :: es, h => by
    simp only [_root_.Spec.Coll.insertKey] at h
    split at h
    · simp only [List.mem_cons] at h ⊢
      exact h
    · split at h
      · simp only [List.mem_cons] at h ⊢
        rcases h with h | h
        · exact Or.inr (Or.inl h)
        · rcases mem_insertKey' h with h | h
          · exact Or.inl h
          · exact Or.inr (Or.inr h)
      · exact Or.inr h

theorem mem_eraseKV' {x : κ} {z : κ × ν} : ∀ {m : List (κ × ν)}, z ∈ _root_.Spec.Coll.eraseKV lt x m → z ∈ m
  | [], h => by simp [_root_.Spec.Coll.eraseKV] at h
  | e :: es, h => by
    simp only [_root_.Spec.Coll.eraseKV] at h
    split at h
    · simp only [List.mem_cons] at h ⊢
      rcases h with h | h
      · exact Or.inl h
      · exact Or.inr (mem_eraseKV' h)
    · split at h
      · exact h
      · exact List.mem_cons_of_mem _ h

/-- a binding of the updated map is the new one, an old one, or an old key with the new value -/
theorem mem_insertKV' {x : κ} {y : ν} {z : κ × ν} : ∀ {m : List (κ × ν)}, z ∈ _root_.Spec.Coll.insertKV lt x y m →
    z = (x, y) ∨ z ∈ m ∨ ∃ e ∈ m, z = (e.1, y)
  | [], h => by simp [_root_.Spec.Coll.insertKV] at h; exact Or.inl h
  | e :: es, h => by
    simp only [_root_.Spec.Coll.insertKV] at h
    split at h
    · simp only [List.mem_cons] at h
      rcases h with h | h | h
      · exact Or.inl h
      · exact Or.inr (Or.inl (by simp [h]))
      · exact Or.inr (Or.inl (by simp [h]))
    · split at h
      · simp only [List.mem_cons] at h
        rcases h with h | h
        · exact Or.inr (Or.inl (by simp [h]))
        · rcases mem_insertKV' h with h | h | ⟨e', he', h⟩
          · exact Or.inl h
          · exact Or.inr (Or.inl (List.mem_cons_of_mem _ h))
          · exact Or.inr (Or.inr ⟨e', List.mem_cons_of_mem _ he', h⟩)
      · simp only [List.mem_cons] at h
        rcases h with h | h
        · exact Or.inr (Or.inr ⟨e, by simp, h⟩)
        · exact Or.inr (Or.inl (List.mem_cons_of_mem _ h))

theorem findKV_mem {x : κ} {y : ν} : ∀ {m : List (κ × ν)}, _root_.Spec.Coll.findKV lt x m = some y → ∃ e ∈ m, e.2 = y
  | [], h => by simp [_root_.Spec.Coll.findKV] at h
  | e :: es, h => by
    simp only [_root_.Spec.Coll.findKV] at h
    split at h
    · obtain ⟨e', he', h'⟩ := findKV_mem h
      exact ⟨e', List.mem_cons_of_mem _ he', h'⟩
    · split at h
      · cases h
      · simp only [Option.some.injEq] at h
        exact ⟨e, by simp, h⟩

end

/-- the bindings of a well-typed, well-formed map, as tuples -/
theorem kvs_typed {k v : Ty} {items : List Val} (hw : AllTy items (.pair k v)) :
    ∀ e ∈ Spec.kvs items, (WF e.1 ∧ typeOf e.1 = k) ∧ (WF e.2 ∧ typeOf e.2 = v) := by
  intro e he
  rw [kvs_eq, List.mem_map] at he
  obtain ⟨e', he', rfl⟩ := he
  have := (allTy_iff.mp hw) e' he'
  obtain ⟨a, b, rfl, ha, hb⟩ := hasTy_pair (hasTy_iff.mpr this)
  exact ⟨hasTy_iff.mp ha, hasTy_iff.mp hb⟩

theorem unkvs_typed {k v : Ty} {m : List (Val × Val)}
    (h : ∀ e ∈ m, (WF e.1 ∧ typeOf e.1 = k) ∧ (WF e.2 ∧ typeOf e.2 = v)) : AllTy (Spec.unkvs m) (.pair k v) := by
  rw [allTy_iff]
  intro z hz
  rw [unkvs_eq, List.mem_map] at hz
  obtain ⟨e, he, rfl⟩ := hz
  obtain ⟨⟨a1, a2⟩, ⟨b1, b2⟩⟩ := h e he
  simp [Impl.ofKV, typeOf, a1, a2, b1, b2]

theorem memV_sound (a b r : Val) (hwa : WF a) (hwb : WF b) (h : Spec.memV a b = .ok r) :
    WF r ∧ memTy (typeOf a) (typeOf b) = some (typeOf r) := by
  cases b <;> first | (simp [Spec.memV] at h; done) | skip
  · rename_i k v items
    simp only [Spec.memV] at h
    split at h
    · rename_i hc
      simp only [Bool.and_eq_true] at hc
      simp only [Res.ok.injEq] at h; subst h
      simp [typeOf, memTy, isKey_typeOf hc.2, isKey_simple hc.2]
    · cases h
  · rename_i t xs
    simp only [Spec.memV] at h
    split at h
    · rename_i hc
      simp only [Bool.and_eq_true] at hc
      simp only [Res.ok.injEq] at h; subst h
      simp [typeOf, memTy, isKey_typeOf hc.2, isKey_simple hc.2]
    · cases h

theorem getV_sound (a b r : Val) (hwa : WF a) (hwb : WF b) (h : Spec.getV a b = .ok r) :
    WF r ∧ getTy (typeOf a) (typeOf b) = some (typeOf r) := by
  cases b <;> first | (simp [Spec.getV] at h; done) | skip
  rename_i k v items
  simp only [Spec.getV] at h
  split at h
  · rename_i hc
    simp only [Bool.and_eq_true] at hc
    simp only [Res.ok.injEq] at h; subst h
    rw [wf_map] at hwb
    have hty := kvs_typed hwb
    cases hf : _root_.Spec.Coll.findKV keyLt a (Spec.kvs items) with
    | none => simp [typeOf, getTy, isKey_typeOf hc.2, isKey_simple hc.2]
    | some y =>
      obtain ⟨e, he, rfl⟩ := findKV_mem keyLt hf
      obtain ⟨_, ⟨b1, b2⟩⟩ := hty e he
      simp [typeOf, getTy, isKey_typeOf hc.2, isKey_simple hc.2, b1, b2]
  · cases h

theorem updateV_sound (a b c r : Val) (hwa : WF a) (hwb : WF b) (hwc : WF c) (h : Spec.updateV a b c = .ok r) :
    WF r ∧ updateTy (typeOf a) (typeOf b) (typeOf c) = some (typeOf r) := by
  cases b <;> first | (cases c <;> simp [Spec.updateV] at h; done) | skip
  · -- bool
    rename_i bb
    cases c <;> first | (simp [Spec.updateV] at h; done) | skip
    rename_i t xs
    simp only [Spec.updateV] at h
    split at h
    · rename_i hc
      simp only [Bool.and_eq_true] at hc
      simp only [Res.ok.injEq] at h; subst h
      rw [wf_set, allTy_iff] at hwc
      refine ⟨?_, by simp [typeOf, updateTy, isKey_typeOf hc.2, isKey_simple hc.2]⟩
      rw [wf_set, allTy_iff]
      intro z hz
      cases bb with
      | true =>
        simp only [if_true] at hz
        rcases mem_insertKey' keyLt hz with rfl | hz
        · exact ⟨hwa, isKey_typeOf hc.2⟩
        · exact hwc z hz
      | false =>
        simp only [Bool.false_eq_true, if_false] at hz
        exact hwc z (mem_eraseKey' keyLt hz)
    · cases h
  · -- some y
    rename_i y
    cases c <;> first | (simp [Spec.updateV] at h; done) | skip
    rename_i k v items
    simp only [Spec.updateV] at h
    split at h
    · rename_i hc
      simp only [Bool.and_eq_true, beq_iff_eq] at hc
      simp only [Res.ok.injEq] at h; subst h
      rw [wf_map] at hwc
      have hty := kvs_typed hwc
      have hwy : WF y := (wf_some y).mp hwb
      refine ⟨?_, by simp [typeOf, updateTy, isKey_typeOf hc.1.2, isKey_simple hc.1.2, hc.2]⟩
      rw [wf_map]
      apply unkvs_typed
      intro z hz
      rcases mem_insertKV' keyLt hz with rfl | hz | ⟨e, he, rfl⟩
      · exact ⟨⟨hwa, isKey_typeOf hc.1.2⟩, ⟨hwy, hc.2⟩⟩
      · exact hty z hz
      · exact ⟨(hty e he).1, ⟨hwy, hc.2⟩⟩
    · cases h
  · -- none
    rename_i v'
    cases c <;> first | (simp [Spec.updateV] at h; done) | skip
    rename_i k v items
    simp only [Spec.updateV] at h
    split at h
    · rename_i hc
      simp only [Bool.and_eq_true, beq_iff_eq] at hc
      simp only [Res.ok.injEq] at h; subst h
      rw [wf_map] at hwc
      have hty := kvs_typed hwc
      refine ⟨?_, by simp [typeOf, updateTy, isKey_typeOf hc.1.2, isKey_simple hc.1.2, hc.2]⟩
      rw [wf_map]
      apply unkvs_typed
      intro z hz
      exact hty z (mem_eraseKV' keyLt hz)
    · cases h

/-! ### big maps: the rules on `big_map k v` are the rules on `map k v` -/
theorem wf_big_as_map {k v : Ty} {items : List Val} (h : WF (.bigMap k v items)) : WF (.map k v items) := by
  simpa [WF, HasTy, checkVal, typeOf] using h

theorem wf_map_as_big {k v : Ty} {items : List Val} (h : WF (.map k v items)) : WF (.bigMap k v items) := by
  simpa [WF, HasTy, checkVal, typeOf] using h

theorem typeOf_notBig {b : Val} (hw : WF b) (h : ∀ k v items, b ≠ .bigMap k v items) : ∀ k v, typeOf b ≠ .bigMap k v := by
  intro k v e
  have hc : checkVal Mode.strict b (.bigMap k v) = true := hasTy_iff.mpr ⟨hw, e⟩
  cases b <;> first | (simp [checkVal] at hc; done) | skip
  all_goals first | exact absurd rfl (h _ _ _) | (rename_i t _; cases t <;> simp [checkVal] at hc)

theorem memTyB_notBig (x t : Ty) (h : ∀ k v, t ≠ .bigMap k v) : memTyB x t = memTy x t := by
  cases t <;> first | rfl | exact absurd rfl (h _ _)

theorem getTyB_notBig (x t : Ty) (h : ∀ k v, t ≠ .bigMap k v) : getTyB x t = getTy x t := by
  cases t <;> first | rfl | exact absurd rfl (h _ _)

theorem updateTyB_notBig (x o t : Ty) (h : ∀ k v, t ≠ .bigMap k v) : updateTyB x o t = updateTy x o t := by
  cases t <;> first | (cases o <;> rfl) | exact absurd rfl (h _ _)

theorem memB_sound (a b r : Val) (hwa : WF a) (hwb : WF b) (h : Spec.memB a b = .ok r) :
    WF r ∧ memTyB (typeOf a) (typeOf b) = some (typeOf r) := by
  by_cases hb : ∃ k v items, b = .bigMap k v items
  · obtain ⟨k, v, items, rfl⟩ := hb
    exact memV_sound a (.map k v items) r hwa (wf_big_as_map hwb) h
  · have hn : ∀ k v items, b ≠ .bigMap k v items := fun k v items e => hb ⟨k, v, items, e⟩
    rw [memB_notBig a b hn] at h
    rw [memTyB_notBig _ _ (typeOf_notBig hwb hn)]
    exact memV_sound a b r hwa hwb h

theorem getB_sound (a b r : Val) (hwa : WF a) (hwb : WF b) (h : Spec.getB a b = .ok r) :
    WF r ∧ getTyB (typeOf a) (typeOf b) = some (typeOf r) := by
  by_cases hb : ∃ k v items, b = .bigMap k v items
  · obtain ⟨k, v, items, rfl⟩ := hb
    exact getV_sound a (.map k v items) r hwa (wf_big_as_map hwb) h
  · have hn : ∀ k v items, b ≠ .bigMap k v items := fun k v items e => hb ⟨k, v, items, e⟩
    rw [getB_notBig a b hn] at h
    rw [getTyB_notBig _ _ (typeOf_notBig hwb hn)]
    exact getV_sound a b r hwa hwb h

/-- UPDATE on a big map is UPDATE on the map of its bindings, re-wrapped -/
theorem updateB_big (x o : Val) (k v : Ty) (items : List Val) (r : Val) (h : Spec.updateB x o (.bigMap k v items) = .ok r) :
    ∃ items', r = .bigMap k v items' ∧ Spec.updateV x o (.map k v items) = .ok (.map k v items') := by
  cases o <;> first | (simp [Spec.updateB, Spec.updateV] at h; done) | skip
  all_goals
    simp only [Spec.updateB] at h
    split at h
    · rename_i hc
      simp only [Res.ok.injEq] at h
      exact ⟨_, h.symm, by simp only [Spec.updateV, hc, if_true]⟩
    · cases h

theorem updateB_sound (a b c r : Val) (hwa : WF a) (hwb : WF b) (hwc : WF c) (h : Spec.updateB a b c = .ok r) :
    WF r ∧ updateTyB (typeOf a) (typeOf b) (typeOf c) = some (typeOf r) := by
  by_cases hb : ∃ k v items, c = .bigMap k v items
  · obtain ⟨k, v, items, rfl⟩ := hb
    obtain ⟨items', rfl, hv⟩ := updateB_big a b k v items r h
    obtain ⟨h1, h2⟩ := updateV_sound a b (.map k v items) (.map k v items') hwa hwb (wf_big_as_map hwc) hv
    refine ⟨wf_map_as_big h1, ?_⟩
    simp only [typeOf] at h2 ⊢
    generalize typeOf b = tb at h2 ⊢
    cases tb <;> simp [updateTyB, updateTy] at h2 ⊢
    exact h2
  · have hn : ∀ k v items, c ≠ .bigMap k v items := fun k v items e => hb ⟨k, v, items, e⟩
    rw [updateB_notBig a b c hn] at h
    rw [updateTyB_notBig _ _ _ (typeOf_notBig hwc hn)]
    exact updateV_sound a b c r hwa hwb hwc h

/-- the updated collection has the type of the old one -/
theorem updateB_typeOf {a b c old m' : Val} (hg : Spec.getB a c = .ok old) (hu : Spec.updateB a b c = .ok m') :
    typeOf m' = typeOf c := by
  by_cases hb : ∃ k v items, c = .bigMap k v items
  · obtain ⟨k, v, items, rfl⟩ := hb
    obtain ⟨items', rfl, _⟩ := updateB_big a b k v items m' hu
    rfl
  · have hn : ∀ k v items, c ≠ .bigMap k v items := fun k v items e => hb ⟨k, v, items, e⟩
    rw [getB_notBig a c hn] at hg
    rw [updateB_notBig a b c hn] at hu
    cases c <;> first | (simp [Spec.getV] at hg; done) | skip
    cases b <;> first | (simp [Spec.updateV] at hu; done) | skip
    all_goals
      simp only [Spec.updateV] at hu
      split at hu
      · simp only [Res.ok.injEq] at hu; subst hu; rfl
      · cases hu

end Interp

namespace Interp
variable [Mode]
open Typing

theorem andV_sound (a b r : Val) (hwa : WF a) (hwb : WF b) (h : Spec.andV a b = .ok r) :
    WF r ∧ andTy (typeOf a) (typeOf b) = some (typeOf r) := by
  unfold Spec.andV at h
  split at h
  · simp at h; subst h; simp [typeOf, andTy]
  all_goals first
    | (split at h
       · simp at h; subst h; simp [typeOf, andTy, wf_nat]
       · simp at h)
    | simp at h

theorem orV_sound (a b r : Val) (hwa : WF a) (hwb : WF b) (h : Spec.orV a b = .ok r) :
    WF r ∧ orTy (typeOf a) (typeOf b) = some (typeOf r) := by
  unfold Spec.orV at h
  split at h
  · simp at h; subst h; simp [typeOf, orTy]
  · split at h
    · simp at h; subst h; simp [typeOf, orTy, wf_nat]
    · simp at h
  · simp at h

theorem xorV_sound (a b r : Val) (hwa : WF a) (hwb : WF b) (h : Spec.xorV a b = .ok r) :
    WF r ∧ orTy (typeOf a) (typeOf b) = some (typeOf r) := by
  unfold Spec.xorV at h
  split at h
  · simp at h; subst h; simp [typeOf, orTy]
  · split at h
    · simp at h; subst h; simp [typeOf, orTy, wf_nat]
    · simp at h
  · simp at h

theorem typing_edivTy_eq : Typing.edivTy = Spec.edivTy := by funext a b; cases a <;> cases b <;> rfl

theorem edivV_sound (a b r : Val) (hwa : WF a) (hwb : WF b) (h : Spec.edivV a b = .ok r) :
    WF r ∧ edivResTy (typeOf a) (typeOf b) = some (typeOf r) := by
  unfold Spec.edivV at h
  split at h
  · rename_i ta x tb y
    simp only [edivResTy, typing_edivTy_eq, typeOf]
    cases ht : Spec.edivTy ta tb with
    | none => simp [ht] at h
    | some p =>
      obtain ⟨qt, rt⟩ := p
      simp only [ht] at h ⊢
      split at h
      · simp at h; subst h; simp [typeOf]
      · cases hq : Spec.numOk qt (x / y) with
        | stuck => simp [hq] at h
        | failed _ => simp [hq] at h
        | rtfail => simp [hq] at h
        | oof => simp [hq] at h
        | offguard => simp [hq] at h
        | ok q =>
          cases hq2 : Spec.numOk rt (x % y) with
          | stuck => simp [hq, hq2] at h
          | failed _ => simp [hq, hq2] at h
          | rtfail => simp [hq, hq2] at h
          | oof => simp [hq, hq2] at h
          | offguard => simp [hq, hq2] at h
          | ok r' =>
            simp [hq, hq2] at h; subst h
            obtain ⟨a1, a2⟩ := numOk_sound qt _ q hq
            obtain ⟨b1, b2⟩ := numOk_sound rt _ r' hq2
            simp [typeOf, a1, a2, b1, b2]
  · simp at h

theorem lslV_sound (a b r : Val) (hwa : WF a) (hwb : WF b) (h : Spec.lslV a b = .ok r) :
    WF r ∧ shiftTy (typeOf a) (typeOf b) = some (typeOf r) := by
  unfold Spec.lslV at h
  split at h
  · split at h
    · simp at h
    · split at h
      · obtain ⟨h1, h2⟩ := numOk_sound .nat _ r h
        simp [typeOf, shiftTy, h1, h2]
      · simp at h
  · simp at h

theorem lsrV_sound (a b r : Val) (hwa : WF a) (hwb : WF b) (h : Spec.lsrV a b = .ok r) :
    WF r ∧ shiftTy (typeOf a) (typeOf b) = some (typeOf r) := by
  unfold Spec.lsrV at h
  split at h
  · split at h
    · simp at h
    · split at h
      · obtain ⟨h1, h2⟩ := numOk_sound .nat _ r h
        simp [typeOf, shiftTy, h1, h2]
      · simp at h
  · simp at h

theorem subMutezV_sound (a b r : Val) (hwa : WF a) (hwb : WF b) (h : Spec.subMutezV a b = .ok r) :
    WF r ∧ subMutezTy (typeOf a) (typeOf b) = some (typeOf r) := by
  unfold Spec.subMutezV at h
  split at h
  · split at h
    · simp at h; subst h; simp [typeOf, subMutezTy]
    · rename_i x y _
      cases hq : Spec.numOk .mutez (x - y) with
      | stuck => simp [hq] at h
      | failed _ => simp [hq] at h
      | rtfail => simp [hq] at h
      | oof => simp [hq] at h
      | offguard => simp [hq] at h
      | ok r' =>
        simp [hq] at h; subst h
        obtain ⟨h1, h2⟩ := numOk_sound .mutez _ r' hq
        simp [typeOf, subMutezTy, h1, h2]
  · simp at h

theorem compare_simple (a b : Val) (c : Int) (hwa : WF a) (h : Spec.compare a b = some c) :
    simpleComparable (typeOf a) = true := by
  cases a <;> cases b <;> simp [Spec.compare] at h <;> try (simp [typeOf, simpleComparable]; done)
  rename_i t x t' y
  rcases wf_num_ty hwa with rfl | rfl | rfl | rfl <;> simp [typeOf, simpleComparable]

section
variable (env : Env) (st st' : List Val) (hw : StackWF st)
include hw

theorem sound_COMPARE (hev : Spec.step env .COMPARE st = .ok st') :
    StackWF st' ∧ Typing.step .COMPARE (st.map typeOf) = some (.ok (st'.map typeOf)) := by
  rcases st with _ | ⟨a, _ | ⟨b, st⟩⟩
  · simp [Spec.step] at hev
  · simp [Spec.step] at hev
  rw [stackWF_cons, stackWF_cons] at hw
  obtain ⟨hwa, hwb, hw⟩ := hw
  simp only [Spec.step] at hev
  split at hev
  · rename_i ht
    cases hc : Spec.compare a b with
    | none => simp [hc] at hev
    | some c =>
      simp [hc] at hev; subst hev
      have hsc := compare_simple a b c hwa hc
      refine ⟨by simp [stackWF_cons, hw], ?_⟩
      simp only [List.map_cons, Typing.step, typeOf]
      rw [ht] at hsc
      simp [ht, hsc]
  · simp at hev

/-- instructions of the form `f a b : S → r : S` with a type function `tf` -/
theorem sound_binop (i : Instr) (f : Val → Val → Res Val) (tf : Ty → Ty → Option Ty)
    (hs : ∀ a b st, Spec.step env i (a :: b :: st) = (f a b).bind fun r => .ok (r :: st))
    (hs0 : Spec.step env i [] = .stuck) (hs1 : ∀ a, Spec.step env i [a] = .stuck)
    (ht : ∀ a b s, Typing.step i (a :: b :: s) = (tf a b).map fun t => .ok (t :: s))
    (hf : ∀ a b r, WF a → WF b → f a b = .ok r → WF r ∧ tf (typeOf a) (typeOf b) = some (typeOf r))
    (hev : Spec.step env i st = .ok st') :
    StackWF st' ∧ Typing.step i (st.map typeOf) = some (.ok (st'.map typeOf)) := by
  rcases st with _ | ⟨a, _ | ⟨b, st⟩⟩
  · rw [hs0] at hev; cases hev
  · rw [hs1] at hev; cases hev
  rw [stackWF_cons, stackWF_cons] at hw
  rw [hs] at hev
  cases hq : f a b with
  | stuck => simp [hq] at hev
  | failed _ => simp [hq] at hev
  | rtfail => simp [hq] at hev
  | oof => simp [hq] at hev
  | offguard => simp [hq] at hev
  | ok r =>
    simp only [hq, rbind_ok, Res.ok.injEq] at hev
    subst hev
    obtain ⟨h1, h2⟩ := hf a b r hw.1 hw.2.1 hq
    simp [ht, h2, stackWF_cons, h1, hw.2.2]

theorem sound_AND (hev : Spec.step env .AND st = .ok st') :
    StackWF st' ∧ Typing.step .AND (st.map typeOf) = some (.ok (st'.map typeOf)) :=
  sound_binop env st st' hw .AND Spec.andV andTy (fun _ _ _ => rfl) rfl (fun a => by cases a <;> rfl) (fun _ _ _ => rfl)
    andV_sound hev
theorem sound_OR (hev : Spec.step env .OR st = .ok st') :
    StackWF st' ∧ Typing.step .OR (st.map typeOf) = some (.ok (st'.map typeOf)) :=
  sound_binop env st st' hw .OR Spec.orV orTy (fun _ _ _ => rfl) rfl (fun a => by cases a <;> rfl) (fun _ _ _ => rfl)
    orV_sound hev
theorem sound_XOR (hev : Spec.step env .XOR st = .ok st') :
    StackWF st' ∧ Typing.step .XOR (st.map typeOf) = some (.ok (st'.map typeOf)) :=
  sound_binop env st st' hw .XOR Spec.xorV orTy (fun _ _ _ => rfl) rfl (fun a => by cases a <;> rfl) (fun _ _ _ => rfl)
    xorV_sound hev
theorem sound_EDIV (hev : Spec.step env .EDIV st = .ok st') :
    StackWF st' ∧ Typing.step .EDIV (st.map typeOf) = some (.ok (st'.map typeOf)) :=
  sound_binop env st st' hw .EDIV Spec.edivV edivResTy (fun _ _ _ => rfl) rfl (fun a => by cases a <;> rfl) (fun _ _ _ => rfl)
    edivV_sound hev
theorem sound_LSL (hev : Spec.step env .LSL st = .ok st') :
    StackWF st' ∧ Typing.step .LSL (st.map typeOf) = some (.ok (st'.map typeOf)) :=
  sound_binop env st st' hw .LSL Spec.lslV shiftTy (fun _ _ _ => rfl) rfl (fun a => by cases a <;> rfl) (fun _ _ _ => rfl)
    lslV_sound hev
theorem sound_LSR (hev : Spec.step env .LSR st = .ok st') :
    StackWF st' ∧ Typing.step .LSR (st.map typeOf) = some (.ok (st'.map typeOf)) :=
  sound_binop env st st' hw .LSR Spec.lsrV shiftTy (fun _ _ _ => rfl) rfl (fun a => by cases a <;> rfl) (fun _ _ _ => rfl)
    lsrV_sound hev
theorem sound_SUB_MUTEZ (hev : Spec.step env .SUB_MUTEZ st = .ok st') :
    StackWF st' ∧ Typing.step .SUB_MUTEZ (st.map typeOf) = some (.ok (st'.map typeOf)) :=
  sound_binop env st st' hw .SUB_MUTEZ Spec.subMutezV subMutezTy (fun _ _ _ => rfl) rfl (fun a => by cases a <;> rfl)
    (fun _ _ _ => rfl) subMutezV_sound hev

theorem sound_MEM (hev : Spec.step env .MEM st = .ok st') :
    StackWF st' ∧ Typing.step .MEM (st.map typeOf) = some (.ok (st'.map typeOf)) :=
  sound_binop env st st' hw .MEM Spec.memB memTyB (fun _ _ _ => rfl) rfl (fun a => by cases a <;> rfl) (fun _ _ _ => rfl)
    memB_sound hev
theorem sound_GET (hev : Spec.step env .GET st = .ok st') :
    StackWF st' ∧ Typing.step .GET (st.map typeOf) = some (.ok (st'.map typeOf)) :=
  sound_binop env st st' hw .GET Spec.getB getTyB (fun _ _ _ => rfl) rfl (fun a => by cases a <;> rfl) (fun _ _ _ => rfl)
    getB_sound hev

theorem sound_UPDATE (hev : Spec.step env .UPDATE st = .ok st') :
    StackWF st' ∧ Typing.step .UPDATE (st.map typeOf) = some (.ok (st'.map typeOf)) := by
  rcases st with _ | ⟨a, _ | ⟨b, _ | ⟨c, st⟩⟩⟩
  · simp [Spec.step] at hev
  · cases a <;> simp [Spec.step] at hev
  · cases a <;> simp [Spec.step] at hev
  rw [stackWF_cons, stackWF_cons, stackWF_cons] at hw
  have hs : Spec.step env .UPDATE (a :: b :: c :: st) = (Spec.updateB a b c).bind fun r => .ok (r :: st) := rfl
  rw [hs] at hev
  cases hq : Spec.updateB a b c with
  | stuck => simp [hq] at hev
  | failed _ => simp [hq] at hev
  | rtfail => simp [hq] at hev
  | oof => simp [hq] at hev
  | offguard => simp [hq] at hev
  | ok r =>
    simp only [hq, rbind_ok, Res.ok.injEq] at hev
    subst hev
    obtain ⟨h1, h2⟩ := updateB_sound a b c r hw.1 hw.2.1 hw.2.2.1 hq
    have ht : Typing.step .UPDATE (typeOf a :: typeOf b :: typeOf c :: st.map typeOf)
        = (updateTyB (typeOf a) (typeOf b) (typeOf c)).map fun t => .ok (t :: st.map typeOf) := rfl
    simp [ht, h2, stackWF_cons, h1, hw.2.2.2]

theorem sound_GET_AND_UPDATE (hev : Spec.step env .GET_AND_UPDATE st = .ok st') :
    StackWF st' ∧ Typing.step .GET_AND_UPDATE (st.map typeOf) = some (.ok (st'.map typeOf)) := by
  rcases st with _ | ⟨a, _ | ⟨b, _ | ⟨c, st⟩⟩⟩
  · simp [Spec.step] at hev
  · cases a <;> simp [Spec.step] at hev
  · cases a <;> simp [Spec.step] at hev
  rw [stackWF_cons, stackWF_cons, stackWF_cons] at hw
  have hs : Spec.step env .GET_AND_UPDATE (a :: b :: c :: st)
      = (Spec.getAndUpdateB a b c).bind fun r => .ok (r.1 :: r.2 :: st) := rfl
  rw [hs] at hev
  unfold Spec.getAndUpdateB at hev
  cases hg : Spec.getB a c with
  | stuck => simp [hg] at hev
  | failed _ => simp [hg] at hev
  | rtfail => simp [hg] at hev
  | oof => simp [hg] at hev
  | offguard => simp [hg] at hev
  | ok old =>
    cases hu : Spec.updateB a b c with
    | stuck => simp [hg, hu] at hev
    | failed _ => simp [hg, hu] at hev
    | rtfail => simp [hg, hu] at hev
    | oof => simp [hg, hu] at hev
    | offguard => simp [hg, hu] at hev
    | ok m' =>
      simp only [hg, hu, rbind_ok, Res.ok.injEq] at hev
      subst hev
      obtain ⟨g1, g2⟩ := getB_sound a c old hw.1 hw.2.2.1 hg
      obtain ⟨u1, u2⟩ := updateB_sound a b c m' hw.1 hw.2.1 hw.2.2.1 hu
      have ht : Typing.step .GET_AND_UPDATE (typeOf a :: typeOf b :: typeOf c :: st.map typeOf)
          = (updateTyB (typeOf a) (typeOf b) (typeOf c)).bind fun t =>
              (getTyB (typeOf a) t).map fun o => .ok (o :: t :: st.map typeOf) := rfl
      -- the updated map has the type of the old one
      have hsame : typeOf m' = typeOf c := updateB_typeOf hg hu
      refine ⟨by simp [stackWF_cons, g1, u1, hw.2.2.2], ?_⟩
      simp only [List.map_cons, ht, u2, Option.bind_some, hsame, g2, Option.map_some]

theorem sound_EMPTY_SET (t : Ty) (hev : Spec.step env (.EMPTY_SET t) st = .ok st') :
    StackWF st' ∧ Typing.step (.EMPTY_SET t) (st.map typeOf) = some (.ok (st'.map typeOf)) := by
  simp only [Spec.step] at hev
  split at hev
  · rename_i hc
    simp only [Res.ok.injEq] at hev; subst hev
    simp [Typing.step, hc, typeOf, stackWF_cons, hw, wf_set, allTy_nil]
  · cases hev

theorem sound_CONCAT (hev : Spec.step env .CONCAT st = .ok st') :
    StackWF st' ∧ Typing.step .CONCAT (st.map typeOf) = some (.ok (st'.map typeOf)) := by
  st_top
  cases a <;> first | (simp [Spec.step] at hev; done) | skip
  · -- str
    rcases st with _ | ⟨b, st⟩
    · simp [Spec.step] at hev
    rw [stackWF_cons] at hw
    cases b <;> first | (simp [Spec.step] at hev; done) | skip
    simp [Spec.step] at hev; subst hev; simp [Typing.step, typeOf, stackWF_cons, hw.2]
  · -- bytes
    rcases st with _ | ⟨b, st⟩
    · simp [Spec.step] at hev
    rw [stackWF_cons] at hw
    cases b <;> first | (simp [Spec.step] at hev; done) | skip
    simp [Spec.step] at hev; subst hev; simp [Typing.step, typeOf, stackWF_cons, hw.2]
  · -- list
    rename_i t xs
    cases t <;> first | (simp [Spec.step] at hev; done) | skip
    · simp only [Spec.step] at hev
      cases hq : Spec.strs xs with
      | none => simp [hq] at hev
      | some r => simp [hq] at hev; subst hev; simp [Typing.step, typeOf, stackWF_cons, hw]
    · simp only [Spec.step] at hev
      cases hq : Spec.bytess xs with
      | none => simp [hq] at hev
      | some r => simp [hq] at hev; subst hev; simp [Typing.step, typeOf, stackWF_cons, hw]

theorem sound_SLICE (hev : Spec.step env .SLICE st = .ok st') :
    StackWF st' ∧ Typing.step .SLICE (st.map typeOf) = some (.ok (st'.map typeOf)) := by
  st_top
  cases a <;> first | (simp [Spec.step] at hev; done) | skip
  rename_i ta x
  cases ta <;> first | (simp [Spec.step] at hev; done) | skip
  rcases st with _ | ⟨b, st⟩
  · simp [Spec.step] at hev
  rw [stackWF_cons] at hw
  cases b <;> first | (simp [Spec.step] at hev; done) | skip
  rename_i tb y
  cases tb <;> first | (simp [Spec.step] at hev; done) | skip
  rcases hw with ⟨_, hw⟩
  rcases st with _ | ⟨c, st⟩
  · simp [Spec.step] at hev
  rw [stackWF_cons] at hw
  cases c <;> first | (simp [Spec.step] at hev; done) | skip
  all_goals
    simp only [Spec.step, Res.ok.injEq] at hev
    subst hev
    refine ⟨?_, ?_⟩
    · rw [stackWF_cons]; refine ⟨?_, hw.2⟩; split <;> simp
    · simp only [Typing.step, List.map_cons, typeOf]
      split <;> simp [typeOf]

theorem sound_APPLY (hev : Spec.step env .APPLY st = .ok st') :
    StackWF st' ∧ Typing.step .APPLY (st.map typeOf) = some (.ok (st'.map typeOf)) := by
  rcases st with _ | ⟨a, _ | ⟨b, st⟩⟩
  · simp [Spec.step] at hev
  · simp [Spec.step] at hev
  rw [stackWF_cons, stackWF_cons] at hw
  obtain ⟨hwa, hwb, hw⟩ := hw
  cases b <;> first | (simp [Spec.step] at hev; done) | skip
  rename_i tp tb body
  cases tp <;> first | (simp [Spec.step] at hev; done) | skip
  rename_i ta tr
  simp only [Spec.step] at hev
  split at hev
  · rename_i hta
    obtain ⟨hta, hpu⟩ := hta
    simp at hev; subst hev
    rw [wf_lam] at hwb
    refine ⟨?_, by simp [Typing.step, typeOf, hta, hpu]⟩
    rw [stackWF_cons]
    refine ⟨?_, hw⟩
    rw [wf_lam]
    have hx : checkVal Mode.strict a ta = true := hasTy_iff.mpr ⟨hwa, hta⟩
    unfold BodyTy at hwb ⊢
    rcases hwb with hb | hb
    · left; simp [typeInstr, typeSeq, hx, hpu, Typing.step, hb]
    · right; simp [typeInstr, typeSeq, hx, hpu, Typing.step, hb]
  · simp at hev

end
end Interp

namespace Interp
variable [Mode]
open Typing

theorem pairN_sound : ∀ (n : Nat) (st : List Val) (r : Val) (st' : List Val), StackWF st →
    Spec.pairN n st = some (r, st') →
    WF r ∧ StackWF st' ∧ pairNTy n (st.map typeOf) = some (typeOf r, st'.map typeOf)
  | 0, st, r, st', _, h => by simp [Spec.pairN] at h
  | 1, st, r, st', _, h => by simp [Spec.pairN] at h
  | 2, st, r, st', hw, h => by
    rcases st with _ | ⟨a, _ | ⟨b, st⟩⟩ <;> simp [Spec.pairN] at h
    obtain ⟨rfl, rfl⟩ := h
    rw [stackWF_cons, stackWF_cons] at hw
    simp [pairNTy, typeOf, hw.1, hw.2.1, hw.2.2]
  | n + 3, st, r, st', hw, h => by
    rcases st with _ | ⟨a, st⟩
    · simp [Spec.pairN] at h
    rw [stackWF_cons] at hw
    simp only [Spec.pairN] at h
    cases hq : Spec.pairN (n + 2) st with
    | none => simp [hq] at h
    | some p =>
      obtain ⟨r', st''⟩ := p
      simp only [hq, Option.map_some, Option.some.injEq, Prod.mk.injEq] at h
      obtain ⟨rfl, rfl⟩ := h
      obtain ⟨h1, h2, h3⟩ := pairN_sound (n + 2) st r' st'' hw.2 hq
      simp [pairNTy, h3, typeOf, hw.1, h1, h2]

theorem unpairN_sound : ∀ (n : Nat) (v : Val) (xs : List Val), WF v → Spec.unpairN n v = some xs →
    StackWF xs ∧ unpairNTy n (typeOf v) = some (xs.map typeOf)
  | 0, v, xs, _, h => by cases v <;> simp [Spec.unpairN] at h
  | 1, v, xs, _, h => by cases v <;> simp [Spec.unpairN] at h
  | 2, v, xs, hw, h => by
    cases v <;> first | (simp [Spec.unpairN] at h; done) | skip
    rename_i a b
    simp only [Spec.unpairN, Option.some.injEq] at h
    subst h
    rw [wf_pair] at hw
    simp [unpairNTy, typeOf, stackWF_cons, hw.1, hw.2, stackWF_nil]
  | n + 3, v, xs, hw, h => by
    cases v <;> first | (simp [Spec.unpairN] at h; done) | skip
    rename_i a b
    rw [wf_pair] at hw
    simp only [Spec.unpairN] at h
    cases hq : Spec.unpairN (n + 2) b with
    | none => simp [hq] at h
    | some xs' =>
      simp only [hq, Option.map_some, Option.some.injEq] at h
      subst h
      obtain ⟨h1, h2⟩ := unpairN_sound (n + 2) b xs' hw.2 hq
      simp [unpairNTy, typeOf, h2, stackWF_cons, hw.1, h1]

theorem getN_sound : ∀ (n : Nat) (v r : Val), WF v → Spec.getN n v = some r →
    WF r ∧ getNTy n (typeOf v) = some (typeOf r)
  | 0, v, r, hw, h => by
    simp only [Spec.getN, Option.some.injEq] at h
    subst h
    exact ⟨hw, by simp [getNTy]⟩
  | 1, v, r, hw, h => by
    cases v <;> first | (simp [Spec.getN] at h; done) | skip
    simp only [Spec.getN, Option.some.injEq] at h
    subst h
    rw [wf_pair] at hw
    exact ⟨hw.1, by simp [getNTy, typeOf]⟩
  | n + 2, v, r, hw, h => by
    cases v <;> first | (simp [Spec.getN] at h; done) | skip
    rename_i a b
    rw [wf_pair] at hw
    simp only [Spec.getN] at h
    obtain ⟨h1, h2⟩ := getN_sound n b r hw.2 h
    exact ⟨h1, by simp [getNTy, typeOf, h2]⟩

theorem updateN_sound : ∀ (n : Nat) (e v r : Val), WF e → WF v → Spec.updateN n e v = some r →
    WF r ∧ updateNTy n (typeOf e) (typeOf v) = some (typeOf r)
  | 0, e, v, r, hwe, _, h => by
    simp only [Spec.updateN, Option.some.injEq] at h
    subst h
    exact ⟨hwe, by simp [updateNTy]⟩
  | 1, e, v, r, hwe, hw, h => by
    cases v <;> first | (simp [Spec.updateN] at h; done) | skip
    simp only [Spec.updateN, Option.some.injEq] at h
    subst h
    rw [wf_pair] at hw
    exact ⟨(wf_pair _ _).mpr ⟨hwe, hw.2⟩, by simp [updateNTy, typeOf]⟩
  | n + 2, e, v, r, hwe, hw, h => by
    cases v <;> first | (simp [Spec.updateN] at h; done) | skip
    rename_i a b
    rw [wf_pair] at hw
    simp only [Spec.updateN] at h
    cases hq : Spec.updateN n e b with
    | none => simp [hq] at h
    | some r' =>
      simp only [hq, Option.map_some, Option.some.injEq] at h
      subst h
      obtain ⟨h1, h2⟩ := updateN_sound n e b r' hwe hw.2 hq
      exact ⟨(wf_pair _ _).mpr ⟨hw.1, h1⟩, by simp [updateNTy, typeOf, h2]⟩

section
variable (env : Env) (st st' : List Val) (hw : StackWF st)
include hw

theorem sound_PAIRN (n : Nat) (hev : Spec.step env (.PAIRN n) st = .ok st') :
    StackWF st' ∧ Typing.step (.PAIRN n) (st.map typeOf) = some (.ok (st'.map typeOf)) := by
  simp only [Spec.step] at hev
  cases hq : Spec.pairN n st with
  | none => simp [hq] at hev
  | some p =>
    obtain ⟨r, st''⟩ := p
    simp only [hq, Res.ok.injEq] at hev
    subst hev
    obtain ⟨h1, h2, h3⟩ := pairN_sound n st r st'' hw hq
    simp [Typing.step, h3, stackWF_cons, h1, h2]

theorem sound_UNPAIRN (n : Nat) (hev : Spec.step env (.UNPAIRN n) st = .ok st') :
    StackWF st' ∧ Typing.step (.UNPAIRN n) (st.map typeOf) = some (.ok (st'.map typeOf)) := by
  st_top
  simp only [Spec.step] at hev
  cases hq : Spec.unpairN n a with
  | none => simp [hq] at hev
  | some xs =>
    simp only [hq, Res.ok.injEq] at hev
    subst hev
    obtain ⟨h1, h2⟩ := unpairN_sound n a xs hwa hq
    simp [Typing.step, h2, stackWF_append, h1, hw]

theorem sound_GETN (n : Nat) (hev : Spec.step env (.GETN n) st = .ok st') :
    StackWF st' ∧ Typing.step (.GETN n) (st.map typeOf) = some (.ok (st'.map typeOf)) := by
  st_top
  simp only [Spec.step] at hev
  cases hq : Spec.getN n a with
  | none => simp [hq] at hev
  | some r =>
    simp only [hq, Res.ok.injEq] at hev
    subst hev
    obtain ⟨h1, h2⟩ := getN_sound n a r hwa hq
    simp [Typing.step, h2, stackWF_cons, h1, hw]

theorem sound_UPDATEN (n : Nat) (hev : Spec.step env (.UPDATEN n) st = .ok st') :
    StackWF st' ∧ Typing.step (.UPDATEN n) (st.map typeOf) = some (.ok (st'.map typeOf)) := by
  rcases st with _ | ⟨e, _ | ⟨v, st⟩⟩
  · simp [Spec.step] at hev
  · simp [Spec.step] at hev
  rw [stackWF_cons, stackWF_cons] at hw
  simp only [Spec.step] at hev
  cases hq : Spec.updateN n e v with
  | none => simp [hq] at hev
  | some r =>
    simp only [hq, Res.ok.injEq] at hev
    subst hev
    obtain ⟨h1, h2⟩ := updateN_sound n e v r hw.1 hw.2.1 hq
    simp [Typing.step, h2, stackWF_cons, h1, hw.2.2]

end
end Interp

namespace Interp
variable [Mode]
open Typing

/-! ### extension 2: the rules `i / a : S ⇒ r : S` -/
@[simp] theorem wf_keyHash (s : List Nat) : WF (.atom .keyHash s) := by simp [WF, HasTy, checkVal, typeOf]
@[simp] theorem wf_key (s : List Nat) : WF (.atom .key s) := by simp [WF, HasTy, checkVal, typeOf]

/-- a result of a unary rule of extension 2 is a well-formed value of the type the typing rule assigns -/
theorem wf_contract (t : Ty) (s : List Nat) : WF (.contract t s) := by simp [WF, HasTy, checkVal, typeOf]
theorem wf_opDelegate (s : List Nat) (d : Option (List Nat)) : WF (.opDelegate s d) := by simp [WF, HasTy, checkVal, typeOf]
theorem wf_opEmit (s tag : List Nat) (t : Ty) (p : Val) : WF (.opEmit s tag t p) ↔ HasTy p t := by
  simp [WF, HasTy, checkVal, typeOf]
theorem wf_opTransfer (s d e : List Nat) (m : Int) (p : Val) (t : Ty) : WF (.opTransfer s d e m p t) ↔ HasTy p t := by
  simp [WF, HasTy, checkVal, typeOf]

theorem unV_sound (env : Env) (i : Instr) (a r : Val) (hwa : WF a) (h : Spec.unV env i a = .ok r) :
    WF r ∧ unTy i (typeOf a) = some (typeOf r) := by
  cases i <;> first | (simp [Spec.unV] at h; done) | skip
  · -- NAT
    cases a <;> simp [Spec.unV, Spec.natV] at h
    subst h; simp [unTy, natTy, typeOf, wf_nat]
  · -- BYTES
    simp only [Spec.unV] at h
    unfold Spec.bytesV at h
    split at h
    · split at h
      · simp at h; subst h; simp [unTy, bytesTy, typeOf]
      · simp at h
    · simp at h; subst h; simp [unTy, bytesTy, typeOf]
    · simp at h
  · -- VOTING_POWER
    simp only [Spec.unV] at h
    unfold Spec.votingPowerV at h
    split at h
    · obtain ⟨h1, h2⟩ := numOk_sound _ _ r h
      simp [unTy, votingPowerTy, typeOf, h1, h2]
    · simp at h
  · -- HASH_KEY
    simp only [Spec.unV] at h
    unfold Spec.hashKeyV at h
    split at h
    · simp at h; subst h; simp [unTy, hashKeyTy, typeOf]
    · simp at h
  · -- ADDRESS
    simp only [Spec.unV] at h
    unfold Spec.addressV at h
    split at h
    · simp at h; subst h; simp [unTy, addressTy, typeOf]
    · simp at h
  · -- IMPLICIT_ACCOUNT
    simp only [Spec.unV] at h
    unfold Spec.implicitAccountV at h
    split at h
    · simp at h; subst h; simp [unTy, implicitAccountTy, typeOf, wf_contract]
    · simp at h
  · -- CONTRACT
    simp only [Spec.unV] at h
    unfold Spec.contractV at h
    split at h
    · split at h
      · simp at h; subst h; simp [unTy, contractTy, typeOf]
      · split at h
        · simp at h; subst h; split <;> simp [unTy, contractTy, typeOf, wf_contract]
        · simp at h; subst h; simp [unTy, contractTy, typeOf, wf_contract]
    · simp at h
  · -- SET_DELEGATE
    simp only [Spec.unV] at h
    unfold Spec.setDelegateV at h
    split at h
    · simp at h; subst h; simp [unTy, setDelegateTy, typeOf, wf_opDelegate]
    · simp at h; subst h; simp [unTy, setDelegateTy, typeOf, wf_opDelegate]
    · simp at h
  · -- EMIT
    rename_i tag t
    simp only [Spec.unV, Spec.emitV] at h
    split at h
    · rename_i ht
      simp at h; subst h
      refine ⟨?_, by simp [unTy, emitTy, typeOf, ht]⟩
      rw [wf_opEmit]; exact hasTy_iff.mpr ⟨hwa, ht⟩
    · simp at h
  · -- PACK
    simp only [Spec.unV, Spec.packV] at h
    split at h
    · simp at h
    · rename_i hp
      simp only [Bool.not_eq_true', Bool.not_eq_false] at hp
      split at h
      · simp at h
      · split at h
        · simp at h; subst h; simp [unTy, packTy, hp, typeOf]
        · simp at h
  · -- UNPACK
    rename_i t
    simp only [Spec.unV] at h
    unfold Spec.unpackV at h
    split at h
    · rename_i b
      split at h
      · simp at h
      · rename_i hu
        simp only [Bool.not_eq_true', Bool.not_eq_false] at hu
        have hnone : WF (.none t) ∧ unTy (.UNPACK t) (typeOf (.bytes b)) = some (typeOf (.none t)) := by
          simp [WF, HasTy, checkVal, typeOf, unTy, unpackTy, hu]
        split at h
        · split at h
          · rename_i v hv
            simp at h; subst h
            obtain ⟨d, _, hd⟩ := Option.bind_eq_some_iff.mp hv
            have hc := (readVal_wf env.readTimestamp Mode.strict t hu d v hd).1
            have hty : typeOf v = t := (hasTy_iff.mp hc).2
            refine ⟨?_, by simp [unTy, unpackTy, hu, typeOf, hty]⟩
            show HasTy (.some v) (typeOf (.some v))
            simp only [typeOf, HasTy, checkVal, hty]; exact hc
          · simp at h; subst h; exact hnone
        · simp at h; subst h; exact hnone
    · simp at h

section
variable (env : Env) (st st' : List Val) (hw : StackWF st)
include hw

/-- instructions of the form `f a : S → r : S` with a type function `tf` -/
theorem sound_unop (i : Instr) (f : Val → Res Val) (tf : Ty → Option Ty)
    (hs : ∀ a st, Spec.step env i (a :: st) = (f a).bind fun r => .ok (r :: st))
    (hs0 : Spec.step env i [] = .stuck)
    (ht : ∀ a s, Typing.step i (a :: s) = (tf a).map fun t => .ok (t :: s))
    (hf : ∀ a r, WF a → f a = .ok r → WF r ∧ tf (typeOf a) = some (typeOf r))
    (hev : Spec.step env i st = .ok st') :
    StackWF st' ∧ Typing.step i (st.map typeOf) = some (.ok (st'.map typeOf)) := by
  rcases st with _ | ⟨a, st⟩
  · rw [hs0] at hev; cases hev
  rw [stackWF_cons] at hw
  rw [hs] at hev
  cases hq : f a with
  | stuck => simp [hq] at hev
  | failed _ => simp [hq] at hev
  | rtfail => simp [hq] at hev
  | oof => simp [hq] at hev
  | offguard => simp [hq] at hev
  | ok r =>
    simp only [hq, rbind_ok, Res.ok.injEq] at hev
    subst hev
    obtain ⟨h1, h2⟩ := hf a r hw.1 hq
    simp [ht, h2, stackWF_cons, h1, hw.2]

end

theorem sound_TRANSFER_TOKENS (env : Env) (st st' : List Val) (hw : StackWF st)
    (hev : Spec.step env .TRANSFER_TOKENS st = .ok st') :
    StackWF st' ∧ Typing.step .TRANSFER_TOKENS (st.map typeOf) = some (.ok (st'.map typeOf)) := by
  rcases st with _ | ⟨a, _ | ⟨b, _ | ⟨c, st⟩⟩⟩
  · simp [Spec.step] at hev
  · simp [Spec.step] at hev
  · simp [Spec.step] at hev
  rw [stackWF_cons, stackWF_cons, stackWF_cons] at hw
  have hs : Spec.step env .TRANSFER_TOKENS (a :: b :: c :: st)
      = (Spec.transferTokensV env a b c).bind fun r => .ok (r :: st) := rfl
  rw [hs] at hev
  unfold Spec.transferTokensV at hev
  split at hev
  · rename_i p m t s
    split at hev
    · rename_i ht
      simp at hev; subst hev
      refine ⟨?_, by simp [Typing.step, transferTokensTy, typeOf, ht]⟩
      rw [stackWF_cons, wf_opTransfer]
      exact ⟨hasTy_iff.mpr ⟨hw.1, ht⟩, hw.2.2.2⟩
    · simp at hev
  · simp at hev

theorem sound_CHECK_SIGNATURE (env : Env) (st st' : List Val) (hw : StackWF st)
    (hev : Spec.step env .CHECK_SIGNATURE st = .ok st') :
    StackWF st' ∧ Typing.step .CHECK_SIGNATURE (st.map typeOf) = some (.ok (st'.map typeOf)) := by
  rcases st with _ | ⟨a, _ | ⟨b, _ | ⟨c, st⟩⟩⟩
  · simp [Spec.step] at hev
  · simp [Spec.step] at hev
  · simp [Spec.step] at hev
  rw [stackWF_cons, stackWF_cons, stackWF_cons] at hw
  have hs : Spec.step env .CHECK_SIGNATURE (a :: b :: c :: st)
      = (Spec.checkSignatureV env a b c).bind fun r => .ok (r :: st) := rfl
  rw [hs] at hev
  unfold Spec.checkSignatureV at hev
  split at hev
  · simp at hev; subst hev
    refine ⟨?_, by simp [Typing.step, checkSignatureTy, typeOf]⟩
    rw [stackWF_cons]
    exact ⟨by simp [WF, HasTy, checkVal, typeOf], hw.2.2.2⟩
  · simp at hev

/-- PUSH and LAMBDA need the static check of their literal; every other rule without sub-programs is sound as is -/
def isLiteral : Instr → Bool
  | .PUSH _ _ | .LAMBDA _ _ _ => true
  | _ => false

theorem step_sound (env : Env) (i : Instr) (st st' : List Val) (hw : StackWF st) (hl : isLiteral i = false)
    (hev : Spec.step env i st = .ok st') :
    StackWF st' ∧ Typing.step i (st.map typeOf) = some (.ok (st'.map typeOf)) := by
  cases i
  case PUSH | LAMBDA => all_goals simp [isLiteral] at hl
  case seq | DIP | DIPN | IF | IF_NONE | IF_LEFT | IF_CONS | LOOP | LOOP_LEFT | ITER | MAP | EXEC =>
    all_goals (exfalso; revert hev; cases st <;> simp [Spec.step])
  case FAILWITH => exfalso; revert hev; cases st <;> simp [Spec.step]
  case DROP => exact sound_DROP env st st' hw hev
  case DROPN n => exact sound_DROPN env st st' hw n hev
  case DUP => exact sound_DUP env st st' hw hev
  case DUPN n => exact sound_DUPN env st st' hw n hev
  case SWAP => exact sound_SWAP env st st' hw hev
  case DIG n => exact sound_DIG env st st' hw n hev
  case DUG n => exact sound_DUG env st st' hw n hev
  case APPLY => exact sound_APPLY env st st' hw hev
  case UNIT => exact sound_UNIT env st st' hw hev
  case PAIR => exact sound_PAIR env st st' hw hev
  case UNPAIR => exact sound_UNPAIR env st st' hw hev
  case CAR => exact sound_CAR env st st' hw hev
  case CDR => exact sound_CDR env st st' hw hev
  case SOME => exact sound_SOME env st st' hw hev
  case NONE t => exact sound_NONE env st st' hw t hev
  case LEFT t => exact sound_LEFT env st st' hw t hev
  case RIGHT t => exact sound_RIGHT env st st' hw t hev
  case NIL t => exact sound_NIL env st st' hw t hev
  case CONS => exact sound_CONS env st st' hw hev
  case SIZE => exact sound_SIZE env st st' hw hev
  case EMPTY_MAP k v => exact sound_EMPTY_MAP env st st' hw k v hev
  case ADD => exact sound_ADD env st st' hw hev
  case SUB => exact sound_SUB env st st' hw hev
  case MUL => exact sound_MUL env st st' hw hev
  case NEG => exact sound_NEG env st st' hw hev
  case ABS => exact sound_ABS env st st' hw hev
  case ISNAT => exact sound_ISNAT env st st' hw hev
  case INT => exact sound_INT env st st' hw hev
  case COMPARE => exact sound_COMPARE env st st' hw hev
  case EQ => exact sound_EQ env st st' hw hev
  case NEQ => exact sound_NEQ env st st' hw hev
  case LT => exact sound_LT env st st' hw hev
  case GT => exact sound_GT env st st' hw hev
  case LE => exact sound_LE env st st' hw hev
  case GE => exact sound_GE env st st' hw hev
  case NOT => exact sound_NOT env st st' hw hev
  case AND => exact sound_AND env st st' hw hev
  case OR => exact sound_OR env st st' hw hev
  case XOR => exact sound_XOR env st st' hw hev
  case EDIV => exact sound_EDIV env st st' hw hev
  case LSL => exact sound_LSL env st st' hw hev
  case LSR => exact sound_LSR env st st' hw hev
  case SUB_MUTEZ => exact sound_SUB_MUTEZ env st st' hw hev
  case EMPTY_SET t => exact sound_EMPTY_SET env st st' hw t hev
  case MEM => exact sound_MEM env st st' hw hev
  case GET => exact sound_GET env st st' hw hev
  case UPDATE => exact sound_UPDATE env st st' hw hev
  case GET_AND_UPDATE => exact sound_GET_AND_UPDATE env st st' hw hev
  case CONCAT => exact sound_CONCAT env st st' hw hev
  case SLICE => exact sound_SLICE env st st' hw hev
  case AMOUNT => exact sound_AMOUNT env st st' hw hev
  case BALANCE => exact sound_BALANCE env st st' hw hev
  case SENDER => exact sound_SENDER env st st' hw hev
  case SOURCE => exact sound_SOURCE env st st' hw hev
  case NOW => exact sound_NOW env st st' hw hev
  case LEVEL => exact sound_LEVEL env st st' hw hev
  case CHAIN_ID => exact sound_CHAIN_ID env st st' hw hev
  case SELF_ADDRESS => exact sound_SELF_ADDRESS env st st' hw hev
  case TOTAL_VOTING_POWER => exact sound_TOTAL_VOTING_POWER env st st' hw hev
  case MIN_BLOCK_TIME => exact sound_MIN_BLOCK_TIME env st st' hw hev
  case BLAKE2B => exact sound_BLAKE2B env st st' hw hev
  case SHA256 => exact sound_SHA256 env st st' hw hev
  case SHA512 => exact sound_SHA512 env st st' hw hev
  case KECCAK => exact sound_KECCAK env st st' hw hev
  case SHA3 => exact sound_SHA3 env st st' hw hev
  case RENAME => exact sound_RENAME env st st' hw hev
  case CAST t => exact sound_CAST env st st' hw t hev
  case PAIRN n => exact sound_PAIRN env st st' hw n hev
  case UNPAIRN n => exact sound_UNPAIRN env st st' hw n hev
  case GETN n => exact sound_GETN env st st' hw n hev
  case UPDATEN n => exact sound_UPDATEN env st st' hw n hev
  case NEVER => exfalso; revert hev; rcases st with _ | ⟨a, st⟩ <;> simp [Spec.step]
  case NAT =>
    exact sound_unop env st st' hw .NAT (Spec.unV env .NAT) (unTy .NAT) (fun _ _ => rfl) rfl (fun _ _ => rfl)
      (unV_sound env .NAT) hev
  case BYTES =>
    exact sound_unop env st st' hw .BYTES (Spec.unV env .BYTES) (unTy .BYTES) (fun _ _ => rfl) rfl (fun _ _ => rfl)
      (unV_sound env .BYTES) hev
  case VOTING_POWER =>
    exact sound_unop env st st' hw .VOTING_POWER (Spec.unV env .VOTING_POWER) (unTy .VOTING_POWER) (fun _ _ => rfl) rfl
      (fun _ _ => rfl) (unV_sound env .VOTING_POWER) hev
  case HASH_KEY =>
    exact sound_unop env st st' hw .HASH_KEY (Spec.unV env .HASH_KEY) (unTy .HASH_KEY) (fun _ _ => rfl) rfl
      (fun _ _ => rfl) (unV_sound env .HASH_KEY) hev
  case ADDRESS =>
    exact sound_unop env st st' hw .ADDRESS (Spec.unV env .ADDRESS) (unTy .ADDRESS) (fun _ _ => rfl) rfl
      (fun _ _ => rfl) (unV_sound env .ADDRESS) hev
  case IMPLICIT_ACCOUNT =>
    exact sound_unop env st st' hw .IMPLICIT_ACCOUNT (Spec.unV env .IMPLICIT_ACCOUNT) (unTy .IMPLICIT_ACCOUNT) (fun _ _ => rfl) rfl
      (fun _ _ => rfl) (unV_sound env .IMPLICIT_ACCOUNT) hev
  case CONTRACT t ep =>
    exact sound_unop env st st' hw (.CONTRACT t ep) (Spec.unV env (.CONTRACT t ep)) (unTy (.CONTRACT t ep)) (fun _ _ => rfl) rfl
      (fun _ _ => rfl) (unV_sound env (.CONTRACT t ep)) hev
  case SET_DELEGATE =>
    exact sound_unop env st st' hw .SET_DELEGATE (Spec.unV env .SET_DELEGATE) (unTy .SET_DELEGATE) (fun _ _ => rfl) rfl
      (fun _ _ => rfl) (unV_sound env .SET_DELEGATE) hev
  case EMIT tag t =>
    exact sound_unop env st st' hw (.EMIT tag t) (Spec.unV env (.EMIT tag t)) (unTy (.EMIT tag t)) (fun _ _ => rfl) rfl
      (fun _ _ => rfl) (unV_sound env (.EMIT tag t)) hev
  case SELF ep t =>
    simp [Spec.step] at hev; subst hev; simp [Typing.step, typeOf, stackWF_cons, hw, wf_contract]
  case TRANSFER_TOKENS => exact sound_TRANSFER_TOKENS env st st' hw hev
  case CHECK_SIGNATURE => exact sound_CHECK_SIGNATURE env st st' hw hev
  case EMPTY_BIG_MAP k v =>
    simp only [Spec.step, Spec.stepMore, Spec.stepExt] at hev
    split at hev
    · rename_i hc
      simp only [Res.ok.injEq] at hev; subst hev
      simp only [Bool.and_eq_true] at hc
      refine ⟨?_, by simp [Typing.step, Typing.stepMore, Typing.stepExt, hc, typeOf]⟩
      rw [stackWF_cons]
      exact ⟨by simp [WF, HasTy, checkVal, checkVals, typeOf], hw⟩
    · cases hev
  case PACK =>
    exact sound_unop env st st' hw .PACK (Spec.unV env .PACK) (unTy .PACK) (fun _ _ => rfl) rfl
      (fun _ _ => rfl) (unV_sound env .PACK) hev
  case UNPACK t =>
    exact sound_unop env st st' hw (.UNPACK t) (Spec.unV env (.UNPACK t)) (unTy (.UNPACK t)) (fun _ _ => rfl) rfl
      (fun _ _ => rfl) (unV_sound env (.UNPACK t)) hev

end Interp
