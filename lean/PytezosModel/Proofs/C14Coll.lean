import PytezosModel.Michelson.Collections
/-! Helper lemmas for C14 (and for the collection part of C03): insertion sort, uniqueness of the sorted permutation,
`check_constraints`, and the refinement of each `SetType` / `MapType` operation to ordered insertion / deletion. -/
namespace Coll
open Impl.Coll Spec.Coll List

/-- `eq` decides equality and `lt` is a strict total order -/
structure StrictTotal {κ : Type} (eq lt : κ → κ → Bool) : Prop where
  eq_iff : ∀ a b, eq a b = true ↔ a = b
  irrefl : ∀ a, lt a a = false
  trans : ∀ a b c, lt a b = true → lt b c = true → lt a c = true
  total : ∀ a b, a = b ∨ lt a b = true ∨ lt b a = true

/-- strictly ascending = sorted and free of duplicates -/
def StrictSorted {κ : Type} (lt : κ → κ → Bool) (l : List κ) : Prop := l.Pairwise (fun a b => lt a b = true)

/-- what a sorting routine that only sees `lt` on the keys guarantees: no later element is smaller than an earlier one -/
def SortedBy {κ α : Type} (lt : κ → κ → Bool) (f : α → κ) (l : List α) : Prop :=
  l.Pairwise (fun a b => lt (f b) (f a) = false)

section
variable {κ α ν : Type} {eq lt : κ → κ → Bool}

theorem StrictTotal.asymm (h : StrictTotal eq lt) {a b : κ} (hab : lt a b = true) : lt b a = false := by
  cases hba : lt b a with
  | false => rfl
  | true =>
    have := h.trans _ _ _ hab hba
    rw [h.irrefl] at this
    cases this

theorem StrictTotal.eq_false (h : StrictTotal eq lt) {a b : κ} (hab : a ≠ b) : eq a b = false := by
  cases he : eq a b with
  | false => rfl
  | true => exact absurd ((h.eq_iff a b).1 he) hab

theorem StrictTotal.eq_self (h : StrictTotal eq lt) (a : κ) : eq a a = true := (h.eq_iff a a).2 rfl

theorem StrictTotal.lt_ne (h : StrictTotal eq lt) {a b : κ} (hab : lt a b = true) : a ≠ b := by
  intro e; subst e; rw [h.irrefl] at hab; cases hab

/-! ### insertion sort -/
theorem insBy_perm (f : α → κ) (x : α) : ∀ l : List α, (insBy lt f x l).Perm (x :: l)
  | [] => Perm.refl _
  | e :: es => by
    unfold insBy
    split
    · exact Perm.refl _
    · exact ((insBy_perm f x es).cons e).trans (Perm.swap x e es)

theorem foldl_ins_perm (f : α → κ) : ∀ (l acc : List α),
    (l.foldl (fun acc x => insBy lt f x acc) acc).Perm (acc ++ l)
  | [], acc => by simp
  | x :: xs, acc => by
    simp only [foldl_cons]
    refine (foldl_ins_perm f xs _).trans ?_
    exact ((insBy_perm f x acc).append_right xs).trans perm_middle.symm

theorem sortBy_perm (f : α → κ) (l : List α) : (sortBy lt f l).Perm l := by
  have := foldl_ins_perm (lt := lt) f l []
  simpa [sortBy] using this

theorem insBy_sorted (h : StrictTotal eq lt) (f : α → κ) (x : α) :
    ∀ l : List α, SortedBy lt f l → SortedBy lt f (insBy lt f x l)
  | [], _ => by simp [insBy, SortedBy]
  | e :: es, hs => by
    unfold SortedBy at hs ⊢
    rw [pairwise_cons] at hs
    unfold insBy
    split
    · rename_i hx
      refine pairwise_cons.2 ⟨?_, pairwise_cons.2 hs⟩
      intro y hy
      rcases mem_cons.1 hy with rfl | hy
      · exact h.asymm hx
      · cases hyx : lt (f y) (f x) with
        | false => rfl
        | true =>
          have := h.trans _ _ _ hyx hx
          rw [hs.1 y hy] at this
          cases this
    · rename_i hx
      refine pairwise_cons.2 ⟨?_, insBy_sorted h f x es hs.2⟩
      intro y hy
      rcases mem_cons.1 ((insBy_perm f x es).subset hy) with rfl | hy
      · simpa using hx
      · exact hs.1 y hy

theorem foldl_ins_sorted (h : StrictTotal eq lt) (f : α → κ) : ∀ (l acc : List α), SortedBy lt f acc →
    SortedBy lt f (l.foldl (fun acc x => insBy lt f x acc) acc)
  | [], _, ha => ha
  | x :: xs, acc, ha => by
    simp only [foldl_cons]
    exact foldl_ins_sorted h f xs _ (insBy_sorted h f x acc ha)

theorem sortBy_sorted (h : StrictTotal eq lt) (f : α → κ) (l : List α) : SortedBy lt f (sortBy lt f l) :=
  foldl_ins_sorted h f l [] Pairwise.nil

theorem inj_of_nodup_map (f : α → κ) : ∀ {l : List α}, (l.map f).Nodup → ∀ {a b}, a ∈ l → b ∈ l → f a = f b → a = b
  | [], _, _, _, ha, _, _ => by cases ha
  | x :: xs, hn, a, b, ha, hb, hab => by
    rw [map_cons, nodup_cons] at hn
    rcases mem_cons.1 ha with ea | ha' <;> rcases mem_cons.1 hb with eb | hb'
    · rw [ea, eb]
    · subst ea; exact absurd (hab ▸ mem_map_of_mem (f := f) hb') hn.1
    · subst eb; exact absurd (hab ▸ mem_map_of_mem (f := f) ha') hn.1
    · exact inj_of_nodup_map f hn.2 ha' hb' hab

/-- the sorted permutation is unique: whatever a correct sorting routine returns, it is this list -/
theorem sorted_perm_unique (h : StrictTotal eq lt) (f : α → κ) {l₁ l₂ : List α} (hp : l₁.Perm l₂)
    (h₁ : SortedBy lt f l₁) (h₂ : SortedBy lt f l₂) (hn : (l₁.map f).Nodup) : l₁ = l₂ := by
  refine Perm.eq_of_pairwise (le := fun a b => lt (f b) (f a) = false) ?_ h₁ h₂ hp
  intro a b ha hb hab hba
  have hb' : b ∈ l₁ := hp.symm.subset hb
  refine inj_of_nodup_map f hn ha hb' ?_
  rcases h.total (f a) (f b) with e | e | e
  · exact e
  · rw [e] at hba; cases hba
  · rw [e] at hab; cases hab

theorem strict_of_sortedBy (h : StrictTotal eq lt) (f : α → κ) {l : List α} (hs : SortedBy lt f l) (hn : (l.map f).Nodup) :
    StrictSorted lt (l.map f) := by
  unfold StrictSorted SortedBy at *
  induction l with
  | nil => simp
  | cons x xs ih =>
    rw [map_cons, nodup_cons] at hn
    rw [pairwise_cons] at hs
    rw [map_cons, pairwise_cons]
    refine ⟨?_, ih hs.2 hn.2⟩
    intro y hy
    obtain ⟨b, hb, rfl⟩ := mem_map.1 hy
    rcases h.total (f x) (f b) with e | e | e
    · exact absurd (e ▸ mem_map_of_mem (f := f) hb) hn.1
    · exact e
    · rw [hs.1 b hb] at e; cases e

theorem sortedBy_of_strict (h : StrictTotal eq lt) (f : α → κ) {l : List α} (hs : StrictSorted lt (l.map f)) :
    SortedBy lt f l ∧ (l.map f).Nodup := by
  unfold StrictSorted SortedBy at *
  rw [pairwise_map] at hs
  constructor
  · exact hs.imp (fun hab => h.asymm hab)
  · rw [Nodup, pairwise_map]
    exact hs.imp (fun hab => h.lt_ne hab)

/-- sorting a strictly sorted list changes nothing -/
theorem sortBy_of_strict (h : StrictTotal eq lt) (f : α → κ) {l : List α} (hs : StrictSorted lt (l.map f)) :
    sortBy lt f l = l := by
  have ⟨h1, h2⟩ := sortedBy_of_strict h f hs
  have hp := sortBy_perm (lt := lt) f l
  exact sorted_perm_unique h f hp (sortBy_sorted h f l) h1 ((hp.map f).nodup_iff.2 h2)

/-! ### `check_constraints` -/
theorem any_eq_iff_mem (h : StrictTotal eq lt) (l : List κ) (x : κ) : (l.any fun e => eq e x) = true ↔ x ∈ l := by
  simp only [any_eq_true]
  constructor
  · rintro ⟨e, he, hex⟩; exact ((h.eq_iff _ _).1 hex) ▸ he
  · intro hx; exact ⟨x, hx, h.eq_self x⟩

theorem classes_aux (h : StrictTotal eq lt) : ∀ (l acc : List κ),
    let r := l.foldl (fun acc x => if acc.any (fun e => eq e x) then acc else acc ++ [x]) acc
    r.length ≤ acc.length + l.length ∧ (r.length = acc.length + l.length ↔ (l.Nodup ∧ ∀ y ∈ l, y ∉ acc))
  | [], acc => by simp
  | x :: xs, acc => by
    simp only [foldl_cons]
    by_cases hx : x ∈ acc
    · have hany : (acc.any fun e => eq e x) = true := (any_eq_iff_mem h acc x).2 hx
      simp only [hany, if_true]
      have ih := classes_aux h xs acc
      simp only at ih
      refine ⟨by simp only [length_cons]; omega, ?_⟩
      constructor
      · intro he; simp only [length_cons] at he; omega
      · intro ⟨_, hd⟩; exact absurd hx (hd x mem_cons_self)
    · have hany : (acc.any fun e => eq e x) = false := by
        cases hh : (acc.any fun e => eq e x) with
        | false => rfl
        | true => exact absurd ((any_eq_iff_mem h acc x).1 hh) hx
      simp only [hany, Bool.false_eq_true, if_false]
      have ih := classes_aux h xs (acc ++ [x])
      simp only [length_append, length_cons, length_nil] at ih
      refine ⟨by simp only [length_cons]; omega, ?_⟩
      simp only [length_cons]
      constructor
      · intro he
        have := ih.2.1 (by omega)
        refine ⟨nodup_cons.2 ⟨?_, this.1⟩, ?_⟩
        · intro hxs; exact this.2 x hxs (by simp)
        · intro y hy
          rcases mem_cons.1 hy with rfl | hy
          · exact hx
          · intro hya; exact this.2 y hy (by simp [hya])
      · intro ⟨hn, hd⟩
        rw [nodup_cons] at hn
        have := ih.2.2 ⟨hn.2, ?_⟩
        · omega
        · intro y hy hya
          rcases mem_append.1 hya with hya | hya
          · exact hd y (mem_cons_of_mem _ hy) hya
          · simp only [mem_singleton] at hya; subst hya; exact hn.1 hy

theorem classes_length_iff (h : StrictTotal eq lt) (l : List κ) : (classes eq l).length = l.length ↔ l.Nodup := by
  have := (classes_aux h l []).2
  simp only [length_nil, Nat.zero_add, not_mem_nil, not_false_eq_true, implies_true, and_true] at this
  exact this

theorem listEq_iff (h : StrictTotal eq lt) : ∀ (a b : List κ), listEq eq a b = true ↔ a = b
  | [], [] => by simp [listEq]
  | [], _ :: _ => by simp [listEq]
  | _ :: _, [] => by simp [listEq]
  | x :: xs, y :: ys => by
    simp only [listEq, Bool.and_eq_true, h.eq_iff, listEq_iff h xs ys, cons.injEq]

/-- a literal is accepted iff its keys are strictly ascending -/
theorem checkConstraints_ok_iff (h : StrictTotal eq lt) (ks : List κ) :
    checkConstraints eq lt ks = .ok () ↔ StrictSorted lt ks := by
  unfold checkConstraints
  constructor
  · intro hc
    split at hc
    · cases hc
    · rename_i h1
      split at hc
      · cases hc
      · rename_i h2
        have hn : ks.Nodup := (classes_length_iff h ks).1 (by simpa using h1)
        have he : ks = sortBy lt id ks := (listEq_iff h _ _).1 (by simpa using h2)
        have hs : SortedBy lt id ks := he ▸ sortBy_sorted h id ks
        have := strict_of_sortedBy h id hs (by simpa using hn)
        simpa using this
  · intro hs
    have hs' : StrictSorted lt (ks.map id) := by simpa using hs
    have ⟨_, hn⟩ := sortedBy_of_strict h id hs'
    have h1 : (classes eq ks).length = ks.length := (classes_length_iff h ks).2 (by simpa using hn)
    have h2 : listEq eq ks (sortBy lt id ks) = true := (listEq_iff h _ _).2 (sortBy_of_strict h id hs').symm
    simp [h1, h2]

theorem checkConstraints_dup_iff (h : StrictTotal eq lt) (ks : List κ) :
    checkConstraints eq lt ks = .error .duplicate ↔ ¬ ks.Nodup := by
  unfold checkConstraints
  rw [← classes_length_iff h ks]
  by_cases h1 : (classes eq ks).length = ks.length
  · simp only [h1, bne_self_eq_false, Bool.false_eq_true, if_false, not_true_eq_false, iff_false]
    split <;> simp
  · have : ((classes eq ks).length != ks.length) = true := by simpa using h1
    simp [this, h1]

/-! ### sets: `SetType.contains / add / remove` are ordered search / insertion / deletion -/
theorem strict_cons {e : κ} {es : List κ} (hs : StrictSorted lt (e :: es)) :
    (∀ y ∈ es, lt e y = true) ∧ StrictSorted lt es := pairwise_cons.1 hs

theorem not_mem_of_lt (h : StrictTotal eq lt) {x e : κ} {es : List κ} (hs : StrictSorted lt (e :: es))
    (hx : lt x e = true ∨ x = e) : x ∉ es := by
  intro hm
  have := (strict_cons hs).1 x hm
  rcases hx with hx | rfl
  · rw [h.asymm hx] at this; cases this
  · rw [h.irrefl] at this; cases this

theorem contains_iff (h : StrictTotal eq lt) (s : List κ) (x : κ) : Set.contains eq s x = true ↔ x ∈ s :=
  any_eq_iff_mem h s x

theorem contains_false (h : StrictTotal eq lt) {s : List κ} {x : κ} (hx : x ∉ s) : Set.contains eq s x = false := by
  cases hc : Set.contains eq s x with
  | false => rfl
  | true => exact absurd ((contains_iff h s x).1 hc) hx

theorem memKey_eq (h : StrictTotal eq lt) (x : κ) : ∀ s : List κ, StrictSorted lt s → memKey lt x s = Set.contains eq s x
  | [], _ => rfl
  | e :: es, hs => by
    have hc := strict_cons hs
    simp only [memKey, Set.contains, any_cons]
    split
    · rename_i hex
      rw [h.eq_false (h.lt_ne hex), Bool.false_or]
      exact memKey_eq h x es hc.2
    · rename_i hex
      cases hxe : lt x e with
      | true =>
        have : x ∉ es := not_mem_of_lt h hs (.inl hxe)
        have c := contains_false h this
        unfold Set.contains at c
        rw [h.eq_false (h.lt_ne hxe).symm, c]; rfl
      | false =>
        rcases h.total e x with rfl | e1 | e1
        · simp [h.eq_self]
        · exact absurd e1 hex
        · rw [hxe] at e1; cases e1

theorem mem_insertKey {x z : κ} : ∀ {l : List κ}, z ∈ insertKey lt x l → z = x ∨ z ∈ l
  | [], hz => by simpa [insertKey] using hz
  | e :: es, hz => by
    unfold insertKey at hz
    split at hz
    · rcases mem_cons.1 hz with rfl | hz
      · exact .inl rfl
      · exact .inr hz
    · split at hz
      · rcases mem_cons.1 hz with rfl | hz
        · exact .inr mem_cons_self
        · rcases mem_insertKey hz with rfl | hz
          · exact .inl rfl
          · exact .inr (mem_cons_of_mem _ hz)
      · exact .inr hz

theorem insertKey_strict (h : StrictTotal eq lt) (x : κ) : ∀ s : List κ, StrictSorted lt s → StrictSorted lt (insertKey lt x s)
  | [], _ => by simp [insertKey, StrictSorted]
  | e :: es, hs => by
    have hc := strict_cons hs
    unfold insertKey
    split
    · rename_i hxe
      refine pairwise_cons.2 ⟨?_, hs⟩
      intro y hy
      rcases mem_cons.1 hy with rfl | hy
      · exact hxe
      · exact h.trans _ _ _ hxe (hc.1 y hy)
    · split
      · rename_i hex
        refine pairwise_cons.2 ⟨?_, insertKey_strict h x es hc.2⟩
        intro y hy
        rcases mem_insertKey hy with rfl | hy
        · exact hex
        · exact hc.1 y hy
      · exact hs

theorem insertKey_of_mem (h : StrictTotal eq lt) (x : κ) : ∀ s : List κ, StrictSorted lt s → x ∈ s → insertKey lt x s = s
  | [], _, hx => by cases hx
  | e :: es, hs, hx => by
    have hc := strict_cons hs
    unfold insertKey
    rcases mem_cons.1 hx with rfl | hx
    · simp [h.irrefl]
    · have hex := hc.1 x hx
      rw [h.asymm hex, hex]
      simp only [Bool.false_eq_true, if_false, if_true]
      rw [insertKey_of_mem h x es hc.2 hx]

theorem insertKey_perm (h : StrictTotal eq lt) (x : κ) : ∀ s : List κ, x ∉ s → (insertKey lt x s).Perm (x :: s)
  | [], _ => Perm.refl _
  | e :: es, hx => by
    unfold insertKey
    split
    · exact Perm.refl _
    · split
      · exact ((insertKey_perm h x es (fun hm => hx (mem_cons_of_mem _ hm))).cons e).trans (Perm.swap x e es)
      · rename_i h1 h2
        rcases h.total x e with rfl | e1 | e1
        · exact absurd mem_cons_self hx
        · exact absurd e1 h1
        · exact absurd e1 h2

theorem nodup_of_strict (h : StrictTotal eq lt) {s : List κ} (hs : StrictSorted lt s) : s.Nodup :=
  hs.imp (fun hab => h.lt_ne hab)

/-- `SetType.add` is ordered insertion -/
theorem add_eq (h : StrictTotal eq lt) {s : List κ} (hs : StrictSorted lt s) (x : κ) :
    Set.add eq lt s x = insertKey lt x s := by
  unfold Set.add
  by_cases hx : x ∈ s
  · rw [(contains_iff h s x).2 hx, insertKey_of_mem h x s hs hx]; rfl
  · rw [contains_false h hx]
    simp only [Bool.false_eq_true, if_false]
    have hp : (sortBy lt id (x :: s)).Perm (insertKey lt x s) :=
      (sortBy_perm id (x :: s)).trans (insertKey_perm h x s hx).symm
    have hs2 : StrictSorted lt ((insertKey lt x s).map id) := by simpa using insertKey_strict h x s hs
    have hn : (x :: s).Nodup := nodup_cons.2 ⟨hx, nodup_of_strict h hs⟩
    refine sorted_perm_unique h id hp (sortBy_sorted h id _) (sortedBy_of_strict h id hs2).1 ?_
    simpa using ((sortBy_perm (lt := lt) id (x :: s)).nodup_iff).2 hn

theorem filter_ne_of_not_mem (h : StrictTotal eq lt) {x : κ} : ∀ {l : List κ}, x ∉ l → l.filter (fun e => !(eq e x)) = l
  | [], _ => rfl
  | e :: es, hx => by
    have hne : e ≠ x := fun he => hx (he ▸ mem_cons_self)
    rw [filter_cons, h.eq_false hne]
    simp only [Bool.not_false, if_true]
    rw [filter_ne_of_not_mem h (fun hm => hx (mem_cons_of_mem _ hm))]

theorem filter_eq_eraseKey (h : StrictTotal eq lt) (x : κ) : ∀ s : List κ, StrictSorted lt s →
    s.filter (fun e => !(eq e x)) = eraseKey lt x s
  | [], _ => rfl
  | e :: es, hs => by
    have hc := strict_cons hs
    unfold eraseKey
    rw [filter_cons]
    by_cases hex : lt e x = true
    · rw [if_pos hex, h.eq_false (h.lt_ne hex)]
      simp only [Bool.not_false, if_true]
      rw [filter_eq_eraseKey h x es hc.2]
    · rw [if_neg hex]
      by_cases hxe : lt x e = true
      · rw [if_pos hxe, h.eq_false (h.lt_ne hxe).symm]
        simp only [Bool.not_false, if_true]
        rw [filter_ne_of_not_mem h (not_mem_of_lt h hs (.inl hxe))]
      · rw [if_neg hxe]
        rcases h.total e x with rfl | e1 | e1
        · simp only [h.eq_self, Bool.not_true, Bool.false_eq_true, if_false]
          exact filter_ne_of_not_mem h (not_mem_of_lt h hs (.inr rfl))
        · exact absurd e1 hex
        · exact absurd e1 hxe

/-- `SetType.remove` is ordered deletion -/
theorem remove_eq (h : StrictTotal eq lt) {s : List κ} (hs : StrictSorted lt s) (x : κ) :
    Set.remove eq s x = eraseKey lt x s := by
  unfold Set.remove
  by_cases hx : x ∈ s
  · rw [(contains_iff h s x).2 hx]; exact filter_eq_eraseKey h x s hs
  · rw [contains_false h hx, ← filter_eq_eraseKey h x s hs, filter_ne_of_not_mem h hx]; rfl

theorem eraseKey_strict (h : StrictTotal eq lt) (x : κ) {s : List κ} (hs : StrictSorted lt s) :
    StrictSorted lt (eraseKey lt x s) := by
  rw [← filter_eq_eraseKey h x s hs]
  exact Pairwise.sublist filter_sublist hs

theorem mem_eraseKey (h : StrictTotal eq lt) (x : κ) {s : List κ} (hs : StrictSorted lt s) (z : κ) :
    z ∈ eraseKey lt x s ↔ z ∈ s ∧ z ≠ x := by
  rw [← filter_eq_eraseKey h x s hs, mem_filter]
  constructor
  · intro ⟨hz, hne⟩
    refine ⟨hz, fun e => ?_⟩
    subst e; simp [h.eq_self] at hne
  · intro ⟨hz, hne⟩
    exact ⟨hz, by simp [h.eq_false hne]⟩

theorem mem_insertKey_iff (h : StrictTotal eq lt) (x : κ) {s : List κ} (hs : StrictSorted lt s) (z : κ) :
    z ∈ insertKey lt x s ↔ z = x ∨ z ∈ s := by
  by_cases hx : x ∈ s
  · rw [insertKey_of_mem h x s hs hx]
    constructor
    · exact .inr
    · rintro (rfl | hz)
      · exact hx
      · exact hz
  · rw [(insertKey_perm h x s hx).mem_iff, mem_cons]

/-! ### maps -/
def keys (m : List (κ × ν)) : List κ := m.map (·.1)

theorem find_none_of_not_mem (h : StrictTotal eq lt) {k : κ} : ∀ {m : List (κ × ν)}, k ∉ keys m →
    m.find? (fun e => eq e.1 k) = none
  | [], _ => rfl
  | e :: es, hk => by
    have hne : e.1 ≠ k := fun he => hk (by simp [keys, ← he])
    rw [find?_cons, h.eq_false hne]
    exact find_none_of_not_mem h (fun hm => hk (by simp only [keys, map_cons, mem_cons]; exact .inr hm))

/-- `MapType.get` is ordered search -/
theorem get_eq (h : StrictTotal eq lt) (k : κ) : ∀ m : List (κ × ν), StrictSorted lt (keys m) →
    Map.get eq m k = findKV lt k m
  | [], _ => rfl
  | e :: es, hs => by
    have hs' : StrictSorted lt (e.1 :: keys es) := hs
    have hc := strict_cons hs'
    have ih := get_eq h k es hc.2
    unfold Map.get at ih ⊢
    unfold findKV
    rw [find?_cons]
    by_cases hek : lt e.1 k = true
    · rw [if_pos hek, h.eq_false (h.lt_ne hek)]
      exact ih
    · rw [if_neg hek]
      by_cases hke : lt k e.1 = true
      · rw [if_pos hke, h.eq_false (h.lt_ne hke).symm]
        simp only
        rw [find_none_of_not_mem h (not_mem_of_lt h hs' (.inl hke))]; rfl
      · rw [if_neg hke]
        rcases h.total e.1 k with e0 | e1 | e1
        · rw [(h.eq_iff _ _).2 e0]; rfl
        · exact absurd e1 hek
        · exact absurd e1 hke

theorem insertKV_keys (k : κ) (v : ν) : ∀ m : List (κ × ν), keys (insertKV lt k v m) = insertKey lt k (keys m)
  | [] => rfl
  | e :: es => by
    unfold insertKV
    simp only [keys, map_cons, insertKey]
    split
    · rfl
    · split
      · simp only [map_cons]; rw [← keys, ← keys, insertKV_keys k v es]
      · rfl

theorem eraseKV_keys (k : κ) : ∀ m : List (κ × ν), keys (eraseKV lt k m) = eraseKey lt k (keys m)
  | [] => rfl
  | e :: es => by
    unfold eraseKV
    simp only [keys, map_cons, eraseKey]
    split
    · simp only [map_cons]; rw [← keys, ← keys, eraseKV_keys k es]
    · split <;> rfl

theorem map_replace_of_not_mem (h : StrictTotal eq lt) {k : κ} (v : ν) : ∀ {m : List (κ × ν)}, k ∉ keys m →
    m.map (fun e => (e.1, if !(eq e.1 k) then e.2 else v)) = m
  | [], _ => rfl
  | e :: es, hk => by
    have hne : e.1 ≠ k := fun he => hk (by simp [keys, ← he])
    rw [map_cons, h.eq_false hne]
    simp only [Bool.not_false, if_true]
    rw [map_replace_of_not_mem h v (fun hm => hk (by simp only [keys, map_cons, mem_cons]; exact .inr hm))]

/-- replacing the value of a present key -/
theorem replace_eq (h : StrictTotal eq lt) (k : κ) (v : ν) : ∀ m : List (κ × ν), StrictSorted lt (keys m) → k ∈ keys m →
    m.map (fun e => (e.1, if !(eq e.1 k) then e.2 else v)) = insertKV lt k v m
  | [], _, hk => by cases hk
  | e :: es, hs, hk => by
    have hs' : StrictSorted lt (e.1 :: keys es) := hs
    have hc := strict_cons hs'
    have hk' : k = e.1 ∨ k ∈ keys es := by simpa [keys] using hk
    unfold insertKV
    rw [map_cons]
    rcases hk' with rfl | hk'
    · simp only [h.irrefl, h.eq_self, Bool.false_eq_true, if_false, Bool.not_true]
      rw [map_replace_of_not_mem h v (not_mem_of_lt h hs' (.inr rfl))]
    · have hek := hc.1 k hk'
      rw [h.asymm hek, hek, h.eq_false (h.lt_ne hek)]
      simp only [Bool.false_eq_true, if_false, if_true, Bool.not_false]
      rw [replace_eq h k v es hc.2 hk']

theorem filterKV_of_not_mem (h : StrictTotal eq lt) {k : κ} : ∀ {m : List (κ × ν)}, k ∉ keys m →
    m.filter (fun e => !(eq e.1 k)) = m
  | [], _ => rfl
  | e :: es, hk => by
    have hne : e.1 ≠ k := fun he => hk (by simp [keys, ← he])
    rw [filter_cons, h.eq_false hne]
    simp only [Bool.not_false, if_true]
    rw [filterKV_of_not_mem h (fun hm => hk (by simp only [keys, map_cons, mem_cons]; exact .inr hm))]

theorem filterKV_eq (h : StrictTotal eq lt) (k : κ) : ∀ m : List (κ × ν), StrictSorted lt (keys m) →
    m.filter (fun e => !(eq e.1 k)) = eraseKV lt k m
  | [], _ => rfl
  | e :: es, hs => by
    have hs' : StrictSorted lt (e.1 :: keys es) := hs
    have hc := strict_cons hs'
    unfold eraseKV
    rw [filter_cons]
    by_cases hek : lt e.1 k = true
    · rw [if_pos hek, h.eq_false (h.lt_ne hek)]
      simp only [Bool.not_false, if_true]
      rw [filterKV_eq h k es hc.2]
    · rw [if_neg hek]
      by_cases hke : lt k e.1 = true
      · rw [if_pos hke, h.eq_false (h.lt_ne hke).symm]
        simp only [Bool.not_false, if_true]
        rw [filterKV_of_not_mem h (not_mem_of_lt h hs' (.inl hke))]
      · rw [if_neg hke]
        rcases h.total e.1 k with e0 | e1 | e1
        · rw [(h.eq_iff _ _).2 e0]
          simp only [Bool.not_true, Bool.false_eq_true, if_false]
          exact filterKV_of_not_mem h (not_mem_of_lt h hs' (.inr e0.symm))
        · exact absurd e1 hek
        · exact absurd e1 hke

theorem insertKV_perm (h : StrictTotal eq lt) (k : κ) (v : ν) : ∀ m : List (κ × ν), k ∉ keys m →
    (insertKV lt k v m).Perm ((k, v) :: m)
  | [], _ => Perm.refl _
  | e :: es, hk => by
    have hne : k ≠ e.1 := fun he => hk (by simp [keys, he])
    unfold insertKV
    split
    · exact Perm.refl _
    · split
      · exact ((insertKV_perm h k v es (fun hm => hk (by simp only [keys, map_cons, mem_cons]; exact .inr hm))).cons e).trans
          (Perm.swap (k, v) e es)
      · rename_i h1 h2
        rcases h.total k e.1 with e0 | e1 | e1
        · exact absurd e0 hne
        · exact absurd e1 h1
        · exact absurd e1 h2

/-- inserting an absent key: `sorted(items + [(key, val)], key=…)` is ordered insertion -/
theorem insert_new_eq (h : StrictTotal eq lt) {m : List (κ × ν)} (hs : StrictSorted lt (keys m)) (k : κ) (v : ν)
    (hk : k ∉ keys m) : sortBy lt Prod.fst (m ++ [(k, v)]) = insertKV lt k v m := by
  have hp0 : (m ++ [(k, v)]).Perm ((k, v) :: m) := perm_append_comm
  have hp : (sortBy lt Prod.fst (m ++ [(k, v)])).Perm (insertKV lt k v m) :=
    ((sortBy_perm Prod.fst _).trans hp0).trans (insertKV_perm h k v m hk).symm
  have hs2 : StrictSorted lt ((insertKV lt k v m).map Prod.fst) := by
    have := insertKV_keys (lt := lt) k v m
    unfold keys at this
    rw [this]
    exact insertKey_strict h k _ hs
  have hn : (((k, v) :: m).map Prod.fst).Nodup := by
    rw [map_cons]
    exact nodup_cons.2 ⟨hk, nodup_of_strict h hs⟩
  refine sorted_perm_unique h Prod.fst hp (sortBy_sorted h _ _) (sortedBy_of_strict h _ hs2).1 ?_
  exact ((((sortBy_perm (lt := lt) Prod.fst _).trans hp0).map Prod.fst).nodup_iff).2 hn

theorem get_isSome_iff (h : StrictTotal eq lt) (k : κ) : ∀ m : List (κ × ν), (Map.get eq m k).isSome = true ↔ k ∈ keys m
  | [] => by simp [Map.get, keys]
  | e :: es => by
    unfold Map.get
    rw [find?_cons]
    by_cases he : e.1 = k
    · rw [(h.eq_iff _ _).2 he]; simp [keys, he]
    · rw [h.eq_false he]
      have := get_isSome_iff h k es
      unfold Map.get at this
      simp only [this, keys, map_cons, mem_cons]
      constructor
      · exact .inr
      · rintro (e0 | hm)
        · exact absurd e0.symm he
        · exact hm

/-- `MapType.update` is ordered insert-or-replace / delete, and returns the old binding -/
theorem update_eq (h : StrictTotal eq lt) {m : List (κ × ν)} (hs : StrictSorted lt (keys m)) (k : κ) (v : Option ν) :
    Map.update eq lt m k v = (findKV lt k m, match v with | some x => insertKV lt k x m | none => eraseKV lt k m) := by
  have hg := get_eq h k m hs
  have hmem := get_isSome_iff h k m
  unfold Map.update
  cases hp : Map.get eq m k with
  | some p =>
    have hk : k ∈ keys m := hmem.1 (by rw [hp]; rfl)
    cases v with
    | some x => simp only [← hg, hp, replace_eq h k x m hs hk]
    | none => simp only [← hg, hp, filterKV_eq h k m hs]
  | none =>
    have hk : k ∉ keys m := fun hm => by have := hmem.2 hm; rw [hp] at this; cases this
    cases v with
    | some x => simp only [← hg, hp, insert_new_eq h hs k x hk]
    | none =>
      simp only [← hg, hp]
      rw [← filterKV_eq h k m hs, filterKV_of_not_mem h hk]

theorem mapValues_eq (h : StrictTotal eq lt) {m : List (κ × ν)} (hs : StrictSorted lt (keys m)) (f : κ → ν → ν) :
    Map.mapValues eq lt f m = .ok (m.map (fun e => (e.1, f e.1 e.2))) := by
  unfold Map.mapValues
  cases m with
  | nil => rfl
  | cons e es =>
    simp only [map_cons, isEmpty_cons, Bool.false_eq_true, if_false]
    unfold Map.literal
    have hk : ((e.1, f e.1 e.2) :: map (fun e => (e.1, f e.1 e.2)) es).map (·.1) = keys (e :: es) := by
      simp [keys, Function.comp_def]
    rw [hk, (checkConstraints_ok_iff h _).2 hs]

theorem literal_ok_iff (h : StrictTotal eq lt) (items : List (κ × ν)) :
    Map.literal eq lt items = .ok items ↔ StrictSorted lt (keys items) := by
  unfold Map.literal
  rw [← checkConstraints_ok_iff h]
  cases hc : checkConstraints eq lt (map (fun x => x.fst) items) with
  | ok u => cases u; simp [keys, hc]
  | error e => simp [keys, hc]

/-- every operation keeps the keys strictly sorted and does what the reference dictionary does -/
theorem step_refines (h : StrictTotal eq lt) {m : List (κ × ν)} (hs : StrictSorted lt (keys m)) (op : MapOp κ ν) :
    Map.step eq lt m op = .ok (dictStep lt m op) := by
  cases op with
  | update k v => cases v <;> simp [Map.step, dictStep, update_eq h hs]
  | getAndUpdate k v => cases v <;> simp [Map.step, dictStep, update_eq h hs]
  | mapv f => simp [Map.step, dictStep, mapValues_eq h hs]
  | iter => rfl

theorem dictStep_inv (h : StrictTotal eq lt) {m : List (κ × ν)} (hs : StrictSorted lt (keys m)) (op : MapOp κ ν) :
    StrictSorted lt (keys (dictStep lt m op)) := by
  cases op with
  | update k v =>
    cases v with
    | some x => simp only [dictStep, insertKV_keys]; exact insertKey_strict h k _ hs
    | none => simp only [dictStep, eraseKV_keys]; exact eraseKey_strict h k hs
  | getAndUpdate k v =>
    cases v with
    | some x => simp only [dictStep, insertKV_keys]; exact insertKey_strict h k _ hs
    | none => simp only [dictStep, eraseKV_keys]; exact eraseKey_strict h k hs
  | mapv f =>
    have : keys (m.map (fun e => (e.1, f e.1 e.2))) = keys m := by simp [keys, Function.comp_def]
    simp only [dictStep, this]; exact hs
  | iter => exact hs

theorem run_refines (h : StrictTotal eq lt) : ∀ (ops : List (MapOp κ ν)) (m : List (κ × ν)), StrictSorted lt (keys m) →
    Map.run eq lt m ops = .ok (ops.foldl (dictStep lt) m) ∧ StrictSorted lt (keys (ops.foldl (dictStep lt) m))
  | [], m, hs => ⟨rfl, hs⟩
  | op :: ops, m, hs => by
    unfold Map.run
    rw [step_refines h hs op]
    exact run_refines h ops _ (dictStep_inv h hs op)

theorem setStep_refines (h : StrictTotal eq lt) {s : List κ} (hs : StrictSorted lt s) (op : SetOp κ) :
    Set.step eq lt s op = setStep lt s op := by
  cases op with
  | add k => exact add_eq h hs k
  | remove k => exact remove_eq h hs k

theorem setStep_inv (h : StrictTotal eq lt) {s : List κ} (hs : StrictSorted lt s) (op : SetOp κ) :
    StrictSorted lt (setStep lt s op) := by
  cases op with
  | add k => exact insertKey_strict h k s hs
  | remove k => exact eraseKey_strict h k hs

theorem setRun_refines (h : StrictTotal eq lt) : ∀ (ops : List (SetOp κ)) (s : List κ), StrictSorted lt s →
    ops.foldl (Set.step eq lt) s = ops.foldl (setStep lt) s ∧ StrictSorted lt (ops.foldl (setStep lt) s)
  | [], s, hs => ⟨rfl, hs⟩
  | op :: ops, s, hs => by
    simp only [foldl_cons]
    rw [setStep_refines h hs op]
    exact setRun_refines h ops _ (setStep_inv h hs op)

end
end Coll
