import PytezosModel.Proofs.InterpProgressComb
import PytezosModel.Proofs.InterpGuard
set_option linter.unusedSectionVars false   -- `[Mode]` is a section variable of every lemma here; some do not use it
/-! **Progress** for the reference semantics of the modelled core: a well-typed program (`Typing.typeInstr`, with
well-formed set / map literals: `Typing.literalsOk`) run on a well-typed stack (deep value typing `StackWF` of C02, and
every set / map strictly sorted: `GoodStack`) is never stuck — for every fuel bound it yields a stack, a FAILWITH value,
a runtime failure, or runs out of fuel.  Proved together with the preservation of `GoodStack` (the preservation of the
types is C02's `sound_all`), by induction on the fuel. -/
namespace Interp
variable [Mode]
open Typing

/-- a result of the (possibly guarded) reference evaluator is a result of the plain one -/
theorem eval_ok_plain {g : Bool} {env : Env} {f : Nat} {i : Instr} {st st' : List Val}
    (h : Spec.eval g env f i st = .ok st') : Spec.eval false env f i st = .ok st' := by
  cases g with
  | false => exact h
  | true => rw [(all_guard env f).1 i st (by rw [h]; intro e; cases e)]; exact h

theorem evalMap_ok_plain {g : Bool} {env : Env} {f : Nat} {b : Instr} {m : Bool} {xs st : List Val} {p : List Val × List Val}
    (h : Spec.evalMap g env f b m xs st = .ok p) : Spec.evalMap false env f b m xs st = .ok p := by
  cases g with
  | false => exact h
  | true => rw [(all_guard env f).2.2.2 b m xs st (by rw [h]; intro e; cases e)]; exact h

/-- all three facts about a result stack -/
def StackOk (tr : TRes) (st' : List Val) : Prop := GoodStack st' ∧ StackWF st' ∧ tr = .ok (st'.map typeOf)

def SafeE (env : Env) (f : Nat) : Prop :=
  ∀ i st tr, StackWF st → GoodStack st → literalsOk i = true → typeInstr Mode.strict i (st.map typeOf) = some tr →
    (Spec.eval Mode.guard env f i st).Safe GoodStack

def SafeS (env : Env) (f : Nat) : Prop :=
  ∀ is st tr, StackWF st → GoodStack st → literalsOks is = true → typeSeq Mode.strict is (st.map typeOf) = some tr →
    (Spec.evalSeq Mode.guard env f is st).Safe GoodStack

def SafeI (env : Env) (f : Nat) : Prop :=
  ∀ body xs st t, (∀ x ∈ xs, WF x ∧ typeOf x = t) → GoodStack xs → StackWF st → GoodStack st → literalsOk body = true →
    BodyKeeps body t (st.map typeOf) → (Spec.evalIter Mode.guard env f body xs st).Safe GoodStack

/-- MAP over a map keeps the keys: the collected items are the bindings of the source with new values -/
def KeysKept (isMap : Bool) (xs ys : List Val) : Prop :=
  isMap = true → ys.map keyOf = xs.map keyOf ∧ ∀ y ∈ ys, ∃ a b, y = .pair a b

def SafeM (env : Env) (f : Nat) : Prop :=
  ∀ body isMap xs st t t', (∀ x ∈ xs, WF x ∧ typeOf x = t) → GoodStack xs → StackWF st → GoodStack st →
    literalsOk body = true → typeInstr Mode.strict body (t :: st.map typeOf) = some (.ok (t' :: st.map typeOf)) →
    (isMap = true → ∃ k v, t = .pair k v) →
    (Spec.evalMap Mode.guard env f body isMap xs st).Safe fun p => GoodStack p.1 ∧ GoodStack p.2 ∧ KeysKept isMap xs p.1

/-- safety together with C02's type preservation -/
theorem SafeE.ok {env : Env} {f : Nat} (hE : SafeE env f) (i : Instr) (st : List Val) (tr : TRes) (hw : StackWF st)
    (hg : GoodStack st) (hl : literalsOk i = true) (hty : typeInstr Mode.strict i (st.map typeOf) = some tr) :
    (Spec.eval Mode.guard env f i st).Safe (StackOk tr) :=
  (hE i st tr hw hg hl hty).mono fun st' heq hgood => ⟨hgood, (sound_all env f).1 i st st' tr hw (eval_ok_plain heq) hty⟩

section
variable (env : Env) (f : Nat) (hE : SafeE env f)
include hE

theorem safeS_succ (hS : SafeS env f) : SafeS env (f + 1) := by
  intro is st tr hw hg hl hty
  cases is with
  | nil => simp [Spec.evalSeq, hg]
  | cons i is =>
    simp only [literalsOks, Bool.and_eq_true] at hl
    simp only [Spec.evalSeq]
    cases is with
    | nil =>
      simp only [typeSeq] at hty
      refine (hE.ok i st tr hw hg hl.1 hty).bind fun st1 _ h1 => ?_
      cases f <;> simp [Spec.evalSeq, h1.1]
    | cons j js =>
      simp only [typeSeq] at hty
      cases hti : typeInstr Mode.strict i (st.map typeOf) with
      | none => simp [hti] at hty
      | some tr1 =>
        refine (hE.ok i st tr1 hw hg hl.1 hti).bind fun st1 _ h1 => ?_
        obtain ⟨g1, w1, rfl⟩ := h1
        simp only [hti] at hty
        exact hS (j :: js) st1 tr w1 g1 hl.2 hty

theorem safeI_succ (hI : SafeI env f) : SafeI env (f + 1) := by
  intro body xs st t hxs hgx hw hg hl hb
  cases xs with
  | nil => simp [Spec.evalIter, hg]
  | cons x xs =>
    simp only [Spec.evalIter]
    rw [goodStack_cons] at hgx
    have hx := hxs x (by simp)
    have hw1 : StackWF (x :: st) := stackWF_cons.mpr ⟨hx.1, hw⟩
    have hg1 : GoodStack (x :: st) := goodStack_cons.mpr ⟨hgx.1, hg⟩
    have hmap : (x :: st).map typeOf = t :: st.map typeOf := by simp [hx.2]
    rcases hb with hb | hb
    · refine (hE.ok body (x :: st) _ hw1 hg1 hl (by rw [hmap]; exact hb)).bind fun st1 _ h1 => ?_
      obtain ⟨g1, w1, e1⟩ := h1
      simp only [TRes.ok.injEq] at e1
      exact hI body xs st1 t (fun y hy => hxs y (by simp [hy])) hgx.2 w1 g1 hl (by rw [← e1]; exact Or.inl hb)
    · refine (hE.ok body (x :: st) _ hw1 hg1 hl (by rw [hmap]; exact hb)).bind fun st1 _ h1 => ?_
      cases h1.2.2

theorem safeM_succ (hM : SafeM env f) : SafeM env (f + 1) := by
  intro body isMap xs st t t' hxs hgx hw hg hl hb hk
  cases xs with
  | nil => simp [Spec.evalMap, hg, goodStack_nil, KeysKept]
  | cons x xs =>
    simp only [Spec.evalMap]
    rw [goodStack_cons] at hgx
    have hx := hxs x (by simp)
    have hw1 : StackWF (x :: st) := stackWF_cons.mpr ⟨hx.1, hw⟩
    have hg1 : GoodStack (x :: st) := goodStack_cons.mpr ⟨hgx.1, hg⟩
    have hmap : (x :: st).map typeOf = t :: st.map typeOf := by simp [hx.2]
    refine (hE.ok body (x :: st) _ hw1 hg1 hl (by rw [hmap]; exact hb)).bind fun r _ h1 => ?_
    obtain ⟨g1, w1, e1⟩ := h1
    simp only [TRes.ok.injEq] at e1
    cases r with
    | nil => simp at e1
    | cons y st1 =>
      simp only [List.map_cons, List.cons.injEq] at e1
      rw [goodStack_cons] at g1
      rw [stackWF_cons] at w1
      have hb' : typeInstr Mode.strict body (t :: st1.map typeOf) = some (.ok (t' :: st1.map typeOf)) := by
        rw [← e1.2]; exact hb
      have hrec := hM body isMap xs st1 t t' (fun z hz => hxs z (by simp [hz])) hgx.2 w1.2 g1.2 hl hb' hk
      simp only
      cases isMap with
      | false =>
        simp only [rbind_ok]
        refine hrec.bind fun p _ hp => ?_
        obtain ⟨ys, st2⟩ := p
        simp only [safe_ok, goodStack_cons]
        exact ⟨⟨g1.1, hp.1⟩, hp.2.1, fun h => by cases h⟩
      | true =>
        obtain ⟨k, v, rfl⟩ := hk rfl
        obtain ⟨a, b, rfl, _, _⟩ := canon_pair hx.1 hx.2
        have ha : litOk a = true := ((litOk_pair a b).mp hgx.1).1
        simp only [rbind_ok]
        refine hrec.bind fun p _ hp => ?_
        obtain ⟨ys, st2⟩ := p
        simp only [safe_ok, goodStack_cons, litOk_pair]
        refine ⟨⟨⟨ha, g1.1⟩, hp.1⟩, hp.2.1, fun _ => ?_⟩
        obtain ⟨h1, h2⟩ := hp.2.2 rfl
        refine ⟨by simp [keyOf, h1], ?_⟩
        intro z hz
        simp only [List.mem_cons] at hz
        rcases hz with rfl | hz
        · exact ⟨_, _, rfl⟩
        · exact h2 z hz

end
end Interp

namespace Interp
variable [Mode]
open Typing

/-- MAP over a map keeps it well-formed: same keys in the same order -/
theorem goodMap_keysKept {k : Ty} {xs ys : List Val} (h : goodMap k xs = true) (hk : ys.map keyOf = xs.map keyOf)
    (hp : ∀ y ∈ ys, ∃ a b, y = .pair a b) : goodMap k ys = true := by
  simp only [goodMap, Bool.and_eq_true, List.all_eq_true] at h ⊢
  refine ⟨⟨h.1.1, ?_⟩, by rw [hk]; exact h.2⟩
  intro y hy
  obtain ⟨a, b, rfl⟩ := hp y hy
  have : a ∈ ys.map keyOf := List.mem_map.mpr ⟨_, hy, rfl⟩
  rw [hk, List.mem_map] at this
  obtain ⟨x, hx, hxa⟩ := this
  obtain ⟨a', b', rfl, hk'⟩ := isBinding_pair (h.1.2 x hx)
  simp only [keyOf] at hxa
  subst hxa
  simpa [isBinding] using hk'

theorem join_some {a b : Option TRes} {tr : TRes}
    (h : (match a, b with | some x, some y => join x y | _, _ => none) = some tr) : ∃ x y, a = some x ∧ b = some y := by
  cases a <;> cases b <;> simp at h
  exact ⟨_, _, rfl, rfl⟩

/-- the type of a loop / ITER body: it keeps the rest of the stack, or always fails -/
theorem loop_body_ty {body : Instr} {S0 S1 R : List Ty} {tr : TRes}
    (h : (match typeInstr Mode.strict body S0 with
          | some (.ok s') => if s' = S1 then some (.ok R) else none
          | some .failed => some (.ok R)
          | none => none) = some tr) :
    typeInstr Mode.strict body S0 = some (.ok S1) ∨ typeInstr Mode.strict body S0 = some .failed := by
  split at h
  · rename_i s' heq
    split at h
    · rename_i hs; subst hs; exact Or.inl heq
    · simp at h
  · rename_i heq; exact Or.inr heq
  · simp at h

section
variable (env : Env) (f : Nat) (hE : SafeE env f) (hS : SafeS env f) (hI : SafeI env f) (hM : SafeM env f)
include hE hS hI hM

theorem safeE_succ : SafeE env (f + 1) := by
  intro i st tr hw hg hl hty
  by_cases hc : isControl i = false
  · rw [spec_eval_simple Mode.guard env f i hc st]
    by_cases hlit : isLiteral i = false
    · rw [typeInstr_simple i hc hlit] at hty
      exact step_safe env i st tr hw hg hty
    · cases i <;> first | (simp [isLiteral] at hlit; done) | skip
      · -- PUSH
        rename_i t v
        simp only [literalsOk] at hl
        simp [Spec.step, goodStack_cons, hl, hg]
      · -- LAMBDA
        rename_i a b body
        simp only [literalsOk] at hl
        simp [Spec.step, goodStack_cons, hl, hg]
  cases i <;> first | (exact absurd rfl hc) | skip
  case seq is =>
    simp only [Spec.eval]
    simp only [typeInstr] at hty
    simp only [literalsOk] at hl
    exact hS is st tr hw hg hl hty
  case DIP body =>
    rcases st with _ | ⟨x, st⟩
    · simp [typeInstr, Typing.step, Typing.stepMore] at hty
    rw [stackWF_cons] at hw
    rw [goodStack_cons] at hg
    simp only [literalsOk] at hl
    simp only [List.map_cons, typeInstr] at hty
    cases hb : typeInstr Mode.strict body (st.map typeOf) with
    | none => simp [hb] at hty
    | some tb =>
      simp only [Spec.eval]
      exact (hE body st tb hw.2 hg.2 hl hb).bind fun st1 _ h1 => by simp [goodStack_cons, hg.1, h1]
  case DIPN n body =>
    simp only [literalsOk] at hl
    simp only [typeInstr, List.length_map] at hty
    split at hty
    · rename_i hn
      cases hb : typeInstr Mode.strict body ((st.map typeOf).drop n) with
      | none => simp [hb] at hty
      | some tb =>
        simp only [Spec.eval, hn, if_true]
        refine (hE body (st.drop n) tb (stackWF_drop hw n) (goodStack_drop hg n) hl (by rw [List.map_drop]; exact hb)).bind
          fun st1 _ h1 => ?_
        simp only [safe_ok, goodStack_append]
        exact ⟨goodStack_take hg n, h1⟩
    · simp at hty
  case IF bt bf =>
    rcases st with _ | ⟨c, st⟩
    · simp [typeInstr, Typing.step, Typing.stepMore] at hty
    rw [stackWF_cons] at hw
    rw [goodStack_cons] at hg
    simp only [literalsOk, Bool.and_eq_true] at hl
    simp only [List.map_cons] at hty
    generalize htc : typeOf c = tc at hty
    cases tc <;> first | (simp [typeInstr, Typing.step, Typing.stepMore] at hty; done) | skip
    obtain ⟨b, rfl⟩ := canon_bool hw.1 htc
    simp only [typeInstr] at hty
    obtain ⟨ta, tb, h1, h2⟩ := join_some hty
    simp only [Spec.eval]
    cases b with
    | true => exact hE bt st ta hw.2 hg.2 hl.1 h1
    | false => exact hE bf st tb hw.2 hg.2 hl.2 h2
  case IF_NONE bn bs =>
    rcases st with _ | ⟨c, st⟩
    · simp [typeInstr, Typing.step, Typing.stepMore] at hty
    rw [stackWF_cons] at hw
    rw [goodStack_cons] at hg
    simp only [literalsOk, Bool.and_eq_true] at hl
    simp only [List.map_cons] at hty
    generalize htc : typeOf c = tc at hty
    cases tc <;> first | (simp [typeInstr, Typing.step, Typing.stepMore] at hty; done) | skip
    rename_i t
    simp only [typeInstr] at hty
    obtain ⟨ta, tb, h1, h2⟩ := join_some hty
    rcases canon_option hw.1 htc with rfl | ⟨v, rfl, hwv, htv⟩
    · simp only [Spec.eval]
      exact hE bn st ta hw.2 hg.2 hl.1 h1
    · simp only [Spec.eval]
      exact hE bs (v :: st) tb (stackWF_cons.mpr ⟨hwv, hw.2⟩) (goodStack_cons.mpr ⟨by simpa using hg.1, hg.2⟩) hl.2
        (by simpa [htv] using h2)
  case IF_LEFT bl br =>
    rcases st with _ | ⟨c, st⟩
    · simp [typeInstr, Typing.step, Typing.stepMore] at hty
    rw [stackWF_cons] at hw
    rw [goodStack_cons] at hg
    simp only [literalsOk, Bool.and_eq_true] at hl
    simp only [List.map_cons] at hty
    generalize htc : typeOf c = tc at hty
    cases tc <;> first | (simp [typeInstr, Typing.step, Typing.stepMore] at hty; done) | skip
    rename_i l r
    simp only [typeInstr] at hty
    obtain ⟨ta, tb, h1, h2⟩ := join_some hty
    rcases canon_or hw.1 htc with ⟨v, rfl, hwv, htv⟩ | ⟨v, rfl, hwv, htv⟩
    · simp only [Spec.eval]
      exact hE bl (v :: st) ta (stackWF_cons.mpr ⟨hwv, hw.2⟩) (goodStack_cons.mpr ⟨by simpa using hg.1, hg.2⟩) hl.1
        (by simpa [htv] using h1)
    · simp only [Spec.eval]
      exact hE br (v :: st) tb (stackWF_cons.mpr ⟨hwv, hw.2⟩) (goodStack_cons.mpr ⟨by simpa using hg.1, hg.2⟩) hl.2
        (by simpa [htv] using h2)
  case IF_CONS bc bn =>
    rcases st with _ | ⟨c, st⟩
    · simp [typeInstr, Typing.step, Typing.stepMore] at hty
    rw [stackWF_cons] at hw
    rw [goodStack_cons] at hg
    simp only [literalsOk, Bool.and_eq_true] at hl
    simp only [List.map_cons] at hty
    generalize htc : typeOf c = tc at hty
    cases tc <;> first | (simp [typeInstr, Typing.step, Typing.stepMore] at hty; done) | skip
    rename_i t
    simp only [typeInstr] at hty
    obtain ⟨ta, tb, h1, h2⟩ := join_some hty
    obtain ⟨xs, rfl, hxs⟩ := canon_list hw.1 htc
    have hgx : GoodStack xs := by simpa using hg.1
    cases xs with
    | nil =>
      simp only [Spec.eval]
      exact hE bn st tb hw.2 hg.2 hl.2 h2
    | cons x xs =>
      simp only [Spec.eval]
      rw [goodStack_cons] at hgx
      have hx := hxs x (by simp)
      refine hE bc (x :: .list t xs :: st) ta ?_ ?_ hl.1 (by simpa [typeOf, hx.2] using h1)
      · rw [stackWF_cons, stackWF_cons, wf_list, allTy_iff]
        exact ⟨hx.1, fun y hy => hxs y (by simp [hy]), hw.2⟩
      · rw [goodStack_cons, goodStack_cons, litOk_list]
        exact ⟨hgx.1, hgx.2, hg.2⟩
  case LOOP body =>
    rcases st with _ | ⟨c, st⟩
    · simp [typeInstr, Typing.step, Typing.stepMore] at hty
    rw [stackWF_cons] at hw
    rw [goodStack_cons] at hg
    have hl0 := hl
    simp only [literalsOk] at hl
    have hty0 := hty
    simp only [List.map_cons] at hty
    generalize htc : typeOf c = tc at hty
    cases tc <;> first | (simp [typeInstr, Typing.step, Typing.stepMore] at hty; done) | skip
    obtain ⟨b, rfl⟩ := canon_bool hw.1 htc
    simp only [typeInstr] at hty
    cases b with
    | false => simp [Spec.eval, hg.2]
    | true =>
      simp only [Spec.eval]
      rcases loop_body_ty hty with hb | hb
      · refine (hE.ok body st _ hw.2 hg.2 hl hb).bind fun st1 _ h1 => ?_
        obtain ⟨g1, w1, e1⟩ := h1
        simp only [TRes.ok.injEq] at e1
        refine hE (.LOOP body) st1 tr w1 g1 hl0 ?_
        rw [← e1]; simpa [typeOf] using hty0
      · refine (hE.ok body st _ hw.2 hg.2 hl hb).bind fun st1 _ h1 => ?_
        cases h1.2.2
  case LOOP_LEFT body =>
    rcases st with _ | ⟨c, st⟩
    · simp [typeInstr, Typing.step, Typing.stepMore] at hty
    rw [stackWF_cons] at hw
    rw [goodStack_cons] at hg
    have hl0 := hl
    simp only [literalsOk] at hl
    have hty0 := hty
    simp only [List.map_cons] at hty
    generalize htc : typeOf c = tc at hty
    cases tc <;> first | (simp [typeInstr, Typing.step, Typing.stepMore] at hty; done) | skip
    rename_i l r
    simp only [typeInstr] at hty
    rcases canon_or hw.1 htc with ⟨v, rfl, hwv, htv⟩ | ⟨v, rfl, hwv, htv⟩
    · simp only [Spec.eval]
      have hwv' : StackWF (v :: st) := stackWF_cons.mpr ⟨hwv, hw.2⟩
      have hgv' : GoodStack (v :: st) := goodStack_cons.mpr ⟨by simpa using hg.1, hg.2⟩
      rcases loop_body_ty hty with hb | hb
      · refine (hE.ok body (v :: st) _ hwv' hgv' hl (by simpa [htv] using hb)).bind fun st1 _ h1 => ?_
        obtain ⟨g1, w1, e1⟩ := h1
        simp only [TRes.ok.injEq] at e1
        refine hE (.LOOP_LEFT body) st1 tr w1 g1 hl0 ?_
        rw [← e1]; simpa [typeOf, htv] using hty0
      · refine (hE.ok body (v :: st) _ hwv' hgv' hl (by simpa [htv] using hb)).bind fun st1 _ h1 => ?_
        cases h1.2.2
    · simp only [Spec.eval, safe_ok, goodStack_cons]
      exact ⟨by simpa using hg.1, hg.2⟩
  case ITER body =>
    rcases st with _ | ⟨c, st⟩
    · simp [typeInstr, Typing.step, Typing.stepMore] at hty
    rw [stackWF_cons] at hw
    rw [goodStack_cons] at hg
    simp only [literalsOk] at hl
    simp only [List.map_cons] at hty
    generalize htc : typeOf c = tc at hty
    cases tc <;> first | (simp [typeInstr, Typing.step, Typing.stepMore] at hty; done) | skip
    · -- list
      rename_i t
      simp only [typeInstr] at hty
      obtain ⟨xs, rfl, hxs⟩ := canon_list hw.1 htc
      simp only [Spec.eval]
      exact hI body xs st t hxs (by simpa using hg.1) hw.2 hg.2 hl (loop_body_ty hty)
    · -- map
      rename_i k v
      simp only [typeInstr] at hty
      obtain ⟨xs, rfl, hxs⟩ := canon_map hw.1 htc
      simp only [Spec.eval]
      exact hI body xs st (.pair k v) hxs ((litOk_map _ _ _).mp hg.1).2 hw.2 hg.2 hl (loop_body_ty hty)
    · -- set
      rename_i t
      simp only [typeInstr] at hty
      obtain ⟨xs, rfl, hxs⟩ := canon_set hw.1 htc
      simp only [Spec.eval]
      exact hI body xs st t hxs ((litOk_set _ _).mp hg.1).2 hw.2 hg.2 hl (loop_body_ty hty)
  case MAP body =>
    rcases st with _ | ⟨c, st⟩
    · simp [typeInstr, Typing.step, Typing.stepMore] at hty
    rw [stackWF_cons] at hw
    rw [goodStack_cons] at hg
    simp only [literalsOk] at hl
    simp only [List.map_cons] at hty
    generalize htc : typeOf c = tc at hty
    cases tc <;> first | (simp [typeInstr, Typing.step, Typing.stepMore] at hty; done) | skip
    · -- list
      rename_i t
      simp only [typeInstr] at hty
      obtain ⟨xs, rfl, hxs⟩ := canon_list hw.1 htc
      have hgx : GoodStack xs := by simpa using hg.1
      cases hb : typeInstr Mode.strict body (t :: st.map typeOf) with
      | none => simp [hb] at hty
      | some tb =>
        simp only [hb] at hty
        cases tb with
        | failed => simp at hty
        | ok sb =>
          cases sb with
          | nil => simp at hty
          | cons t' s' =>
            dsimp only at hty
            split at hty
            · rename_i hs''
              obtain ⟨hs', hkeep⟩ := hs''
              subst hs'
              have hb0 := typeInstr_lax hb
              -- the guard never fires: in guard mode the typing is strict, so the body keeps the element type
              have hoff : (Mode.guard && t' != t) = false := by
                cases hgd : Mode.guard with
                | false => rfl
                | true =>
                  rw [Mode.guard_strict hgd] at hkeep
                  simpa using hkeep
              simp only [Spec.eval]
              refine (hM body false xs st t t' hxs hgx hw.2 hg.2 hl hb (by simp)).bind fun p heq hp => ?_
              obtain ⟨ys, st1⟩ := p
              obtain ⟨g1, _, _, _⟩ := (sound_all env f).2.2.2 body false xs st ys st1 t t' hxs hw.2 hb (by simp) (evalMap_ok_plain heq)
              simp only
              have hlo : (Spec.listOf Mode.guard body t st ys).Safe (fun r => litOk r = true) := by
                cases ys with
                | nil => simp [Spec.listOf, Spec.mapOutTy, hb0, hoff, goodStack_nil]
                | cons y rest =>
                  have hall : ∀ z ∈ rest, typeOf z = typeOf y := fun z hz => by
                    rw [(g1 z (by simp [hz])).2, (g1 y (by simp)).2]
                  have hgy : GoodStack (y :: rest) := hp.1
                  simp only [Spec.listOf, List.all_eq_true, decide_eq_true_eq]
                  rw [if_pos hall]
                  simpa using hgy
              exact hlo.bind fun r _ hr => by simp [goodStack_cons, hr, hp.2.1]
            · simp at hty
    · -- map
      rename_i k v
      simp only [typeInstr] at hty
      obtain ⟨xs, rfl, hxs⟩ := canon_map hw.1 htc
      obtain ⟨hgm, hgx⟩ := (litOk_map _ _ _).mp hg.1
      cases hb : typeInstr Mode.strict body (.pair k v :: st.map typeOf) with
      | none => simp [hb] at hty
      | some tb =>
        simp only [hb] at hty
        cases tb with
        | failed => simp at hty
        | ok sb =>
          cases sb with
          | nil => simp at hty
          | cons t' s' =>
            dsimp only at hty
            split at hty
            · rename_i hs''
              obtain ⟨hs', hkeep⟩ := hs''
              subst hs'
              have hb0 := typeInstr_lax hb
              -- the guard never fires: in guard mode the typing is strict, so the body keeps the element type
              have hoff : (Mode.guard && t' != v) = false := by
                cases hgd : Mode.guard with
                | false => rfl
                | true =>
                  rw [Mode.guard_strict hgd] at hkeep
                  simpa using hkeep
              simp only [Spec.eval]
              refine (hM body true xs st (.pair k v) t' hxs hgx hw.2 hg.2 hl hb (fun _ => ⟨k, v, rfl⟩)).bind fun p heq hp => ?_
              obtain ⟨ys, st1⟩ := p
              obtain ⟨g1, _, _, _⟩ :=
                (sound_all env f).2.2.2 body true xs st ys st1 (.pair k v) t' hxs hw.2 hb (fun _ => ⟨k, v, rfl⟩) (evalMap_ok_plain heq)
              obtain ⟨hkeys, hpairs⟩ := hp.2.2 rfl
              simp only
              have hlo : (Spec.mapOf Mode.guard body k v st ys).Safe (fun r => litOk r = true) := by
                cases ys with
                | nil => simp [Spec.mapOf, Spec.mapOutTy, hb0, hoff, litOk_map, goodStack_nil, goodMap, strictSorted]
                | cons y rest =>
                  obtain ⟨a, b, rfl⟩ := hpairs y (by simp)
                  have hy := (g1 _ (List.mem_cons_self)).2
                  simp only [itemTy, typeOf, Ty.pair.injEq] at hy
                  have hall : ∀ z ∈ rest, typeOf z = .pair (typeOf a) (typeOf b) := fun z hz => by
                    rw [(g1 z (by simp [hz])).2, hy.1, hy.2]; rfl
                  have hgy : GoodStack (.pair a b :: rest) := hp.1
                  simp only [Spec.mapOf, List.all_eq_true, decide_eq_true_eq]
                  rw [if_pos hall]
                  simp only [safe_ok, litOk_map]
                  refine ⟨fun hsc => ?_, hgy⟩
                  rw [hy.1] at hsc ⊢
                  exact goodMap_keysKept (hgm hsc) hkeys hpairs
              exact hlo.bind fun r _ hr => by simp [goodStack_cons, hr, hp.2.1]
            · simp at hty
  case EXEC =>
    rcases st with _ | ⟨a, _ | ⟨l, st⟩⟩
    · simp [typeInstr, Typing.step, Typing.stepMore] at hty
    · simp [typeInstr, Typing.step, Typing.stepMore] at hty
    rw [stackWF_cons, stackWF_cons] at hw
    rw [goodStack_cons, goodStack_cons] at hg
    simp only [List.map_cons] at hty
    generalize htl : typeOf l = tl at hty
    cases tl <;> first | (simp [typeInstr, Typing.step, Typing.stepMore] at hty; done) | skip
    rename_i ta tb
    obtain ⟨body, rfl, hbody⟩ := canon_lambda hw.2.1 htl
    simp only [typeInstr] at hty
    split at hty
    · rename_i hta
      have hlb : literalsOk body = true := by simpa using hg.2.1
      have hw1 : StackWF [a] := stackWF_cons.mpr ⟨hw.1, stackWF_nil⟩
      have hg1 : GoodStack [a] := goodStack_cons.mpr ⟨hg.1, goodStack_nil⟩
      simp only [Spec.eval, hta, if_true]
      rcases hbody with hb | hb
      · refine (hE.ok body [a] _ hw1 hg1 hlb (by simpa [hta] using hb)).bind fun r _ h1 => ?_
        obtain ⟨g1, _, e1⟩ := h1
        simp only [TRes.ok.injEq] at e1
        rcases r with _ | ⟨y, _ | ⟨z, r⟩⟩
        · simp at e1
        · simp only [List.map_cons, List.map_nil, List.cons.injEq, and_true] at e1
          rw [goodStack_cons] at g1
          simp [← e1, goodStack_cons, g1.1, hg.2.2]
        · simp at e1
      · refine (hE.ok body [a] _ hw1 hg1 hlb (by simpa [hta] using hb)).bind fun r _ h1 => ?_
        cases h1.2.2
    · simp at hty

end
end Interp

namespace Interp
variable [Mode]
open Typing

theorem safe_all (env : Env) : ∀ f, SafeE env f ∧ SafeS env f ∧ SafeI env f ∧ SafeM env f
  | 0 => by
    refine ⟨?_, ?_, ?_, ?_⟩
    · intro i st tr _ _ _ _; simp [Spec.eval]
    · intro is st tr _ hg _ _; cases is <;> simp [Spec.evalSeq, hg]
    · intro body xs st t _ _ _ hg _ _; cases xs <;> simp [Spec.evalIter, hg]
    · intro body isMap xs st t t' _ _ _ hg _ _ _; cases xs <;> simp [Spec.evalMap, hg, goodStack_nil, KeysKept]
  | f + 1 =>
    have ⟨hE, hS, hI, hM⟩ := safe_all env f
    ⟨safeE_succ env f hE hS hI hM, safeS_succ env f hE hS, safeI_succ env f hE hI, safeM_succ env f hE hM⟩

/-- a well-typed value: a well-formed value of its runtime type (deep: the elements of collections, the bodies of
lambdas — C02's `HasTy`) in which every set and every map with simple comparable keys is strictly sorted -/
def WellFormed (v : Val) : Prop := WF v ∧ litOk v = true

/-- **progress**: a well-typed program on a well-typed stack is never stuck — for every fuel bound the reference
semantics yields a stack, a FAILWITH value, a runtime failure (mutez overflow, shift by more than 256 bits), or runs out
of fuel.  (`tr` is the static result: `.ok τs`, or `.failed` for a program that always fails.) -/
theorem progress (env : Env) (fuel : Nat) (i : Instr) (st : List Val) (tr : TRes)
    (hty : typeInstr Mode.strict i (st.map typeOf) = some tr) (hwf : ∀ v ∈ st, WellFormed v) (hlit : literalsOk i = true) :
    Spec.eval Mode.guard env fuel i st ≠ .stuck :=
  ((safe_all env fuel).1 i st tr (fun v hv => (hwf v hv).1) (fun v hv => (hwf v hv).2) hlit hty).ne_stuck

/-- the invariant is preserved: the values a well-typed program leaves on the stack are well-typed values again (the
typing half is C02's `preservation`) -/
theorem wellFormed_preserved (env : Env) (fuel : Nat) (i : Instr) (st st' : List Val) (tr : TRes)
    (hty : typeInstr Mode.strict i (st.map typeOf) = some tr) (hwf : ∀ v ∈ st, WellFormed v) (hlit : literalsOk i = true)
    (hev : Spec.eval Mode.guard env fuel i st = .ok st') : ∀ v ∈ st', WellFormed v := by
  have hw : StackWF st := fun v hv => (hwf v hv).1
  have hg : GoodStack st := fun v hv => (hwf v hv).2
  have h1 := ((safe_all env fuel).1 i st tr hw hg hlit hty).of_ok hev
  have h2 := ((sound_all env fuel).1 i st st' tr hw (eval_ok_plain hev) hty).1
  exact fun v hv => ⟨h2 v hv, h1 v hv⟩

/-- the reference semantics of the mode never answers `offguard`: trivially the unguarded one, and — the content of the
strict mode — the *guarded* one on strictly typed programs -/
theorem eval_ne_offguard (env : Env) (fuel : Nat) (i : Instr) (st : List Val) (tr : TRes)
    (hty : typeInstr Mode.strict i (st.map typeOf) = some tr) (hwf : ∀ v ∈ st, WellFormed v) (hlit : literalsOk i = true) :
    Spec.eval Mode.guard env fuel i st ≠ .offguard :=
  ((safe_all env fuel).1 i st tr (fun v hv => (hwf v hv).1) (fun v hv => (hwf v hv).2) hlit hty).ne_offguard

end Interp
