import PytezosModel.Client.Merkle
/-! Helper lemmas for C31: the loop invariant of `step` stated over the infinite padded tree `node`. -/
namespace Proofs.C31
open Impl.Merkle Spec.Merkle Generated.C31

/-- the parameters the proof is written for (what the pinned source contains) -/
def P0 : Params := { halfAdd := 1, halfDiv := 2, lMul := 2, lAdd := 0, rMul := 2, rAdd := 1 }

/-- node `i` of level `j` of the infinite tree over the leaf sequence `leaf` -/
def node (H : Bytes → Bytes) (leaf : Nat → Bytes) : Nat → Nat → Bytes
  | 0, i => leaf i
  | j + 1, i => H (node H leaf j (2 * i) ++ node H leaf j (2 * i + 1))

/-! ### `height` -/

theorem height_le (n : Nat) : n ≤ 2 ^ height n := by
  unfold height
  split
  · have : 0 < 2 ^ 0 := by decide
    omega
  · have := @Nat.lt_log2_self (n - 1)
    omega

theorem height_gt (n : Nat) (h : 1 < n) : 2 ^ (height n - 1) < n := by
  unfold height
  rw [if_neg (by omega)]
  have := @Nat.log2_self_le (n - 1) (by omega)
  simp only [Nat.add_sub_cancel]
  omega

theorem height_unique (n k : Nat) (h1 : n ≤ 2 ^ k) (h2 : k = 0 ∨ 2 ^ (k - 1) < n) (h0 : 1 ≤ n) : height n = k := by
  have hle := height_le n
  by_cases hn : n ≤ 1
  · have hn1 : n = 1 := by omega
    subst hn1
    have hh : height 1 = 0 := by simp [height]
    rw [hh]
    rcases h2 with h2 | h2
    · omega
    · have : 0 < 2 ^ (k - 1) := Nat.two_pow_pos _
      omega
  · have hgt := height_gt n (by omega)
    -- 2^(height n - 1) < n ≤ 2^k  and  2^(k-1) < n ≤ 2^(height n)
    have hk : k ≠ 0 := by
      intro hk; subst hk; simp at h1; omega
    have h2' : 2 ^ (k - 1) < n := by rcases h2 with h2 | h2; exact absurd h2 hk; exact h2
    have a : 2 ^ (height n - 1) < 2 ^ k := by omega
    have b : 2 ^ (k - 1) < 2 ^ height n := by omega
    rw [Nat.pow_lt_pow_iff_right (by decide)] at a b
    have hh : height n ≠ 0 := by
      intro hh; rw [hh] at hle; simp at hle; omega
    omega

theorem height_pow (k : Nat) : height (2 ^ k) = k := by
  apply height_unique
  · exact Nat.le_refl _
  · cases k with
    | zero => left; rfl
    | succ k =>
      right
      simp only [Nat.add_sub_cancel]
      exact Nat.pow_lt_pow_right (by decide) (by omega)
  · exact Nat.two_pow_pos _

/-- halving a level lowers the height by one -/
theorem height_half (c : Nat) (hc : 2 ≤ c) : height ((c + 1) / 2) + 1 = height c := by
  have hle := height_le c
  have hgt := height_gt c (by omega)
  have hk : height c ≠ 0 := by
    intro hh; rw [hh] at hle; simp at hle; omega
  obtain ⟨k, hk'⟩ : ∃ k, height c = k + 1 := ⟨height c - 1, by omega⟩
  rw [hk'] at hle hgt ⊢
  simp only [Nat.add_sub_cancel] at hgt
  have e : 2 ^ (k + 1) = 2 * 2 ^ k := by rw [Nat.pow_succ, Nat.mul_comm]
  have : height ((c + 1) / 2) = k := by
    apply height_unique
    · omega
    · cases k with
      | zero => left; rfl
      | succ k =>
        right
        simp only [Nat.add_sub_cancel]
        have e2 : 2 ^ (k + 1) = 2 * 2 ^ k := by rw [Nat.pow_succ, Nat.mul_comm]
        omega
    · omega
  omega

/-- an odd count is not a power of two, so one more (padding) node does not change the height -/
theorem height_succ_odd (m : Nat) (h3 : 3 ≤ m) (hodd : m % 2 = 1) : height (m + 1) = height m := by
  have hle := height_le m
  have hgt := height_gt m (by omega)
  have hk : height m ≠ 0 := by
    intro hh; rw [hh] at hle; simp at hle; omega
  obtain ⟨k, hk'⟩ : ∃ k, height m = k + 1 := ⟨height m - 1, by omega⟩
  rw [hk'] at hle hgt ⊢
  simp only [Nat.add_sub_cancel] at hgt
  have e : 2 ^ (k + 1) = 2 * 2 ^ k := by rw [Nat.pow_succ, Nat.mul_comm]
  apply height_unique
  · omega
  · right
    simp only [Nat.add_sub_cancel]
    omega
  · omega

/-! ### the reference tree over a window of the infinite tree -/

theorem tree_window (H : Bytes → Bytes) (leaf : Nat → Bytes) (j : Nat) :
    ∀ k s, tree H k ((List.range' (s * 2 ^ k) (2 ^ k)).map (node H leaf j)) = some (node H leaf (j + k) s) := by
  intro k
  induction k with
  | zero => intro s; simp [tree]
  | succ k ih =>
    intro s
    have e : 2 ^ (k + 1) = 2 ^ k + 2 ^ k := by rw [Nat.pow_succ]; omega
    have hpos : 0 < 2 ^ k := Nat.two_pow_pos _
    have ht : List.take (2 ^ k) (List.range' (s * 2 ^ (k + 1)) (2 ^ (k + 1))) = List.range' ((2 * s) * 2 ^ k) (2 ^ k) := by
      rw [List.take_range'_of_length_ge (by omega)]
      congr 1
      rw [e, Nat.mul_add, Nat.mul_assoc, Nat.two_mul]
    have hd : List.drop (2 ^ k) (List.range' (s * 2 ^ (k + 1)) (2 ^ (k + 1))) = List.range' ((2 * s + 1) * 2 ^ k) (2 ^ k) := by
      rw [List.drop_range']
      congr 1
      · rw [e, Nat.mul_add, Nat.add_mul, Nat.mul_assoc, Nat.two_mul]; omega
      · omega
    simp only [tree, ← List.map_take, ← List.map_drop, ht, hd, ih, Option.bind_eq_bind, Option.bind_some]
    rfl

/-! ### the in-place algorithm -/

theorem pairLoop_spec (H : Bytes → Bytes) (f : Nat → Bytes) (a0 : List Bytes) (c m : Nat)
    (hlen : c < a0.length) (hf : ∀ i, i ≤ c → a0[i]? = some (f i)) (hm : 2 * m ≤ c + 1) :
    ∀ k i a, i + k = m → a.length = a0.length →
      (∀ t, t < i → a[t]? = some (H (f (2 * t) ++ f (2 * t + 1)))) →
      (∀ t, i ≤ t → a[t]? = a0[t]?) →
      ∃ a', pairLoop P0 H k i a = some a' ∧ a'.length = a0.length ∧
        (∀ t, t < m → a'[t]? = some (H (f (2 * t) ++ f (2 * t + 1)))) ∧
        (∀ t, m ≤ t → a'[t]? = a0[t]?) := by
  intro k
  induction k with
  | zero =>
    intro i a hik hl h1 h2
    have : i = m := by omega
    subst this
    exact ⟨a, rfl, hl, h1, h2⟩
  | succ k ih =>
    intro i a hik hl h1 h2
    have r1 : a[2 * i]? = some (f (2 * i)) := by rw [h2 _ (by omega)]; exact hf _ (by omega)
    have r2 : a[2 * i + 1]? = some (f (2 * i + 1)) := by rw [h2 _ (by omega)]; exact hf _ (by omega)
    have hi : i < a.length := by omega
    simp only [pairLoop, P0, Nat.add_zero, r1, r2, setAt, hi, if_true, Option.bind_eq_bind, Option.bind_some]
    apply ih (i + 1) _ (by omega) (by simp [hl])
    · intro t ht
      by_cases hti : t = i
      · subst hti; rw [List.getElem?_set_self hi]
      · rw [List.getElem?_set_ne (by omega)]; exact h1 t (by omega)
    · intro t ht
      rw [List.getElem?_set_ne (by omega)]; exact h2 t (by omega)

/-- loop invariant of `step`: the first `c` cells are the nodes of level `j`, cell `c` is the all-padding node of that
level (every node from index `c` on equals it), and `j` levels have been consumed out of `h` -/
structure Inv (H : Bytes → Bytes) (leaf : Nat → Bytes) (h j c : Nat) (a : List Bytes) : Prop where
  len : c < a.length
  cells : ∀ i, i ≤ c → a[i]? = some (node H leaf j i)
  pad : ∀ i, c ≤ i → node H leaf j i = node H leaf j c
  two : 2 ≤ c
  lvl : j + height c = h

theorem step_spec (H : Bytes → Bytes) (leaf : Nat → Bytes) (h : Nat) :
    ∀ fuel j c a, c ≤ fuel → Inv H leaf h j c a → step P0 H fuel c a = some (node H leaf h 0) := by
  intro fuel
  induction fuel with
  | zero => intro j c a hf inv; have := inv.two; omega
  | succ fuel ih =>
    intro j c a hf inv
    obtain ⟨hlen, hcells, hpad, htwo, hlvl⟩ := inv
    have hmdef : (c + P0.halfAdd) / P0.halfDiv = (c + 1) / 2 := rfl
    obtain ⟨a1, hloop, hl1, hlow, hhigh⟩ :=
      pairLoop_spec H (node H leaf j) a c ((c + 1) / 2) hlen hcells (by omega) ((c + 1) / 2) 0 a (by omega) rfl
        (by intro t ht; omega) (by intro t _; rfl)
    have hm1 : 1 ≤ (c + 1) / 2 := by omega
    have hmc : (c + 1) / 2 < c := by omega
    have hc1 : a1[c]? = some (node H leaf j c) := by rw [hhigh c (by omega)]; exact hcells c (Nat.le_refl _)
    have hmlen : (c + 1) / 2 < a1.length := by omega
    -- the array after `a[m] = H(a[n] ++ a[n])`
    have hcells2 : ∀ i, i ≤ (c + 1) / 2 → (a1.set ((c + 1) / 2) (H (node H leaf j c ++ node H leaf j c)))[i]? = some (node H leaf (j + 1) i) := by
      intro i hi
      by_cases him : i = (c + 1) / 2
      · subst him
        rw [List.getElem?_set_self hmlen]
        simp only [node]
        rw [hpad (2 * ((c + 1) / 2)) (by omega), hpad (2 * ((c + 1) / 2) + 1) (by omega)]
      · rw [List.getElem?_set_ne (by omega), hlow i (by omega)]
        rfl
    have hpad2 : ∀ i, (c + 1) / 2 ≤ i → node H leaf (j + 1) i = node H leaf (j + 1) ((c + 1) / 2) := by
      intro i hi
      simp only [node]
      rw [hpad (2 * i) (by omega), hpad (2 * i + 1) (by omega), hpad (2 * ((c + 1) / 2)) (by omega),
        hpad (2 * ((c + 1) / 2) + 1) (by omega)]
    have hh := height_half c htwo
    simp only [step, hmdef, hloop, hc1, setAt, hmlen, if_true, Option.bind_eq_bind, Option.bind_some]
    by_cases hm : (c + 1) / 2 = 1
    · -- last level
      simp only [hm, if_true]
      have := hcells2 0 (by omega)
      rw [hm] at this
      rw [this]
      have hh1 : height 1 = 0 := by simp [height]
      rw [hm, hh1] at hh
      have : j + 1 = h := by omega
      rw [this]
    · simp only [hm, if_false]
      by_cases hev : (c + 1) / 2 % 2 = 0
      · simp only [hev, if_true]
        apply ih (j + 1) ((c + 1) / 2) _ (by omega)
        exact ⟨by simp; omega, hcells2, hpad2, by omega, by omega⟩
      · simp only [hev, if_false]
        have hmm := hcells2 ((c + 1) / 2) (Nat.le_refl _)
        have hlen2 : (c + 1) / 2 + 1 < (a1.set ((c + 1) / 2) (H (node H leaf j c ++ node H leaf j c))).length := by
          simp; omega
        simp only [hmm, hlen2, if_true, Option.bind_some]
        apply ih (j + 1) ((c + 1) / 2 + 1) _ (by omega)
        have hso := height_succ_odd ((c + 1) / 2) (by omega) (by omega)
        refine ⟨by simp; omega, ?_, ?_, by omega, by omega⟩
        · intro i hi
          by_cases him : i = (c + 1) / 2 + 1
          · subst him
            rw [List.getElem?_set_self hlen2, hpad2 ((c + 1) / 2 + 1) (by omega)]
          · rw [List.getElem?_set_ne (by omega)]
            exact hcells2 i (by omega)
        · intro i hi
          rw [hpad2 i (by omega), hpad2 ((c + 1) / 2 + 1) (by omega)]

/-! ### the padded leaf sequence -/

/-- leaf `i` of the padded sequence: the last element is repeated for ever -/
def leafOf (L : List Bytes) (i : Nat) : Bytes := L.getD (min i (L.length - 1)) []

theorem padPow2_eq (L : List Bytes) (hL : L ≠ []) :
    padPow2 L = (List.range' 0 (2 ^ height L.length)).map (leafOf L) := by
  have hpos : 0 < L.length := List.length_pos_iff.mpr hL
  have hle := height_le L.length
  unfold padPow2
  rw [List.getLast?_eq_getElem?]
  have hlast : L[L.length - 1]? = some (L[L.length - 1]'(by omega)) := List.getElem?_eq_getElem (by omega)
  rw [hlast]
  apply List.ext_getElem?
  intro i
  by_cases hi : i < L.length
  · rw [List.getElem?_append_left hi, List.getElem?_map, List.getElem?_range' (by omega)]
    simp only [Option.map_some, leafOf, Nat.zero_add, Nat.one_mul]
    rw [Nat.min_eq_left (by omega), List.getD_eq_getElem?_getD, List.getElem?_eq_getElem hi]
    rfl
  · rw [List.getElem?_append_right (by omega), List.getElem?_replicate, List.getElem?_map]
    by_cases hi2 : i < 2 ^ height L.length
    · rw [if_pos (by omega), List.getElem?_range' hi2]
      simp only [Option.map_some, leafOf, Nat.zero_add, Nat.one_mul]
      rw [Nat.min_eq_right (by omega), List.getD_eq_getElem?_getD, hlast]
      rfl
    · rw [if_neg (by omega)]
      have : (List.range' 0 (2 ^ height L.length))[i]? = none := by
        apply List.getElem?_eq_none; simp; omega
      rw [this]; rfl

theorem root_padPow2 (H : Bytes → Bytes) (L : List Bytes) (hL : L ≠ []) :
    root H (padPow2 L) = some (node H (leafOf L) (height L.length) 0) := by
  have hlen : (padPow2 L).length = 2 ^ height L.length := by rw [padPow2_eq L hL]; simp
  unfold root
  rw [hlen, height_pow, padPow2_eq L hL]
  have e : node H (leafOf L) 0 = leafOf L := by funext i; rfl
  have := tree_window H (leafOf L) 0 (height L.length) 0
  rw [e] at this
  simpa using this

theorem reduceWith_spec (H : Bytes → Bytes) (xs : List Bytes) (hxs : xs ≠ []) :
    reduceWith P0 H xs = root H (padPow2 (xs.map H)) := by
  have hL : xs.map H ≠ [] := by simpa using hxs
  rw [root_padPow2 H _ hL]
  match xs, hxs with
  | [x], _ =>
    simp [reduceWith, height, node, leafOf]
  | x :: y :: rest, _ =>
    have hmap : (List.map (fun x => H (x ++ [])) (x :: y :: rest)) = (x :: y :: rest).map H := by
      apply List.map_congr_left; intro a _; simp
    unfold reduceWith
    simp only [hmap]
    generalize hLd : (x :: y :: rest).map H = L at *
    have hN : L.length = (x :: y :: rest).length := by rw [← hLd]; simp
    have h2 : 2 ≤ L.length := by rw [hN]; simp
    have hlast : L.getLast? = some (L[L.length - 1]'(by omega)) := by
      rw [List.getLast?_eq_getElem?]; exact List.getElem?_eq_getElem (by omega)
    rw [hlast]
    simp only
    rw [← hN]
    apply step_spec H (leafOf L) (height L.length) L.length 0 L.length _ (Nat.le_refl _)
    refine ⟨by simp, ?_, ?_, h2, by omega⟩
    · intro i hi
      simp only [node, leafOf]
      by_cases hil : i < L.length
      · rw [List.getElem?_append_left hil, Nat.min_eq_left (by omega), List.getD_eq_getElem?_getD,
          List.getElem?_eq_getElem hil]
        rfl
      · have : i = L.length := by omega
        subst this
        have hlast' : L[L.length - 1]? = some (L[L.length - 1]'(by omega)) := List.getElem?_eq_getElem (by omega)
        rw [List.getElem?_append_right (Nat.le_refl _), Nat.min_eq_right (by omega), List.getD_eq_getElem?_getD, hlast']
        simp
    · intro i hi
      simp only [node, leafOf]
      rw [Nat.min_eq_right (by omega), Nat.min_eq_right (by omega)]

end Proofs.C31
