import PytezosModel.Proofs.C19Pair
import PytezosModel.Proofs.C19Values
import PytezosModel.Proofs.C19Grammar
/-! C19 helper lemmas: handler equations used by the property theorems, and the direction "accepted ⟹ reference name" of
the name grammar (one case per entry of the macro table). -/
set_option linter.unusedSimpArgs false
namespace C19.Names
open Impl.Macros Generated.C19 Spec Sem C19.Dispatch C19.Expand C19.Pair C19.Values C19.Grammar

theorem eval_op (ext : Ext) (op : List Char) (hop : op ∈ ops) (an : List String) :
    eval ext (.prim (String.ofList op) [] an) = eval ext (prim0 (String.ofList op)) := by
  simp only [ops, List.mem_cons, List.not_mem_nil, or_false] at hop
  funext S
  rcases hop with rfl | rfl | rfl | rfl | rfl | rfl <;> simp [eval, op0, prim0]

theorem eval_COMPARE (ext : Ext) (an : List String) : eval ext (.prim "COMPARE" [] an) = compareStep := by
  funext S; simp [eval, op0]

theorem runHandler_dixp (recur : Recur) (g : List Char) (code : Mich) :
    runHandler recur "expand_dixp" g [] [code] = .ok (dipN (.seq [code]) g.length) := rfl

theorem runHandler_duxp (recur : Recur) (g : List Char) (an : List String) :
    runHandler recur "expand_duxp" g an [] = .ok (.prim "DUP" [.int g.length] an) := rfl

theorem runHandler_pxr (recur : Recur) (g : List Char) (an : List String) :
    runHandler recur "expand_pxr" g an [] =
      (buildPxrTree g (fieldAnnots an)).bind fun t => .ok (.seq (pxrWalk (pairProduce an) t).reverse) := by
  show (do let res ← traversePxr g (fieldAnnots an) (pairProduce an); pure (Mich.seq res) : M Mich) = _
  unfold traversePxr
  cases buildPxrTree g (fieldAnnots an) <;> rfl

theorem runHandler_unpxr (recur : Recur) (g : List Char) (an : List String) :
    runHandler recur "expand_unpxr" g an [] =
      (buildPxrTree g an).bind fun t => .ok (.seq (pxrWalk unpairProduce t).reverse.reverse) := by
  show (do let res ← traversePxr g an unpairProduce; pure (Mich.seq res.reverse) : M Mich) = _
  unfold traversePxr
  cases buildPxrTree g an <;> rfl

theorem pxr_run_inv (recur : Recur) (g : List Char) (an : List String) (args : List Mich) (res : Mich)
    (h : runHandler recur "expand_pxr" g an args = .ok res) : ∃ px, buildPxrTree g (fieldAnnots an) = .ok px := by
  cases args with
  | cons a as => exact absurd h (by show Except.error Err.assertion ≠ _; simp)
  | nil =>
    rw [runHandler_pxr] at h
    cases hb : buildPxrTree g (fieldAnnots an) with
    | ok px => exact ⟨px, rfl⟩
    | error e => rw [hb] at h; cases h

theorem unpxr_run_inv (recur : Recur) (g : List Char) (an : List String) (args : List Mich) (res : Mich)
    (h : runHandler recur "expand_unpxr" g an args = .ok res) : ∃ px, buildPxrTree g an = .ok px := by
  cases args with
  | cons a as => exact absurd h (by show Except.error Err.assertion ≠ _; simp)
  | nil =>
    rw [runHandler_unpxr] at h
    cases hb : buildPxrTree g an with
    | ok px => exact ⟨px, rfl⟩
    | error e => rw [hb] at h; cases h

/-- a successful `expand` of a non-primitive went through a table entry whose regex matched and whose handler
succeeded -/
theorem expand_ok_inv (fuel : Nat) (s : List Char) (an : List String) (args : List Mich) (internal : Bool) (m : Mich)
    (ht : tags.contains s = false) (h : expand (fuel + 1) s an args internal = .ok m) :
    ∃ hd g res, dispatch handlers s = .ok (some (hd, g)) ∧
      runHandler (fun p a r => expand fuel p a r true) hd.func g an args = .ok res := by
  have hc : coreOk = true := rfl
  rw [expand, primTags_eq] at h
  simp only [hc, ht, Bool.not_true, Bool.false_eq_true, if_false, bind, Except.bind] at h
  cases hd : dispatch handlers s with
  | error e => rw [hd] at h; cases h
  | ok o =>
    rw [hd] at h
    cases o with
    | none => cases h
    | some x =>
      obtain ⟨hh, g⟩ := x
      simp only at h
      split at h
      · cases h
      · cases hr : runHandler (fun p a r => expand fuel p a r true) hh.func g an args with
        | error e => rw [hr] at h; cases h
        | ok res => exact ⟨hh, g, res, rfl, hr⟩

theorem macroName_of_accepts (s : List Char) (hnl : '\n' ∉ s) (ht : tags.contains s = false) (args : List Mich)
    (m : Mich) (h : expandMacro s [] args = .ok m) : MacroName s := by
  obtain ⟨hd, g, res, hdisp, hrun⟩ := expand_ok_inv _ _ _ _ _ _ ht h
  obtain ⟨p, hmem, hp, hf⟩ := dispatch_inv _ _ _ _ hdisp
  simp only [handlers, List.mem_cons, List.not_mem_nil, or_false] at hmem
  rcases hmem with rfl | rfl | rfl | rfl | rfl | rfl | rfl | rfl | rfl | rfl | rfl | rfl | rfl | rfl | rfl | rfl | rfl | rfl | rfl | rfl | rfl | rfl | rfl | rfl | rfl | rfl | rfl
  all_goals (simp only [Option.some.injEq] at hp; subst hp)
  · -- handler 0
    obtain ⟨hs', hg⟩ := shape_alts _ _ _ _ hnl hf
    have hop : g ∈ ops := by
      simp only [List.mem_cons, List.not_mem_nil, or_false] at hg
      rcases hg with h | h | h | h | h | h <;> simp [ops, h]
    exact Or.inl ⟨g, hop, Or.inl (by rw [hs']; rfl)⟩
  · -- handler 1
    obtain ⟨hs', hg⟩ := shape_alts _ _ _ _ hnl hf
    have hop : g ∈ ops := by
      simp only [List.mem_cons, List.not_mem_nil, or_false] at hg
      rcases hg with h | h | h | h | h | h <;> simp [ops, h]
    exact Or.inl ⟨g, hop, Or.inr <| Or.inl (by rw [hs']; rfl)⟩
  · -- handler 2
    obtain ⟨hs', hg⟩ := shape_alts _ _ _ _ hnl hf
    have hop : g ∈ ops := by
      simp only [List.mem_cons, List.not_mem_nil, or_false] at hg
      rcases hg with h | h | h | h | h | h <;> simp [ops, h]
    exact Or.inl ⟨g, hop, Or.inr <| Or.inr <| Or.inl (by rw [hs']; rfl)⟩
  · -- handler 3
    obtain ⟨hs', _⟩ := shape_lit _ _ _ hnl hf
    exact Or.inr (Or.inl (by rw [hs']; decide))
  · -- handler 4
    obtain ⟨hs', _⟩ := shape_lit _ _ _ hnl hf
    exact Or.inr (Or.inl (by rw [hs']; decide))
  · -- handler 5
    obtain ⟨hs', hg⟩ := shape_alts _ _ _ _ hnl hf
    have hop : g ∈ ops := by
      simp only [List.mem_cons, List.not_mem_nil, or_false] at hg
      rcases hg with h | h | h | h | h | h <;> simp [ops, h]
    exact Or.inl ⟨g, hop, Or.inr <| Or.inr <| Or.inr <| Or.inl (by rw [hs']; rfl)⟩
  · -- handler 6
    obtain ⟨hs', hg⟩ := shape_alts _ _ _ _ hnl hf
    have hop : g ∈ ops := by
      simp only [List.mem_cons, List.not_mem_nil, or_false] at hg
      rcases hg with h | h | h | h | h | h <;> simp [ops, h]
    exact Or.inl ⟨g, hop, Or.inr <| Or.inr <| Or.inr <| Or.inr (by rw [hs']; rfl)⟩
  · -- handler 7
    obtain ⟨hs', _⟩ := shape_lit _ _ _ hnl hf
    exact Or.inr (Or.inl (by rw [hs']; decide))
  · -- handler 8
    obtain ⟨hs', _⟩ := shape_lit _ _ _ hnl hf
    exact Or.inr (Or.inl (by rw [hs']; decide))
  · -- handler 9
    obtain ⟨hs', _⟩ := shape_lit _ _ _ hnl hf
    exact Or.inr (Or.inl (by rw [hs']; decide))
  · -- handler 10
    obtain ⟨hs', _⟩ := shape_lit _ _ _ hnl hf
    exact Or.inr (Or.inl (by rw [hs']; decide))
  · -- handler 11
    obtain ⟨p, _, hs', hlen, hall⟩ := shape_two _ _ _ _ _ _ _ hnl hf
    have hp := chars_rep 'I' p hall
    refine Or.inr (Or.inr (Or.inl ⟨p.length + 1, by omega, Or.inl ?_⟩))
    rw [hs', hp]
    simp [dipName, List.replicate_succ]
  · -- handler 12
    obtain ⟨p, _, hs', hlen, hall⟩ := shape_two _ _ _ _ _ _ _ hnl hf
    have hp := chars_rep 'U' p hall
    refine Or.inr (Or.inr (Or.inl ⟨p.length + 1, by omega, Or.inr ?_⟩))
    rw [hs', hp]
    simp [dupName, List.replicate_succ]
  · -- handler 13
    obtain ⟨hg, p, hs', hlen, _⟩ := shape_many_whole _ _ _ _ _ _ hnl hf
    rw [hg] at hrun
    obtain ⟨px, hpx⟩ := pxr_run_inv _ _ _ _ _ hrun
    obtain ⟨l, r, hname⟩ := buildPxrTree_sound _ _ _ hpx
    refine Or.inr (Or.inr (Or.inr (Or.inl ⟨.node l r, ?_, Or.inl hname⟩)))
    have h1 : s.length = 2 * (PairTree.node l r).leaves := by
      rw [hname, pairName, List.length_append, List.length_singleton]; exact body_length _ _
    have h2 : s.length = p.length + 2 := by
      rw [hs']; simp only [List.length_append, List.length_cons, List.length_nil]; omega
    omega
  · -- handler 14
    obtain ⟨p, hg, hs', hlen, _⟩ := shape_three _ _ _ _ _ _ _ hnl hf
    obtain ⟨px, hpx⟩ := unpxr_run_inv _ _ _ _ _ hrun
    obtain ⟨l, r, hname⟩ := buildPxrTree_sound _ _ _ hpx
    refine Or.inr (Or.inr (Or.inr (Or.inl ⟨.node l r, ?_, Or.inr (by rw [hs', hname]; rfl)⟩)))
    have h1 : g.length = 2 * (PairTree.node l r).leaves := by
      rw [hname, pairName, List.length_append, List.length_singleton]; exact body_length _ _
    have h2 : g.length = p.length + 2 := by
      rw [hg]; simp only [List.length_append, List.length_cons, List.length_nil]; omega
    omega
  · -- handler 15
    obtain ⟨hs', hlen, hall⟩ := shape_many _ _ _ _ _ _ hnl hf
    obtain ⟨q, hq, hql⟩ := chars_path g hall
    refine Or.inr (Or.inr (Or.inr (Or.inr (Or.inl ⟨.A :: q, by simp; omega, ?_⟩))))
    rw [hs', hq]
    simp [cadrName, pathChars, Dir.char]
  · -- handler 16
    obtain ⟨hs', hlen, hall⟩ := shape_many _ _ _ _ _ _ hnl hf
    obtain ⟨q, hq, hql⟩ := chars_path g hall
    refine Or.inr (Or.inr (Or.inr (Or.inr (Or.inl ⟨.D :: q, by simp; omega, ?_⟩))))
    rw [hs', hq]
    simp [cadrName, pathChars, Dir.char]
  · -- handler 17
    obtain ⟨hs', _⟩ := shape_lit _ _ _ hnl hf
    exact Or.inr (Or.inl (by rw [hs']; decide))
  · -- handler 18
    obtain ⟨hs', _⟩ := shape_lit _ _ _ hnl hf
    exact Or.inr (Or.inl (by rw [hs']; decide))
  · -- handler 19
    obtain ⟨hs', _⟩ := shape_lit _ _ _ hnl hf
    exact Or.inr (Or.inr (Or.inr (Or.inr (Or.inr ⟨[.A], by simp, Or.inl (by rw [hs']; rfl)⟩))))
  · -- handler 20
    obtain ⟨hs', _⟩ := shape_lit _ _ _ hnl hf
    exact Or.inr (Or.inr (Or.inr (Or.inr (Or.inr ⟨[.D], by simp, Or.inl (by rw [hs']; rfl)⟩))))
  · -- handler 21
    obtain ⟨hs', hlen, hall⟩ := shape_many _ _ _ _ _ _ hnl hf
    obtain ⟨q, hq, hql⟩ := chars_path g hall
    refine Or.inr (Or.inr (Or.inr (Or.inr (Or.inr ⟨.A :: q, by simp, Or.inl ?_⟩))))
    rw [hs', hq]
    simp [setName, pathChars, Dir.char]
  · -- handler 22
    obtain ⟨hs', hlen, hall⟩ := shape_many _ _ _ _ _ _ hnl hf
    obtain ⟨q, hq, hql⟩ := chars_path g hall
    refine Or.inr (Or.inr (Or.inr (Or.inr (Or.inr ⟨.D :: q, by simp, Or.inl ?_⟩))))
    rw [hs', hq]
    simp [setName, pathChars, Dir.char]
  · -- handler 23
    obtain ⟨hs', _⟩ := shape_lit _ _ _ hnl hf
    exact Or.inr (Or.inr (Or.inr (Or.inr (Or.inr ⟨[.A], by simp, Or.inr (by rw [hs']; rfl)⟩))))
  · -- handler 24
    obtain ⟨hs', _⟩ := shape_lit _ _ _ hnl hf
    exact Or.inr (Or.inr (Or.inr (Or.inr (Or.inr ⟨[.D], by simp, Or.inr (by rw [hs']; rfl)⟩))))
  · -- handler 25
    obtain ⟨hs', hlen, hall⟩ := shape_many _ _ _ _ _ _ hnl hf
    obtain ⟨q, hq, hql⟩ := chars_path g hall
    refine Or.inr (Or.inr (Or.inr (Or.inr (Or.inr ⟨.A :: q, by simp, Or.inr ?_⟩))))
    rw [hs', hq]
    simp [mapName, pathChars, Dir.char]
  · -- handler 26
    obtain ⟨hs', hlen, hall⟩ := shape_many _ _ _ _ _ _ hnl hf
    obtain ⟨q, hq, hql⟩ := chars_path g hall
    refine Or.inr (Or.inr (Or.inr (Or.inr (Or.inr ⟨.D :: q, by simp, Or.inr ?_⟩))))
    rw [hs', hq]
    simp [mapName, pathChars, Dir.char]

theorem accepts_of (s : List Char) (ht : tags.contains s = false) (k : Nat) (hk : k ∈ [0, 1, 2]) (m : Mich)
    (h : expandMacro s [] (List.replicate k (.seq [])) = .ok m) : acceptsName s = true := by
  unfold acceptsName
  rw [primTags_eq]
  simp only [ht, Bool.not_false, Bool.true_and, List.any_eq_true]
  exact ⟨k, hk, by rw [h]⟩

theorem cmpInt_cases (a b : Int) : cmpInt a b = -1 ∨ cmpInt a b = 0 ∨ cmpInt a b = 1 := by
  unfold cmpInt
  split
  · simp
  · split <;> simp

theorem test_value (op : List Char) (hop : op ∈ ops) (ext : Ext) (c : Int) (hc : c = -1 ∨ c = 0 ∨ c = 1) (S : Stack) :
    eval ext (prim0 (String.ofList op)) (.int c :: S) = .ok (.bool (opTest op c) :: S) := by
  simp only [ops, List.mem_cons, List.not_mem_nil, or_false] at hop
  rcases hop with rfl | rfl | rfl | rfl | rfl | rfl <;> rcases hc with rfl | rfl | rfl <;>
    simp [prim0, eval, op0, testStep, opTest]

/-! value-level readings of the reference meanings (statements about `Spec` only; the property theorems combine them
with the expansions) -/

/-- so `FAIL` fails with `Unit` on every stack -/
theorem spec_fail_meaning (ext : Ext) (S : Stack) : eval ext Spec.FAIL S = .failed .unit := by
  simp [Spec.FAIL, prim0, eval, evalSeq, op0, unitStep, failwithStep]

/-- what that means: the first branch runs on `v : S` for `Some v`, the second on `S` for `None` -/
theorem spec_if_some_meaning (bt bf : Mich) (ext : Ext) :
    eval ext (Spec.ifSome bt bf) = ifNone (eval ext bf) (eval ext bt) := by
  funext S; simp [Spec.ifSome, eval]

/-- value reading: the `n`-th element (1 = top) is copied to the top; shorter stacks are an error -/
theorem spec_duxp_value (n : Nat) (hn : 1 ≤ n) (S : Stack) :
    Spec.duxp n S = match S[n - 1]? with
      | some v => .ok (v :: S)
      | none => .err := by
  rw [duxp_eq_dupN n hn]
  obtain ⟨k, rfl⟩ : ∃ k, n = k + 1 := ⟨n - 1, by omega⟩
  cases h : S[k]? <;> simp [dupN, h]

/-- value reading: the component of the top element at the path; anything else is an error -/
theorem spec_cxr_value (p : Path) (hp : p ≠ []) (S : Stack) :
    Spec.cxr p S = match S with
      | v :: S' => (match getPath p v with
        | some w => .ok (w :: S')
        | none => .err)
      | [] => .err := by
  cases S with
  | nil => exact cxr_nil p hp
  | cons v S' => cases h : getPath p v <;> simp [Values.cxr_value, pushVal, h]

/-- value reading: exactly the addressed component of the top element is replaced by the second element -/
theorem spec_set_cxr_value (p : Path) (S : Stack) :
    Spec.setCxr p S = match S with
      | v :: x :: S' => (match setPath p v x with
        | some v' => .ok (v' :: S')
        | none => .err)
      | _ => .err := by
  match S with
  | [] => exact setCxr_nil p
  | [v] => exact setCxr_one p v
  | v :: x :: S' => cases h : setPath p v x <;> simp [setCxr_value, pushVal, h]

/-- value reading for code that only rewrites the element it is given (`code (x : T) = f x : T` for every `T`):
exactly the addressed component is replaced by its image -/
theorem spec_map_cxr_value (p : Path) (c : F) (f : Val → Val) (hc : Local c f) (v : Val) (S : Stack) :
    Spec.mapCxr p c (v :: S) = match mapPath p f v with
      | some v' => .ok (v' :: S)
      | none => .err := by
  rw [mapCxr_value p c f hc]; cases mapPath p f v <;> rfl

/-- what the code sees: `MAP_CAR` gives it the component on top of the rest of the stack … -/
theorem spec_map_car_sees (c : F) (a b : Val) (S : Stack) :
    Spec.mapCxr [.A] c (.pair a b :: S) = (c (a :: S)).bind fun T => pairStep (match T with
      | a' :: T' => a' :: b :: T'
      | [] => []) := by
  simp only [mapCxr, seqF, dupStep, cdrStep, bind_ok, under, under_zero, carStep]
  cases c (a :: S) with
  | ok T => cases T <;> simp [swapStep, pairStep]
  | failed v => rfl
  | err => rfl

/-- … while `MAP_CDR` gives it the component on top of the *original pair* -/
theorem spec_map_cdr_sees (c : F) (a b : Val) (S : Stack) :
    Spec.mapCxr [.D] c (.pair a b :: S) = (c (b :: .pair a b :: S)).bind (swapStep ⨾ carStep ⨾ pairStep) := by
  simp only [mapCxr, seqF, dupStep, cdrStep, bind_ok, bind_assoc]
  congr 1
  funext T
  show _ = ((swapStep T).bind carStep).bind pairStep
  rw [bind_assoc]

/-- value reading of `P…R`: the leaves are taken from the top of the stack, left to right, and replaced by the nested
pair; a stack with fewer elements than leaves is an error -/
theorem spec_pair_tree_value (l r : PairTree) (S : Stack) :
    Spec.build (.node l r) S = match treeVal? (.node l r) S with
      | some (v, S') => .ok (v :: S')
      | none => .err := by
  rw [build_value (.node l r) S (by intro h; cases h)]
  cases treeVal? (.node l r) S with
  | none => rfl
  | some x => rfl

/-- value reading of `UNP…R`: the top element must be a nested pair of that shape and is replaced by its leaves -/
theorem spec_unpair_tree_value (l r : PairTree) (S : Stack) :
    Spec.unbuild (.node l r) S = match S with
      | v :: S' => (match flatten? (.node l r) v with
        | some ls => .ok (ls ++ S')
        | none => .err)
      | [] => .err := by
  cases S with
  | nil => rfl
  | cons v S' => cases h : flatten? (.node l r) v <;> simp [unbuild_value, pushList, h]

end C19.Names
