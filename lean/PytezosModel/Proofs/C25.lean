import PytezosModel.Client.Counters
/-! Helper lemmas for C25: the one-step invariant of the counter state machine `Impl.Counters`. -/
namespace Impl.Counters

theorem map_add_range' (p : Nat) : ∀ (k a : Nat), (List.range' a k).map (· + p) = List.range' (a + p) k := by
  intro k
  induction k with
  | zero => intro a; simp
  | succ k ih =>
    intro a
    simp only [List.range'_succ, List.map_cons, ih (a + 1)]
    congr 2
    omega

/-- the group carries the account's next counters: `c+p+1 … c+p+k` -/
def Right (s : State) (g : Grp) : Prop := g.ctrs = expected s g.ctrs.length

/-- invariant: a group is never stamped in the future, and a group stamped with the current epoch is right -/
def Inv (s : State) : Prop := ∀ g, s.cur = some g → g.stamp ≤ s.epoch ∧ (g.stamp = s.epoch → Right s g)

theorem fillTmpl_supported (sh : Shape) (s : State) (k : Nat) (h : fillSupported sh s = true) :
    (fillTmpl sh s k).1 = expected s k := by
  unfold fillSupported at h
  simp only [Bool.and_eq_true, Bool.or_eq_true, Option.isNone_iff_eq_none, beq_iff_eq] at h
  obtain ⟨h1, h2⟩ := h
  have hc : (if sh.fillResetsCache = true then none else s.cache).getD s.c = s.c := by
    rcases h1 with h1 | h1 <;> simp [h1]
  unfold fillTmpl getCounters expected
  simp only [hc]
  rcases h2 with h2 | h2
  · simp only [h2, if_true, map_add_range']
    congr 1; omega
  · cases hm : sh.fillUsesMempool
    · simp [h2]
    · simp only [if_true, map_add_range']
      congr 1; omega

theorem fillTmpl_length (sh : Shape) (s : State) (k : Nat) : (fillTmpl sh s k).1.length = k := by
  unfold fillTmpl getCounters
  simp only []
  split <;> simp

theorem sim_then_offset (s : State) (cs : List Nat) (h : simAccepts s cs = true) :
    cs.map (· + s.p) = expected s (cs.map (· + s.p)).length := by
  unfold simAccepts at h
  simp only [beq_iff_eq] at h
  unfold expected
  rw [List.length_map]
  conv => lhs; rw [h]
  rw [map_add_range']
  congr 1; omega


/-- is the event inside the supported region in state `s`? (only `fill` of the unfilled group is restricted) -/
def supported (sh : Shape) (s : State) : Event → Bool
  | .fill .tmpl => s.tmpl.isNone || fillSupported sh s
  | _ => true

theorem clean_cons (sh : Shape) (s : State) (e : Event) (es : List Event) :
    clean sh s (e :: es) = (supported sh s e && clean sh (step sh s e).1 es) := by
  cases e with
  | fill t => cases t <;> simp [clean, supported]
  | _ => simp [clean, supported]

/-- one step keeps the invariant, and what it posts (if anything) is right whenever the group is fresh -/
theorem step_ok (sh : Shape) (s : State) (e : Event) (hinv : Inv s) (hs : supported sh s e = true) :
    Inv (step sh s e).1 ∧ ∀ o, (step sh s e).2.2 = some o → o.fresh = true → o.sent = o.expected := by
  cases e with
  | new k =>
    refine ⟨?_, by simp [step]⟩
    intro g hg; simp [step] at hg
  | fill t =>
    cases t with
    | tmpl =>
      cases ht : s.tmpl with
      | none => simp only [step, ht]; exact ⟨hinv, by simp⟩
      | some k =>
        simp only [supported, ht, Option.isNone_some, Bool.false_or] at hs
        simp only [step, ht]
        refine ⟨?_, by simp⟩
        intro g hg
        simp only [Option.some.injEq] at hg
        subst hg
        refine ⟨Nat.le_refl _, fun _ => ?_⟩
        simp only [Right, fillTmpl_length]
        simpa [expected] using fillTmpl_supported sh s k hs
    | cur =>
      cases hc : s.cur with
      | none => simp only [step, hc]; exact ⟨hinv, by simp⟩
      | some g0 =>
        simp only [step, hc]
        refine ⟨?_, by simp⟩
        intro g hg
        simp only at hg
        have := hinv g (by rw [hc]; exact hg)
        simpa [Right, expected] using this
  | autofill t =>
    cases t with
    | tmpl =>
      cases ht : s.tmpl with
      | none => simp only [step, ht]; exact ⟨hinv, by simp⟩
      | some k =>
        simp only [step, ht]
        split
        · rename_i hsim
          refine ⟨?_, by simp⟩
          intro g hg
          simp only [Option.some.injEq] at hg
          subst hg
          refine ⟨Nat.le_refl _, fun _ => ?_⟩
          have := sim_then_offset s _ hsim
          simpa [Right, expected] using this
        · refine ⟨?_, by simp⟩
          intro g hg
          have := hinv g (by simpa using hg)
          simpa [Right, expected] using this
    | cur =>
      cases hc : s.cur with
      | none => simp only [step, hc]; exact ⟨hinv, by simp⟩
      | some g0 =>
        simp only [step, hc]
        split
        · rename_i hsim
          refine ⟨?_, by simp⟩
          intro g hg
          simp only [Option.some.injEq] at hg
          subst hg
          refine ⟨Nat.le_refl _, fun _ => ?_⟩
          have := sim_then_offset s _ hsim
          simpa [Right, expected] using this
        · refine ⟨?_, by simp⟩
          intro g hg
          have := hinv g (by rw [hc]; simpa using hg)
          simpa [Right, expected] using this
  | sign =>
    cases hc : s.cur with
    | none => simp only [step, hc]; exact ⟨hinv, by simp⟩
    | some g0 =>
      simp only [step, hc]
      refine ⟨?_, by simp⟩
      intro g hg
      simp only [Option.some.injEq] at hg
      subst hg
      have := hinv g0 hc
      simpa [Right, expected] using this
  | inject ok =>
    cases hc : s.cur with
    | none => simp only [step, hc]; exact ⟨hinv, by simp⟩
    | some g0 =>
      have h0 := hinv g0 hc
      simp only [step, hc]
      cases hsg : g0.signed with
      | false =>
        simp only [Bool.not_false, if_true]
        refine ⟨?_, by simp⟩
        intro g hg
        have := hinv g (by rw [hc]; simpa using hg)
        simpa [Right, expected] using this
      | true =>
        simp only [Bool.not_true, Bool.false_eq_true, if_false]
        have hobs : ∀ o : Obs, o = { fresh := g0.stamp == s.epoch, sent := g0.ctrs, expected := expected s g0.ctrs.length } →
            o.fresh = true → o.sent = o.expected := by
          intro o ho hf
          subst ho
          simp only [beq_iff_eq] at hf
          exact h0.2 hf
        split
        · refine ⟨?_, fun o ho => hobs o (by simpa using ho.symm)⟩
          intro g hg
          simp only at hg
          have hg' : g = g0 := by simpa [hc] using hg.symm
          subst hg'
          refine ⟨by simp only []; omega, fun h => ?_⟩
          simp only [] at h
          omega
        · refine ⟨?_, fun o ho => hobs o (by simpa using ho.symm)⟩
          intro g hg
          have := hinv g (by rw [hc]; simpa using hg)
          simpa [Right, expected] using this
  | bake =>
    simp only [step]
    refine ⟨?_, by simp⟩
    intro g hg
    have := hinv g (by simpa using hg)
    refine ⟨by simp only []; omega, fun h => ?_⟩
    simp only [] at h
    omega

end Impl.Counters
