import PytezosModel.Proofs.Encoding
import PytezosModel.Proofs.KeyLemmas
import PytezosModel.Client.OpSign
/-! Non-vacuity witnesses for the hypotheses of C07 / C08 / C23.

* `Toy.codec`: the mirror of Base58Check from property C09 (`Impl.Encoding.encodeWith` / `decodeWith`, real
  Base58 over `Base58.b58enc`, a 4-byte stand-in checksum) over the table made of exactly the kinds key.py and
  group.py use (signature, key, key hash, operation hash, chain id rows *as regenerated from the source*).
  `Toy.codec_laws` proves `CodecLaws` for it: the per-row numeral-interval obligation and the two disjointness
  obligations are evaluated by the kernel on those rows.
* `Toy.prims`: a trivial signature scheme / hash / box that satisfies `Laws` (it is not secure and not meant
  to be: it only shows that the contracts are consistent). -/
namespace Impl.Key.Toy
open Impl.Key

/-! ### codec -/

def toEnc (r : Row) : Impl.Encoding.Row := ⟨r.human, r.encLen, r.bin, r.dataLen⟩

/-- every kind the three mirrors hand to `base58_encode` / `base58_decode` -/
def rows : List Row := sigRows ++ keyRows ++ pkhRows ++ Impl.OpSign.hashRows

def tbl : List Impl.Encoding.Row := rows.map toEnc

def cks (v : List Nat) : List Nat := [v.length % 256, 1, 2, 3]

theorem cks_ok : Impl.Encoding.CksOk cks :=
  ⟨fun _ => rfl, fun v b hb => by
    simp only [cks, List.mem_cons, List.not_mem_nil, or_false] at hb
    rcases hb with h | h | h | h <;> omega⟩

def codec : Codec where
  encode v pfx :=
    match Impl.Encoding.encodeWith tbl cks v pfx with
    | .ok s => some s
    | .error _ => none
  decode s :=
    match Impl.Encoding.decodeWith tbl true true cks s with
    | .ok v => some v
    | .error _ => none

theorem tbl_ok : ∀ r ∈ tbl, Impl.Encoding.rowOk r = true := by decide +kernel
theorem tbl_dis : ∀ a ∈ tbl, ∀ b ∈ tbl, Impl.Encoding.rowsDisjoint a b = true := by decide +kernel
theorem tbl_ed : ∀ a ∈ tbl, ∀ b ∈ tbl, Impl.Encoding.rowsEncodeDistinct a b = true := by decide +kernel

theorem digitChar_ascii : ∀ d, d < 58 → Base58.digitChar d < 128 := by decide

theorem b58enc_ascii (bs : List Nat) : ∀ ch ∈ Base58.b58enc bs, ch < 128 := by
  intro ch hch
  unfold Base58.b58enc at hch
  rcases List.mem_append.mp hch with h | h
  · have := List.eq_of_mem_replicate h; omega
  · obtain ⟨d, hd, rfl⟩ := List.mem_map.mp h
    exact digitChar_ascii d (Base58.toDigits_lt 58 _ (by omega) d hd)

theorem codec_laws : CodecLaws codec rows := by
  constructor
  intro r hr v hl hv
  have hr' : toEnc r ∈ tbl := List.mem_map_of_mem hr
  have hrow := tbl_ok _ hr'
  have henc := Impl.Encoding.encodeWith_row tbl cks tbl_ed (toEnc r) hr' v hl
  have hshape := Impl.Encoding.encOf_shape cks cks_ok (toEnc r) hrow v hl hv
  have hdec := Impl.Encoding.decodeWith_enc tbl cks cks_ok tbl_dis true true (toEnc r) hr' hrow v hl hv
  refine ⟨Impl.Encoding.encOf cks (toEnc r) v, ?_, ?_, hshape.1, hshape.2.1, ?_⟩
  · show (match Impl.Encoding.encodeWith tbl cks v r.human with | .ok s => some s | .error _ => none) = _
    have : (toEnc r).human = r.human := rfl
    rw [this] at henc
    rw [henc]
  · show (match Impl.Encoding.decodeWith tbl true true cks _ with | .ok v => some v | .error _ => none) = _
    rw [hdec]
  · exact b58enc_ascii _

theorem laws_mono (C : Codec) (rs rs' : List Row) (h : CodecLaws C rs) (hsub : ∀ r ∈ rs', r ∈ rs) :
    CodecLaws C rs' :=
  ⟨fun r hr => h.enc_dec r (hsub r hr)⟩

theorem codec_laws_sig : CodecLaws codec sigRows :=
  laws_mono codec rows _ codec_laws (by intro r hr; simp [rows, hr])

theorem codec_laws_key : CodecLaws codec keyRows :=
  laws_mono codec rows _ codec_laws (by intro r hr; simp [rows, hr])

theorem codec_laws_pkh : CodecLaws codec pkhRows :=
  laws_mono codec rows _ codec_laws (by intro r hr; simp [rows, hr])

theorem codec_laws_hash : CodecLaws codec Impl.OpSign.hashRows :=
  laws_mono codec rows _ codec_laws (by intro r hr; simp [rows, hr])

/-! ### primitives -/

/-- a one-byte "digest" of a payload -/
def tagOf (m : Bytes) : Nat := m.sum % 256

def prims : Prims where
  blake2b n m := List.replicate n (tagOf m)
  sha256 m := List.replicate 32 (tagOf m)
  edSeedKeypair seed := if seed.length = 32 ∧ seed.all (· < 256) = true then some (seed, seed ++ seed) else none
  edSkToPk sk := if sk.length = 64 then some (sk.drop 32) else none
  edSkToSeed sk := if sk.length = 64 then some (sk.take 32) else none
  pub c sk := if c = .ed then none else some (List.replicate (pkLen c) (tagOf sk))
  sign c _ m := some (List.replicate (sigLen c) (tagOf m))
  verify c _ m s := if s = List.replicate (sigLen c) (tagOf m) then .accept else .reject
  pbkdf2 _ _ pw salt := List.replicate 32 (tagOf (pw ++ salt))
  boxSeal _ _ m := List.replicate 16 0 ++ m
  boxOpen _ _ c := some (c.drop 16)
  toSeed text pass := List.replicate 64 (tagOf (text ++ pass))

theorem isBytes_of_all (b : Bytes) (h : b.all (· < 256) = true) : IsBytes b := by
  intro x hx
  have := List.all_eq_true.mp h x hx
  exact of_decide_eq_true this

theorem isBytes_replicate (n x : Nat) (hx : x < 256) : IsBytes (List.replicate n x) := by
  intro y hy; rw [List.eq_of_mem_replicate hy]; exact hx

theorem tagOf_lt (m : Bytes) : tagOf m < 256 := Nat.mod_lt _ (by omega)

theorem laws : Laws prims where
  sign_verify := by
    intro c pk sk _ m
    exact ⟨_, rfl, by simp [prims]⟩
  sign_len := by
    intro c sk m s h
    simp only [prims, Option.some.injEq] at h
    subst h
    exact ⟨List.length_replicate, isBytes_replicate _ _ (tagOf_lt _)⟩
  pk_len := by
    intro c pk sk h
    cases c
    · obtain ⟨seed, hs⟩ := h
      simp only [prims] at hs
      split at hs
      · rename_i hc; cases hs; exact ⟨hc.1, isBytes_of_all _ hc.2⟩
      · cases hs
    all_goals
      simp only [KeyPair, prims, reduceCtorEq, if_false, Option.some.injEq] at h
      subst h
      exact ⟨List.length_replicate, isBytes_replicate _ _ (tagOf_lt _)⟩
  ed_keypair := by
    intro seed pk sk h
    simp only [prims] at h
    split at h
    · rename_i hc
      cases h
      have h64 : (seed ++ seed).length = 64 := by simp [hc.1]
      have hb := isBytes_of_all _ hc.2
      refine ⟨hc.1, hb, h64, ?_, ?_, ?_⟩
      · intro x hx; rcases List.mem_append.mp hx with h | h <;> exact hb x h
      · simp only [prims, h64, if_true, Option.some.injEq]
        have : 32 = seed.length := hc.1.symm
        rw [this, List.drop_left]
      · simp only [prims, h64, if_true, Option.some.injEq]
        have : 32 = seed.length := hc.1.symm
        rw [this, List.take_left]
    · cases h
  blake_len := by
    intro n m
    exact ⟨List.length_replicate, isBytes_replicate _ _ (tagOf_lt _)⟩
  sha_len := by
    intro m
    exact ⟨List.length_replicate, isBytes_replicate _ _ (tagOf_lt _)⟩
  seal_open := by
    intro k n m
    simp [prims]
  seal_len := by
    intro k n m hm
    refine ⟨by simp [prims], ?_⟩
    intro x hx
    simp only [prims] at hx
    rcases List.mem_append.mp hx with h | h
    · rw [List.eq_of_mem_replicate h]; omega
    · exact hm x h

/-! ### sample keys -/

def keyBl : Key := ⟨List.replicate 48 (tagOf (List.range 32)), some (List.range 32), .bl⟩

theorem keyBl_valid : ValidKey prims keyBl := ⟨List.range 32, rfl, by decide, rfl⟩

def keyEd : Key := ⟨List.range 32, some (List.range 32 ++ List.range 32), .ed⟩

theorem keyEd_valid : ValidKey prims keyEd := ⟨_, rfl, by decide, ⟨List.range 32, by decide +kernel⟩⟩

def keyP2 : Key := ⟨List.replicate 33 (tagOf (List.range 32)), some (List.range 32), .p2⟩

theorem keyP2_valid : ValidKey prims keyP2 := ⟨List.range 32, rfl, by decide, rfl⟩

end Impl.Key.Toy
