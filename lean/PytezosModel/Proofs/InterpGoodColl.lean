import PytezosModel.Proofs.InterpGood
set_option linter.unusedSectionVars false   -- `[Mode]` is a section variable of every lemma here; some do not use it
/-! Ordered insertion / deletion keep a set / map of the interpreter model well-formed (`goodSet` / `goodMap`): C14's
lemmas about strictly sorted lists, transported along the embedding of the keys of one simple comparable type. -/
namespace Interp
variable [Mode]
open Typing List

section
variable {k : Ty} {ks : List Val} {x : Val}
  (hall : ∀ e ∈ ks, isKey k e = true) (hs : Coll.StrictSorted keyLt ks) (hx : isKey k x = true)
include hall hs hx

theorem keys_insert_good :
    (∀ e ∈ _root_.Spec.Coll.insertKey keyLt x ks, isKey k e = true) ∧
      Coll.StrictSorted keyLt (_root_.Spec.Coll.insertKey keyLt x ks) := by
  obtain ⟨ys, rfl⟩ := lift_keys ks hall
  have hs' : Coll.StrictSorted (ltK : KeyOf k → KeyOf k → Bool) ys := by
    rw [ltK_eq]; exact (List.pairwise_map.mp hs)
  have h := Coll.insertKey_strict (strictTotalK k) (⟨x, hx⟩ : KeyOf k) ys hs'
  rw [ltK_eq] at h
  rw [← insertKey_map Subtype.val keyLt ⟨x, hx⟩ ys]
  refine ⟨?_, List.pairwise_map.mpr h⟩
  intro e he
  rw [List.mem_map] at he
  obtain ⟨z, _, rfl⟩ := he
  exact z.2

theorem keys_erase_good :
    (∀ e ∈ _root_.Spec.Coll.eraseKey keyLt x ks, isKey k e = true) ∧
      Coll.StrictSorted keyLt (_root_.Spec.Coll.eraseKey keyLt x ks) := by
  obtain ⟨ys, rfl⟩ := lift_keys ks hall
  have hs' : Coll.StrictSorted (ltK : KeyOf k → KeyOf k → Bool) ys := by
    rw [ltK_eq]; exact (List.pairwise_map.mp hs)
  have h := Coll.eraseKey_strict (strictTotalK k) (⟨x, hx⟩ : KeyOf k) hs'
  rw [ltK_eq] at h
  rw [← eraseKey_map Subtype.val keyLt ⟨x, hx⟩ ys]
  refine ⟨?_, List.pairwise_map.mpr h⟩
  intro e he
  rw [List.mem_map] at he
  obtain ⟨z, _, rfl⟩ := he
  exact z.2

end

theorem goodSet_of {t : Ty} {xs : List Val} (h1 : simpleComparable t = true) (h2 : ∀ e ∈ xs, isKey t e = true)
    (h3 : Coll.StrictSorted keyLt xs) : goodSet t xs = true := by
  simp only [goodSet, Bool.and_eq_true, List.all_eq_true]
  exact ⟨⟨h1, h2⟩, (strictSorted_iff xs).mpr h3⟩

theorem goodSet_insert {t : Ty} {xs : List Val} {x : Val} (hg : goodSet t xs = true) (hx : isKey t x = true) :
    goodSet t (_root_.Spec.Coll.insertKey keyLt x xs) = true := by
  obtain ⟨h1, h2, h3⟩ := goodSet_spec hg
  obtain ⟨g1, g2⟩ := keys_insert_good h2 h3 hx
  exact goodSet_of h1 g1 g2

theorem goodSet_erase {t : Ty} {xs : List Val} {x : Val} (hg : goodSet t xs = true) (hx : isKey t x = true) :
    goodSet t (_root_.Spec.Coll.eraseKey keyLt x xs) = true := by
  obtain ⟨h1, h2, h3⟩ := goodSet_spec hg
  obtain ⟨g1, g2⟩ := keys_erase_good h2 h3 hx
  exact goodSet_of h1 g1 g2

/-- a list of bindings `Pair key value` built from tuples whose keys are strictly sorted keys of type `k` -/
theorem goodMap_unkvs {k : Ty} {m : List (Val × Val)} (h1 : simpleComparable k = true)
    (h2 : ∀ e ∈ Coll.keys m, isKey k e = true) (h3 : Coll.StrictSorted keyLt (Coll.keys m)) :
    goodMap k (Spec.unkvs m) = true := by
  simp only [goodMap, Bool.and_eq_true, List.all_eq_true]
  refine ⟨⟨h1, ?_⟩, ?_⟩
  · intro e he
    rw [unkvs_eq, List.mem_map] at he
    obtain ⟨p, hp, rfl⟩ := he
    simp only [Impl.ofKV, isBinding]
    exact h2 p.1 (by simp only [Coll.keys, List.mem_map]; exact ⟨p, hp, rfl⟩)
  · have : (Spec.unkvs m).map keyOf = Coll.keys m := by
      simp [unkvs_eq, Coll.keys, List.map_map, Function.comp_def, Impl.ofKV, keyOf]
    rw [this]
    exact (strictSorted_iff _).mpr h3

theorem goodMap_keys {k : Ty} {items : List Val} (hg : goodMap k items = true) :
    simpleComparable k = true ∧ (∀ e ∈ Coll.keys (Spec.kvs items), isKey k e = true) ∧
      Coll.StrictSorted keyLt (Coll.keys (Spec.kvs items)) := by
  obtain ⟨h1, _, h3, h4⟩ := goodMap_spec hg
  refine ⟨h1, ?_, ?_⟩
  · intro e he
    simp only [Coll.keys, List.mem_map] at he
    obtain ⟨p, hp, rfl⟩ := he
    rw [kvs_eq] at hp
    exact h3 p hp
  · rw [kvs_eq]; exact h4

theorem goodMap_insert {k : Ty} {items : List Val} {x y : Val} (hg : goodMap k items = true) (hx : isKey k x = true) :
    goodMap k (Spec.unkvs (_root_.Spec.Coll.insertKV keyLt x y (Spec.kvs items))) = true := by
  obtain ⟨h1, h2, h3⟩ := goodMap_keys hg
  obtain ⟨g1, g2⟩ := keys_insert_good h2 h3 hx
  apply goodMap_unkvs h1
  · rw [Coll.insertKV_keys]; exact g1
  · rw [Coll.insertKV_keys]; exact g2

theorem goodMap_erase {k : Ty} {items : List Val} {x : Val} (hg : goodMap k items = true) (hx : isKey k x = true) :
    goodMap k (Spec.unkvs (_root_.Spec.Coll.eraseKV keyLt x (Spec.kvs items))) = true := by
  obtain ⟨h1, h2, h3⟩ := goodMap_keys hg
  obtain ⟨g1, g2⟩ := keys_erase_good h2 h3 hx
  apply goodMap_unkvs h1
  · rw [Coll.eraseKV_keys]; exact g1
  · rw [Coll.eraseKV_keys]; exact g2

/-- the tuples of a list of well-formed bindings whose values contain only well-formed collections -/
theorem kvs_litOk {k : Ty} {items : List Val} (hb : ∀ e ∈ items, isBinding k e = true) (hg : GoodStack items) :
    ∀ p ∈ Spec.kvs items, litOk p.1 = true ∧ litOk p.2 = true := by
  intro p hp
  rw [kvs_eq, List.mem_map] at hp
  obtain ⟨e, he, rfl⟩ := hp
  obtain ⟨a, b, rfl, _⟩ := isBinding_pair (hb e he)
  simpa [Impl.toKV] using hg _ he

theorem unkvs_litOk {m : List (Val × Val)} (h : ∀ p ∈ m, litOk p.1 = true ∧ litOk p.2 = true) : GoodStack (Spec.unkvs m) := by
  intro z hz
  rw [unkvs_eq, List.mem_map] at hz
  obtain ⟨p, hp, rfl⟩ := hz
  simpa [Impl.ofKV] using h p hp

theorem goodMap_bindings {k : Ty} {items : List Val} (hg : goodMap k items = true) : ∀ e ∈ items, isBinding k e = true := by
  simp only [goodMap, Bool.and_eq_true, List.all_eq_true] at hg
  exact hg.1.2

end Interp
