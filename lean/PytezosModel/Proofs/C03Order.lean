import PytezosModel.Michelson.Order
/-! Helper lemmas for C03: the leaf comparators are lawful, lexicographic products of lawful comparators are lawful,
`Spec.Order.cmp` is lawful on the values of each comparable type, and `Impl.Order.eq` / `lt` compute it. -/
namespace Order

/-! ### `Ordering.then` -/
theorem then_eq_lt {o p : Ordering} : o.then p = .lt ↔ o = .lt ∨ (o = .eq ∧ p = .lt) := by
  cases o <;> cases p <;> simp [Ordering.then]

theorem then_eq_eq {o p : Ordering} : o.then p = .eq ↔ o = .eq ∧ p = .eq := by
  cases o <;> cases p <;> simp [Ordering.then]

theorem swap_then' (o p : Ordering) : (o.then p).swap = o.swap.then p.swap := by
  cases o <;> cases p <;> rfl

/-- a comparator that is a total order on the carrier `P` -/
structure Lawful {α : Type} (P : α → Prop) (c : α → α → Ordering) : Prop where
  refl : ∀ a, P a → c a a = .eq
  eq_imp : ∀ a b, P a → P b → c a b = .eq → a = b
  swap : ∀ a b, P a → P b → c b a = (c a b).swap
  trans : ∀ a b d, P a → P b → P d → c a b = .lt → c b d = .lt → c a d = .lt

/-- lexicographic product -/
theorem Lawful.prod {α β : Type} {P : α → Prop} {Q : β → Prop} {c : α → α → Ordering} {d : β → β → Ordering}
    (hc : Lawful P c) (hd : Lawful Q d) :
    Lawful (fun x : α × β => P x.1 ∧ Q x.2) (fun x y => (c x.1 y.1).then (d x.2 y.2)) where
  refl := by
    intro a ⟨h1, h2⟩
    simp [hc.refl _ h1, hd.refl _ h2, Ordering.then]
  eq_imp := by
    intro a b ⟨h1, h2⟩ ⟨h3, h4⟩ h
    rw [then_eq_eq] at h
    exact Prod.ext (hc.eq_imp _ _ h1 h3 h.1) (hd.eq_imp _ _ h2 h4 h.2)
  swap := by
    intro a b ⟨h1, h2⟩ ⟨h3, h4⟩
    simp only [hc.swap _ _ h1 h3, hd.swap _ _ h2 h4, swap_then']
  trans := by
    intro a b e ⟨h1, h2⟩ ⟨h3, h4⟩ ⟨h5, h6⟩ hab hbe
    rw [then_eq_lt] at hab hbe ⊢
    rcases hab with hab | ⟨hab, hab'⟩ <;> rcases hbe with hbe | ⟨hbe, hbe'⟩
    · exact .inl (hc.trans _ _ _ h1 h3 h5 hab hbe)
    · have := hc.eq_imp _ _ h3 h5 hbe
      exact .inl (this ▸ hab)
    · have := hc.eq_imp _ _ h1 h3 hab
      exact .inl (this ▸ hbe)
    · have e1 := hc.eq_imp _ _ h1 h3 hab
      have e2 := hc.eq_imp _ _ h3 h5 hbe
      refine .inr ⟨?_, hd.trans _ _ _ h2 h4 h6 hab' hbe'⟩
      rw [← e2, ← e1]; exact hc.refl _ h1

/-- transport along an injective encoding -/
theorem Lawful.comap {α β : Type} {P : α → Prop} {Q : β → Prop} {c : β → β → Ordering} (f : α → β)
    (hc : Lawful Q c) (hPQ : ∀ a, P a → Q (f a)) (hinj : ∀ a b, P a → P b → f a = f b → a = b) :
    Lawful P (fun x y => c (f x) (f y)) where
  refl := fun a h => hc.refl _ (hPQ a h)
  eq_imp := fun a b ha hb h => hinj a b ha hb (hc.eq_imp _ _ (hPQ a ha) (hPQ b hb) h)
  swap := fun a b ha hb => hc.swap _ _ (hPQ a ha) (hPQ b hb)
  trans := fun a b d ha hb hd => hc.trans _ _ _ (hPQ a ha) (hPQ b hb) (hPQ d hd)

/-! ### leaves -/
theorem cmpNat_eq_lt {a b : Nat} : cmpNat a b = .lt ↔ a < b := by grind [cmpNat]
theorem cmpNat_eq_eq {a b : Nat} : cmpNat a b = .eq ↔ a = b := by grind [cmpNat]
theorem cmpNat_eq_gt {a b : Nat} : cmpNat a b = .gt ↔ b < a := by grind [cmpNat]
theorem cmpInt_eq_lt {a b : Int} : cmpInt a b = .lt ↔ a < b := by grind [cmpInt]
theorem cmpInt_eq_eq {a b : Int} : cmpInt a b = .eq ↔ a = b := by grind [cmpInt]

theorem lawful_nat : Lawful (fun _ : Nat => True) cmpNat where
  refl := by intro a _; simp [cmpNat]
  eq_imp := by intro a b _ _ h; exact cmpNat_eq_eq.1 h
  swap := by intro a b _ _; grind [cmpNat, Ordering.swap]
  trans := by intro a b d _ _ _; simp only [cmpNat_eq_lt]; omega

theorem lawful_int : Lawful (fun _ : Int => True) cmpInt where
  refl := by intro a _; simp [cmpInt]
  eq_imp := by intro a b _ _ h; exact cmpInt_eq_eq.1 h
  swap := by intro a b _ _; grind [cmpInt, Ordering.swap]
  trans := by intro a b d _ _ _; simp only [cmpInt_eq_lt]; omega

theorem lawful_bool : Lawful (fun _ : Bool => True) cmpBool where
  refl := by intro a _; cases a <;> rfl
  eq_imp := by intro a b _ _; cases a <;> cases b <;> simp [cmpBool]
  swap := by intro a b _ _; cases a <;> cases b <;> rfl
  trans := by intro a b d _ _ _; cases a <;> cases b <;> cases d <;> simp [cmpBool]

theorem lexCmp_refl : ∀ a, lexCmp a a = .eq
  | [] => rfl
  | x :: xs => by simp [lexCmp, cmpNat, lexCmp_refl xs, Ordering.then]

theorem lexCmp_eq_eq : ∀ {a b}, lexCmp a b = .eq ↔ a = b
  | [], [] => by simp [lexCmp]
  | [], _ :: _ => by simp [lexCmp]
  | _ :: _, [] => by simp [lexCmp]
  | x :: xs, y :: ys => by
    simp only [lexCmp, then_eq_eq, cmpNat_eq_eq, lexCmp_eq_eq (a := xs) (b := ys), List.cons.injEq]

theorem lexCmp_swap : ∀ a b, lexCmp b a = (lexCmp a b).swap
  | [], [] => rfl
  | [], _ :: _ => rfl
  | _ :: _, [] => rfl
  | x :: xs, y :: ys => by
    simp only [lexCmp, swap_then', lexCmp_swap xs ys, lawful_nat.swap x y trivial trivial]

theorem lexCmp_eq_lt_cons {x y : Nat} {xs ys : List Nat} :
    lexCmp (x :: xs) (y :: ys) = .lt ↔ x < y ∨ (x = y ∧ lexCmp xs ys = .lt) := by
  simp only [lexCmp, then_eq_lt, cmpNat_eq_lt, cmpNat_eq_eq]

theorem lexCmp_trans : ∀ a b d, lexCmp a b = .lt → lexCmp b d = .lt → lexCmp a d = .lt
  | [], [], _ => by simp [lexCmp]
  | [], _ :: _, [] => by simp [lexCmp]
  | [], _ :: _, _ :: _ => by simp [lexCmp]
  | _ :: _, [], _ => by simp [lexCmp]
  | _ :: _, _ :: _, [] => by simp [lexCmp]
  | x :: xs, y :: ys, z :: zs => by
    simp only [lexCmp_eq_lt_cons]
    intro h1 h2
    rcases h1 with h1 | ⟨h1, h1'⟩ <;> rcases h2 with h2 | ⟨h2, h2'⟩
    · exact .inl (by omega)
    · exact .inl (by omega)
    · exact .inl (by omega)
    · exact .inr ⟨by omega, lexCmp_trans xs ys zs h1' h2'⟩

theorem lawful_lex : Lawful (fun _ : List Nat => True) lexCmp where
  refl := fun a _ => lexCmp_refl a
  eq_imp := fun _ _ _ _ h => lexCmp_eq_eq.1 h
  swap := fun a b _ _ => lexCmp_swap a b
  trans := fun a b d _ _ _ => lexCmp_trans a b d

/-- Python's `<` on sequences is the strict part of the lexicographic order -/
theorem lexLt_eq : ∀ a b, lexLt a b = (lexCmp a b).isLT
  | [], [] => rfl
  | [], _ :: _ => rfl
  | _ :: _, [] => rfl
  | x :: xs, y :: ys => by
    unfold lexLt lexCmp cmpNat
    split
    · simp [Ordering.then, Ordering.isLT]
    · split
      · simp [Ordering.then, Ordering.isLT]
      · simp [Ordering.then, lexLt_eq xs ys]

theorem beq_eq_lexCmp (a b : List Nat) : (a == b) = ((lexCmp a b) == .eq) := by
  by_cases h : a = b
  · subst h; simp [lexCmp_refl]
  · have : lexCmp a b ≠ .eq := fun h' => h (lexCmp_eq_eq.1 h')
    rw [beq_eq_false_iff_ne.2 h, beq_eq_false_iff_ne.2 this]

/-! ### `Spec.Order.cmp` is a total order on the values of each comparable type -/
open Spec.Order in
/-- if `cmp` restricted to `P` is the pull-back of a lawful comparator along an injective encoding, it is lawful -/
theorem lawful_of_enc {α : Type} {P : CVal → Prop} {Q : α → Prop} {c : α → α → Ordering} (enc : CVal → α)
    (hc : Lawful Q c) (hQ : ∀ v, P v → Q (enc v)) (hinj : ∀ a b, P a → P b → enc a = enc b → a = b)
    (hcmp : ∀ a b, P a → P b → cmp a b = c (enc a) (enc b)) : Lawful P cmp where
  refl := fun a h => by rw [hcmp a a h h]; exact hc.refl _ (hQ a h)
  eq_imp := fun a b ha hb h => by
    rw [hcmp a b ha hb] at h
    exact hinj a b ha hb (hc.eq_imp _ _ (hQ a ha) (hQ b hb) h)
  swap := fun a b ha hb => by rw [hcmp a b ha hb, hcmp b a hb ha]; exact hc.swap _ _ (hQ a ha) (hQ b hb)
  trans := fun a b d ha hb hd => by
    rw [hcmp a b ha hb, hcmp b d hb hd, hcmp a d ha hd]
    exact hc.trans _ _ _ (hQ a ha) (hQ b hb) (hQ d hd)

theorem Lawful.mono {α} {c : α → α → Ordering} {P Q : α → Prop} (h : Lawful P c) (hQP : ∀ a, Q a → P a) : Lawful Q c where
  refl := fun a ha => h.refl a (hQP a ha)
  eq_imp := fun a b ha hb => h.eq_imp a b (hQP a ha) (hQP b hb)
  swap := fun a b ha hb => h.swap a b (hQP a ha) (hQP b hb)
  trans := fun a b d ha hb hd => h.trans a b d (hQP a ha) (hQP b hb) (hQP d hd)

theorem lawful_natLex : Lawful (fun _ : Nat × List Nat => True) (fun x y => (cmpNat x.1 y.1).then (lexCmp x.2 y.2)) :=
  (lawful_nat.prod lawful_lex).mono (fun _ _ => ⟨trivial, trivial⟩)

theorem lawful_natLexLex : Lawful (fun _ : Nat × List Nat × List Nat => True)
    (fun x y => (cmpNat x.1 y.1).then ((lexCmp x.2.1 y.2.1).then (lexCmp x.2.2 y.2.2))) :=
  (lawful_nat.prod (lawful_lex.prod lawful_lex)).mono (fun _ _ => ⟨trivial, trivial, trivial⟩)

/-- the address class is monotone in the kind tag, so ordering by (class, kind) is ordering by kind -/
theorem class_then (k₁ k₂ : Nat) (X : Ordering) :
    (cmpNat (Spec.Order.addrClass k₁) (Spec.Order.addrClass k₂)).then ((cmpNat k₁ k₂).then X) = (cmpNat k₁ k₂).then X := by
  unfold Spec.Order.addrClass cmpNat
  cases X <;> grind [Ordering.then]

theorem epOf_inj {e₁ e₂ : List Nat} (h₁ : e₁ ≠ defaultEp) (h₂ : e₂ ≠ defaultEp)
    (h : Spec.Order.epOf e₁ = Spec.Order.epOf e₂) : e₁ = e₂ := by
  unfold Spec.Order.epOf at h
  cases e₁ <;> cases e₂ <;> simp_all [List.isEmpty]

open Spec.Order in
theorem spec_lawful : ∀ τ : CTy, Lawful (fun v => HasTy v τ) cmp
  | .unit => {
      refl := by intro a h; cases h; rfl
      eq_imp := by intro a b ha hb _; cases ha; cases hb; rfl
      swap := by intro a b ha hb; cases ha; cases hb; rfl
      trans := by intro a b d ha hb hd; cases ha; cases hb; cases hd; simp [cmp] }
  | .never => {
      refl := by intro a h; cases h
      eq_imp := by intro a b ha; cases ha
      swap := by intro a b ha; cases ha
      trans := by intro a b d ha; cases ha }
  | .bool =>
    lawful_of_enc (fun v => match v with | .bool b => b | _ => false) lawful_bool (fun _ _ => trivial)
      (by intro a b ha hb; cases ha; cases hb; simp)
      (by intro a b ha hb; cases ha; cases hb; simp [cmp])
  | .num t =>
    lawful_of_enc (fun v => match v with | .num _ x => x | _ => 0) lawful_int (fun _ _ => trivial)
      (by intro a b ha hb; cases ha; cases hb; simp)
      (by intro a b ha hb; cases ha; cases hb; simp [cmp])
  | .string =>
    lawful_of_enc (fun v => match v with | .str x => x | _ => []) lawful_lex (fun _ _ => trivial)
      (by intro a b ha hb; cases ha; cases hb; simp)
      (by intro a b ha hb; cases ha; cases hb; simp [cmp])
  | .bytes =>
    lawful_of_enc (fun v => match v with | .bytes x => x | _ => []) lawful_lex (fun _ _ => trivial)
      (by intro a b ha hb; cases ha; cases hb; simp)
      (by intro a b ha hb; cases ha; cases hb; simp [cmp])
  | .signature =>
    lawful_of_enc (fun v => match v with | .signature x => x | _ => []) lawful_lex (fun _ _ => trivial)
      (by intro a b ha hb; cases ha; cases hb; simp)
      (by intro a b ha hb; cases ha; cases hb; simp [cmp])
  | .chainId =>
    lawful_of_enc (fun v => match v with | .chainId x => x | _ => []) lawful_lex (fun _ _ => trivial)
      (by intro a b ha hb; cases ha; cases hb; simp)
      (by intro a b ha hb; cases ha; cases hb; simp [cmp])
  | .keyHash =>
    lawful_of_enc (fun v => match v with | .keyHash k p => (k, p) | _ => (0, [])) lawful_natLex (fun _ _ => trivial)
      (by intro a b ha hb; cases ha; cases hb; simp)
      (by intro a b ha hb; cases ha; cases hb; simp [cmp])
  | .key =>
    lawful_of_enc (fun v => match v with | .key k p => (k, p) | _ => (0, [])) lawful_natLex (fun _ _ => trivial)
      (by intro a b ha hb; cases ha; cases hb; simp)
      (by intro a b ha hb; cases ha; cases hb; simp [cmp])
  | .address =>
    lawful_of_enc (Q := fun _ => True)
      (fun v => match v with | .address k p e => (k, (p, epOf e)) | _ => (0, ([], [])))
      lawful_natLexLex (fun _ _ => trivial)
      (by
        intro a b ha hb
        cases ha with | address k p e _ _ he =>
        cases hb with | address k' p' e' _ _ he' =>
        simp only [Prod.mk.injEq, CVal.address.injEq]
        intro ⟨h1, h2, h3⟩
        exact ⟨h1, h2, epOf_inj he he' h3⟩)
      (by intro a b ha hb; cases ha; cases hb; simp only [cmp, class_then])
  | .option t => by
    have ih := spec_lawful t
    exact {
      refl := by
        intro a h; cases h with
        | none => rfl
        | some h => simp only [cmp]; exact ih.refl _ h
      eq_imp := by
        intro a b ha hb h
        cases ha <;> cases hb <;> simp [cmp] at h ⊢
        exact ih.eq_imp _ _ ‹_› ‹_› h
      swap := by
        intro a b ha hb
        cases ha <;> cases hb <;> simp [cmp, Ordering.swap]
        exact ih.swap _ _ ‹_› ‹_›
      trans := by
        intro a b d ha hb hd
        cases ha <;> cases hb <;> cases hd <;> simp [cmp]
        exact ih.trans _ _ _ ‹_› ‹_› ‹_› }
  | .or l r => by
    have ihl := spec_lawful l
    have ihr := spec_lawful r
    exact {
      refl := by
        intro a h; cases h with
        | left _ h => simp only [cmp]; exact ihl.refl _ h
        | right _ h => simp only [cmp]; exact ihr.refl _ h
      eq_imp := by
        intro a b ha hb h
        cases ha <;> cases hb <;> simp [cmp] at h ⊢
        · exact ihl.eq_imp _ _ ‹_› ‹_› h
        · exact ihr.eq_imp _ _ ‹_› ‹_› h
      swap := by
        intro a b ha hb
        cases ha <;> cases hb <;> simp [cmp, Ordering.swap]
        · exact ihl.swap _ _ ‹_› ‹_›
        · exact ihr.swap _ _ ‹_› ‹_›
      trans := by
        intro a b d ha hb hd
        cases ha <;> cases hb <;> cases hd <;> simp [cmp]
        · exact ihl.trans _ _ _ ‹_› ‹_› ‹_›
        · exact ihr.trans _ _ _ ‹_› ‹_› ‹_› }
  | .pair l r =>
    lawful_of_enc (Q := fun x : CVal × CVal => HasTy x.1 l ∧ HasTy x.2 r)
      (fun v => match v with | .pair a b => (a, b) | _ => (.unit, .unit))
      ((spec_lawful l).prod (spec_lawful r))
      (by intro a ha; cases ha; exact ⟨‹_›, ‹_›⟩)
      (by intro a b ha hb; cases ha; cases hb; simp)
      (by intro a b ha hb; cases ha; cases hb; simp [cmp])

end Order
