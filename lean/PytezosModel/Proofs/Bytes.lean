import PytezosModel.Core.Bytes
namespace Core

theorem beToNat_append_singleton (xs : Bytes) (b : Nat) : beToNat (xs ++ [b]) = beToNat xs * 256 + b := by
  simp [beToNat, List.foldl_append]

theorem natToBE_spec (n v : Nat) (bs : Bytes) (h : natToBE n v = some bs) :
    bs.length = n ∧ beToNat bs = v ∧ Bytes.WF bs := by
  induction n generalizing v bs with
  | zero =>
    simp only [natToBE] at h
    split at h
    · simp only [Option.some.injEq] at h; subst h; subst_vars; simp [beToNat, Bytes.WF]
    · simp at h
  | succ n ih =>
    simp only [natToBE] at h
    cases hr : natToBE n (v / 256) with
    | none => simp [hr] at h
    | some p =>
      simp only [hr, Option.map_some, Option.some.injEq] at h
      subst h
      obtain ⟨h1, h2, h3⟩ := ih _ _ hr
      refine ⟨by simp [h1], ?_, ?_⟩
      · rw [beToNat_append_singleton, h2]; omega
      · intro b hb
        simp only [List.mem_append, List.mem_singleton] at hb
        rcases hb with hb | hb
        · exact h3 b hb
        · omega

/-- reading back a forged array: the data and exactly what followed it -/
theorem unforgeArray_forgeArray (k : Nat) (data bs rest : Bytes) (h : forgeArray k data = some bs) :
    unforgeArray k (bs ++ rest) = some (data, rest) := by
  simp only [forgeArray] at h
  cases hr : natToBE k data.length with
  | none => simp [hr] at h
  | some hdr =>
    simp only [hr, Option.map_some, Option.some.injEq] at h
    subst h
    obtain ⟨h1, h2, _⟩ := natToBE_spec _ _ _ hr
    simp only [unforgeArray, List.length_append, List.append_assoc]
    have e1 : (hdr ++ (data ++ rest)).take k = hdr := by
      rw [← h1]; simp
    have e2 : (hdr ++ (data ++ rest)).drop k = data ++ rest := by
      rw [← h1]; simp
    have e3 : ¬ (hdr.length + (data.length + rest.length) < k) := by omega
    simp only [e3, if_false, e1, e2, h2, List.length_append]
    have e4 : ¬ (data.length + rest.length < data.length) := by omega
    simp [e4]

theorem forgeArray_length (k : Nat) (data bs : Bytes) (h : forgeArray k data = some bs) :
    bs.length = k + data.length := by
  simp only [forgeArray] at h
  cases hr : natToBE k data.length with
  | none => simp [hr] at h
  | some hdr =>
    simp only [hr, Option.map_some, Option.some.injEq] at h
    subst h
    obtain ⟨h1, _, _⟩ := natToBE_spec _ _ _ hr
    simp [h1]

/-- what `unforgeArray` accepts is a header followed by the data: the buffer splits as consumed ++ rest -/
theorem unforgeArray_split (k : Nat) (d data rest : Bytes) (h : unforgeArray k d = some (data, rest)) :
    d = d.take k ++ data ++ rest ∧ k ≤ d.length ∧ data.length = beToNat (d.take k) := by
  simp only [unforgeArray] at h
  split at h
  · simp at h
  · split at h
    · simp at h
    · simp only [Option.some.injEq, Prod.mk.injEq] at h
      obtain ⟨rfl, rfl⟩ := h
      refine ⟨?_, by omega, ?_⟩
      · rw [List.append_assoc, List.take_append_drop, List.take_append_drop]
      · rw [List.length_take]; omega

/-- locality: `unforgeArray` only looks at the bytes it consumes -/
theorem unforgeArray_local (k : Nat) (d data rest : Bytes) (h : unforgeArray k d = some (data, rest)) (tail : Bytes) :
    unforgeArray k ((d.take k ++ data) ++ tail) = some (data, tail) := by
  obtain ⟨hd, hk, hl⟩ := unforgeArray_split k d data rest h
  have hlen : (d.take k).length = k := by rw [List.length_take]; omega
  simp only [unforgeArray, List.length_append, List.append_assoc]
  have e1 : (d.take k ++ (data ++ tail)).take k = d.take k := by
    conv => lhs; arg 1; rw [← hlen]
    simp
  have e2 : (d.take k ++ (data ++ tail)).drop k = data ++ tail := by
    conv => lhs; arg 1; rw [← hlen]
    simp
  have e3 : ¬ ((d.take k).length + (data.length + tail.length) < k) := by omega
  simp only [e3, if_false, e1, e2, ← hl, List.length_append]
  have e4 : ¬ (data.length + tail.length < data.length) := by omega
  simp [e4]

end Core

namespace Core
theorem forgeArray_drop (k : Nat) (data bs rest : Bytes) (h : forgeArray k data = some bs) :
    (bs ++ rest).drop k = data ++ rest := by
  simp only [forgeArray] at h
  cases hr : natToBE k data.length with
  | none => simp [hr] at h
  | some hdr =>
    simp only [hr, Option.map_some, Option.some.injEq] at h
    subst h
    obtain ⟨h1, _, _⟩ := natToBE_spec _ _ _ hr
    rw [List.append_assoc, ← h1]; simp

theorem unforgeArray_zero4 (rest : Bytes) : unforgeArray 4 ([0, 0, 0, 0] ++ rest) = some ([], rest) := by
  simp [unforgeArray, beToNat]
end Core
