import PytezosModel.Proofs.C11Value
/-! C11 — the round trip, by induction on the type.  `RT τ` packages, for every value of type `τ` that the call renders
faithfully: (1) `from_micheline_value (to_micheline_value v) = v`, and for pairs (2) the comb invariant: the
sequence form and the flat `Pair` form of the rendered `iter_comb` items parse back to the same pair (this is what the
enclosing pair relies on when it splices the right component in). -/
namespace Impl.Value
open VC Core

def RT (env : Env) (mode : Mode) (τ : Ty) : Prop :=
  (∀ lz v, hasTy env τ v = true → faithful mode lz τ v = true →
      ofMichCore env τ (render env mode lz v).1 = .ok v) ∧
  (∀ lz n a b, hasTy env τ (.pair n a b) = true → faithful mode lz τ (.pair n a b) = true →
      ofMichCore env τ (.seq (render env mode lz (.pair n a b)).2) = .ok (.pair n a b) ∧
      ofMichCore env τ (pairOf (render env mode lz (.pair n a b)).2) = .ok (.pair n a b) ∧
      2 ≤ (render env mode lz (.pair n a b)).2.length)

theorem dom_rt (env : Env) (hl : env.Lawful) (mode : Mode) (k : DomKind) (d : DomVal)
    (hv : env.valid k d = true) (hn : mode = .readable ∨ binNorm k d = d) :
    domOfMich env k (domToMich env mode k d) = .ok (.dom k d) := by
  by_cases hm : mode = .readable
  · simp [domToMich, hm, domOfMich, (lit_dom k).2, hl.text_rt k d hv]
  · have hb : binNorm k d = d := by cases hn with
      | inl h => exact absurd h hm
      | inr h => exact h
    simp [domToMich, hm, domOfMich, (lit_dom k).1, hl.bin_rt k d hv, hb]

theorem leaf_rt (env : Env) (hl : env.Lawful) (mode : Mode) (l : Leaf) (a : Annot) : RT env mode (.leaf l a) := by
  constructor
  · intro lz v hty hf
    cases l with
    | unit => cases v <;> simp [hasTy] at hty; simp [render, prim0, ofMichCore, leafOfMich, acc_unit]
    | bool =>
      cases v <;> simp [hasTy] at hty
      rename_i b
      cases b <;> simp [render, prim0, ofMichCore, leafOfMich, acc_true, acc_false]
    | int => cases v <;> simp [hasTy] at hty; simp [render, ofMichCore, leafOfMich, intLit, lit_int, Except.map]
    | nat =>
      cases v <;> simp [hasTy] at hty
      simp [render, ofMichCore, leafOfMich, intLit, lit_nat, hty]
    | mutez =>
      cases v <;> simp [hasTy] at hty
      have h2 := hty.2
      simp only [VC.mutezBits, Generated.C11.mutezBits, Option.getD_some] at h2
      have h63 : (2 : Int) ^ 63 = 9223372036854775808 := by decide
      rw [h63] at h2
      simp [render, ofMichCore, leafOfMich, intLit, lit_nat, Generated.C11.mutezBits, hty.1, h2]
    | timestamp =>
      cases v <;> simp [hasTy] at hty
      rename_i t
      by_cases hm : mode = .readable
      · by_cases hg : inGuard t = true
        · obtain ⟨h1, h2⟩ := guard_sub t hg
          simp [render, tsToMich, hm, hg, ofMichCore, leafOfMich, lit_ts_str, hl.ts_rt t h1 h2]
        · simp [render, tsToMich, hm, hg, ofMichCore, leafOfMich, lit_ts_int]
      · simp [render, tsToMich, hm, ofMichCore, leafOfMich, lit_ts_int]
    | string => cases v <;> simp [hasTy] at hty; simp [render, ofMichCore, leafOfMich, lit_string, hty]
    | bytes => cases v <;> simp [hasTy] at hty; simp [render, ofMichCore, leafOfMich, lit_bytes]
    | blsG1 => cases v <;> simp [hasTy] at hty; simp [render, ofMichCore, leafOfMich, lit_bytes]
    | blsG2 => cases v <;> simp [hasTy] at hty; simp [render, ofMichCore, leafOfMich, lit_bytes]
    | chest => cases v <;> simp [hasTy] at hty; simp [render, ofMichCore, leafOfMich, lit_bytes]
    | chestKey => cases v <;> simp [hasTy] at hty; simp [render, ofMichCore, leafOfMich, lit_bytes]
    | blsFr =>
      cases v <;> simp [hasTy] at hty
      rename_i v
      obtain ⟨⟨h0, h1⟩, h2⟩ := hty
      simp only [VC.frModulus, Generated.C11.frModulus, Option.getD_some] at h1 h2
      have hmod : v % (52435875175126190479447740508185965837690552500527637822603658699938581184513 : Int) = v :=
        Int.emod_eq_of_lt h0 h1
      by_cases hm : mode = .readable
      · simp [render, hm, ofMichCore, leafOfMich, lit_fr_int, Generated.C11.frModulus, hmod]
      · have hv : ((v.toNat : Nat) : Int) = v := Int.toNat_of_nonneg h0
        have hlt : v.toNat < 256 ^ 32 := by
          have : (v.toNat : Int) < (2 : Int) ^ 256 := by rw [hv]; omega
          have h256 : (256 : Nat) ^ 32 = 2 ^ 256 := by decide
          rw [h256]; exact_mod_cast this
        simp [render, hm, ofMichCore, leafOfMich, lit_fr_bytes, Generated.C11.frModulus, natToLE_length,
          leToNat_natToLE, Nat.mod_eq_of_lt hlt, hv, hmod]
    | never => cases v <;> simp [hasTy] at hty
    | operation => cases v <;> simp [hasTy] at hty
    | dom k =>
      cases v <;> simp [hasTy] at hty
      rename_i k' d
      obtain ⟨rfl, hv⟩ := hty
      have hn : mode = .readable ∨ binNorm k d = d := by
        by_cases hk : k = .signature
        · subst hk
          simp [faithful] at hf
          exact hf
        · exact Or.inr (binNorm_ne k d hk)
      simpa [render, ofMichCore, leafOfMich] using dom_rt env hl mode k d hv hn
  · intro lz n x y hty
    cases l <;> simp [hasTy] at hty

/-- a non-pair type has no pair values: the comb invariant is vacuous -/
theorem no_pair {env : Env} {mode : Mode} {τ : Ty}
    (h : ∀ n a b, hasTy env τ (.pair n a b) = false) :
    ∀ lz n a b, hasTy env τ (.pair n a b) = true → faithful mode lz τ (.pair n a b) = true →
      ofMichCore env τ (.seq (render env mode lz (.pair n a b)).2) = .ok (.pair n a b) ∧
      ofMichCore env τ (pairOf (render env mode lz (.pair n a b)).2) = .ok (.pair n a b) ∧
      2 ≤ (render env mode lz (.pair n a b)).2.length := by
  intro lz n a b hty
  rw [h n a b] at hty
  exact absurd hty (by simp)

theorem all_and {α : Type} (p q : α → Bool) (xs : List α) (h : xs.all (fun x => p x && q x) = true) :
    ∀ x ∈ xs, p x = true ∧ q x = true := by
  intro x hx
  have := List.all_eq_true.mp h x hx
  simpa using this

theorem render_pair (env : Env) (mode : Mode) (lz : Option Bool) (n : Bool) (a b : Val) :
    render env mode lz (.pair n a b) =
      (pairNode mode (render env mode lz a).1 (render env mode lz b).1
          ((render env mode lz a).1 :: (if flattens b then (render env mode lz b).2 else [(render env mode lz b).1])),
        (render env mode lz a).1 :: (if flattens b then (render env mode lz b).2 else [(render env mode lz b).1])) := by
  rw [render]

theorem pair_rt (env : Env) (mode : Mode) (l r : Ty) (a : Annot) (ihl : RT env mode l) (ihr : RT env mode r) :
    RT env mode (.pair l r a) := by
  -- everything follows from the three facts about the rendered pair
  have key : ∀ lz n x y, hasTy env (.pair l r a) (.pair n x y) = true →
      faithful mode lz (.pair l r a) (.pair n x y) = true →
      ofMichCore env (.pair l r a) (render env mode lz (.pair n x y)).1 = .ok (.pair n x y) ∧
      ofMichCore env (.pair l r a) (.seq (render env mode lz (.pair n x y)).2) = .ok (.pair n x y) ∧
      ofMichCore env (.pair l r a) (pairOf (render env mode lz (.pair n x y)).2) = .ok (.pair n x y) ∧
      2 ≤ (render env mode lz (.pair n x y)).2.length := by
    intro lz n x y hty hf
    simp only [hasTy, Bool.and_eq_true, beq_iff_eq] at hty
    obtain ⟨⟨hn, hx⟩, hy⟩ := hty
    simp only [faithful, Bool.and_eq_true] at hf
    have fx := ihl.1 lz x hx hf.1
    have fy := ihr.1 lz y hy hf.2
    subst hn
    by_cases hfl : flattens y = true
    · -- the right component is spliced in: it is a pair, so the invariant of `r` applies
      obtain ⟨ny, c, d, rfl⟩ : ∃ ny c d, y = .pair ny c d := by
        cases y <;> simp [flattens] at hfl
        exact ⟨_, _, _, rfl⟩
      obtain ⟨hs, hp, hlen⟩ := ihr.2 lz ny c d hy hf.2
      generalize hrb : render env mode lz (.pair ny c d) = rb at hs hp hlen fy
      obtain ⟨mb, cb⟩ := rb
      simp only at hs hp hlen fy
      obtain ⟨p, q, rest, rfl⟩ : ∃ p q rest, cb = p :: q :: rest := by
        match cb, hlen with
        | p :: q :: rest, _ => exact ⟨p, q, rest, rfl⟩
      have hrp : r.isPair = true := isPair_of_hasTy_pair env r ny c d hy
      have hm := pairOfMich_many a.named (ofMichCore env l) (ofMichCore env r) (render env mode lz x).1 p q rest x _ fx hs
      rw [← hrp] at hm
      have hren : render env mode lz (.pair a.named x (.pair ny c d)) =
          (pairNode mode (render env mode lz x).1 mb ((render env mode lz x).1 :: p :: q :: rest),
            (render env mode lz x).1 :: p :: q :: rest) := by
        rw [render_pair env mode lz a.named x (.pair ny c d), hrb]
        simp [hfl]
      rw [hren]
      refine ⟨?_, ?_, ?_, by simp⟩
      · cases mode with
        | readable => simpa [pairNode, ofMichCore] using hm.1
        | legacyOptimized =>
          simpa [pairNode, ofMichCore] using (pairOfMich_two a.named r.isPair _ _ _ _ x _ fx fy).1
        | optimized =>
          cases rest with
          | nil =>
            simpa [pairNode, ofMichCore] using (pairOfMich_two a.named r.isPair _ _ _ _ x _ fx hp).1
          | cons z rest => simpa [pairNode, ofMichCore] using hm.2
      · simpa [ofMichCore] using hm.2
      · simpa [ofMichCore] using hm.1
    · have hren : render env mode lz (.pair a.named x y) =
          (pairOf [(render env mode lz x).1, (render env mode lz y).1],
            [(render env mode lz x).1, (render env mode lz y).1]) := by
        rw [render_pair env mode lz a.named x y]
        simp only [hfl]
        cases mode <;> simp [pairNode]
      have h2 := pairOfMich_two a.named r.isPair (ofMichCore env l) (ofMichCore env r) _ _ x y fx fy
      rw [hren]
      exact ⟨by simpa [ofMichCore] using h2.1, by simpa [ofMichCore] using h2.2, by simpa [ofMichCore] using h2.1, by simp⟩
  constructor
  · intro lz v hty hf
    cases v <;> simp [hasTy] at hty
    rename_i n x y
    exact (key lz n x y (by simp [hasTy, hty]) hf).1
  · intro lz n x y hty hf
    exact (key lz n x y hty hf).2

theorem elts_facts (env : Env) (mode : Mode) (lz : Option Bool) (k v : Ty) (ihk : RT env mode k) (ihv : RT env mode v)
    (kvs : List (Val × Val))
    (hty : kvs.all (fun kv => hasTy env k kv.1 && hasTy env v kv.2) = true)
    (hf : kvs.all (fun kv => faithful mode lz k kv.1 && faithful mode lz v kv.2) = true) :
    mapElts (ofMichCore env k) (ofMichCore env v) (renderE env mode lz kvs) = .ok kvs := by
  apply mapElts_render
  intro kv hkv
  have t := all_and _ _ kvs hty kv hkv
  have f := all_and _ _ kvs hf kv hkv
  exact ⟨ihk.1 lz kv.1 t.1 f.1, ihv.1 lz kv.2 t.2 f.2⟩

theorem list_facts (env : Env) (mode : Mode) (lz : Option Bool) (t : Ty) (ih : RT env mode t) (xs : List Val)
    (hty : xs.all (hasTy env t) = true) (hf : xs.all (faithful mode lz t) = true) :
    mapMich (ofMichCore env t) (renderL env mode lz xs) = .ok xs := by
  rw [renderL_eq_map]
  apply mapMich_render
  intro x hx
  exact ih.1 lz x (List.all_eq_true.mp hty x hx) (List.all_eq_true.mp hf x hx)

/-- **round trip at the level of the total renderer**, every type, every value (no depth or size bound) -/
theorem rt (env : Env) (hl : env.Lawful) (mode : Mode) : ∀ τ, RT env mode τ := by
  intro τ
  induction τ with
  | leaf l a => exact leaf_rt env hl mode l a
  | option t a ih =>
    refine ⟨?_, no_pair (by intro n a b; simp [hasTy])⟩
    intro lz v hty hf
    cases v <;> simp [hasTy] at hty
    · simp [render, prim0, ofMichCore, acc_none]
    · rename_i x
      simp only [faithful] at hf
      simp [render, ofMichCore, acc_some, ih.1 lz x hty hf, Except.map]
  | or l r a ihl ihr =>
    refine ⟨?_, no_pair (by intro n a b; simp [hasTy])⟩
    intro lz v hty hf
    cases v <;> simp [hasTy] at hty
    · rename_i x
      simp only [faithful] at hf
      simp [render, ofMichCore, acc_left, ihl.1 lz x hty hf, Except.map]
    · rename_i x
      simp only [faithful] at hf
      simp [render, ofMichCore, acc_right, ihr.1 lz x hty hf, Except.map]
  | pair l r a ihl ihr => exact pair_rt env mode l r a ihl ihr
  | list t a ih =>
    refine ⟨?_, no_pair (by intro n a b; simp [hasTy])⟩
    intro lz v hty hf
    cases v <;> simp only [hasTy, Bool.false_eq_true] at hty
    rename_i xs
    simp only [faithful] at hf
    simp [render, ofMichCore, list_facts env mode lz t ih xs hty hf, Except.map]
  | set t a ih =>
    refine ⟨?_, no_pair (by intro n a b; simp [hasTy])⟩
    intro lz v hty hf
    cases v <;> simp only [hasTy, Bool.false_eq_true, Bool.and_eq_true] at hty
    rename_i xs
    simp only [faithful] at hf
    simp [render, ofMichCore, list_facts env mode lz t ih xs hty.1 hf, hty.2]
  | map k v a ihk ihv =>
    refine ⟨?_, no_pair (by intro n a b; simp [hasTy])⟩
    intro lz w hty hf
    cases w <;> simp only [hasTy, Bool.false_eq_true, Bool.and_eq_true] at hty
    rename_i kvs
    simp only [faithful] at hf
    simp [render, ofMichCore, elts_facts env mode lz k v ihk ihv kvs hty.1 hf, hty.2]
  | bigMap k v a ihk ihv =>
    refine ⟨?_, no_pair (by intro n a b; simp [hasTy])⟩
    intro lz w hty hf
    cases w <;> simp only [hasTy, Bool.false_eq_true, Bool.and_eq_true] at hty
    rename_i ptr kvs
    simp only [faithful, Bool.and_eq_true] at hf
    by_cases hz : bigMapLazy lz ptr = true
    · simp only [hz, if_true, Option.isNone_iff_eq_none] at hf
      obtain ⟨hfk, rfl⟩ := hf
      simp [render, hz, ofMichCore, elts_facts env mode (some false) k v ihk ihv kvs hty.1 hfk, hty.2]
    · simp only [hz, Bool.false_eq_true, if_false, Bool.and_eq_true, List.isEmpty_iff] at hf
      obtain ⟨_, hp, rfl⟩ := hf
      obtain ⟨p, rfl⟩ := Option.isSome_iff_exists.mp hp
      simp [render, hz, ofMichCore, intLit, lit_bigmap, Except.map]
  | lambda x y a _ _ =>
    refine ⟨?_, no_pair (by intro n a b; simp [hasTy])⟩
    intro lz w hty hf
    cases w <;> simp only [hasTy, Bool.false_eq_true] at hty
    rename_i code
    simp [render, ofMichCore, hl.lambda_rt code hty]
  | contract p a _ =>
    refine ⟨?_, no_pair (by intro n a b; simp [hasTy])⟩
    intro lz w hty hf
    cases w <;> simp only [hasTy, Bool.false_eq_true, Bool.and_eq_true, decide_eq_true_eq] at hty
    rename_i k d
    obtain ⟨rfl, hv⟩ := hty
    simpa [render, ofMichCore] using
      dom_rt env hl mode .contract d hv (Or.inr (binNorm_ne _ d (by decide)))
  | ticket t a ih =>
    refine ⟨?_, no_pair (by intro n a b; simp [hasTy])⟩
    intro lz w hty hf
    cases w <;> simp only [hasTy, Bool.false_eq_true, Bool.and_eq_true, decide_eq_true_eq] at hty
    rename_i d item amount
    obtain ⟨⟨hv, hi⟩, ha⟩ := hty
    simp only [faithful] at hf
    have fa := dom_rt env hl mode .address d hv (Or.inr (binNorm_ne _ d (by decide)))
    have fi := ih.1 (some false) item hi hf
    have fn : leafOfMich env .nat (.int amount) = .ok (.int amount) := by
      simp [leafOfMich, intLit, lit_nat, ha]
    have inner := pairOfMich_two false false (ofMichCore env t) (leafOfMich env .nat) _ _ item (.int amount) fi fn
    cases mode with
    | readable =>
      have outer := pairOfMich_many false (domOfMich env .address)
        (pairOfMich false false (ofMichCore env t) (leafOfMich env .nat)) _ _ _ [] _ _ fa inner.2
      simp only [render, ofMichCore, outer.1, ticketOfComb]
    | optimized =>
      have outer := pairOfMich_two false true (domOfMich env .address)
        (pairOfMich false false (ofMichCore env t) (leafOfMich env .nat)) _ _ _ _ fa inner.1
      simp only [render, ofMichCore, outer.1, ticketOfComb]
    | legacyOptimized =>
      have outer := pairOfMich_two false true (domOfMich env .address)
        (pairOfMich false false (ofMichCore env t) (leafOfMich env .nat)) _ _ _ _ fa inner.1
      simp only [render, ofMichCore, outer.1, ticketOfComb]
  | saplingState memo a =>
    refine ⟨?_, no_pair (by intro n a b; simp [hasTy])⟩
    intro lz w hty hf
    cases w <;> simp only [hasTy, Bool.false_eq_true] at hty
    rename_i ptr
    simp only [faithful] at hf
    by_cases hz : lz = some true
    · simp only [hz, if_true, Option.isNone_iff_eq_none] at hf
      subst hf
      simp [render, hz, ofMichCore]
    · simp only [hz, if_false] at hf
      obtain ⟨p, rfl⟩ := Option.isSome_iff_exists.mp hf
      simp [render, hz, ofMichCore, intLit, lit_sapling, Except.map]

/-! ### the Python call does not raise on the values it renders faithfully -/

theorem raisesL_false (mode : Mode) (lz : Option Bool) (xs : List Val) (h : ∀ x ∈ xs, raises mode lz x = false) :
    raisesL mode lz xs = false := by
  induction xs with
  | nil => simp [raisesL]
  | cons x xs ih =>
    simp [raisesL, h x (by simp), ih (fun y hy => h y (by simp [hy]))]

theorem raisesE_false (mode : Mode) (lz : Option Bool) (kvs : List (Val × Val))
    (h : ∀ kv ∈ kvs, raises mode lz kv.1 = false ∧ raises mode lz kv.2 = false) :
    raisesE mode lz kvs = false := by
  induction kvs with
  | nil => simp [raisesE]
  | cons kv kvs ih =>
    obtain ⟨k, v⟩ := kv
    have hx := h (k, v) (by simp)
    simp [raisesE, hx.1, hx.2, ih (fun y hy => h y (by simp [hy]))]

theorem no_raise (env : Env) (mode : Mode) : ∀ (τ : Ty) (lz : Option Bool) (v : Val),
    hasTy env τ v = true → faithful mode lz τ v = true → raises mode lz v = false := by
  intro τ
  induction τ with
  | leaf l a =>
    intro lz v hty hf
    cases l <;> cases v <;> simp [hasTy] at hty <;> simp [raises]
    · rename_i t
      intro _ hg
      have := guard_sub t hg
      simp [this.1, this.2]
    · intro _
      obtain ⟨⟨h0, h1⟩, h2⟩ := hty
      refine ⟨h0, ?_⟩
      have : ((VC.frModulus : Nat) : Int) ≤ ((2 ^ 256 : Nat) : Int) := by exact_mod_cast h2
      have h3 : ((2 ^ 256 : Nat) : Int) = (2 : Int) ^ 256 := by norm_cast
      omega
  | option t a ih =>
    intro lz v hty hf
    cases v <;> simp [hasTy] at hty <;> simp [raises]
    simp only [faithful] at hf
    exact ih lz _ hty hf
  | or l r a ihl ihr =>
    intro lz v hty hf
    cases v <;> simp [hasTy] at hty <;> simp [raises]
    · simp only [faithful] at hf; exact ihl lz _ hty hf
    · simp only [faithful] at hf; exact ihr lz _ hty hf
  | pair l r a ihl ihr =>
    intro lz v hty hf
    cases v <;> simp [hasTy] at hty
    simp only [faithful, Bool.and_eq_true] at hf
    simp [raises, ihl lz _ hty.1.2 hf.1, ihr lz _ hty.2 hf.2]
  | list t a ih =>
    intro lz v hty hf
    cases v <;> simp only [hasTy, Bool.false_eq_true] at hty
    simp only [faithful] at hf
    simp only [raises]
    exact raisesL_false mode lz _ (fun x hx => ih lz x (List.all_eq_true.mp hty x hx) (List.all_eq_true.mp hf x hx))
  | set t a ih =>
    intro lz v hty hf
    cases v <;> simp only [hasTy, Bool.false_eq_true, Bool.and_eq_true] at hty
    simp only [faithful] at hf
    simp only [raises]
    exact raisesL_false mode lz _ (fun x hx => ih lz x (List.all_eq_true.mp hty.1 x hx) (List.all_eq_true.mp hf x hx))
  | map k v a ihk ihv =>
    intro lz w hty hf
    cases w <;> simp only [hasTy, Bool.false_eq_true, Bool.and_eq_true] at hty
    simp only [faithful] at hf
    simp only [raises]
    apply raisesE_false
    intro kv hkv
    have t := all_and _ _ _ hty.1 kv hkv
    have f := all_and _ _ _ hf kv hkv
    exact ⟨ihk lz _ t.1 f.1, ihv lz _ t.2 f.2⟩
  | bigMap k v a ihk ihv =>
    intro lz w hty hf
    cases w <;> simp only [hasTy, Bool.false_eq_true, Bool.and_eq_true] at hty
    rename_i ptr kvs
    simp only [faithful, Bool.and_eq_true] at hf
    by_cases hz : bigMapLazy lz ptr = true
    · simp only [raises, hz, if_true]
      apply raisesE_false
      intro kv hkv
      have t := all_and _ _ _ hty.1 kv hkv
      have f := all_and _ _ _ hf.1 kv hkv
      exact ⟨ihk _ _ t.1 f.1, ihv _ _ t.2 f.2⟩
    · simp only [hz, Bool.false_eq_true, if_false, Bool.and_eq_true] at hf
      obtain ⟨p, rfl⟩ := Option.isSome_iff_exists.mp hf.2.1
      simp [raises, hz]
  | lambda x y a _ _ =>
    intro lz w hty hf
    cases w <;> simp only [hasTy, Bool.false_eq_true] at hty
    simp [raises]
  | contract p a _ =>
    intro lz w hty hf
    cases w <;> simp only [hasTy, Bool.false_eq_true] at hty
    simp [raises]
  | ticket t a ih =>
    intro lz w hty hf
    cases w <;> simp only [hasTy, Bool.false_eq_true, Bool.and_eq_true] at hty
    simp only [faithful] at hf
    simp only [raises]
    exact ih _ _ hty.1.2 hf
  | saplingState memo a =>
    intro lz w hty hf
    cases w <;> simp only [hasTy, Bool.false_eq_true] at hty
    rename_i ptr
    simp only [faithful] at hf
    by_cases hz : lz = some true
    · simp [raises, hz]
    · simp only [hz, if_false] at hf
      obtain ⟨p, rfl⟩ := Option.isSome_iff_exists.mp hf
      simp [raises]

end Impl.Value
