import PytezosModel.Proofs.InterpUnpackTags
/-! UNPACK: the mirror of `MichelsonType.unpack` (`unforge_micheline` + `from_micheline_value`, every exception swallowed)
against the reference (`Spec.unpackV`: the strict decoder followed by the protocol's reading of an expression at a type). -/
set_option linter.unusedSimpArgs false
namespace Interp
open Core Impl.Lower Typing

/-! ### `parse_micheline_value` -/
theorem parseValue_annot (hs : List (String × Nat)) (t : Nat) (args : List BMich) (a : Bytes) :
    Impl.parseValue hs (.prim t args (some a)) = none := by simp [Impl.parseValue]

theorem parseValue_one (name : String) (n k : Nat) (hiff : ∀ t, primOfTag t = some name ↔ t = n) (t : Nat) (args : List BMich) :
    Impl.parseValue [(name, k)] (.prim t args none) = if t = n ∧ args.length = k then some (0, args) else none := by
  unfold Impl.parseValue
  simp only [Option.isSome_none, Bool.false_eq_true, if_false]
  cases hp : primOfTag t with
  | none =>
    have : t ≠ n := fun e => by rw [(hiff t).mpr e] at hp; cases hp
    simp [this]
  | some nm =>
    by_cases hnm : nm = name
    · subst hnm
      have := (hiff t).mp hp
      subst this
      by_cases hl : args.length = k
      · subst hl; simp [List.findIdx?_cons]
      · have hl' : ¬ k = args.length := fun e => hl e.symm
        simp [List.findIdx?_cons, hl, hl']
    · have : t ≠ n := fun e => by rw [(hiff t).mpr e] at hp; exact hnm (Option.some.inj hp).symm
      simp [List.findIdx?_cons, this, Ne.symm hnm]

theorem parseValue_two (n1 : String) (t1 k1 : Nat) (n2 : String) (t2 k2 : Nat) (hne : n1 ≠ n2)
    (h1 : ∀ t, primOfTag t = some n1 ↔ t = t1) (h2 : ∀ t, primOfTag t = some n2 ↔ t = t2) (t : Nat) (args : List BMich) :
    Impl.parseValue [(n1, k1), (n2, k2)] (.prim t args none)
      = if t = t1 ∧ args.length = k1 then some (0, args) else if t = t2 ∧ args.length = k2 then some (1, args) else none := by
  unfold Impl.parseValue
  simp only [Option.isSome_none, Bool.false_eq_true, if_false]
  have hd : t1 ≠ t2 := fun e => hne (Option.some.inj (by rw [← (h1 t1).mpr rfl, e, (h2 t2).mpr rfl]))
  cases hp : primOfTag t with
  | none =>
    have e1 : t ≠ t1 := fun e => by rw [(h1 t).mpr e] at hp; cases hp
    have e2 : t ≠ t2 := fun e => by rw [(h2 t).mpr e] at hp; cases hp
    simp [e1, e2]
  | some nm =>
    by_cases hnm : nm = n1
    · subst hnm
      have := (h1 t).mp hp
      subst this
      by_cases hl : args.length = k1
      · subst hl; simp [List.findIdx?_cons]
      · have hl' : ¬ k1 = args.length := fun e => hl e.symm
        simp [List.findIdx?_cons, hl, hl', hne, Ne.symm hne, hd, Ne.symm hd]
    · have e1 : t ≠ t1 := fun e => by rw [(h1 t).mpr e] at hp; exact hnm (Option.some.inj hp).symm
      by_cases hnm2 : nm = n2
      · subst hnm2
        have := (h2 t).mp hp
        subst this
        by_cases hl : args.length = k2
        · subst hl; simp [List.findIdx?_cons, hne, Ne.symm hne, hd, Ne.symm hd]
        · have hl' : ¬ k2 = args.length := fun e => hl e.symm
          simp [List.findIdx?_cons, hl, hl', hne, Ne.symm hne, hd, Ne.symm hd]
      · have e2 : t ≠ t2 := fun e => by rw [(h2 t).mpr e] at hp; exact hnm2 (Option.some.inj hp).symm
        simp [List.findIdx?_cons, e1, e2, Ne.symm hnm, Ne.symm hnm2]

theorem pv_unit (t : Nat) (args : List BMich) : Impl.parseValue [("Unit", 0)] (.prim t args none)
    = if t = 11 ∧ args.length = 0 then some (0, args) else none := parseValue_one "Unit" 11 0 ofTag_Unit t args
theorem pv_elt (t : Nat) (args : List BMich) : Impl.parseValue [("Elt", 2)] (.prim t args none)
    = if t = 4 ∧ args.length = 2 then some (0, args) else none := parseValue_one "Elt" 4 2 ofTag_Elt t args
theorem pv_bool (t : Nat) (args : List BMich) : Impl.parseValue [("False", 0), ("True", 0)] (.prim t args none)
    = if t = 3 ∧ args.length = 0 then some (0, args) else if t = 10 ∧ args.length = 0 then some (1, args) else none :=
  parseValue_two "False" 3 0 "True" 10 0 (by decide) ofTag_False ofTag_True t args
theorem pv_option (t : Nat) (args : List BMich) : Impl.parseValue [("Some", 1), ("None", 0)] (.prim t args none)
    = if t = 9 ∧ args.length = 1 then some (0, args) else if t = 6 ∧ args.length = 0 then some (1, args) else none :=
  parseValue_two "Some" 9 1 "None" 6 0 (by decide) ofTag_Some ofTag_None t args
theorem pv_or (t : Nat) (args : List BMich) : Impl.parseValue [("Left", 1), ("Right", 1)] (.prim t args none)
    = if t = 5 ∧ args.length = 1 then some (0, args) else if t = 8 ∧ args.length = 1 then some (1, args) else none :=
  parseValue_two "Left" 5 1 "Right" 8 1 (by decide) ofTag_Left ofTag_Right t args

/-! ### the list helpers -/
theorem mapAll_eq (f g : BMich → Option Val) (h : ∀ x, f x = g x) : ∀ xs, Impl.mapAll f xs = Spec.readAll g xs
  | [] => rfl
  | x :: xs => by
    simp only [Impl.mapAll, Spec.readAll, h x, mapAll_eq f g h xs]
    cases g x <;> cases Spec.readAll g xs <;> rfl

theorem tuple2_eq (a b : Option Val) : Impl.tuple2 a b = Spec.mkPair a b := by cases a <;> cases b <;> rfl

theorem parseElts_eq (fk fv gk gv : BMich → Option Val) (hk : ∀ x, fk x = gk x) (hv : ∀ x, fv x = gv x) :
    ∀ xs, Impl.parseElts fk fv xs = Spec.readElts gk gv xs
  | [] => rfl
  | e :: xs => by
    have ih := parseElts_eq fk fv gk gv hk hv xs
    cases e with
    | int _ => simp [Impl.parseElts, Spec.readElts, Impl.parseValue]
    | str _ => simp [Impl.parseElts, Spec.readElts, Impl.parseValue]
    | bytes _ => simp [Impl.parseElts, Spec.readElts, Impl.parseValue]
    | seq _ => simp [Impl.parseElts, Spec.readElts, Impl.parseValue]
    | prim t args an =>
      cases an with
      | some a => simp [Impl.parseElts, Spec.readElts, parseValue_annot]
      | none =>
        rcases args with _ | ⟨a, _ | ⟨b, _ | ⟨c, rest⟩⟩⟩
        · simp [Impl.parseElts, Spec.readElts, pv_elt]
        · simp [Impl.parseElts, Spec.readElts, pv_elt]
        · by_cases h4 : t = 4
          · subst h4
            simp [Impl.parseElts, Spec.readElts, pv_elt, tuple2_eq, hk, hv, ih]
            cases Spec.mkPair (gk a) (gv b) <;> cases Spec.readElts gk gv xs <;> rfl
          · simp [Impl.parseElts, Spec.readElts, pv_elt, h4]
        · simp [Impl.parseElts, Spec.readElts, pv_elt]

/-! ### `check_constraints` on keys of one simple comparable type is "strictly ascending" -/
section
variable {α β : Type} (g : α → β) (eqα : α → α → Bool) (eqβ : β → β → Bool) (heq : ∀ a b, eqβ (g a) (g b) = eqα a b)
include heq

theorem classes_foldl_map : ∀ (l acc : List α),
    (l.map g).foldl (fun acc x => if acc.any (fun e => eqβ e x) then acc else acc ++ [x]) (acc.map g)
      = (l.foldl (fun acc x => if acc.any (fun e => eqα e x) then acc else acc ++ [x]) acc).map g
  | [], _ => rfl
  | x :: l, acc => by
    simp only [List.map_cons, List.foldl_cons]
    have : (acc.map g).any (fun e => eqβ e (g x)) = acc.any (fun e => eqα e x) := by
      rw [List.any_map]; congr 1; funext e; exact heq e x
    rw [this]
    split
    · exact classes_foldl_map l acc
    · have := classes_foldl_map l (acc ++ [x])
      simpa using this

theorem classes_map (l : List α) : _root_.Impl.Coll.classes eqβ (l.map g) = (_root_.Impl.Coll.classes eqα l).map g :=
  classes_foldl_map g eqα eqβ heq l []

theorem listEq_map : ∀ a b : List α, _root_.Impl.Coll.listEq eqβ (a.map g) (b.map g) = _root_.Impl.Coll.listEq eqα a b
  | [], [] => rfl
  | [], _ :: _ => rfl
  | _ :: _, [] => rfl
  | x :: xs, y :: ys => by simp only [List.map_cons, _root_.Impl.Coll.listEq, heq, listEq_map xs ys]
end

theorem constraintsOk_eq {k : Ty} {vs : List Val} (hall : ∀ v ∈ vs, isKey k v = true) :
    Impl.constraintsOk vs = strictSorted vs := by
  obtain ⟨ys, rfl⟩ := lift_keys vs hall
  have hcc : _root_.Impl.Coll.checkConstraints Impl.valEq Impl.valLt (ys.map Subtype.val)
      = _root_.Impl.Coll.checkConstraints (eqK : KeyOf k → KeyOf k → Bool) ltK ys := by
    unfold _root_.Impl.Coll.checkConstraints
    rw [classes_map Subtype.val eqK Impl.valEq (fun _ _ => rfl),
      ← sortBy_map Subtype.val id id ltK Impl.valLt (fun _ _ => rfl),
      listEq_map Subtype.val eqK Impl.valEq (fun _ _ => rfl)]
    simp only [List.length_map]
  have hiff := Coll.checkConstraints_ok_iff (strictTotalK k) ys
  have hss : strictSorted (ys.map Subtype.val) = true ↔ Coll.StrictSorted (ltK : KeyOf k → KeyOf k → Bool) ys := by
    rw [strictSorted_iff, ltK_eq]
    exact List.pairwise_map
  unfold Impl.constraintsOk
  rw [hcc]
  by_cases hs : strictSorted (ys.map Subtype.val) = true
  · rw [hiff.mpr (hss.mp hs), hs]
  · have hne : _root_.Impl.Coll.checkConstraints (eqK : KeyOf k → KeyOf k → Bool) ltK ys ≠ .ok () :=
      fun e => hs (hss.mpr (hiff.mp e))
    have hf : strictSorted (ys.map Subtype.val) = false := by simpa using hs
    rw [hf]
    cases hq : _root_.Impl.Coll.checkConstraints (eqK : KeyOf k → KeyOf k → Bool) ltK ys with
    | error _ => rfl
    | ok u => cases u; exact absurd hq hne

/-! ### reading an expression at a type -/
theorem readAll_all (f : BMich → Option Val) (P : Val → Prop) (hf : ∀ m v, f m = some v → P v) :
    ∀ xs vs, Spec.readAll f xs = some vs → ∀ v ∈ vs, P v
  | [], vs, h => by simp [Spec.readAll] at h; subst h; simp
  | x :: xs, vs, h => by
    simp only [Spec.readAll] at h
    cases hx : f x with
    | none => simp [hx] at h
    | some v =>
      cases hr : Spec.readAll f xs with
      | none => simp [hx, hr] at h
      | some vs' =>
        simp [hx, hr] at h; subst h
        intro w hw
        rcases List.mem_cons.mp hw with rfl | hw
        · exact hf x _ hx
        · exact readAll_all f P hf xs vs' hr w hw

theorem readVal_isKey (rt : List Nat → Option Int) {t : Ty} (ht : simpleComparable t = true) {m : BMich} {v : Val}
    (h : Spec.readVal rt t m = some v) : isKey t v = true := by
  cases t <;> simp [simpleComparable] at ht <;> cases m <;> simp [Spec.readVal] at h
  all_goals (repeat' (split at h))
  all_goals (try simp at h)
  all_goals (first | (obtain ⟨_, rfl⟩ := h; rfl) | (obtain ⟨_, _, rfl⟩ := h; rfl) | (subst h; rfl))

/-- `Pair x₁ … xₙ` and `{x₁; …; xₙ}` (n ≥ 2) denote the same value of a pair type -/
theorem readVal_pair_seq (rt : List Nat → Option Int) (r : Ty) (hr : Spec.isPairTy r = true) (y z : BMich) (rs : List BMich) :
    Spec.readVal rt r (.prim 7 (y :: z :: rs) none) = Spec.readVal rt r (.seq (y :: z :: rs)) := by
  cases r <;> simp [Spec.isPairTy] at hr
  cases rs <;> simp [Spec.readVal]

theorem mkPair_some {a b : Option Val} {p : Val} (h : Spec.mkPair a b = some p) : ∃ x y, a = some x ∧ b = some y ∧ p = .pair x y := by
  cases a <;> cases b <;> simp [Spec.mkPair] at h
  exact ⟨_, _, rfl, rfl, h.symm⟩

theorem readElts_all (fk fv : BMich → Option Val) (P Q : Val → Prop) (hk : ∀ m v, fk m = some v → P v)
    (hv : ∀ m v, fv m = some v → Q v) :
    ∀ xs items, Spec.readElts fk fv xs = some items → ∀ e ∈ items, ∃ a b, e = .pair a b ∧ P a ∧ Q b
  | [], items, h => by simp [Spec.readElts] at h; subst h; simp
  | x :: xs, items, h => by
    cases x with
    | int _ => simp [Spec.readElts] at h
    | str _ => simp [Spec.readElts] at h
    | bytes _ => simp [Spec.readElts] at h
    | seq _ => simp [Spec.readElts] at h
    | prim t args an =>
      cases an with
      | some _ => simp [Spec.readElts] at h
      | none =>
        rcases args with _ | ⟨a, _ | ⟨b, _ | ⟨c, rest⟩⟩⟩
        · simp [Spec.readElts] at h
        · simp [Spec.readElts] at h
        · simp only [Spec.readElts] at h
          split at h
          · cases hp : Spec.mkPair (fk a) (fv b) with
            | none => simp [hp] at h
            | some p =>
              cases hr : Spec.readElts fk fv xs with
              | none => simp [hp, hr] at h
              | some ps =>
                simp [hp, hr] at h; subst h
                obtain ⟨x, y, hx, hy, rfl⟩ := mkPair_some hp
                intro e he
                rcases List.mem_cons.mp he with rfl | he
                · exact ⟨x, y, rfl, hk a x hx, hv b y hy⟩
                · exact readElts_all fk fv P Q hk hv xs ps hr e he
          · simp at h
        · simp [Spec.readElts] at h

theorem toKV_fst_eq : (fun e => (Impl.toKV e).1) = keyOf := by
  funext e; cases e <;> rfl

theorem simple_unpackable {t : Ty} (h : simpleComparable t = true) : unpackable t = true := by
  cases t <;> simp [simpleComparable] at h <;> rfl

theorem printable_lt (c : Nat) (h : Spec.printable c = true) : c < 128 := by
  simp only [Spec.printable, Bool.or_eq_true, beq_iff_eq, Bool.and_eq_true, decide_eq_true_eq] at h
  omega

theorem strFromValue_eq (s : List Nat) : Impl.strFromValue s = if s.all Spec.printable then some (.str s) else none := by
  unfold Impl.strFromValue
  have e : (s.all fun c => c == 10 || (decide (32 ≤ c) && decide (c ≤ 126))) = s.all Spec.printable := rfl
  rw [e]
  by_cases hp : s.all Spec.printable = true
  · have : (s.all fun c => decide (c < 128)) = true := by
      rw [List.all_eq_true] at hp ⊢
      intro c hc; simpa using printable_lt c (hp c hc)
    simp [hp, this]
  · simp [hp]

/-- **`from_micheline_value` reads what the protocol reads**, class by class, on every expression -/
theorem fromMich_eq (rt : List Nat → Option Int) : ∀ t : Ty, unpackable t = true →
    ∀ m : BMich, Impl.fromMich rt t m = Spec.readVal rt t m := by
  intro t
  induction t with
  | unit =>
    intro _ m
    cases m with
    | prim t args an =>
      cases an with
      | some a => simp [Impl.fromMich, Spec.readVal, parseValue_annot]
      | none =>
        cases args with
        | nil => by_cases h : t = 11 <;> simp [Impl.fromMich, Spec.readVal, pv_unit, h]
        | cons a as => simp [Impl.fromMich, Spec.readVal, pv_unit]
    | _ => simp [Impl.fromMich, Spec.readVal, Impl.parseValue]
  | bool =>
    intro _ m
    cases m with
    | prim t args an =>
      cases an with
      | some a => simp [Impl.fromMich, Spec.readVal, parseValue_annot]
      | none =>
        cases args with
        | nil =>
          by_cases h : t = 10
          · subst h; simp [Impl.fromMich, Spec.readVal, pv_bool]
          · by_cases h3 : t = 3
            · subst h3; simp [Impl.fromMich, Spec.readVal, pv_bool]
            · simp [Impl.fromMich, Spec.readVal, pv_bool, h, h3]
        | cons a as => simp [Impl.fromMich, Spec.readVal, pv_bool]
    | _ => simp [Impl.fromMich, Spec.readVal, Impl.parseValue]
  | int => intro _ m; cases m <;> simp [Impl.fromMich, Spec.readVal, Impl.litInt]
  | nat =>
    intro _ m
    cases m with
    | int v => by_cases h : 0 ≤ v <;> simp [Impl.fromMich, Spec.readVal, Impl.litInt, numFromValue_eq, Spec.numOk, h]
    | _ => simp [Impl.fromMich, Spec.readVal, Impl.litInt]
  | mutez =>
    intro _ m
    cases m with
    | int v =>
      by_cases h : 0 ≤ v ∧ v < (9223372036854775808 : Int) <;> simp [Impl.fromMich, Spec.readVal, Impl.litInt, numFromValue_eq, Spec.numOk, h]
    | _ => simp [Impl.fromMich, Spec.readVal, Impl.litInt]
  | timestamp => intro _ m; cases m <;> simp [Impl.fromMich, Spec.readVal]
  | string => intro _ m; cases m <;> simp [Impl.fromMich, Spec.readVal, strFromValue_eq]
  | bytes => intro _ m; cases m <;> simp [Impl.fromMich, Spec.readVal]
  | option t ih =>
    intro hu m
    simp only [unpackable] at hu
    cases m with
    | prim p args an =>
      cases an with
      | some a => simp [Impl.fromMich, Spec.readVal, parseValue_annot]
      | none =>
        rcases args with _ | ⟨x, _ | ⟨y, rest⟩⟩
        · by_cases h : p = 6 <;> simp [Impl.fromMich, Spec.readVal, pv_option, h]
        · by_cases h : p = 9
          · subst h; simp [Impl.fromMich, Spec.readVal, pv_option, ih hu]
          · simp [Impl.fromMich, Spec.readVal, pv_option, h]
        · simp [Impl.fromMich, Spec.readVal, pv_option]
    | _ => simp [Impl.fromMich, Spec.readVal, Impl.parseValue]
  | or l r ihl ihr =>
    intro hu m
    simp only [unpackable, Bool.and_eq_true] at hu
    cases m with
    | prim p args an =>
      cases an with
      | some a => simp [Impl.fromMich, Spec.readVal, parseValue_annot]
      | none =>
        rcases args with _ | ⟨x, _ | ⟨y, rest⟩⟩
        · simp [Impl.fromMich, Spec.readVal, pv_or]
        · by_cases h : p = 5
          · subst h; simp [Impl.fromMich, Spec.readVal, pv_or, ihl hu.1]
          · by_cases h8 : p = 8
            · subst h8; simp [Impl.fromMich, Spec.readVal, pv_or, ihr hu.2]
            · simp [Impl.fromMich, Spec.readVal, pv_or, h, h8]
        · simp [Impl.fromMich, Spec.readVal, pv_or]
    | _ => simp [Impl.fromMich, Spec.readVal, Impl.parseValue]
  | pair l r ihl ihr =>
    intro hu m
    simp only [unpackable, Bool.and_eq_true] at hu
    have hcls : Impl.isPairClass r = Spec.isPairTy r := by cases r <;> rfl
    have key : ∀ args : List BMich,
        (if args.length = 2 then
            match args with
            | [x, y] => Impl.tuple2 (Impl.fromMich rt l x) (Impl.fromMich rt r y)
            | _ => none
          else if args.length > 2 then
            if Impl.isPairClass r = true then
              match args with
              | x :: rest => Impl.tuple2 (Impl.fromMich rt l x) (Impl.fromMich rt r (.seq rest))
              | [] => none
            else none
          else none) = Spec.readVal rt (.pair l r) (.seq args) := by
      intro args
      rcases args with _ | ⟨x, _ | ⟨y, _ | ⟨z, rs⟩⟩⟩
      · simp [Spec.readVal]
      · simp [Spec.readVal]
      · simp [Spec.readVal, tuple2_eq, ihl hu.1, ihr hu.2]
      · by_cases hp : Spec.isPairTy r = true
        · simp [Spec.readVal, tuple2_eq, ihl hu.1, ihr hu.2, hcls, hp, readVal_pair_seq rt r hp]
        · simp [Spec.readVal, hcls, hp]
    cases m with
    | int _ => simp [Impl.fromMich, Spec.readVal, Impl.pairArgs]
    | str _ => simp [Impl.fromMich, Spec.readVal, Impl.pairArgs]
    | bytes _ => simp [Impl.fromMich, Spec.readVal, Impl.pairArgs]
    | seq xs => simp only [Impl.fromMich, Impl.pairArgs]; exact key xs
    | prim p args an =>
      cases an with
      | some a => simp [Impl.fromMich, Spec.readVal, Impl.pairArgs]
      | none =>
        by_cases h7 : p = 7
        · subst h7
          have : primOfTag 7 = some "Pair" := (ofTag_Pair 7).mpr rfl
          simp only [Impl.fromMich, Impl.pairArgs, this, Option.isSome_none, and_self, if_true]
          refine (key args).trans ?_
          rcases args with _ | ⟨x, _ | ⟨y, _ | ⟨z, rs⟩⟩⟩ <;> simp [Spec.readVal]
        · have : ¬ primOfTag p = some "Pair" := fun e => h7 ((ofTag_Pair p).mp e)
          simp only [Impl.fromMich, Impl.pairArgs, this, false_and, if_false]
          rcases args with _ | ⟨x, _ | ⟨y, _ | ⟨z, rs⟩⟩⟩ <;> simp [Spec.readVal, h7]
  | list t ih =>
    intro hu m
    simp only [unpackable] at hu
    cases m <;> simp [Impl.fromMich, Spec.readVal, mapAll_eq _ _ (ih hu)]
  | set t ih =>
    intro hu m
    simp only [unpackable] at hu
    cases m with
    | seq xs =>
      simp only [Impl.fromMich, Spec.readVal, mapAll_eq _ _ (ih (simple_unpackable hu))]
      cases hr : Spec.readAll (Spec.readVal rt t) xs with
      | none => rfl
      | some vs =>
        have hall := readAll_all _ (fun v => isKey t v = true) (fun m v h => readVal_isKey rt hu h) xs vs hr
        simp [constraintsOk_eq hall]
    | _ => simp [Impl.fromMich, Spec.readVal]
  | map k v ihk ihv =>
    intro hu m
    simp only [unpackable, Bool.and_eq_true] at hu
    cases m with
    | seq xs =>
      simp only [Impl.fromMich, Spec.readVal, parseElts_eq _ _ _ _ (ihk (simple_unpackable hu.1)) (ihv hu.2)]
      cases hr : Spec.readElts (Spec.readVal rt k) (Spec.readVal rt v) xs with
      | none => rfl
      | some items =>
        have hall := readElts_all _ _ (fun a => isKey k a = true) (fun _ => True)
          (fun m v h => readVal_isKey rt hu.1 h) (fun _ _ _ => trivial) xs items hr
        have hkeys : ∀ a ∈ items.map keyOf, isKey k a = true := by
          intro a ha
          obtain ⟨e, he, rfl⟩ := List.mem_map.mp ha
          obtain ⟨x, y, rfl, hx, _⟩ := hall e he
          exact hx
        simp [toKV_fst_eq, constraintsOk_eq hkeys]
    | _ => simp [Impl.fromMich, Spec.readVal]
  | _ => intro hu; simp [unpackable] at hu

/-- **UNPACK**: the mirror answers what the reference answers, on every byte string -/
theorem execUnpack_eq (env : Env) (t : Ty) (a : Val) (h : Spec.unpackV env t a ≠ .stuck) :
    Impl.execUnpack env t a = Spec.unpackV env t a := by
  cases a <;> first | (exact absurd rfl h) | skip
  rename_i b
  have hu : unpackable t = true := by
    cases hq : unpackable t with
    | true => rfl
    | false => exact absurd (by simp [Spec.unpackV, hq]) h
  have hf : Impl.fromMich env.readTimestamp t = Spec.readVal env.readTimestamp t := funext (fromMich_eq _ t hu)
  rcases b with _ | ⟨x, rest⟩
  · simp [Impl.execUnpack, Spec.unpackV, hu]
  · by_cases hx : x = 5
    · subst hx
      simp only [Impl.execUnpack, Spec.unpackV, hu, Bool.not_true, Bool.false_eq_true, if_false, strict_eq,
        Impl.Forge.unforge_eq_decode, known_eq, hf]
      cases (Spec.Micheline.decode Spec.knownPrim rest).bind (Spec.readVal env.readTimestamp t) <;> rfl
    · simp [Impl.execUnpack, Spec.unpackV, hu, hx]

/-! ### what is read at a type is a well-formed value of that type (for both modes of `checkVal`: no lambdas inside) -/
theorem checkVals_of_all (s : Bool) (t : Ty) : ∀ xs : List Val, (∀ x ∈ xs, checkVal s x t = true) → checkVals s xs t = true
  | [], _ => rfl
  | x :: xs, h => by
    simp only [checkVals, Bool.and_eq_true]
    exact ⟨h x (by simp), checkVals_of_all s t xs (fun y hy => h y (by simp [hy]))⟩

theorem litOks_of_all : ∀ xs : List Val, (∀ x ∈ xs, litOk x = true) → litOks xs = true
  | [], _ => rfl
  | x :: xs, h => by
    simp only [litOks, Bool.and_eq_true]
    exact ⟨h x (by simp), litOks_of_all xs (fun y hy => h y (by simp [hy]))⟩

theorem readVal_wf (rt : List Nat → Option Int) (s : Bool) : ∀ t : Ty, unpackable t = true →
    ∀ (m : BMich) (v : Val), Spec.readVal rt t m = some v → checkVal s v t = true ∧ litOk v = true := by
  intro t
  induction t with
  | option t ih =>
    intro hu m v h
    simp only [unpackable] at hu
    cases m with
    | prim p args an =>
      cases an with
      | some _ => simp [Spec.readVal] at h
      | none =>
        rcases args with _ | ⟨x, _ | ⟨y, rest⟩⟩
        · simp only [Spec.readVal] at h
          split at h
          · simp at h; subst h; simp [checkVal, litOk]
          · simp at h
        · simp only [Spec.readVal] at h
          split at h
          · simp only [Option.map_eq_some_iff] at h
            obtain ⟨w, hw, rfl⟩ := h
            have := ih hu _ _ hw
            simpa [checkVal, litOk] using this
          · simp at h
        · simp [Spec.readVal] at h
    | int _ => simp [Spec.readVal] at h
    | str _ => simp [Spec.readVal] at h
    | bytes _ => simp [Spec.readVal] at h
    | seq _ => simp [Spec.readVal] at h
  | or l r ihl ihr =>
    intro hu m v h
    simp only [unpackable, Bool.and_eq_true] at hu
    cases m with
    | prim p args an =>
      cases an with
      | some _ => simp [Spec.readVal] at h
      | none =>
        rcases args with _ | ⟨x, _ | ⟨y, rest⟩⟩
        · simp [Spec.readVal] at h
        · simp only [Spec.readVal] at h
          split at h
          · simp only [Option.map_eq_some_iff] at h
            obtain ⟨w, hw, rfl⟩ := h
            have := ihl hu.1 _ _ hw
            simpa [checkVal, litOk] using this
          · split at h
            · simp only [Option.map_eq_some_iff] at h
              obtain ⟨w, hw, rfl⟩ := h
              have := ihr hu.2 _ _ hw
              simpa [checkVal, litOk] using this
            · simp at h
        · simp [Spec.readVal] at h
    | int _ => simp [Spec.readVal] at h
    | str _ => simp [Spec.readVal] at h
    | bytes _ => simp [Spec.readVal] at h
    | seq _ => simp [Spec.readVal] at h
  | pair l r ihl ihr =>
    intro hu m v h
    simp only [unpackable, Bool.and_eq_true] at hu
    have key : ∀ a b, Spec.mkPair (Spec.readVal rt l a) (Spec.readVal rt r b) = some v →
        checkVal s v (.pair l r) = true ∧ litOk v = true := by
      intro a b hp
      obtain ⟨x, y, hx, hy, rfl⟩ := mkPair_some hp
      have h1 := ihl hu.1 _ _ hx
      have h2 := ihr hu.2 _ _ hy
      simp [checkVal, litOk, h1, h2]
    cases m with
    | int _ => simp [Spec.readVal] at h
    | str _ => simp [Spec.readVal] at h
    | bytes _ => simp [Spec.readVal] at h
    | seq xs =>
      rcases xs with _ | ⟨x, _ | ⟨y, _ | ⟨z, rs⟩⟩⟩
      · simp [Spec.readVal] at h
      · simp [Spec.readVal] at h
      · simp only [Spec.readVal] at h; exact key _ _ h
      · simp only [Spec.readVal] at h
        split at h
        · exact key _ _ h
        · simp at h
    | prim p args an =>
      cases an with
      | some _ => simp [Spec.readVal] at h
      | none =>
        rcases args with _ | ⟨x, _ | ⟨y, _ | ⟨z, rs⟩⟩⟩
        · simp [Spec.readVal] at h
        · simp [Spec.readVal] at h
        · simp only [Spec.readVal] at h
          split at h
          · exact key _ _ h
          · simp at h
        · simp only [Spec.readVal] at h
          split at h
          · exact key _ _ h
          · simp at h
  | list t ih =>
    intro hu m v h
    simp only [unpackable] at hu
    cases m <;> first | (simp [Spec.readVal] at h; done) | skip
    simp only [Spec.readVal, Option.map_eq_some_iff] at h
    obtain ⟨vs, hvs, rfl⟩ := h
    have hall := readAll_all _ (fun v => checkVal s v t = true ∧ litOk v = true) (fun m v h => ih hu m v h) _ _ hvs
    simp [checkVal, litOk, checkVals_of_all s t vs (fun x hx => (hall x hx).1), litOks_of_all vs (fun x hx => (hall x hx).2)]
  | set t ih =>
    intro hu m v h
    simp only [unpackable] at hu
    cases m <;> first | (simp [Spec.readVal] at h; done) | skip
    rename_i xs
    simp only [Spec.readVal] at h
    cases hvs : Spec.readAll (Spec.readVal rt t) xs with
    | none => simp [hvs] at h
    | some vs =>
      simp only [hvs, Option.bind_some] at h
      split at h
      · rename_i hs
        simp at h; subst h
        have hall := readAll_all _ (fun v => checkVal s v t = true ∧ litOk v = true)
          (fun m v h => ih (simple_unpackable hu) m v h) _ _ hvs
        have hk := readAll_all _ (fun v => isKey t v = true) (fun m v h => readVal_isKey rt hu h) _ _ hvs
        have hg : goodSet t vs = true := by
          simp only [goodSet, Bool.and_eq_true, List.all_eq_true]
          exact ⟨⟨hu, hk⟩, hs⟩
        simp [checkVal, litOk, hg, checkVals_of_all s t vs (fun x hx => (hall x hx).1),
          litOks_of_all vs (fun x hx => (hall x hx).2)]
      · simp at h
  | map k w ihk ihw =>
    intro hu m v h
    simp only [unpackable, Bool.and_eq_true] at hu
    cases m <;> first | (simp [Spec.readVal] at h; done) | skip
    rename_i xs
    simp only [Spec.readVal] at h
    cases hvs : Spec.readElts (Spec.readVal rt k) (Spec.readVal rt w) xs with
    | none => simp [hvs] at h
    | some items =>
      simp only [hvs, Option.bind_some] at h
      split at h
      · rename_i hs
        simp at h; subst h
        have hall := readElts_all _ _ (fun a => (checkVal s a k = true ∧ litOk a = true) ∧ isKey k a = true)
          (fun b => checkVal s b w = true ∧ litOk b = true)
          (fun m v h => ⟨ihk (simple_unpackable hu.1) m v h, readVal_isKey rt hu.1 h⟩) (fun m v h => ihw hu.2 m v h) _ _ hvs
        have hc : ∀ e ∈ items, checkVal s e (.pair k w) = true := by
          intro e he
          obtain ⟨a, b, rfl, ha, hb⟩ := hall e he
          simp [checkVal, ha.1.1, hb.1]
        have hl : ∀ e ∈ items, litOk e = true := by
          intro e he
          obtain ⟨a, b, rfl, ha, hb⟩ := hall e he
          simp [litOk, ha.1.2, hb.2]
        have hg : goodMap k items = true := by
          simp only [goodMap, Bool.and_eq_true, List.all_eq_true]
          refine ⟨⟨hu.1, ?_⟩, hs⟩
          intro e he
          obtain ⟨a, b, rfl, ha, _⟩ := hall e he
          simpa [isBinding] using ha.2
        simp [checkVal, litOk, hg, checkVals_of_all s _ items hc, litOks_of_all items hl]
      · simp at h
  | unit | bool | int | nat | mutez | timestamp | string | bytes =>
    intro _ m v h
    cases m <;> simp [Spec.readVal] at h
    all_goals (repeat' (split at h))
    all_goals (try simp at h)
    all_goals (first | (obtain ⟨_, rfl⟩ := h; simp [checkVal, litOk, *]) | (obtain ⟨_, _, rfl⟩ := h; simp [checkVal, litOk, *]) | (subst h; simp [checkVal, litOk]))
  | _ => intro hu; simp [unpackable] at hu

end Interp
