import PytezosModel.Michelson.Interp.Impl
import PytezosModel.Michelson.Interp.Spec
import PytezosModel.Proofs.InterpTables
/-! Python's integer operations used by `arithmetic.py` / `boolean.py` against the arithmetic of the reference:
floor `divmod` + adjustment = Euclidean division; `<<` / `>>` = multiplication / division by a power of two;
two's complement `&`, `|`, `^` on the operand classes of the dispatch tables. -/
namespace Interp


/-- `divmod` floors; adding `abs(b)` to a negative remainder (and one to the quotient) gives Euclidean division -/
theorem pyEdiv_eq (a b : Int) (hb : b ≠ 0) : Impl.pyEdiv a b = (a / b, a % b) := by
  unfold Impl.pyEdiv
  simp only [Int.fdiv_eq_ediv, Int.fmod_eq_emod]
  have h1 := Int.emod_nonneg a hb
  have h2 := Int.emod_lt a hb
  by_cases hc : 0 ≤ b ∨ b ∣ a
  · simp only [hc, if_true, Int.sub_zero, Int.add_zero]
    have : ¬ a % b < 0 := by omega
    simp [this]
  · simp only [hc, if_false]
    have hneg : b < 0 := by
      by_cases h : 0 ≤ b
      · exact absurd (Or.inl h) hc
      · omega
    have : a % b + b < 0 := by omega
    simp only [this, if_true, Int.ofNat_eq_natCast]
    refine Prod.ext (by simp) ?_
    simp only
    omega

theorem pyAnd_nat (x y : Int) (hx : 0 ≤ x) (hy : 0 ≤ y) : Impl.pyAnd x y = Int.ofNat (x.toNat &&& y.toNat) := by
  cases x with
  | ofNat m =>
    cases y with
    | ofNat n => rfl
    | negSucc n => exact absurd hy (by simp [Int.negSucc_not_nonneg])
  | negSucc m => exact absurd hx (by simp [Int.negSucc_not_nonneg])

theorem pyOr_nat (x y : Int) (hx : 0 ≤ x) (hy : 0 ≤ y) : Impl.pyOr x y = Int.ofNat (x.toNat ||| y.toNat) := by
  cases x with
  | ofNat m =>
    cases y with
    | ofNat n => rfl
    | negSucc n => exact absurd hy (by simp [Int.negSucc_not_nonneg])
  | negSucc m => exact absurd hx (by simp [Int.negSucc_not_nonneg])

theorem pyXor_nat (x y : Int) (hx : 0 ≤ x) (hy : 0 ≤ y) : Impl.pyXor x y = Int.ofNat (x.toNat ^^^ y.toNat) := by
  cases x with
  | ofNat m =>
    cases y with
    | ofNat n => rfl
    | negSucc n => exact absurd hy (by simp [Int.negSucc_not_nonneg])
  | negSucc m => exact absurd hx (by simp [Int.negSucc_not_nonneg])

theorem pyAnd_int_nat (x y : Int) (hy : 0 ≤ y) : Impl.pyAnd x y = Int.ofNat (Spec.andIntNat x y.toNat) := by
  cases y with
  | ofNat n => cases x <;> rfl
  | negSucc n => exact absurd hy (by simp [Int.negSucc_not_nonneg])

theorem pyAnd_nat_int (x y : Int) (hx : 0 ≤ x) : Impl.pyAnd x y = Int.ofNat (Spec.andIntNat y x.toNat) := by
  cases x with
  | ofNat m =>
    cases y with
    | ofNat n => simp [Impl.pyAnd, Spec.andIntNat, Nat.and_comm]
    | negSucc n => simp [Impl.pyAnd, Spec.andIntNat, Nat.and_comm]
  | negSucc m => exact absurd hx (by simp [Int.negSucc_not_nonneg])

theorem natFromValue_ofNat (n : Nat) : Impl.numFromValue .nat (n : Int) = .ok (.num .nat (n : Int)) := by
  rw [numFromValue_eq]; simp [Spec.numOk]

/-- `execute_shift` against the reference rule (shift in `[0, 256]`) -/
theorem execShift_lsl (x n : Int) (h : 0 ≤ n ∧ n ≤ 256) :
    Impl.execShift (fun x n => x <<< n) (.num .nat x) (.num .nat n) = Spec.numOk .nat (x * 2 ^ n.toNat) := by
  have h1 : n < 257 := by omega
  have h2 : ¬ n < 0 := by omega
  simp only [Impl.execShift, shiftLimit_eq, cast_257, h1, h2, if_true, if_false, Int.shiftLeft_eq, numFromValue_eq]

theorem execShift_lsr (x n : Int) (h : 0 ≤ n ∧ n ≤ 256) :
    Impl.execShift (fun x n => x >>> n) (.num .nat x) (.num .nat n) = Spec.numOk .nat (x / 2 ^ n.toNat) := by
  have h1 : n < 257 := by omega
  have h2 : ¬ n < 0 := by omega
  simp only [Impl.execShift, shiftLimit_eq, cast_257, h1, h2, if_true, if_false, Int.shiftRight_eq_div_pow, numFromValue_eq]
  have : ((2 ^ n.toNat : Nat) : Int) = 2 ^ n.toNat := by simp
  rw [this]

end Interp
