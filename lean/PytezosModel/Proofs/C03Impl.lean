import PytezosModel.Proofs.C03Order
/-! C03: `Impl.Order.eq` / `lt` (the mirror of the pytezos comparison methods) compute `Spec.Order.cmp` on typed operands. -/
namespace Impl.Order
open _root_.Order Spec.Order Generated.C03

theorem shapesOk_true : shapesOk = true := by decide

theorem isLT_then (o p : Ordering) : (o.then p).isLT = (o.isLT || (o == .eq && p.isLT)) := by
  cases o <;> cases p <;> rfl

theorem then_beq_eq (o p : Ordering) : ((o.then p) == .eq) = ((o == .eq) && (p == .eq)) := by
  cases o <;> cases p <;> rfl

theorem cmpNat_isLT (a b : Nat) : (cmpNat a b).isLT = decide (a < b) := by
  grind [cmpNat, Ordering.isLT]

theorem cmpNat_beq_eq (a b : Nat) : ((cmpNat a b) == .eq) = (a == b) := by
  grind [cmpNat]

theorem cmpInt_isLT (a b : Int) : (cmpInt a b).isLT = decide (a < b) := by
  grind [cmpInt, Ordering.isLT]

theorem cmpInt_beq_eq (a b : Int) : ((cmpInt a b) == .eq) = (a == b) := by
  grind [cmpInt]

/-- key_hash: the mirror on (kind, payload) -/
theorem kh_eq (k₁ k₂ : Nat) (p₁ p₂ : List Nat) (h₁ : k₁ < 4) (h₂ : k₂ < 4) :
    eq (.keyHash k₁ p₁) (.keyHash k₂ p₂) = (k₁ == k₂ && p₁ == p₂) := by
  have e₁ : k₁ = 0 ∨ k₁ = 1 ∨ k₁ = 2 ∨ k₁ = 3 := by omega
  have e₂ : k₂ = 0 ∨ k₂ = 1 ∨ k₂ = 2 ∨ k₂ = 3 := by omega
  rcases e₁ with rfl | rfl | rfl | rfl <;> rcases e₂ with rfl | rfl | rfl | rfl <;> simp [eq, khPrefix, textEq]

theorem kh_lt (k₁ k₂ : Nat) (p₁ p₂ : List Nat) (h₁ : k₁ < 4) (h₂ : k₂ < 4) :
    lt (.keyHash k₁ p₁) (.keyHash k₂ p₂) = some (decide (k₁ < k₂) || (k₁ == k₂ && lexLt p₁ p₂)) := by
  have e₁ : k₁ = 0 ∨ k₁ = 1 ∨ k₁ = 2 ∨ k₁ = 3 := by omega
  have e₂ : k₂ = 0 ∨ k₂ = 1 ∨ k₂ = 2 ∨ k₂ = 3 := by omega
  rcases e₁ with rfl | rfl | rfl | rfl <;> rcases e₂ with rfl | rfl | rfl | rfl <;>
    simp [lt, khPrefix, textLt, lexLt]

theorem key_eq (k₁ k₂ : Nat) (p₁ p₂ : List Nat) (h₁ : k₁ < 4) (h₂ : k₂ < 4) :
    eq (.key k₁ p₁) (.key k₂ p₂) = (k₁ == k₂ && p₁ == p₂) := by
  have e₁ : k₁ = 0 ∨ k₁ = 1 ∨ k₁ = 2 ∨ k₁ = 3 := by omega
  have e₂ : k₂ = 0 ∨ k₂ = 1 ∨ k₂ = 2 ∨ k₂ = 3 := by omega
  rcases e₁ with rfl | rfl | rfl | rfl <;> rcases e₂ with rfl | rfl | rfl | rfl <;> simp [eq, keyPrefix, textEq]

theorem keyRow_eq (c : Nat) (h : c < 4) : keyRow c = some (c, 0) := by
  have e : c = 0 ∨ c = 1 ∨ c = 2 ∨ c = 3 := by omega
  rcases e with rfl | rfl | rfl | rfl <;> decide

theorem key_lt (k₁ k₂ : Nat) (p₁ p₂ : List Nat) (h₁ : k₁ < 4) (h₂ : k₂ < 4) :
    lt (.key k₁ p₁) (.key k₂ p₂) = some (decide (k₁ < k₂) || (k₁ == k₂ && lexLt p₁ p₂)) := by
  simp only [lt, keyRow_eq _ h₁, keyRow_eq _ h₂, Option.bind_eq_bind, Option.bind_some, List.drop_zero]
  by_cases h : k₁ < k₂
  · have : (k₁ : Int) - (k₂ : Int) < 0 := by omega
    simp [this, h]
  · by_cases h' : k₂ < k₁
    · have a : ¬ ((k₁ : Int) - (k₂ : Int) < 0) := by omega
      have b : (k₁ : Int) - (k₂ : Int) > 0 := by omega
      have c : ¬ k₁ = k₂ := by omega
      simp [a, h, h', c]
    · have : k₁ = k₂ := by omega
      subst this
      simp

theorem lexLt_irrefl (a : List Nat) : lexLt a a = false := by
  rw [lexLt_eq, lexCmp_refl]; rfl

/-- text prefix of an address kind as a total function (`addrPrefix` is `some` of it for kinds < 6) -/
def pfx (k : Nat) : List Nat := (addrPrefix k).getD []

theorem addrPrefix_eq (k : Nat) (h : k < 6) : addrPrefix k = some (pfx k) := by
  have e : k = 0 ∨ k = 1 ∨ k = 2 ∨ k = 3 ∨ k = 4 ∨ k = 5 := by omega
  rcases e with rfl | rfl | rfl | rfl | rfl | rfl <;> rfl

theorem addrRank_eq (k : Nat) (h : k < 6) : addrRank k = some (addrClass k) := by
  have e : k = 0 ∨ k = 1 ∨ k = 2 ∨ k = 3 ∨ k = 4 ∨ k = 5 := by omega
  rcases e with rfl | rfl | rfl | rfl | rfl | rfl <;> decide

theorem pfx_facts : ∀ k₁ < 6, ∀ k₂ < 6, ((pfx k₁ == pfx k₂) = (k₁ == k₂)) ∧
    (addrClass k₁ = addrClass k₂ → k₁ ≠ k₂ → lexLt (pfx k₁) (pfx k₂) = decide (k₁ < k₂)) := by
  decide

theorem class_mono : ∀ k₁ < 6, ∀ k₂ < 6, (addrClass k₁ < addrClass k₂ → k₁ < k₂) := by decide

theorem addrDefault_eq : addrDefaultEntrypoint = some defaultEp := by decide

theorem orDefault_eq (e : List Nat) : orDefault defaultEp e = epOf e := rfl

theorem addr_eq (k₁ k₂ : Nat) (p₁ p₂ e₁ e₂ : List Nat) (h₁ : k₁ < 6) (h₂ : k₂ < 6) :
    eq (.address k₁ p₁ e₁) (.address k₂ p₂ e₂) = (k₁ == k₂ && p₁ == p₂ && e₁ == e₂) := by
  simp only [eq, addrPrefix_eq _ h₁, addrPrefix_eq _ h₂, textEq, (pfx_facts k₁ h₁ k₂ h₂).1]

theorem addr_lt (k₁ k₂ : Nat) (p₁ p₂ e₁ e₂ : List Nat) (h₁ : k₁ < 6) (h₂ : k₂ < 6) :
    lt (.address k₁ p₁ e₁) (.address k₂ p₂ e₂) =
      some (decide (k₁ < k₂) || (k₁ == k₂ && (lexLt p₁ p₂ || (p₁ == p₂ && lexLt (epOf e₁) (epOf e₂))))) := by
  simp only [lt, addrDefault_eq, addrPrefix_eq _ h₁, addrPrefix_eq _ h₂, addrRank_eq _ h₁, addrRank_eq _ h₂,
    Option.bind_eq_bind, Option.bind_some, orDefault_eq]
  have hf := pfx_facts k₁ h₁ k₂ h₂
  by_cases hc : addrClass k₁ < addrClass k₂
  · have : ((addrClass k₁ : Nat) : Int) - ((addrClass k₂ : Nat) : Int) < 0 := by omega
    have hk := class_mono k₁ h₁ k₂ h₂ hc
    simp [this, hk]
  · by_cases hc' : addrClass k₂ < addrClass k₁
    · have a : ¬ (((addrClass k₁ : Nat) : Int) - ((addrClass k₂ : Nat) : Int) < 0) := by omega
      have hk := class_mono k₂ h₂ k₁ h₁ hc'
      have n1 : ¬ k₁ < k₂ := by omega
      have n2 : ¬ k₁ = k₂ := by omega
      simp [a, hc', n1, n2]
    · have hceq : addrClass k₁ = addrClass k₂ := by omega
      have a : ¬ (((addrClass k₁ : Nat) : Int) - ((addrClass k₂ : Nat) : Int) < 0) := by omega
      have b : ¬ (((addrClass k₁ : Nat) : Int) - ((addrClass k₂ : Nat) : Int) > 0) := by omega
      simp only [a, b, if_false]
      congr 1
      unfold splitLt textEq textLt
      rw [hf.1]
      by_cases hk : k₁ = k₂
      · subst hk
        by_cases hp : p₁ = p₂
        · subst hp
          by_cases he : epOf e₁ = epOf e₂
          · simp [he, lexLt_irrefl]
          · simp [he, lexLt_irrefl]
        · simp [hp]
      · have := hf.2 hceq hk
        simp [hk, this]

/-! ### the mirror computes the specification on typed operands -/
theorem eq_spec {a b : CVal} {τ : CTy} (ha : HasTy a τ) (hb : HasTy b τ) : eq a b = (cmp a b == .eq) := by
  induction ha generalizing b with
  | unit => cases hb; rfl
  | bool x => cases hb with | bool y => cases x <;> cases y <;> rfl
  | num t v _ => cases hb with | num _ w _ => simp only [eq, cmp, cmpInt_beq_eq]
  | str s => cases hb; simp only [eq, cmp, beq_eq_lexCmp]
  | bytes s => cases hb; simp only [eq, cmp, beq_eq_lexCmp]
  | keyHash k p hk _ => cases hb with | keyHash k' p' hk' _ =>
    rw [kh_eq _ _ _ _ hk hk']; simp only [cmp, then_beq_eq, cmpNat_beq_eq, beq_eq_lexCmp]
  | address k p e hk _ he => cases hb with | address k' p' e' hk' _ he' =>
    rw [addr_eq _ _ _ _ _ _ hk hk']
    simp only [cmp, class_then, then_beq_eq, cmpNat_beq_eq, ← beq_eq_lexCmp]
    by_cases h : e = e'
    · subst h; simp
    · have : epOf e ≠ epOf e' := fun h' => h (epOf_inj he he' h')
      rw [beq_eq_false_iff_ne.2 h, beq_eq_false_iff_ne.2 this]; simp
  | key k p hk _ => cases hb with | key k' p' hk' _ =>
    rw [key_eq _ _ _ _ hk hk']; simp only [cmp, then_beq_eq, cmpNat_beq_eq, beq_eq_lexCmp]
  | signature p => cases hb; simp only [eq, cmp, beq_eq_lexCmp]
  | chainId p _ => cases hb; simp only [eq, cmp, beq_eq_lexCmp]
  | none t => cases hb <;> rfl
  | some _ ih => cases hb with
    | none => rfl
    | some hb => simp only [eq, cmp, ih hb]
  | left r _ ih => cases hb with
    | left _ hb => simp only [eq, cmp, ih hb]
    | right _ hb => rfl
  | right l _ ih => cases hb with
    | left _ hb => rfl
    | right _ hb => simp only [eq, cmp, ih hb]
  | pair _ _ ih₁ ih₂ => cases hb with | pair hb₁ hb₂ =>
    simp only [eq, cmp, ih₁ hb₁, ih₂ hb₂, then_beq_eq]

theorem lt_spec {a b : CVal} {τ : CTy} (ha : HasTy a τ) (hb : HasTy b τ) : lt a b = some (cmp a b).isLT := by
  induction ha generalizing b with
  | unit => cases hb; rfl
  | bool x => cases hb with | bool y => cases x <;> cases y <;> rfl
  | num t v _ => cases hb with | num _ w _ => simp only [lt, cmp, cmpInt_isLT]
  | str s => cases hb; simp only [lt, cmp, lexLt_eq]
  | bytes s => cases hb; simp only [lt, cmp, lexLt_eq]
  | keyHash k p hk _ => cases hb with | keyHash k' p' hk' _ =>
    rw [kh_lt _ _ _ _ hk hk']; simp only [cmp, isLT_then, cmpNat_isLT, cmpNat_beq_eq, lexLt_eq]
  | address k p e hk _ he => cases hb with | address k' p' e' hk' _ he' =>
    rw [addr_lt _ _ _ _ _ _ hk hk']
    simp only [cmp, class_then, isLT_then, cmpNat_isLT, cmpNat_beq_eq, lexLt_eq, beq_eq_lexCmp]
  | key k p hk _ => cases hb with | key k' p' hk' _ =>
    rw [key_lt _ _ _ _ hk hk']; simp only [cmp, isLT_then, cmpNat_isLT, cmpNat_beq_eq, lexLt_eq]
  | signature p => cases hb; simp only [lt, cmp, lexLt_eq]
  | chainId p _ => cases hb; simp only [lt, cmp, lexLt_eq]
  | none t => cases hb <;> rfl
  | some ha ih => cases hb with
    | none => rfl
    | some hb => simp only [lt, cmp, ih hb]
  | left r _ ih => cases hb with
    | left _ hb => simp only [lt, cmp, ih hb]
    | right _ hb => rfl
  | right l _ ih => cases hb with
    | left _ hb => rfl
    | right _ hb => simp only [lt, cmp, ih hb]
  | pair ha₁ ha₂ ih₁ ih₂ => cases hb with | pair hb₁ hb₂ =>
    simp only [lt, cmp, ih₁ hb₁, ih₂ hb₂, eq_spec ha₁ hb₁, eq_spec ha₂ hb₂]
    cases cmp _ _ <;> cases cmp _ _ <;> rfl

end Impl.Order
