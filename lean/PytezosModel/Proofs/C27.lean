import PytezosModel.Client.Errors
/-! helper lemmas for Props/C27: `split` / `join` are inverse bijections between strings and non-empty lists of
separator-free components; characterisation of the first registered key. -/
namespace Proofs.C27
open Impl.Errors

theorem split_ne_nil (sep : Nat) : ∀ s : Str, split sep s ≠ []
  | [] => by simp [split]
  | c :: cs => by
    unfold split
    split
    · simp
    · split <;> simp

theorem split_sepfree (sep : Nat) : ∀ (s : Str), ∀ x ∈ split sep s, sep ∉ x
  | [] => by simp [split]
  | c :: cs => by
    have ih := split_sepfree sep cs
    unfold split
    by_cases hc : c = sep
    · simp only [hc, if_true, List.mem_cons]
      intro x hx
      rcases hx with rfl | hx
      · simp
      · exact ih x hx
    · simp only [hc, if_false]
      cases hsp : split sep cs with
      | nil => exact absurd hsp (split_ne_nil sep cs)
      | cons h t =>
        rw [hsp] at ih
        intro x hx
        simp only [List.mem_cons] at hx
        rcases hx with rfl | hx
        · have := ih h (by simp)
          simp only [List.mem_cons, not_or]
          exact ⟨fun e => hc e.symm, this⟩
        · exact ih x (by simp [hx])

theorem join_split (sep : Nat) : ∀ s : Str, join sep (split sep s) = s
  | [] => by simp [split, join]
  | c :: cs => by
    have ih := join_split sep cs
    unfold split
    by_cases hc : c = sep
    · simp only [hc, if_true]
      cases hsp : split sep cs with
      | nil => exact absurd hsp (split_ne_nil sep cs)
      | cons h t =>
        rw [hsp] at ih
        simp [join, ih]
    · simp only [hc, if_false]
      cases hsp : split sep cs with
      | nil => exact absurd hsp (split_ne_nil sep cs)
      | cons h t =>
        rw [hsp] at ih
        cases t with
        | nil => simp only [join] at ih ⊢; rw [ih]
        | cons y rest => simp only [join] at ih ⊢; rw [← ih]; simp

theorem split_sepfree_self (sep : Nat) : ∀ (x : Str), sep ∉ x → split sep x = [x]
  | [], _ => by simp [split]
  | c :: x, h => by
    simp only [List.mem_cons, not_or] at h
    have hc : ¬ c = sep := fun e => h.1 e.symm
    unfold split
    simp [hc, split_sepfree_self sep x h.2]

theorem split_append_sep (sep : Nat) (s : Str) : ∀ (x : Str), sep ∉ x → split sep (x ++ sep :: s) = x :: split sep s
  | [], _ => by simp [split]
  | c :: x, h => by
    simp only [List.mem_cons, not_or] at h
    have hc : ¬ c = sep := fun e => h.1 e.symm
    have ih := split_append_sep sep s x h.2
    simp only [List.cons_append, split, hc, if_false, ih]

theorem split_join (sep : Nat) : ∀ (cs : List Str), cs ≠ [] → (∀ c ∈ cs, sep ∉ c) → split sep (join sep cs) = cs
  | [], h, _ => absurd rfl h
  | [x], _, hd => by simpa [join] using split_sepfree_self sep x (hd x (by simp))
  | x :: y :: rest, _, hd => by
    have ih := split_join sep (y :: rest) (by simp) (fun c hc => hd c (by simp [hc]))
    simp only [join]
    rw [split_append_sep sep _ x (hd x (by simp)), ih]

/-- the conditional slice of the repaired `_gen_error_variants` is the specification's `stripProto` -/
theorem strip_eq (cs : List Str) :
    (if cs.head? = some Spec.Errors.proto ∧ 2 < cs.length then cs.drop 2 else cs) = Spec.Errors.stripProto cs := by
  match cs with
  | [] => simp [Spec.Errors.stripProto]
  | [a] => simp [Spec.Errors.stripProto]
  | [a, b] => simp [Spec.Errors.stripProto]
  | a :: b :: c :: rest =>
    by_cases h : a = Spec.Errors.proto
    · simp [Spec.Errors.stripProto, h]
    · simp [Spec.Errors.stripProto, h]

theorem variantsRepaired_spec (cs : List Str) (hne : cs ≠ []) (hd : ∀ c ∈ cs, Spec.Errors.dot ∉ c) :
    variantsRepaired Spec.Errors.dot Spec.Errors.proto (join Spec.Errors.dot cs) = Spec.Errors.variants cs := by
  unfold variantsRepaired
  simp only [split_join Spec.Errors.dot cs hne hd, strip_eq]
  rfl

theorem firstRegistered_some {κ : Type} (reg : List (Str × κ)) (c : κ) : ∀ (ks : List Str),
    firstRegistered reg ks = some c ↔
      ∃ (n : Nat) (k : Str), ks[n]? = some k ∧ lookup reg k = some c ∧
        ∀ m : Nat, m < n → ∀ k', ks[m]? = some k' → lookup reg k' = none
  | [] => by simp [firstRegistered]
  | k :: ks => by
    have ih := firstRegistered_some reg c ks
    unfold firstRegistered
    cases hl : lookup reg k with
    | some c' =>
      constructor
      · intro h
        refine ⟨0, k, by simp, ?_, by omega⟩
        simpa [hl] using h
      · rintro ⟨n, k', hk, hc, hmin⟩
        cases n with
        | zero =>
          simp only [List.getElem?_cons_zero, Option.some.injEq] at hk
          subst hk
          simpa [hl] using hc
        | succ n =>
          have := hmin 0 (by omega) k (by simp)
          rw [hl] at this
          cases this
    | none =>
      simp only
      rw [ih]
      constructor
      · rintro ⟨n, k', hk, hc, hmin⟩
        refine ⟨n + 1, k', by simpa using hk, hc, ?_⟩
        intro m hm k'' hk''
        cases m with
        | zero =>
          simp only [List.getElem?_cons_zero, Option.some.injEq] at hk''
          subst hk''
          exact hl
        | succ m => exact hmin m (by omega) k'' (by simpa using hk'')
      · rintro ⟨n, k', hk, hc, hmin⟩
        cases n with
        | zero =>
          simp only [List.getElem?_cons_zero, Option.some.injEq] at hk
          subst hk
          rw [hl] at hc
          cases hc
        | succ n =>
          refine ⟨n, k', by simpa using hk, hc, ?_⟩
          intro m hm k'' hk''
          exact hmin (m + 1) (by omega) k'' (by simpa using hk'')

theorem firstRegistered_none {κ : Type} (reg : List (Str × κ)) : ∀ (ks : List Str),
    firstRegistered reg ks = none ↔ ∀ k ∈ ks, lookup reg k = none
  | [] => by simp [firstRegistered]
  | k :: ks => by
    have ih := firstRegistered_none reg ks
    unfold firstRegistered
    cases hl : lookup reg k with
    | some c' => simp [hl]
    | none => simp [hl, ih]

/-- `classify` is `fromErrors` with the repaired variants and the registry of the tree -/
theorem classify_eq (reg : List (Str × Generated.C27.Cls)) (hreg : Generated.C27.registry = some reg)
    (ids : List Str) :
    classify ids = some (fromErrors (.repaired Spec.Errors.dot Spec.Errors.proto) reg ids) := by
  have hv : variantsFn = some (.repaired Spec.Errors.dot Spec.Errors.proto) := rfl
  have hf : Generated.C27.fromErrorsRecognised = true := rfl
  simp [classify, hv, hreg, hf]

end Proofs.C27
