import PytezosModel.Micheline.Binary
import PytezosModel.Proofs.Zarith
import PytezosModel.Proofs.Bytes
/-! Round trip `unforge (forge e) = e` for the binary Micheline mirror. -/
namespace BMich
theorem size_pos (e : BMich) : 0 < e.size := by cases e <;> simp [size] <;> omega
end BMich

namespace Impl.Forge
open Core BMich

theorem forge_ne_nil (e : BMich) (bs : Bytes) (h : forge e = some bs) : 0 < bs.length := by
  cases e <;> simp only [forge, bind, Option.bind_eq_some_iff, Option.map_eq_some_iff, pure, Option.some.injEq] at h
  · subst h; simp
  · obtain ⟨a, _, rfl⟩ := h; simp
  · obtain ⟨a, _, rfl⟩ := h; simp
  · obtain ⟨a, _, b, _, c, _, rfl⟩ := h; simp
  · obtain ⟨a, _, b, _, rfl⟩ := h; simp

theorem getTag_0 (b : Bool) : getTag 0 b = if b then 4 else 3 := by cases b <;> simp [getTag]
theorem getTag_1 (b : Bool) : getTag 1 b = if b then 6 else 5 := by cases b <;> simp [getTag]
theorem getTag_2 (b : Bool) : getTag 2 b = if b then 8 else 7 := by cases b <;> simp [getTag]
theorem getTag_ge3 (n : Nat) (h : 3 ≤ n) (b : Bool) : getTag n b = 9 := by
  cases b <;> simp [getTag] <;> omega

/-- reading back the annotation part written by `forge` -/
theorem annot_back (an : Option Bytes) (n : Nat) (annB rest : Bytes)
    (h : (match an with
      | some a => forgeArray 4 a
      | none => if n ≥ 3 then some [0, 0, 0, 0] else some []) = some annB) (hne : (an != some []) = true) :
    (an.isSome ∨ 3 ≤ n → unforgeArray 4 (annB ++ rest) = some (an.getD [], rest) ∧ optAnnot (an.getD []) = an) ∧
    (¬ (an.isSome ∨ 3 ≤ n) → annB = [] ∧ an = none) := by
  cases an with
  | none =>
    simp only [Option.isSome_none, Bool.false_eq_true, false_or, Option.getD_none]
    constructor
    · intro h3
      simp only [ge_iff_le, h3, if_true, Option.some.injEq] at h
      subst h
      exact ⟨unforgeArray_zero4 rest, by simp [optAnnot]⟩
    · intro h3
      simp only [ge_iff_le, h3, if_false, Option.some.injEq] at h
      exact ⟨h.symm, trivial⟩
  | some a =>
    simp only [Option.isSome_some, true_or, forall_const, Option.getD_some, not_true_eq_false, false_implies, and_true]
    refine ⟨unforgeArray_forgeArray 4 a annB rest h, ?_⟩
    have : a ≠ [] := by intro h'; subst h'; simp at hne
    have : 0 < a.length := List.length_pos_iff.mpr this
    simp [optAnnot, this]

end Impl.Forge

namespace Impl.Forge
open Core BMich

mutual
  theorem rt_node (known : Nat → Bool) (strict : Bool) :
      ∀ (e : BMich), WF known e = true → ∀ bs, forge e = some bs → ∀ fuel, 2 * e.size ≤ fuel →
        ∀ rest, unforgeNode known strict fuel (bs ++ rest) = some (e, rest)
    | .int v, _, bs, h, fuel, hf, rest => by
      simp only [forge, Option.some.injEq] at h
      subst h
      obtain ⟨f, rfl⟩ : ∃ f, fuel = f + 1 := ⟨fuel - 1, by simp [BMich.size] at hf; omega⟩
      simp [unforgeNode, unforgeInt_forgeInt]
    | .str s, _, bs, h, fuel, hf, rest => by
      simp only [forge, Option.map_eq_some_iff] at h
      obtain ⟨a, ha, rfl⟩ := h
      obtain ⟨f, rfl⟩ : ∃ f, fuel = f + 1 := ⟨fuel - 1, by simp [BMich.size] at hf; omega⟩
      simp [unforgeNode, unforgeArray_forgeArray 4 s a rest ha]
    | .bytes s, _, bs, h, fuel, hf, rest => by
      simp only [forge, Option.map_eq_some_iff] at h
      obtain ⟨a, ha, rfl⟩ := h
      obtain ⟨f, rfl⟩ : ∃ f, fuel = f + 1 := ⟨fuel - 1, by simp [BMich.size] at hf; omega⟩
      simp [unforgeNode, unforgeArray_forgeArray 4 s a rest ha]
    | .seq xs, hw, bs, h, fuel, hf, rest => by
      simp only [forge, bind, Option.bind_eq_some_iff, pure, Option.some.injEq] at h
      obtain ⟨body, h1, arr, h2, rfl⟩ := h
      simp only [BMich.size] at hf
      obtain ⟨f, rfl⟩ : ∃ f, fuel = f + 1 := ⟨fuel - 1, by omega⟩
      simp only [WF] at hw
      have hl := rt_list known strict xs hw body h1 f (by omega) rest
      simp [unforgeNode, unforgeSeq, unforgeArray_forgeArray 4 body arr rest h2, forgeArray_drop 4 body arr rest h2, hl]
    | .prim t as an, hw, bs, h, fuel, hf, rest => by
      simp only [forge, bind, Option.bind_eq_some_iff, pure, Option.some.injEq] at h
      obtain ⟨a, h1, argB, h2, annB, h3, rfl⟩ := h
      simp only [BMich.size] at hf
      obtain ⟨f, rfl⟩ : ∃ f, fuel = f + 1 := ⟨fuel - 1, by omega⟩
      simp only [WF, Bool.and_eq_true] at hw
      obtain ⟨⟨hk, hne⟩, hwl⟩ := hw
      obtain ⟨hA, hB⟩ := annot_back an as.length annB rest h3 hne
      match as, h1, h2, hwl, hf, hA, hB with
      | [], h1, h2, hwl, hf, hA, hB =>
        simp only [List.length_nil, if_true, Option.some.injEq] at h2
        subst h2
        simp only [List.length_nil, getTag_0, List.nil_append, List.cons_append]
        cases han : an.isSome with
        | true =>
          obtain ⟨e1, e2⟩ := hA (Or.inl han)
          simp [unforgeNode, hk, e1, e2]
        | false =>
          obtain ⟨e1, e2⟩ := hB (by simp [han])
          subst e1 e2
          simp [unforgeNode, hk]
      | [x], h1, h2, hwl, hf, hA, hB =>
        simp only [forgeList, bind, Option.bind_eq_some_iff, pure, Option.some.injEq] at h1
        obtain ⟨ax, hx, b0, hb0, rfl⟩ := h1
        cases hb0
        simp at h2
        subst h2
        simp only [WFList, Bool.and_eq_true] at hwl
        simp only [BMich.sizeList] at hf
        have hx' := rt_node known strict x hwl.1 ax hx f (by omega)
        simp only [List.length_singleton, getTag_1, List.append_nil, List.cons_append, List.append_assoc]
        cases han : an.isSome with
        | true =>
          obtain ⟨e1, e2⟩ := hA (Or.inl han)
          simp [unforgeNode, hk, hx', e1, e2]
        | false =>
          obtain ⟨e1, e2⟩ := hB (by simp [han])
          subst e1 e2
          simp [unforgeNode, hk, hx']
      | [x, y], h1, h2, hwl, hf, hA, hB =>
        simp only [forgeList, bind, Option.bind_eq_some_iff, pure, Option.some.injEq] at h1
        obtain ⟨ax, hx, _, ⟨ay, hy, b0, hb0, rfl⟩, rfl⟩ := h1
        cases hb0
        simp at h2
        subst h2
        simp only [WFList, Bool.and_eq_true] at hwl
        simp only [BMich.sizeList] at hf
        have hx' := rt_node known strict x hwl.1 ax hx f (by omega)
        have hy' := rt_node known strict y hwl.2.1 ay hy f (by omega)
        simp only [List.length_cons, List.length_nil, Nat.zero_add, Nat.reduceAdd, getTag_2, List.append_nil,
          List.cons_append, List.append_assoc]
        cases han : an.isSome with
        | true =>
          obtain ⟨e1, e2⟩ := hA (Or.inl han)
          simp [unforgeNode, hk, hx', hy', e1, e2]
        | false =>
          obtain ⟨e1, e2⟩ := hB (by simp [han])
          subst e1 e2
          simp [unforgeNode, hk, hx', hy']
      | x :: y :: z :: more, h1, h2, hwl, hf, hA, hB =>
        have h3' : 3 ≤ (x :: y :: z :: more).length := by simp
        have hn0 : ¬ (x :: y :: z :: more).length = 0 := by simp
        have hn3 : ¬ (x :: y :: z :: more).length < 3 := by simp
        simp only [hn0, hn3, if_false] at h2
        have hl := rt_list known strict (x :: y :: z :: more) hwl a h1 f (by omega)
        obtain ⟨e1, e2⟩ := hA (Or.inr h3')
        rw [getTag_ge3 _ h3']
        simp only [List.cons_append, List.append_assoc]
        simp [unforgeNode, hk, unforgeSeq, unforgeArray_forgeArray 4 a argB _ h2, forgeArray_drop 4 a argB _ h2, hl, e1, e2]
  theorem rt_list (known : Nat → Bool) (strict : Bool) :
      ∀ (xs : List BMich), WFList known xs = true → ∀ body, forgeList xs = some body →
        ∀ fuel, 2 * sizeList xs + 1 ≤ fuel →
        ∀ rest, seqLoop known strict fuel body.length (body ++ rest) = some (xs, rest)
    | [], _, body, h, fuel, _, rest => by
      simp only [forgeList, Option.some.injEq] at h
      subst h
      unfold seqLoop
      simp
    | x :: xs, hw, body, h, fuel, hf, rest => by
      simp only [forgeList, bind, Option.bind_eq_some_iff, pure, Option.some.injEq] at h
      obtain ⟨a, ha, b, hb, rfl⟩ := h
      simp only [WFList, Bool.and_eq_true] at hw
      simp only [BMich.sizeList] at hf
      obtain ⟨f, rfl⟩ : ∃ f, fuel = f + 1 := ⟨fuel - 1, by omega⟩
      have hpos := forge_ne_nil x a ha
      have hsz := BMich.size_pos x
      have hx := rt_node known strict x hw.1 a ha f (by omega) (b ++ rest)
      have hxs := rt_list known strict xs hw.2 b hb f (by omega) rest
      have hne : ¬ (a.length + b.length = 0) := by omega
      unfold seqLoop
      simp only [List.length_append, hne, if_false, List.append_assoc, hx]
      have hu : ¬ (a.length + (b.length + rest.length) - (b.length + rest.length) > a.length + b.length) := by omega
      have hr : a.length + b.length - (a.length + (b.length + rest.length) - (b.length + rest.length)) = b.length := by omega
      simp only [hu, if_false, hr, hxs, Option.map_some]
end

end Impl.Forge

namespace Impl.Forge
open Core BMich

mutual
  theorem forge_size : ∀ (e : BMich) (bs : Bytes), forge e = some bs → e.size ≤ bs.length
    | .int v, bs, h => by
      have := forge_ne_nil _ _ h; simp [BMich.size]; omega
    | .str s, bs, h => by
      have := forge_ne_nil _ _ h; simp [BMich.size]; omega
    | .bytes s, bs, h => by
      have := forge_ne_nil _ _ h; simp [BMich.size]; omega
    | .seq xs, bs, h => by
      simp only [forge, bind, Option.bind_eq_some_iff, pure, Option.some.injEq] at h
      obtain ⟨body, h1, arr, h2, rfl⟩ := h
      have := forgeList_size xs body h1
      have := forgeArray_length 4 body arr h2
      simp [BMich.size]; omega
    | .prim t as an, bs, h => by
      simp only [forge, bind, Option.bind_eq_some_iff, pure, Option.some.injEq] at h
      obtain ⟨a, h1, argB, h2, annB, h3, rfl⟩ := h
      have hs := forgeList_size as a h1
      have hlen : as.length ≤ sizeList as := sizeList_ge_length as
      have : sizeList as ≤ argB.length := by
        by_cases h0 : as.length = 0
        · have : as = [] := List.length_eq_zero_iff.mp h0
          subst this; simp [BMich.sizeList]
        · by_cases h3 : as.length < 3
          · simp [h0, h3] at h2; subst h2; exact hs
          · simp [h0, h3] at h2
            have := forgeArray_length 4 a argB h2; omega
      simp [BMich.size]; omega
  theorem forgeList_size : ∀ (xs : List BMich) (body : Bytes), forgeList xs = some body → sizeList xs ≤ body.length
    | [], body, h => by simp [BMich.sizeList]
    | x :: xs, body, h => by
      simp only [forgeList, bind, Option.bind_eq_some_iff, pure, Option.some.injEq] at h
      obtain ⟨a, ha, b, hb, rfl⟩ := h
      have := forge_size x a ha
      have := forgeList_size xs b hb
      simp [BMich.sizeList]; omega
  theorem sizeList_ge_length : ∀ (xs : List BMich), xs.length ≤ sizeList xs
    | [] => by simp [BMich.sizeList]
    | x :: xs => by
      have := sizeList_ge_length xs
      have := BMich.size_pos x
      simp [BMich.sizeList]; omega
end

/-- **round trip**: whatever `forge` produces decodes back to the same expression, with nothing left over -/
theorem unforge_forge (known : Nat → Bool) (strict : Bool) (e : BMich) (hw : WF known e = true)
    (bs : Bytes) (h : forge e = some bs) : unforge known strict bs = some e := by
  have hs := forge_size e bs h
  have := rt_node known strict e hw bs h (2 * bs.length + 2) (by omega) []
  simp only [List.append_nil] at this
  simp [unforge, this]

/-- decoding succeeds on `forge e ++ rest` at the node level too (used by PACK/operation layouts) -/
theorem forge_injective (known : Nat → Bool) (e₁ e₂ : BMich) (h₁ : WF known e₁ = true) (h₂ : WF known e₂ = true)
    (bs : Bytes) (f₁ : forge e₁ = some bs) (f₂ : forge e₂ = some bs) : e₁ = e₂ := by
  have a := unforge_forge known true e₁ h₁ bs f₁
  have b := unforge_forge known true e₂ h₂ bs f₂
  rw [a] at b
  exact Option.some.inj b

end Impl.Forge
