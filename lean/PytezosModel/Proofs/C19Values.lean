import PytezosModel.Michelson.MacroSem
/-! C19 helper lemmas about the reference side only: the rewriting-rule meanings of `Spec` (`build`, `unbuild`, `cxr`,
`setCxr`, `mapCxr`, `dixp`, `duxp`) agree with their value-level readings. -/
set_option linter.unusedSimpArgs false
namespace C19.Values
open Spec Sem

def pushPair : Option (Val × Stack) → Result
  | some (v, S) => .ok (v :: S)
  | none => .err

theorem build_value (t : PairTree) : ∀ S : Stack, (t = .leaf → S ≠ []) → build t S = pushPair (treeVal? t S) := by
  induction t with
  | leaf =>
    intro S h
    cases S with
    | nil => exact absurd rfl (h rfl)
    | cons x S => rfl
  | node l r ihl ihr =>
    intro S _
    -- the right subtree, run under one element `a`
    have hr : ∀ (a : Val) (S1 : Stack), (under 1 (build r) ⨾ pairStep) (a :: S1) =
        match treeVal? r S1 with
        | some (b, S2) => .ok (.pair a b :: S2)
        | none => .err := by
      intro a S1
      cases r with
      | leaf =>
        cases S1 with
        | nil => rfl
        | cons y S1 => rfl
      | node r1 r2 =>
        have := ihr S1 (by intro h; cases h)
        simp only [seqF, under, this]
        cases treeVal? (.node r1 r2) S1 with
        | none => rfl
        | some x => rfl
    simp only [build]
    rw [seqF_assoc]
    cases l with
    | leaf =>
      cases S with
      | nil => rfl
      | cons x S =>
        have := hr x S
        simp only [seqF, build, bind_ok] at this ⊢
        rw [this]
        simp only [treeVal?]
        cases treeVal? r S with
        | none => rfl
        | some y => rfl
    | node l1 l2 =>
      have hl := ihl S (by intro h; cases h)
      show ((build (.node l1 l2) S).bind (under 1 (build r) ⨾ pairStep)) = _
      rw [hl]
      simp only [treeVal?]
      cases h1 : treeVal? (.node l1 l2) S with
      | none => simp only [treeVal?] at h1; simp [h1, pushPair]
      | some x =>
        simp only [treeVal?] at h1
        simp only [h1, pushPair, bind_ok]
        rw [hr]
        cases treeVal? r x.2 with
        | none => rfl
        | some y => rfl

def pushList (S : Stack) : Option (List Val) → Result
  | some ls => .ok (ls ++ S)
  | none => .err

theorem unbuild_value (t : PairTree) : ∀ (v : Val) (S : Stack), unbuild t (v :: S) = pushList S (flatten? t v) := by
  induction t with
  | leaf => intro v S; rfl
  | node l r ihl ihr =>
    intro v S
    cases v with
    | pair a b =>
      simp only [unbuild, seqF, unpairStep, bind_ok, under, under_zero, ihr b S, flatten?]
      cases flatten? r b with
      | none =>
        cases flatten? l a <;> rfl
      | some ys =>
        simp only [pushList, bind_ok, ihl a (ys ++ S)]
        cases flatten? l a with
        | none => rfl
        | some xs => simp [pushList]
    | _ => rfl

theorem unbuild_nil (l r : PairTree) : unbuild (.node l r) [] = .err := rfl

/-- flattening the value `P…R` built gives back the leaves it consumed -/
theorem flatten_treeVal (t : PairTree) : ∀ (S : Stack) (v : Val) (S' : Stack), treeVal? t S = some (v, S') →
    ∃ ls, flatten? t v = some ls ∧ ls ++ S' = S := by
  induction t with
  | leaf =>
    intro S v S' h
    cases S with
    | nil => simp [treeVal?] at h
    | cons x S =>
      simp only [treeVal?, Option.some.injEq, Prod.mk.injEq] at h
      obtain ⟨rfl, rfl⟩ := h
      exact ⟨[x], rfl, rfl⟩
  | node l r ihl ihr =>
    intro S v S' h
    simp only [treeVal?] at h
    cases h1 : treeVal? l S with
    | none => simp [h1] at h
    | some x =>
      obtain ⟨a, S1⟩ := x
      simp only [h1] at h
      cases h2 : treeVal? r S1 with
      | none => simp [h2] at h
      | some y =>
        obtain ⟨b, S2⟩ := y
        simp only [h2, Option.some.injEq, Prod.mk.injEq] at h
        obtain ⟨rfl, rfl⟩ := h
        obtain ⟨xs, hx, hxs⟩ := ihl S a S1 h1
        obtain ⟨ys, hy, hys⟩ := ihr S1 b S2 h2
        refine ⟨xs ++ ys, by simp [flatten?, hx, hy], ?_⟩
        rw [List.append_assoc, hys, hxs]

/-! paths -/

def pushVal (S : Stack) : Option Val → Result
  | some v => .ok (v :: S)
  | none => .err

theorem cxr_value (p : Path) : ∀ (v : Val) (S : Stack), cxr p (v :: S) = pushVal S (getPath p v) := by
  induction p with
  | nil => intro v S; rfl
  | cons d q ih =>
    intro v S
    cases d <;> cases v <;> simp [cxr, seqF, carStep, cdrStep, getPath, ih, pushVal]

theorem cxr_nil (p : Path) (hp : p ≠ []) : cxr p [] = .err := by
  cases p with
  | nil => exact absurd rfl hp
  | cons d q => cases d <;> rfl

theorem setCxr_value (p : Path) : ∀ (v x : Val) (S : Stack), setCxr p (v :: x :: S) = pushVal S (setPath p v x) := by
  induction p with
  | nil => intro v x S; rfl
  | cons d q ih =>
    intro v x S
    cases q with
    | nil => cases d <;> cases v <;> rfl
    | cons e q =>
      cases d <;> cases v <;>
        simp [setCxr, seqF, dupStep, under, under_zero, carStep, cdrStep, swapStep, pairStep, setPath, ih, pushVal]
      all_goals
        rename_i a b
        first
          | (cases setPath (e :: q) a x <;> rfl)
          | (cases setPath (e :: q) b x <;> rfl)

theorem setCxr_one (p : Path) : ∀ v : Val, setCxr p [v] = .err := by
  induction p with
  | nil => intro v; rfl
  | cons d q ih =>
    intro v
    cases q with
    | nil => cases d <;> cases v <;> rfl
    | cons e q =>
      cases d <;> cases v <;>
        simp [setCxr, seqF, dupStep, under, under_zero, carStep, cdrStep, ih]

theorem setCxr_nil (p : Path) : setCxr p [] = .err := by
  match p with
  | [] => rfl
  | [.A] => rfl
  | [.D] => rfl
  | .A :: _ :: _ => rfl
  | .D :: _ :: _ => rfl

/-- code that only rewrites the top element, whatever lies below -/
def Local (c : F) (f : Val → Val) : Prop := ∀ (x : Val) (T : Stack), c (x :: T) = .ok (f x :: T)

theorem mapCxr_value (p : Path) (c : F) (f : Val → Val) (hc : Local c f) :
    ∀ (v : Val) (S : Stack), mapCxr p c (v :: S) = pushVal S (mapPath p f v) := by
  induction p with
  | nil => intro v S; rfl
  | cons d q ih =>
    intro v S
    cases q with
    | nil =>
      cases d <;> cases v <;>
        simp [mapCxr, seqF, dupStep, under, under_zero, carStep, cdrStep, swapStep, pairStep, mapPath, hc _ _, pushVal]
    | cons e q =>
      cases d <;> cases v <;>
        simp [mapCxr, seqF, dupStep, under, under_zero, carStep, cdrStep, swapStep, pairStep, mapPath, ih, pushVal]
      all_goals
        rename_i a b
        first
          | (cases mapPath (e :: q) f a <;> rfl)
          | (cases mapPath (e :: q) f b <;> rfl)

/-! `DI…IP`, `DU…UP` -/

theorem dixp_eq_under (n : Nat) (c : F) : dixp n c = under n c := by
  induction n with
  | zero => simp [dixp, under_zero]
  | succ n ih => rw [dixp, ih, Nat.add_comm, under_add]

theorem duxp_eq_dupN (n : Nat) (hn : 1 ≤ n) : duxp n = dupN n := by
  induction n with
  | zero => omega
  | succ n ih =>
    cases n with
    | zero =>
      funext S
      cases S <;> rfl
    | succ n =>
      rw [duxp, ih (by omega)]
      funext S
      match S with
      | [] => rfl
      | x :: T =>
        simp only [seqF, under, under_zero, dupN, List.getElem?_cons_succ]
        cases T[n]? <;> rfl

end C19.Values
