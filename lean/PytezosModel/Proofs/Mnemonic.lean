import PytezosModel.Proofs.Base58
import PytezosModel.Crypto.Key
/-! Positional-numeral lemmas behind `validate_mnemonic` (Props/C08): the Python route `bin()[2:].zfill`,
`int(·, 2)`, `hex()[2:].zfill`, `unhexlify` computes fixed-width big-endian digit strings. -/
namespace Impl.Key
open Base58

/-- fixed-width big-endian digits of `n mod b^w` (`int.to_bytes(w, 'big')` for `b = 256`) -/
def fixedR (b : Nat) : Nat → Nat → List Nat
  | 0, _ => []
  | w + 1, n => fixedR b w (n / b) ++ [n % b]

theorem fixedR_length (b w n : Nat) : (fixedR b w n).length = w := by
  induction w generalizing n with
  | zero => rfl
  | succ w ih => simp [fixedR, ih]

theorem fixedR_zero (b w : Nat) : fixedR b w 0 = List.replicate w 0 := by
  induction w with
  | zero => rfl
  | succ w ih => simp [fixedR, ih, List.replicate_succ']

theorem ofDigits_fixedR (b w n : Nat) (hb : 0 < b) : Base58.ofDigits b (fixedR b w n) = n % b ^ w := by
  induction w generalizing n with
  | zero => simp [fixedR, Base58.ofDigits, Base58.ofDigitsAcc, Nat.mod_one]
  | succ w ih =>
    simp only [fixedR, ofDigits_snoc, ih]
    rw [Nat.pow_succ, Nat.mul_comm (b ^ w) b, Nat.mod_mul, Nat.mul_comm, Nat.add_comm]

theorem zfill_snoc (w : Nat) (xs : List Nat) (d : Nat) : zfill (w + 1) (xs ++ [d]) = zfill w xs ++ [d] := by
  simp [zfill]

theorem zfill_toDigits (b : Nat) (hb : 2 ≤ b) (w n : Nat) (h : n < b ^ w) :
    zfill w (toDigits b n) = fixedR b w n := by
  induction w generalizing n with
  | zero =>
    have : n = 0 := by simpa using h
    subst this; simp [toDigits_zero, zfill, fixedR]
  | succ w ih =>
    by_cases hn : n = 0
    · subst hn; simp [toDigits_zero, zfill, fixedR_zero]
    · rw [toDigits_step b n hb hn, zfill_snoc, fixedR]
      congr 1
      apply ih
      rw [Nat.pow_succ] at h
      exact Nat.div_lt_of_lt_mul (by rw [Nat.mul_comm]; exact h)

theorem zfill_pyDigits (b : Nat) (hb : 2 ≤ b) (w n : Nat) (hw : 0 < w) (h : n < b ^ w) :
    zfill w (pyDigits b n) = fixedR b w n := by
  unfold pyDigits
  by_cases hn : n = 0
  · subst hn
    simp only [if_true, fixedR_zero]
    obtain ⟨w', rfl⟩ : ∃ w', w = w' + 1 := ⟨w - 1, by omega⟩
    simp [zfill, List.replicate_succ']
  · simp only [hn, if_false]; exact zfill_toDigits b hb w n h

theorem fixedR_append (b : Nat) (hb : 0 < b) (w1 w2 x y : Nat) (hy : y < b ^ w2) :
    fixedR b (w1 + w2) (x * b ^ w2 + y) = fixedR b w1 x ++ fixedR b w2 y := by
  induction w2 generalizing y with
  | zero =>
    have : y = 0 := by simpa using hy
    subst this; simp [fixedR]
  | succ w2 ih =>
    rw [← Nat.add_assoc, fixedR, fixedR, ← List.append_assoc]
    have h1 : (x * b ^ (w2 + 1) + y) / b = x * b ^ w2 + y / b := by
      rw [Nat.pow_succ, ← Nat.mul_assoc, Nat.mul_comm (x * b ^ w2) b, Nat.mul_add_div hb]
    have h2 : (x * b ^ (w2 + 1) + y) % b = y % b := by
      rw [Nat.pow_succ, ← Nat.mul_assoc, Nat.mul_comm (x * b ^ w2) b, Nat.mul_add_mod]
    rw [h1, h2, ih (y / b)]
    rw [Nat.pow_succ] at hy
    exact Nat.div_lt_of_lt_mul (by rw [Nat.mul_comm]; exact hy)

theorem fixedR_split (b : Nat) (hb : 0 < b) (w1 w2 n : Nat) :
    fixedR b (w1 + w2) n = fixedR b w1 (n / b ^ w2) ++ fixedR b w2 (n % b ^ w2) := by
  have hpos : 0 < b ^ w2 := Nat.pow_pos hb
  have := fixedR_append b hb w1 w2 (n / b ^ w2) (n % b ^ w2) (Nat.mod_lt _ hpos)
  rw [← this]; congr 1
  rw [Nat.mul_comm]; exact (Nat.div_add_mod n (b ^ w2)).symm

theorem fixedR_take (b : Nat) (hb : 0 < b) (w1 w2 n : Nat) :
    (fixedR b (w1 + w2) n).take w1 = fixedR b w1 (n / b ^ w2) := by
  rw [fixedR_split b hb]
  simp [fixedR_length]

theorem fixedR_drop (b : Nat) (hb : 0 < b) (w1 w2 n : Nat) :
    (fixedR b (w1 + w2) n).drop w1 = fixedR b w2 (n % b ^ w2) := by
  rw [fixedR_split b hb]
  simp [fixedR_length]

theorem fixedR_inj (b : Nat) (hb : 0 < b) (w x y : Nat) (hx : x < b ^ w) (hy : y < b ^ w)
    (h : fixedR b w x = fixedR b w y) : x = y := by
  have := congrArg (Base58.ofDigits b) h
  rwa [ofDigits_fixedR b w x hb, ofDigits_fixedR b w y hb, Nat.mod_eq_of_lt hx, Nat.mod_eq_of_lt hy] at this


theorem flatMap_fixedR (idx : List Nat) (hlt : ∀ i ∈ idx, i < 2048) :
    idx.flatMap (fun i => fixedR 2 11 i) = fixedR 2 (11 * idx.length) (Base58.ofDigits 2048 idx) := by
  induction idx with
  | nil => simp [fixedR, Base58.ofDigits, Base58.ofDigitsAcc]
  | cons i is ih =>
    have his : ∀ j ∈ is, j < 2048 := fun j hj => hlt j (by simp [hj])
    rw [List.flatMap_cons, ih his, ofDigits_cons]
    have hpow : (2048 : Nat) ^ is.length = 2 ^ (11 * is.length) := by rw [Nat.pow_mul]
    have hy : Base58.ofDigits 2048 is < 2 ^ (11 * is.length) := by rw [← hpow]; exact ofDigits_lt_pow 2048 is his
    rw [hpow, List.length_cons, show 11 * (is.length + 1) = 11 + 11 * is.length by omega]
    exact (fixedR_append 2 (by omega) 11 (11 * is.length) i _ hy).symm

theorem fixedR_two (b x : Nat) : fixedR b 2 x = [x / b % b, x % b] := by simp [fixedR]

theorem unhexlify_fixedR (m N : Nat) : unhexlify (fixedR 16 (2 * m) N) = some (fixedR 256 m N) := by
  induction m generalizing N with
  | zero => simp [fixedR, unhexlify]
  | succ m ih =>
    have h16 : (16 : Nat) ^ (2 * m) = 256 ^ m := by rw [Nat.pow_mul]
    rw [show 2 * (m + 1) = 2 + 2 * m by omega, fixedR_split 16 (by omega) 2 (2 * m) N, fixedR_two]
    simp only [List.cons_append, List.nil_append, unhexlify, ih, Option.map_some]
    rw [show m + 1 = 1 + m by omega, fixedR_split 256 (by omega) 1 m N]
    simp only [fixedR, List.nil_append, List.cons_append, h16, Option.some.injEq, List.cons.injEq, and_true]
    omega


/-- BIP-39 on word indices: `3k` words (k = 4 … 8) are the 11-bit groups of `ENT ‖ CS`, `ENT = 32k` bits of
entropy, `CS` = the first `k` bits of SHA-256 of the entropy bytes.  With `v` the number whose base-2048 digits
are the indices: entropy = `v >> k` as `4k` big-endian bytes, checksum = `v mod 2^k`, and the first `k` bits of
the 256-bit digest `d` are `d >> (256 - k)`. -/
def Spec.bip39Valid (sha : Bytes → Bytes) (idx : List Nat) : Prop :=
  idx.length ∈ [12, 15, 18, 21, 24] ∧
    Base58.ofDigits 2048 idx % 2 ^ (idx.length / 3) =
      Base58.ofDigits 256 (sha (fixedR 256 (4 * (idx.length / 3)) (Base58.ofDigits 2048 idx / 2 ^ (idx.length / 3))))
        / 2 ^ (256 - idx.length / 3)

theorem flatMap_congr' {f g : Nat → List Nat} (l : List Nat) (h : ∀ x ∈ l, f x = g x) :
    l.flatMap f = l.flatMap g := by
  induction l with
  | nil => rfl
  | cons a l ih => simp [List.flatMap_cons, h a (by simp), ih (fun x hx => h x (by simp [hx]))]

theorem bits_of_indices (idx : List Nat) (hlt : ∀ i ∈ idx, i < 2048) :
    (idx.flatMap fun i => zfill 11 (pyDigits 2 i)) = fixedR 2 (11 * idx.length) (Base58.ofDigits 2048 idx) := by
  rw [← flatMap_fixedR idx hlt]
  exact flatMap_congr' idx fun i hi => zfill_pyDigits 2 (by omega) 11 i (by omega) (hlt i hi)

/-- the computation of `validate_mnemonic` after the length and word checks, for `3k` words -/
theorem checksum_route (sha : Bytes → Bytes) (hsha : ∀ m, (sha m).length = 32 ∧ IsBytes (sha m))
    (k : Nat) (hk : 0 < k) (hk8 : k ≤ 256) (idx : List Nat) (hlen : idx.length = 3 * k)
    (hlt : ∀ i ∈ idx, i < 2048) :
    let b := idx.flatMap fun i => zfill 11 (pyDigits 2 i)
    let l := b.length
    let v := Base58.ofDigits 2048 idx
    ∃ nd, unhexlify (zfill (l / 33 * 8) (pyDigits 16 (Base58.ofDigits 2 (b.take (l / 33 * 32))))) = some nd ∧
      nd = fixedR 256 (4 * k) (v / 2 ^ k) ∧
      (b.drop (l - (l + 32) / 33) = (zfill 256 (pyDigits 2 (Base58.ofDigits 256 (sha nd)))).take (l / 33) ↔
        v % 2 ^ k = Base58.ofDigits 256 (sha nd) / 2 ^ (256 - k)) := by
  intro b l v
  have hb : b = fixedR 2 (11 * idx.length) v := bits_of_indices idx hlt
  have hl : l = 33 * k := by show b.length = _; rw [hb, fixedR_length, hlen]; omega
  have h1 : l / 33 * 32 = 32 * k := by rw [hl]; omega
  have h2 : l / 33 * 8 = 2 * (4 * k) := by rw [hl]; omega
  have h3 : l - (l + 32) / 33 = 32 * k := by rw [hl]; omega
  have h4 : l / 33 = k := by rw [hl]; omega
  have hb' : b = fixedR 2 (32 * k + k) v := by rw [hb, hlen]; congr 1; omega
  have hv : v < 2 ^ (32 * k + k) := by
    have := ofDigits_lt_pow 2048 idx hlt
    have hp : (2048 : Nat) ^ idx.length = 2 ^ (11 * idx.length) := by rw [Nat.pow_mul]
    rw [hp, hlen] at this
    rw [show 32 * k + k = 11 * (3 * k) by omega]; exact this
  have hd : b.take (32 * k) = fixedR 2 (32 * k) (v / 2 ^ k) := by rw [hb', fixedR_take 2 (by omega)]
  have hh : b.drop (32 * k) = fixedR 2 k (v % 2 ^ k) := by rw [hb', fixedR_drop 2 (by omega)]
  have hq : v / 2 ^ k < 2 ^ (32 * k) := by
    rw [Nat.pow_add] at hv
    exact Nat.div_lt_of_lt_mul (by rw [Nat.mul_comm]; exact hv)
  have hN : Base58.ofDigits 2 (b.take (32 * k)) = v / 2 ^ k := by
    rw [hd, ofDigits_fixedR 2 _ _ (by omega), Nat.mod_eq_of_lt hq]
  have h16 : (16 : Nat) ^ (2 * (4 * k)) = 2 ^ (32 * k) := by
    rw [show (16 : Nat) = 2 ^ 4 by rfl, ← Nat.pow_mul]; congr 1; omega
  have hhex : zfill (2 * (4 * k)) (pyDigits 16 (v / 2 ^ k)) = fixedR 16 (2 * (4 * k)) (v / 2 ^ k) :=
    zfill_pyDigits 16 (by omega) _ _ (by omega) (by rw [h16]; exact hq)
  refine ⟨fixedR 256 (4 * k) (v / 2 ^ k), ?_, rfl, ?_⟩
  · rw [h1, h2, hN, hhex, unhexlify_fixedR]
  · obtain ⟨hs32, hsb⟩ := hsha (fixedR 256 (4 * k) (v / 2 ^ k))
    have hD : Base58.ofDigits 256 (sha (fixedR 256 (4 * k) (v / 2 ^ k))) < 2 ^ (k + (256 - k)) := by
      have := ofDigits_lt_pow 256 _ hsb
      rw [hs32] at this
      rw [show k + (256 - k) = 256 by omega]
      have h256 : (256 : Nat) ^ 32 = 2 ^ 256 := by rw [show (256 : Nat) = 2 ^ 8 by rfl, ← Nat.pow_mul]
      rw [← h256]; exact this
    have hz : zfill 256 (pyDigits 2 (Base58.ofDigits 256 (sha (fixedR 256 (4 * k) (v / 2 ^ k))))) =
        fixedR 2 (k + (256 - k)) (Base58.ofDigits 256 (sha (fixedR 256 (4 * k) (v / 2 ^ k)))) := by
      have := zfill_pyDigits 2 (by omega) 256 _ (by omega) (by rw [show k + (256 - k) = 256 by omega] at hD; exact hD)
      rw [this]; congr 1; omega
    rw [h3, h4, hh, hz, fixedR_take 2 (by omega)]
    constructor
    · intro h
      refine fixedR_inj 2 (by omega) k _ _ (Nat.mod_lt _ (Nat.pow_pos (by omega))) ?_ h
      rw [Nat.pow_add] at hD
      exact Nat.div_lt_of_lt_mul (by rw [Nat.mul_comm (2 ^ (256 - k))]; exact hD)
    · intro h; rw [h]


theorem mapM_id_eq_some (ws : List (Option Nat)) (idx : List Nat) :
    ws.mapM id = some idx ↔ ws = idx.map some := by
  induction ws generalizing idx with
  | nil => cases idx <;> simp
  | cons w ws ih =>
    cases w with
    | none => cases idx <;> simp
    | some i =>
      cases hm : ws.mapM id with
      | none =>
        have hno : ∀ js, ws ≠ List.map some js := fun js h => by rw [(ih js).mpr h] at hm; cases hm
        cases idx with
        | nil => simp [hm]
        | cons j js => simp [hm]; intro _; exact hno js
      | some r =>
        have hr := (ih r).mp hm
        cases idx with
        | nil => simp [hm]
        | cons j js =>
          simp only [List.mapM_cons, id, hm, Option.pure_def, Option.bind_eq_bind, Option.bind_some, List.map_cons,
            List.cons.injEq, Option.some.injEq]
          constructor
          · rintro ⟨rfl, rfl⟩; exact ⟨rfl, hr⟩
          · rintro ⟨rfl, h⟩
            refine ⟨rfl, ?_⟩
            have := (ih js).mpr h
            rw [hm] at this; cases this; rfl

theorem mnemonicLengths_eq : mnemonicLengths = some [12, 15, 18, 21, 24] := rfl

/-- **`validate_mnemonic` accepts exactly the BIP-39-valid word sequences** -/
theorem validateMnemonic_iff (P : Prims) (hsha : ∀ m, (P.sha256 m).length = 32 ∧ IsBytes (P.sha256 m))
    (ws : List (Option Nat)) (hlt : ∀ i, some i ∈ ws → i < 2048) :
    validateMnemonic P ws = .ok () ↔ ∃ idx, ws = idx.map some ∧ Spec.bip39Valid P.sha256 idx := by
  unfold validateMnemonic
  rw [mnemonicLengths_eq]
  simp only
  by_cases hlen : ([12, 15, 18, 21, 24] : List Nat).contains ws.length = true
  · simp only [hlen, Bool.not_true, Bool.false_eq_true, if_false]
    cases hm : ws.mapM id with
    | none =>
      simp only
      constructor
      · intro h; cases h
      · rintro ⟨idx, hws, _⟩
        rw [(mapM_id_eq_some ws idx).mpr hws] at hm; cases hm
    | some idx =>
      have hws : ws = idx.map some := (mapM_id_eq_some ws idx).mp hm
      have hil : idx.length = ws.length := by rw [hws, List.length_map]
      have hlt' : ∀ i ∈ idx, i < 2048 := by
        intro i hi; apply hlt; rw [hws]; exact List.mem_map_of_mem hi
      have hmem : idx.length ∈ [12, 15, 18, 21, 24] := by
        rw [hil]; simpa using hlen
      have hk : ∃ k, 0 < k ∧ k ≤ 256 ∧ idx.length = 3 * k ∧ idx.length / 3 = k := by
        simp only [List.mem_cons, List.not_mem_nil, or_false] at hmem
        rcases hmem with h | h | h | h | h
        · exact ⟨4, by omega, by omega, by omega, by omega⟩
        · exact ⟨5, by omega, by omega, by omega, by omega⟩
        · exact ⟨6, by omega, by omega, by omega, by omega⟩
        · exact ⟨7, by omega, by omega, by omega, by omega⟩
        · exact ⟨8, by omega, by omega, by omega, by omega⟩
      obtain ⟨k, hk0, hk8, h3k, hdiv⟩ := hk
      obtain ⟨nd, hnd, hndeq, hiff⟩ := checksum_route P.sha256 hsha k hk0 hk8 idx h3k hlt'
      simp only [Impl.Key.ofDigits, hnd]
      have hspec : Spec.bip39Valid P.sha256 idx ↔
          Base58.ofDigits 2048 idx % 2 ^ k = Base58.ofDigits 256 (P.sha256 nd) / 2 ^ (256 - k) := by
        unfold Spec.bip39Valid
        rw [hdiv, ← hndeq]
        exact ⟨fun h => h.2, fun h => ⟨hmem, h⟩⟩
      constructor
      · intro h
        refine ⟨idx, hws, hspec.mpr (hiff.mp ?_)⟩
        split at h
        · cases h
        · rename_i hne; simpa using hne
      · rintro ⟨idx', hws', hv⟩
        have : idx' = idx := by
          have := (mapM_id_eq_some ws idx').mpr hws'
          rw [hm] at this; cases this; rfl
        subst this
        have := hiff.mpr (hspec.mp hv)
        simp only [this, bne_self_eq_false, Bool.false_eq_true, if_false]
  · have hlen' : ([12, 15, 18, 21, 24] : List Nat).contains ws.length = false := by simpa using hlen
    simp only [hlen', Bool.not_false, if_true]
    constructor
    · intro h; cases h
    · rintro ⟨idx, hws, hv, _⟩
      have : idx.length = ws.length := by rw [hws, List.length_map]
      rw [this] at hv
      have : ([12, 15, 18, 21, 24] : List Nat).contains ws.length = true := by simpa using hv
      rw [this] at hlen'; cases hlen'

end Impl.Key
