import PytezosModel.Core.Base58
/-! Lemmas about positional numerals and Base58: the two round trips, injectivity, and the
length / prefix range lemma used by the per-row obligations of C09 and C10. -/
namespace Base58

theorem snoc_induction {P : List Nat → Prop} (nil : P [])
    (snoc : ∀ xs d, P xs → P (xs ++ [d])) : ∀ xs, P xs := by
  have h : ∀ r : List Nat, P r.reverse := by
    intro r
    induction r with
    | nil => exact nil
    | cons a r ih => rw [List.reverse_cons]; exact snoc _ _ ih
  intro xs
  have := h xs.reverse
  rwa [List.reverse_reverse] at this

/-! ### ofDigits -/

theorem ofDigitsAcc_eq (b acc : Nat) (ds : List Nat) :
    ofDigitsAcc b acc ds = acc * b ^ ds.length + ofDigits b ds := by
  induction ds generalizing acc with
  | nil => simp [ofDigitsAcc, ofDigits]
  | cons d ds ih =>
    simp only [ofDigits, ofDigitsAcc, List.length_cons]
    rw [ih (acc * b + d), ih (0 * b + d)]
    simp only [Nat.zero_mul, Nat.zero_add, Nat.pow_succ, Nat.add_mul]
    rw [Nat.mul_assoc, Nat.mul_comm b]
    omega

@[simp] theorem ofDigits_nil (b : Nat) : ofDigits b [] = 0 := rfl

theorem ofDigits_cons (b d : Nat) (ds : List Nat) :
    ofDigits b (d :: ds) = d * b ^ ds.length + ofDigits b ds := by
  have := ofDigitsAcc_eq b (0 * b + d) ds
  simp only [Nat.zero_mul, Nat.zero_add] at this
  simpa [ofDigits, ofDigitsAcc] using this

theorem ofDigits_append (b : Nat) (xs ys : List Nat) :
    ofDigits b (xs ++ ys) = ofDigits b xs * b ^ ys.length + ofDigits b ys := by
  induction xs with
  | nil => simp
  | cons x xs ih =>
    simp only [List.cons_append, ofDigits_cons, ih, List.length_append, Nat.pow_add, Nat.add_mul]
    rw [Nat.mul_assoc]
    omega

theorem ofDigits_snoc (b : Nat) (xs : List Nat) (d : Nat) :
    ofDigits b (xs ++ [d]) = ofDigits b xs * b + d := by
  simp [ofDigits_append, ofDigits_cons]

theorem ofDigits_lt_pow (b : Nat) (ds : List Nat) (h : ∀ d ∈ ds, d < b) :
    ofDigits b ds < b ^ ds.length := by
  induction ds using snoc_induction with
  | nil => simp
  | snoc xs d ih =>
    have hx : ofDigits b xs < b ^ xs.length := ih (fun x hx => h x (by simp [hx]))
    have hd : d < b := h d (by simp)
    rw [ofDigits_snoc, List.length_append, List.length_singleton, Nat.pow_succ]
    calc ofDigits b xs * b + d < ofDigits b xs * b + b := by omega
      _ = (ofDigits b xs + 1) * b := by rw [Nat.add_mul]; omega
      _ ≤ b ^ xs.length * b := Nat.mul_le_mul_right b hx

theorem ofDigits_dropLeading_zero (b : Nat) (ds : List Nat) :
    ofDigits b (dropLeading 0 ds) = ofDigits b ds := by
  induction ds with
  | nil => rfl
  | cons d ds ih =>
    simp only [dropLeading]
    split
    · next h => subst h; rw [ih, ofDigits_cons]; simp
    · rfl

/-! ### toDigits -/

theorem toDigitsAcc_eq (b n : Nat) (acc : List Nat) :
    toDigitsAcc b n acc = toDigits b n ++ acc := by
  induction n using Nat.strongRecOn generalizing acc with
  | _ n ih =>
    unfold toDigits
    rw [toDigitsAcc.eq_def b n acc, toDigitsAcc.eq_def b n []]
    split
    · simp
    · next h =>
      have hlt : n / b < n := Nat.div_lt_self (by omega) (by omega)
      rw [ih _ hlt, ih _ hlt [n % b]]
      simp

theorem toDigits_zero (b : Nat) : toDigits b 0 = [] := by
  unfold toDigits; rw [toDigitsAcc.eq_def]; simp

theorem toDigits_step (b n : Nat) (hb : 2 ≤ b) (hn : n ≠ 0) :
    toDigits b n = toDigits b (n / b) ++ [n % b] := by
  conv => lhs; unfold toDigits
  rw [toDigitsAcc.eq_def]
  have : ¬ (b < 2 ∨ n = 0) := by omega
  simp only [this, dite_false]
  exact toDigitsAcc_eq _ _ _

theorem ofDigits_toDigits (b n : Nat) (hb : 2 ≤ b) : ofDigits b (toDigits b n) = n := by
  induction n using Nat.strongRecOn with
  | _ n ih =>
    by_cases hn : n = 0
    · subst hn; simp [toDigits_zero]
    · rw [toDigits_step b n hb hn, ofDigits_snoc, ih _ (Nat.div_lt_self (by omega) (by omega))]
      exact Nat.div_add_mod' n b

theorem toDigits_lt (b n : Nat) (hb : 2 ≤ b) : ∀ d ∈ toDigits b n, d < b := by
  induction n using Nat.strongRecOn with
  | _ n ih =>
    by_cases hn : n = 0
    · subst hn; simp [toDigits_zero]
    · rw [toDigits_step b n hb hn]
      intro d hd
      rcases List.mem_append.mp hd with h | h
      · exact ih _ (Nat.div_lt_self (by omega) (by omega)) d h
      · simp at h; subst h; exact Nat.mod_lt _ (by omega)

/-- the digit string of a positive number has a non-zero leading digit -/
theorem toDigits_head_ne_zero (b n : Nat) (hb : 2 ≤ b) : (toDigits b n).head? ≠ some 0 := by
  induction n using Nat.strongRecOn with
  | _ n ih =>
    by_cases hn : n = 0
    · subst hn; simp [toDigits_zero]
    · rw [toDigits_step b n hb hn]
      by_cases hq : n / b = 0
      · rw [hq, toDigits_zero]
        have : n < b := by
          rcases Nat.lt_or_ge n b with h | h
          · exact h
          · have : 0 < n / b := Nat.div_pos h (by omega)
            omega
        simp [Nat.mod_eq_of_lt this, hn]
      · have hlt : n / b < n := Nat.div_lt_self (by omega) (by omega)
        have h1 := ih _ hlt
        have h2 : toDigits b (n / b) ≠ [] := by
          rw [toDigits_step b _ hb hq]; simp
        cases hl : toDigits b (n / b) with
        | nil => exact absurd hl h2
        | cons x xs => rw [hl] at h1; simpa using h1

/-- a digit string without leading zero is the digit string of its value -/
theorem toDigits_ofDigits (b : Nat) (hb : 2 ≤ b) (ds : List Nat) (hlt : ∀ d ∈ ds, d < b)
    (hhead : ds.head? ≠ some 0) : toDigits b (ofDigits b ds) = ds := by
  induction ds using snoc_induction with
  | nil => simp [toDigits_zero]
  | snoc xs d ih =>
    have hd : d < b := hlt d (by simp)
    have hxs : ∀ x ∈ xs, x < b := fun x hx => hlt x (by simp [hx])
    have hne : ofDigits b (xs ++ [d]) ≠ 0 := by
      rw [ofDigits_snoc]
      cases xs with
      | nil => simp at hhead ⊢; omega
      | cons x xs' =>
        have hx0 : x ≠ 0 := by simpa using hhead
        have : 0 < ofDigits b (x :: xs') := by
          rw [ofDigits_cons]
          have : 0 < x * b ^ xs'.length := Nat.mul_pos (by omega) (Nat.pow_pos (by omega))
          omega
        have : 0 < ofDigits b (x :: xs') * b := Nat.mul_pos this (by omega)
        omega
    rw [toDigits_step b _ hb hne, ofDigits_snoc]
    have hdiv : (ofDigits b xs * b + d) / b = ofDigits b xs := by
      rw [Nat.mul_comm, Nat.mul_add_div (by omega), Nat.div_eq_of_lt hd]; rfl
    have hmod : (ofDigits b xs * b + d) % b = d := by
      rw [Nat.mul_comm, Nat.mul_add_mod]; exact Nat.mod_eq_of_lt hd
    rw [hdiv, hmod]
    congr 1
    apply ih hxs
    cases xs with
    | nil => simp
    | cons x xs' => simpa using hhead

/-- **range lemma**: a number in `[h·b^k, (h+1)·b^k)` with `h > 0` is written as the digits of `h`
followed by exactly `k` more digits -/
theorem toDigits_range (b : Nat) (hb : 2 ≤ b) (k h n : Nat) (hh : 0 < h)
    (hlo : h * b ^ k ≤ n) (hhi : n < (h + 1) * b ^ k) :
    ∃ tl, tl.length = k ∧ toDigits b n = toDigits b h ++ tl := by
  induction k generalizing n with
  | zero =>
    simp only [Nat.pow_zero, Nat.mul_one] at hlo hhi
    exact ⟨[], rfl, by rw [show n = h by omega]; simp⟩
  | succ k ih =>
    have hbk : 0 < b ^ k := Nat.pow_pos (by omega)
    have hn : n ≠ 0 := by
      have : 0 < h * b ^ (k + 1) := Nat.mul_pos hh (Nat.pow_pos (by omega))
      omega
    have hlo' : h * b ^ k ≤ n / b := by
      rw [Nat.le_div_iff_mul_le (by omega)]
      rw [Nat.pow_succ, ← Nat.mul_assoc] at hlo; exact hlo
    have hhi' : n / b < (h + 1) * b ^ k := by
      rw [Nat.div_lt_iff_lt_mul (by omega)]
      rw [Nat.pow_succ, ← Nat.mul_assoc] at hhi; exact hhi
    obtain ⟨tl, hl, he⟩ := ih (n / b) hlo' hhi'
    refine ⟨tl ++ [n % b], by simp [hl], ?_⟩
    rw [toDigits_step b n hb hn, he, List.append_assoc]

/-! ### leading / dropLeading -/

theorem replicate_leading_dropLeading (z : Nat) (xs : List Nat) :
    List.replicate (leading z xs) z ++ dropLeading z xs = xs := by
  induction xs with
  | nil => rfl
  | cons a as ih =>
    simp only [leading, dropLeading]
    split
    · next h => subst h; simp [List.replicate_succ, ih]
    · simp

theorem dropLeading_head (z : Nat) (xs : List Nat) : (dropLeading z xs).head? ≠ some z := by
  induction xs with
  | nil => simp [dropLeading]
  | cons a as ih =>
    simp only [dropLeading]
    split
    · exact ih
    · next h => simpa using h

theorem leading_replicate_append (z n : Nat) (xs : List Nat) (h : xs.head? ≠ some z) :
    leading z (List.replicate n z ++ xs) = n := by
  induction n with
  | zero =>
    cases xs with
    | nil => rfl
    | cons a as => simp at h; simp [leading, h]
  | succ n ih => simp [List.replicate_succ, leading, ih]

theorem dropLeading_replicate_append (z n : Nat) (xs : List Nat) (h : xs.head? ≠ some z) :
    dropLeading z (List.replicate n z ++ xs) = xs := by
  induction n with
  | zero =>
    cases xs with
    | nil => rfl
    | cons a as => simp at h; simp [dropLeading, h]
  | succ n ih => simp [List.replicate_succ, dropLeading, ih]

theorem dropLeading_mem (z : Nat) (xs : List Nat) : ∀ x ∈ dropLeading z xs, x ∈ xs := by
  intro x hx
  have := replicate_leading_dropLeading z xs
  rw [← this]; exact List.mem_append_right _ hx

/-! ### alphabet -/

theorem idxOfAux_some (c : Nat) (xs : List Nat) (i d : Nat) (h : idxOfAux c xs i = some d) :
    i ≤ d ∧ d - i < xs.length ∧ xs.getD (d - i) 0 = c := by
  induction xs generalizing i with
  | nil => simp [idxOfAux] at h
  | cons a as ih =>
    simp only [idxOfAux] at h
    split at h
    · next hac => simp at h; subst h; simp [hac]
    · have := ih (i + 1) h
      obtain ⟨h1, h2, h3⟩ := this
      refine ⟨by omega, by simp; omega, ?_⟩
      have : d - i = (d - (i + 1)) + 1 := by omega
      rw [this]; simpa using h3

theorem charDigit_some (c d : Nat) (h : charDigit c = some d) : d < 58 ∧ digitChar d = c := by
  have := idxOfAux_some c alphabet 0 d h
  simp only [Nat.sub_zero] at this
  exact ⟨this.2.1, this.2.2⟩

theorem charDigit_digitChar : ∀ d, d < 58 → charDigit (digitChar d) = some d := by decide

theorem digitChar_zero_iff : ∀ d, d < 58 → (digitChar d = 49 ↔ d = 0) := by decide

theorem charsDigits_map (ds : List Nat) (h : ∀ d ∈ ds, d < 58) :
    charsDigits (ds.map digitChar) = some ds := by
  induction ds with
  | nil => rfl
  | cons d ds ih =>
    have h1 := charDigit_digitChar d (h d (by simp))
    have h2 := ih (fun x hx => h x (by simp [hx]))
    simp [charsDigits, h1, h2]

theorem charsDigits_some (s ds : List Nat) (h : charsDigits s = some ds) :
    (∀ d ∈ ds, d < 58) ∧ ds.map digitChar = s := by
  induction s generalizing ds with
  | nil => simp [charsDigits] at h; subst h; simp
  | cons c cs ih =>
    simp only [charsDigits] at h
    cases hc : charDigit c with
    | none => simp [hc] at h
    | some d =>
      cases hcs : charsDigits cs with
      | none => simp [hc, hcs] at h
      | some ds' =>
        simp [hc, hcs] at h; subst h
        have ⟨h1, h2⟩ := ih ds' hcs
        have ⟨h3, h4⟩ := charDigit_some c d hc
        refine ⟨?_, by simp [h2, h4]⟩
        intro x hx
        rcases List.mem_cons.mp hx with h | h
        · subst h; exact h3
        · exact h1 x h

/-! ### Base58 round trips -/

theorem map_digitChar_head (ds : List Nat) (hlt : ∀ d ∈ ds, d < 58) (hh : ds.head? ≠ some 0) :
    (ds.map digitChar).head? ≠ some 49 := by
  cases ds with
  | nil => simp
  | cons d ds =>
    have hd := hlt d (by simp)
    have := digitChar_zero_iff d hd
    simp at hh ⊢
    intro h; exact hh (this.mp h)

/-- decoding an encoding returns the bytes — every byte string, including leading zeros and `[]` -/
theorem b58dec_b58enc (bs : List Nat) (hb : ∀ x ∈ bs, x < 256) : b58dec (b58enc bs) = some bs := by
  have hds := toDigits_lt 58 (ofDigits 256 (dropLeading 0 bs)) (by omega)
  have hhd := toDigits_head_ne_zero 58 (ofDigits 256 (dropLeading 0 bs)) (by omega)
  have hhead := map_digitChar_head _ hds hhd
  unfold b58dec b58enc
  rw [dropLeading_replicate_append _ _ _ hhead, leading_replicate_append _ _ _ hhead,
    charsDigits_map _ hds]
  simp only
  rw [ofDigits_toDigits _ _ (by omega),
    toDigits_ofDigits 256 (by omega) _ (fun d hd => hb d (dropLeading_mem 0 bs d hd)) (dropLeading_head 0 bs),
    replicate_leading_dropLeading]

theorem b58enc_injective (xs ys : List Nat) (hx : ∀ x ∈ xs, x < 256) (hy : ∀ y ∈ ys, y < 256)
    (h : b58enc xs = b58enc ys) : xs = ys := by
  have h1 := b58dec_b58enc xs hx
  have h2 := b58dec_b58enc ys hy
  rw [h] at h1
  exact Option.some.inj (h1.symm.trans h2)

/-- whatever `b58dec` returns is a byte string -/
theorem b58dec_bytes (s bs : List Nat) (h : b58dec s = some bs) : ∀ x ∈ bs, x < 256 := by
  unfold b58dec at h
  split at h
  · simp at h
  · next ds hds =>
    simp at h; subst h
    intro x hx
    rcases List.mem_append.mp hx with h | h
    · have := List.eq_of_mem_replicate h; omega
    · exact toDigits_lt 256 _ (by omega) x h

/-- the only string that decodes to `bs` is the encoding of `bs` -/
theorem b58enc_of_b58dec (s bs : List Nat) (h : b58dec s = some bs) : b58enc bs = s := by
  unfold b58dec at h
  split at h
  · simp at h
  · next ds hds =>
    simp at h; subst h
    obtain ⟨hlt, hmap⟩ := charsDigits_some _ _ hds
    have hhead58 : ds.head? ≠ some 0 := by
      have := dropLeading_head 49 s
      rw [← hmap] at this
      cases ds with
      | nil => simp
      | cons d ds' =>
        simp at this ⊢
        intro hd; subst hd; exact this (by decide)
    have hhd := toDigits_head_ne_zero 256 (ofDigits 58 ds) (by omega)
    unfold b58enc
    rw [leading_replicate_append _ _ _ hhd, dropLeading_replicate_append _ _ _ hhd,
      ofDigits_toDigits _ _ (by omega), toDigits_ofDigits 58 (by omega) ds hlt hhead58, hmap,
      replicate_leading_dropLeading]

end Base58
