import PytezosModel.Proofs.C21Codec
import PytezosModel.Proofs.C21Group
/-! C21 helper lemmas: each BLS branch of `Impl.add / mul / neg / int / pairingCheck` and the Fr literal codec,
evaluated for the source description `expectedSrc`.  (The G2 block is the G1 block with the names changed.) -/
namespace Bls
open Core Generated.C21

@[simp] theorem ok_bind {α β : Type} (a : α) (f : α → R β) : (Except.ok a >>= f) = f a := rfl
@[simp] theorem error_bind {α β : Type} (e : Err) (f : α → R β) : ((Except.error e : R α) >>= f) = .error e := rfl

theorem toPoint_of_fromPoint (K : CurveOps) (n : Nat) (hK : CurveLaws K n) (L : PointLayout) {total : Nat}
    (hL : LayoutGood L n total) (P : K.G) (bs : Bytes) (h : fromPoint K L P = some bs) : toPoint K L bs = P := by
  obtain ⟨bs', e, t, _⟩ := fromPoint_toPoint K n hK L hL P
  rw [h] at e
  cases e
  exact t

variable (E : Env)

/-! ### G1 -/

theorem impl_add_g1 (h1 : CurveLaws E.K1 2) (P Q : E.K1.G) (a b : Bytes)
    (ha : fromPoint E.K1 L1 P = some a) (hb : fromPoint E.K1 L1 Q = some b) :
    Impl.add expectedSrc E (.pt .g1 a) (.pt .g1 b)
      = (ofOpt .value (fromPoint E.K1 L1 (E.K1.add P Q))).map (.pt .g1) := by
  have ta := toPoint_of_fromPoint E.K1 2 h1 L1 L1_good P a ha
  have tb := toPoint_of_fromPoint E.K1 2 h1 L1 L1_good Q b hb
  have hd : dispatch expectedSrc.addRows [.pt .g1 a, .pt .g1 b] = .ok .g1 := rfl
  simp only [Impl.add, hd]
  simp [expectedSrc, withPoint, fromPoint1, ta, tb]

theorem impl_neg_g1 (h1 : CurveLaws E.K1 2) (P : E.K1.G) (a : Bytes) (ha : fromPoint E.K1 L1 P = some a) :
    Impl.neg expectedSrc E (.pt .g1 a) = (ofOpt .value (fromPoint E.K1 L1 (E.K1.neg P))).map (.pt .g1) := by
  have ta := toPoint_of_fromPoint E.K1 2 h1 L1 L1_good P a ha
  have hd : dispatch expectedSrc.negRows [.pt .g1 a] = .ok .g1 := rfl
  simp only [Impl.neg, hd]
  simp [expectedSrc, withPoint, fromPoint1, ta]

theorem impl_mul_g1 (h1 : CurveLaws E.K1 2) (P : E.K1.G) (a : Bytes) (ha : fromPoint E.K1 L1 P = some a) (k : Nat) :
    Impl.mul expectedSrc E (.pt .g1 a) (.num .fr (k : Int))
      = (ofOpt .value (fromPoint E.K1 L1 (E.K1.mul P k))).map (.pt .g1) := by
  have ta := toPoint_of_fromPoint E.K1 2 h1 L1 L1_good P a ha
  have hd : dispatch expectedSrc.mulRows [.pt .g1 a, .num .fr (k : Int)] = .ok .g1 := rfl
  have hk : ¬ ((k : Int) < 0) := by omega
  simp only [Impl.mul, hd]
  simp [expectedSrc, withPoint, fromPoint1, ta, Val.asInt, hk]

/-! ### G2 -/

theorem impl_add_g2 (h2 : CurveLaws E.K2 4) (P Q : E.K2.G) (a b : Bytes)
    (ha : fromPoint E.K2 L2 P = some a) (hb : fromPoint E.K2 L2 Q = some b) :
    Impl.add expectedSrc E (.pt .g2 a) (.pt .g2 b)
      = (ofOpt .value (fromPoint E.K2 L2 (E.K2.add P Q))).map (.pt .g2) := by
  have ta := toPoint_of_fromPoint E.K2 4 h2 L2 L2_good P a ha
  have tb := toPoint_of_fromPoint E.K2 4 h2 L2 L2_good Q b hb
  have hd : dispatch expectedSrc.addRows [.pt .g2 a, .pt .g2 b] = .ok .g2 := rfl
  simp only [Impl.add, hd]
  simp [expectedSrc, withPoint, fromPoint2, ta, tb]

theorem impl_neg_g2 (h2 : CurveLaws E.K2 4) (P : E.K2.G) (a : Bytes) (ha : fromPoint E.K2 L2 P = some a) :
    Impl.neg expectedSrc E (.pt .g2 a) = (ofOpt .value (fromPoint E.K2 L2 (E.K2.neg P))).map (.pt .g2) := by
  have ta := toPoint_of_fromPoint E.K2 4 h2 L2 L2_good P a ha
  have hd : dispatch expectedSrc.negRows [.pt .g2 a] = .ok .g2 := rfl
  simp only [Impl.neg, hd]
  simp [expectedSrc, withPoint, fromPoint2, ta]

theorem impl_mul_g2 (h2 : CurveLaws E.K2 4) (P : E.K2.G) (a : Bytes) (ha : fromPoint E.K2 L2 P = some a) (k : Nat) :
    Impl.mul expectedSrc E (.pt .g2 a) (.num .fr (k : Int))
      = (ofOpt .value (fromPoint E.K2 L2 (E.K2.mul P k))).map (.pt .g2) := by
  have ta := toPoint_of_fromPoint E.K2 4 h2 L2 L2_good P a ha
  have hd : dispatch expectedSrc.mulRows [.pt .g2 a, .num .fr (k : Int)] = .ok .g2 := rfl
  have hk : ¬ ((k : Int) < 0) := by omega
  simp only [Impl.mul, hd]
  simp [expectedSrc, withPoint, fromPoint2, ta, Val.asInt, hk]

/-! ### pairing -/

/-- the byte pairs are encodings of the point pairs -/
def Encodes (E : Env) : List (E.K1.G × E.K2.G) → List (Bytes × Bytes) → Prop
  | [], [] => True
  | p :: ps, b :: bs =>
    (fromPoint E.K1 L1 p.1 = some b.1 ∧ fromPoint E.K2 L2 p.2 = some b.2) ∧ Encodes E ps bs
  | _, _ => False

theorem pairing_fold (h1 : CurveLaws E.K1 2) (h2 : CurveLaws E.K2 4) (ps : List (E.K1.G × E.K2.G))
    (bs : List (Bytes × Bytes)) (h : Encodes E ps bs) (acc : E.T.GT) :
    bs.foldl (fun prod p => E.T.mul prod (E.pairing (toPoint E.K2 L2 p.2) (toPoint E.K1 L1 p.1))) acc
      = ps.foldl (fun prod p => E.T.mul prod (E.pairing p.2 p.1)) acc := by
  induction ps generalizing bs acc with
  | nil =>
    cases bs with
    | nil => rfl
    | cons b bs => exact absurd h (by simp [Encodes])
  | cons p ps ih =>
    cases bs with
    | nil => exact absurd h (by simp [Encodes])
    | cons b bs =>
      obtain ⟨⟨e1, e2⟩, hr⟩ := h
      simp only [List.foldl_cons]
      rw [toPoint_of_fromPoint E.K1 2 h1 L1 L1_good _ _ e1, toPoint_of_fromPoint E.K2 4 h2 L2 L2_good _ _ e2]
      exact ih bs hr _

theorem impl_pairing (h1 : CurveLaws E.K1 2) (h2 : CurveLaws E.K2 4) (ps : List (E.K1.G × E.K2.G))
    (bs : List (Bytes × Bytes)) (h : Encodes E ps bs) :
    Impl.pairingCheck expectedSrc E bs
      = .bool (E.T.isOne (ps.foldl (fun prod p => E.T.mul prod (E.pairing p.2 p.1)) E.T.one)) := by
  have := pairing_fold E h1 h2 ps bs h E.T.one
  simp only [Impl.pairingCheck, expectedSrc]
  rw [this]

/-! ### Fr -/

theorem impl_frOfInt (z : Int) : Impl.frOfInt expectedSrc z = .ok (.num .fr (z % (r : Int))) := by
  simp [Impl.frOfInt, fromValue, expectedSrc]

theorem impl_add_fr (a b : Int) :
    Impl.add expectedSrc E (.num .fr a) (.num .fr b) = .ok (.num .fr ((a + b) % (r : Int))) := by
  have hd : dispatch expectedSrc.addRows [.num .fr a, .num .fr b] = .ok .fr := rfl
  simp only [Impl.add, hd]
  simp [expectedSrc, fromValue, Val.asInt]

theorem impl_mul_fr (a b : Int) :
    Impl.mul expectedSrc E (.num .fr a) (.num .fr b) = .ok (.num .fr ((a * b) % (r : Int))) := by
  have hd : dispatch expectedSrc.mulRows [.num .fr a, .num .fr b] = .ok .fr := rfl
  simp only [Impl.mul, hd]
  simp [expectedSrc, fromValue, Val.asInt]

theorem impl_mul_fr_int (a z : Int) :
    Impl.mul expectedSrc E (.num .fr a) (.num .int z) = .ok (.num .fr ((a * z) % (r : Int))) := by
  have hd : dispatch expectedSrc.mulRows [.num .fr a, .num .int z] = .ok .fr := rfl
  simp only [Impl.mul, hd]
  simp [expectedSrc, fromValue, Val.asInt]

theorem impl_mul_int_fr (a z : Int) :
    Impl.mul expectedSrc E (.num .int z) (.num .fr a) = .ok (.num .fr ((z * a) % (r : Int))) := by
  have hd : dispatch expectedSrc.mulRows [.num .int z, .num .fr a] = .ok .fr := rfl
  simp only [Impl.mul, hd]
  simp [expectedSrc, fromValue, Val.asInt]

theorem impl_mul_fr_nat (a z : Int) :
    Impl.mul expectedSrc E (.num .fr a) (.num .nat z) = .ok (.num .fr ((a * z) % (r : Int))) := by
  have hd : dispatch expectedSrc.mulRows [.num .fr a, .num .nat z] = .ok .fr := rfl
  simp only [Impl.mul, hd]
  simp [expectedSrc, fromValue, Val.asInt]

theorem impl_mul_nat_fr (a z : Int) :
    Impl.mul expectedSrc E (.num .nat z) (.num .fr a) = .ok (.num .fr ((z * a) % (r : Int))) := by
  have hd : dispatch expectedSrc.mulRows [.num .nat z, .num .fr a] = .ok .fr := rfl
  simp only [Impl.mul, hd]
  simp [expectedSrc, fromValue, Val.asInt]

theorem impl_neg_fr (a : Int) :
    Impl.neg expectedSrc E (.num .fr a) = .ok (.num .fr ((-a) % (r : Int))) := by
  have hd : dispatch expectedSrc.negRows [.num .fr a] = .ok .fr := rfl
  simp only [Impl.neg, hd]
  simp [expectedSrc, fromValue, Val.asInt]

/-- ill-typed combinations are rejected by the dispatch tables -/
theorem impl_add_g1_g2 (a b : Bytes) : Impl.add expectedSrc E (.pt .g1 a) (.pt .g2 b) = .error .types := by
  have hd : dispatch expectedSrc.addRows [.pt .g1 a, .pt .g2 b] = .error .types := rfl
  simp only [Impl.add, hd]
  rfl

theorem impl_mul_fr_g1 (k : Int) (b : Bytes) : Impl.mul expectedSrc E (.num .fr k) (.pt .g1 b) = .error .types := by
  have hd : dispatch expectedSrc.mulRows [.num .fr k, .pt .g1 b] = .error .types := rfl
  simp only [Impl.mul, hd]
  rfl

/-! little-endian literals -/

theorem natToLE_some (n v : Nat) (h : v < 256 ^ n) : ∃ bs, natToLE n v = some bs := by
  induction n generalizing v with
  | zero => exact ⟨[], by simp [natToLE]; omega⟩
  | succ n ih =>
    have : v / 256 < 256 ^ n := by
      rw [Nat.pow_succ] at h
      exact Nat.div_lt_of_lt_mul (by omega)
    obtain ⟨bs, hbs⟩ := ih _ this
    exact ⟨v % 256 :: bs, by simp [natToLE, hbs]⟩

theorem natToLE_spec (n v : Nat) (bs : Bytes) (h : natToLE n v = some bs) :
    bs.length = n ∧ leToNat bs = v ∧ Bytes.WF bs := by
  induction n generalizing v bs with
  | zero =>
    simp only [natToLE] at h
    split at h
    · simp only [Option.some.injEq] at h; subst h; subst_vars; simp [leToNat, Bytes.WF]
    · simp at h
  | succ n ih =>
    simp only [natToLE] at h
    cases hr : natToLE n (v / 256) with
    | none => simp [hr] at h
    | some p =>
      simp only [hr, Option.map_some, Option.some.injEq] at h
      subst h
      obtain ⟨h1, h2, h3⟩ := ih _ _ hr
      refine ⟨by simp [h1], ?_, ?_⟩
      · simp only [leToNat, h2]; omega
      · intro b hb
        simp only [List.mem_cons] at hb
        rcases hb with hb | hb
        · omega
        · exact h3 b hb

/-- an Fr value is written as 32 little-endian bytes that `bytes_to_int` reads back -/
theorem impl_frToBytes (v : Nat) (hv : v < r) :
    ∃ bs, Impl.frToBytes expectedSrc (.num .fr (v : Int)) = .ok bs ∧ bs.length = 32 ∧ leToNat bs = v := by
  obtain ⟨bs, hbs⟩ := natToLE_some 32 v (Nat.lt_trans hv r_lt_pow)
  obtain ⟨h1, h2, _⟩ := natToLE_spec 32 v bs hbs
  refine ⟨bs, ?_, h1, h2⟩
  have : (0 : Int) ≤ (v : Int) := by omega
  simp [Impl.frToBytes, expectedSrc, this, hbs, ofOpt]

theorem impl_frOfBytes (bs : Bytes) (h : bs.length ≤ 32) :
    Impl.frOfBytes expectedSrc bs = .ok (.num .fr ((leToNat bs : Int) % (r : Int))) := by
  simp [Impl.frOfBytes, expectedSrc, h, fromValue]

theorem impl_frOfBytes_long (bs : Bytes) (h : 32 < bs.length) : Impl.frOfBytes expectedSrc bs = .error .value := by
  have : ¬ bs.length ≤ 32 := by omega
  simp [Impl.frOfBytes, expectedSrc, this]

end Bls
