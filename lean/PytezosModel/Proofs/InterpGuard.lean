import PytezosModel.Proofs.InterpRefine
/-! The guard of `Spec.eval` only removes behaviours: as long as the guarded reference semantics does not answer
`offguard`, the unguarded one (the plain Michelson reference) computes exactly the same outcome — stack, FAILWITH value,
runtime failure, out of fuel, or stuck. -/
namespace Interp

theorem listOf_guard (body : Instr) (t : Ty) (st ys : List Val)
    (h : Spec.listOf true body t st ys ≠ .offguard) : Spec.listOf false body t st ys = Spec.listOf true body t st ys := by
  cases ys with
  | nil =>
    simp only [Spec.listOf] at h ⊢
    cases hm : Spec.mapOutTy body t st with
    | none => rfl
    | some t' =>
      simp only [hm] at h ⊢
      by_cases ht : t' = t
      · subst ht; simp
      · simp [ht] at h
  | cons y rest => simp [Spec.listOf]

theorem mapOf_guard (body : Instr) (k v : Ty) (st ys : List Val)
    (h : Spec.mapOf true body k v st ys ≠ .offguard) : Spec.mapOf false body k v st ys = Spec.mapOf true body k v st ys := by
  cases ys with
  | nil =>
    simp only [Spec.mapOf] at h ⊢
    cases hm : Spec.mapOutTy body (.pair k v) st with
    | none => rfl
    | some t' =>
      simp only [hm] at h ⊢
      by_cases ht : t' = v
      · subst ht; simp
      · simp [ht] at h
  | cons y rest => cases y <;> simp [Spec.mapOf]

def GEval (env : Env) (f : Nat) : Prop :=
  ∀ i st, Spec.eval true env f i st ≠ .offguard → Spec.eval false env f i st = Spec.eval true env f i st
def GSeq (env : Env) (f : Nat) : Prop :=
  ∀ is st, Spec.evalSeq true env f is st ≠ .offguard → Spec.evalSeq false env f is st = Spec.evalSeq true env f is st
def GIter (env : Env) (f : Nat) : Prop :=
  ∀ b xs st, Spec.evalIter true env f b xs st ≠ .offguard → Spec.evalIter false env f b xs st = Spec.evalIter true env f b xs st
def GMap (env : Env) (f : Nat) : Prop :=
  ∀ b m xs st, Spec.evalMap true env f b m xs st ≠ .offguard → Spec.evalMap false env f b m xs st = Spec.evalMap true env f b m xs st

theorem bind_ne_offguard' {α β : Type} {r : Res α} {k : α → Res β} (h : r.bind k ≠ .offguard) : r ≠ .offguard := by
  intro e; subst e; exact h rfl

/-- rewrite a guarded sub-evaluation followed by a continuation -/
theorem bind_congr_guard {α β : Type} (a b : Res α) (k : α → Res β) (hab : b ≠ .offguard → a = b) (h : b.bind k ≠ .offguard) :
    a.bind k = b.bind k := by
  rw [hab (bind_ne_offguard' h)]

theorem gseq_succ (env : Env) (f : Nat) (hE : GEval env f) (hS : GSeq env f) : GSeq env (f + 1) := by
  intro is st hr
  cases is with
  | nil => simp [Spec.evalSeq]
  | cons i is =>
    simp only [Spec.evalSeq] at hr ⊢
    have h1 := bind_ne_offguard' hr
    rw [hE i st h1]
    cases hq : Spec.eval true env f i st with
    | offguard => exact absurd hq h1
    | failed _ => rfl
    | rtfail => rfl
    | oof => rfl
    | stuck => rfl
    | ok st' => simp only [hq, rbind_ok] at hr ⊢; exact hS is st' hr

theorem giter_succ (env : Env) (f : Nat) (hE : GEval env f) (hI : GIter env f) : GIter env (f + 1) := by
  intro b xs st hr
  cases xs with
  | nil => simp [Spec.evalIter]
  | cons x xs =>
    simp only [Spec.evalIter] at hr ⊢
    have h1 := bind_ne_offguard' hr
    rw [hE b (x :: st) h1]
    cases hq : Spec.eval true env f b (x :: st) with
    | offguard => exact absurd hq h1
    | failed _ => rfl
    | rtfail => rfl
    | oof => rfl
    | stuck => rfl
    | ok st' => simp only [hq, rbind_ok] at hr ⊢; exact hI b xs st' hr

theorem gmap_succ (env : Env) (f : Nat) (hE : GEval env f) (hM : GMap env f) : GMap env (f + 1) := by
  intro b m xs st hr
  cases xs with
  | nil => simp [Spec.evalMap]
  | cons x xs =>
    simp only [Spec.evalMap] at hr ⊢
    have h1 := bind_ne_offguard' hr
    rw [hE b (x :: st) h1]
    cases hq : Spec.eval true env f b (x :: st) with
    | offguard => exact absurd hq h1
    | failed _ => rfl
    | rtfail => rfl
    | oof => rfl
    | stuck => rfl
    | ok r =>
      simp only [hq, rbind_ok] at hr ⊢
      cases r with
      | nil => rfl
      | cons y st' =>
        simp only at hr ⊢
        cases m with
        | false =>
          simp only [rbind_ok] at hr ⊢
          have h3 := bind_ne_offguard' hr
          rw [hM b false xs st' h3]
        | true =>
          cases x <;> first | rfl | skip
          simp only [rbind_ok] at hr ⊢
          have h3 := bind_ne_offguard' hr
          rw [hM b true xs st' h3]

/-- tactic: both sides are the same reference rule applied to guarded / unguarded sub-evaluations -/
syntax "guard_step" : tactic
set_option hygiene false in
macro_rules
  | `(tactic| guard_step) => `(tactic| (
      simp only [Spec.eval] at hr ⊢
      first
        | exact hE _ _ hr
        | (have h1 := bind_ne_offguard' hr
           rw [hE _ _ h1]
           done)
        | (have h1 := bind_ne_offguard' hr
           rw [hE _ _ h1]
           cases hq : Spec.eval true env f _ _ with
           | offguard => exact absurd hq h1
           | failed _ => rfl
           | rtfail => rfl
           | oof => rfl
           | stuck => rfl
           | ok st' => (simp only [hq, rbind_ok] at hr ⊢; first | rfl | exact hE _ _ hr))))

theorem geval_succ (env : Env) (f : Nat) (hE : GEval env f) (hS : GSeq env f) (hI : GIter env f) (hM : GMap env f) :
    GEval env (f + 1) := by
  intro i st hr
  by_cases hc : isControl i = false
  · rw [spec_eval_simple true env f i hc st, spec_eval_simple false env f i hc st]
  cases i <;> first | (exact absurd rfl hc) | skip
  case seq is => simp only [Spec.eval] at hr ⊢; exact hS is st hr
  case DIP body =>
    rcases st with _ | ⟨x, st⟩
    · simp [Spec.eval]
    · guard_step
  case DIPN n body =>
    simp only [Spec.eval] at hr ⊢
    by_cases hn : n ≤ st.length
    · simp only [hn, if_true] at hr ⊢
      have h1 := bind_ne_offguard' hr
      rw [hE _ _ h1]
    · simp [hn]
  case IF a b =>
    rcases st with _ | ⟨c, st⟩
    · simp [Spec.eval]
    · cases c <;> first | (simp [Spec.eval]; done) | guard_step
  case IF_NONE a b =>
    rcases st with _ | ⟨c, st⟩
    · simp [Spec.eval]
    · cases c <;> first | (simp [Spec.eval]; done) | guard_step
  case IF_LEFT a b =>
    rcases st with _ | ⟨c, st⟩
    · simp [Spec.eval]
    · cases c <;> first | (simp [Spec.eval]; done) | guard_step
  case IF_CONS a b =>
    rcases st with _ | ⟨c, st⟩
    · simp [Spec.eval]
    · cases c <;> first | (simp [Spec.eval]; done) | skip
      rename_i t xs
      cases xs <;> guard_step
  case LOOP body =>
    rcases st with _ | ⟨c, st⟩
    · simp [Spec.eval]
    · cases c <;> first | (simp [Spec.eval]; done) | skip
      rename_i b
      cases b
      · simp [Spec.eval]
      · guard_step
  case LOOP_LEFT body =>
    rcases st with _ | ⟨c, st⟩
    · simp [Spec.eval]
    · cases c <;> first | (simp [Spec.eval]; done) | guard_step
  case ITER body =>
    rcases st with _ | ⟨c, st⟩
    · simp [Spec.eval]
    · cases c <;> first | (simp [Spec.eval]; done) | skip
      all_goals (simp only [Spec.eval] at hr ⊢; exact hI _ _ _ hr)
  case MAP body =>
    rcases st with _ | ⟨c, st⟩
    · simp [Spec.eval]
    · cases c <;> first | (simp [Spec.eval]; done) | skip
      · rename_i t xs
        simp only [Spec.eval] at hr ⊢
        have h1 := bind_ne_offguard' hr
        rw [hM _ _ _ _ h1]
        cases hq : Spec.evalMap true env f body false xs st with
        | offguard => exact absurd hq h1
        | failed _ => rfl
        | rtfail => rfl
        | oof => rfl
        | stuck => rfl
        | ok p =>
          obtain ⟨ys, st'⟩ := p
          simp only [hq, rbind_ok] at hr ⊢
          have h2 := bind_ne_offguard' hr
          rw [listOf_guard body t st ys h2]
      · rename_i k v xs
        simp only [Spec.eval] at hr ⊢
        have h1 := bind_ne_offguard' hr
        rw [hM _ _ _ _ h1]
        cases hq : Spec.evalMap true env f body true xs st with
        | offguard => exact absurd hq h1
        | failed _ => rfl
        | rtfail => rfl
        | oof => rfl
        | stuck => rfl
        | ok p =>
          obtain ⟨ys, st'⟩ := p
          simp only [hq, rbind_ok] at hr ⊢
          have h2 := bind_ne_offguard' hr
          rw [mapOf_guard body k v st ys h2]
  case EXEC =>
    rcases st with _ | ⟨a, _ | ⟨l, st⟩⟩
    · simp [Spec.eval]
    · simp [Spec.eval]
    · cases l <;> first | (simp [Spec.eval]; done) | skip
      rename_i ta tb body
      simp only [Spec.eval] at hr ⊢
      by_cases ht : typeOf a = ta
      · simp only [ht, if_true] at hr ⊢
        have h1 := bind_ne_offguard' hr
        rw [hE _ _ h1]
      · simp [ht]

theorem all_guard (env : Env) : ∀ f, GEval env f ∧ GSeq env f ∧ GIter env f ∧ GMap env f
  | 0 => by
    refine ⟨?_, ?_, ?_, ?_⟩
    · intro i st hr; simp [Spec.eval]
    · intro is st hr; cases is <;> simp [Spec.evalSeq]
    · intro b xs st hr; cases xs <;> simp [Spec.evalIter]
    · intro b m xs st hr; cases xs <;> simp [Spec.evalMap]
  | f + 1 =>
    have ⟨hE, hS, hI, hM⟩ := all_guard env f
    ⟨geval_succ env f hE hS hI hM, gseq_succ env f hE hS, giter_succ env f hE hI, gmap_succ env f hE hM⟩

/-- the guard only removes behaviours -/
theorem eval_guard (env : Env) (fuel : Nat) (i : Instr) (st : List Val) (h : Spec.eval true env fuel i st ≠ .offguard) :
    Spec.eval false env fuel i st = Spec.eval true env fuel i st :=
  (all_guard env fuel).1 i st h

end Interp
