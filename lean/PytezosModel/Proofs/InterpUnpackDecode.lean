import PytezosModel.Proofs.MichelineStrict
/-! The converse of property C05's `unforge_refines_spec`: whatever the length-delimited strict decoder
`Spec.Micheline.decode` accepts, the mirror of `unforge_micheline` (with the strict integer reader) accepts with the same
result — so the two decoders are the same function (`unforge_eq_decode`).  UNPACK's refinement needs the equality: on an
input the reference decodes, the machine must answer `Some`, not only conversely. -/
namespace Impl.Forge
open Core BMich Spec.Micheline

def DNodeOK (known : Nat → Bool) (f : Nat) : Prop :=
  ∀ d e r, decodeNode known f d = some (e, r) →
    ∃ c, d = c ++ r ∧ 0 < c.length ∧ ∀ tail, unforgeNode known true f (c ++ tail) = some (e, tail)

def DAllOK (known : Nat → Bool) (f : Nat) : Prop :=
  ∀ body xs, decodeAll known f body = some xs →
    ∀ tail, seqLoop known true f body.length (body ++ tail) = some (xs, tail)

theorem dall_zero (known : Nat → Bool) : DAllOK known 0 := by
  intro body xs h tail
  unfold decodeAll at h
  by_cases h0 : body.length = 0
  · simp only [h0, if_true, Option.some.injEq] at h
    subst h
    have : body = [] := List.length_eq_zero_iff.mp h0
    subst this
    unfold seqLoop; simp
  · simp [h0] at h

theorem dall_succ (known : Nat → Bool) (f : Nat) (hn : DNodeOK known f) (hl : DAllOK known f) : DAllOK known (f + 1) := by
  intro body xs h tail
  unfold decodeAll at h
  by_cases h0 : body.length = 0
  · simp only [h0, if_true, Option.some.injEq] at h
    subst h
    have : body = [] := List.length_eq_zero_iff.mp h0
    subst this
    unfold seqLoop; simp
  · simp only [h0, if_false] at h
    cases hx : decodeNode known f body with
    | none => simp [hx] at h
    | some p =>
      obtain ⟨x, rest⟩ := p
      simp only [hx, Option.map_eq_some_iff] at h
      obtain ⟨xs', hrec, rfl⟩ := h
      obtain ⟨c, rfl, hc, hloc⟩ := hn body x rest hx
      have h1 := hloc (rest ++ tail)
      have h2 := hl rest xs' hrec tail
      unfold seqLoop
      have hlen : ¬ ((c ++ rest).length = 0) := h0
      simp only [hlen, if_false, List.append_assoc, h1]
      have hu : ¬ ((c ++ (rest ++ tail)).length - (rest ++ tail).length > (c ++ rest).length) := by
        simp only [List.length_append]; omega
      have hr : (c ++ rest).length - ((c ++ (rest ++ tail)).length - (rest ++ tail).length) = rest.length := by
        simp only [List.length_append]; omega
      simp only [hu, if_false, hr, h2, Option.map_some]

/-- the sequence reader of the mirror on a length-delimited body -/
theorem dseq_ok (known : Nat → Bool) (f : Nat) (hl : DAllOK known f) (d body rest : Bytes) (xs : List BMich)
    (ha : unforgeArray 4 d = some (body, rest)) (hdec : decodeAll known f body = some xs) :
    ∃ c, d = c ++ rest ∧ 0 < c.length ∧ ∀ tail, unforgeSeq known true f (c ++ tail) = some (xs, tail) := by
  obtain ⟨c, hc, hcc, hloc⟩ := unforgeArray_local' 4 d body rest ha
  obtain ⟨_, hk, _⟩ := unforgeArray_split 4 d body rest ha
  have hl4 : (d.take 4).length = 4 := by rw [List.length_take]; omega
  refine ⟨c, hc, by rw [hcc]; simp only [List.length_append]; omega, fun tail => ?_⟩
  unfold unforgeSeq
  rw [hloc tail]
  simp only
  have : (c ++ tail).drop 4 = body ++ tail := by
    rw [hcc, List.append_assoc, List.drop_append, hl4]
    simp
  rw [this]
  exact hl body xs hdec tail

theorem dnode_succ (known : Nat → Bool) (f : Nat) (hn : DNodeOK known f) (hl : DAllOK known f) : DNodeOK known (f + 1) := by
  intro d e r h
  cases d with
  | nil => simp [decodeNode] at h
  | cons tag d1 =>
    simp only [decodeNode] at h
    split at h
    · -- 0: integer
      simp only [Option.map_eq_some_iff] at h
      obtain ⟨⟨v, r'⟩, hi, heq⟩ := h
      simp only [Prod.mk.injEq] at heq
      obtain ⟨rfl, rfl⟩ := heq
      obtain ⟨c, rfl, _, hloc⟩ := unforgeInt_local true d1 v r' hi
      exact ⟨0 :: c, rfl, by simp, fun tail => by simp [unforgeNode, hloc tail]⟩
    · -- 1: string
      simp only [Option.map_eq_some_iff] at h
      obtain ⟨⟨v, r'⟩, hi, heq⟩ := h
      simp only [Prod.mk.injEq] at heq
      obtain ⟨rfl, rfl⟩ := heq
      obtain ⟨c, rfl, _, hloc⟩ := unforgeArray_local' 4 d1 v r' hi
      exact ⟨1 :: c, rfl, by simp, fun tail => by simp [unforgeNode, hloc tail]⟩
    · -- 2: sequence
      cases ha : unforgeArray 4 d1 with
      | none => simp [ha] at h
      | some p =>
        obtain ⟨body, rest⟩ := p
        simp only [ha, Option.map_eq_some_iff] at h
        obtain ⟨xs, hdec, heq⟩ := h
        simp only [Prod.mk.injEq] at heq
        obtain ⟨rfl, rfl⟩ := heq
        obtain ⟨c, rfl, _, hloc⟩ := dseq_ok known f hl d1 body rest xs ha hdec
        exact ⟨2 :: c, rfl, by simp, fun tail => by simp [unforgeNode, hloc tail]⟩
    · -- 3: no argument
      cases d1 with
      | nil => simp at h
      | cons pt d2 =>
        by_cases hk : known pt = true
        · simp [hk] at h
          obtain ⟨rfl, rfl⟩ := h
          exact ⟨[3, pt], rfl, by simp, fun tail => by simp [unforgeNode, hk]⟩
        · simp [hk] at h
    · -- 4: no argument, annotations
      cases d1 with
      | nil => simp at h
      | cons pt d2 =>
        by_cases hk : known pt = true
        · simp [hk] at h
          obtain ⟨v, ha, rfl⟩ := h
          obtain ⟨c, rfl, _, hloc⟩ := unforgeArray_local' 4 d2 v r ha
          exact ⟨4 :: pt :: c, rfl, by simp, fun tail => by simp [unforgeNode, hk, hloc tail]⟩
        · simp [hk] at h
    · -- 5: one argument
      cases d1 with
      | nil => simp at h
      | cons pt d2 =>
        by_cases hk : known pt = true
        · simp [hk] at h
          obtain ⟨a, ha, rfl⟩ := h
          obtain ⟨c, rfl, _, hloc⟩ := hn d2 a r ha
          exact ⟨5 :: pt :: c, rfl, by simp, fun tail => by simp [unforgeNode, hk, hloc tail]⟩
        · simp [hk] at h
    · -- 6: one argument, annotations
      cases d1 with
      | nil => simp at h
      | cons pt d2 =>
        by_cases hk : known pt = true
        · simp only [hk, if_true] at h
          cases hq : decodeNode known f d2 with
          | none => simp [hq] at h
          | some p =>
            obtain ⟨a, r1⟩ := p
            simp [hq] at h
            obtain ⟨v, hv, rfl⟩ := h
            obtain ⟨c, rfl, _, hloc⟩ := hn d2 a r1 hq
            obtain ⟨c', rfl, _, hloc'⟩ := unforgeArray_local' 4 r1 v r hv
            refine ⟨6 :: pt :: (c ++ c'), by simp, by simp, fun tail => ?_⟩
            have := hloc (c' ++ tail)
            simp [unforgeNode, hk, this, hloc' tail]
        · simp [hk] at h
    · -- 7: two arguments
      cases d1 with
      | nil => simp at h
      | cons pt d2 =>
        by_cases hk : known pt = true
        · simp only [hk, if_true] at h
          cases hq : decodeNode known f d2 with
          | none => simp [hq] at h
          | some p =>
            obtain ⟨a, r1⟩ := p
            simp [hq] at h
            obtain ⟨b, hb, rfl⟩ := h
            obtain ⟨c, rfl, _, hloc⟩ := hn d2 a r1 hq
            obtain ⟨c', rfl, _, hloc'⟩ := hn r1 b r hb
            refine ⟨7 :: pt :: (c ++ c'), by simp, by simp, fun tail => ?_⟩
            have := hloc (c' ++ tail)
            simp [unforgeNode, hk, this, hloc' tail]
        · simp [hk] at h
    · -- 8: two arguments, annotations
      cases d1 with
      | nil => simp at h
      | cons pt d2 =>
        by_cases hk : known pt = true
        · simp only [hk, if_true] at h
          cases hq : decodeNode known f d2 with
          | none => simp [hq] at h
          | some p =>
            obtain ⟨a, r1⟩ := p
            simp only [hq] at h
            cases hq2 : decodeNode known f r1 with
            | none => simp [hq2] at h
            | some p2 =>
              obtain ⟨b, r2⟩ := p2
              simp [hq2] at h
              obtain ⟨v, hv, rfl⟩ := h
              obtain ⟨c, rfl, _, hloc⟩ := hn d2 a r1 hq
              obtain ⟨c', rfl, _, hloc'⟩ := hn r1 b r2 hq2
              obtain ⟨c'', rfl, _, hloc''⟩ := unforgeArray_local' 4 r2 v r hv
              refine ⟨8 :: pt :: (c ++ (c' ++ c'')), by simp, by simp, fun tail => ?_⟩
              have h1 := hloc (c' ++ (c'' ++ tail))
              have h2 := hloc' (c'' ++ tail)
              simp [unforgeNode, hk, h1, h2, hloc'' tail]
        · simp [hk] at h
    · -- 9: generic application
      cases d1 with
      | nil => simp at h
      | cons pt d2 =>
        by_cases hk : known pt = true
        · simp only [hk, if_true] at h
          cases ha : unforgeArray 4 d2 with
          | none => simp [ha] at h
          | some p =>
            obtain ⟨body, rest⟩ := p
            simp only [ha] at h
            cases hdec : decodeAll known f body with
            | none => simp [hdec] at h
            | some args =>
              simp [hdec] at h
              obtain ⟨v, hv, rfl⟩ := h
              obtain ⟨c, rfl, _, hloc⟩ := dseq_ok known f hl d2 body rest args ha hdec
              obtain ⟨c'', rfl, _, hloc''⟩ := unforgeArray_local' 4 rest v r hv
              refine ⟨9 :: pt :: (c ++ c''), by simp, by simp, fun tail => ?_⟩
              have h1 := hloc (c'' ++ tail)
              simp [unforgeNode, hk, h1, hloc'' tail]
        · simp [hk] at h
    · -- 10: bytes
      simp only [Option.map_eq_some_iff] at h
      obtain ⟨⟨v, r'⟩, hi, heq⟩ := h
      simp only [Prod.mk.injEq] at heq
      obtain ⟨rfl, rfl⟩ := heq
      obtain ⟨c, rfl, _, hloc⟩ := unforgeArray_local' 4 d1 v r' hi
      exact ⟨10 :: c, rfl, by simp, fun tail => by simp [unforgeNode, hloc tail]⟩
    · simp at h

theorem dnode_dall_ok (known : Nat → Bool) : ∀ f, DNodeOK known f ∧ DAllOK known f
  | 0 => ⟨fun d e r h => by simp [decodeNode] at h, dall_zero known⟩
  | f + 1 =>
    have ⟨hn, hl⟩ := dnode_dall_ok known f
    ⟨dnode_succ known f hn hl, dall_succ known f hn hl⟩

/-- anything the length-delimited strict decoder accepts, the mirror of `unforge_micheline` accepts with the same result -/
theorem decode_refines_unforge (known : Nat → Bool) (bs : Bytes) (e : BMich)
    (h : Spec.Micheline.decode known bs = some e) : unforge known true bs = some e := by
  unfold Spec.Micheline.decode at h
  split at h
  · rename_i e' heq
    simp only [Option.some.injEq] at h
    subst h
    obtain ⟨c, hc, _, hloc⟩ := (dnode_dall_ok known _).1 bs e' [] heq
    have := hloc []
    simp only [List.append_nil] at hc this
    subst hc
    simp [unforge, this]
  · simp at h

/-- **the two decoders are one function**: the mirror of `unforge_micheline` (strict integer reader) and the length-delimited
reference decoder agree on every byte string (C05's `unforge_refines_spec` and its converse) -/
theorem unforge_eq_decode (known : Nat → Bool) (bs : Bytes) : unforge known true bs = Spec.Micheline.decode known bs := by
  cases hu : unforge known true bs with
  | some e => exact (unforge_refines_spec known bs e hu).symm
  | none =>
    cases hd : Spec.Micheline.decode known bs with
    | none => rfl
    | some e => rw [decode_refines_unforge known bs e hd] at hu; cases hu

end Impl.Forge
