import PytezosModel.Proofs.Encoding
import PytezosModel.Crypto.RealHash
/-! From a 32-byte digest to the Base58Check text pytezos returns for it (`Lo…`, `LLo…`, `vh…`, `expr…`): what the
`…_concrete` corollaries of C31 / C33 / C15 need from the C09 mirror, stated per ROW of the regenerated table, so that
they depend only on the row concerned (its own numeral-range fact and its disjointness from every other row), not on
the pairwise facts about the whole table that C09 proves. -/
namespace HashText
open Base58 Impl.Encoding

/-- what is assumed about a hash function: 32 bytes (BLAKE2b-256) -/
structure HashOk (H : List Nat → List Nat) : Prop where
  len : ∀ x, (H x).length = 32
  bytes : ∀ x, IsBytes (H x)

theorem blake_ok : HashOk RealHash.blake := ⟨RealHash.blake_length, RealHash.blake_bytes⟩

theorem cks_ok : CksOk RealHash.cks := ⟨RealHash.cks_length, RealHash.cks_bytes⟩

/-- `base58_encode` / `base58_decode` were recognised by the C09 translator and `base58_decode` validates the row -/
def sourceOk : Bool :=
  Generated.C09.tableRecognised && Generated.C09.encodeRecognised && Generated.C09.decodeRecognised &&
    Generated.C09.decodeChecksBinPrefix && Generated.C09.decodeChecksPayloadLen

/-- closed facts about one row of the regenerated table: it is in the table, its numeral-range obligation holds, it is
the row `base58_encode` selects for (its payload length, its human prefix), and no other row accepts a string of its
length that starts with its human prefix -/
def rowFacts (r : Row) : Bool :=
  sourceOk && decide (r ∈ table) && rowOk r && (findEncodeRow table r.dataLen r.human == some r) &&
    table.all (rowsDisjoint r)

/-- `findDecodeRow_unique` with the disjointness of the one row only -/
theorem findDecodeRow_row (tbl : List Row) (r : Row) (hr : r ∈ tbl) (hdis : ∀ b ∈ tbl, rowsDisjoint r b = true)
    (s : List Nat) (hl : s.length = r.encLen) (hp : r.human <+: s) : findDecodeRow tbl s = some r := by
  cases hf : findDecodeRow tbl s with
  | none =>
    unfold findDecodeRow at hf
    have := List.find?_eq_none.mp hf r hr
    simp [hl, List.isPrefixOf_iff_prefix, hp] at this
  | some r' =>
    obtain ⟨hr', hl', hp'⟩ := findDecodeRow_some tbl s r' hf
    have hd := hdis r' hr'
    unfold rowsDisjoint at hd
    have hcmp := prefix_comparable hp hp'
    have hlen : r.encLen = r'.encLen := by omega
    simp only [Bool.or_eq_true, Bool.not_eq_true', Bool.and_eq_false_iff, beq_eq_false_iff_ne,
      Bool.or_eq_false_iff, beq_iff_eq] at hd
    rcases hd with (hne | ⟨h1, h2⟩) | heq
    · exact absurd hlen hne
    · rcases hcmp with h | h
      · have := List.isPrefixOf_iff_prefix.mpr h; rw [h1] at this; exact absurd this (by simp)
      · have := List.isPrefixOf_iff_prefix.mpr h; rw [h2] at this; exact absurd this (by simp)
    · rw [heq]

/-- the text of a payload of row `r`: `base58_encode` succeeds, the text has the row's length and human prefix, and
`base58_decode` gives the payload back — for every checksum function returning four bytes -/
theorem text_of_payload (cks : List Nat → List Nat) (hck : CksOk cks) (r : Row) (hf : rowFacts r = true)
    (v : List Nat) (hl : v.length = r.dataLen) (hv : IsBytes v) :
    ∃ s, base58Encode cks v r.human = .ok s ∧ s.length = r.encLen ∧ r.human <+: s ∧ base58Decode cks s = .ok v := by
  simp only [rowFacts, sourceOk, Bool.and_eq_true, decide_eq_true_eq, beq_iff_eq, List.all_eq_true] at hf
  obtain ⟨⟨⟨⟨⟨⟨⟨⟨h1, h2⟩, h3⟩, h4⟩, h5⟩, hmem⟩, hrow⟩, hfe⟩, hdis⟩ := hf
  obtain ⟨e1, e2, e3⟩ := encOf_shape cks hck r hrow v hl hv
  refine ⟨encOf cks r v, ?_, e1, e2, ?_⟩
  · simp only [base58Encode, h1, h2, Bool.and_self, if_true, encodeWith, hl, hfe]; rfl
  · simp only [base58Decode, h1, h3, h4, h5, Bool.and_self, if_true]
    have hbin := rowOk_bin_bytes r hrow
    unfold decodeWith
    rw [findDecodeRow_row table r hmem hdis _ e1 e2]
    simp only
    have hdec : b58decCheck cks (encOf cks r v) = .ok (r.bin ++ v) := by
      unfold encOf at e3 ⊢
      exact b58decCheck_enc cks hck (r.bin ++ v) (hbin.append hv) e3
    rw [hdec]
    simp [hl]

end HashText
