import PytezosModel.Michelson.Bls
/-! C21: the assumed laws are satisfiable.  `toyEnv` is the group of integers modulo `r` (the image of
`k ↦ k·G` in a group of order `r`, written through discrete logarithms) with made-up coordinates `[k, k]` /
`[k, k, k, k]` and the pairing `(b, a) ↦ a·b`; it satisfies `CurveLaws` and `PairingLaws`, so the theorems of
`Props/C21.lean` are not vacuous, and it provides their concrete `example`s. -/
namespace Bls

theorem r_lt_q : r < q := by decide

private theorem r_val : r = 52435875175126190479447740508185965837690552500527637822603658699938581184513 := rfl

def toyZero : Fin r := ⟨0, by decide⟩

def toyOfNat (k : Nat) : Fin r := ⟨k % r, Nat.mod_lt _ (by decide)⟩

def toyOps (ncoord : Nat) : CurveOps where
  G := Fin r
  zero := toyZero
  add a b := toyOfNat (a.val + b.val)
  neg a := toyOfNat (r - a.val)
  mul a k := toyOfNat (a.val * k)
  isInf a := a.val == 0
  normalize a := List.replicate ncoord a.val
  ofAffine cs := match cs with
    | x :: _ => toyOfNat x
    | [] => toyZero

def toyEnv : Env where
  K1 := toyOps 2
  K2 := toyOps 4
  T := { GT := Fin r, one := toyZero, mul := fun a b => toyOfNat (a.val + b.val), isOne := fun a => a.val == 0 }
  pairing := fun (b a : Fin r) => toyOfNat (a.val * b.val)

theorem toy_laws (ncoord : Nat) (hn : 0 < ncoord) : CurveLaws (toyOps ncoord) ncoord where
  add_assoc P Q R := by
    apply Fin.ext
    simp only [toyOps, toyOfNat]
    have := P.isLt; have := Q.isLt; have := R.isLt
    simp only [r_val] at *
    omega
  add_comm P Q := by
    apply Fin.ext
    simp only [toyOps, toyOfNat, Nat.add_comm]
  zero_add P := by
    apply Fin.ext
    simp only [toyOps, toyOfNat, toyZero, Nat.zero_add]
    exact Nat.mod_eq_of_lt P.isLt
  neg_add P := by
    apply Fin.ext
    simp only [toyOps, toyOfNat, toyZero]
    have := P.isLt
    simp only [r_val] at *
    omega
  mul_zero P := by
    apply Fin.ext
    simp [toyOps, toyOfNat, toyZero]
  mul_succ P k := by
    apply Fin.ext
    simp only [toyOps, toyOfNat, Nat.mul_succ]
    rw [Nat.mod_add_mod]
  order P := by
    apply Fin.ext
    simp [toyOps, toyOfNat, toyZero]
  isInf_iff P := by
    constructor
    · intro h
      apply Fin.ext
      simpa [toyOps, toyZero] using h
    · intro h
      subst h
      simp [toyOps, toyZero]
  normalize_ok P _ := by
    refine ⟨by simp [toyOps], ?_⟩
    intro c hc
    have : c = P.val := by
      simp only [toyOps] at hc
      exact List.eq_of_mem_replicate hc
    subst this
    exact Nat.lt_trans P.isLt r_lt_q
  ofAffine_normalize P _ := by
    apply Fin.ext
    cases ncoord with
    | zero => omega
    | succ m =>
      simp only [toyOps, List.replicate_succ, toyOfNat]
      exact Nat.mod_eq_of_lt P.isLt

theorem toy_pairing_laws : PairingLaws toyEnv where
  mul_assoc x y z := by
    apply Fin.ext
    simp only [toyEnv, toyOfNat]
    have := x.isLt; have := y.isLt; have := z.isLt
    simp only [r_val] at *
    omega
  mul_comm x y := by
    apply Fin.ext
    simp only [toyEnv, toyOfNat, Nat.add_comm]
  one_mul x := by
    apply Fin.ext
    simp only [toyEnv, toyOfNat, toyZero, Nat.zero_add]
    exact Nat.mod_eq_of_lt x.isLt
  isOne_iff x := by
    constructor
    · intro h
      apply Fin.ext
      simpa [toyEnv, toyZero] using h
    · intro h
      subst h
      simp [toyEnv, toyZero]
  pair_add_left Q Q' P := by
    apply Fin.ext
    simp only [toyEnv, toyOps, toyOfNat]
    rw [Nat.mul_mod_mod, Nat.mul_add, Nat.add_mod]
  pair_add_right Q P P' := by
    apply Fin.ext
    simp only [toyEnv, toyOps, toyOfNat]
    rw [Nat.mod_mul_mod, Nat.add_mul, Nat.add_mod]
  pair_zero_left P := by
    apply Fin.ext
    simp [toyEnv, toyOps, toyOfNat, toyZero]
  pair_zero_right Q := by
    apply Fin.ext
    simp [toyEnv, toyOps, toyOfNat, toyZero]

theorem toy_laws1 : CurveLaws toyEnv.K1 2 := toy_laws 2 (by decide)
theorem toy_laws2 : CurveLaws toyEnv.K2 4 := toy_laws 4 (by decide)

end Bls
