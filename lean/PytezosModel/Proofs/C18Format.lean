import PytezosModel.Proofs.C18Lex
/-! C18 helper lemmas: the text produced by the formatter — in either layout — lexes to the token stream of the
expression.  The layout decisions (`inline`, the `line_size` tests) only choose between separators made of blanks
and newlines, so one induction covers both layouts. -/
namespace Impl.Text

/-- the text, followed by a delimiter, lexes to the tokens -/
def Lx (sp : LexSpec) (s : List Char) (ts : List Tok) : Prop :=
  ∀ rest, Delim rest → lexWith sp (s ++ rest) = (lexWith sp rest).map (ts ++ ·)

/-- the text lexes to the tokens whatever follows (it ends in punctuation, a quote or white space) -/
def LxS (sp : LexSpec) (s : List Char) (ts : List Tok) : Prop :=
  ∀ rest, lexWith sp (s ++ rest) = (lexWith sp rest).map (ts ++ ·)

/-- the text begins with a delimiter -/
def DS (s : List Char) : Prop := ∃ c cs, s = c :: cs ∧ c ∈ delimChars

theorem DS.delim {s : List Char} (h : DS s) (rest : List Char) : Delim (s ++ rest) := by
  obtain ⟨c, cs, rfl, hc⟩ := h
  exact Delim.cons hc _

theorem DS.append {s : List Char} (h : DS s) (t : List Char) : DS (s ++ t) := by
  obtain ⟨c, cs, rfl, hc⟩ := h
  exact ⟨c, cs ++ t, rfl, hc⟩

theorem map_map_append (o : Option (List Tok)) (a b : List Tok) :
    (o.map (b ++ ·)).map (a ++ ·) = o.map ((a ++ b) ++ ·) := by
  cases o <;> simp [List.append_assoc]

section
variable {sp : LexSpec}

theorem LxS.toLx {s ts} (h : LxS sp s ts) : Lx sp s ts := fun rest _ => h rest

theorem LxS.append {s1 s2 ts1 ts2} (h1 : LxS sp s1 ts1) (h2 : LxS sp s2 ts2) : LxS sp (s1 ++ s2) (ts1 ++ ts2) := by
  intro rest
  rw [List.append_assoc, h1, h2, map_map_append]

theorem LxS.append_lx {s1 s2 ts1 ts2} (h1 : LxS sp s1 ts1) (h2 : Lx sp s2 ts2) : Lx sp (s1 ++ s2) (ts1 ++ ts2) := by
  intro rest hd
  rw [List.append_assoc, h1, h2 rest hd, map_map_append]

theorem Lx.append {s1 s2 ts1 ts2} (h1 : Lx sp s1 ts1) (h2 : Lx sp s2 ts2) (hds : DS s2) :
    Lx sp (s1 ++ s2) (ts1 ++ ts2) := by
  intro rest hd
  rw [List.append_assoc, h1 _ (hds.delim rest), h2 rest hd, map_map_append]

theorem Lx.append_s {s1 s2 ts1 ts2} (h1 : Lx sp s1 ts1) (h2 : LxS sp s2 ts2) (hds : DS s2) :
    LxS sp (s1 ++ s2) (ts1 ++ ts2) := by
  intro rest
  rw [List.append_assoc, h1 _ (hds.delim rest), h2 rest, map_map_append]

/-- nothing, or something that starts with a delimiter -/
def Tl (sp : LexSpec) (tail : List Char) (ts : List Tok) : Prop := (tail = [] ∧ ts = []) ∨ (DS tail ∧ Lx sp tail ts)

theorem Lx.append_tl {s tail ts ts'} (h1 : Lx sp s ts) (h2 : Tl sp tail ts') : Lx sp (s ++ tail) (ts ++ ts') := by
  rcases h2 with ⟨rfl, rfl⟩ | ⟨hds, h2⟩
  · simpa using h1
  · exact h1.append h2 hds

variable (ok : SpecOK sp)
include ok

theorem lxs_space : LxS sp [' '] [] := by
  intro rest
  rw [List.cons_append, List.nil_append, lexWith_space ok]
  cases lexWith sp rest <;> simp

theorem lxs_nl_spaces (n : Nat) : LxS sp ('\n' :: spaces n) [] := by
  intro rest
  rw [List.cons_append, lexWith_nl ok, lexWith_spaces ok]
  cases lexWith sp rest <;> simp

theorem lxs_punct (c : Char) (t : Tok)
    (h : (c, t) ∈ [('{', Tok.lcurly), ('(', Tok.lparen), ('}', Tok.rcurly), (')', Tok.rparen), (';', Tok.semi)]) :
    LxS sp [c] [t] := by
  intro rest
  rw [List.cons_append, List.nil_append, lex_punct ok c t rest h]
  rfl

end

theorem ds_space : DS [' '] := ⟨' ', [], rfl, by decide⟩
theorem ds_nl (n : Nat) : DS ('\n' :: spaces n) := ⟨'\n', _, rfl, by decide⟩

theorem joinSep_cons_ne (sep a : List Char) (l : List (List Char)) (h : l ≠ []) :
    joinSep sep (a :: l) = a ++ sep ++ joinSep sep l := by
  cases l with
  | nil => exact absurd rfl h
  | cons b l => rfl

/-- the `expr` computed by `format_node` for a primitive application (before the parentheses are decided) -/
def primExpr (cfg : FmtCfg) (inline : Bool) (indent : Nat) (p : String) (args : List Mich) (annots : List String) :
    List Char :=
  let expr0 := joinSep [' '] (p.toList :: annots.map String.toList)
  if isComplex cfg p then
    let argIndent := indent + 2
    let items := fmtArgs cfg inline argIndent args
    let length := indent + expr0.length + sumLen items + items.length + 1
    if inline || length < cfg.lineSize then expr0 ++ [' '] ++ joinSep [' '] items
    else joinSep ('\n' :: spaces argIndent) (expr0 :: items)
  else
    match args with
    | [] => expr0
    | [a] => expr0 ++ [' '] ++ fmtNode cfg inline (indent + (expr0.length + 1)) false false a
    | a :: b :: rest =>
      fmtLoop cfg inline indent (isInline cfg p) (indent + (expr0.length + 2)) (indent + 2) expr0 (a :: b :: rest)

theorem fmtNode_prim (cfg : FmtCfg) (inline : Bool) (indent : Nat) (isRoot wrapped : Bool) (p : String)
    (args : List Mich) (annots : List String) :
    fmtNode cfg inline indent isRoot wrapped (.prim p args annots) =
      if isFramed cfg p args annots && !isRoot && !wrapped then ['('] ++ primExpr cfg inline indent p args annots ++ [')']
      else primExpr cfg inline indent p args annots := by
  match args with
  | [] => simp only [fmtNode, primExpr]
  | [a] => simp only [fmtNode, primExpr]
  | a :: b :: rest => simp only [fmtNode, primExpr]

/-- the text `format_node` builds for a sequence out of its formatted items -/
def seqText (cfg : FmtCfg) (inline : Bool) (indent : Nat) (script : Bool) (items : List (List Char)) : List Char :=
  let seqIndent := if script then indent else indent + 2
  if items.isEmpty then ['{', '}']
  else
    let length := indent + sumLen items + 4
    let space : List Char := if script then [] else [' ']
    let seq :=
      if inline || length < cfg.lineSize then joinSep (space ++ [';', ' ']) items
      else joinSep (space ++ [';', '\n'] ++ spaces seqIndent) items
    if script then seq else ['{', ' '] ++ seq ++ [' ', '}']

theorem fmtNode_seq (cfg : FmtCfg) (inline : Bool) (indent : Nat) (isRoot wrapped : Bool) (xs : List Mich) :
    fmtNode cfg inline indent isRoot wrapped (.seq xs) =
      seqText cfg inline indent (isRoot && isScript cfg xs)
        (fmtItems cfg inline (if (isRoot && isScript cfg xs) = true then indent else indent + 2) xs) := by
  simp only [fmtNode, seqText]

section main
variable {sp : LexSpec} (ok : SpecOK sp)
include ok

/-- the head of an application: the name and its annotations, separated by single blanks -/
theorem head_lx (s : List Char) (ts : List Tok) (hs : Lx sp s ts) (annots : List String)
    (ha : annots.all (fun a => annotLexes sp a.toList) = true) :
    Lx sp (joinSep [' '] (s :: annots.map String.toList)) (ts ++ annotToks annots) := by
  induction annots generalizing s ts with
  | nil => simpa [joinSep, annotToks] using hs
  | cons a as ih =>
    simp only [List.all_cons, Bool.and_eq_true] at ha
    have ha1 : Lx sp a.toList [Tok.annot a.toList] := fun rest hd => lex_annot ok a.toList ha.1 rest hd
    have h2 := ih a.toList [Tok.annot a.toList] ha1 ha.2
    have h3 := (lxs_space ok).append_lx h2
    have h4 := hs.append h3 (ds_space.append _)
    simpa [joinSep, annotToks, List.append_assoc] using h4

/-- a sequence, given that its items joined by any `;`-separator lex to `ts` -/
theorem seqText_lx (cfg : FmtCfg) (inline : Bool) (indent : Nat) (script : Bool) (items : List (List Char))
    (ts : List Tok) (hne : items ≠ [])
    (h : ∀ sep, LxS sp sep [Tok.semi] → DS sep → Lx sp (joinSep sep items) ts) :
    Lx sp (seqText cfg inline indent script items) (if script then ts else [Tok.lcurly] ++ ts ++ [Tok.rcurly]) := by
  have hsemi : LxS sp [';'] [Tok.semi] := lxs_punct ok ';' _ (by simp)
  have hie : items.isEmpty = false := by cases items with | nil => exact absurd rfl hne | cons _ _ => rfl
  have hsemisp : LxS sp [';', ' '] [Tok.semi] := by simpa using hsemi.append (lxs_space ok)
  have hseminl : ∀ k, LxS sp ([';', '\n'] ++ spaces k) [Tok.semi] := by
    intro k; simpa using hsemi.append (lxs_nl_spaces ok k)
  have hds1 : DS [';', ' '] := ⟨';', _, rfl, by decide⟩
  have hds2 : ∀ k, DS ([';', '\n'] ++ spaces k) := fun k => ⟨';', _, rfl, by decide⟩
  simp only [seqText, hie, Bool.false_eq_true, if_false]
  cases script with
  | true =>
    simp only [if_true, List.nil_append]
    split
    · exact h _ hsemisp hds1
    · exact h _ (hseminl _) (hds2 _)
  | false =>
    simp only [Bool.false_eq_true, if_false]
    have hopen : LxS sp ['{', ' '] [Tok.lcurly] := by
      simpa using (lxs_punct ok '{' _ (by simp)).append (lxs_space ok)
    have hclose : LxS sp [' ', '}'] [Tok.rcurly] := by
      simpa using (lxs_space ok).append (lxs_punct ok '}' _ (by simp))
    have hdsc : DS [' ', '}'] := ⟨' ', _, rfl, by decide⟩
    have hsp1 : LxS sp ([' '] ++ [';', ' ']) [Tok.semi] := by simpa using (lxs_space ok).append hsemisp
    have hsp2 : ∀ k, LxS sp ([' '] ++ [';', '\n'] ++ spaces k) [Tok.semi] := by
      intro k; simpa using (lxs_space ok).append (hseminl k)
    have hds3 : DS ([' '] ++ [';', ' ']) := ⟨' ', _, rfl, by decide⟩
    have hds4 : ∀ k, DS ([' '] ++ [';', '\n'] ++ spaces k) := fun k => ⟨' ', _, rfl, by decide⟩
    split
    · have := hopen.append_lx (((h _ hsp1 hds3).append_s hclose hdsc).toLx)
      simpa [List.append_assoc] using this
    · have := hopen.append_lx (((h _ (hsp2 (indent + 2)) (hds4 (indent + 2))).append_s hclose hdsc).toLx)
      simpa [List.append_assoc] using this

end main

section main2
variable {sp : LexSpec} (ok : SpecOK sp) (tags : List String) (cfg : FmtCfg) (inline : Bool)
include ok

theorem fmtItems_ne (ind : Nat) (x : Mich) (xs : List Mich) : fmtItems cfg inline ind (x :: xs) ≠ [] := by
  simp [fmtItems]

theorem fmtArgs_ne (ind : Nat) (x : Mich) (xs : List Mich) : fmtArgs cfg inline ind (x :: xs) ≠ [] := by
  simp [fmtArgs]

mutual
  theorem fmtNode_lx (e : Mich) (hwf : wfNode sp tags e = true) (indent : Nat) (isRoot wrapped : Bool) :
      Lx sp (fmtNode cfg inline indent isRoot wrapped e) (toksNode cfg isRoot wrapped e) :=
    match e, hwf with
    | .int v, _ => by
      intro rest hd; simpa [fmtNode, toksNode] using lex_int ok v rest hd
    | .str s, _ => by
      intro rest hd; simpa [fmtNode, toksNode] using lex_str ok s.toList rest
    | .bytes b, hwf => by
      simp only [wfNode] at hwf
      intro rest hd; simpa [fmtNode, toksNode] using lex_bytes ok b hwf rest hd
    | .seq [], _ => by
      have := (lxs_punct ok '{' .lcurly (by simp)).append (lxs_punct ok '}' .rcurly (by simp))
      rw [fmtNode_seq]
      simpa [seqText, fmtItems, toksNode] using this.toLx
    | .seq (x :: xs), hwf => by
      simp only [wfNode, wfList, Bool.and_eq_true] at hwf
      rw [fmtNode_seq]
      have h := seqText_lx ok cfg inline indent (isRoot && isScript cfg (x :: xs))
        (fmtItems cfg inline (if (isRoot && isScript cfg (x :: xs)) = true then indent else indent + 2) (x :: xs))
        (toksItems cfg (x :: xs)) (fmtItems_ne ok cfg inline _ x xs)
        (fun sep h1 h2 => fmtItems_lx x xs hwf.1 hwf.2 _ sep h1 h2)
      simpa [toksNode] using h
    | .prim p args annots, hwf => by
      simp only [wfNode, Bool.and_eq_true] at hwf
      obtain ⟨⟨⟨_, hp⟩, ha⟩, hargs⟩ := hwf
      have hexpr := primExpr_lx p args annots hp ha hargs indent
      rw [fmtNode_prim]
      simp only [toksNode]
      split
      · have := (lxs_punct ok '(' .lparen (by simp)).append_lx
          ((hexpr.append_s (lxs_punct ok ')' .rparen (by simp)) ⟨')', [], rfl, by decide⟩).toLx)
        simpa [List.append_assoc] using this
      · exact hexpr
  termination_by 2 * sizeOf e

  theorem primExpr_lx (p : String) (args : List Mich) (annots : List String)
      (hp : primLexes sp p.toList = true) (ha : annots.all (fun a => annotLexes sp a.toList) = true)
      (hargs : wfList sp tags args = true) (indent : Nat) :
      Lx sp (primExpr cfg inline indent p args annots) ([Tok.prim p.toList] ++ annotToks annots ++ toksArgs cfg args) := by
    have h0 : Lx sp (joinSep [' '] (p.toList :: annots.map String.toList)) ([Tok.prim p.toList] ++ annotToks annots) :=
      head_lx ok _ _ (fun rest hd => lex_prim ok p.toList hp rest hd) annots ha
    exact
    match args, hargs with
    | [], _ => by
      unfold primExpr
      simp only [fmtArgs, toksArgs, List.append_nil, joinSep]
      split
      · split
        · simpa using (h0.append_s (lxs_space ok) ds_space).toLx
        · exact h0
      · exact h0
    | [a], hargs => by
      simp only [wfList, Bool.and_eq_true] at hargs
      unfold primExpr
      simp only [toksArgs, List.append_nil]
      split
      · have hA := fmtNode_lx a hargs.1 (indent + 2) false false
        simp only [fmtArgs, joinSep]
        split
        · have := h0.append ((lxs_space ok).append_lx hA) (ds_space.append _)
          simpa [List.append_assoc] using this
        · have := h0.append ((lxs_nl_spaces ok (indent + 2)).append_lx hA) ((ds_nl _).append _)
          simpa [List.append_assoc] using this
      · have hA := fmtNode_lx a hargs.1
          (indent + ((joinSep [' '] (p.toList :: annots.map String.toList)).length + 1)) false false
        have := h0.append ((lxs_space ok).append_lx hA) (ds_space.append _)
        simpa [List.append_assoc] using this
    | a :: b :: rest, hargs => by
      unfold primExpr
      simp only
      split
      · have hw := hargs
        simp only [wfList, Bool.and_eq_true] at hw
        have hA := fun sep h1 h2 => fmtArgs_lx a (b :: rest) hw.1 (by simp [wfList, hw.2]) (indent + 2) sep h1 h2
        split
        · have := h0.append ((lxs_space ok).append_lx (hA _ (lxs_space ok) ds_space)) (ds_space.append _)
          simpa [List.append_assoc] using this
        · rw [joinSep_cons_ne _ _ _ (fmtArgs_ne ok cfg inline _ a (b :: rest))]
          have := h0.append ((lxs_nl_spaces ok (indent + 2)).append_lx
            (hA _ (lxs_nl_spaces ok (indent + 2)) (ds_nl _))) ((ds_nl _).append _)
          simpa [List.append_assoc] using this
      · obtain ⟨tail, htail, htl⟩ := fmtLoop_lx (a :: b :: rest) hargs indent (isInline cfg p)
          (indent + ((joinSep [' '] (p.toList :: annots.map String.toList)).length + 2)) (indent + 2)
          (joinSep [' '] (p.toList :: annots.map String.toList))
        rw [htail]
        exact h0.append_tl htl
  termination_by 2 * sizeOf args + 1

  theorem fmtItems_lx (x : Mich) (xs : List Mich) (hx : wfNode sp tags x = true) (hxs : wfList sp tags xs = true)
      (ind : Nat) (sep : List Char) (hsep : LxS sp sep [Tok.semi]) (hds : DS sep) :
      Lx sp (joinSep sep (fmtItems cfg inline ind (x :: xs))) (toksItems cfg (x :: xs)) :=
    match xs, hxs with
    | [], _ => by
      simpa [fmtItems, joinSep, toksItems] using fmtNode_lx x hx ind false true
    | y :: ys, hxs => by
      simp only [wfList, Bool.and_eq_true] at hxs
      have h1 := fmtNode_lx x hx ind false true
      have h2 := fmtItems_lx y ys hxs.1 hxs.2 ind sep hsep hds
      rw [fmtItems, joinSep_cons_ne _ _ _ (fmtItems_ne ok cfg inline ind y ys)]
      have := h1.append (hsep.append_lx h2) (hds.append _)
      simpa [toksItems, List.append_assoc] using this
  termination_by 2 * (1 + sizeOf x + sizeOf xs)

  theorem fmtArgs_lx (a : Mich) (as : List Mich) (ha : wfNode sp tags a = true) (has : wfList sp tags as = true)
      (ind : Nat) (sep : List Char) (hsep : LxS sp sep []) (hds : DS sep) :
      Lx sp (joinSep sep (fmtArgs cfg inline ind (a :: as))) (toksArgs cfg (a :: as)) :=
    match as, has with
    | [], _ => by
      simpa [fmtArgs, joinSep, toksArgs] using fmtNode_lx a ha ind false false
    | b :: bs, has => by
      simp only [wfList, Bool.and_eq_true] at has
      have h1 := fmtNode_lx a ha ind false false
      have h2 := fmtArgs_lx b bs has.1 has.2 ind sep hsep hds
      rw [fmtArgs, joinSep_cons_ne _ _ _ (fmtArgs_ne ok cfg inline ind b bs)]
      have := h1.append (hsep.append_lx h2) (hds.append _)
      simpa [toksArgs, List.append_assoc] using this
  termination_by 2 * (1 + sizeOf a + sizeOf as)

  theorem fmtLoop_lx (args : List Mich) (hargs : wfList sp tags args = true) (indent : Nat) (isInl : Bool)
      (altIndent argIndent : Nat) (expr : List Char) :
      ∃ tail, fmtLoop cfg inline indent isInl altIndent argIndent expr args = expr ++ tail ∧
        Tl sp tail (toksArgs cfg args) :=
    match args, hargs with
    | [], _ => ⟨[], by simp [fmtLoop], Or.inl ⟨rfl, by simp [toksArgs]⟩⟩
    | a :: rest, hargs => by
      simp only [wfList, Bool.and_eq_true] at hargs
      have hA := fmtNode_lx a hargs.1 argIndent false false
      simp only [fmtLoop]
      split
      · obtain ⟨tail, ht, htl⟩ := fmtLoop_lx rest hargs.2 indent isInl altIndent altIndent
          (expr ++ [' '] ++ fmtNode cfg inline argIndent false false a)
        refine ⟨[' '] ++ fmtNode cfg inline argIndent false false a ++ tail, ?_, Or.inr ⟨ds_space.append _ |>.append _, ?_⟩⟩
        · rw [ht]; simp [List.append_assoc]
        · have := (lxs_space ok).append_lx (hA.append_tl htl)
          simpa [toksArgs, List.append_assoc] using this
      · obtain ⟨tail, ht, htl⟩ := fmtLoop_lx rest hargs.2 indent isInl altIndent argIndent
          (expr ++ ['\n'] ++ spaces argIndent ++ fmtNode cfg inline argIndent false false a)
        refine ⟨'\n' :: spaces argIndent ++ fmtNode cfg inline argIndent false false a ++ tail, ?_,
          Or.inr ⟨(ds_nl argIndent).append _ |>.append _, ?_⟩⟩
        · rw [ht]; simp [List.append_assoc]
        · have := (lxs_nl_spaces ok argIndent).append_lx (hA.append_tl htl)
          simpa [toksArgs, List.append_assoc] using this
  termination_by 2 * sizeOf args
end

end main2
end Impl.Text
