import PytezosModel.Proofs.C16Num
/-! Helper lemmas for C16 that unfold the mirror over the *current* generated tables (they stop compiling when the
source shape changes, which is what re-opens the obligations). -/
set_option linter.unusedSimpArgs false
namespace Impl.Arith
open Generated.C16 PyNum

theorem toOption_eq_some {r : Except Err Out} {v : Out} (h : r.toOption = some v) : r = .ok v := by
  cases r with
  | ok a => simp [Except.toOption] at h; rw [h]
  | error e => simp [Except.toOption] at h

theorem shift_unfold (body : Bool) (hb : known body = true) (sh : Int → Nat → Int) (x y : Int) :
    executeShift body sh (.num .nat x) (.num .nat y) =
      if ¬ (y < 257) then .error .assertion else wrap (fromValue .nat (sh x y.toNat)) := by
  unfold executeShift
  simp only [hb]
  rfl


theorem shr_eq (x : Int) (s : Nat) : PyNum.shr x s = x / 2 ^ s :=
  Int.fdiv_eq_ediv_of_nonneg _ (Int.le_of_lt (Int.pow_pos (by omega)))


/-- length BYTES uses for an int -/
def intLen (z : Int) : Nat := if z ≠ 0 then signedLen z else 0

theorem bytes_int_unfold (z : Int) :
    Impl.Arith.bytes (.num .int z) =
      match PyNum.toBytes z (intLen z) true with
      | some bs => .ok (.one (.bytes bs))
      | none => .error .overflow := by
  show (match bytesOf .signedUnlessNatExactLength Prim.int z with
        | .ok bs => Except.ok (Out.one (Val.bytes bs))
        | .error e => .error e) = _
  show (match (match PyNum.toBytes z (intLen z) true with
        | some bs => Except.ok bs
        | none => Except.error Err.overflow) with
        | .ok bs => Except.ok (Out.one (Val.bytes bs))
        | .error e => .error e) = _
  cases PyNum.toBytes z (intLen z) true <;> rfl

theorem bytes_nat_unfold (z : Int) :
    Impl.Arith.bytes (.num .nat z) =
      match PyNum.toBytes z (unsignedLen z) false with
      | some bs => .ok (.one (.bytes bs))
      | none => .error .overflow := by
  show (match (match PyNum.toBytes z (unsignedLen z) false with
        | some bs => Except.ok bs
        | none => Except.error Err.overflow) with
        | .ok bs => Except.ok (Out.one (Val.bytes bs))
        | .error e => .error e) = _
  cases PyNum.toBytes z (unsignedLen z) false <;> rfl

theorem intLen_range (z : Int) : -(2 ^ (8 * intLen z - 1) : Int) ≤ z ∧ z < 2 ^ (8 * intLen z - 1) := by
  unfold intLen
  by_cases h : z = 0
  · subst h; simp
  · simp only [h, ne_eq, not_false_eq_true, if_true]; exact signedLen_range z

theorem toBytes_int (z : Int) : PyNum.toBytes z (intLen z) true = some (toBytesBE (intLen z) (z % 256 ^ intLen z).toNat) := by
  unfold PyNum.toBytes
  simp only [if_true, intLen_range z, and_self]

theorem intLen_pos (z : Int) (h : z ≠ 0) : 0 < intLen z := by
  unfold intLen signedLen; simp only [h, ne_eq, not_false_eq_true, if_true]; omega


theorem toBytes_nat (z : Int) (h : 0 ≤ z) :
    PyNum.toBytes z (unsignedLen z) false = some (toBytesBE (unsignedLen z) z.toNat) := by
  unfold PyNum.toBytes
  simp [h, unsignedLen_range z h]

theorem nat_fits (z : Int) (h : 0 ≤ z) : z.toNat < 256 ^ unsignedLen z := by
  have := unsignedLen_range z h
  have hc : ((256 ^ unsignedLen z : Nat) : Int) = (256 : Int) ^ unsignedLen z := by simp
  have : ((z.toNat : Nat) : Int) < ((256 ^ unsignedLen z : Nat) : Int) := by rw [hc]; omega
  exact Int.ofNat_lt.1 this


end Impl.Arith
