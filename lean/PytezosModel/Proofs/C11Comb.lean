import PytezosModel.Proofs.C11RoundTrip
/-! C11 — combs of every length: the renderer produces exactly the reference layout in each mode, and values of
"plain" types need no side condition on the call. -/
namespace Impl.Value
open VC Core Spec.Value

theorem flattens_comb (a b : Val) (rest : List Val) : flattens (combVal false a b rest) = true := by
  cases rest <;> simp [combVal, flattens]

/-- **Impl = Spec for combs**: `to_micheline_value` of the right comb of `a, b, rest…` is the reference layout of the
rendered components, and its `iter_comb` rendering is the flat list — for every length and each of the three modes -/
theorem render_comb (env : Env) (mode : Mode) (lz : Option Bool) :
    ∀ (rest : List Val) (named : Bool) (a b : Val), lastNotFlat b rest = true →
      render env mode lz (combVal named a b rest) =
        (combLayout mode (render env mode lz a).1 (render env mode lz b).1 (rest.map fun x => (render env mode lz x).1),
          (render env mode lz a).1 :: (render env mode lz b).1 :: (rest.map fun x => (render env mode lz x).1)) := by
  intro rest
  induction rest with
  | nil =>
    intro named a b h
    simp only [lastNotFlat, Bool.not_eq_true'] at h
    rw [combVal, render_pair]
    simp only [h, Bool.false_eq_true, if_false, List.map_nil]
    cases mode <;> simp [pairNode, combLayout, nestR]
  | cons c rest ih =>
    intro named a b h
    simp only [lastNotFlat] at h
    rw [combVal, render_pair, ih false b c h]
    simp only [flattens_comb, if_true, List.map_cons]
    cases mode with
    | readable => simp [pairNode, combLayout]
    | legacyOptimized => simp [pairNode, combLayout, nestR]
    | optimized => cases rest <;> simp [pairNode, combLayout]

theorem faithful_of_plain (mode : Mode) : ∀ (τ : Ty) (lz : Option Bool) (v : Val),
    plainTy τ = true → faithful mode lz τ v = true := by
  intro τ
  induction τ with
  | leaf l a =>
    intro lz v hp
    cases l <;> cases v <;> try simp [faithful]
    rename_i k k' d
    cases k <;> simp [faithful]
    simp [plainTy] at hp
  | option t a ih => intro lz v hp; cases v <;> simp [faithful]; exact ih lz _ hp
  | or l r a ihl ihr =>
    intro lz v hp
    simp only [plainTy, Bool.and_eq_true] at hp
    cases v <;> simp [faithful]
    · exact ihl lz _ hp.1
    · exact ihr lz _ hp.2
  | pair l r a ihl ihr =>
    intro lz v hp
    simp only [plainTy, Bool.and_eq_true] at hp
    cases v <;> simp [faithful]
    exact ⟨ihl lz _ hp.1, ihr lz _ hp.2⟩
  | list t a ih => intro lz v hp; cases v <;> simp [faithful]; exact fun x _ => ih lz x hp
  | set t a ih => intro lz v hp; cases v <;> simp [faithful]; exact fun x _ => ih lz x hp
  | map k v a ihk ihv =>
    intro lz w hp
    simp only [plainTy, Bool.and_eq_true] at hp
    cases w <;> simp [faithful]
    exact fun x y _ => ⟨ihk lz x hp.1, ihv lz y hp.2⟩
  | bigMap k v a _ _ => intro lz w hp; simp [plainTy] at hp
  | lambda x y a _ _ => intro lz w hp; cases w <;> simp [faithful]
  | contract p a _ => intro lz w hp; cases w <;> simp [faithful]
  | ticket t a ih => intro lz w hp; cases w <;> simp [faithful]; exact ih _ _ hp
  | saplingState m a => intro lz w hp; simp [plainTy] at hp

end Impl.Value
