import PytezosModel.Proofs.InterpStack
import PytezosModel.Proofs.InterpComb
import PytezosModel.Proofs.InterpArith
import PytezosModel.Proofs.InterpColl
import PytezosModel.Proofs.InterpContracts
import PytezosModel.Michelson.Interp.Spec
/-! Instructions without sub-programs: the mirror's pop/push sequences against the reference rules. -/
namespace Interp
open Stack


theorem listLt_eq : ∀ a b, Impl.listLt a b = Spec.lexLt a b
  | [], [] => rfl
  | [], _ :: _ => rfl
  | _ :: _, [] => rfl
  | x :: xs, y :: ys => by
    simp only [Impl.listLt, Spec.lexLt, listLt_eq xs ys]
    by_cases h1 : x < y
    · simp [h1]
    · by_cases h2 : y < x
      · have : ¬ x = y := by omega
        simp [h1, h2, this]
      · have : x = y := by omega
        simp [h1, h2, this]

theorem lexLt_irrefl : ∀ a, Spec.lexLt a a = false
  | [] => rfl
  | x :: xs => by simp [Spec.lexLt, lexLt_irrefl xs]

theorem compareVals_eq (a b : Val) : Impl.compareVals a b = Spec.compare a b := by
  cases a <;> cases b <;> simp only [Impl.compareVals, Spec.compare]
  · rename_i x y
    cases x <;> cases y <;> simp [Spec.cmpInt]
  · rename_i t x t' y
    simp only [Spec.cmpInt]
    by_cases h1 : x = y
    · have : ¬ x < y := by omega
      simp [h1]
    · by_cases h2 : x < y <;> simp [h1, h2]
  · rename_i x y
    rw [listLt_eq]
    by_cases h1 : x = y
    · subst h1; simp [lexLt_irrefl]
    · by_cases h2 : Spec.lexLt x y <;> simp [h1, h2]
  · rename_i x y
    rw [listLt_eq]
    by_cases h1 : x = y
    · subst h1; simp [lexLt_irrefl]
    · by_cases h2 : Spec.lexLt x y <;> simp [h1, h2]

theorem strVals_eq : ∀ xs, (Impl.strVals xs).map List.flatten = Spec.strs xs
  | [] => rfl
  | x :: xs => by
    cases x <;> simp only [Impl.strVals, Spec.strs, Option.map_none]
    rw [← strVals_eq xs]
    cases Impl.strVals xs <;> simp

theorem bytesVals_eq : ∀ xs, (Impl.bytesVals xs).map List.flatten = Spec.bytess xs
  | [] => rfl
  | x :: xs => by
    cases x <;> simp only [Impl.bytesVals, Spec.bytess, Option.map_none]
    rw [← bytesVals_eq xs]
    cases Impl.bytesVals xs <;> simp

theorem bind_ne_stuck_step {α β : Type} {r : Res α} {f : α → Res β} (h : r.bind f ≠ .stuck) : r ≠ .stuck := by
  intro e; subst e; exact h rfl

end Interp

namespace Interp
open Stack

/-- DIG/DUG/DUP n through protect/restore -/
theorem dupn_refines (pre st : List Val) (n : Nat) (hn : n ≠ 0) (x : Val) (h : st[n - 1]? = some x) :
    (do let s ← (stk pre st).protect (n - 1)
        let a ← s.peek
        let s ← s.restore (n - 1)
        pure (s.push a) : Res Stack) = .ok (stk pre (x :: st)) := by
  have hlt : n - 1 < st.length := by
    rcases Nat.lt_or_ge (n - 1) st.length with h' | h'
    · exact h'
    · rw [List.getElem?_eq_none h'] at h; cases h
  rw [protect_mk pre st (n - 1) (by omega)]
  have hd : st.drop (n - 1) = x :: st.drop (n - 1 + 1) := by
    have := List.drop_eq_getElem_cons hlt
    rw [this]; congr 1
    rw [List.getElem?_eq_getElem hlt] at h; exact Option.some.inj h
  simp only [Res.bind_ok, hd, peek_mk_cons]
  have hl : (st.take (n - 1)).length = n - 1 := by rw [List.length_take]; omega
  rw [restore_mk' pre (st.take (n - 1)) _ (n - 1) hl]
  simp only [Res.bind_ok, Res.pure_eq, push_mk]
  rw [← hd, List.take_append_drop]

theorem dig_refines (pre st : List Val) (n : Nat) (x : Val) (h : st[n]? = some x) :
    (do let s ← (stk pre st).protect n
        let (a, s) ← s.pop1
        let s ← s.restore n
        pure (s.push a) : Res Stack) = .ok (stk pre (x :: (st.take n ++ st.drop (n + 1)))) := by
  have hlt : n < st.length := by
    rcases Nat.lt_or_ge n st.length with h' | h'
    · exact h'
    · rw [List.getElem?_eq_none h'] at h; cases h
  rw [protect_mk pre st n (by omega)]
  have hd : st.drop n = x :: st.drop (n + 1) := by
    have := List.drop_eq_getElem_cons hlt
    rw [this]; congr 1
    rw [List.getElem?_eq_getElem hlt] at h; exact Option.some.inj h
  simp only [Res.bind_ok, hd, pop1_mk_cons]
  have hl : (st.take n).length = n := by rw [List.length_take]; omega
  rw [restore_mk' pre (st.take n) _ n hl]
  simp only [Res.bind_ok, Res.pure_eq, push_mk]

theorem dug_refines (pre st : List Val) (n : Nat) (x : Val) (h : n ≤ st.length) :
    (do let (a, s) ← (stk pre (x :: st)).pop1
        let s ← s.protect n
        let s := s.push a
        s.restore n : Res Stack) = .ok (stk pre (st.take n ++ x :: st.drop n)) := by
  simp only [pop1_mk_cons, Res.bind_ok]
  rw [protect_mk pre st n h]
  simp only [Res.bind_ok, push_mk]
  have hl : (st.take n).length = n := by rw [List.length_take]; omega
  rw [restore_mk' pre (st.take n) _ n hl]

/-! the table-driven one-operand mirrors on the operand classes of the reference rules (through `Proofs/InterpTables.lean`) -/
theorem execSize_str (x : List Nat) : Impl.execSize (.str x) = .ok (.num .nat x.length) := by
  simp [Impl.execSize, sizeClasses_eq, typeOf, Typing.step, Impl.valLen, natFromValue_ofNat]
theorem execSize_bytes (x : List Nat) : Impl.execSize (.bytes x) = .ok (.num .nat x.length) := by
  simp [Impl.execSize, sizeClasses_eq, typeOf, Typing.step, Impl.valLen, natFromValue_ofNat]
theorem execSize_list (t : Ty) (xs : List Val) : Impl.execSize (.list t xs) = .ok (.num .nat xs.length) := by
  simp [Impl.execSize, sizeClasses_eq, typeOf, Typing.step, Impl.valLen, natFromValue_ofNat]
theorem execSize_map (k v : Ty) (xs : List Val) : Impl.execSize (.map k v xs) = .ok (.num .nat xs.length) := by
  simp [Impl.execSize, sizeClasses_eq, typeOf, Typing.step, Impl.valLen, natFromValue_ofNat]
theorem execSize_set (t : Ty) (xs : List Val) : Impl.execSize (.set t xs) = .ok (.num .nat xs.length) := by
  simp [Impl.execSize, sizeClasses_eq, typeOf, Typing.step, Impl.valLen, natFromValue_ofNat]
theorem execNeg_int (x : Int) : Impl.execNeg (.num .int x) = .ok (.num .int (-x)) := by
  simp [Impl.execNeg, negTy_eq, ruleTy1, Typing.step, numFromValue_eq, Spec.numOk]
theorem execNeg_nat (x : Int) : Impl.execNeg (.num .nat x) = .ok (.num .int (-x)) := by
  simp [Impl.execNeg, negTy_eq, ruleTy1, Typing.step, numFromValue_eq, Spec.numOk]
theorem execNot_bool (x : Bool) : Impl.execNot (.bool x) = .ok (.bool (!x)) := by
  simp [Impl.execNot, notRow_eq, ruleTy1, Typing.step, typeOf]
theorem execNot_nat (x : Int) : Impl.execNot (.num .nat x) = .ok (.num .int (-x - 1)) := by
  simp [Impl.execNot, notRow_eq, ruleTy1, Typing.step, typeOf, numFromValue_eq, Spec.numOk]
theorem execNot_int (x : Int) : Impl.execNot (.num .int x) = .ok (.num .int (-x - 1)) := by
  simp [Impl.execNot, notRow_eq, ruleTy1, Typing.step, typeOf, numFromValue_eq, Spec.numOk]

/-- kill the stack/value shapes on which the reference rule does not apply, then compute both sides -/
syntax "step_top1" : tactic
set_option hygiene false in
macro_rules
  | `(tactic| step_top1) => `(tactic| (
      rcases st with _ | ⟨a, st⟩
      · exact absurd rfl hr
      · cases a <;> first | (exact absurd rfl hr) | skip
        all_goals (try (rename_i t v; cases t <;> first | (exact absurd rfl hr) | skip))
        all_goals simp [Impl.step, Spec.step, Impl.stepMore, Spec.stepMore, Impl.execHash, execSize_str, execSize_bytes,
          execSize_list, execSize_map, execSize_set, execNeg_int, execNeg_nat, execNot_bool, execNot_nat, execNot_int]))

section
variable (env : Env) (pre st : List Val)

theorem step_UNPAIR (hr : Spec.step env .UNPAIR st ≠ .stuck) :
    Impl.step env .UNPAIR (stk pre st) = (Spec.step env .UNPAIR st).map' (stk pre) := by step_top1
theorem step_CAR (hr : Spec.step env .CAR st ≠ .stuck) :
    Impl.step env .CAR (stk pre st) = (Spec.step env .CAR st).map' (stk pre) := by step_top1
theorem step_CDR (hr : Spec.step env .CDR st ≠ .stuck) :
    Impl.step env .CDR (stk pre st) = (Spec.step env .CDR st).map' (stk pre) := by step_top1
theorem step_SIZE (hr : Spec.step env .SIZE st ≠ .stuck) :
    Impl.step env .SIZE (stk pre st) = (Spec.step env .SIZE st).map' (stk pre) := by step_top1
theorem step_NEG (hr : Spec.step env .NEG st ≠ .stuck) :
    Impl.step env .NEG (stk pre st) = (Spec.step env .NEG st).map' (stk pre) := by step_top1
theorem step_ABS (hr : Spec.step env .ABS st ≠ .stuck) :
    Impl.step env .ABS (stk pre st) = (Spec.step env .ABS st).map' (stk pre) := by step_top1
theorem step_ISNAT (hr : Spec.step env .ISNAT st ≠ .stuck) :
    Impl.step env .ISNAT (stk pre st) = (Spec.step env .ISNAT st).map' (stk pre) := by step_top1
theorem step_INT (hr : Spec.step env .INT st ≠ .stuck) :
    Impl.step env .INT (stk pre st) = (Spec.step env .INT st).map' (stk pre) := by
  rcases st with _ | ⟨a, st⟩
  · exact absurd rfl hr
  · cases a <;> first | (exact absurd rfl hr) | skip
    · rename_i t v; cases t <;> first | (exact absurd rfl hr) | skip
      simp [Impl.step, Spec.step]
    · simp [Impl.step, Spec.step, numFromValue_eq, Spec.numOk, fromBytes_signed]
theorem step_EQ (hr : Spec.step env .EQ st ≠ .stuck) :
    Impl.step env .EQ (stk pre st) = (Spec.step env .EQ st).map' (stk pre) := by step_top1
theorem step_NEQ (hr : Spec.step env .NEQ st ≠ .stuck) :
    Impl.step env .NEQ (stk pre st) = (Spec.step env .NEQ st).map' (stk pre) := by step_top1
theorem step_LT (hr : Spec.step env .LT st ≠ .stuck) :
    Impl.step env .LT (stk pre st) = (Spec.step env .LT st).map' (stk pre) := by step_top1
theorem step_GT (hr : Spec.step env .GT st ≠ .stuck) :
    Impl.step env .GT (stk pre st) = (Spec.step env .GT st).map' (stk pre) := by step_top1
theorem step_LE (hr : Spec.step env .LE st ≠ .stuck) :
    Impl.step env .LE (stk pre st) = (Spec.step env .LE st).map' (stk pre) := by step_top1
theorem step_GE (hr : Spec.step env .GE st ≠ .stuck) :
    Impl.step env .GE (stk pre st) = (Spec.step env .GE st).map' (stk pre) := by step_top1
theorem step_BLAKE2B (hr : Spec.step env .BLAKE2B st ≠ .stuck) :
    Impl.step env .BLAKE2B (stk pre st) = (Spec.step env .BLAKE2B st).map' (stk pre) := by step_top1
theorem step_SHA256 (hr : Spec.step env .SHA256 st ≠ .stuck) :
    Impl.step env .SHA256 (stk pre st) = (Spec.step env .SHA256 st).map' (stk pre) := by step_top1
theorem step_SHA512 (hr : Spec.step env .SHA512 st ≠ .stuck) :
    Impl.step env .SHA512 (stk pre st) = (Spec.step env .SHA512 st).map' (stk pre) := by step_top1
theorem step_KECCAK (hr : Spec.step env .KECCAK st ≠ .stuck) :
    Impl.step env .KECCAK (stk pre st) = (Spec.step env .KECCAK st).map' (stk pre) := by step_top1
theorem step_SHA3 (hr : Spec.step env .SHA3 st ≠ .stuck) :
    Impl.step env .SHA3 (stk pre st) = (Spec.step env .SHA3 st).map' (stk pre) := by step_top1
theorem step_NOT (hr : Spec.step env .NOT st ≠ .stuck) :
    Impl.step env .NOT (stk pre st) = (Spec.step env .NOT st).map' (stk pre) := by step_top1
end

section
variable (env : Env) (pre st : List Val)

theorem step_APPLY (hr : Spec.step env .APPLY st ≠ .stuck) :
    Impl.step env .APPLY (stk pre st) = (Spec.step env .APPLY st).map' (stk pre) := by
  rcases st with _ | ⟨a, _ | ⟨b, st⟩⟩
  · exact absurd rfl hr
  · exact absurd rfl hr
  · cases b <;> first | (exact absurd rfl hr) | skip
    rename_i ta tb body
    cases ta <;> first | (exact absurd rfl hr) | skip
    rename_i lt rt
    simp only [Spec.step] at hr ⊢
    by_cases h : typeOf a = lt ∧ Typing.pushable lt = true
    · simp [Impl.step, h, h.1]
    · simp [h] at hr

theorem step_CONS (hr : Spec.step env .CONS st ≠ .stuck) :
    Impl.step env .CONS (stk pre st) = (Spec.step env .CONS st).map' (stk pre) := by
  rcases st with _ | ⟨a, _ | ⟨b, st⟩⟩
  · exact absurd rfl hr
  · exact absurd rfl hr
  · cases b <;> first | (exact absurd rfl hr) | skip
    rename_i t xs
    have hs : Spec.step env .CONS (a :: .list t xs :: st) = (if typeOf a = t then .ok (.list t (a :: xs) :: st) else .stuck) := rfl
    rw [hs] at hr ⊢
    have hi : Impl.step env .CONS (stk pre (a :: .list t xs :: st)) = (do
        let (a, l, s) ← (stk pre (a :: .list t xs :: st)).pop2
        match l with
        | .list t xs => if typeOf a = t then pure (s.push (.list t (a :: xs))) else .stuck
        | _ => .stuck) := rfl
    rw [hi]
    by_cases h : typeOf a = t
    · simp [h]
    · simp [h] at hr

theorem step_PAIRN (n : Nat) (hr : Spec.step env (.PAIRN n) st ≠ .stuck) :
    Impl.step env (.PAIRN n) (stk pre st) = (Spec.step env (.PAIRN n) st).map' (stk pre) := by
  have hs : Spec.step env (.PAIRN n) st = (match Spec.pairN n st with
      | some (r, st') => .ok (r :: st')
      | none => .stuck) := rfl
  rw [hs] at hr ⊢
  cases hq : Spec.pairN n st with
  | none => simp [hq] at hr
  | some p =>
    obtain ⟨r, st'⟩ := p
    obtain ⟨h1, h2, h3, h4⟩ := fromComb_refines n st r st' hq
    have h1' : ¬ n < 2 := by omega
    have h2' : ¬ st.length < n := by omega
    have hi : Impl.step env (.PAIRN n) (stk pre st) = (if n < 2 then .stuck else do
        let (leaves, s) ← (stk pre st).pop n
        let r ← Impl.fromComb leaves
        pure (s.push r)) := by rw [Impl.step, pairnMin_eq]
    rw [hi]
    simp [h1', pop_mk, h2', h3, h4]

theorem step_UNPAIRN (n : Nat) (hr : Spec.step env (.UNPAIRN n) st ≠ .stuck) :
    Impl.step env (.UNPAIRN n) (stk pre st) = (Spec.step env (.UNPAIRN n) st).map' (stk pre) := by
  rcases st with _ | ⟨v, st⟩
  · exact absurd rfl hr
  have hs : Spec.step env (.UNPAIRN n) (v :: st) = (match Spec.unpairN n v with
      | some xs => .ok (xs ++ st)
      | none => .stuck) := rfl
  rw [hs] at hr ⊢
  cases hq : Spec.unpairN n v with
  | none => simp [hq] at hr
  | some xs =>
    obtain ⟨h1, ⟨a, b, rfl⟩, h3⟩ := unpairnComb_refines n v xs hq
    have h1' : ¬ n < 2 := by omega
    have hi : Impl.step env (.UNPAIRN n) (stk pre (.pair a b :: st)) = (if n < 2 then .stuck else do
        let (p, s) ← (stk pre (.pair a b :: st)).pop1
        match p with
        | .pair _ _ => pure ((Impl.unpairnComb (n - 2) p).reverse.foldl Stack.push s)
        | _ => .stuck) := by rw [Impl.step, unpairnMin_eq, unpairnCombOffset_eq]; rfl
    rw [hi]
    simp only [h1', if_false, pop1_mk_cons, Res.bind_ok, h3, push_reversed, Res.pure_eq, map'_ok]

theorem step_GETN (n : Nat) (hr : Spec.step env (.GETN n) st ≠ .stuck) :
    Impl.step env (.GETN n) (stk pre st) = (Spec.step env (.GETN n) st).map' (stk pre) := by
  rcases st with _ | ⟨v, st⟩
  · exact absurd rfl hr
  have hs : Spec.step env (.GETN n) (v :: st) = (match Spec.getN n v with
      | some r => .ok (r :: st)
      | none => .stuck) := rfl
  rw [hs] at hr ⊢
  have hi : Impl.step env (.GETN n) (stk pre (v :: st)) = (do
      let (p, s) ← (stk pre (v :: st)).pop1
      if n = 0 then pure (s.push p)
      else match p with
        | .pair _ _ =>
          match (Impl.iterComb true p)[n]? with
          | some r => pure (s.push r)
          | none => .stuck
        | _ => .stuck) := rfl
  rw [hi]
  cases hq : Spec.getN n v with
  | none => simp [hq] at hr
  | some r =>
    by_cases hn : n = 0
    · subst hn
      simp only [Spec.getN, Option.some.injEq] at hq
      subst hq
      simp
    · obtain ⟨a, b, rfl⟩ := getN_pair n v r hn hq
      have := accessComb_refines n _ r hq
      simp [hn, this]

theorem step_UPDATEN (n : Nat) (hr : Spec.step env (.UPDATEN n) st ≠ .stuck) :
    Impl.step env (.UPDATEN n) (stk pre st) = (Spec.step env (.UPDATEN n) st).map' (stk pre) := by
  rcases st with _ | ⟨e, _ | ⟨v, st⟩⟩
  · exact absurd rfl hr
  · exact absurd rfl hr
  have hs : Spec.step env (.UPDATEN n) (e :: v :: st) = (match Spec.updateN n e v with
      | some r => .ok (r :: st)
      | none => .stuck) := rfl
  rw [hs] at hr ⊢
  have hi : Impl.step env (.UPDATEN n) (stk pre (e :: v :: st)) = (do
      let (element, p, s) ← (stk pre (e :: v :: st)).pop2
      if n = 0 then pure (s.push element)
      else match p with
        | .pair _ _ => do let r ← Impl.updateComb n element p; pure (s.push r)
        | _ => .stuck) := rfl
  rw [hi]
  cases hq : Spec.updateN n e v with
  | none => simp [hq] at hr
  | some r =>
    by_cases hn : n = 0
    · subst hn
      simp only [Spec.updateN, Option.some.injEq] at hq
      subst hq
      simp
    · obtain ⟨⟨a, b, rfl⟩, h2⟩ := updateComb_refines n e v r (by omega) hq
      simp [hn, h2]

/-- instructions of the form `a = pop1(); res = f(a); push(res)` -/
theorem step_unop (i : Instr) (f g : Val → Res Val)
    (hs : ∀ a st, Spec.step env i (a :: st) = (f a).bind fun r => .ok (r :: st))
    (hs0 : Spec.step env i [] = .stuck)
    (hi : ∀ s, Impl.step env i s = (do let (a, s) ← s.pop1; let r ← g a; pure (s.push r)))
    (hfg : ∀ a, f a ≠ .stuck → g a = f a)
    (hr : Spec.step env i st ≠ .stuck) :
    Impl.step env i (stk pre st) = (Spec.step env i st).map' (stk pre) := by
  rcases st with _ | ⟨a, st⟩
  · exact absurd hs0 hr
  rw [hs] at hr ⊢
  have h1 := bind_ne_stuck_step hr
  rw [hi, pop1_mk_cons]
  simp only [Res.bind_ok, hfg a h1]
  cases hq : f a with
  | stuck => exact absurd hq h1
  | failed _ => simp
  | rtfail => simp
  | oof => simp
  | offguard => simp
  | ok r => simp

/-- instructions of the form `a, b = pop2(); res = f(a, b); push(res)` -/
theorem step_binop (i : Instr) (f g : Val → Val → Res Val)
    (hs : ∀ a b st, Spec.step env i (a :: b :: st) = (f a b).bind fun r => .ok (r :: st))
    (hs0 : Spec.step env i [] = .stuck) (hs1 : ∀ a, Spec.step env i [a] = .stuck)
    (hi : ∀ s, Impl.step env i s = (do let (a, b, s) ← s.pop2; let r ← g a b; pure (s.push r)))
    (hfg : ∀ a b, f a b ≠ .stuck → g a b = f a b)
    (hr : Spec.step env i st ≠ .stuck) :
    Impl.step env i (stk pre st) = (Spec.step env i st).map' (stk pre) := by
  rcases st with _ | ⟨a, _ | ⟨b, st⟩⟩
  · exact absurd hs0 hr
  · exact absurd (hs1 a) hr
  rw [hs] at hr ⊢
  have h1 := bind_ne_stuck_step hr
  rw [hi, pop2_mk_cons]
  simp only [Res.bind_ok, hfg a b h1]
  cases hq : f a b with
  | stuck => exact absurd hq h1
  | failed _ => simp
  | rtfail => simp
  | oof => simp
  | offguard => simp
  | ok r => simp

/-! AND / OR / XOR on the operand classes of the reference rules: the row of the extracted table (`andRow_eq`, `orRow_eq`) -/
theorem execAnd_bool (x y : Bool) : Impl.execAnd (.bool x) (.bool y) = .ok (.bool (x && y)) := by
  simp [Impl.execAnd, Impl.execBitwise, andRow_eq, typeOf, Typing.andTy]
theorem execAnd_nat_nat (x y : Int) : Impl.execAnd (.num .nat x) (.num .nat y) = Impl.numFromValue .nat (Impl.pyAnd x y) := by
  simp [Impl.execAnd, Impl.execBitwise, andRow_eq, typeOf, Typing.andTy]
theorem execAnd_int_nat (x y : Int) : Impl.execAnd (.num .int x) (.num .nat y) = Impl.numFromValue .nat (Impl.pyAnd x y) := by
  simp [Impl.execAnd, Impl.execBitwise, andRow_eq, typeOf, Typing.andTy]
theorem execAnd_nat_int (x y : Int) : Impl.execAnd (.num .nat x) (.num .int y) = Impl.numFromValue .nat (Impl.pyAnd x y) := by
  simp [Impl.execAnd, Impl.execBitwise, andRow_eq, typeOf, Typing.andTy]
theorem execOr_bool (x y : Bool) : Impl.execOr (.bool x) (.bool y) = .ok (.bool (x || y)) := by
  simp [Impl.execOr, Impl.execBitwise, orRow_eq, typeOf, Typing.orTy]
theorem execOr_nat_nat (x y : Int) : Impl.execOr (.num .nat x) (.num .nat y) = Impl.numFromValue .nat (Impl.pyOr x y) := by
  simp [Impl.execOr, Impl.execBitwise, orRow_eq, typeOf, Typing.orTy]
theorem execXor_bool (x y : Bool) : Impl.execXor (.bool x) (.bool y) = .ok (.bool (x != y)) := by
  simp [Impl.execXor, Impl.execBitwise, orRow_eq, typeOf, Typing.orTy]
theorem execXor_nat_nat (x y : Int) : Impl.execXor (.num .nat x) (.num .nat y) = Impl.numFromValue .nat (Impl.pyXor x y) := by
  simp [Impl.execXor, Impl.execBitwise, orRow_eq, typeOf, Typing.orTy]

theorem execConcatPair_str (x y : List Nat) : Impl.execConcatPair (.str x) (.str y) = .ok (.str (x ++ y)) := by
  simp [Impl.execConcatPair, concatPairRow_eq, ruleTy1, typeOf, Typing.step]
theorem execConcatPair_bytes (x y : List Nat) : Impl.execConcatPair (.bytes x) (.bytes y) = .ok (.bytes (x ++ y)) := by
  simp [Impl.execConcatPair, concatPairRow_eq, ruleTy1, typeOf, Typing.step]
theorem execConcatList_string (xs : List Val) :
    Impl.execConcatList .string xs = (match Impl.strVals xs with | some ss => .ok (.str ss.flatten) | none => .stuck) := by
  simp [Impl.execConcatList, concatListRow_eq, ruleTy1, Typing.step]
  cases Impl.strVals xs <;> rfl
theorem execConcatList_bytes (xs : List Val) :
    Impl.execConcatList .bytes xs = (match Impl.bytesVals xs with | some ss => .ok (.bytes ss.flatten) | none => .stuck) := by
  simp [Impl.execConcatList, concatListRow_eq, ruleTy1, Typing.step]
  cases Impl.bytesVals xs <;> rfl

theorem execAnd_eq (a b : Val) (h : Spec.andV a b ≠ .stuck) : Impl.execAnd a b = Spec.andV a b := by
  unfold Spec.andV at h ⊢
  split at h
  · exact execAnd_bool _ _
  · rename_i x y
    by_cases hc : 0 ≤ x ∧ 0 ≤ y
    · simp [execAnd_nat_nat, hc, pyAnd_nat x y hc.1 hc.2, natFromValue_ofNat]
    · simp [hc] at h
  · rename_i x y
    by_cases hc : 0 ≤ y
    · simp [execAnd_int_nat, hc, pyAnd_int_nat x y hc, natFromValue_ofNat]
    · simp [hc] at h
  · rename_i x y
    by_cases hc : 0 ≤ x
    · simp [execAnd_nat_int, hc, pyAnd_nat_int x y hc, natFromValue_ofNat]
    · simp [hc] at h
  · exact absurd rfl h

theorem execOr_eq (a b : Val) (h : Spec.orV a b ≠ .stuck) : Impl.execOr a b = Spec.orV a b := by
  unfold Spec.orV at h ⊢
  split at h
  · exact execOr_bool _ _
  · rename_i x y
    by_cases hc : 0 ≤ x ∧ 0 ≤ y
    · simp [execOr_nat_nat, hc, pyOr_nat x y hc.1 hc.2, natFromValue_ofNat]
    · simp [hc] at h
  · exact absurd rfl h

theorem execXor_eq (a b : Val) (h : Spec.xorV a b ≠ .stuck) : Impl.execXor a b = Spec.xorV a b := by
  unfold Spec.xorV at h ⊢
  split at h
  · rw [execXor_bool]
  · rename_i x y
    by_cases hc : 0 ≤ x ∧ 0 ≤ y
    · simp [execXor_nat_nat, hc, pyXor_nat x y hc.1 hc.2, natFromValue_ofNat]
    · simp [hc] at h
  · exact absurd rfl h

theorem execEdiv_eq (a b : Val) (h : Spec.edivV a b ≠ .stuck) : Impl.execEdiv a b = Spec.edivV a b := by
  unfold Spec.edivV at h ⊢
  split at h
  · rename_i ta x tb y
    simp only [Impl.execEdiv, edivTy_eq]
    cases ht : Spec.edivTy ta tb with
    | none => simp [ht] at h
    | some p =>
      obtain ⟨qt, rt⟩ := p
      simp only [ht] at h ⊢
      by_cases hy : y = 0
      · simp [hy]
      · simp only [hy, if_false, pyEdiv_eq x y hy, numFromValue_eq] at h ⊢
        cases hq : Spec.numOk qt (x / y) with
        | stuck => simp [hq] at h
        | failed _ => simp
        | rtfail => simp
        | oof => simp
        | offguard => simp
        | ok q =>
          simp only [hq, rbind_ok, Res.bind_ok] at h ⊢
          cases hq2 : Spec.numOk rt (x % y) with
          | stuck => simp [hq2] at h
          | failed _ => simp
          | rtfail => simp
          | oof => simp
          | offguard => simp
          | ok r => simp [Impl.fromComb]
  · exact absurd rfl h

theorem execLsl_eq (a b : Val) (h : Spec.lslV a b ≠ .stuck) :
    Impl.execShift (fun x n => x <<< n) a b = Spec.lslV a b := by
  unfold Spec.lslV at h ⊢
  split at h
  · rename_i x n
    by_cases h0 : n < 0
    · simp [h0] at h
    · by_cases hc : n ≤ 256
      · simp only [h0, hc, if_true, if_false]; exact execShift_lsl x n ⟨by omega, hc⟩
      · have h257 : ¬ n < 257 := by omega
        simp [Impl.execShift, shiftLimit_eq, h0, hc, h257]
  · exact absurd rfl h

theorem execLsr_eq (a b : Val) (h : Spec.lsrV a b ≠ .stuck) :
    Impl.execShift (fun x n => x >>> n) a b = Spec.lsrV a b := by
  unfold Spec.lsrV at h ⊢
  split at h
  · rename_i x n
    by_cases h0 : n < 0
    · simp [h0] at h
    · by_cases hc : n ≤ 256
      · simp only [h0, hc, if_true, if_false]; exact execShift_lsr x n ⟨by omega, hc⟩
      · have h257 : ¬ n < 257 := by omega
        simp [Impl.execShift, shiftLimit_eq, h0, hc, h257]
  · exact absurd rfl h

theorem execSubMutez_eq (a b : Val) (h : Spec.subMutezV a b ≠ .stuck) : Impl.execSubMutez a b = Spec.subMutezV a b := by
  unfold Spec.subMutezV at h ⊢
  split at h
  · rename_i x y
    simp only [Impl.execSubMutez, numFromValue_eq]
    by_cases hc : x < y
    · simp [hc]
    · simp only [hc, if_false] at h ⊢
      cases hq : Spec.numOk .mutez (x - y) <;> simp_all
  · exact absurd rfl h

/-- instructions of the form `a, b, c = pop3(); res = f(a, b, c); push(res)` -/
theorem step_ternop (i : Instr) (f g : Val → Val → Val → Res Val)
    (hs : ∀ a b c st, Spec.step env i (a :: b :: c :: st) = (f a b c).bind fun r => .ok (r :: st))
    (hs0 : Spec.step env i [] = .stuck) (hs1 : ∀ a, Spec.step env i [a] = .stuck) (hs2 : ∀ a b, Spec.step env i [a, b] = .stuck)
    (hi : ∀ s, Impl.step env i s = (do let (a, b, c, s) ← s.pop3; let r ← g a b c; pure (s.push r)))
    (hfg : ∀ a b c, f a b c ≠ .stuck → g a b c = f a b c)
    (hr : Spec.step env i st ≠ .stuck) :
    Impl.step env i (stk pre st) = (Spec.step env i st).map' (stk pre) := by
  rcases st with _ | ⟨a, _ | ⟨b, _ | ⟨c, st⟩⟩⟩
  · exact absurd hs0 hr
  · exact absurd (hs1 a) hr
  · exact absurd (hs2 a b) hr
  rw [hs] at hr ⊢
  have h1 := bind_ne_stuck_step hr
  rw [hi, pop3_mk_cons]
  simp only [Res.bind_ok, hfg a b c h1]
  cases hq : f a b c with
  | stuck => exact absurd hq h1
  | failed _ => simp
  | rtfail => simp
  | oof => simp
  | offguard => simp
  | ok r => simp

theorem step_GET_AND_UPDATE (hr : Spec.step env .GET_AND_UPDATE st ≠ .stuck) :
    Impl.step env .GET_AND_UPDATE (stk pre st) = (Spec.step env .GET_AND_UPDATE st).map' (stk pre) := by
  rcases st with _ | ⟨a, _ | ⟨b, _ | ⟨c, st⟩⟩⟩
  · exact absurd rfl hr
  · exact absurd (by cases a <;> rfl) hr
  · exact absurd (by cases a <;> rfl) hr
  have hs : Spec.step env .GET_AND_UPDATE (a :: b :: c :: st)
      = (Spec.getAndUpdateB a b c).bind fun r => .ok (r.1 :: r.2 :: st) := rfl
  rw [hs] at hr ⊢
  have h1 := bind_ne_stuck_step hr
  have hi : Impl.step env .GET_AND_UPDATE (stk pre (a :: b :: c :: st))
      = (do let (a, b, c, s) ← (stk pre (a :: b :: c :: st)).pop3
            let r ← Impl.execGetAndUpdate a b c
            pure ((s.push r.2).push r.1)) := rfl
  rw [hi, pop3_mk_cons]
  simp only [Res.bind_ok, execGetAndUpdateB_eq a b c h1]
  cases hq : Spec.getAndUpdateB a b c with
  | stuck => exact absurd hq h1
  | failed _ => simp
  | rtfail => simp
  | oof => simp
  | offguard => simp
  | ok r => simp

theorem step_SLICE (hr : Spec.step env .SLICE st ≠ .stuck) :
    Impl.step env .SLICE (stk pre st) = (Spec.step env .SLICE st).map' (stk pre) := by
  rcases st with _ | ⟨a, st⟩
  · exact absurd rfl hr
  cases a <;> first | (exact absurd rfl hr) | skip
  rename_i ta x
  cases ta <;> first | (exact absurd rfl hr) | skip
  rcases st with _ | ⟨b, st⟩
  · exact absurd rfl hr
  cases b <;> first | (exact absurd rfl hr) | skip
  rename_i tb y
  cases tb <;> first | (exact absurd rfl hr) | skip
  rcases st with _ | ⟨c, st⟩
  · exact absurd rfl hr
  cases c <;> first | (exact absurd rfl hr) | skip
  all_goals
    simp only [Impl.step, Spec.step, pop3_mk_cons, Res.bind_ok, Spec.slice, map'_ok, Impl.execSlice, sliceOffsetClass_eq,
      sliceLengthClass_eq, sliceClasses_eq, typeOf, Typing.step, decide_true, Option.isSome_some, Bool.and_self, if_true]
    split <;> simp_all
end

/-- **simple instructions**: whenever the reference rule applies, the mirror's pop/push sequence on a stack with
any protected prefix `pre` yields the rule's result under the same prefix -/
theorem step_refines (env : Env) (i : Instr) (pre st : List Val) (hr : Spec.step env i st ≠ .stuck) :
    Impl.step env i (stk pre st) = (Spec.step env i st).map' (stk pre) := by
  cases i
  case seq | DIP | DIPN | IF | IF_NONE | IF_LEFT | IF_CONS | LOOP | LOOP_LEFT | ITER | MAP | EXEC =>
    all_goals (exfalso; apply hr; cases st <;> rfl)
  case PUSH | LAMBDA | UNIT | NONE | NIL | EMPTY_MAP | SENDER | SOURCE | SELF_ADDRESS | NOW | CHAIN_ID =>
    all_goals simp [Impl.step, Spec.step]
  case AMOUNT | BALANCE | LEVEL | TOTAL_VOTING_POWER | MIN_BLOCK_TIME =>
    all_goals
      simp only [Impl.step, Spec.step, Impl.stepMore, Spec.stepMore, numFromValue_eq] at hr ⊢
      cases hq : Spec.numOk _ _ <;> simp_all
  case DROP | DUP | SOME | LEFT | RIGHT | FAILWITH =>
    all_goals (rcases st with _ | ⟨a, st⟩ <;> simp_all [Impl.step, Spec.step])
  case SWAP | PAIR =>
    all_goals (rcases st with _ | ⟨a, _ | ⟨b, st⟩⟩ <;> simp_all [Impl.step, Spec.step])
  case UNPAIR => exact step_UNPAIR env pre st hr
  case CAR => exact step_CAR env pre st hr
  case CDR => exact step_CDR env pre st hr
  case SIZE => exact step_SIZE env pre st hr
  case NEG => exact step_NEG env pre st hr
  case ABS => exact step_ABS env pre st hr
  case ISNAT => exact step_ISNAT env pre st hr
  case INT => exact step_INT env pre st hr
  case EQ => exact step_EQ env pre st hr
  case NEQ => exact step_NEQ env pre st hr
  case LT => exact step_LT env pre st hr
  case GT => exact step_GT env pre st hr
  case LE => exact step_LE env pre st hr
  case GE => exact step_GE env pre st hr
  case NOT => exact step_NOT env pre st hr
  case BLAKE2B => exact step_BLAKE2B env pre st hr
  case SHA256 => exact step_SHA256 env pre st hr
  case SHA512 => exact step_SHA512 env pre st hr
  case KECCAK => exact step_KECCAK env pre st hr
  case SHA3 => exact step_SHA3 env pre st hr
  case RENAME => rcases st with _ | ⟨a, st⟩ <;> simp_all [Impl.step, Spec.step, Impl.stepMore, Spec.stepMore]
  case CAST t =>
    rcases st with _ | ⟨a, st⟩
    · simp [Spec.step, Spec.stepMore] at hr
    · simp only [Spec.step, Spec.stepMore] at hr ⊢
      by_cases h : typeOf a = t
      · simp [Impl.step, Impl.stepMore, h]
      · simp [h] at hr
  case DROPN n =>
    simp only [Spec.step] at hr ⊢
    by_cases h : n ≤ st.length
    · have h' : ¬ st.length < n := by omega
      simp [Impl.step, pop_mk, h, h']
    · simp [h] at hr
  case DUPN n =>
    simp only [Spec.step] at hr ⊢
    by_cases hn : n = 0
    · simp [hn] at hr
    · simp only [hn, if_false] at hr ⊢
      cases hx : st[n - 1]? with
      | none => simp [hx] at hr
      | some x =>
        simp only [Impl.step, hn, if_false, map'_ok]
        exact dupn_refines pre st n hn x hx
  case DIG n =>
    simp only [Spec.step] at hr ⊢
    cases hx : st[n]? with
    | none => simp [hx] at hr
    | some x =>
      simp only [Impl.step, map'_ok]
      exact dig_refines pre st n x hx
  case DUG n =>
    rcases st with _ | ⟨x, st⟩
    · simp [Spec.step] at hr
    · simp only [Spec.step] at hr ⊢
      by_cases h : n ≤ st.length
      · simp only [h, if_true, map'_ok, Impl.step]
        exact dug_refines pre st n x h
      · simp [h] at hr
  case APPLY => exact step_APPLY env pre st hr
  case CONS => exact step_CONS env pre st hr
  case ADD | SUB | MUL =>
    all_goals
      rcases st with _ | ⟨a, _ | ⟨b, st⟩⟩
      · simp [Spec.step] at hr
      · cases a <;> simp [Spec.step] at hr
      · cases a <;> cases b <;> simp_all [Impl.step, Spec.step, addTy_eq, subTy_eq, mulTy_eq, numFromValue_eq]
        split <;> simp_all
        rename_i t heq
        cases hq : Spec.numOk t _ <;> simp_all
  case COMPARE =>
    rcases st with _ | ⟨a, _ | ⟨b, st⟩⟩
    · simp [Spec.step] at hr
    · simp [Spec.step] at hr
    · simp only [Spec.step, Impl.step, pop2_mk_cons, Res.bind_ok, compareVals_eq] at hr ⊢
      by_cases ht : typeOf a = typeOf b
      · simp only [ht, if_true] at hr ⊢
        cases hc : Spec.compare a b <;> simp_all
      · simp [ht] at hr
  case AND =>
    exact step_binop env pre st .AND Spec.andV Impl.execAnd (fun _ _ _ => rfl) rfl (fun a => by cases a <;> rfl)
      (fun _ => rfl) execAnd_eq hr
  case OR =>
    exact step_binop env pre st .OR Spec.orV Impl.execOr (fun _ _ _ => rfl) rfl (fun a => by cases a <;> rfl)
      (fun _ => rfl) execOr_eq hr
  case XOR =>
    exact step_binop env pre st .XOR Spec.xorV Impl.execXor (fun _ _ _ => rfl) rfl (fun a => by cases a <;> rfl)
      (fun _ => rfl) execXor_eq hr
  case EDIV =>
    exact step_binop env pre st .EDIV Spec.edivV Impl.execEdiv (fun _ _ _ => rfl) rfl (fun a => by cases a <;> rfl)
      (fun _ => rfl) execEdiv_eq hr
  case LSL =>
    exact step_binop env pre st .LSL Spec.lslV (Impl.execShift (fun x n => x <<< n)) (fun _ _ _ => rfl) rfl (fun a => by cases a <;> rfl)
      (fun _ => rfl) execLsl_eq hr
  case LSR =>
    exact step_binop env pre st .LSR Spec.lsrV (Impl.execShift (fun x n => x >>> n)) (fun _ _ _ => rfl) rfl (fun a => by cases a <;> rfl)
      (fun _ => rfl) execLsr_eq hr
  case SUB_MUTEZ =>
    exact step_binop env pre st .SUB_MUTEZ Spec.subMutezV Impl.execSubMutez (fun _ _ _ => rfl) rfl (fun a => by cases a <;> rfl)
      (fun _ => rfl) execSubMutez_eq hr
  case CONCAT =>
    rcases st with _ | ⟨a, st⟩
    · simp [Spec.step] at hr
    · cases a
      case str x =>
        rcases st with _ | ⟨b, st⟩
        · simp [Spec.step] at hr
        · cases b <;> simp_all [Impl.step, Spec.step, execConcatPair_str]
      case bytes x =>
        rcases st with _ | ⟨b, st⟩
        · simp [Spec.step] at hr
        · cases b <;> simp_all [Impl.step, Spec.step, execConcatPair_bytes]
      case list t xs =>
        cases t <;> simp_all [Impl.step, Spec.step, execConcatList_string, execConcatList_bytes]
        · rw [← strVals_eq] at hr ⊢
          cases Impl.strVals xs <;> simp_all
        · rw [← bytesVals_eq] at hr ⊢
          cases Impl.bytesVals xs <;> simp_all
      all_goals simp [Spec.step] at hr
  case SLICE => exact step_SLICE env pre st hr
  case EMPTY_SET t =>
    simp only [Spec.step] at hr ⊢
    by_cases h : Typing.simpleComparable t = true
    · simp [Impl.step, h]
    · simp [h] at hr
  case MEM =>
    exact step_binop env pre st .MEM Spec.memB Impl.execMem (fun _ _ _ => rfl) rfl (fun a => by cases a <;> rfl)
      (fun _ => rfl) execMemB_eq hr
  case GET =>
    exact step_binop env pre st .GET Spec.getB Impl.execGet (fun _ _ _ => rfl) rfl (fun a => by cases a <;> rfl)
      (fun _ => rfl) execGetB_eq hr
  case UPDATE =>
    exact step_ternop env pre st .UPDATE Spec.updateB Impl.execUpdate (fun _ _ _ _ => rfl) rfl (fun a => by cases a <;> rfl)
      (fun a b => by cases a <;> rfl) (fun _ => rfl) execUpdateB_eq hr
  case GET_AND_UPDATE => exact step_GET_AND_UPDATE env pre st hr
  case NEVER =>
    refine absurd ?_ hr
    rcases st with _ | ⟨a, st⟩
    · rfl
    · cases a <;> rfl
  case NAT =>
    exact step_unop env pre st .NAT (Spec.unV env .NAT) (Impl.execUn env .NAT) (fun _ _ => rfl) rfl (fun _ => rfl)
      (execUn_eq env .NAT) hr
  case BYTES =>
    exact step_unop env pre st .BYTES (Spec.unV env .BYTES) (Impl.execUn env .BYTES) (fun _ _ => rfl) rfl (fun _ => rfl)
      (execUn_eq env .BYTES) hr
  case VOTING_POWER =>
    exact step_unop env pre st .VOTING_POWER (Spec.unV env .VOTING_POWER) (Impl.execUn env .VOTING_POWER) (fun _ _ => rfl) rfl
      (fun _ => rfl) (execUn_eq env .VOTING_POWER) hr
  case HASH_KEY =>
    exact step_unop env pre st .HASH_KEY (Spec.unV env .HASH_KEY) (Impl.execUn env .HASH_KEY) (fun _ _ => rfl) rfl
      (fun _ => rfl) (execUn_eq env .HASH_KEY) hr
  case ADDRESS =>
    exact step_unop env pre st .ADDRESS (Spec.unV env .ADDRESS) (Impl.execUn env .ADDRESS) (fun _ _ => rfl) rfl (fun _ => rfl)
      (execUn_eq env .ADDRESS) hr
  case IMPLICIT_ACCOUNT =>
    exact step_unop env pre st .IMPLICIT_ACCOUNT (Spec.unV env .IMPLICIT_ACCOUNT) (Impl.execUn env .IMPLICIT_ACCOUNT)
      (fun _ _ => rfl) rfl (fun _ => rfl) (execUn_eq env .IMPLICIT_ACCOUNT) hr
  case CONTRACT t ep =>
    exact step_unop env pre st (.CONTRACT t ep) (Spec.unV env (.CONTRACT t ep)) (Impl.execUn env (.CONTRACT t ep))
      (fun _ _ => rfl) rfl (fun _ => rfl) (execUn_eq env (.CONTRACT t ep)) hr
  case SET_DELEGATE =>
    exact step_unop env pre st .SET_DELEGATE (Spec.unV env .SET_DELEGATE) (Impl.execUn env .SET_DELEGATE)
      (fun _ _ => rfl) rfl (fun _ => rfl) (execUn_eq env .SET_DELEGATE) hr
  case EMIT tag t =>
    exact step_unop env pre st (.EMIT tag t) (Spec.unV env (.EMIT tag t)) (Impl.execUn env (.EMIT tag t))
      (fun _ _ => rfl) rfl (fun _ => rfl) (execUn_eq env (.EMIT tag t)) hr
  case SELF ep t => simp [Impl.step, Spec.step, addrFromValue_eq]
  case PACK =>
    exact step_unop env pre st .PACK (Spec.unV env .PACK) (Impl.execUn env .PACK) (fun _ _ => rfl) rfl (fun _ => rfl)
      (execUn_eq env .PACK) hr
  case UNPACK t =>
    exact step_unop env pre st (.UNPACK t) (Spec.unV env (.UNPACK t)) (Impl.execUn env (.UNPACK t)) (fun _ _ => rfl) rfl
      (fun _ => rfl) (execUn_eq env (.UNPACK t)) hr
  case TRANSFER_TOKENS =>
    exact step_ternop env pre st .TRANSFER_TOKENS (Spec.transferTokensV env) (Impl.execTransferTokens env) (fun _ _ _ _ => rfl) rfl
      (fun a => rfl) (fun a b => rfl) (fun _ => rfl) (execTransferTokens_eq env) hr
  case EMPTY_BIG_MAP k v =>
    simp only [Spec.step, Spec.stepMore, Spec.stepExt] at hr ⊢
    by_cases h : (Typing.simpleComparable k && Typing.bigMapValue v) = true
    · simp [Impl.step, Impl.stepMore, Impl.stepExt, h]
    · simp [h] at hr
  case CHECK_SIGNATURE =>
    exact step_ternop env pre st .CHECK_SIGNATURE (Spec.checkSignatureV env) (Impl.execCheckSignature env) (fun _ _ _ _ => rfl) rfl
      (fun a => rfl) (fun a b => rfl) (fun _ => rfl) (execCheckSignature_eq env) hr
  case PAIRN n => exact step_PAIRN env pre st n hr
  case UNPAIRN n => exact step_UNPAIRN env pre st n hr
  case GETN n => exact step_GETN env pre st n hr
  case UPDATEN n => exact step_UPDATEN env pre st n hr

end Interp
