import PytezosModel.Proofs.C21Impl
/-! C21 helper lemmas: integer scalars and their canonical representatives, and the entry points `ADD`, `MUL`, …
of `PytezosModel.Michelson.Bls` unfolded for the source the translator read (`src_eq`). -/
namespace Bls
open Core Generated.C21

/-- the source currently anchored has exactly the shape the lemmas of `C21Impl` are proved for
(re-checked against the regenerated `Generated.C21` on every build) -/
theorem src_eq : src = some expectedSrc := by decide +kernel

/-- canonical representative of an integer scalar: the value `PUSH bls12_381_fr z` leaves on the stack -/
def sc (z : Int) : Nat := (z % (r : Int)).toNat

theorem sc_cast (z : Int) : ((sc z : Nat) : Int) = z % (r : Int) := by
  have : 0 ≤ z % (r : Int) := Int.emod_nonneg _ (by decide)
  simp [sc, Int.toNat_of_nonneg this]

theorem sc_lt (z : Int) : sc z < r := by
  have h1 : z % (r : Int) < (r : Int) := Int.emod_lt_of_pos _ (by decide)
  have h2 := sc_cast z
  omega

theorem sc_add (z w : Int) : sc (z + w) = (sc z + sc w) % r := by
  have : ((sc (z + w) : Nat) : Int) = (((sc z + sc w) % r : Nat) : Int) := by
    rw [sc_cast, Int.natCast_emod, Int.natCast_add, sc_cast, sc_cast, ← Int.add_emod]
  exact Int.ofNat.inj this

theorem sc_mul (z w : Int) : sc (z * w) = (sc z * sc w) % r := by
  have : ((sc (z * w) : Nat) : Int) = (((sc z * sc w) % r : Nat) : Int) := by
    rw [sc_cast, Int.natCast_emod, Int.natCast_mul, sc_cast, sc_cast, ← Int.mul_emod]
  exact Int.ofNat.inj this

theorem sc_nat (k : Nat) : sc (k : Int) = k % r := by
  have : ((sc (k : Int) : Nat) : Int) = ((k % r : Nat) : Int) := by
    rw [sc_cast, Int.natCast_emod]
  exact Int.ofNat.inj this

theorem sc_neg_one : sc (-1) = r - 1 := by decide +kernel

/-- `sc` only depends on the residue -/
theorem sc_congr (z w : Int) (h : z % (r : Int) = w % (r : Int)) : sc z = sc w := by
  simp [sc, h]

@[simp] theorem map_ok {α β : Type} (f : α → β) (a : α) : Except.map f (Except.ok a : R α) = .ok (f a) := rfl
@[simp] theorem map_error {α β : Type} (f : α → β) (e : Err) : Except.map f (Except.error e : R α) = .error e := rfl

/-- decidable equality of results (for the closed `example`s) -/
instance decEqR {α : Type} [DecidableEq α] : DecidableEq (R α) := fun a b =>
  match a, b with
  | .ok x, .ok y => if h : x = y then isTrue (by rw [h]) else isFalse (fun e => h (Except.ok.inj e))
  | .error x, .error y => if h : x = y then isTrue (by rw [h]) else isFalse (fun e => h (Except.error.inj e))
  | .ok _, .error _ => isFalse (fun e => by cases e)
  | .error _, .ok _ => isFalse (fun e => by cases e)

variable (E : Env)

theorem ADD_eq (a b : Val) : ADD E a b = Impl.add expectedSrc E a b := by simp only [ADD, withSrc, src_eq]
theorem MUL_eq (a b : Val) : MUL E a b = Impl.mul expectedSrc E a b := by simp only [MUL, withSrc, src_eq]
theorem NEG_eq (a : Val) : NEG E a = Impl.neg expectedSrc E a := by simp only [NEG, withSrc, src_eq]
theorem INT_eq (a : Val) : INT a = Impl.int a := by simp only [INT, withSrc, src_eq]
theorem PAIRING_CHECK_eq (ps : List (Bytes × Bytes)) : PAIRING_CHECK E ps = .ok (Impl.pairingCheck expectedSrc E ps) := by
  simp only [PAIRING_CHECK, withSrc, src_eq]
theorem enc1_eq (P : E.K1.G) : enc1 E P = ofOpt .value (fromPoint E.K1 L1 P) := by
  simp only [enc1, withSrc, src_eq, expectedSrc]
theorem enc2_eq (P : E.K2.G) : enc2 E P = ofOpt .value (fromPoint E.K2 L2 P) := by
  simp only [enc2, withSrc, src_eq, expectedSrc]
theorem dec1_eq (b : Bytes) : dec1 E b = .ok (toPoint E.K1 L1 b) := by
  simp only [dec1, withSrc, src_eq, expectedSrc]
theorem dec2_eq (b : Bytes) : dec2 E b = .ok (toPoint E.K2 L2 b) := by
  simp only [dec2, withSrc, src_eq, expectedSrc]

theorem pushFrInt_eq (z : Int) : pushFrInt z = .ok (.num .fr (sc z : Int)) := by
  simp only [pushFrInt, withSrc, src_eq, impl_frOfInt, sc_cast]

theorem pushFrBytes_eq (bs : Bytes) (h : bs.length ≤ 32) : pushFrBytes bs = pushFrInt (leToNat bs : Int) := by
  rw [pushFrInt_eq, sc_cast]
  simp only [pushFrBytes, withSrc, src_eq, impl_frOfBytes bs h]

theorem pushFrBytes_long (bs : Bytes) (h : 32 < bs.length) : pushFrBytes bs = .error .value := by
  simp only [pushFrBytes, withSrc, src_eq, impl_frOfBytes_long bs h]

theorem frBytes_eq (a : Val) : frBytes a = Impl.frToBytes expectedSrc a := by simp only [frBytes, withSrc, src_eq]

end Bls
