import PytezosModel.Michelson.Session
/-! helper lemmas for C22: values and references, the heap as a store, and the simulation of the heap run of a
well-formed session state (every stacked big map points at the interpreter's context) by the aliasing-free run over a
single context (`unitStore`) -/
namespace Proofs.C22
open Impl.Session Impl.BigMap

/-! ### values and references -/

theorem map_map {ρ ρ' ρ'' : Type} (f : ρ' → ρ'') (g : ρ → ρ') (v : Val ρ) : (v.map g).map f = v.map (f ∘ g) := by
  induction v with
  | some v ih => simp [Val.map, ih]
  | pair a b iha ihb => simp [Val.map, iha, ihb]
  | _ => simp [Val.map]

theorem map_unit_id (v : Val Unit) (f : Unit → Unit) : v.map f = v := by
  induction v with
  | some v ih => simp [Val.map, ih]
  | pair a b iha ihb => simp [Val.map, iha, ihb]
  | _ => simp [Val.map]

/-- give every big map of an address-free value the reference `cur` -/
abbrev rb (cur : Nat) (v : Val Unit) : Val Nat := v.map fun _ => cur

theorem erase_rb (cur : Nat) (v : Val Unit) : erase (rb cur v) = v := by
  simp only [erase, rb, map_map]
  exact map_unit_id v _

theorem erase_unit (v : Val Unit) : erase v = v := map_unit_id v _

theorem refs_map {ρ ρ' : Type} (f : ρ → ρ') (v : Val ρ) : (v.map f).refs = v.refs.map f := by
  induction v with
  | some v ih => simp [Val.map, Val.refs, ih]
  | pair a b iha ihb => simp [Val.map, Val.refs, iha, ihb]
  | _ => simp [Val.map, Val.refs]

theorem rb_erase (cur : Nat) (v : Val Nat) (h : ∀ r ∈ v.refs, r = cur) : rb cur (erase v) = v := by
  induction v with
  | some v ih => simp only [erase, rb, Val.map, Val.some.injEq]; exact ih (by simpa [Val.refs] using h)
  | pair a b iha ihb =>
    simp only [Val.refs, List.mem_append] at h
    simp only [erase, rb, Val.map, Val.pair.injEq]
    exact ⟨iha (fun r hr => h r (Or.inl hr)), ihb (fun r hr => h r (Or.inr hr))⟩
  | bigmap b r => simp only [erase, rb, Val.map, Val.bigmap.injEq, true_and]; exact (h r (by simp [Val.refs])).symm
  | _ => simp [erase, rb, Val.map]

theorem typeOf_map {ρ ρ' : Type} (f : ρ → ρ') (v : Val ρ) : (v.map f).typeOf = v.typeOf := by
  induction v with
  | some v ih => simp [Val.map, Val.typeOf, ih]
  | pair a b iha ihb => simp [Val.map, Val.typeOf, iha, ihb]
  | _ => simp [Val.map, Val.typeOf]

/-! ### the heap as a store -/

theorem set_self {α : Type} (l : List α) (i : Nat) (a : α) (h : l[i]? = some a) : l.set i a = l := by
  induction l generalizing i with
  | nil => rfl
  | cons x xs ih =>
    cases i with
    | zero => simp at h; simp [h]
    | succ i => simp at h; simp [ih i h]

theorem get_set {α : Type} (l : List α) (i : Nat) (a b : α) (h : l[i]? = some a) : (l.set i b)[i]? = some b := by
  induction l generalizing i with
  | nil => simp at h
  | cons x xs ih =>
    cases i with
    | zero => simp
    | succ i => simp at h; simp [ih i h]


/-! ### stack-only instructions commute with renaming of references -/

def mapRes {ρ ρ' : Type} (f : ρ → ρ') : Except Impl.Session.Err (List (Val ρ)) → Except Impl.Session.Err (List (Val ρ'))
  | .ok st => .ok (st.map (Val.map f))
  | .error e => .error e

theorem stackOnly_map {ρ ρ' : Type} (f : ρ → ρ') (b : Basic) (st : List (Val ρ)) :
    stackOnly b (st.map (Val.map f)) = (stackOnly b st).map (mapRes f) := by
  cases b with
  | push n => simp [stackOnly, mapRes, Val.map]
  | none_ t => simp [stackOnly, mapRes, Val.map]
  | unit => simp [stackOnly, mapRes, Val.map]
  | nilOp => simp [stackOnly, mapRes, Val.map]
  | some => cases st <;> simp [stackOnly, mapRes, Val.map]
  | dup => cases st <;> simp [stackOnly, mapRes, Val.map]
  | drop => cases st <;> simp [stackOnly, mapRes, Val.map]
  | failwith => cases st <;> simp [stackOnly, mapRes, Val.map]
  | swap => rcases st with _ | ⟨x, _ | ⟨y, st⟩⟩ <;> simp [stackOnly, mapRes, Val.map]
  | pair => rcases st with _ | ⟨x, _ | ⟨y, st⟩⟩ <;> simp [stackOnly, mapRes, Val.map]
  | car =>
    rcases st with _ | ⟨x, st⟩
    · simp [stackOnly, mapRes]
    · cases x <;> simp [stackOnly, mapRes, Val.map]
  | cdr =>
    rcases st with _ | ⟨x, st⟩
    · simp [stackOnly, mapRes]
    · cases x <;> simp [stackOnly, mapRes, Val.map]
  | add =>
    rcases st with _ | ⟨x, _ | ⟨y, st⟩⟩
    · simp [stackOnly, mapRes]
    · cases x <;> simp [stackOnly, mapRes, Val.map]
    · cases x <;> cases y <;> simp [stackOnly, mapRes, Val.map]
  | emptyBigMap => simp [stackOnly]
  | update => simp [stackOnly]
  | get => simp [stackOnly]
  | mem => simp [stackOnly]
  | getAndUpdate => simp [stackOnly]


/-! ### simulation: the heap run of a well-formed state is the single-context run, written back at `cur` -/

section sim
variable (cur : Nat) (h : List Impl.Session.Ctx) (c : Impl.Session.Ctx) (hc : h[cur]? = some c)

abbrev rbs (cur : Nat) (st : List (Val Unit)) : List (Val Nat) := st.map (Val.map fun _ => cur)

include hc in
theorem bmGet_sim (b : BM Nat Nat) (k : Nat) : bmGet heapStore h b cur k = bmGet unitStore c b () k := by
  simp only [bmGet, heapStore, unitStore, hc]

include hc in
theorem bmUpdate_sim (b : BM Nat Nat) (k : Nat) (v : Option Nat) :
    bmUpdate heapStore h b cur k v = bmUpdate unitStore c b () k v := by
  simp only [bmUpdate, bmGet_sim cur h c hc]

theorem optVal_map {ρ ρ' : Type} (f : ρ → ρ') (v : Option Nat) : (optVal v : Val ρ).map f = optVal v := by
  cases v <;> simp [optVal, Val.map]

theorem asOptNat_map {ρ ρ' : Type} (f : ρ → ρ') (v : Val ρ) : asOptNat (v.map f) = asOptNat v := by
  cases v with
  | some w => cases w <;> simp [asOptNat, Val.map]
  | _ => simp [asOptNat, Val.map]

include hc in
theorem stepBigMap_sim (b : Basic) (pst : List (Val Unit)) :
    stepBigMap heapStore h b (rbs cur pst) = mapRes (fun _ => cur) (stepBigMap unitStore c b pst) := by
  have hg := bmGet_sim cur h c hc
  have hu := bmUpdate_sim cur h c hc
  cases b with
  | get =>
    rcases pst with _ | ⟨x, _ | ⟨y, st⟩⟩
    · simp [stepBigMap, rbs, mapRes]
    · cases x <;> simp [stepBigMap, rbs, rb, mapRes, Val.map]
    · cases x <;> cases y <;> simp [stepBigMap, rbs, rb, mapRes, Val.map]
      rename_i k b' r
      rw [hg]
      cases bmGet unitStore c b' () k <;> simp [Except.map, mapRes, optVal_map, Val.map]
  | mem =>
    rcases pst with _ | ⟨x, _ | ⟨y, st⟩⟩
    · simp [stepBigMap, rbs, mapRes]
    · cases x <;> simp [stepBigMap, rbs, rb, mapRes, Val.map]
    · cases x <;> cases y <;> simp [stepBigMap, rbs, rb, mapRes, Val.map]
      rename_i k b' r
      rw [hg]
      cases bmGet unitStore c b' () k <;> simp [Except.map, mapRes, Val.map]
  | update =>
    rcases pst with _ | ⟨x, _ | ⟨y, _ | ⟨z, st⟩⟩⟩
    · simp [stepBigMap, rbs, mapRes]
    · cases x <;> simp [stepBigMap, rbs, rb, mapRes, Val.map]
    · cases x <;> cases y <;> simp [stepBigMap, rbs, rb, mapRes, Val.map]
    · cases x <;> cases z <;> simp [stepBigMap, rbs, rb, mapRes, Val.map]
      rename_i k b' r
      have := asOptNat_map (fun (_ : Unit) => cur) y
      rw [this]
      cases asOptNat y with
      | error e => simp [Except.bind, bind, mapRes]
      | ok ov =>
        simp only [Except.bind, bind, hu]
        cases bmUpdate unitStore c b' () k ov <;> simp [Except.map, mapRes, Val.map]
  | getAndUpdate =>
    rcases pst with _ | ⟨x, _ | ⟨y, _ | ⟨z, st⟩⟩⟩
    · simp [stepBigMap, rbs, mapRes]
    · cases x <;> simp [stepBigMap, rbs, rb, mapRes, Val.map]
    · cases x <;> cases y <;> simp [stepBigMap, rbs, rb, mapRes, Val.map]
    · cases x <;> cases z <;> simp [stepBigMap, rbs, rb, mapRes, Val.map]
      rename_i k b' r
      have := asOptNat_map (fun (_ : Unit) => cur) y
      rw [this]
      cases asOptNat y with
      | error e => simp [Except.bind, bind, mapRes]
      | ok ov =>
        simp only [Except.bind, bind, hu]
        cases bmUpdate unitStore c b' () k ov <;> simp [Except.map, mapRes, optVal_map, Val.map]
  | _ => simp [stepBigMap, mapRes]


include hc in
theorem stepBasic_sim (b : Basic) (pst : List (Val Unit)) :
    stepBasic heapStore cur b (rbs cur pst) h =
      (mapRes (fun _ => cur) (stepBasic unitStore () b pst c).1, h.set cur (stepBasic unitStore () b pst c).2) := by
  have hs := set_self h cur c hc
  simp only [stepBasic, rbs, stackOnly_map]
  cases hso : stackOnly b pst with
  | some r => simp [hs]
  | none =>
    simp only [Option.map_none]
    cases b with
    | emptyBigMap => simp [heapStore, unitStore, hc, mapRes, Val.map]
    | get => simp [hs, stepBigMap_sim cur h c hc, rbs]
    | mem => simp [hs, stepBigMap_sim cur h c hc, rbs]
    | update => simp [hs, stepBigMap_sim cur h c hc, rbs]
    | getAndUpdate => simp [hs, stepBigMap_sim cur h c hc, rbs]
    | _ => simp [hs, stepBigMap, mapRes]

end sim

theorem runBasics_sim (cur : Nat) (bs : List Basic) (h : List Impl.Session.Ctx) (c : Impl.Session.Ctx) (hc : h[cur]? = some c)
    (pst : List (Val Unit)) :
    runBasics heapStore cur bs (rbs cur pst) h =
      (mapRes (fun _ => cur) (runBasics unitStore () bs pst c).1, h.set cur (runBasics unitStore () bs pst c).2) := by
  induction bs generalizing h c pst with
  | nil => simp [runBasics, mapRes, set_self h cur c hc]
  | cons b bs ih =>
    simp only [runBasics, stepBasic_sim cur h c hc]
    cases hr : stepBasic unitStore () b pst c with
    | mk r c' =>
      cases r with
      | error e => simp [mapRes]
      | ok st' =>
        simp only [mapRes]
        have := ih (h.set cur c') c' (get_set h cur c c' hc) st'
        simp only [rbs] at this
        rw [this]
        simp
        cases (runBasics unitStore () bs st' c').fst <;> rfl


theorem attachVal_sim (cur : Nat) (copy : Bool) (v : Val Unit) (c : Impl.BigMap.Ctx) :
    attachVal cur copy v c = ((attachVal () copy v c).1.map (fun _ => cur), (attachVal () copy v c).2) := by
  induction v generalizing c with
  | some v ih => simp [attachVal, ih c, Val.map]
  | pair a b iha ihb =>
    simp only [attachVal, Val.map]
    rw [iha c, ihb]
  | bigmap b r => simp [attachVal, Val.map]
  | _ => simp [attachVal, Val.map]

def mapAgg (cur : Nat) : Except Impl.Session.Err (Val Unit × List Entry) → Except Impl.Session.Err (Val Nat × List Entry)
  | .ok r => .ok (rb cur r.1, r.2)
  | .error e => .error e

theorem aggVal_sim (cur : Nat) (pv : Val Unit) (h : List Impl.Session.Ctx) (c : Impl.Session.Ctx) (hc : h[cur]? = some c) :
    aggVal heapStore (rb cur pv) h = (mapAgg cur (aggVal unitStore pv c).1, h.set cur (aggVal unitStore pv c).2) := by
  induction pv generalizing h c with
  | bigmap b r =>
    simp only [aggVal, rb, Val.map, heapStore, unitStore, hc]
    cases aggregateLazyDiff (fun _ => ()) c.big b with
    | none => simp [mapAgg, set_self h cur c hc]
    | some res => simp [mapAgg, Val.map]
  | pair a b iha ihb =>
    simp only [aggVal, rb, Val.map]
    have ha := iha h c hc
    simp only [rb] at ha
    rw [ha]
    cases hra : aggVal unitStore a c with
    | mk ra c1 =>
      cases ra with
      | error e => simp [mapAgg]
      | ok ra =>
        simp only [mapAgg]
        have hb := ihb (h.set cur c1) c1 (get_set h cur c c1 hc)
        simp only [rb] at hb
        rw [hb]
        cases hrb : aggVal unitStore b c1 with
        | mk rb' c2 =>
          cases rb' with
          | error e => simp [mapAgg]
          | ok rb' => simp [mapAgg, Val.map]
  | some v ih =>
    simp only [aggVal, rb, Val.map]
    have hv := ih h c hc
    simp only [rb] at hv
    rw [hv]
    cases hrv : aggVal unitStore v c with
    | mk rv c1 =>
      cases rv with
      | error e => simp [mapAgg]
      | ok rv => simp [mapAgg, Val.map]
  | _ => simp [aggVal, rb, Val.map, mapAgg, set_self h cur c hc]


def mapVal (cur : Nat) : Except Impl.Session.Err (Val Unit) → Except Impl.Session.Err (Val Nat)
  | .ok v => .ok (rb cur v)
  | .error e => .error e

theorem beginWith_sim (cur : Nat) (p s : Lit) (h : List Impl.Session.Ctx) (c : Impl.Session.Ctx) (hc : h[cur]? = some c) :
    beginWith heapStore cur p s h = (mapVal cur (beginWith unitStore () p s c).1, h.set cur (beginWith unitStore () p s c).2) := by
  have hs := set_self h cur c hc
  simp only [beginWith, heapStore, unitStore, hc]
  cases c.paramTy with
  | none => simp [mapVal, hs]
  | some pt =>
    cases c.storageTy with
    | none => simp [mapVal, hs]
    | some sty =>
      simp only []
      cases parseLit pt p with
      | error e => simp [mapVal, hs]
      | ok pv =>
        cases parseLit sty s with
        | error e => simp [mapVal, hs]
        | ok sv =>
          simp only [mapVal]
          rw [attachVal_sim cur true pv, attachVal_sim cur false sv]
          simp [Val.map]

theorem endWith_sim (cur : Nat) (res : Val Unit) (h : List Impl.Session.Ctx) (c : Impl.Session.Ctx) (hc : h[cur]? = some c) :
    endWith heapStore cur (rb cur res) h = (mapAgg cur (endWith unitStore () res c).1, h.set cur (endWith unitStore () res c).2) := by
  have hs := set_self h cur c hc
  have hrd : heapStore.rd h cur = some c := hc
  have hrd' : unitStore.rd c () = some c := rfl
  simp only [endWith, hrd, hrd']
  cases c.storageTy with
  | none => simp [mapAgg, hs]
  | some sty =>
    cases res with
    | pair ops sv =>
      simp only [rb, Val.map]
      have ht : (Val.pair (ops.map fun _ => cur) (sv.map fun _ => cur)).typeOf = (Val.pair ops sv).typeOf := by
        simp [Val.typeOf, typeOf_map]
      simp only [ht]
      by_cases hty : (Val.pair ops sv).typeOf = .pair .listOp sty
      · simp only [hty, if_true]
        have := aggVal_sim cur sv h c hc
        simp only [rb] at this
        rw [this]
        cases hra : aggVal unitStore sv c with
        | mk ra c1 =>
          cases ra with
          | error e => simp [mapAgg]
          | ok ra => simp [mapAgg, Val.map]
      · simp [hty, mapAgg, hs]
    | _ => simp [rb, Val.map, mapAgg, hs]


def mapStep (cur : Nat) : Except Impl.Session.Err (List (Val Unit) × List Out) → Except Impl.Session.Err (List (Val Nat) × List Out)
  | .ok r => .ok (rbs cur r.1, r.2)
  | .error e => .error e

theorem stepInstr_sim (cur : Nat) (i : Instr) (pst : List (Val Unit)) (h : List Impl.Session.Ctx) (c : Impl.Session.Ctx)
    (hc : h[cur]? = some c) :
    stepInstr heapStore cur i (rbs cur pst) h =
      (mapStep cur (stepInstr unitStore () i pst c).1, h.set cur (stepInstr unitStore () i pst c).2) := by
  have hs := set_self h cur c hc
  have hrd : heapStore.rd h cur = some c := hc
  have hrd' : unitStore.rd c () = some c := rfl
  cases i with
  | basic b =>
    simp only [stepInstr, stepBasic_sim cur h c hc]
    cases hr : stepBasic unitStore () b pst c with
    | mk r c' => cases r <;> simp [mapRes, mapStep]
  | declStorage t => simp [stepInstr, mapStep, heapStore, unitStore, hc]
  | declParam t => simp [stepInstr, mapStep, heapStore, unitStore, hc]
  | declCode code => simp [stepInstr, mapStep, heapStore, unitStore, hc]
  | begin_ p sl =>
    simp only [stepInstr, beginWith_sim cur p sl h c hc]
    cases hr : beginWith unitStore () p sl c with
    | mk r c' => cases r <;> simp [mapVal, mapStep]
  | commit =>
    rcases pst with _ | ⟨res, _ | ⟨y, st⟩⟩
    · simp [stepInstr, mapStep, hs]
    · simp only [stepInstr, rbs, List.map_cons, List.map_nil]
      have := endWith_sim cur res h c hc
      simp only [rb] at this
      rw [this]
      cases hr : endWith unitStore () res c with
      | mk r c' => cases r <;> simp [mapAgg, mapStep, erase_rb, erase_unit]
    · simp [stepInstr, mapStep, hs]
  | run p sl =>
    simp only [stepInstr, hrd, hrd']
    cases c.code with
    | none => simp [mapStep, hs]
    | some code =>
      simp only [beginWith_sim cur p sl h c hc]
      cases hr : beginWith unitStore () p sl c with
      | mk r c1 =>
        cases r with
        | error e => simp [mapVal, mapStep]
        | ok v =>
          simp only [mapVal]
          have hc1 := get_set h cur c c1 hc
          have := runBasics_sim cur code (h.set cur c1) c1 hc1 [v]
          simp only [rbs, List.map_cons, List.map_nil] at this
          simp only [rb]
          rw [this]
          cases hr2 : runBasics unitStore () code [v] c1 with
          | mk r2 c2 =>
            cases r2 with
            | error e => simp [mapRes, mapStep]
            | ok st2 =>
              rcases st2 with _ | ⟨res, _ | ⟨y, st⟩⟩
              · simp [mapRes, mapStep]
              · simp only [mapRes, List.map_cons, List.map_nil]
                have hc2 : ((h.set cur c1).set cur c2)[cur]? = some c2 := get_set _ cur c1 c2 hc1
                have he := endWith_sim cur res _ c2 hc2
                simp only [rb] at he
                rw [he]
                cases hr3 : endWith unitStore () res c2 with
                | mk r3 c3 =>
                  cases r3 with
                  | error e => simp [mapAgg, mapStep]
                  | ok r3 =>
                    simp only [mapAgg, mapStep, rbs, List.map_nil, List.set_set]
                    have := erase_rb cur res
                    simp only [rb] at this
                    rw [this, erase_unit]
              · simp [mapRes, mapStep]
  | dropAll => simp [stepInstr, mapStep, hs]
  | bigMapDiff =>
    rcases pst with _ | ⟨v, st⟩
    · simp [stepInstr, mapStep, hs]
    · simp only [stepInstr, rbs, List.map_cons]
      have := aggVal_sim cur v h c hc
      simp only [rb] at this
      rw [this]
      cases hr : aggVal unitStore v c with
      | mk r c' => cases r <;> simp [mapAgg, mapStep]
  | parseError => simp [stepInstr, mapStep, hs]

theorem runInstrs_sim (cur : Nat) (is : List Instr) (pst : List (Val Unit)) (h : List Impl.Session.Ctx) (c : Impl.Session.Ctx)
    (hc : h[cur]? = some c) :
    runInstrs heapStore cur is (rbs cur pst) h =
      (mapStep cur (runInstrs unitStore () is pst c).1, h.set cur (runInstrs unitStore () is pst c).2) := by
  induction is generalizing pst h c with
  | nil => simp [runInstrs, mapStep, set_self h cur c hc]
  | cons i is ih =>
    simp only [runInstrs, stepInstr_sim cur i pst h c hc]
    cases hr : stepInstr unitStore () i pst c with
    | mk r c1 =>
      cases r with
      | error e => simp [mapStep]
      | ok r =>
        simp only [mapStep]
        rw [ih r.1 (h.set cur c1) c1 (get_set h cur c c1 hc)]
        cases hr2 : runInstrs unitStore () is r.1 c1 with
        | mk r2 c2 => cases r2 <;> simp [mapStep]


/-! ### cells and sessions: the aliasing-free reading -/

/-- a session state without addresses: the stack and the one context -/
abbrev PState := List (Val Unit) × Impl.Session.Ctx

/-- a cell on the aliasing-free state: run; on error nothing changes -/
def cellP (a : PState) (cl : Cell) : PState × CellResult :=
  match runInstrs unitStore () cl a.1 a.2 with
  | (.ok r, c') => ((r.1, c'), .ok r.2)
  | (.error _, _) => (a, .failed)

def sessionP : PState → List Cell → List CellResult × PState
  | a, [] => ([], a)
  | a, cl :: cs =>
    let r := cellP a cl
    let rest := sessionP r.1 cs
    (r.2 :: rest.1, rest.2)

def dropFailingP : PState → List Cell → List Cell
  | _, [] => []
  | a, cl :: cs =>
    let r := cellP a cl
    if r.2.isFailed then dropFailingP r.1 cs else cl :: dropFailingP r.1 cs

def obsP (a : PState) : Observation := ⟨a.1, (a.1.flatMap Val.refs).map fun _ => some a.2, some a.2⟩

/-- a heap state represents the aliasing-free state `a` -/
def Rep (σ : State) (a : PState) : Prop := WF σ ∧ σ.heap[σ.cur]? = some a.2 ∧ σ.stack.map erase = a.1

theorem stack_eq_rbs {σ : State} (hwf : WF σ) : σ.stack = rbs σ.cur (σ.stack.map erase) := by
  simp only [rbs, List.map_map]
  have : ∀ v ∈ σ.stack, ((Val.map fun _ => σ.cur) ∘ erase) v = v := fun v hv => rb_erase σ.cur v (hwf.2 v hv)
  rw [List.map_congr_left this]
  simp

theorem flatMap_refs_rbs (cur : Nat) (pst : List (Val Unit)) :
    (rbs cur pst).flatMap Val.refs = (pst.flatMap Val.refs).map fun _ => cur := by
  induction pst with
  | nil => rfl
  | cons v st ih =>
    simp only [rbs, List.map_cons, List.flatMap_cons, List.map_append] at ih ⊢
    rw [ih, refs_map]

theorem observe_rep {σ : State} {a : PState} (h : Rep σ a) : observe σ = obsP a := by
  obtain ⟨hwf, hc, hst⟩ := h
  have hs := stack_eq_rbs hwf
  simp only [observe, obsP, hc, hst]
  congr 1
  rw [hs, flatMap_refs_rbs, hst, List.map_map]
  apply List.map_congr_left
  intro r _
  simp [hc]

theorem rep_init : Rep State.init ([], Ctx.init) := by
  refine ⟨⟨by simp [State.init], by simp [State.init]⟩, by simp [State.init], by simp [State.init]⟩

theorem refs_rbs (cur : Nat) (pst : List (Val Unit)) : ∀ v ∈ rbs cur pst, ∀ r ∈ v.refs, r = cur := by
  intro v hv r hr
  obtain ⟨w, _, rfl⟩ := List.mem_map.1 hv
  rw [refs_map] at hr
  obtain ⟨_, _, rfl⟩ := List.mem_map.1 hr
  rfl

theorem erase_rbs (cur : Nat) (pst : List (Val Unit)) : (rbs cur pst).map erase = pst := by
  simp only [rbs, List.map_map]
  have : ∀ v ∈ pst, (erase ∘ Val.map fun _ => cur) v = v := fun v _ => erase_rb cur v
  rw [List.map_congr_left this]
  simp

/-- one cell with the repaired backup: the heap run represents the aliasing-free run, with the same result -/
theorem cell_rep {σ : State} {a : PState} (h : Rep σ a) (cl : Cell) :
    Rep (cellWith true σ cl).1 (cellP a cl).1 ∧ (cellWith true σ cl).2 = (cellP a cl).2 := by
  obtain ⟨hwf, hc, hst⟩ := h
  obtain ⟨pst, c⟩ := a
  simp only at hc hst
  have hlt : σ.cur < σ.heap.length := hwf.1
  have hc1 : (σ.heap ++ [c])[σ.cur]? = some c := by rw [List.getElem?_append_left hlt]; exact hc
  have hs := stack_eq_rbs hwf
  rw [hst] at hs
  have hsim := runInstrs_sim σ.cur cl pst (σ.heap ++ [c]) c hc1
  simp only [cellWith, hc, cellP]
  have hsim' : runInstrs heapStore σ.cur cl σ.stack (σ.heap ++ [c]) =
      (mapStep σ.cur (runInstrs unitStore () cl pst c).1, (σ.heap ++ [c]).set σ.cur (runInstrs unitStore () cl pst c).2) := by
    rw [hs]; exact hsim
  rw [hsim']
  cases hr : runInstrs unitStore () cl pst c with
  | mk r c' =>
    cases r with
    | ok r =>
      simp only [mapStep]
      refine ⟨⟨⟨?_, refs_rbs _ _⟩, ?_, erase_rbs _ _⟩, trivial⟩
      · simp only [List.length_set, List.length_append, List.length_cons, List.length_nil]; omega
      · exact get_set _ _ _ _ hc1
    | error e =>
      simp only [mapStep]
      refine ⟨⟨⟨?_, ?_⟩, ?_, ?_⟩, trivial⟩
      · simp only [List.length_set, List.length_append, List.length_cons, List.length_nil]; omega
      · intro v hv r hr'
        obtain ⟨w, hw, rfl⟩ := List.mem_map.1 hv
        rw [refs_map] at hr'
        obtain ⟨r0, hr0, rfl⟩ := List.mem_map.1 hr'
        simp [hwf.2 w hw r0 hr0]
      · simp only
        rw [List.getElem?_set_ne (by omega)]
        simp
      · simp only [List.map_map]
        rw [← hst]
        apply List.map_congr_left
        intro v _
        simp only [Function.comp, erase, map_map]


theorem session_rep {σ : State} {a : PState} (h : Rep σ a) (cs : List Cell) :
    (sessionWith true σ cs).1 = (sessionP a cs).1 ∧ Rep (sessionWith true σ cs).2 (sessionP a cs).2 := by
  induction cs generalizing σ a with
  | nil => exact ⟨rfl, h⟩
  | cons cl cs ih =>
    obtain ⟨h1, h2⟩ := cell_rep h cl
    obtain ⟨i1, i2⟩ := ih h1
    simp only [sessionWith, sessionP]
    exact ⟨by rw [h2, i1], i2⟩

theorem dropFailing_rep {σ : State} {a : PState} (h : Rep σ a) (cs : List Cell) :
    dropFailingWith true σ cs = dropFailingP a cs := by
  induction cs generalizing σ a with
  | nil => rfl
  | cons cl cs ih =>
    obtain ⟨h1, h2⟩ := cell_rep h cl
    simp only [dropFailingWith, dropFailingP, h2, ih h1]

theorem cellP_failed (a : PState) (cl : Cell) (h : (cellP a cl).2.isFailed = true) : (cellP a cl).1 = a := by
  simp only [cellP] at h ⊢
  cases hr : runInstrs unitStore () cl a.1 a.2 with
  | mk r c' =>
    rw [hr] at h
    cases r with
    | ok r => simp [CellResult.isFailed] at h
    | error e => rfl

/-- on the aliasing-free state a failing cell changes nothing, so dropping the failing cells changes neither the
results of the others nor the final state -/
theorem sessionP_filtered (a : PState) (cs : List Cell) :
    (sessionP a (dropFailingP a cs)).1 = (sessionP a cs).1.filter (fun r => !r.isFailed) ∧
    (sessionP a (dropFailingP a cs)).2 = (sessionP a cs).2 := by
  induction cs generalizing a with
  | nil => exact ⟨rfl, rfl⟩
  | cons cl cs ih =>
    simp only [dropFailingP, sessionP]
    by_cases hf : (cellP a cl).2.isFailed = true
    · have ha := cellP_failed a cl hf
      simp only [hf, if_true, List.filter_cons, Bool.not_true, Bool.false_eq_true, if_false]
      rw [ha]
      exact ih a
    · have hf' : (cellP a cl).2.isFailed = false := by simpa using hf
      obtain ⟨i1, i2⟩ := ih (cellP a cl).1
      simp only [hf', Bool.false_eq_true, if_false, sessionP, List.filter_cons, Bool.not_false, if_true]
      exact ⟨by rw [i1], i2⟩

theorem exists_rep {σ : State} (hwf : WF σ) : ∃ a, Rep σ a := by
  have hlt := hwf.1
  refine ⟨(σ.stack.map erase, σ.heap[σ.cur]), hwf, ?_, rfl⟩
  simp [List.getElem?_eq_getElem hlt]

def traceP : PState → List Cell → List (CellResult × Observation)
  | _, [] => []
  | a, cl :: cs =>
    let r := cellP a cl
    (r.2, obsP r.1) :: traceP r.1 cs

theorem trace_rep {σ : State} {a : PState} (h : Rep σ a) (cs : List Cell) : traceWith true σ cs = traceP a cs := by
  induction cs generalizing σ a with
  | nil => rfl
  | cons cl cs ih =>
    obtain ⟨h1, h2⟩ := cell_rep h cl
    simp only [traceWith, traceP, h2, observe_rep h1, ih h1]

theorem traceP_filtered (a : PState) (cs : List Cell) :
    traceP a (dropFailingP a cs) = (traceP a cs).filter (fun r => !r.1.isFailed) := by
  induction cs generalizing a with
  | nil => rfl
  | cons cl cs ih =>
    simp only [dropFailingP, traceP]
    by_cases hf : (cellP a cl).2.isFailed = true
    · have ha := cellP_failed a cl hf
      simp only [hf, if_true, List.filter_cons, Bool.not_true, Bool.false_eq_true, if_false]
      rw [ha]
      exact ih a
    · have hf' : (cellP a cl).2.isFailed = false := by simpa using hf
      simp only [hf', Bool.false_eq_true, if_false, traceP, List.filter_cons, Bool.not_false, if_true]
      rw [ih]

end Proofs.C22
